import PeliteModel.Spec.PatternSem
import PeliteModel.Lemmas.Exec
import PeliteModel.Lemmas.PeHdr
import PeliteModel.Lemmas.Pattern
/-!
Lemmas for C11 (semantic half): the interpreter model `Exec.exec` run on the reference compiler's
output computes the documented semantics `PatSem.sem`.

Contents: (A) fuel-free view of `exec` (`execT`) with one unfolding equation per atom;
(B) trimming redundant trailing atoms does not change the answer; (C) facts about `sem`;
(D) the `memchr` peek shortcut of `exec_many`; (E) compiler correctness per frame; (F) assembly.
-/
namespace Pelite.PatSem
open Pelite.Pattern Pelite.Exec

/-! ## (A) `exec` without fuel -/

theorem manyLoop_mono {mem : Bytes} {ex ex' : St → Out (Bool × St)} {cursor pc off : Nat} {peek : Option Nat}
    (hex : ∀ s r, ex s = .ok r → ex' s = .ok r) :
    ∀ (k i : Nat) (st : St) (r : Bool × St), manyLoop mem ex cursor pc off peek k i st = .ok r →
      manyLoop mem ex' cursor pc off peek k i st = .ok r := by
  intro k
  induction k with
  | zero => intro i st r h; simpa [manyLoop] using h
  | succ k ih =>
    intro i st r h
    simp only [manyLoop] at h ⊢
    split
    · next hp =>
      simp only [hp, if_true] at h
      cases hx : ex { st with cursor := wadd32 cursor i, pc := pc } with
      | ok v =>
        obtain ⟨b, st'⟩ := v
        rw [hex _ _ hx]
        rw [hx] at h
        cases b
        · exact ih _ _ _ h
        · exact h
      | err e => rw [hx] at h; cases h
      | panic s => rw [hx] at h; cases h
      | ub s => rw [hx] at h; cases h
      | diverge => rw [hx] at h; cases h
    · next hp =>
      simp only [hp] at h
      exact ih _ _ _ h

theorem exec_mono (S : ScanI) (pat : List Atom) :
    ∀ fuel st m e r, exec S pat fuel st m e = .ok r → exec S pat (fuel + 1) st m e = .ok r := by
  intro fuel
  induction fuel with
  | zero => intro st m e r h; cases h
  | succ fuel ih =>
    intro st m e r h
    cases hp : pat[st.pc]? with
    | none => rw [exec_none hp] at h ⊢; exact h
    | some a =>
      cases a with
      | push skip =>
        rw [exec_push hp] at h ⊢
        cases hx : exec S pat fuel { st with pc := st.pc + 1 } 0xff 0 with
        | ok v =>
          obtain ⟨b, st'⟩ := v
          rw [hx] at h
          rw [ih _ _ _ _ hx]
          cases b
          · exact h
          · exact ih _ _ _ _ h
        | err x => rw [hx] at h; cases h
        | panic x => rw [hx] at h; cases h
        | ub x => rw [hx] at h; cases h
        | diverge => rw [hx] at h; cases h
      | pop => rw [exec_pop hp] at h ⊢; exact h
      | many limit =>
        rw [exec_many hp] at h ⊢
        cases hs : S.slice st.cursor with
        | none =>
          have hs' : S.slice ({ st with pc := st.pc + 1 } : St).cursor = none := hs
          rw [execMany_none hs'] at h ⊢; exact h
        | some ol =>
          obtain ⟨off, len⟩ := ol
          have hs' : S.slice ({ st with pc := st.pc + 1 } : St).cursor = some (off, len) := hs
          by_cases hle : ({ st with pc := st.pc + 1 } : St).pc ≤ pat.length
          · rw [execMany_some hs' hle] at h ⊢
            exact manyLoop_mono (fun s r hr => ih s _ _ r hr) _ _ _ _ h
          · simp [execMany, hs, hle] at h
      | case next =>
        rw [exec_case hp] at h ⊢
        cases hx : exec S pat fuel { st with pc := st.pc + 1 } 0xff 0 with
        | ok v =>
          obtain ⟨b, st'⟩ := v
          rw [hx] at h
          rw [ih _ _ _ _ hx]
          cases b
          · exact ih _ _ _ _ h
          · exact ih _ _ _ _ h
        | err x => rw [hx] at h; cases h
        | panic x => rw [hx] at h; cases h
        | ub x => rw [hx] at h; cases h
        | diverge => rw [hx] at h; cases h
      | brk next => rw [exec_brk hp] at h ⊢; exact h
      | _ =>
        rw [exec_simple hp rfl] at h ⊢
        cases hs : step S _ { st with pc := st.pc + 1 } m e with
        | ok v =>
          rw [hs] at h
          cases v with
          | none => exact h
          | some t => obtain ⟨st', m', e'⟩ := t; exact ih _ _ _ _ h
        | err x => rw [hs] at h; cases h
        | panic x => rw [hs] at h; cases h
        | ub x => rw [hs] at h; cases h
        | diverge => rw [hs] at h; cases h

theorem exec_mono_le (S : ScanI) (pat : List Atom) {fuel fuel' : Nat} (hle : fuel ≤ fuel') {st m e r}
    (h : exec S pat fuel st m e = .ok r) : exec S pat fuel' st m e = .ok r := by
  induction hle with
  | refl => exact h
  | step _ ih => exact exec_mono S pat _ _ _ _ _ ih


/-- the result of `exec` run with sufficient fuel (`Exec.exec_total`: `pat.length + 1` always suffices) -/
def execT (S : ScanI) (pat : List Atom) (st : St) (m e : Nat) : Bool × St :=
  match exec S pat (pat.length + 1) st m e with
  | .ok r => r
  | _ => (false, st)

theorem exec_eq_execT {S : ScanI} (hS : S.WF) {pat : List Atom} {fuel : Nat} {st : St} {m e : Nat}
    (hf : pat.length + 1 ≤ fuel + st.pc) (h1 : 1 ≤ fuel) :
    exec S pat fuel st m e = .ok (execT S pat st m e) := by
  obtain ⟨r, hr⟩ := exec_total hS pat fuel st m e hf h1
  obtain ⟨r', hr'⟩ := exec_total hS pat (pat.length + 1) st m e (by omega) (by omega)
  have h1 := exec_mono_le S pat (Nat.le_max_left fuel (pat.length + 1)) hr
  have h2 := exec_mono_le S pat (Nat.le_max_right fuel (pat.length + 1)) hr'
  rw [h1] at h2
  cases h2
  simp only [execT, hr', hr]

theorem execT_pc_le {S : ScanI} (hS : S.WF) {pat : List Atom} {st : St} {m e : Nat} :
    st.pc ≤ (execT S pat st m e).2.pc :=
  exec_pc_mono S pat _ _ _ _ _ _ (exec_eq_execT hS (fuel := pat.length + 1) (by omega) (by omega))

theorem execT_none {S : ScanI} (hS : S.WF) {pat : List Atom} {st : St} {m e : Nat}
    (hp : pat[st.pc]? = none) : execT S pat st m e = (true, st) := by
  have h := exec_eq_execT hS (pat := pat) (fuel := pat.length + 1) (st := st) (m := m) (e := e) (by omega) (by omega)
  rw [exec_none hp] at h
  exact (Out.ok.inj h).symm

theorem pc_lt_of_some {pat : List Atom} {pc : Nat} {a : Atom} (hp : pat[pc]? = some a) : pc < pat.length :=
  (List.getElem?_eq_some_iff.1 hp).1

theorem execT_pop {S : ScanI} (hS : S.WF) {pat : List Atom} {st : St} {m e : Nat}
    (hp : pat[st.pc]? = some .pop) : execT S pat st m e = (true, { st with pc := st.pc + 1 }) := by
  have h := exec_eq_execT hS (pat := pat) (fuel := pat.length + 1) (st := st) (m := m) (e := e) (by omega) (by omega)
  rw [exec_pop hp] at h
  exact (Out.ok.inj h).symm

theorem execT_brk {S : ScanI} (hS : S.WF) {pat : List Atom} {st : St} {m e next : Nat}
    (hp : pat[st.pc]? = some (.brk next)) : execT S pat st m e = (true, { st with pc := st.pc + 1 + next }) := by
  have h := exec_eq_execT hS (pat := pat) (fuel := pat.length + 1) (st := st) (m := m) (e := e) (by omega) (by omega)
  rw [exec_brk hp] at h
  exact (Out.ok.inj h).symm

theorem execT_push {S : ScanI} (hS : S.WF) {pat : List Atom} {st : St} {m e skip : Nat}
    (hp : pat[st.pc]? = some (.push skip)) :
    execT S pat st m e =
      match execT S pat { st with pc := st.pc + 1 } 0xff 0 with
      | (true, st') => execT S pat { st' with cursor := wadd32 st.cursor (skipAmt S e skip) } 0xff 0
      | o => o := by
  have hlt := pc_lt_of_some hp
  have h := exec_eq_execT hS (pat := pat) (fuel := pat.length + 1) (st := st) (m := m) (e := e) (by omega) (by omega)
  rw [exec_push hp] at h
  have h1 := exec_eq_execT hS (pat := pat) (fuel := pat.length) (st := { st with pc := st.pc + 1 }) (m := 0xff) (e := 0)
    (by simp only; omega) (by omega)
  rw [h1] at h
  have hpc := execT_pc_le hS (pat := pat) (st := { st with pc := st.pc + 1 }) (m := 0xff) (e := 0)
  generalize execT S pat { st with pc := st.pc + 1 } 0xff 0 = r at h hpc ⊢
  obtain ⟨b, st'⟩ := r
  cases b
  · exact (Out.ok.inj h).symm
  · simp only at h hpc ⊢
    rw [exec_eq_execT hS (by simp only; omega) (by omega)] at h
    exact (Out.ok.inj h).symm

theorem execT_case {S : ScanI} (hS : S.WF) {pat : List Atom} {st : St} {m e next : Nat}
    (hp : pat[st.pc]? = some (.case next)) :
    execT S pat st m e =
      match execT S pat { st with pc := st.pc + 1 } 0xff 0 with
      | (true, st') => execT S pat st' m e
      | (false, st') => execT S pat { st' with pc := st.pc + 1 + next, cursor := st.cursor } m e := by
  have hlt := pc_lt_of_some hp
  have h := exec_eq_execT hS (pat := pat) (fuel := pat.length + 1) (st := st) (m := m) (e := e) (by omega) (by omega)
  rw [exec_case hp] at h
  have h1 := exec_eq_execT hS (pat := pat) (fuel := pat.length) (st := { st with pc := st.pc + 1 }) (m := 0xff) (e := 0)
    (by simp only; omega) (by omega)
  rw [h1] at h
  have hpc := execT_pc_le hS (pat := pat) (st := { st with pc := st.pc + 1 }) (m := 0xff) (e := 0)
  generalize execT S pat { st with pc := st.pc + 1 } 0xff 0 = r at h hpc ⊢
  obtain ⟨b, st'⟩ := r
  cases b
  · simp only at h hpc ⊢
    rw [exec_eq_execT hS (by simp only; omega) (by omega)] at h
    exact (Out.ok.inj h).symm
  · simp only at h hpc ⊢
    rw [exec_eq_execT hS (by omega) (by omega)] at h
    exact (Out.ok.inj h).symm

theorem execT_step_none {S : ScanI} (hS : S.WF) {pat : List Atom} {st : St} {m e : Nat} {a : Atom}
    (hp : pat[st.pc]? = some a) (ha : isCtl a = false)
    (hs : step S a { st with pc := st.pc + 1 } m e = .ok none) :
    execT S pat st m e = (false, { st with pc := st.pc + 1 }) := by
  have h := exec_eq_execT hS (pat := pat) (fuel := pat.length + 1) (st := st) (m := m) (e := e) (by omega) (by omega)
  rw [exec_simple hp ha, hs] at h
  exact (Out.ok.inj h).symm

theorem execT_step_some {S : ScanI} (hS : S.WF) {pat : List Atom} {st : St} {m e : Nat} {a : Atom}
    {st' : St} {m' e' : Nat}
    (hp : pat[st.pc]? = some a) (ha : isCtl a = false)
    (hs : step S a { st with pc := st.pc + 1 } m e = .ok (some (st', m', e'))) :
    execT S pat st m e = execT S pat st' m' e' := by
  have hlt := pc_lt_of_some hp
  have h := exec_eq_execT hS (pat := pat) (fuel := pat.length + 1) (st := st) (m := m) (e := e) (by omega) (by omega)
  rw [exec_simple hp ha, hs] at h
  have := step_pc hs
  simp only at this h
  rw [exec_eq_execT hS (by omega) (by omega)] at h
  exact (Out.ok.inj h).symm

/-- `exec_many`'s loop over a total `ex` -/
def manyT (mem : Bytes) (f : St → Bool × St) (cursor pc off : Nat) (peek : Option Nat) :
    Nat → Nat → St → Bool × St
  | 0, _, st => (false, st)
  | k+1, i, st =>
    if peekOk peek (byteAt mem (off + i)) then
      match f { st with cursor := wadd32 cursor i, pc := pc } with
      | (true, st') => (true, st')
      | (false, st') => manyT mem f cursor pc off peek k (i + 1) st'
    else manyT mem f cursor pc off peek k (i + 1) st

theorem manyLoop_eq_manyT {mem : Bytes} {ex : St → Out (Bool × St)} {f : St → Bool × St} {cursor pc off : Nat}
    {peek : Option Nat} (hex : ∀ s, s.pc = pc → ex s = .ok (f s)) :
    ∀ k i st, manyLoop mem ex cursor pc off peek k i st = .ok (manyT mem f cursor pc off peek k i st) := by
  intro k
  induction k with
  | zero => intro i st; rfl
  | succ k ih =>
    intro i st
    simp only [manyLoop, manyT]
    split
    · rw [hex _ rfl]
      generalize f { st with cursor := wadd32 cursor i, pc := pc } = r
      obtain ⟨b, st'⟩ := r
      cases b
      · exact ih _ _
      · rfl
    · exact ih _ _

theorem execT_many {S : ScanI} (hS : S.WF) {pat : List Atom} {st : St} {m e limit : Nat}
    (hp : pat[st.pc]? = some (.many limit)) :
    execT S pat st m e =
      match S.slice st.cursor with
      | none => (false, { st with pc := st.pc + 1 })
      | some (off, len) =>
        manyT S.mem (fun s => execT S pat s 0xff 0) st.cursor (st.pc + 1) off (peekByte (pat.drop (st.pc + 1)))
          (if e + limit = 0 then len else min (e + limit) len) 0 { st with pc := st.pc + 1 } := by
  have hlt := pc_lt_of_some hp
  have h := exec_eq_execT hS (pat := pat) (fuel := pat.length + 1) (st := st) (m := m) (e := e) (by omega) (by omega)
  rw [exec_many hp] at h
  cases hs : S.slice st.cursor with
  | none =>
    have hs' : S.slice ({ st with pc := st.pc + 1 } : St).cursor = none := hs
    rw [execMany_none hs'] at h
    exact (Out.ok.inj h).symm
  | some ol =>
    obtain ⟨off, len⟩ := ol
    have hs' : S.slice ({ st with pc := st.pc + 1 } : St).cursor = some (off, len) := hs
    rw [execMany_some hs' (by simp only; omega)] at h
    rw [manyLoop_eq_manyT (f := fun s => execT S pat s 0xff 0)] at h
    · exact (Out.ok.inj h).symm
    · intro s hs
      simp only at hs
      exact exec_eq_execT hS (by omega) (by omega)


/-! ## (B) trimming

The parser drops trailing `Skip / Rangext / Pop / Many` atoms.  Dropping trailing `Skip / Rangext / Pop`
atoms changes neither the answer nor the save array (only the final `pc` / cursor, which `run` discards).
(`Many` is different: it fails where the slice is empty, see `Thm/C11.lean`.) -/

/-- the trimmed atoms that cannot fail -/
def inert : Atom → Bool
  | .skip _ | .rangext _ | .pop => true
  | _ => false

/-- running inside the trimmed tail: always `true`, save array untouched -/
theorem exec_in_tail (S : ScanI) (base suf : List Atom) (hsuf : ∀ a ∈ suf, inert a = true) :
    ∀ fuel st m e b st', exec S (base ++ suf) fuel st m e = .ok (b, st') → base.length ≤ st.pc →
      b = true ∧ st'.save = st.save ∧ base.length ≤ st'.pc := by
  intro fuel
  induction fuel with
  | zero => intro st m e b st' h; cases h
  | succ fuel ih =>
    intro st m e b st' h hpc
    cases hp : (base ++ suf)[st.pc]? with
    | none => rw [exec_none hp] at h; cases h; exact ⟨rfl, rfl, hpc⟩
    | some a =>
      have hmem : a ∈ suf := by
        rw [List.getElem?_append_right hpc] at hp
        exact List.mem_of_getElem? hp
      have hin := hsuf a hmem
      cases a with
      | skip n =>
        rw [exec_simple hp rfl] at h
        simp only [step] at h
        obtain ⟨h1, h2, h3⟩ := ih _ _ _ _ _ h (by simp only; omega)
        exact ⟨h1, h2, by simpa using h3⟩
      | rangext n =>
        rw [exec_simple hp rfl] at h
        simp only [step] at h
        obtain ⟨h1, h2, h3⟩ := ih _ _ _ _ _ h (by simp only; omega)
        exact ⟨h1, h2, by simpa using h3⟩
      | pop =>
        rw [exec_pop hp] at h
        cases h
        exact ⟨rfl, rfl, by simp only; omega⟩
      | _ => simp [inert] at hin

theorem peekByte_append_inert (suf : List Atom) (hsuf : ∀ a ∈ suf, inert a = true) :
    ∀ l : List Atom, peekByte (l ++ suf) = peekByte l := by
  intro l
  induction l with
  | nil =>
    cases suf with
    | nil => rfl
    | cons a r =>
      have := hsuf a (by simp)
      cases a <;> simp_all [inert, peekByte]
  | cons a l ih =>
    cases a <;> simp_all [peekByte]

/-- states of the two runs correspond: identical, or both beyond the kept atoms with the same save array -/
def TrimRel (n : Nat) (s1 s2 : St) : Prop := s1 = s2 ∨ (s1.save = s2.save ∧ n ≤ s1.pc ∧ n ≤ s2.pc)

def TrimRes (n : Nat) (r1 r2 : Bool × St) : Prop :=
  r1.1 = r2.1 ∧ r1.2.save = r2.2.save ∧ (r1.1 = true → TrimRel n r1.2 r2.2)

theorem manyLoop_trim {n : Nat} {mem : Bytes} {ex1 ex2 : St → Out (Bool × St)} {cursor pc off : Nat} {peek : Option Nat}
    (hex : ∀ s1 s2 r1 r2, s1.save = s2.save → s1.pc = s2.pc → s1.cursor = s2.cursor →
      ex1 s1 = .ok r1 → ex2 s2 = .ok r2 → TrimRes n r1 r2) :
    ∀ k i st1 st2 r1 r2, st1.save = st2.save →
      manyLoop mem ex1 cursor pc off peek k i st1 = .ok r1 → manyLoop mem ex2 cursor pc off peek k i st2 = .ok r2 →
      TrimRes n r1 r2 := by
  intro k
  induction k with
  | zero =>
    intro i st1 st2 r1 r2 hsv h1 h2
    simp only [manyLoop] at h1 h2
    cases h1; cases h2
    exact ⟨rfl, hsv, by simp⟩
  | succ k ih =>
    intro i st1 st2 r1 r2 hsv h1 h2
    simp only [manyLoop] at h1 h2
    split at h1
    · next hpk =>
      simp only [hpk, if_true] at h2
      cases hx1 : ex1 { st1 with cursor := wadd32 cursor i, pc := pc } with
      | ok v1 =>
        cases hx2 : ex2 { st2 with cursor := wadd32 cursor i, pc := pc } with
        | ok v2 =>
          have hr := hex { st1 with cursor := wadd32 cursor i, pc := pc } { st2 with cursor := wadd32 cursor i, pc := pc } _ _ hsv rfl rfl hx1 hx2
          obtain ⟨b1, t1⟩ := v1
          obtain ⟨b2, t2⟩ := v2
          rw [hx1] at h1
          rw [hx2] at h2
          obtain ⟨hb, hs, hrel⟩ := hr
          simp only at hb hs hrel
          subst hb
          cases b1
          · exact ih _ _ _ _ _ hs h1 h2
          · cases h1; cases h2
            exact ⟨rfl, hs, hrel⟩
        | err x => rw [hx2] at h2; cases h2
        | panic x => rw [hx2] at h2; cases h2
        | ub x => rw [hx2] at h2; cases h2
        | diverge => rw [hx2] at h2; cases h2
      | err x => rw [hx1] at h1; cases h1
      | panic x => rw [hx1] at h1; cases h1
      | ub x => rw [hx1] at h1; cases h1
      | diverge => rw [hx1] at h1; cases h1
    · next hpk =>
      simp only [hpk] at h2
      exact ih _ _ _ _ _ hsv h1 h2

theorem exec_trim (S : ScanI) (base suf : List Atom) (hsuf : ∀ a ∈ suf, inert a = true) :
    ∀ f1 f2 s1 s2 m e r1 r2, TrimRel base.length s1 s2 →
      exec S base f1 s1 m e = .ok r1 → exec S (base ++ suf) f2 s2 m e = .ok r2 →
      TrimRes base.length r1 r2 := by
  intro f1
  induction f1 with
  | zero => intro f2 s1 s2 m e r1 r2 _ h; cases h
  | succ f1 ih =>
    intro f2 s1 s2 m e r1 r2 hrel h1 h2
    cases f2 with
    | zero => cases h2
    | succ f2 =>
    by_cases hge : base.length ≤ s1.pc
    · -- the first run is at its end
      have hp1 : base[s1.pc]? = none := List.getElem?_eq_none_iff.2 hge
      rw [exec_none hp1] at h1
      cases h1
      have hge2 : base.length ≤ s2.pc := by
        rcases hrel with rfl | ⟨_, _, h⟩
        · exact hge
        · exact h
      obtain ⟨b2, t2⟩ := r2
      obtain ⟨hb, hs, hpc⟩ := exec_in_tail S base suf hsuf _ _ _ _ _ _ h2 hge2
      have hsv : s1.save = s2.save := by
        rcases hrel with rfl | ⟨h, _, _⟩
        · rfl
        · exact h
      exact ⟨hb.symm, by simp only; rw [hs, hsv], fun _ => Or.inr ⟨by simp only; rw [hs, hsv], hge, hpc⟩⟩
    · have hlt : s1.pc < base.length := by omega
      have heq : s1 = s2 := by
        rcases hrel with h | ⟨_, h, _⟩
        · exact h
        · omega
      subst heq
      have hp1 : base[s1.pc]? = some base[s1.pc] := List.getElem?_eq_getElem hlt
      have hp2 : (base ++ suf)[s1.pc]? = some base[s1.pc] := by
        rw [List.getElem?_append_left hlt]; exact hp1
      generalize base[s1.pc] = a at hp1 hp2
      cases a with
      | push skip =>
        rw [exec_push hp1] at h1
        rw [exec_push hp2] at h2
        cases hx1 : exec S base f1 { s1 with pc := s1.pc + 1 } 0xff 0 with
        | ok v1 =>
          cases hx2 : exec S (base ++ suf) f2 { s1 with pc := s1.pc + 1 } 0xff 0 with
          | ok v2 =>
            obtain ⟨hb, hs, hr⟩ := ih _ _ _ _ _ _ _ (Or.inl rfl) hx1 hx2
            obtain ⟨b1, t1⟩ := v1
            obtain ⟨b2, t2⟩ := v2
            simp only at hb hs hr
            subst hb
            rw [hx1] at h1
            rw [hx2] at h2
            cases b1
            · cases h1; cases h2
              exact ⟨rfl, hs, by simp⟩
            · simp only at h1 h2
              refine ih _ _ _ _ _ _ _ ?_ h1 h2
              rcases hr rfl with rfl | ⟨q1, q2, q3⟩
              · exact Or.inl rfl
              · exact Or.inr ⟨q1, q2, q3⟩
          | err x => rw [hx2] at h2; cases h2
          | panic x => rw [hx2] at h2; cases h2
          | ub x => rw [hx2] at h2; cases h2
          | diverge => rw [hx2] at h2; cases h2
        | err x => rw [hx1] at h1; cases h1
        | panic x => rw [hx1] at h1; cases h1
        | ub x => rw [hx1] at h1; cases h1
        | diverge => rw [hx1] at h1; cases h1
      | pop =>
        rw [exec_pop hp1] at h1
        rw [exec_pop hp2] at h2
        cases h1; cases h2
        exact ⟨rfl, rfl, fun _ => Or.inl rfl⟩
      | brk next =>
        rw [exec_brk hp1] at h1
        rw [exec_brk hp2] at h2
        cases h1; cases h2
        exact ⟨rfl, rfl, fun _ => Or.inl rfl⟩
      | case next =>
        rw [exec_case hp1] at h1
        rw [exec_case hp2] at h2
        cases hx1 : exec S base f1 { s1 with pc := s1.pc + 1 } 0xff 0 with
        | ok v1 =>
          cases hx2 : exec S (base ++ suf) f2 { s1 with pc := s1.pc + 1 } 0xff 0 with
          | ok v2 =>
            obtain ⟨hb, hs, hr⟩ := ih _ _ _ _ _ _ _ (Or.inl rfl) hx1 hx2
            obtain ⟨b1, t1⟩ := v1
            obtain ⟨b2, t2⟩ := v2
            simp only at hb hs hr
            subst hb
            rw [hx1] at h1
            rw [hx2] at h2
            cases b1
            · simp only at h1 h2
              refine ih _ _ _ _ _ _ _ (Or.inl ?_) h1 h2
              rw [hs]
            · simp only at h1 h2
              exact ih _ _ _ _ _ _ _ (hr rfl) h1 h2
          | err x => rw [hx2] at h2; cases h2
          | panic x => rw [hx2] at h2; cases h2
          | ub x => rw [hx2] at h2; cases h2
          | diverge => rw [hx2] at h2; cases h2
        | err x => rw [hx1] at h1; cases h1
        | panic x => rw [hx1] at h1; cases h1
        | ub x => rw [hx1] at h1; cases h1
        | diverge => rw [hx1] at h1; cases h1
      | many limit =>
        rw [exec_many hp1] at h1
        rw [exec_many hp2] at h2
        cases hs : S.slice s1.cursor with
        | none =>
          have hs' : S.slice ({ s1 with pc := s1.pc + 1 } : St).cursor = none := hs
          rw [execMany_none hs'] at h1 h2
          cases h1; cases h2
          exact ⟨rfl, rfl, by simp⟩
        | some ol =>
          obtain ⟨off, len⟩ := ol
          have hs' : S.slice ({ s1 with pc := s1.pc + 1 } : St).cursor = some (off, len) := hs
          rw [execMany_some hs' (by simp only; omega)] at h1
          rw [execMany_some hs' (by simp only [List.length_append]; omega)] at h2
          have hpk : peekByte (List.drop ({ s1 with pc := s1.pc + 1 } : St).pc (base ++ suf)) =
              peekByte (List.drop ({ s1 with pc := s1.pc + 1 } : St).pc base) := by
            rw [List.drop_append_of_le_length (by simp only; omega)]
            exact peekByte_append_inert suf hsuf _
          rw [hpk] at h2
          refine manyLoop_trim (n := base.length) ?_ _ _ _ _ _ _ rfl h1 h2
          intro t1 t2 q1 q2 hsv hpc hcur hq1 hq2
          have : t1 = t2 := by
            cases t1; cases t2; simp_all
          subst this
          exact ih _ _ _ _ _ _ _ (Or.inl rfl) hq1 hq2
      | _ =>
        rw [exec_simple hp1 rfl] at h1
        rw [exec_simple hp2 rfl] at h2
        cases hst : step S _ { s1 with pc := s1.pc + 1 } m e with
        | ok v =>
          rw [hst] at h1 h2
          cases v with
          | none => cases h1; cases h2; exact ⟨rfl, rfl, by simp⟩
          | some t =>
            obtain ⟨st', m', e'⟩ := t
            exact ih _ _ _ _ _ _ _ (Or.inl rfl) h1 h2
        | err x => rw [hst] at h1; cases h1
        | panic x => rw [hst] at h1; cases h1
        | ub x => rw [hst] at h1; cases h1
        | diverge => rw [hst] at h1; cases h1

/-- **trimming inert trailing atoms does not change what `Scanner::exec` returns** -/
theorem run_trim {S : ScanI} (hS : S.WF) (base suf : List Atom) (hsuf : ∀ a ∈ suf, inert a = true)
    (c : Nat) (save : Array Nat) : run S base c save = run S (base ++ suf) c save := by
  obtain ⟨⟨b1, t1⟩, hx1⟩ := exec_total hS base (fuelFor base) ⟨0, c, save⟩ 0xff 0 (by simp [fuelFor]) (by simp [fuelFor])
  obtain ⟨⟨b2, t2⟩, hx2⟩ := exec_total hS (base ++ suf) (fuelFor (base ++ suf)) ⟨0, c, save⟩ 0xff 0
    (by simp [fuelFor]) (by simp [fuelFor])
  obtain ⟨hb, hs, _⟩ := exec_trim S base suf hsuf _ _ _ _ _ _ _ _ (Or.inl rfl) hx1 hx2
  simp only at hb hs
  simp only [run, hx1, hx2, hb, hs]


/-! ## (C) facts about the reference semantics -/

theorem addRva_eq_wadd32 (a b : Nat) : addRva a b = wadd32 a b := rfl

mutual
theorem slotsItem_le (k : Nat) : ∀ it : Item, k ≤ slotsItem k it
  | .ws _ | .byte _ | .str _ | .any | .skip _ | .range _ _ | .jump _ | .aligned _ => by simp [slotsItem]
  | .save | .readI _ | .readU _ | .zero => by simp [slotsItem]
  | .group _ _ body => by simp only [slotsItem]; exact slotsItems_le k body
  | .alt bodies => by simp only [slotsItem]; exact slotsAlts_le k bodies
theorem slotsItems_le (k : Nat) : ∀ items : List Item, k ≤ slotsItems k items
  | [] => by simp [slotsItems]
  | it :: r => by
    simp only [slotsItems]
    exact Nat.le_trans (slotsItem_le k it) (slotsItems_le _ r)
theorem slotsAlts_le (k : Nat) : ∀ bodies : List (List Item), k ≤ slotsAlts k bodies
  | [] => by simp [slotsAlts]
  | b :: bs => by
    simp only [slotsAlts]
    have := slotsItems_le k b
    omega
end

theorem firstSome_some {α : Type} {f : Nat → Option α} : ∀ {n i : Nat} {x : α}, firstSome f n i = some x →
    ∃ j, i ≤ j ∧ j < i + n ∧ f j = some x
  | 0, _, _, h => by simp [firstSome] at h
  | n + 1, i, x, h => by
    simp only [firstSome] at h
    split at h
    · next y hy => cases h; exact ⟨i, Nat.le_refl _, by omega, hy⟩
    · obtain ⟨j, h1, h2, h3⟩ := firstSome_some h
      exact ⟨j, by omega, by omega, h3⟩

/-- every slot a successful match writes lies in the range the syntax assigns to the sub-pattern -/
def SlotsIn (w : Caps) (lo hi : Nat) : Prop := ∀ s v, (s, v) ∈ w → lo ≤ s ∧ s < hi

theorem SlotsIn.nil (lo hi : Nat) : SlotsIn [] lo hi := by intro s v h; cases h

theorem SlotsIn.mono {w : Caps} {lo hi lo' hi' : Nat} (h : SlotsIn w lo hi) (h1 : lo' ≤ lo) (h2 : hi ≤ hi') :
    SlotsIn w lo' hi' := by
  intro s v hm
  have := h s v hm
  omega

theorem SlotsIn.append {w1 w2 : Caps} {lo hi : Nat} (h1 : SlotsIn w1 lo hi) (h2 : SlotsIn w2 lo hi) :
    SlotsIn (w2 ++ w1) lo hi := by
  intro s v hm
  rcases List.mem_append.1 hm with h | h
  · exact h2 s v h
  · exact h1 s v h

mutual
theorem semItem_slots (S : ScanI) (k : Nat) : ∀ (it : Item) (c c' : Nat) (w : Caps),
    semItem S k it c = some (c', w) → SlotsIn w k (slotsItem k it)
  | .ws _, c, c', w, h => by simp only [semItem] at h; cases h; exact SlotsIn.nil _ _
  | .byte _, c, c', w, h => by
    simp only [semItem, Option.map_eq_some_iff] at h
    obtain ⟨_, _, h⟩ := h; cases h; exact SlotsIn.nil _ _
  | .str _, c, c', w, h => by
    simp only [semItem, Option.map_eq_some_iff] at h
    obtain ⟨_, _, h⟩ := h; cases h; exact SlotsIn.nil _ _
  | .any, c, c', w, h => by simp only [semItem] at h; cases h; exact SlotsIn.nil _ _
  | .skip _, c, c', w, h => by simp only [semItem] at h; cases h; exact SlotsIn.nil _ _
  | .range _ _, c, c', w, h => by simp [semItem] at h
  | .jump _, c, c', w, h => by
    simp only [semItem, Option.map_eq_some_iff] at h
    obtain ⟨_, _, h⟩ := h; cases h; exact SlotsIn.nil _ _
  | .save, c, c', w, h => by
    simp only [semItem] at h; cases h
    intro s v hm; simp at hm; simp [slotsItem, hm.1]
  | .aligned _, c, c', w, h => by
    simp only [semItem] at h
    split at h
    · cases h
    · cases h; exact SlotsIn.nil _ _
  | .readI _, c, c', w, h => by
    simp only [semItem, Option.map_eq_some_iff] at h
    obtain ⟨_, _, h⟩ := h; cases h
    intro s v hm; simp at hm; simp [slotsItem, hm.1]
  | .readU _, c, c', w, h => by
    simp only [semItem, Option.map_eq_some_iff] at h
    obtain ⟨_, _, h⟩ := h; cases h
    intro s v hm; simp at hm; simp [slotsItem, hm.1]
  | .zero, c, c', w, h => by
    simp only [semItem] at h; cases h
    intro s v hm; simp at hm; simp [slotsItem, hm.1]
  | .group j _ body, c, c', w, h => by
    simp only [semItem] at h
    split at h
    · cases h
    · next t _ =>
      split at h
      · cases h
      · next cb wb hb =>
        cases h
        simp only [slotsItem]
        exact sem_slots S k body t cb w hb
  | .alt bodies, c, c', w, h => by
    simp only [semItem] at h
    simp only [slotsItem]
    exact semAlts_slots S k bodies c c' w h
theorem sem_slots (S : ScanI) (k : Nat) : ∀ (items : List Item) (c c' : Nat) (w : Caps),
    sem S k items c = some (c', w) → SlotsIn w k (slotsItems k items)
  | [], c, c', w, h => by simp only [sem] at h; cases h; exact SlotsIn.nil _ _
  | it :: r, c, c', w, h => by
    by_cases hr : ∃ a b, it = .range a b
    · obtain ⟨a, b, rfl⟩ := hr
      simp only [sem] at h
      split at h
      · cases h
      · obtain ⟨j, _, _, hj⟩ := firstSome_some h
        simp only [slotsItems, slotsItem]
        exact sem_slots S k r _ c' w hj
    · rw [sem.eq_3 _ _ _ _ _ (fun a b hab => hr ⟨a, b, hab⟩)] at h
      split at h
      · cases h
      · next c1 w1 h1 =>
        split at h
        · cases h
        · next c2 w2 h2 =>
          cases h
          simp only [slotsItems]
          have q1 := semItem_slots S k it c c1 w1 h1
          have q2 := sem_slots S (slotsItem k it) r c1 c' w2 h2
          exact SlotsIn.append (q1.mono (Nat.le_refl _) (slotsItems_le _ r)) (q2.mono (slotsItem_le k it) (Nat.le_refl _))
theorem semAlts_slots (S : ScanI) (k : Nat) : ∀ (bodies : List (List Item)) (c c' : Nat) (w : Caps),
    semAlts S k bodies c = some (c', w) → SlotsIn w k (slotsAlts k bodies)
  | [], c, c', w, h => by simp [semAlts] at h
  | b :: bs, c, c', w, h => by
    simp only [semAlts] at h
    simp only [slotsAlts]
    split at h
    · next r hr =>
      cases h
      exact (sem_slots S k b c c' w hr).mono (Nat.le_refl _) (Nat.le_max_left _ _)
    · exact (semAlts_slots S k bs c c' w h).mono (Nat.le_refl _) (Nat.le_max_right _ _)
end


/-! ## (D) code positions, save arrays, the peek shortcut -/

/-- `slice` and one-byte `read`s see the same bytes (what makes `exec_many`'s `memchr` shortcut sound) -/
def Coherent (S : ScanI) : Prop :=
  ∀ c off len i, S.slice c = some (off, len) → i < len → S.read 1 (wadd32 c i) = some (byteAt S.mem (off + i))

/-- `sv'` has the size of `sv` and the same contents below slot `k` -/
def SaveOK (k : Nat) (sv sv' : Array Nat) : Prop := sv'.size = sv.size ∧ ∀ s, s < k → sv'[s]? = sv[s]?

theorem SaveOK.refl (k : Nat) (sv : Array Nat) : SaveOK k sv sv := ⟨rfl, fun _ _ => rfl⟩

theorem SaveOK.trans {k k' : Nat} {a b c : Array Nat} (h1 : SaveOK k a b) (h2 : SaveOK k' b c) (hk : k ≤ k') :
    SaveOK k a c :=
  ⟨h2.1.trans h1.1, fun s hs => (h2.2 s (by omega)).trans (h1.2 s hs)⟩

theorem SaveOK.mono {k k' : Nat} {a b : Array Nat} (h : SaveOK k' a b) (hk : k ≤ k') : SaveOK k a b :=
  ⟨h.1, fun s hs => h.2 s (by omega)⟩

theorem SaveOK.set (k : Nat) (sv : Array Nat) (v : Nat) : SaveOK k sv (saveSet sv k v) := by
  refine ⟨by simp [saveSet], ?_⟩
  intro s hs
  simp only [saveSet]
  rw [Array.getElem?_setIfInBounds_ne (by omega)]

/-- the save array holds every capture of `w` (as far as it is long enough) -/
def Writes (w : Caps) (sv : Array Nat) : Prop := ∀ s v, (s, v) ∈ w → s < sv.size → sv[s]? = some v

theorem Writes.nil (sv : Array Nat) : Writes [] sv := by intro s v h; cases h

theorem Writes.single (sv : Array Nat) (k v : Nat) : Writes [(k, v)] (saveSet sv k v) := by
  intro s v' hm hs
  simp only [List.mem_singleton, Prod.mk.injEq] at hm
  obtain ⟨rfl, rfl⟩ := hm
  simp only [saveSet] at hs ⊢
  simp only [Array.size_setIfInBounds] at hs
  simp [hs]

theorem Writes.append {w1 w2 : Caps} {k k1 : Nat} {sv1 sv2 : Array Nat} (h1 : Writes w1 sv1) (hs1 : SlotsIn w1 k k1)
    (hok : SaveOK k1 sv1 sv2) (h2 : Writes w2 sv2) : Writes (w2 ++ w1) sv2 := by
  intro s v hm hs
  rcases List.mem_append.1 hm with h | h
  · exact h2 s v h hs
  · have := hs1 s v h
    rw [hok.2 s this.2]
    exact h1 s v h (by rw [← hok.1]; exact hs)

/-- `code` sits in `U` at position `pc` -/
def At (U : List Atom) (pc : Nat) (code : List Atom) : Prop := ∀ i a, code[i]? = some a → U[pc + i]? = some a

theorem At.nil (U : List Atom) (pc : Nat) : At U pc [] := by intro i a h; simp at h

theorem At.head {U : List Atom} {pc : Nat} {a : Atom} {r : List Atom} (h : At U pc (a :: r)) : U[pc]? = some a := by
  simpa using h 0 a (by simp)

theorem At.tail {U : List Atom} {pc : Nat} {a : Atom} {r : List Atom} (h : At U pc (a :: r)) : At U (pc + 1) r := by
  intro i b hb
  have := h (i + 1) b (by simpa using hb)
  simpa [Nat.add_assoc, Nat.add_comm 1 i] using this

theorem At.left {U : List Atom} {pc : Nat} {x y : List Atom} (h : At U pc (x ++ y)) : At U pc x := by
  intro i a ha
  have hi : i < x.length := (List.getElem?_eq_some_iff.1 ha).1
  exact h i a (by rw [List.getElem?_append_left hi]; exact ha)

theorem At.right {U : List Atom} {pc : Nat} {x y : List Atom} (h : At U pc (x ++ y)) : At U (pc + x.length) y := by
  intro i a ha
  have := h (x.length + i) a (by rw [List.getElem?_append_right (by omega)]; simpa using ha)
  simpa [Nat.add_assoc] using this

theorem At.mem {U : List Atom} {pc : Nat} {code : List Atom} (h : At U pc code) {a : Atom} (ha : a ∈ code) : a ∈ U := by
  obtain ⟨i, hi⟩ := List.mem_iff_getElem?.1 ha
  exact List.mem_of_getElem? (h i a hi)

theorem wadd32_lt (a b : Nat) : wadd32 a b < 4294967296 := by unfold wadd32; omega

theorem wadd32_wadd32 (a b c : Nat) : wadd32 (wadd32 a b) c = wadd32 a (b + c) := by unfold wadd32; omega

theorem wadd32_zero {a : Nat} (h : a < 4294967296) : wadd32 a 0 = a := by unfold wadd32; omega

theorem and255_eq {v : Nat} (h : v < 256) : v &&& 255 = v := by rw [and255]; omega

section Run
variable {S : ScanI} (hS : S.WF) {U : List Atom}
include hS

/-- the `memchr` shortcut: when the first `Byte` behind the `Save`s at `pc` differs from the byte under
the cursor, running from `pc` fails -/
theorem peek_fail (hB : ∀ b, Atom.byte b ∈ U → b < 256) {b c : Nat} (hne : S.read 1 c ≠ some b) :
    ∀ (l : List Atom) (pc : Nat) (sv : Array Nat), U.drop pc = l → peekByte l = some b →
      (execT S U ⟨pc, c, sv⟩ 0xff 0).1 = false := by
  intro l
  induction l with
  | nil => intro pc sv _ h; simp [peekByte] at h
  | cons a l ih =>
    intro pc sv hd hpk
    have hlt : pc < U.length := by
      apply Nat.lt_of_not_le
      intro hge
      rw [List.drop_eq_nil_of_le hge] at hd
      cases hd
    have hp : U[pc]? = some a := by
      rw [List.drop_eq_getElem_cons hlt] at hd
      rw [List.getElem?_eq_getElem hlt]
      congr 1
      exact (List.cons.inj hd).1
    have hd' : U.drop (pc + 1) = l := by
      rw [List.drop_eq_getElem_cons hlt] at hd
      exact (List.cons.inj hd).2
    cases a with
    | byte b0 =>
      simp only [peekByte, Option.some.injEq] at hpk
      subst hpk
      have hb0 : b0 < 256 := hB b0 (List.mem_of_getElem? hp)
      have hst : step S (.byte b0) { (⟨pc, c, sv⟩ : St) with pc := pc + 1 } 0xff 0 = .ok none := by
        simp only [step]
        cases hr : S.read 1 c with
        | none => rfl
        | some v =>
          have hv := (hS.read1 _ _ hr).2
          have : v ≠ b0 := by intro h; apply hne; rw [hr, h]
          simp only [and255_eq hv, and255_eq hb0, this, if_false]
      rw [execT_step_none hS hp rfl hst]
    | save s =>
      simp only [peekByte] at hpk
      have hst : step S (.save s) { (⟨pc, c, sv⟩ : St) with pc := pc + 1 } 0xff 0 =
          .ok (some (⟨pc + 1, c, saveSet sv s c⟩, 0xff, 0)) := rfl
      rw [execT_step_some hS hp rfl hst]
      exact ih _ _ hd' hpk
    | _ => simp [peekByte] at hpk

/-- running from `pc` returns `true` at `pcR` without touching cursor or save array: `pc` holds the
`Pop` / `Break` that ends the frame, or lies beyond the pattern -/
def IsTerm (S : ScanI) (U : List Atom) (pc pcR : Nat) : Prop :=
  ∀ c sv, execT S U ⟨pc, c, sv⟩ 0xff 0 = (true, ⟨pcR, c, sv⟩)

theorem IsTerm.pop (h : U[pc]? = some .pop) : IsTerm S U pc (pc + 1) := by
  intro c sv; rw [execT_pop hS h]

theorem IsTerm.brk {m : Nat} (h : U[pc]? = some (.brk m)) : IsTerm S U pc (pc + 1 + m) := by
  intro c sv; rw [execT_brk hS h]

theorem IsTerm.end_ (h : U.length ≤ pc) : IsTerm S U pc pc := by
  intro c sv; rw [execT_none hS (List.getElem?_eq_none_iff.2 h)]

/-- cursor behind the pending `Skip(n)` executed with `ext_range = E` -/
def cur (pend : Option Nat) (E c : Nat) : Nat :=
  match pend with
  | none => c
  | some n => wadd32 c (E + n)

def PendGood (pend : Option Nat) (E : Nat) : Prop :=
  match pend with
  | none => E = 0
  | some n => E + n ≠ 0

omit hS in
theorem cur_lt {pend : Option Nat} {E c : Nat} (hc : c < 4294967296) : cur pend E c < 4294967296 := by
  cases pend with
  | none => exact hc
  | some n => exact wadd32_lt _ _

/-- executing the pending skip -/
theorem run_flush {pend : Option Nat} {E pc c : Nat} {sv : Array Nat} (hA : At U pc (flush pend))
    (hg : PendGood pend E) :
    execT S U ⟨pc, c, sv⟩ 0xff E = execT S U ⟨pc + (flush pend).length, cur pend E c, sv⟩ 0xff 0 := by
  cases pend with
  | none => simp only [PendGood] at hg; subst hg; rfl
  | some n =>
    simp only [PendGood] at hg
    have hp : U[pc]? = some (.skip n) := hA.head
    have hst : step S (.skip n) { (⟨pc, c, sv⟩ : St) with pc := pc + 1 } 0xff E =
        .ok (some (⟨pc + 1, wadd32 c (E + n), sv⟩, 0xff, 0)) := by
      simp only [step, skipAmt, hg, if_false]
    rw [execT_step_some hS hp rfl hst]
    rfl

/-- append the captures of what came before -/
def thenRes (w1 : Caps) : Option (Nat × Caps) → Option (Nat × Caps)
  | none => none
  | some (c2, w2) => some (c2, w2 ++ w1)

omit hS in
theorem sem_cons (S : ScanI) (k : Nat) (it : Item) (r : List Item) (c : Nat) (hnr : ∀ a b, it ≠ .range a b) :
    sem S k (it :: r) c =
      match semItem S k it c with
      | none => none
      | some (c1, w1) => thenRes w1 (sem S (slotsItem k it) r c1) := by
  rw [sem.eq_3 _ _ _ _ _ (fun a b hab => hnr a b hab)]
  cases semItem S k it c with
  | none => rfl
  | some r1 =>
    obtain ⟨c1, w1⟩ := r1
    simp only
    cases sem S (slotsItem k it) r c1 with
    | none => rfl
    | some r2 => rfl

/-- **what compiler correctness asserts** about the `len` atoms at `pc`, run at cursor `c` with save
array `sv` and `ext_range = E`, `res` being the documented result: on a match the interpreter arrives
behind the atoms at the documented cursor, has written the documented captures and left the slots
below `k` alone; on a mismatch it returns `false` and has left the slots below `k` alone. -/
def Runs (S : ScanI) (U : List Atom) (k pc len E c : Nat) (sv : Array Nat) (res : Option (Nat × Caps)) : Prop :=
  match res with
  | some (c', w) => ∃ sv', execT S U ⟨pc, c, sv⟩ 0xff E = execT S U ⟨pc + len, c', sv'⟩ 0xff 0 ∧
      SaveOK k sv sv' ∧ Writes w sv' ∧ c' < 4294967296
  | none => ∃ st', execT S U ⟨pc, c, sv⟩ 0xff E = (false, st') ∧ SaveOK k sv st'.save

omit hS in
/-- sequential composition -/
theorem Runs.seq {k k1 pc len1 len2 E c : Nat} {sv : Array Nat} {c1 : Nat} {w1 : Caps} {res2 : Option (Nat × Caps)}
    (h1 : Runs S U k pc len1 E c sv (some (c1, w1))) (hs1 : SlotsIn w1 k k1) (hk : k ≤ k1)
    (h2 : ∀ sv1, SaveOK k sv sv1 → Runs S U k1 (pc + len1) len2 0 c1 sv1 res2) :
    Runs S U k pc (len1 + len2) E c sv (thenRes w1 res2) := by
  obtain ⟨sv1, he1, ho1, hw1, _⟩ := h1
  have h2 := h2 sv1 ho1
  cases res2 with
  | none =>
    obtain ⟨st', he2, ho2⟩ := h2
    exact ⟨st', he1.trans he2, ho1.trans ho2 hk⟩
  | some r =>
    obtain ⟨c2, w2⟩ := r
    obtain ⟨sv2, he2, ho2, hw2, hc2⟩ := h2
    refine ⟨sv2, ?_, ho1.trans ho2 hk, Writes.append hw1 hs1 ho2 hw2, hc2⟩
    rw [he1, he2, Nat.add_assoc]

omit hS in
/-- a failing first part -/
theorem Runs.fail_left {k pc len1 len2 E c : Nat} {sv : Array Nat} (h1 : Runs S U k pc len1 E c sv none) :
    Runs S U k pc len2 E c sv none := h1

/-- one non-control atom that succeeds -/
theorem Runs.step_some {k pc E c : Nat} {sv : Array Nat} {a : Atom} {c' : Nat} {sv' : Array Nat} {w : Caps}
    (hp : U[pc]? = some a) (ha : isCtl a = false)
    (hst : step S a ⟨pc + 1, c, sv⟩ 0xff E = .ok (some (⟨pc + 1, c', sv'⟩, 0xff, 0)))
    (hok : SaveOK k sv sv') (hw : Writes w sv') (hc : c' < 4294967296) :
    Runs S U k pc 1 E c sv (some (c', w)) :=
  ⟨sv', execT_step_some hS (st := ⟨pc, c, sv⟩) hp ha hst, hok, hw, hc⟩

/-- one non-control atom that fails -/
theorem Runs.step_none {k pc E c : Nat} {sv : Array Nat} {a : Atom}
    (hp : U[pc]? = some a) (ha : isCtl a = false)
    (hst : step S a ⟨pc + 1, c, sv⟩ 0xff E = .ok none) :
    Runs S U k pc 1 E c sv none :=
  ⟨_, execT_step_none hS (st := ⟨pc, c, sv⟩) hp ha hst, SaveOK.refl _ _⟩

end Run


/-! ## (E) compiler correctness -/

section Main
variable {S : ScanI} (hS : S.WF) {U : List Atom}
include hS

omit hS in
/-- move the start of a `Runs` statement along an execution step -/
theorem Runs.of_eq {k pc len E c : Nat} {sv : Array Nat} {pc' len' E' c' : Nat} {res : Option (Nat × Caps)}
    (he : execT S U ⟨pc, c, sv⟩ 0xff E = execT S U ⟨pc', c', sv⟩ 0xff E') (hl : pc' + len' = pc + len)
    (h : Runs S U k pc' len' E' c' sv res) : Runs S U k pc len E c sv res := by
  cases res with
  | none =>
    obtain ⟨st', h1, h2⟩ := h
    exact ⟨st', he.trans h1, h2⟩
  | some r =>
    obtain ⟨c2, w⟩ := r
    obtain ⟨sv', h1, h2, h3, h4⟩ := h
    exact ⟨sv', by rw [he, h1, hl], h2, h3, h4⟩

/-- put the pending skip in front -/
theorem Runs.flush {k pc len E c : Nat} {sv : Array Nat} {pend : Option Nat} {res : Option (Nat × Caps)}
    (hA : At U pc (flush pend)) (hg : PendGood pend E)
    (h : Runs S U k (pc + (flush pend).length) len 0 (cur pend E c) sv res) :
    Runs S U k pc ((flush pend).length + len) E c sv res :=
  Runs.of_eq (run_flush hS hA hg) (by omega) h

omit hS in
theorem thenRes_nil (res : Option (Nat × Caps)) : thenRes [] res = res := by
  cases res with
  | none => rfl
  | some r => obtain ⟨c2, w2⟩ := r; simp [thenRes]

/-- a run of exact bytes -/
theorem run_bytes (k : Nat) : ∀ (bs : List Nat) (pc c : Nat) (sv : Array Nat), At U pc (bs.map Atom.byte) →
    (∀ b ∈ bs, b < 256) → c < 4294967296 →
    Runs S U k pc bs.length 0 c sv ((matchBytes S bs c).map (·, []))
  | [], pc, c, sv, _, _, hc => ⟨sv, rfl, SaveOK.refl _ _, Writes.nil _, hc⟩
  | b :: bs, pc, c, sv, hA, hb, hc => by
    have hp : U[pc]? = some (.byte b) := At.head hA
    have hb0 : b < 256 := hb b (by simp)
    simp only [matchBytes]
    cases hr : S.read 1 c with
    | none =>
      simp only [reduceCtorEq, if_false, Option.map_none]
      exact Runs.step_none hS hp rfl (by simp only [step, hr])
    | some v =>
      obtain ⟨hv1, hv2⟩ := hS.read1 _ _ hr
      by_cases hvb : v = b
      · subst hvb
        simp only [if_true]
        have hst : step S (.byte v) ⟨pc + 1, c, sv⟩ 0xff 0 = .ok (some (⟨pc + 1, c + 1, sv⟩, 0xff, 0)) := by
          simp only [step, hr, hv1, if_true]
        have ih := run_bytes k bs (pc + 1) (c + 1) sv (At.tail hA) (fun x hx => hb x (by simp [hx])) hv1
        exact Runs.of_eq (execT_step_some hS (st := ⟨pc, c, sv⟩) hp rfl hst) (by simp only [List.length_cons]; omega) ih
      · have : ¬ (some v = some b) := by simpa using hvb
        simp only [this, if_false, Option.map_none]
        refine Runs.step_none hS hp rfl ?_
        simp only [step, hr, and255_eq hv2, and255_eq hb0, hvb, if_false]

/-- the items that compile to one non-control atom -/
def simpleAtom (k : Nat) : Item → Option Atom
  | .byte b => some (.byte b)
  | .jump j => some j.atom
  | .save => some (.save k)
  | .aligned n => some (.aligned n)
  | .readI w => some (readAtom true w k)
  | .readU w => some (readAtom false w k)
  | .zero => some (.zero k)
  | _ => none

omit hS in
theorem comp_simple {k : Nat} {it : Item} {a : Atom} (h : simpleAtom k it = some a) (pend : Option Nat) (r : List Item) :
    comp k pend (it :: r) = flush pend ++ [a] ++ comp (slotsItem k it) none r := by
  cases it <;> simp only [simpleAtom, Option.some.injEq, reduceCtorEq] at h <;> subst h <;>
    simp [comp, slotsItem]

omit hS in
theorem sext8_eq {v : Nat} (h : v < 256) : sext8 v = signExtend 1 v := by
  unfold sext8 signExtend; simp only [if_true]; split <;> omega

omit hS in
theorem sext16_eq {v : Nat} (h : v < 65536) : sext16 v = signExtend 2 v := by
  unfold sext16 signExtend; simp only [show (2 : Nat) ≠ 1 by decide, if_false, if_true]; split <;> omega

theorem runs_simple {k d : Nat} {it : Item} {a : Atom} (h : simpleAtom k it = some a) (hwf : wfItem d it = true)
    {pc c : Nat} {sv : Array Nat} (hp : U[pc]? = some a) (hc : c < 4294967296) :
    Runs S U k pc 1 0 c sv (semItem S k it c) := by
  cases it <;> simp only [simpleAtom, Option.some.injEq, reduceCtorEq] at h <;> subst h
  case byte b =>
    have := run_bytes hS (U := U) k [b] pc c sv (by intro i a ha; cases i <;> simp_all) (by simpa [wfItem] using hwf) hc
    simpa [semItem] using this
  case jump j =>
    simp only [semItem]
    cases j with
    | j1 =>
      simp only [Jump.target, Jump.atom] at hp ⊢
      cases hr : S.read 1 c with
      | none => exact Runs.step_none hS hp rfl (by simp only [step, hr] <;> rfl)
      | some v =>
        have hv := (hS.read1 _ _ hr).2
        simp only [Option.map_some, ← sext8_eq hv]
        refine Runs.step_some hS hp rfl (by simp only [step, hr] <;> rfl) (SaveOK.refl _ _) (Writes.nil _) ?_
        simp only [addRva_eq_wadd32]; exact wadd32_lt _ _
    | j4 =>
      simp only [Jump.target, Jump.atom] at hp ⊢
      cases hr : S.read 4 c with
      | none => exact Runs.step_none hS hp rfl (by simp only [step, hr] <;> rfl)
      | some v =>
        refine Runs.step_some hS hp rfl (by simp only [step, hr] <;> rfl) (SaveOK.refl _ _) (Writes.nil _) ?_
        simp only [addRva_eq_wadd32]; exact wadd32_lt _ _
    | ptr =>
      simp only [Jump.target, Jump.atom] at hp ⊢
      cases hr : (S.read S.fmt.ptrSize c).bind S.pointer with
      | none => exact Runs.step_none hS hp rfl (by simp only [step, hr] <;> rfl)
      | some v =>
        obtain ⟨va, _, hv⟩ := Option.bind_eq_some_iff.1 hr
        exact Runs.step_some hS hp rfl (by simp only [step, hr] <;> rfl) (SaveOK.refl _ _) (Writes.nil _) (hS.pointer_lt _ _ hv)
  case save =>
    simp only [semItem]
    exact Runs.step_some hS hp rfl (by simp only [step]) (SaveOK.set _ _ _) (Writes.single _ _ _) hc
  case aligned n =>
    simp only [semItem]
    split
    · next hal => exact Runs.step_none hS hp rfl (by simp only [step]; rw [if_pos hal])
    · next hal => exact Runs.step_some hS hp rfl (by simp only [step]; rw [if_neg hal]) (SaveOK.refl _ _) (Writes.nil _) hc
  case readI w =>
    simp only [semItem]
    have hw : w = 1 ∨ w = 2 ∨ w = 4 := by simp [wfItem] at hwf; omega
    rcases hw with rfl | rfl | rfl <;> simp only [readAtom] at hp
    · cases hr : S.read 1 c with
      | none => exact Runs.step_none hS hp rfl (by simp only [step, hr] <;> rfl)
      | some v =>
        have hv := hS.read_lt _ _ _ hr
        refine Runs.step_some hS hp rfl (by simp only [step, hr] <;> rfl) (SaveOK.set _ _ _) ?_ (wadd32_lt _ _)
        rw [← sext8_eq (by omega)]; exact Writes.single _ _ _
    · cases hr : S.read 2 c with
      | none => exact Runs.step_none hS hp rfl (by simp only [step, hr] <;> rfl)
      | some v =>
        have hv := hS.read_lt _ _ _ hr
        refine Runs.step_some hS hp rfl (by simp only [step, hr] <;> rfl) (SaveOK.set _ _ _) ?_ (wadd32_lt _ _)
        rw [← sext16_eq (by omega)]; exact Writes.single _ _ _
    · cases hr : S.read 4 c with
      | none => exact Runs.step_none hS hp rfl (by simp only [step, hr] <;> rfl)
      | some v =>
        refine Runs.step_some hS hp rfl (by simp only [step, hr] <;> rfl) (SaveOK.set _ _ _) ?_ (wadd32_lt _ _)
        have : signExtend 4 v = v := by simp [signExtend]
        rw [this]; exact Writes.single _ _ _
  case readU w =>
    simp only [semItem]
    have hw : w = 1 ∨ w = 2 ∨ w = 4 := by simp [wfItem] at hwf; omega
    rcases hw with rfl | rfl | rfl <;> simp only [readAtom] at hp
    · cases hr : S.read 1 c with
      | none => exact Runs.step_none hS hp rfl (by simp only [step, hr] <;> rfl)
      | some v => exact Runs.step_some hS hp rfl (by simp only [step, hr] <;> rfl) (SaveOK.set _ _ _) (Writes.single _ _ _) (wadd32_lt _ _)
    · cases hr : S.read 2 c with
      | none => exact Runs.step_none hS hp rfl (by simp only [step, hr] <;> rfl)
      | some v => exact Runs.step_some hS hp rfl (by simp only [step, hr] <;> rfl) (SaveOK.set _ _ _) (Writes.single _ _ _) (wadd32_lt _ _)
    · cases hr : S.read 4 c with
      | none => exact Runs.step_none hS hp rfl (by simp only [step, hr] <;> rfl)
      | some v => exact Runs.step_some hS hp rfl (by simp only [step, hr] <;> rfl) (SaveOK.set _ _ _) (Writes.single _ _ _) (wadd32_lt _ _)
  case zero =>
    simp only [semItem]
    exact Runs.step_some hS hp rfl (by simp only [step]) (SaveOK.set _ _ _) (Writes.single _ _ _) hc

end Main


section Main2
variable {S : ScanI} (hS : S.WF) {U : List Atom}
include hS

/-- an item whose code is `flush pend ++ code`, followed by the rest of the sequence -/
theorem runs_cons {it : Item} {r : List Item} {k : Nat} {pend : Option Nat} {E pc c : Nat} {sv : Array Nat}
    {code : List Atom} (hnr : ∀ a b, it ≠ .range a b)
    (hcomp : comp k pend (it :: r) = flush pend ++ code ++ comp (slotsItem k it) none r)
    (hA : At U pc (comp k pend (it :: r))) (hg : PendGood pend E)
    (hit : Runs S U k (pc + (flush pend).length) code.length 0 (cur pend E c) sv (semItem S k it (cur pend E c)))
    (hr : ∀ c1 sv1, c1 < 4294967296 →
      Runs S U (slotsItem k it) (pc + (flush pend).length + code.length) (comp (slotsItem k it) none r).length 0 c1 sv1
        (sem S (slotsItem k it) r c1)) :
    Runs S U k pc (comp k pend (it :: r)).length E c sv (sem S k (it :: r) (cur pend E c)) := by
  rw [sem_cons S k it r _ hnr]
  rw [hcomp] at hA ⊢
  have hlen : (flush pend ++ code ++ comp (slotsItem k it) none r).length =
      (flush pend).length + (code.length + (comp (slotsItem k it) none r).length) := by
    simp only [List.length_append]; omega
  rw [hlen]
  apply Runs.flush hS hA.left.left hg
  cases hsi : semItem S k it (cur pend E c) with
  | none => rw [hsi] at hit; exact hit
  | some r1 =>
    obtain ⟨c1, w1⟩ := r1
    rw [hsi] at hit
    simp only
    have hc1 : c1 < 4294967296 := by obtain ⟨_, _, _, _, h⟩ := hit; exact h
    exact Runs.seq hit (semItem_slots S k it _ _ _ hsi) (slotsItem_le k it) (fun sv1 _ => hr c1 sv1 hc1)

omit hS in
theorem Jump.target_lt (hS : S.WF) {j : Jump} {c t : Nat} (h : j.target S c = some t) : t < 4294967296 := by
  cases j with
  | j1 =>
    simp only [Jump.target, Option.map_eq_some_iff] at h
    obtain ⟨v, _, rfl⟩ := h; exact wadd32_lt _ _
  | j4 =>
    simp only [Jump.target, Option.map_eq_some_iff] at h
    obtain ⟨v, _, rfl⟩ := h; exact wadd32_lt _ _
  | ptr =>
    simp only [Jump.target] at h
    obtain ⟨va, _, hv⟩ := Option.bind_eq_some_iff.1 h
    exact hS.pointer_lt _ _ hv

omit hS in
theorem skipAmt_push (j : Jump) : skipAmt S 0 j.push = j.width S := by
  cases j <;> simp [skipAmt, Jump.push, Jump.width]

/-- `j { body }` : `Push, jump, body…, Pop` -/
theorem group_runs {j : Jump} {gap : List UInt8} {body : List Item} {k d pc c : Nat} {sv : Array Nat}
    (hA : At U pc (.push j.push :: j.atom :: (comp k none body ++ [.pop]))) (hc : c < 4294967296)
    (hbody : ∀ t sv1, t < 4294967296 →
      Runs S U k (pc + 2) (comp k none body).length 0 t sv1 (sem S k body t)) :
    Runs S U k pc (.push j.push :: j.atom :: (comp k none body ++ [.pop])).length 0 c sv
      (semItem S k (.group j gap body) c) := by
  have hpush : U[pc]? = some (.push j.push) := hA.head
  have hjmp : U[pc + 1]? = some j.atom := hA.tail.head
  have hpop : U[pc + 2 + (comp k none body).length]? = some .pop := by
    have := hA.tail.tail.right.head
    simpa [Nat.add_assoc] using this
  have hterm := IsTerm.pop hS hpop
  have hjs := runs_simple hS (k := k) (d := d) (it := .jump j) (a := j.atom) rfl rfl (sv := sv) hjmp hc
  simp only [semItem] at hjs ⊢
  have hlen : (Atom.push j.push :: j.atom :: (comp k none body ++ [Atom.pop])).length =
      2 + (comp k none body).length + 1 := by simp; omega
  rw [hlen]
  cases htg : j.target S c with
  | none =>
    rw [htg] at hjs
    obtain ⟨st', he, hok⟩ := hjs
    refine ⟨st', ?_, hok⟩
    rw [execT_push hS (st := ⟨pc, c, sv⟩) hpush]
    rw [he]
  | some t =>
    rw [htg] at hjs
    obtain ⟨sv0, he, hok0, _, ht⟩ := hjs
    have hb := hbody t sv0 ht
    cases hsb : sem S k body t with
    | none =>
      rw [hsb] at hb
      obtain ⟨st', he2, hok2⟩ := hb
      simp only [hsb]
      refine ⟨st', ?_, hok0.trans hok2 (Nat.le_refl _)⟩
      rw [execT_push hS (st := ⟨pc, c, sv⟩) hpush]
      rw [he, show pc + 1 + 1 = pc + 2 by omega, he2]
    | some rb =>
      obtain ⟨cb, wb⟩ := rb
      rw [hsb] at hb
      obtain ⟨sv2, he2, hok2, hw2, _⟩ := hb
      simp only [hsb]
      refine ⟨sv2, ?_, hok0.trans hok2 (Nat.le_refl _), hw2, by simp only [addRva_eq_wadd32]; exact wadd32_lt _ _⟩
      rw [execT_push hS (st := ⟨pc, c, sv⟩) hpush]
      rw [he, show pc + 1 + 1 = pc + 2 by omega, he2, hterm cb sv2]
      simp only [skipAmt_push, addRva_eq_wadd32, Nat.add_assoc]

end Main2


section Main3
variable {S : ScanI} (hS : S.WF) {U : List Atom}
include hS

omit hS in
theorem IsTerm.cast {a b pcR : Nat} (h : IsTerm S U a pcR) (e : a = b) : IsTerm S U b pcR := by subst e; exact h

omit hS in
theorem peekOk_false {peek : Option Nat} {v : Nat} (h : peekOk peek v = false) : ∃ b, peek = some b ∧ v ≠ b := by
  cases peek with
  | none => simp [peekOk] at h
  | some b => exact ⟨b, rfl, by simpa [peekOk] using h⟩

/-- `exec_many`'s loop (with the `memchr` shortcut) finds the first candidate at which the rest of the
frame matches -/
theorem manyT_runs (hB : ∀ b, Atom.byte b ∈ U → b < 256) {k pcM len pcR cursor off : Nat} {r : List Item}
    (hterm : IsTerm S U (pcM + len) pcR)
    (hr : ∀ c1 sv1, c1 < 4294967296 → Runs S U k pcM len 0 c1 sv1 (sem S k r c1)) :
    ∀ (n i : Nat) (st0 : St),
      (∀ j, i ≤ j → j < i + n → S.read 1 (wadd32 cursor j) = some (byteAt S.mem (off + j))) →
      match firstSome (fun j => sem S k r (wadd32 cursor j)) n i with
      | some (c', w) => ∃ sv', manyT S.mem (fun s => execT S U s 0xff 0) cursor pcM off (peekByte (U.drop pcM)) n i st0
            = (true, ⟨pcR, c', sv'⟩) ∧ SaveOK k st0.save sv' ∧ Writes w sv' ∧ c' < 4294967296
      | none => ∃ st', manyT S.mem (fun s => execT S U s 0xff 0) cursor pcM off (peekByte (U.drop pcM)) n i st0
            = (false, st') ∧ SaveOK k st0.save st'.save := by
  intro n
  induction n with
  | zero => intro i st0 _; exact ⟨st0, rfl, SaveOK.refl _ _⟩
  | succ n ih =>
    intro i st0 hcoh
    have hrun := hr (wadd32 cursor i) st0.save (wadd32_lt _ _)
    have hcoh' : ∀ j, i + 1 ≤ j → j < i + 1 + n → S.read 1 (wadd32 cursor j) = some (byteAt S.mem (off + j)) :=
      fun j h1 h2 => hcoh j (by omega) (by omega)
    simp only [firstSome, manyT]
    cases hpk : peekOk (peekByte (U.drop pcM)) (byteAt S.mem (off + i)) with
    | true =>
      simp only [if_true]
      have hst : ({ st0 with cursor := wadd32 cursor i, pc := pcM } : St) = ⟨pcM, wadd32 cursor i, st0.save⟩ := rfl
      rw [hst]
      cases hs : sem S k r (wadd32 cursor i) with
      | none =>
        rw [hs] at hrun
        obtain ⟨st', he, hok⟩ := hrun
        simp only [he]
        have := ih (i + 1) st' hcoh'
        cases hf : firstSome (fun j => sem S k r (wadd32 cursor j)) n (i + 1) with
        | none =>
          rw [hf] at this
          obtain ⟨st2, h1, h2⟩ := this
          exact ⟨st2, h1, hok.trans h2 (Nat.le_refl _)⟩
        | some x =>
          obtain ⟨c', w⟩ := x
          rw [hf] at this
          obtain ⟨sv2, h1, h2, h3, h4⟩ := this
          exact ⟨sv2, h1, hok.trans h2 (Nat.le_refl _), h3, h4⟩
      | some x =>
        obtain ⟨c', w⟩ := x
        rw [hs] at hrun
        obtain ⟨sv', he, hok, hw, hc'⟩ := hrun
        simp only [he, hterm c' sv']
        exact ⟨sv', rfl, hok, hw, hc'⟩
    | false =>
      simp only [Bool.false_eq_true, if_false]
      obtain ⟨b, hb, hne⟩ := peekOk_false hpk
      have hrd : S.read 1 (wadd32 cursor i) ≠ some b := by
        rw [hcoh i (Nat.le_refl _) (by omega)]
        intro h; exact hne (Option.some.inj h)
      have hfail := peek_fail hS hB hrd _ pcM st0.save rfl hb
      have hs : sem S k r (wadd32 cursor i) = none := by
        cases hs : sem S k r (wadd32 cursor i) with
        | none => rfl
        | some x =>
          obtain ⟨c', w⟩ := x
          rw [hs] at hrun
          obtain ⟨sv', he, _⟩ := hrun
          rw [he, hterm c' sv'] at hfail
          cases hfail
      simp only [hs]
      exact ih (i + 1) st0 hcoh'

/-- the optional `Rangext` in front of a `Skip` / `Many` -/
theorem run_rangext {n pc c : Nat} {sv : Array Nat} (hA : At U pc (rangext n)) :
    execT S U ⟨pc, c, sv⟩ 0xff 0 = execT S U ⟨pc + (rangext n).length, c, sv⟩ 0xff (n / 256 * 256) := by
  unfold rangext at hA ⊢
  split
  · next h =>
    simp only [h, if_true] at hA
    have hp : U[pc]? = some (.rangext (n / 256)) := hA.head
    rw [execT_step_some hS (st := ⟨pc, c, sv⟩) hp rfl (st' := ⟨pc + 1, c, sv⟩) (m' := 0xff) (e' := n / 256 * 256) rfl]
    rfl
  · next h =>
    have : n / 256 * 256 = 0 := by omega
    rw [this]; rfl

omit hS in
theorem comp_range (k : Nat) (pend : Option Nat) (a b : Nat) (r : List Item) :
    comp k pend (.range a b :: r) =
      (if a = 0 then flush pend else flush pend ++ rangext a ++ [.skip (a % 256)])
        ++ rangext (b - a) ++ .many ((b - a) % 256) :: comp k none r := by
  rw [comp]

/-- `[a-b]` followed by the rest of the frame -/
theorem range_runs (hB : ∀ b, Atom.byte b ∈ U → b < 256) (hC : Coherent S) {a b k pc c : Nat} {sv : Array Nat}
    {pend : Option Nat} {E : Nat} {r : List Item} {pcR : Nat} (hab : a < b)
    (hA : At U pc (comp k pend (.range a b :: r))) (hg : PendGood pend E) (hc : c < 4294967296)
    (hterm : IsTerm S U (pc + (comp k pend (.range a b :: r)).length) pcR)
    (hr : ∀ pcM, pcM + (comp k none r).length = pc + (comp k pend (.range a b :: r)).length →
      At U pcM (comp k none r) →
      ∀ c1 sv1, c1 < 4294967296 → Runs S U k pcM (comp k none r).length 0 c1 sv1 (sem S k r c1)) :
    Runs S U k pc (comp k pend (.range a b :: r)).length E c sv (sem S k (.range a b :: r) (cur pend E c)) := by
  have hc0 : cur pend E c < 4294967296 := cur_lt hc
  generalize hc0' : cur pend E c = c0 at hc0
  -- positions
  let lo := if a = 0 then flush pend else flush pend ++ rangext a ++ [Atom.skip (a % 256)]
  have hcomp := comp_range k pend a b r
  rw [hcomp] at hA hterm hr ⊢
  -- phase 1: the lower bound
  have h1 : execT S U ⟨pc, c, sv⟩ 0xff E = execT S U ⟨pc + lo.length, wadd32 c0 a, sv⟩ 0xff 0 := by
    by_cases ha : a = 0
    · have hlo : lo = flush pend := by simp [lo, ha]
      rw [hlo, ha, wadd32_zero hc0, ← hc0']
      have : At U pc (flush pend) := by
        have := hA.left.left
        simpa [ha] using this
      exact run_flush hS this hg
    · have hlo : lo = flush pend ++ rangext a ++ [Atom.skip (a % 256)] := by simp [lo, ha]
      have hAlo : At U pc (flush pend ++ rangext a ++ [Atom.skip (a % 256)]) := by
        have := hA.left.left
        simpa [ha] using this
      rw [hlo, run_flush hS hAlo.left.left hg, hc0', run_rangext hS hAlo.left.right]
      have hp : U[pc + (flush pend).length + (rangext a).length]? = some (.skip (a % 256)) := by
        have := hAlo.right.head
        simpa [Nat.add_assoc] using this
      have hamt : skipAmt S (a / 256 * 256) (a % 256) = a := by
        unfold skipAmt
        have : a / 256 * 256 + a % 256 = a := by omega
        rw [this]; simp [ha]
      rw [execT_step_some hS (st := ⟨pc + (flush pend).length + (rangext a).length, c0, sv⟩) hp rfl
        (st' := ⟨pc + (flush pend).length + (rangext a).length + 1, wadd32 c0 a, sv⟩) (m' := 0xff) (e' := 0)
        (by simp only [step, hamt])]
      simp [Nat.add_assoc]
  -- phase 2: Rangext, Many
  have hAm : At U (pc + lo.length) (rangext (b - a) ++ .many ((b - a) % 256) :: comp k none r) := by
    have h2 : At U pc (lo ++ (rangext (b - a) ++ .many ((b - a) % 256) :: comp k none r)) := by
      rw [← List.append_assoc]; exact hA
    exact h2.right
  have h2 := run_rangext hS (c := wadd32 c0 a) (sv := sv) hAm.left
  have hpm : U[pc + lo.length + (rangext (b - a)).length]? = some (.many ((b - a) % 256)) := hAm.right.head
  have hAr : At U (pc + lo.length + (rangext (b - a)).length + 1) (comp k none r) := hAm.right.tail
  have hlen : (lo ++ rangext (b - a) ++ Atom.many ((b - a) % 256) :: comp k none r).length =
      lo.length + (rangext (b - a)).length + 1 + (comp k none r).length := by
    simp only [List.length_append, List.length_cons]; omega
  have hlim : (b - a) / 256 * 256 + (b - a) % 256 = b - a := by omega
  have hrr := hr (pc + lo.length + (rangext (b - a)).length + 1) (by rw [hlen]; omega) hAr
  have hterm' : IsTerm S U (pc + lo.length + (rangext (b - a)).length + 1 + (comp k none r).length) pcR :=
    hterm.cast (by rw [hlen]; omega)
  simp only [sem, addRva_eq_wadd32]
  have h3 := execT_many hS (st := ⟨pc + lo.length + (rangext (b - a)).length, wadd32 c0 a, sv⟩)
    (m := 0xff) (e := (b - a) / 256 * 256) hpm
  rw [hlim] at h3
  have hne : ¬ (b - a = 0) := by omega
  simp only [hne, if_false] at h3
  cases hsl : S.slice (wadd32 c0 a) with
  | none =>
    simp only [hsl] at h3 ⊢
    exact ⟨_, by rw [h1, h2, h3], SaveOK.refl _ _⟩
  | some ol =>
    obtain ⟨off, len⟩ := ol
    simp only [hsl] at h3 ⊢
    have hm := manyT_runs hS hB (cursor := wadd32 c0 a) (off := off) hterm' hrr (min (b - a) len) 0
      ⟨pc + lo.length + (rangext (b - a)).length + 1, wadd32 c0 a, sv⟩
      (fun j _ hj => hC _ _ _ j hsl (by omega))
    cases hf : firstSome (fun i => sem S k r (wadd32 (wadd32 c0 a) i)) (min (b - a) len) 0 with
    | none =>
      rw [hf] at hm
      obtain ⟨st', hm1, hm2⟩ := hm
      exact ⟨st', by rw [h1, h2, h3, hm1], hm2⟩
    | some x =>
      obtain ⟨c', w⟩ := x
      rw [hf] at hm
      obtain ⟨sv', hm1, hm2, hm3, hm4⟩ := hm
      refine ⟨sv', ?_, hm2, hm3, hm4⟩
      rw [h1, h2, h3, hm1, hterm c' sv']

end Main3


section Main4
variable {S : ScanI} (hS : S.WF) {U : List Atom}
include hS

omit hS in
theorem term_tail {t : Bool} {x y pcR : Nat} (h : t = true → IsTerm S U x pcR) (e : x = y) :
    t = true → IsTerm S U y pcR := fun ht => (h ht).cast e

omit hS in
theorem wf_cons {d : Nat} {it : Item} {r : List Item} (h : wfItems d (it :: r) = true) :
    wfItem d it = true ∧ wfItems d r = true := by
  simpa [wfItems] using h

omit hS in
theorem sc_tail {t : Bool} {it : Item} {r : List Item} (h : scopeOK t (it :: r) = true) : scopeOK t r = true := by
  cases it <;> simp only [scopeOK, Bool.and_eq_true] at h <;> first | exact h | exact h.2

omit hS in
theorem comp_silent : ∀ (r : List Item) (k : Nat), silent r = true → comp k none r = []
  | [], k, _ => by simp [comp, flush]
  | it :: r, k, h => by
    simp only [silent, List.all_cons, Bool.and_eq_true] at h
    have ih := comp_silent r k (by simpa [silent] using h.2)
    cases it <;> simp_all [silentItem, comp]

end Main4


section Main5
variable {S : ScanI} (hS : S.WF) {U : List Atom}
include hS

/-- an item compiled to one non-control atom, followed by the rest -/
theorem simple_case {it : Item} {r : List Item} {a : Atom} {k d : Nat} {pend : Option Nat} {E pc c : Nat} {sv : Array Nat}
    (h : simpleAtom k it = some a) (hwf : wfItem d it = true)
    (hA : At U pc (comp k pend (it :: r))) (hg : PendGood pend E) (hc : c < 4294967296)
    (ih : ∀ pc1 c1 sv1, pc1 = pc + (flush pend).length + 1 → At U pc1 (comp (slotsItem k it) none r) → c1 < 4294967296 →
      Runs S U (slotsItem k it) pc1 (comp (slotsItem k it) none r).length 0 c1 sv1 (sem S (slotsItem k it) r c1)) :
    Runs S U k pc (comp k pend (it :: r)).length E c sv (sem S k (it :: r) (cur pend E c)) := by
  have hnr : ∀ x y, it ≠ .range x y := by
    intro x y hxy; subst hxy; simp [simpleAtom] at h
  have hcomp := comp_simple h pend r
  have hA' := hA
  rw [hcomp] at hA'
  refine runs_cons hS hnr hcomp hA hg ?_ ?_
  · exact runs_simple hS h hwf hA'.left.right.head (cur_lt hc)
  · intro c1 sv1 hc1
    exact ih _ c1 sv1 rfl (by simpa [Nat.add_assoc] using hA'.right) hc1

mutual
theorem comp_runs (hB : ∀ b, Atom.byte b ∈ U → b < 256) (hC : Coherent S) :
    ∀ (items : List Item) (k d : Nat) (pend : Option Nat) (E pc c : Nat) (sv : Array Nat) (pcR : Nat) (t : Bool),
    wfItems d items = true → scopeOK t items = true → At U pc (comp k pend items) → PendGood pend E →
    c < 4294967296 → (t = true → IsTerm S U (pc + (comp k pend items).length) pcR) →
    Runs S U k pc (comp k pend items).length E c sv (sem S k items (cur pend E c))
  | [], k, d, pend, E, pc, c, sv, pcR, t, _, _, hA, hg, hc, _ => by
    simp only [comp, sem] at hA ⊢
    have := Runs.flush hS (k := k) (len := 0) (sv := sv) (c := c) (res := some (cur pend E c, [])) hA hg
      ⟨sv, rfl, SaveOK.refl _ _, Writes.nil _, cur_lt hc⟩
    simpa using this
  | .ws s :: r, k, d, pend, E, pc, c, sv, pcR, t, hwf, hcl, hA, hg, hc, hfr => by
    have hcomp : comp k pend (.ws s :: r) = comp k pend r := by rw [comp]
    have hsem : sem S k (.ws s :: r) (cur pend E c) = sem S k r (cur pend E c) := by
      rw [sem_cons S k _ r _ (by intro a b h; cases h)]; simp [semItem, slotsItem, thenRes_nil]
    rw [hcomp] at hA hfr ⊢
    rw [hsem]
    exact comp_runs hB hC r k d pend E pc c sv pcR t (wf_cons hwf).2 (sc_tail hcl) hA hg hc (term_tail hfr rfl)
  | .str bs :: r, k, d, pend, E, pc, c, sv, pcR, t, hwf, hcl, hA, hg, hc, hfr => by
    by_cases hbs : bs = []
    · subst hbs
      have hcomp : comp k pend (.str [] :: r) = comp k pend r := by rw [comp]; simp
      have hsem : sem S k (.str [] :: r) (cur pend E c) = sem S k r (cur pend E c) := by
        rw [sem_cons S k _ r _ (by intro a b h; cases h)]; simp [semItem, slotsItem, thenRes_nil, matchBytes]
      rw [hcomp] at hA hfr ⊢
      rw [hsem]
      exact comp_runs hB hC r k d pend E pc c sv pcR t (wf_cons hwf).2 (sc_tail hcl) hA hg hc (term_tail hfr rfl)
    · have hcomp : comp k pend (.str bs :: r) =
          flush pend ++ (bs.map UInt8.toNat).map Atom.byte ++ comp (slotsItem k (.str bs)) none r := by
        rw [comp]; simp [hbs, slotsItem, List.map_map, Function.comp_def]
      have hA' := hA
      rw [hcomp] at hA'
      refine runs_cons hS (by intro a b h; cases h) hcomp hA hg ?_ ?_
      · have := run_bytes hS (U := U) k (bs.map UInt8.toNat) (pc + (flush pend).length) (cur pend E c) sv
          hA'.left.right (by intro b hb; obtain ⟨x, _, rfl⟩ := List.mem_map.1 hb; exact x.toNat_lt) (cur_lt hc)
        simpa [semItem] using this
      · intro c1 sv1 hc1
        have hl : (comp k pend (.str bs :: r)).length =
            (flush pend).length + ((bs.map UInt8.toNat).map Atom.byte).length + (comp (slotsItem k (.str bs)) none r).length := by
          rw [hcomp]; simp only [List.length_append]
        exact comp_runs hB hC r _ d none 0 _ c1 sv1 pcR t (wf_cons hwf).2 (sc_tail hcl)
          (by simpa [Nat.add_assoc] using hA'.right) rfl hc1 (term_tail hfr (by rw [hl]; simp only [List.length_map]; omega))
  | .any :: r, k, d, pend, E, pc, c, sv, pcR, t, hwf, hcl, hA, hg, hc, hfr => by
    have hsem : sem S k (.any :: r) (cur pend E c) = sem S k r (wadd32 (cur pend E c) 1) := by
      rw [sem_cons S k _ r _ (by intro a b h; cases h)]; simp [semItem, slotsItem, thenRes_nil, addRva_eq_wadd32]
    rw [hsem]
    cases pend with
    | none =>
      have hcomp : comp k none (.any :: r) = comp k (some 1) r := by rw [comp]
      rw [hcomp] at hA hfr ⊢
      simp only [PendGood] at hg
      subst hg
      have := comp_runs hB hC r k d (some 1) 0 pc c sv pcR t (wf_cons hwf).2 (sc_tail hcl) hA (by simp [PendGood]) hc
        (term_tail hfr rfl)
      simpa [cur] using this
    | some n =>
      by_cases hm : n ≠ 0 ∧ n < 255
      · have hcomp : comp k (some n) (.any :: r) = comp k (some (n + 1)) r := by rw [comp]; simp [hm]
        rw [hcomp] at hA hfr ⊢
        have := comp_runs hB hC r k d (some (n + 1)) E pc c sv pcR t (wf_cons hwf).2 (sc_tail hcl) hA
          (by simp only [PendGood]; omega) hc (term_tail hfr rfl)
        simpa [cur, wadd32_wadd32, Nat.add_assoc] using this
      · have hcomp : comp k (some n) (.any :: r) = .skip n :: comp k (some 1) r := by rw [comp]; simp [hm]
        rw [hcomp] at hA hfr ⊢
        have h1 := run_flush hS (pend := some n) (E := E) (c := c) (sv := sv) (pc := pc)
          (by intro i a ha; exact hA i a (by cases i <;> simp_all [flush])) hg
        have := comp_runs hB hC r k d (some 1) 0 (pc + 1) (cur (some n) E c) sv pcR t (wf_cons hwf).2 (sc_tail hcl)
          hA.tail (by simp [PendGood]) (cur_lt hc)
          (term_tail hfr (by simp only [List.length_cons]; omega))
        have h2 : cur (some 1) 0 (cur (some n) E c) = wadd32 (cur (some n) E c) 1 := by simp [cur]
        rw [h2] at this
        exact Runs.of_eq h1 (by simp [flush]; omega) this
  | .skip n :: r, k, d, pend, E, pc, c, sv, pcR, t, hwf, hcl, hA, hg, hc, hfr => by
    have hsem : sem S k (.skip n :: r) (cur pend E c) = sem S k r (wadd32 (cur pend E c) n) := by
      rw [sem_cons S k _ r _ (by intro a b h; cases h)]; simp [semItem, slotsItem, thenRes_nil, addRva_eq_wadd32]
    rw [hsem]
    by_cases hn : n = 0
    · subst hn
      have hcomp : comp k pend (.skip 0 :: r) = comp k pend r := by rw [comp]; simp
      rw [hcomp] at hA hfr ⊢
      rw [wadd32_zero (cur_lt hc)]
      exact comp_runs hB hC r k d pend E pc c sv pcR t (wf_cons hwf).2 (sc_tail hcl) hA hg hc (term_tail hfr rfl)
    · have hcomp : comp k pend (.skip n :: r) = flush pend ++ rangext n ++ comp k (some (n % 256)) r := by
        rw [comp]; simp [hn]
      rw [hcomp] at hA hfr ⊢
      have h1 := run_flush hS (E := E) (c := c) (sv := sv) hA.left.left hg
      have h2 := run_rangext hS (c := cur pend E c) (sv := sv) hA.left.right
      have hl : (flush pend ++ rangext n ++ comp k (some (n % 256)) r).length =
          (flush pend).length + (rangext n).length + (comp k (some (n % 256)) r).length := by
        simp only [List.length_append]
      have := comp_runs hB hC r k d (some (n % 256)) (n / 256 * 256) (pc + (flush pend).length + (rangext n).length)
        (cur pend E c) sv pcR t (wf_cons hwf).2 (sc_tail hcl) (by simpa [Nat.add_assoc] using hA.right)
        (by simp only [PendGood]; omega) (cur_lt hc) (term_tail hfr (by rw [hl]; omega))
      have h3 : cur (some (n % 256)) (n / 256 * 256) (cur pend E c) = wadd32 (cur pend E c) n := by
        simp only [cur]; congr 1; omega
      rw [h3] at this
      exact Runs.of_eq (h1.trans h2) (by rw [hl]; omega) this
  | .range a b :: r, k, d, pend, E, pc, c, sv, pcR, t, hwf, hcl, hA, hg, hc, hfr => by
    have hab : a < b := by
      have := (wf_cons hwf).1
      simp [wfItem] at this; exact this.1
    have ht : t = true := by
      simp only [scopeOK, Bool.and_eq_true] at hcl; exact hcl.1
    have hterm : IsTerm S U (pc + (comp k pend (.range a b :: r)).length) pcR := hfr ht
    refine range_runs hS hB hC hab hA hg hc hterm ?_
    intro pcM hpcM hAr c1 sv1 hc1
    exact comp_runs hB hC r k d none 0 pcM c1 sv1 pcR t (wf_cons hwf).2 (sc_tail hcl) hAr rfl hc1
      (fun _ => hterm.cast hpcM.symm)
  | .byte b :: r, k, d, pend, E, pc, c, sv, pcR, t, hwf, hcl, hA, hg, hc, hfr =>
    simple_case hS (it := .byte b) rfl (wf_cons hwf).1 hA hg hc fun pc1 c1 sv1 hpc1 hAr hc1 =>
      comp_runs hB hC r _ d none 0 pc1 c1 sv1 pcR t (wf_cons hwf).2 (sc_tail hcl) hAr rfl hc1
        (term_tail hfr (by rw [comp_simple (it := .byte b) rfl, hpc1]; simp only [List.length_append, List.length_cons, List.length_nil]; omega))
  | .jump j :: r, k, d, pend, E, pc, c, sv, pcR, t, hwf, hcl, hA, hg, hc, hfr =>
    simple_case hS (it := .jump j) rfl (wf_cons hwf).1 hA hg hc fun pc1 c1 sv1 hpc1 hAr hc1 =>
      comp_runs hB hC r _ d none 0 pc1 c1 sv1 pcR t (wf_cons hwf).2 (sc_tail hcl) hAr rfl hc1
        (term_tail hfr (by rw [comp_simple (it := .jump j) rfl, hpc1]; simp only [List.length_append, List.length_cons, List.length_nil]; omega))
  | .save :: r, k, d, pend, E, pc, c, sv, pcR, t, hwf, hcl, hA, hg, hc, hfr =>
    simple_case hS (it := .save) rfl (wf_cons hwf).1 hA hg hc fun pc1 c1 sv1 hpc1 hAr hc1 =>
      comp_runs hB hC r _ d none 0 pc1 c1 sv1 pcR t (wf_cons hwf).2 (sc_tail hcl) hAr rfl hc1
        (term_tail hfr (by rw [comp_simple (it := .save) rfl, hpc1]; simp only [List.length_append, List.length_cons, List.length_nil]; omega))
  | .aligned n :: r, k, d, pend, E, pc, c, sv, pcR, t, hwf, hcl, hA, hg, hc, hfr =>
    simple_case hS (it := .aligned n) rfl (wf_cons hwf).1 hA hg hc fun pc1 c1 sv1 hpc1 hAr hc1 =>
      comp_runs hB hC r _ d none 0 pc1 c1 sv1 pcR t (wf_cons hwf).2 (sc_tail hcl) hAr rfl hc1
        (term_tail hfr (by rw [comp_simple (it := .aligned n) rfl, hpc1]; simp only [List.length_append, List.length_cons, List.length_nil]; omega))
  | .readI w :: r, k, d, pend, E, pc, c, sv, pcR, t, hwf, hcl, hA, hg, hc, hfr =>
    simple_case hS (it := .readI w) rfl (wf_cons hwf).1 hA hg hc fun pc1 c1 sv1 hpc1 hAr hc1 =>
      comp_runs hB hC r _ d none 0 pc1 c1 sv1 pcR t (wf_cons hwf).2 (sc_tail hcl) hAr rfl hc1
        (term_tail hfr (by rw [comp_simple (it := .readI w) rfl, hpc1]; simp only [List.length_append, List.length_cons, List.length_nil]; omega))
  | .readU w :: r, k, d, pend, E, pc, c, sv, pcR, t, hwf, hcl, hA, hg, hc, hfr =>
    simple_case hS (it := .readU w) rfl (wf_cons hwf).1 hA hg hc fun pc1 c1 sv1 hpc1 hAr hc1 =>
      comp_runs hB hC r _ d none 0 pc1 c1 sv1 pcR t (wf_cons hwf).2 (sc_tail hcl) hAr rfl hc1
        (term_tail hfr (by rw [comp_simple (it := .readU w) rfl, hpc1]; simp only [List.length_append, List.length_cons, List.length_nil]; omega))
  | .zero :: r, k, d, pend, E, pc, c, sv, pcR, t, hwf, hcl, hA, hg, hc, hfr =>
    simple_case hS (it := .zero) rfl (wf_cons hwf).1 hA hg hc fun pc1 c1 sv1 hpc1 hAr hc1 =>
      comp_runs hB hC r _ d none 0 pc1 c1 sv1 pcR t (wf_cons hwf).2 (sc_tail hcl) hAr rfl hc1
        (term_tail hfr (by rw [comp_simple (it := .zero) rfl, hpc1]; simp only [List.length_append, List.length_cons, List.length_nil]; omega))
  | .group j gap body :: r, k, d, pend, E, pc, c, sv, pcR, t, hwf, hcl, hA, hg, hc, hfr => by
    have hcomp : comp k pend (.group j gap body :: r) =
        flush pend ++ (.push j.push :: j.atom :: (comp k none body ++ [.pop])) ++
          comp (slotsItem k (.group j gap body)) none r := by
      rw [comp]; simp [slotsItem, List.append_assoc]
    have hwfb : wfItems (d + 1) body = true := by
      have := (wf_cons hwf).1
      simp [wfItem] at this; exact this.2
    have hclb : scopeOK true body = true := by
      simp only [scopeOK, Bool.and_eq_true] at hcl; exact hcl.1
    have hA' := hA
    rw [hcomp] at hA'
    have hAc := hA'.left.right
    have hl : (comp k pend (.group j gap body :: r)).length =
        (flush pend).length + (2 + (comp k none body).length + 1) + (comp (slotsItem k (.group j gap body)) none r).length := by
      rw [hcomp]; simp only [List.length_append, List.length_cons, List.length_nil]; omega
    refine runs_cons hS (by intro a b h; cases h) hcomp hA hg ?_ ?_
    · refine group_runs hS (d := d) hAc (cur_lt hc) ?_
      intro tg sv1 ht
      have hpop : U[pc + (flush pend).length + 2 + (comp k none body).length]? = some .pop := by
        have := hAc.tail.tail.right.head
        simpa [Nat.add_assoc] using this
      exact comp_runs hB hC body k (d + 1) none 0 (pc + (flush pend).length + 2) tg sv1 _ true hwfb hclb
        (by simpa [Nat.add_assoc] using hAc.tail.tail.left) rfl ht (fun _ => IsTerm.pop hS hpop)
    · intro c1 sv1 hc1
      exact comp_runs hB hC r _ d none 0 _ c1 sv1 pcR t (wf_cons hwf).2 (sc_tail hcl)
        (by simpa [Nat.add_assoc] using hA'.right) rfl hc1
        (term_tail hfr (by rw [hl]; simp only [List.length_cons, List.length_append, List.length_nil]; omega))
  | .alt bodies :: r, k, d, pend, E, pc, c, sv, pcR, t, hwf, hcl, hA, hg, hc, hfr => by
    have hcomp : comp k pend (.alt bodies :: r) =
        flush pend ++ compAlts k bodies ++ comp (slotsItem k (.alt bodies)) none r := by
      rw [comp]; simp [slotsItem]
    have hwfb : bodies ≠ [] ∧ wfAlts d bodies = true := by
      have := (wf_cons hwf).1
      simp [wfItem] at this
      exact ⟨by intro h; simp [h] at this, this.2⟩
    have hclb : scopeOKAlts (t && silent r) bodies = true := by
      simp only [scopeOK, Bool.and_eq_true] at hcl; exact hcl.1
    have hA' := hA
    rw [hcomp] at hA'
    have hl : (comp k pend (.alt bodies :: r)).length =
        (flush pend).length + (compAlts k bodies).length + (comp (slotsItem k (.alt bodies)) none r).length := by
      rw [hcomp]; simp only [List.length_append]
    refine runs_cons hS (by intro a b h; cases h) hcomp hA hg ?_ ?_
    · simp only [semItem]
      refine alts_runs hB hC bodies k d _ _ sv pcR (t && silent r) hwfb.1 hwfb.2 hclb hA'.left.right (cur_lt hc) ?_
      intro htl
      simp only [Bool.and_eq_true] at htl
      have := hfr htl.1
      rw [hl, comp_silent r _ htl.2] at this
      exact this.cast (by simp only [List.length_nil]; omega)
    · intro c1 sv1 hc1
      exact comp_runs hB hC r _ d none 0 _ c1 sv1 pcR t (wf_cons hwf).2 (sc_tail hcl)
        (by simpa [Nat.add_assoc] using hA'.right) rfl hc1 (term_tail hfr (by rw [hl]; omega))
theorem alts_runs (hB : ∀ b, Atom.byte b ∈ U → b < 256) (hC : Coherent S) :
    ∀ (bodies : List (List Item)) (k d pc c : Nat) (sv : Array Nat) (pcR : Nat) (tl : Bool), bodies ≠ [] →
    wfAlts d bodies = true → scopeOKAlts tl bodies = true → At U pc (compAlts k bodies) → c < 4294967296 →
    (tl = true → IsTerm S U (pc + (compAlts k bodies).length) pcR) →
    Runs S U k pc (compAlts k bodies).length 0 c sv (semAlts S k bodies c)
  | [], _, _, _, _, _, _, _, hne, _, _, _, _, _ => absurd rfl hne
  | [b], k, d, pc, c, sv, pcR, tl, _, hwf, hcl, hA, hc, hfr => by
    have hwfb : wfItems d b = true := by simpa [wfAlts] using hwf
    have hclb : scopeOK tl b = true := by simpa [scopeOKAlts] using hcl
    simp only [compAlts] at hA ⊢
    have hnop : U[pc]? = some .nop := hA.head
    have h1 : execT S U ⟨pc, c, sv⟩ 0xff 0 = execT S U ⟨pc + 1, c, sv⟩ 0xff 0 :=
      execT_step_some hS (st := ⟨pc, c, sv⟩) hnop rfl rfl
    have := comp_runs hB hC b k d none 0 (pc + 1) c sv pcR tl hwfb hclb hA.tail rfl hc
      (term_tail hfr (by simp only [compAlts, List.length_cons]; omega))
    have h2 : semAlts S k [b] c = sem S k b c := by
      simp only [semAlts]
      cases sem S k b c <;> rfl
    rw [h2]
    exact Runs.of_eq h1 (by simp only [List.length_cons]; omega) this
  | b :: b' :: bs, k, d, pc, c, sv, pcR, tl, _, hwf, hcl, hA, hc, hfr => by
    have hwfb : wfItems d b = true ∧ wfAlts d (b' :: bs) = true := by
      simpa [wfAlts] using hwf
    have hclb : scopeOK true b = true ∧ scopeOKAlts tl (b' :: bs) = true := by
      rw [scopeOKAlts] at hcl
      · simpa using hcl
      · intro h; cases h
    have hcomp : compAlts k (b :: b' :: bs) =
        .case ((comp k none b).length + 1) :: (comp k none b ++ .brk (compAlts k (b' :: bs)).length :: compAlts k (b' :: bs)) := by
      rw [compAlts]
      intro h; cases h
    rw [hcomp] at hA hfr ⊢
    have hcase : U[pc]? = some (.case ((comp k none b).length + 1)) := hA.head
    have hbrk : U[pc + 1 + (comp k none b).length]? = some (.brk (compAlts k (b' :: bs)).length) := hA.tail.right.head
    have hArest : At U (pc + 1 + (comp k none b).length + 1) (compAlts k (b' :: bs)) := hA.tail.right.tail
    have hb := comp_runs hB hC b k d none 0 (pc + 1) c sv _ true hwfb.1 hclb.1 hA.tail.left rfl hc
      (fun _ => IsTerm.brk hS hbrk)
    have hcs := execT_case hS (st := ⟨pc, c, sv⟩) (m := 0xff) (e := 0) hcase
    have hsa : semAlts S k (b :: b' :: bs) c =
        match sem S k b c with
        | some r => some r
        | none => semAlts S k (b' :: bs) c := by rw [semAlts]; rfl
    rw [hsa]
    have hlen : (Atom.case ((comp k none b).length + 1) ::
        (comp k none b ++ Atom.brk (compAlts k (b' :: bs)).length :: compAlts k (b' :: bs))).length =
        1 + (comp k none b).length + 1 + (compAlts k (b' :: bs)).length := by
      simp only [List.length_cons, List.length_append]; omega
    rw [hlen] at hfr ⊢
    cases hs : sem S k b c with
    | some x =>
      obtain ⟨c', w⟩ := x
      rw [show cur none 0 c = c from rfl, hs] at hb
      obtain ⟨sv', he, hok, hw, hc'⟩ := hb
      refine ⟨sv', ?_, hok, hw, hc'⟩
      rw [hcs, he, IsTerm.brk hS hbrk c' sv']
      simp only [Nat.add_assoc]
    | none =>
      rw [show cur none 0 c = c from rfl, hs] at hb
      obtain ⟨st', he, hok⟩ := hb
      have ih := alts_runs hB hC (b' :: bs) k d (pc + 1 + (comp k none b).length + 1) c st'.save pcR tl (by simp) hwfb.2
        hclb.2 hArest hc (term_tail hfr (by omega))
      have he2 : execT S U ⟨pc, c, sv⟩ 0xff 0 =
          execT S U ⟨pc + 1 + (comp k none b).length + 1, c, st'.save⟩ 0xff 0 := by
        rw [hcs, he]
        simp only [Nat.add_assoc]
      simp only
      cases hs2 : semAlts S k (b' :: bs) c with
      | none =>
        rw [hs2] at ih
        obtain ⟨st2, h1, h2⟩ := ih
        exact ⟨st2, he2.trans h1, hok.trans h2 (Nat.le_refl _)⟩
      | some y =>
        obtain ⟨c2, w2⟩ := y
        rw [hs2] at ih
        obtain ⟨sv2, h1, h2, h3, h4⟩ := ih
        refine ⟨sv2, ?_, hok.trans h2 (Nat.le_refl _), h3, h4⟩
        rw [he2, h1]
        simp only [Nat.add_assoc]
end

end Main5


/-! ## (F) assembly -/

/-- every `Byte` operand fits a byte -/
def BytesOK (l : List Atom) : Prop := ∀ b, Atom.byte b ∈ l → b < 256

theorem BytesOK.nil : BytesOK [] := by intro b h; cases h

theorem BytesOK.append {x y : List Atom} (hx : BytesOK x) (hy : BytesOK y) : BytesOK (x ++ y) := by
  intro b h
  rcases List.mem_append.1 h with h | h
  · exact hx b h
  · exact hy b h

theorem BytesOK.cons {a : Atom} {l : List Atom} (ha : ∀ b, a = .byte b → b < 256) (hl : BytesOK l) : BytesOK (a :: l) := by
  intro b h
  rcases List.mem_cons.1 h with h | h
  · exact ha b h.symm
  · exact hl b h

theorem BytesOK.flush (pend : Option Nat) : BytesOK (flush pend) := by
  cases pend with
  | none => exact BytesOK.nil
  | some n => exact BytesOK.cons (by intro b h; cases h) BytesOK.nil

theorem BytesOK.rangext (n : Nat) : BytesOK (rangext n) := by
  unfold PatSem.rangext
  split
  · exact BytesOK.cons (by intro b h; cases h) BytesOK.nil
  · exact BytesOK.nil

theorem BytesOK.simple {k : Nat} {it : Item} {a : Atom} {d : Nat} (h : simpleAtom k it = some a) (hwf : wfItem d it = true) :
    ∀ b, a = .byte b → b < 256 := by
  intro b hb
  subst hb
  cases it <;> simp only [simpleAtom, Option.some.injEq, reduceCtorEq] at h
  case byte b0 => cases h; simpa [wfItem] using hwf
  case jump j => cases j <;> simp [Jump.atom] at h
  case readI w =>
    unfold readAtom at h
    split at h <;> cases h
  case readU w =>
    unfold readAtom at h
    split at h <;> cases h

mutual
theorem comp_bytesOK : ∀ (items : List Item) (k d : Nat) (pend : Option Nat), wfItems d items = true →
    BytesOK (comp k pend items)
  | [], k, d, pend, _ => by simp only [comp]; exact BytesOK.flush _
  | .ws s :: r, k, d, pend, h => by rw [comp]; exact comp_bytesOK r k d pend (wf_cons h).2
  | .any :: r, k, d, pend, h => by
    cases pend with
    | none => rw [comp]; exact comp_bytesOK r k d _ (wf_cons h).2
    | some n =>
      rw [comp]
      split
      · exact comp_bytesOK r k d _ (wf_cons h).2
      · exact BytesOK.cons (by intro b hb; cases hb) (comp_bytesOK r k d _ (wf_cons h).2)
  | .skip n :: r, k, d, pend, h => by
    rw [comp]
    split
    · exact comp_bytesOK r k d _ (wf_cons h).2
    · exact ((BytesOK.flush _).append (BytesOK.rangext _)).append (comp_bytesOK r k d _ (wf_cons h).2)
  | .range a b :: r, k, d, pend, h => by
    rw [comp]
    refine BytesOK.append (BytesOK.append ?_ (BytesOK.rangext _))
      (BytesOK.cons (by intro b hb; cases hb) (comp_bytesOK r k d _ (wf_cons h).2))
    split
    · exact BytesOK.flush _
    · exact ((BytesOK.flush _).append (BytesOK.rangext _)).append (BytesOK.cons (by intro b hb; cases hb) BytesOK.nil)
  | .str bs :: r, k, d, pend, h => by
    rw [comp]
    split
    · exact comp_bytesOK r k d _ (wf_cons h).2
    · refine ((BytesOK.flush _).append ?_).append (comp_bytesOK r k d _ (wf_cons h).2)
      intro b hb
      obtain ⟨x, _, hx⟩ := List.mem_map.1 hb
      cases hx
      exact x.toNat_lt
  | .byte b :: r, k, d, pend, h => by
    rw [comp_simple (it := .byte b) rfl]
    exact ((BytesOK.flush _).append (BytesOK.cons (BytesOK.simple (it := .byte b) (k := k) rfl (wf_cons h).1) BytesOK.nil)).append
      (comp_bytesOK r _ d _ (wf_cons h).2)
  | .jump j :: r, k, d, pend, h => by
    rw [comp_simple (it := .jump j) rfl]
    exact ((BytesOK.flush _).append (BytesOK.cons (BytesOK.simple (it := .jump j) (k := k) rfl (wf_cons h).1) BytesOK.nil)).append
      (comp_bytesOK r _ d _ (wf_cons h).2)
  | .save :: r, k, d, pend, h => by
    rw [comp_simple (it := .save) rfl]
    exact ((BytesOK.flush _).append (BytesOK.cons (BytesOK.simple (it := .save) (k := k) rfl (wf_cons h).1) BytesOK.nil)).append
      (comp_bytesOK r _ d _ (wf_cons h).2)
  | .aligned n :: r, k, d, pend, h => by
    rw [comp_simple (it := .aligned n) rfl]
    exact ((BytesOK.flush _).append (BytesOK.cons (BytesOK.simple (it := .aligned n) (k := k) rfl (wf_cons h).1) BytesOK.nil)).append
      (comp_bytesOK r _ d _ (wf_cons h).2)
  | .readI w :: r, k, d, pend, h => by
    rw [comp_simple (it := .readI w) rfl]
    exact ((BytesOK.flush _).append (BytesOK.cons (BytesOK.simple (it := .readI w) (k := k) rfl (wf_cons h).1) BytesOK.nil)).append
      (comp_bytesOK r _ d _ (wf_cons h).2)
  | .readU w :: r, k, d, pend, h => by
    rw [comp_simple (it := .readU w) rfl]
    exact ((BytesOK.flush _).append (BytesOK.cons (BytesOK.simple (it := .readU w) (k := k) rfl (wf_cons h).1) BytesOK.nil)).append
      (comp_bytesOK r _ d _ (wf_cons h).2)
  | .zero :: r, k, d, pend, h => by
    rw [comp_simple (it := .zero) rfl]
    exact ((BytesOK.flush _).append (BytesOK.cons (BytesOK.simple (it := .zero) (k := k) rfl (wf_cons h).1) BytesOK.nil)).append
      (comp_bytesOK r _ d _ (wf_cons h).2)
  | .group j gap body :: r, k, d, pend, h => by
    rw [comp]
    have hb : wfItems (d + 1) body = true := by
      have := (wf_cons h).1
      simp [wfItem] at this; exact this.2
    refine (BytesOK.flush _).append (BytesOK.cons (by intro b hb; cases hb) (BytesOK.cons ?_ ?_))
    · intro b hb; cases j <;> simp [Jump.atom] at hb
    · exact (comp_bytesOK body k (d + 1) none hb).append
        (BytesOK.cons (by intro b hb; cases hb) (comp_bytesOK r _ d _ (wf_cons h).2))
  | .alt bodies :: r, k, d, pend, h => by
    rw [comp]
    have hb : wfAlts d bodies = true := by
      have := (wf_cons h).1
      simp [wfItem] at this; exact this.2
    exact ((BytesOK.flush _).append (compAlts_bytesOK bodies k d hb)).append (comp_bytesOK r _ d _ (wf_cons h).2)
theorem compAlts_bytesOK : ∀ (bodies : List (List Item)) (k d : Nat), wfAlts d bodies = true → BytesOK (compAlts k bodies)
  | [], k, d, _ => by simp only [compAlts]; exact BytesOK.nil
  | [b], k, d, h => by
    simp only [compAlts]
    exact BytesOK.cons (by intro b hb; cases hb) (comp_bytesOK b k d none (by simpa [wfAlts] using h))
  | b :: b' :: bs, k, d, h => by
    have hw : wfItems d b = true ∧ wfAlts d (b' :: bs) = true := by simpa [wfAlts] using h
    rw [compAlts]
    · exact BytesOK.cons (by intro b hb; cases hb) ((comp_bytesOK b k d none hw.1).append
        (BytesOK.cons (by intro b hb; cases hb) (compAlts_bytesOK (b' :: bs) k d hw.2)))
    · intro h; cases h
end

theorem trim_split (l : List Atom) : l = trimEnd l ++ trimmedTail l := by
  unfold trimEnd trimmedTail
  rw [← List.reverse_append, List.takeWhile_append_dropWhile, List.reverse_reverse]

theorem trimmedTail_redundant (l : List Atom) : ∀ a ∈ trimmedTail l, redundant a = true := by
  intro a ha
  unfold trimmedTail at ha
  rw [List.mem_reverse] at ha
  exact List.all_eq_true.1 List.all_takeWhile a ha

theorem inert_of_redundant {a : Atom} (h : redundant a = true) (hm : isMany a = false) : inert a = true := by
  cases a <;> simp_all [redundant, isMany, inert]

/-- in the fragment the trimmed atoms are inert -/
theorem trimmedTail_inert {p : Pat} (h : InFragment p = true) : ∀ a ∈ trimmedTail (compileRaw p), inert a = true := by
  intro a ha
  simp only [InFragment, Bool.and_eq_true, Bool.not_eq_true', List.any_eq_false] at h
  exact inert_of_redundant (trimmedTail_redundant _ a ha) (by simpa using h.2 a ha)

/-- **T2 before trimming**: `Scanner::exec` on the untrimmed code computes the documented semantics -/
theorem run_compileRaw {S : ScanI} (hS : S.WF) (hC : Coherent S) (p : Pat) (hwf : WF p = true)
    (hcl : scopeOK true p = true) (c : Nat) (hc : c < 4294967296) (save0 : Array Nat) :
    ∃ save, run S (compileRaw p) c save0 = .ok ((denote S p c).isSome, save) ∧ save.size = save0.size ∧
      ∀ c' w, denote S p c = some (c', w) → ∀ s v, (s, v) ∈ w → s < save0.size → save[s]? = some v := by
  simp only [WF, Bool.and_eq_true, decide_eq_true_eq] at hwf
  obtain ⟨⟨hwf1, _⟩, _⟩ := hwf
  let U := compileRaw p
  have hU : U = .save 0 :: comp 1 none p := rfl
  have hB : ∀ b, Atom.byte b ∈ U → b < 256 :=
    BytesOK.cons (by intro b hb; cases hb) (comp_bytesOK p 1 0 none hwf1)
  have hA : At U 1 (comp 1 none p) := by
    intro i a ha
    rw [hU, Nat.add_comm, List.getElem?_cons_succ]; exact ha
  have hlen : U.length = 1 + (comp 1 none p).length := by rw [hU]; simp only [List.length_cons]; omega
  have hrun := comp_runs hS hB hC p 1 0 none 0 1 c (saveSet save0 0 c) U.length true hwf1 hcl hA rfl hc
    (fun _ => (IsTerm.end_ hS (Nat.le_refl _)).cast hlen)
  have h0 : execT S U ⟨0, c, save0⟩ 0xff 0 = execT S U ⟨1, c, saveSet save0 0 c⟩ 0xff 0 :=
    execT_step_some hS (st := ⟨0, c, save0⟩) (a := .save 0) (by rw [hU]; rfl) rfl rfl
  have hex : exec S U (fuelFor U) ⟨0, c, save0⟩ 0xff 0 = .ok (execT S U ⟨0, c, save0⟩ 0xff 0) :=
    exec_eq_execT hS (by simp [fuelFor]) (by simp [fuelFor])
  have hrunU : run S U c save0 = .ok ((execT S U ⟨0, c, save0⟩ 0xff 0).1, (execT S U ⟨0, c, save0⟩ 0xff 0).2.save) := by
    simp only [run, hex]
  rw [show run S (compileRaw p) c save0 = run S U c save0 from rfl, hrunU, h0]
  simp only [cur] at hrun
  simp only [denote]
  cases hs : sem S 1 p c with
  | none =>
    rw [hs] at hrun
    obtain ⟨st', he, hok⟩ := hrun
    refine ⟨st'.save, by rw [he]; rfl, ?_, ?_⟩
    · rw [hok.1]; simp [saveSet]
    · intro c' w h; simp at h
  | some x =>
    obtain ⟨c', w⟩ := x
    rw [hs] at hrun
    obtain ⟨sv', he, hok, hw, _⟩ := hrun
    rw [← hlen, IsTerm.end_ hS (Nat.le_refl _) c' sv'] at he
    refine ⟨sv', by rw [he]; rfl, ?_, ?_⟩
    · rw [hok.1]; simp [saveSet]
    · intro c'' w'' h s v hm hsz
      simp only [Option.map_some, Option.some.injEq, Prod.mk.injEq] at h
      obtain ⟨_, rfl⟩ := h
      have hsz' : s < sv'.size := by rw [hok.1]; simpa [saveSet] using hsz
      rcases List.mem_append.1 hm with h1 | h1
      · exact hw s v h1 hsz'
      · simp only [List.mem_singleton, Prod.mk.injEq] at h1
        obtain ⟨rfl, rfl⟩ := h1
        rw [hok.2 0 (by omega)]
        simp only [saveSet]
        simp [hsz]

/-- **T2**: `Scanner::exec` on the reference compiler's output computes the documented semantics, for every
well-formed pattern of the fragment, every image interface that is well behaved (`WF`) and coherent —
hence for both pointer widths and both kinds of views — every cursor and every save array. -/
theorem run_compile {S : ScanI} (hS : S.WF) (hC : Coherent S) (p : Pat) (hwf : WF p = true)
    (hfr : InFragment p = true) (c : Nat) (hc : c < 4294967296) (save0 : Array Nat) :
    ∃ save, run S (compile p) c save0 = .ok ((denote S p c).isSome, save) ∧ save.size = save0.size ∧
      ∀ c' w, denote S p c = some (c', w) → ∀ s v, (s, v) ∈ w → s < save0.size → save[s]? = some v := by
  have hcl : scopeOK true p = true := by
    simp only [InFragment, Bool.and_eq_true] at hfr; exact hfr.1
  have := run_trim hS (compile p) (trimmedTail (compileRaw p)) (trimmedTail_inert hfr) c save0
  rw [show compile p = trimEnd (compileRaw p) from rfl, ← trim_split] at this
  rw [show compile p = trimEnd (compileRaw p) from rfl, this]
  exact run_compileRaw hS hC p hwf hcl c hc save0


/-! ## (G) the image interfaces are coherent -/

/-- the raw buffer interface (`impl Scan for &[u8]`) -/
theorem coherent_ofRaw (f : Pe.Fmt) (b : Bytes) (hb : b.size < 4294967296) : Coherent (ofRaw f b) := by
  intro c off len i hs hi
  simp only [ofRaw] at hs ⊢
  split at hs
  · next hle =>
    simp only [Option.some.injEq, Prod.mk.injEq] at hs
    obtain ⟨rfl, rfl⟩ := hs
    have hw : wadd32 c i = c + i := by unfold wadd32; omega
    rw [hw]
    have : c + i + 1 ≤ b.size := by omega
    simp only [this, if_true, leN]
  · cases hs

open Pelite.Pe in
/-- mapped images (`PeView`): `slice_bytes` and `derva_copy` both index the mapped image by rva -/
theorem coherent_ofView_view (v : Pe.View) (hk : v.kind = .view) (hsz : v.b.size < 4294967296) :
    Coherent (ofView v) := by
  intro c off len i hs hi
  have hb : v.b = v.img.bytes := rfl
  have hsz' : v.img.bytes.size < 4294967296 := hsz
  have hp : ∀ x, alignedTo "slice_section:aligned_to" (v.img.base + x) 1 = .ok true := by
    intro x; simp [alignedTo_eq, Nat.mod_one]; decide
  simp only [ofView, View.slice, hk, sliceSection] at hs ⊢
  by_cases h0 : c = 0
  · simp [h0] at hs
  · simp only [h0, if_false, hp] at hs
    split at hs
    · next r hr =>
      split at hr
      · next hc =>
        simp only [Out.ok.injEq] at hr
        subst hr
        simp only [Option.some.injEq, Prod.mk.injEq] at hs
        obtain ⟨rfl, rfl⟩ := hs
        have hw : wadd32 c i = c + i := by unfold wadd32; omega
        have h1 : ¬ (c + i = 0) := by omega
        have h2 : c + i ≤ v.img.bytes.size ∧ v.img.bytes.size - (c + i) ≥ 1 := by omega
        simp only [hw, h1, if_false, hp, h2, and_self, if_true, leN, hb]
      · cases hr
    · cases hs

/-- no rva lies in the virtual extent of two sections -/
def SecsDisjoint (secs : List Pe.Sec) : Prop :=
  ∀ s ∈ secs, ∀ t ∈ secs, ∀ x, s.containsRva x = true → t.containsRva x = true → s = t

open Pelite.Pe in
theorem firstV_unique {secs : List Sec} {s : Sec} {x : Nat} (hd : SecsDisjoint secs) (hm : s ∈ secs)
    (hc : s.containsRva x = true) : firstV secs x = some s := by
  cases hf : firstV secs x with
  | none =>
    unfold firstV at hf
    have := List.find?_eq_none.1 hf s hm
    simp [hc] at this
  | some t =>
    obtain ⟨ht1, ht2⟩ := firstV_some hf
    rw [hd t ht1 s hm x ht2 hc]

open Pelite.Pe in
/-- file images (`PeFile`) whose sections do not overlap: both `slice_bytes` and `derva_copy` resolve
the rva through the one section that contains it -/
theorem coherent_ofView_file (v : Pe.View) (hk : v.kind = .file) (hd : SecsDisjoint v.secs) : Coherent (ofView v) := by
  intro c off len i hs hi
  have hin : ∀ s ∈ v.secs, s.InRange := sections_in_range v.b
  simp only [ofView, View.slice, hk] at hs ⊢
  split at hs
  · next r hr =>
    simp only [Option.some.injEq, Prod.mk.injEq] at hs
    obtain ⟨rfl, rfl⟩ := hs
    obtain ⟨h0, _, _, o, l, hrf, _, rfl⟩ := (sliceFile_ok_iff_range _ _ _ _ _ _).1 hr
    rw [rangeFile_eq] at hrf
    cases hf : firstV v.secs c with
    | none => simp [hf] at hrf
    | some s =>
      simp only [hf] at hrf
      obtain ⟨hsm, hsc⟩ := firstV_some hf
      have hsr := hin s hsm
      obtain ⟨q1, q2, q3, _, rfl, rfl⟩ := (rangeOne_ok_iff hsr _ _ _ _ _).1 hrf
      obtain ⟨n1, n2, n3⟩ := containsRva_nowrap hsr hsc
      simp only at hi
      have hw : wadd32 c i = c + i := by unfold wadd32; omega
      have hsc' : s.containsRva (c + i) = true := by
        rw [containsRva_iff]
        have : wadd32 s.va (max s.vs s.rs) = s.va + max s.vs s.rs := by unfold wadd32; omega
        rw [this]; omega
      have hf' := firstV_unique hd hsm hsc'
      have hr1 : rangeOne v.img.bytes.size s (c + i) 1 = .ok (s.prd + (c - s.va) + i, s.rs - (c + i - s.va)) := by
        rw [rangeOne_ok_iff hsr]
        refine ⟨q1, q2, by omega, by omega, by omega, rfl⟩
      have hsl : sliceFile v.img v.secs (c + i) 1 1 = .ok ⟨s.prd + (c - s.va) + i, s.rs - (c + i - s.va), 1⟩ := by
        rw [sliceFile_ok_iff_range]
        refine ⟨by omega, by decide, Nat.mod_one _, _, _, ?_, Nat.mod_one _, rfl⟩
        rw [rangeFile_eq, hf']
        exact hr1
      rw [hw, hsl]
      simp only [leN]
  · cases hs



open Pelite.Pe in
/-- the decidable check of `Spec/PatternSem.lean` implies disjointness -/
theorem secsDisjoint_of_check : ∀ (secs : List Sec), secsDisjointB secs = true → SecsDisjoint secs
  | [], _ => by intro s hs; cases hs
  | s :: r, h => by
    simp only [secsDisjointB, Bool.and_eq_true, decide_eq_true_eq, List.all_eq_true, Bool.or_eq_true] at h
    obtain ⟨⟨hnw, hall⟩, hr⟩ := h
    have ih := secsDisjoint_of_check r hr
    have hnwr : ∀ t ∈ r, t.va + max t.vs t.rs < 4294967296 := by
      clear ih hall
      induction r with
      | nil => intro t ht; cases ht
      | cons u r ihr =>
        simp only [secsDisjointB, Bool.and_eq_true, decide_eq_true_eq] at hr
        intro t ht
        rcases List.mem_cons.1 ht with rfl | ht
        · exact hr.1.1
        · exact ihr hr.2 t ht
    have hcross : ∀ t ∈ r, ∀ x, s.containsRva x = true → t.containsRva x = true → False := by
      intro t ht x h1 h2
      have h3 := hall t ht
      have h4 := hnwr t ht
      simp only [Sec.containsRva, Bool.and_eq_true, decide_eq_true_eq] at h1 h2
      rw [Nat.mod_eq_of_lt hnw] at h1
      rw [Nat.mod_eq_of_lt h4] at h2
      omega
    intro a ha b hb x hax hbx
    rcases List.mem_cons.1 ha with ha1 | ha1
    · rcases List.mem_cons.1 hb with hb1 | hb1
      · rw [ha1, hb1]
      · rw [ha1] at hax; exact (hcross b hb1 x hax hbx).elim
    · rcases List.mem_cons.1 hb with hb1 | hb1
      · rw [hb1] at hbx; exact (hcross a ha1 x hbx hax).elim
      · exact ih a ha1 b hb1 x hax hbx

/-! ## (H) `save_len` of the compiled pattern covers every slot of the pattern -/

theorem slotOf_readAtom (sg : Bool) (w k : Nat) : slotOf (readAtom sg w k) = some k := by
  unfold readAtom; split <;> rfl

mutual
/-- every slot number the syntax assigns inside a sequence is the operand of one of its atoms -/
theorem covered_items : ∀ (items : List Item) (k : Nat) (pend : Option Nat) (s : Nat), k ≤ s → s < slotsItems k items →
    ∃ a ∈ comp k pend items, slotOf a = some s
  | [], k, pend, s, h1, h2 => by simp only [slotsItems] at h2; omega
  | .ws x :: r, k, pend, s, h1, h2 => by
    rw [comp]; exact covered_items r k pend s h1 (by simpa [slotsItems, slotsItem] using h2)
  | .any :: r, k, pend, s, h1, h2 => by
    have h2' : s < slotsItems k r := by simpa [slotsItems, slotsItem] using h2
    cases pend with
    | none => rw [comp]; exact covered_items r k _ s h1 h2'
    | some n =>
      rw [comp]
      split
      · exact covered_items r k _ s h1 h2'
      · obtain ⟨a, ha, hs⟩ := covered_items r k (some 1) s h1 h2'
        exact ⟨a, List.mem_cons_of_mem _ ha, hs⟩
  | .skip n :: r, k, pend, s, h1, h2 => by
    have h2' : s < slotsItems k r := by simpa [slotsItems, slotsItem] using h2
    rw [comp]
    split
    · exact covered_items r k _ s h1 h2'
    · obtain ⟨a, ha, hs⟩ := covered_items r k (some (n % 256)) s h1 h2'
      exact ⟨a, List.mem_append_right _ ha, hs⟩
  | .range x y :: r, k, pend, s, h1, h2 => by
    have h2' : s < slotsItems k r := by simpa [slotsItems, slotsItem] using h2
    rw [comp]
    obtain ⟨a, ha, hs⟩ := covered_items r k none s h1 h2'
    exact ⟨a, List.mem_append_right _ (List.mem_cons_of_mem _ ha), hs⟩
  | .str bs :: r, k, pend, s, h1, h2 => by
    have h2' : s < slotsItems k r := by simpa [slotsItems, slotsItem] using h2
    rw [comp]
    split
    · exact covered_items r k _ s h1 h2'
    · obtain ⟨a, ha, hs⟩ := covered_items r k none s h1 h2'
      exact ⟨a, List.mem_append_right _ ha, hs⟩
  | .byte b :: r, k, pend, s, h1, h2 => by
    have h2' : s < slotsItems k r := by simpa [slotsItems, slotsItem] using h2
    rw [comp]
    obtain ⟨a, ha, hs⟩ := covered_items r k none s h1 h2'
    exact ⟨a, List.mem_append_right _ (List.mem_cons_of_mem _ ha), hs⟩
  | .jump j :: r, k, pend, s, h1, h2 => by
    have h2' : s < slotsItems k r := by simpa [slotsItems, slotsItem] using h2
    rw [comp]
    obtain ⟨a, ha, hs⟩ := covered_items r k none s h1 h2'
    exact ⟨a, List.mem_append_right _ (List.mem_cons_of_mem _ ha), hs⟩
  | .aligned n :: r, k, pend, s, h1, h2 => by
    have h2' : s < slotsItems k r := by simpa [slotsItems, slotsItem] using h2
    rw [comp]
    obtain ⟨a, ha, hs⟩ := covered_items r k none s h1 h2'
    exact ⟨a, List.mem_append_right _ (List.mem_cons_of_mem _ ha), hs⟩
  | .save :: r, k, pend, s, h1, h2 => by
    have h2' : s < slotsItems (k + 1) r := by simpa [slotsItems, slotsItem] using h2
    rw [comp]
    by_cases hs : s = k
    · exact ⟨.save k, List.mem_append_right _ (List.mem_cons_self ..), by rw [hs]; rfl⟩
    · obtain ⟨a, ha, hsl⟩ := covered_items r (k + 1) none s (by omega) h2'
      exact ⟨a, List.mem_append_right _ (List.mem_cons_of_mem _ ha), hsl⟩
  | .zero :: r, k, pend, s, h1, h2 => by
    have h2' : s < slotsItems (k + 1) r := by simpa [slotsItems, slotsItem] using h2
    rw [comp]
    by_cases hs : s = k
    · exact ⟨.zero k, List.mem_append_right _ (List.mem_cons_self ..), by rw [hs]; rfl⟩
    · obtain ⟨a, ha, hsl⟩ := covered_items r (k + 1) none s (by omega) h2'
      exact ⟨a, List.mem_append_right _ (List.mem_cons_of_mem _ ha), hsl⟩
  | .readI w :: r, k, pend, s, h1, h2 => by
    have h2' : s < slotsItems (k + 1) r := by simpa [slotsItems, slotsItem] using h2
    rw [comp]
    by_cases hs : s = k
    · exact ⟨readAtom true w k, List.mem_append_right _ (List.mem_cons_self ..), by rw [hs]; exact slotOf_readAtom _ _ _⟩
    · obtain ⟨a, ha, hsl⟩ := covered_items r (k + 1) none s (by omega) h2'
      exact ⟨a, List.mem_append_right _ (List.mem_cons_of_mem _ ha), hsl⟩
  | .readU w :: r, k, pend, s, h1, h2 => by
    have h2' : s < slotsItems (k + 1) r := by simpa [slotsItems, slotsItem] using h2
    rw [comp]
    by_cases hs : s = k
    · exact ⟨readAtom false w k, List.mem_append_right _ (List.mem_cons_self ..), by rw [hs]; exact slotOf_readAtom _ _ _⟩
    · obtain ⟨a, ha, hsl⟩ := covered_items r (k + 1) none s (by omega) h2'
      exact ⟨a, List.mem_append_right _ (List.mem_cons_of_mem _ ha), hsl⟩
  | .group j gap body :: r, k, pend, s, h1, h2 => by
    have h2' : s < slotsItems (slotsItems k body) r := by simpa [slotsItems, slotsItem] using h2
    rw [comp]
    by_cases hs : s < slotsItems k body
    · obtain ⟨a, ha, hsl⟩ := covered_items body k none s h1 hs
      exact ⟨a, List.mem_append_right _ (List.mem_cons_of_mem _ (List.mem_cons_of_mem _ (List.mem_append_left _ ha))), hsl⟩
    · obtain ⟨a, ha, hsl⟩ := covered_items r (slotsItems k body) none s (by omega) h2'
      exact ⟨a, List.mem_append_right _ (List.mem_cons_of_mem _ (List.mem_cons_of_mem _
        (List.mem_append_right _ (List.mem_cons_of_mem _ ha)))), hsl⟩
  | .alt bodies :: r, k, pend, s, h1, h2 => by
    have h2' : s < slotsItems (slotsAlts k bodies) r := by simpa [slotsItems, slotsItem] using h2
    rw [comp]
    by_cases hs : s < slotsAlts k bodies
    · obtain ⟨a, ha, hsl⟩ := covered_alts bodies k s h1 hs
      exact ⟨a, List.mem_append_left _ (List.mem_append_right _ ha), hsl⟩
    · obtain ⟨a, ha, hsl⟩ := covered_items r (slotsAlts k bodies) none s (by omega) h2'
      exact ⟨a, List.mem_append_right _ ha, hsl⟩
theorem covered_alts : ∀ (bodies : List (List Item)) (k s : Nat), k ≤ s → s < slotsAlts k bodies →
    ∃ a ∈ compAlts k bodies, slotOf a = some s
  | [], k, s, h1, h2 => by simp only [slotsAlts] at h2; omega
  | [b], k, s, h1, h2 => by
    have h2' : s < slotsItems k b := by
      simp only [slotsAlts] at h2
      have := slotsItems_le k b
      omega
    obtain ⟨a, ha, hs⟩ := covered_items b k none s h1 h2'
    exact ⟨a, by simp only [compAlts]; exact List.mem_cons_of_mem _ ha, hs⟩
  | b :: b' :: bs, k, s, h1, h2 => by
    rw [compAlts]
    · by_cases hs : s < slotsItems k b
      · obtain ⟨a, ha, hsl⟩ := covered_items b k none s h1 hs
        exact ⟨a, List.mem_cons_of_mem _ (List.mem_append_left _ ha), hsl⟩
      · have h2' : s < slotsAlts k (b' :: bs) := by
          rw [slotsAlts] at h2
          omega
        obtain ⟨a, ha, hsl⟩ := covered_alts (b' :: bs) k s h1 h2'
        exact ⟨a, List.mem_cons_of_mem _ (List.mem_append_right _ (List.mem_cons_of_mem _ ha)), hsl⟩
    · intro h; cases h
end

/-- an atom with a slot operand survives trimming -/
theorem mem_compile_of_slot {p : Pat} {a : Atom} {s : Nat} (ha : a ∈ compileRaw p) (hs : slotOf a = some s) :
    a ∈ compile p := by
  rw [trim_split (compileRaw p)] at ha
  rcases List.mem_append.1 ha with h | h
  · exact h
  · have := trimmedTail_redundant _ a h
    cases a <;> simp_all [redundant, slotOf]

/-- **the advertised save length covers the whole range of slots the syntax assigns** -/
theorem saveLen_compile_ge (p : Pat) : slotsItems 1 p ≤ saveLen (compile p) := by
  have h1 := slotsItems_le 1 p
  by_cases h : slotsItems 1 p = 1
  · rw [h]
    have : Atom.save 0 ∈ compile p := mem_compile_of_slot (s := 0) (List.mem_cons_self ..) rfl
    exact saveLen_covers this (k := 0) rfl
  · obtain ⟨a, ha, hs⟩ := covered_items p 1 none (slotsItems 1 p - 1) (by omega) (by omega)
    have := saveLen_covers (mem_compile_of_slot (p := p) (List.mem_cons_of_mem _ ha) hs) hs
    omega

end Pelite.PatSem
