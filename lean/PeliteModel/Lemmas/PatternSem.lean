import PeliteModel.Spec.PatternSem
import PeliteModel.Lemmas.Exec
/-!
Lemmas for C11 (semantic half): the interpreter model `Exec.exec` run on the reference compiler's
output computes the documented semantics `PatSem.sem`.

Contents: (A) fuel-free view of `exec` (`execT`) with one unfolding equation per atom;
(B) trimming redundant trailing atoms does not change the answer; (C) facts about `sem`;
(D) the `memchr` peek shortcut of `exec_many`; (E) compiler correctness per frame; (F) assembly.
-/
namespace Pelite.PatSem
open Pelite.Pattern Pelite.Exec

/-! ## (A) `exec` without fuel -/

theorem manyLoop_mono {mem : Bytes} {ex ex' : St → Out (Bool × St)} {cursor pc off : Nat} {peek : Option Nat}
    (hex : ∀ s r, ex s = .ok r → ex' s = .ok r) :
    ∀ (k i : Nat) (st : St) (r : Bool × St), manyLoop mem ex cursor pc off peek k i st = .ok r →
      manyLoop mem ex' cursor pc off peek k i st = .ok r := by
  intro k
  induction k with
  | zero => intro i st r h; simpa [manyLoop] using h
  | succ k ih =>
    intro i st r h
    simp only [manyLoop] at h ⊢
    split
    · next hp =>
      simp only [hp, if_true] at h
      cases hx : ex { st with cursor := wadd32 cursor i, pc := pc } with
      | ok v =>
        obtain ⟨b, st'⟩ := v
        rw [hex _ _ hx]
        rw [hx] at h
        cases b
        · exact ih _ _ _ h
        · exact h
      | err e => rw [hx] at h; cases h
      | panic s => rw [hx] at h; cases h
      | ub s => rw [hx] at h; cases h
      | diverge => rw [hx] at h; cases h
    · next hp =>
      simp only [hp] at h
      exact ih _ _ _ h

theorem exec_mono (S : ScanI) (pat : List Atom) :
    ∀ fuel st m e r, exec S pat fuel st m e = .ok r → exec S pat (fuel + 1) st m e = .ok r := by
  intro fuel
  induction fuel with
  | zero => intro st m e r h; cases h
  | succ fuel ih =>
    intro st m e r h
    cases hp : pat[st.pc]? with
    | none => rw [exec_none hp] at h ⊢; exact h
    | some a =>
      cases a with
      | push skip =>
        rw [exec_push hp] at h ⊢
        cases hx : exec S pat fuel { st with pc := st.pc + 1 } 0xff 0 with
        | ok v =>
          obtain ⟨b, st'⟩ := v
          rw [hx] at h
          rw [ih _ _ _ _ hx]
          cases b
          · exact h
          · exact ih _ _ _ _ h
        | err x => rw [hx] at h; cases h
        | panic x => rw [hx] at h; cases h
        | ub x => rw [hx] at h; cases h
        | diverge => rw [hx] at h; cases h
      | pop => rw [exec_pop hp] at h ⊢; exact h
      | many limit =>
        rw [exec_many hp] at h ⊢
        cases hs : S.slice st.cursor with
        | none =>
          have hs' : S.slice ({ st with pc := st.pc + 1 } : St).cursor = none := hs
          rw [execMany_none hs'] at h ⊢; exact h
        | some ol =>
          obtain ⟨off, len⟩ := ol
          have hs' : S.slice ({ st with pc := st.pc + 1 } : St).cursor = some (off, len) := hs
          by_cases hle : ({ st with pc := st.pc + 1 } : St).pc ≤ pat.length
          · rw [execMany_some hs' hle] at h ⊢
            exact manyLoop_mono (fun s r hr => ih s _ _ r hr) _ _ _ _ h
          · simp [execMany, hs, hle] at h
      | case next =>
        rw [exec_case hp] at h ⊢
        cases hx : exec S pat fuel { st with pc := st.pc + 1 } 0xff 0 with
        | ok v =>
          obtain ⟨b, st'⟩ := v
          rw [hx] at h
          rw [ih _ _ _ _ hx]
          cases b
          · exact ih _ _ _ _ h
          · exact ih _ _ _ _ h
        | err x => rw [hx] at h; cases h
        | panic x => rw [hx] at h; cases h
        | ub x => rw [hx] at h; cases h
        | diverge => rw [hx] at h; cases h
      | brk next => rw [exec_brk hp] at h ⊢; exact h
      | _ =>
        rw [exec_simple hp rfl] at h ⊢
        cases hs : step S _ { st with pc := st.pc + 1 } m e with
        | ok v =>
          rw [hs] at h
          cases v with
          | none => exact h
          | some t => obtain ⟨st', m', e'⟩ := t; exact ih _ _ _ _ h
        | err x => rw [hs] at h; cases h
        | panic x => rw [hs] at h; cases h
        | ub x => rw [hs] at h; cases h
        | diverge => rw [hs] at h; cases h

theorem exec_mono_le (S : ScanI) (pat : List Atom) {fuel fuel' : Nat} (hle : fuel ≤ fuel') {st m e r}
    (h : exec S pat fuel st m e = .ok r) : exec S pat fuel' st m e = .ok r := by
  induction hle with
  | refl => exact h
  | step _ ih => exact exec_mono S pat _ _ _ _ _ ih


/-- the result of `exec` run with sufficient fuel (`Exec.exec_total`: `pat.length + 1` always suffices) -/
def execT (S : ScanI) (pat : List Atom) (st : St) (m e : Nat) : Bool × St :=
  match exec S pat (pat.length + 1) st m e with
  | .ok r => r
  | _ => (false, st)

theorem exec_eq_execT {S : ScanI} (hS : S.WF) {pat : List Atom} {fuel : Nat} {st : St} {m e : Nat}
    (hf : pat.length + 1 ≤ fuel + st.pc) (h1 : 1 ≤ fuel) :
    exec S pat fuel st m e = .ok (execT S pat st m e) := by
  obtain ⟨r, hr⟩ := exec_total hS pat fuel st m e hf h1
  obtain ⟨r', hr'⟩ := exec_total hS pat (pat.length + 1) st m e (by omega) (by omega)
  have h1 := exec_mono_le S pat (Nat.le_max_left fuel (pat.length + 1)) hr
  have h2 := exec_mono_le S pat (Nat.le_max_right fuel (pat.length + 1)) hr'
  rw [h1] at h2
  cases h2
  simp only [execT, hr', hr]

theorem execT_pc_le {S : ScanI} (hS : S.WF) {pat : List Atom} {st : St} {m e : Nat} :
    st.pc ≤ (execT S pat st m e).2.pc :=
  exec_pc_mono S pat _ _ _ _ _ _ (exec_eq_execT hS (fuel := pat.length + 1) (by omega) (by omega))

theorem execT_none {S : ScanI} (hS : S.WF) {pat : List Atom} {st : St} {m e : Nat}
    (hp : pat[st.pc]? = none) : execT S pat st m e = (true, st) := by
  have h := exec_eq_execT hS (pat := pat) (fuel := pat.length + 1) (st := st) (m := m) (e := e) (by omega) (by omega)
  rw [exec_none hp] at h
  exact (Out.ok.inj h).symm

theorem pc_lt_of_some {pat : List Atom} {pc : Nat} {a : Atom} (hp : pat[pc]? = some a) : pc < pat.length :=
  (List.getElem?_eq_some_iff.1 hp).1

theorem execT_pop {S : ScanI} (hS : S.WF) {pat : List Atom} {st : St} {m e : Nat}
    (hp : pat[st.pc]? = some .pop) : execT S pat st m e = (true, { st with pc := st.pc + 1 }) := by
  have h := exec_eq_execT hS (pat := pat) (fuel := pat.length + 1) (st := st) (m := m) (e := e) (by omega) (by omega)
  rw [exec_pop hp] at h
  exact (Out.ok.inj h).symm

theorem execT_brk {S : ScanI} (hS : S.WF) {pat : List Atom} {st : St} {m e next : Nat}
    (hp : pat[st.pc]? = some (.brk next)) : execT S pat st m e = (true, { st with pc := st.pc + 1 + next }) := by
  have h := exec_eq_execT hS (pat := pat) (fuel := pat.length + 1) (st := st) (m := m) (e := e) (by omega) (by omega)
  rw [exec_brk hp] at h
  exact (Out.ok.inj h).symm

theorem execT_push {S : ScanI} (hS : S.WF) {pat : List Atom} {st : St} {m e skip : Nat}
    (hp : pat[st.pc]? = some (.push skip)) :
    execT S pat st m e =
      match execT S pat { st with pc := st.pc + 1 } 0xff 0 with
      | (true, st') => execT S pat { st' with cursor := wadd32 st.cursor (skipAmt S e skip) } 0xff 0
      | o => o := by
  have hlt := pc_lt_of_some hp
  have h := exec_eq_execT hS (pat := pat) (fuel := pat.length + 1) (st := st) (m := m) (e := e) (by omega) (by omega)
  rw [exec_push hp] at h
  have h1 := exec_eq_execT hS (pat := pat) (fuel := pat.length) (st := { st with pc := st.pc + 1 }) (m := 0xff) (e := 0)
    (by simp only; omega) (by omega)
  rw [h1] at h
  have hpc := execT_pc_le hS (pat := pat) (st := { st with pc := st.pc + 1 }) (m := 0xff) (e := 0)
  generalize execT S pat { st with pc := st.pc + 1 } 0xff 0 = r at h hpc ⊢
  obtain ⟨b, st'⟩ := r
  cases b
  · exact (Out.ok.inj h).symm
  · simp only at h hpc ⊢
    rw [exec_eq_execT hS (by simp only; omega) (by omega)] at h
    exact (Out.ok.inj h).symm

theorem execT_case {S : ScanI} (hS : S.WF) {pat : List Atom} {st : St} {m e next : Nat}
    (hp : pat[st.pc]? = some (.case next)) :
    execT S pat st m e =
      match execT S pat { st with pc := st.pc + 1 } 0xff 0 with
      | (true, st') => execT S pat st' m e
      | (false, st') => execT S pat { st' with pc := st.pc + 1 + next, cursor := st.cursor } m e := by
  have hlt := pc_lt_of_some hp
  have h := exec_eq_execT hS (pat := pat) (fuel := pat.length + 1) (st := st) (m := m) (e := e) (by omega) (by omega)
  rw [exec_case hp] at h
  have h1 := exec_eq_execT hS (pat := pat) (fuel := pat.length) (st := { st with pc := st.pc + 1 }) (m := 0xff) (e := 0)
    (by simp only; omega) (by omega)
  rw [h1] at h
  have hpc := execT_pc_le hS (pat := pat) (st := { st with pc := st.pc + 1 }) (m := 0xff) (e := 0)
  generalize execT S pat { st with pc := st.pc + 1 } 0xff 0 = r at h hpc ⊢
  obtain ⟨b, st'⟩ := r
  cases b
  · simp only at h hpc ⊢
    rw [exec_eq_execT hS (by simp only; omega) (by omega)] at h
    exact (Out.ok.inj h).symm
  · simp only at h hpc ⊢
    rw [exec_eq_execT hS (by omega) (by omega)] at h
    exact (Out.ok.inj h).symm

theorem execT_step_none {S : ScanI} (hS : S.WF) {pat : List Atom} {st : St} {m e : Nat} {a : Atom}
    (hp : pat[st.pc]? = some a) (ha : isCtl a = false)
    (hs : step S a { st with pc := st.pc + 1 } m e = .ok none) :
    execT S pat st m e = (false, { st with pc := st.pc + 1 }) := by
  have h := exec_eq_execT hS (pat := pat) (fuel := pat.length + 1) (st := st) (m := m) (e := e) (by omega) (by omega)
  rw [exec_simple hp ha, hs] at h
  exact (Out.ok.inj h).symm

theorem execT_step_some {S : ScanI} (hS : S.WF) {pat : List Atom} {st : St} {m e : Nat} {a : Atom}
    {st' : St} {m' e' : Nat}
    (hp : pat[st.pc]? = some a) (ha : isCtl a = false)
    (hs : step S a { st with pc := st.pc + 1 } m e = .ok (some (st', m', e'))) :
    execT S pat st m e = execT S pat st' m' e' := by
  have hlt := pc_lt_of_some hp
  have h := exec_eq_execT hS (pat := pat) (fuel := pat.length + 1) (st := st) (m := m) (e := e) (by omega) (by omega)
  rw [exec_simple hp ha, hs] at h
  have := step_pc hs
  simp only at this h
  rw [exec_eq_execT hS (by omega) (by omega)] at h
  exact (Out.ok.inj h).symm

/-- `exec_many`'s loop over a total `ex` -/
def manyT (mem : Bytes) (f : St → Bool × St) (cursor pc off : Nat) (peek : Option Nat) :
    Nat → Nat → St → Bool × St
  | 0, _, st => (false, st)
  | k+1, i, st =>
    if peekOk peek (byteAt mem (off + i)) then
      match f { st with cursor := wadd32 cursor i, pc := pc } with
      | (true, st') => (true, st')
      | (false, st') => manyT mem f cursor pc off peek k (i + 1) st'
    else manyT mem f cursor pc off peek k (i + 1) st

theorem manyLoop_eq_manyT {mem : Bytes} {ex : St → Out (Bool × St)} {f : St → Bool × St} {cursor pc off : Nat}
    {peek : Option Nat} (hex : ∀ s, s.pc = pc → ex s = .ok (f s)) :
    ∀ k i st, manyLoop mem ex cursor pc off peek k i st = .ok (manyT mem f cursor pc off peek k i st) := by
  intro k
  induction k with
  | zero => intro i st; rfl
  | succ k ih =>
    intro i st
    simp only [manyLoop, manyT]
    split
    · rw [hex _ rfl]
      generalize f { st with cursor := wadd32 cursor i, pc := pc } = r
      obtain ⟨b, st'⟩ := r
      cases b
      · exact ih _ _
      · rfl
    · exact ih _ _

theorem execT_many {S : ScanI} (hS : S.WF) {pat : List Atom} {st : St} {m e limit : Nat}
    (hp : pat[st.pc]? = some (.many limit)) :
    execT S pat st m e =
      match S.slice st.cursor with
      | none => (false, { st with pc := st.pc + 1 })
      | some (off, len) =>
        manyT S.mem (fun s => execT S pat s 0xff 0) st.cursor (st.pc + 1) off (peekByte (pat.drop (st.pc + 1)))
          (if e + limit = 0 then len else min (e + limit) len) 0 { st with pc := st.pc + 1 } := by
  have hlt := pc_lt_of_some hp
  have h := exec_eq_execT hS (pat := pat) (fuel := pat.length + 1) (st := st) (m := m) (e := e) (by omega) (by omega)
  rw [exec_many hp] at h
  cases hs : S.slice st.cursor with
  | none =>
    have hs' : S.slice ({ st with pc := st.pc + 1 } : St).cursor = none := hs
    rw [execMany_none hs'] at h
    exact (Out.ok.inj h).symm
  | some ol =>
    obtain ⟨off, len⟩ := ol
    have hs' : S.slice ({ st with pc := st.pc + 1 } : St).cursor = some (off, len) := hs
    rw [execMany_some hs' (by simp only; omega)] at h
    rw [manyLoop_eq_manyT (f := fun s => execT S pat s 0xff 0)] at h
    · exact (Out.ok.inj h).symm
    · intro s hs
      simp only at hs
      exact exec_eq_execT hS (by omega) (by omega)

end Pelite.PatSem
