import PeliteModel.Spec.PatternSemDoc
import PeliteModel.Lemmas.PatternSemImpl
/-!
Lemmas for `Thm/C11Doc.lean`: the documented-upper-bound semantics `semD` / `denoteDoc`
(`Spec/PatternSemDoc.lean`) is the implemented one (`semI` / `denoteImpl`) of the tree with every `[a-b]`
rewritten to `[a-(b+1)]` (`bumpRanges`).
-/
namespace Pelite.PatSem
open Pelite.Pattern Pelite.Exec

/-! ## unfolding equations -/

theorem semD_plain (S : ScanI) (k : Nat) {it : Item} (r : List Item) (c : Nat) (κ : Kont) (h : plain it = true) :
    semD S k (it :: r) c κ =
      match semItem S k it c with
      | none => none
      | some (c1, w1) => addCaps w1 (semD S (slotsItem k it) r c1 κ) := by
  exact semD.eq_5 S k c κ it r (by intro a b hab; subst hab; simp [plain] at h)
    (by intro j gap body hab; subst hab; simp [plain] at h) (by intro bodies hab; subst hab; simp [plain] at h)

theorem semAltsD_cons2 (S : ScanI) (k : Nat) (b b' : List Item) (bs : List (List Item)) (c : Nat) (κ : Kont) :
    semAltsD S k (b :: b' :: bs) c κ =
      match semD S k b c Kont.done with
      | some (c1, w1) => addCaps w1 (κ c1)
      | none => semAltsD S k (b' :: bs) c κ := by
  exact semAltsD.eq_3 S k c κ b (b' :: bs) (by intro h; cases h)

theorem bumpRanges_plain {it : Item} (r : List Item) (h : plain it = true) :
    bumpRanges (it :: r) = it :: bumpRanges r := by
  exact bumpRanges.eq_5 it r (by intro a b hab; subst hab; simp [plain] at h)
    (by intro j gap body hab; subst hab; simp [plain] at h) (by intro bodies hab; subst hab; simp [plain] at h)

theorem hasRange_plain {it : Item} (r : List Item) (h : plain it = true) :
    hasRange (it :: r) = hasRange r := by
  exact hasRange.eq_5 it r (by intro a b hab; subst hab; simp [plain] at h)
    (by intro j gap body hab; subst hab; simp [plain] at h) (by intro bodies hab; subst hab; simp [plain] at h)

/-! ## `bumpRanges` keeps the slot numbering and commutes with `dropTrailing` -/

theorem slots_bump_both :
    (∀ (items : List Item) (k : Nat), slotsItems k (bumpRanges items) = slotsItems k items) ∧
    (∀ (bodies : List (List Item)) (k : Nat), slotsAlts k (bumpAlts bodies) = slotsAlts k bodies) := by
  have key : ∀ items : List Item, ∀ k : Nat, slotsItems k (bumpRanges items) = slotsItems k items := by
    apply seqInd (P := fun items => ∀ k : Nat, slotsItems k (bumpRanges items) = slotsItems k items)
      (Q := fun bodies => ∀ k : Nat, slotsAlts k (bumpAlts bodies) = slotsAlts k bodies)
    · intro k; rw [bumpRanges]
    · intro it r h ih k; rw [bumpRanges_plain _ h]; simp only [slotsItems]; exact ih _
    · intro a b r ih k; rw [bumpRanges]; simp only [slotsItems, slotsItem]; exact ih _
    · intro j gap body r ihb ih k; rw [bumpRanges]; simp only [slotsItems, slotsItem]; rw [ihb, ih]
    · intro bodies r ihb ih k; rw [bumpRanges]; simp only [slotsItems, slotsItem]; rw [ihb, ih]
    · intro k; rw [bumpAlts]
    · intro b bs hb hbs k; rw [bumpAlts, slotsAlts, slotsAlts, hb, hbs]
  refine ⟨key, ?_⟩
  intro bodies
  induction bodies with
  | nil => intro k; rw [bumpAlts]
  | cons b bs ih => intro k; rw [bumpAlts, slotsAlts, slotsAlts, key, ih]

theorem slots_bump (items : List Item) (k : Nat) : slotsItems k (bumpRanges items) = slotsItems k items :=
  slots_bump_both.1 items k

theorem slots_bumpAlts (bodies : List (List Item)) (k : Nat) : slotsAlts k (bumpAlts bodies) = slotsAlts k bodies :=
  slots_bump_both.2 bodies k

theorem trailingItem_all_bump : ∀ r : List Item, (bumpRanges r).all trailingItem = r.all trailingItem
  | [] => by rw [bumpRanges]
  | .range a b :: r => by rw [bumpRanges]; simp [trailingItem, trailingItem_all_bump r]
  | .group j gap body :: r => by rw [bumpRanges]; simp [trailingItem]
  | .alt bodies :: r => by rw [bumpRanges]; simp [trailingItem]
  | .ws s :: r => by rw [bumpRanges_plain _ rfl]; simp [trailingItem, trailingItem_all_bump r]
  | .byte b :: r => by rw [bumpRanges_plain _ rfl]; simp [trailingItem]
  | .str bs :: r => by rw [bumpRanges_plain _ rfl]; simp [trailingItem, trailingItem_all_bump r]
  | .any :: r => by rw [bumpRanges_plain _ rfl]; simp [trailingItem, trailingItem_all_bump r]
  | .skip n :: r => by rw [bumpRanges_plain _ rfl]; simp [trailingItem, trailingItem_all_bump r]
  | .jump j :: r => by rw [bumpRanges_plain _ rfl]; simp [trailingItem]
  | .save :: r => by rw [bumpRanges_plain _ rfl]; simp [trailingItem]
  | .aligned n :: r => by rw [bumpRanges_plain _ rfl]; simp [trailingItem]
  | .readI w :: r => by rw [bumpRanges_plain _ rfl]; simp [trailingItem]
  | .readU w :: r => by rw [bumpRanges_plain _ rfl]; simp [trailingItem]
  | .zero :: r => by rw [bumpRanges_plain _ rfl]; simp [trailingItem]

theorem bumpAlts_cons2 (b b' : List Item) (bs : List (List Item)) :
    bumpAlts (b :: b' :: bs) = bumpRanges b :: bumpAlts (b' :: bs) := by rw [bumpAlts]

theorem bumpAlts_ne_nil (b' : List Item) (bs : List (List Item)) : bumpAlts (b' :: bs) = [] → False := by
  rw [bumpAlts]; intro h; cases h

theorem dropTrailingAlts_consD (e : Bool) (b : List Item) (ys : List (List Item)) (h : ys = [] → False) :
    dropTrailingAlts e (b :: ys) = dropTrailing false b :: dropTrailingAlts e ys :=
  dropTrailingAlts.eq_3 e b ys h

theorem semAltsI_consD (S : ScanI) (k : Nat) (b : List Item) (ys : List (List Item)) (c : Nat) (κ : Kont)
    (h : ys = [] → False) :
    semAltsI S k (b :: ys) c κ =
      match semI S k b c Kont.done with
      | some (c1, w1) => addCaps w1 (κ c1)
      | none => semAltsI S k ys c κ :=
  semAltsI.eq_3 S k c κ b ys h

/-- a trailing `[a-b]` means `[a]` in both dialects -/
theorem dropTrailing_bump_both :
    (∀ (items : List Item) (e : Bool), dropTrailing e (bumpRanges items) = bumpRanges (dropTrailing e items)) ∧
    (∀ (bodies : List (List Item)) (e : Bool), dropTrailingAlts e (bumpAlts bodies) = bumpAlts (dropTrailingAlts e bodies)) := by
  have key : ∀ items : List Item, ∀ e : Bool, dropTrailing e (bumpRanges items) = bumpRanges (dropTrailing e items) := by
    apply seqInd (P := fun items => ∀ e : Bool, dropTrailing e (bumpRanges items) = bumpRanges (dropTrailing e items))
      (Q := fun bodies => ∀ e : Bool, dropTrailingAlts e (bumpAlts bodies) = bumpAlts (dropTrailingAlts e bodies))
    · intro e; rw [bumpRanges, dropTrailing, bumpRanges]
    · intro it r h ih e
      rw [bumpRanges_plain _ h, dropTrailing_plain _ _ h, dropTrailing_plain _ _ h, bumpRanges_plain _ h, ih]
    · intro a b r ih e
      rw [bumpRanges, dropTrailing_range, dropTrailing_range, trailingItem_all_bump, ih]
      cases h : (e && r.all trailingItem)
      · simp only [Bool.false_eq_true, if_false]; rw [bumpRanges]
      · simp only [if_true]; rw [bumpRanges_plain _ rfl]
    · intro j gap body r ihb ih e
      rw [bumpRanges, dropTrailing_group, dropTrailing_group, trailingItem_all_bump, ih, ihb, bumpRanges]
    · intro bodies r ihb ih e
      rw [bumpRanges, dropTrailing_alt, dropTrailing_alt, trailingItem_all_bump, ih, ihb, bumpRanges]
    · intro e; rw [bumpAlts, dropTrailingAlts, bumpAlts]
    · intro b bs hb hbs e
      cases bs with
      | nil => simp only [bumpAlts, dropTrailingAlts, hb]
      | cons b' bs =>
        rw [bumpAlts_cons2, dropTrailingAlts_consD _ _ _ (bumpAlts_ne_nil b' bs), dropTrailingAlts_cons2, hb, hbs]
        rw [bumpAlts]
  refine ⟨key, ?_⟩
  intro bodies
  induction bodies with
  | nil => intro e; rw [bumpAlts, dropTrailingAlts, bumpAlts]
  | cons b bs ih =>
    intro e
    cases bs with
    | nil => simp only [bumpAlts, dropTrailingAlts, key]
    | cons b' bs =>
      rw [bumpAlts_cons2, dropTrailingAlts_consD _ _ _ (bumpAlts_ne_nil b' bs), dropTrailingAlts_cons2, key, ih]
      rw [bumpAlts]

theorem dropTrailing_bump (items : List Item) (e : Bool) :
    dropTrailing e (bumpRanges items) = bumpRanges (dropTrailing e items) := dropTrailing_bump_both.1 items e

/-! ## the documented semantics is the implemented semantics of the bumped tree -/

theorem semD_eq_semI_bump_both (S : ScanI) :
    (∀ (items : List Item) (k c : Nat) (κ : Kont), semD S k items c κ = semI S k (bumpRanges items) c κ) ∧
    (∀ (bodies : List (List Item)) (k c : Nat) (κ : Kont), semAltsD S k bodies c κ = semAltsI S k (bumpAlts bodies) c κ) := by
  have key : ∀ items : List Item, ∀ (k c : Nat) (κ : Kont), semD S k items c κ = semI S k (bumpRanges items) c κ := by
    apply seqInd (P := fun items => ∀ (k c : Nat) (κ : Kont), semD S k items c κ = semI S k (bumpRanges items) c κ)
      (Q := fun bodies => ∀ (k c : Nat) (κ : Kont), semAltsD S k bodies c κ = semAltsI S k (bumpAlts bodies) c κ)
    · intro k c κ; rw [bumpRanges, semD, semI]
    · intro it r h ih k c κ
      rw [bumpRanges_plain _ h, semD_plain S k r c κ h, semI_plain S k _ c κ h]
      cases semItem S k it c with
      | none => rfl
      | some x => obtain ⟨c1, w1⟩ := x; simp only [ih]
    · intro a b r ih k c κ
      rw [bumpRanges, semD, semI]
      cases S.slice (addRva c a) with
      | none => rfl
      | some x => obtain ⟨o, len⟩ := x; simp only [ih]
    · intro j gap body r ihb ih k c κ
      rw [bumpRanges, semD, semI]
      cases j.target S c with
      | none => rfl
      | some t => simp only [ihb, ih, slots_bump]; rfl
    · intro bodies r ihb ih k c κ
      rw [bumpRanges, semD, semI, ihb, slots_bumpAlts]
      congr 1; funext c1; exact ih _ _ _
    · intro k c κ; rw [bumpAlts, semAltsD, semAltsI]
    · intro b bs hb hbs k c κ
      cases bs with
      | nil => simp only [bumpAlts, semAltsD, semAltsI, hb]
      | cons b' bs =>
        rw [bumpAlts_cons2, semAltsD_cons2, hb, hbs, semAltsI_consD _ _ _ _ _ _ (bumpAlts_ne_nil b' bs)]
  refine ⟨key, ?_⟩
  intro bodies
  induction bodies with
  | nil => intro k c κ; rw [bumpAlts, semAltsD, semAltsI]
  | cons b bs ih =>
    intro k c κ
    cases bs with
    | nil => simp only [bumpAlts, semAltsD, semAltsI, key]
    | cons b' bs =>
      rw [semAltsD_cons2, key, ih, bumpAlts_cons2, semAltsI_consD _ _ _ _ _ _ (bumpAlts_ne_nil b' bs)]

theorem semD_eq_semI_bump (S : ScanI) (items : List Item) (k c : Nat) (κ : Kont) :
    semD S k items c κ = semI S k (bumpRanges items) c κ := (semD_eq_semI_bump_both S).1 items k c κ

theorem denoteDoc_eq_denoteImpl_bump (S : ScanI) (p : Pat) (c : Nat) :
    denoteDoc S p c = denoteImpl S (bumpRanges p) c := by
  rw [denoteDoc, denoteImpl, dropTrailing_bump, semD_eq_semI_bump]

/-! ## trees without `[a-b]` -/

theorem bump_noRange_both :
    (∀ items : List Item, hasRange items = false → bumpRanges items = items) ∧
    (∀ bodies : List (List Item), hasRangeAlts bodies = false → bumpAlts bodies = bodies) := by
  have key : ∀ items : List Item, hasRange items = false → bumpRanges items = items := by
    apply seqInd (P := fun items => hasRange items = false → bumpRanges items = items)
      (Q := fun bodies => hasRangeAlts bodies = false → bumpAlts bodies = bodies)
    · intro _; rw [bumpRanges]
    · intro it r h ih hr; rw [hasRange_plain _ h] at hr; rw [bumpRanges_plain _ h, ih hr]
    · intro a b r _ hr; rw [hasRange] at hr; cases hr
    · intro j gap body r ihb ih hr
      rw [hasRange, Bool.or_eq_false_iff] at hr
      rw [bumpRanges, ihb hr.1, ih hr.2]
    · intro bodies r ihb ih hr
      rw [hasRange, Bool.or_eq_false_iff] at hr
      rw [bumpRanges, ihb hr.1, ih hr.2]
    · intro _; rw [bumpAlts]
    · intro b bs hb hbs hr
      rw [hasRangeAlts, Bool.or_eq_false_iff] at hr
      rw [bumpAlts, hb hr.1, hbs hr.2]
  refine ⟨key, ?_⟩
  intro bodies
  induction bodies with
  | nil => intro _; rw [bumpAlts]
  | cons b bs ih =>
    intro hr
    rw [hasRangeAlts, Bool.or_eq_false_iff] at hr
    rw [bumpAlts, key b hr.1, ih hr.2]

theorem bump_noRange (items : List Item) (h : hasRange items = false) : bumpRanges items = items :=
  bump_noRange_both.1 items h

/-! ## one more candidate -/

theorem firstSome_addD {α : Type} (f : Nat → Option α) : ∀ (n m i : Nat),
    firstSome f (n + m) i = match firstSome f n i with
      | some x => some x
      | none => firstSome f m (i + n)
  | 0, m, i => by simp [firstSome]
  | n + 1, m, i => by
    rw [show n + 1 + m = (n + m) + 1 by omega, firstSome, firstSome]
    cases f i with
    | some x => rfl
    | none =>
      simp only
      rw [firstSome_addD f n m (i + 1)]
      rw [show i + 1 + n = i + (n + 1) by omega]

end Pelite.PatSem
