import PeliteModel.Lemmas.PatternSemImpl
/-!
Lemmas for the perturbation clause of C11 over the semantics T2' uses (`semI` / `denoteImpl`):
* `semI_footprint` — the result of `semI` depends on the image only through the answers to the questions listed
  by `fpI` (`Spec/PatternSemImpl.lean`);
* straight-line sequences (`straight`): the literal bytes `consI` are in the footprint, hold on every accepted
  layout, and a second image that answers one of them differently (and every other question alike) is rejected.
-/
namespace Pelite.PatSem
open Pelite.Pattern Pelite.Exec

/-- `S'` answers every question of the list as `S` does -/
def AgreeOn (S S' : ScanI) (qs : List Query) : Prop := ∀ q ∈ qs, q.same S S'

theorem AgreeOn.left {S S' : ScanI} {l1 l2 : List Query} (h : AgreeOn S S' (l1 ++ l2)) : AgreeOn S S' l1 :=
  fun q hq => h q (List.mem_append_left _ hq)

theorem AgreeOn.right {S S' : ScanI} {l1 l2 : List Query} (h : AgreeOn S S' (l1 ++ l2)) : AgreeOn S S' l2 :=
  fun q hq => h q (List.mem_append_right _ hq)

theorem AgreeOn.head {S S' : ScanI} {q : Query} {l : List Query} (h : AgreeOn S S' (q :: l)) : q.same S S' :=
  h q (List.mem_cons_self ..)

theorem AgreeOn.tail {S S' : ScanI} {q : Query} {l : List Query} (h : AgreeOn S S' (q :: l)) : AgreeOn S S' l :=
  fun q' hq => h q' (List.mem_cons_of_mem _ hq)

/-! ## unfolding -/

theorem fpI_plain (S : ScanI) (k : Nat) {it : Item} (r : List Item) (c : Nat) (κ : Kont) (φ : Nat → List Query)
    (h : plain it = true) :
    fpI S k (it :: r) c κ φ =
      fpItem S it c ++
      match semItem S k it c with
      | none => []
      | some (c1, _) => fpI S (slotsItem k it) r c1 κ φ := by
  exact fpI.eq_5 S k c κ φ it r (by intro a b hab; subst hab; simp [plain] at h)
    (by intro j gap body hab; subst hab; simp [plain] at h) (by intro bodies hab; subst hab; simp [plain] at h)

theorem fpAltsI_cons2 (S : ScanI) (k : Nat) (b b' : List Item) (bs : List (List Item)) (c : Nat) (κ : Kont)
    (φ : Nat → List Query) :
    fpAltsI S k (b :: b' :: bs) c κ φ =
      fpI S k b c Kont.done (fun _ => []) ++
      match semI S k b c Kont.done with
      | some (c1, _) => φ c1
      | none => fpAltsI S k (b' :: bs) c κ φ := by
  exact fpAltsI.eq_3 S k c κ φ b (b' :: bs) (by intro h; cases h)

/-! ## items -/

theorem matchBytes_same {S S' : ScanI} : ∀ (bs : List Nat) (c : Nat), AgreeOn S S' (fpMatch S bs c) →
    matchBytes S' bs c = matchBytes S bs c
  | [], c, _ => by simp [matchBytes]
  | b :: bs, c, h => by
    rw [fpMatch] at h
    have h1 : S'.read 1 c = S.read 1 c := h.head
    simp only [matchBytes, h1]
    by_cases hb : S.read 1 c = some b
    · rw [if_pos hb] at h ⊢
      rw [if_pos hb]
      exact matchBytes_same bs (c + 1) h.tail
    · rw [if_neg hb, if_neg hb]

theorem target_same {S S' : ScanI} (hf : S'.fmt = S.fmt) (j : Jump) (c : Nat) (h : AgreeOn S S' (j.fp S c)) :
    j.target S' c = j.target S c := by
  cases j with
  | j1 =>
    have h1 : S'.read 1 c = S.read 1 c := h.head
    simp [Jump.target, h1]
  | j4 =>
    have h1 : S'.read 4 c = S.read 4 c := h.head
    simp [Jump.target, h1]
  | ptr =>
    simp only [Jump.fp] at h
    have h1 : S'.read S.fmt.ptrSize c = S.read S.fmt.ptrSize c := h.head
    simp only [Jump.target, hf, h1]
    cases hv : S.read S.fmt.ptrSize c with
    | none => rfl
    | some v =>
      rw [hv] at h
      have h2 : S'.pointer v = S.pointer v := h.tail.head
      simp [h2]

theorem width_same {S S' : ScanI} (hf : S'.fmt = S.fmt) (j : Jump) : j.width S' = j.width S := by
  cases j <;> simp [Jump.width, hf]

theorem semItem_same {S S' : ScanI} (hf : S'.fmt = S.fmt) (k : Nat) : ∀ (it : Item) (c : Nat), plain it = true →
    AgreeOn S S' (fpItem S it c) → semItem S' k it c = semItem S k it c
  | .ws _, c, _, _ => by simp [semItem]
  | .byte b, c, _, h => by simp only [semItem]; rw [matchBytes_same [b] c h]
  | .str bs, c, _, h => by simp only [semItem]; rw [matchBytes_same _ c h]
  | .any, c, _, _ => by simp [semItem]
  | .skip n, c, _, _ => by simp [semItem]
  | .jump j, c, _, h => by simp only [semItem]; rw [target_same hf j c h]
  | .save, c, _, _ => by simp [semItem]
  | .aligned n, c, _, _ => by simp [semItem]
  | .readI w, c, _, h => by
    have h1 : S'.read w c = S.read w c := h.head
    simp [semItem, h1]
  | .readU w, c, _, h => by
    have h1 : S'.read w c = S.read w c := h.head
    simp [semItem, h1]
  | .zero, c, _, _ => by simp [semItem]
  | .range _ _, _, hp, _ => by simp [plain] at hp
  | .group _ _ _, _, hp, _ => by simp [plain] at hp
  | .alt _, _, hp, _ => by simp [plain] at hp

/-! ## `firstSome` -/

theorem firstSome_same {α : Type} {S S' : ScanI} (f f' : Nat → Option α) (g : Nat → List Query)
    (hfg : ∀ j, AgreeOn S S' (g j) → f' j = f j) : ∀ (n i : Nat), AgreeOn S S' (fpFirst f g n i) →
    firstSome f' n i = firstSome f n i
  | 0, _, _ => rfl
  | n + 1, i, h => by
    rw [fpFirst] at h
    rw [firstSome, firstSome, hfg i h.left]
    cases hfi : f i with
    | some x => rfl
    | none =>
      rw [hfi] at h
      exact firstSome_same f f' g hfg n (i + 1) h.right

/-! ## the footprint theorem -/

theorem semI_footprint_both {S S' : ScanI} (hf : S'.fmt = S.fmt) :
    (∀ (items : List Item) (k c : Nat) (κ κ' : Kont) (φ : Nat → List Query),
      (∀ c1, AgreeOn S S' (φ c1) → κ' c1 = κ c1) → AgreeOn S S' (fpI S k items c κ φ) →
      semI S' k items c κ' = semI S k items c κ) ∧
    (∀ (bodies : List (List Item)) (k c : Nat) (κ κ' : Kont) (φ : Nat → List Query),
      (∀ c1, AgreeOn S S' (φ c1) → κ' c1 = κ c1) → AgreeOn S S' (fpAltsI S k bodies c κ φ) →
      semAltsI S' k bodies c κ' = semAltsI S k bodies c κ) := by
  have hdone : ∀ c1, AgreeOn S S' ((fun _ => ([] : List Query)) c1) → Kont.done c1 = Kont.done c1 := fun _ _ => rfl
  have key : ∀ items : List Item, ∀ (k c : Nat) (κ κ' : Kont) (φ : Nat → List Query),
      (∀ c1, AgreeOn S S' (φ c1) → κ' c1 = κ c1) → AgreeOn S S' (fpI S k items c κ φ) →
      semI S' k items c κ' = semI S k items c κ := by
    apply seqInd (P := fun items => ∀ (k c : Nat) (κ κ' : Kont) (φ : Nat → List Query),
        (∀ c1, AgreeOn S S' (φ c1) → κ' c1 = κ c1) → AgreeOn S S' (fpI S k items c κ φ) →
        semI S' k items c κ' = semI S k items c κ)
      (Q := fun bodies => ∀ (k c : Nat) (κ κ' : Kont) (φ : Nat → List Query),
        (∀ c1, AgreeOn S S' (φ c1) → κ' c1 = κ c1) → AgreeOn S S' (fpAltsI S k bodies c κ φ) →
        semAltsI S' k bodies c κ' = semAltsI S k bodies c κ)
    · intro k c κ κ' φ hκ h
      rw [fpI] at h; rw [semI, semI]; exact hκ c h
    · intro it r hp ih k c κ κ' φ hκ h
      rw [fpI_plain S k r c κ φ hp] at h
      rw [semI_plain S' k r c κ' hp, semI_plain S k r c κ hp, semItem_same hf k it c hp h.left]
      cases hi : semItem S k it c with
      | none => rfl
      | some x =>
        obtain ⟨c1, w1⟩ := x
        rw [hi] at h
        simp only
        rw [ih _ c1 κ κ' φ hκ h.right]
    · intro a b r ih k c κ κ' φ hκ h
      rw [fpI] at h
      rw [semI, semI]
      have hs : (S'.slice (addRva c a)).map (·.2) = (S.slice (addRva c a)).map (·.2) := h.head
      cases hsl : S.slice (addRva c a) with
      | none =>
        rw [hsl] at hs
        cases hsl' : S'.slice (addRva c a) with
        | none => rfl
        | some x => rw [hsl'] at hs; simp at hs
      | some x =>
        obtain ⟨o, len⟩ := x
        rw [hsl] at hs h
        cases hsl' : S'.slice (addRva c a) with
        | none => rw [hsl'] at hs; simp at hs
        | some x' =>
          obtain ⟨o', len'⟩ := x'
          rw [hsl'] at hs
          simp only [Option.map_some, Option.some.injEq] at hs
          subst hs
          simp only
          exact firstSome_same _ _ _ (fun j hj => ih k _ κ κ' φ hκ hj) _ 0 h.tail
    · intro j gap body r ihb ih k c κ κ' φ hκ h
      rw [fpI] at h
      rw [semI, semI, target_same hf j c h.left, width_same hf]
      cases ht : j.target S c with
      | none => rfl
      | some t =>
        rw [ht] at h
        simp only
        have hb := ihb k t Kont.done Kont.done (fun _ => []) (fun _ _ => rfl) h.right.left
        rw [hb]
        cases hsb : semI S k body t Kont.done with
        | none => rfl
        | some x =>
          obtain ⟨cb, wb⟩ := x
          have h2 := h.right.right
          rw [hsb] at h2
          simp only
          rw [ih _ _ κ κ' φ hκ h2]
    · intro bodies r ihb ih k c κ κ' φ hκ h
      rw [fpI] at h
      rw [semI, semI]
      exact ihb k c _ _ _ (fun c1 hc1 => ih _ c1 κ κ' φ hκ hc1) h
    · intro k c κ κ' φ _ _
      rw [semAltsI, semAltsI]
    · intro b bs hb hbs k c κ κ' φ hκ h
      cases bs with
      | nil =>
        simp only [fpAltsI] at h
        simp only [semAltsI]
        exact hb k c κ κ' φ hκ h
      | cons b' bs =>
        rw [fpAltsI_cons2] at h
        rw [semAltsI_cons2, semAltsI_cons2, hb k c Kont.done Kont.done (fun _ => []) (fun _ _ => rfl) h.left]
        cases hsb : semI S k b c Kont.done with
        | some x =>
          obtain ⟨c1, w1⟩ := x
          have h2 := h.right
          rw [hsb] at h2
          simp only
          rw [hκ c1 h2]
        | none =>
          have h2 := h.right
          rw [hsb] at h2
          exact hbs k c κ κ' φ hκ h2
  refine ⟨key, ?_⟩
  intro bodies
  induction bodies with
  | nil => intro k c κ κ' φ _ _; rw [semAltsI, semAltsI]
  | cons b bs ih =>
    intro k c κ κ' φ hκ h
    cases bs with
    | nil =>
      simp only [fpAltsI] at h
      simp only [semAltsI]
      exact key b k c κ κ' φ hκ h
    | cons b' bs =>
      rw [fpAltsI_cons2] at h
      rw [semAltsI_cons2, semAltsI_cons2, key b k c Kont.done Kont.done (fun _ => []) (fun _ _ => rfl) h.left]
      cases hsb : semI S k b c Kont.done with
      | some x =>
        obtain ⟨c1, w1⟩ := x
        have h2 := h.right
        rw [hsb] at h2
        simp only
        rw [hκ c1 h2]
      | none =>
        have h2 := h.right
        rw [hsb] at h2
        exact ih k c κ κ' φ hκ h2

/-- **the answer of `denoteImpl` depends on the image only through its footprint** -/
theorem denoteImpl_footprint {S S' : ScanI} (hf : S'.fmt = S.fmt) (p : Pat) (c : Nat)
    (h : ∀ q ∈ footprint S p c, q.same S S') : denoteImpl S' p c = denoteImpl S p c := by
  rw [denoteImpl, denoteImpl,
    (semI_footprint_both hf).1 (dropTrailing true p) 1 c Kont.done Kont.done (fun _ => []) (fun _ _ => rfl) h]

/-! ## straight-line sequences: the constrained bytes -/

theorem straight_plain {it : Item} (r : List Item) (h : plain it = true) : straight (it :: r) = straight r := by
  rw [straight]
  cases it <;> first | (simp [plain] at h; done) | simp [straightItem]

theorem straight_range (a b : Nat) (r : List Item) : straight (.range a b :: r) = false := by
  rw [straight, straightItem]; rfl

theorem straight_alt (bodies : List (List Item)) (r : List Item) : straight (.alt bodies :: r) = false := by
  rw [straight, straightItem]; rfl

theorem straight_group (j : Jump) (gap : List UInt8) (body r : List Item) :
    straight (.group j gap body :: r) = (straight body && straight r) := by
  rw [straight, straightItem]

theorem consI_nil (S : ScanI) (k c : Nat) : consI S k [] c = [] := by rw [consI]

theorem consI_range (S : ScanI) (k a b : Nat) (r : List Item) (c : Nat) : consI S k (.range a b :: r) c = [] := by
  rw [consI]; simp [consIt, advanceI]

theorem consI_alt (S : ScanI) (k : Nat) (bodies : List (List Item)) (r : List Item) (c : Nat) :
    consI S k (.alt bodies :: r) c = [] := by
  rw [consI]; simp [consIt, advanceI]

theorem consI_group (S : ScanI) (k : Nat) (j : Jump) (gap : List UInt8) (body r : List Item) (c : Nat) :
    consI S k (.group j gap body :: r) c =
      match j.target S c with
      | none => []
      | some t =>
        consI S k body t ++
        match semI S k body t Kont.done with
        | none => []
        | some _ => consI S (slotsItems k body) r (addRva c (j.width S)) := by
  rw [consI]
  simp only [consIt, advanceI, slotsItem]
  cases j.target S c with
  | none => rfl
  | some t =>
    simp only
    cases semI S k body t Kont.done <;> rfl

theorem consI_plain (S : ScanI) (k : Nat) {it : Item} (r : List Item) (c : Nat) (h : plain it = true) :
    consI S k (it :: r) c =
      consItem S it c ++
      match semItem S k it c with
      | none => []
      | some (c1, _) => consI S (slotsItem k it) r c1 := by
  rw [consI]
  have h1 : consIt S k it c = consItem S it c := by
    cases it <;> first | (simp [plain] at h; done) | simp [consIt, consItem]
  have h2 : advanceI S k it c = (semItem S k it c).map (·.1) := by
    cases it <;> first | (simp [plain] at h; done) | simp [advanceI]
  rw [h1, h2]
  cases semItem S k it c with
  | none => rfl
  | some x => obtain ⟨c1, w1⟩ := x; rfl

theorem litCount_nil : litCount [] = 0 := by rw [litCount]

theorem litCount_group (j : Jump) (gap : List UInt8) (body r : List Item) :
    litCount (.group j gap body :: r) = litCount body + litCount r := by
  rw [litCount, litCountItem]

theorem litCount_cons (it : Item) (r : List Item) : litCount (it :: r) = litCountItem it + litCount r := by
  rw [litCount]

/-- a straight-line sequence has no trailing `[a-b]` to drop -/
theorem dropTrailing_straight : ∀ (items : List Item) (e : Bool), straight items = true → dropTrailing e items = items := by
  apply seqInd (P := fun items => ∀ e : Bool, straight items = true → dropTrailing e items = items)
    (Q := fun _ => True)
  · intro e _; rw [dropTrailing]
  · intro it r hp ih e hs
    rw [straight_plain r hp] at hs
    rw [dropTrailing_plain _ _ hp, ih e hs]
  · intro a b r _ e hs; rw [straight_range] at hs; cases hs
  · intro j gap body r ihb ih e hs
    rw [straight_group, Bool.and_eq_true] at hs
    rw [dropTrailing_group, ihb _ hs.1, ih e hs.2]
  · intro bodies r _ _ e hs; rw [straight_alt] at hs; cases hs
  · trivial
  · intros; trivial

theorem matchBytes_end (S : ScanI) : ∀ (bs : List Nat) (c c' : Nat), matchBytes S bs c = some c' → c' = c + bs.length
  | [], c, c', h => by simp only [matchBytes, Option.some.injEq] at h; simp [h]
  | b :: bs, c, c', h => by
    simp only [matchBytes] at h
    split at h
    · have := matchBytes_end S bs (c + 1) c' h
      simp only [List.length_cons]; omega
    · cases h

theorem consMatch_holds (S : ScanI) : ∀ (bs : List Nat) (c c' : Nat), matchBytes S bs c = some c' →
    ∀ a v, (a, v) ∈ consMatch S bs c → S.read 1 a = some v
  | [], _, _, _, a, v, hm => by simp [consMatch] at hm
  | b :: bs, c, c', h, a, v, hm => by
    simp only [matchBytes] at h
    split at h
    · next hb =>
      rw [consMatch, if_pos hb] at hm
      rcases List.mem_cons.1 hm with he | ht
      · simp only [Prod.mk.injEq] at he; obtain ⟨rfl, rfl⟩ := he; exact hb
      · exact consMatch_holds S bs (c + 1) c' h a v ht
    · cases h

theorem consMatch_fp (S : ScanI) : ∀ (bs : List Nat) (c : Nat) (a v : Nat), (a, v) ∈ consMatch S bs c →
    Query.lit a ∈ fpMatch S bs c
  | [], _, a, v, hm => by simp [consMatch] at hm
  | b :: bs, c, a, v, hm => by
    rw [consMatch] at hm
    rw [fpMatch]
    rcases List.mem_cons.1 hm with he | ht
    · simp only [Prod.mk.injEq] at he; obtain ⟨rfl, _⟩ := he; exact List.mem_cons_self ..
    · by_cases hb : S.read 1 c = some b
      · rw [if_pos hb] at ht ⊢
        exact List.mem_cons_of_mem _ (consMatch_fp S bs (c + 1) a v ht)
      · rw [if_neg hb] at ht; cases ht

/-- `S'` answers every question of the list, other than the comparison at `a0`, as `S` does -/
def AgreeExcept (S S' : ScanI) (a0 : Nat) (qs : List Query) : Prop := ∀ q ∈ qs, q ≠ Query.lit a0 → q.same S S'

theorem AgreeExcept.left {S S' : ScanI} {a0 : Nat} {l1 l2 : List Query} (h : AgreeExcept S S' a0 (l1 ++ l2)) :
    AgreeExcept S S' a0 l1 := fun q hq => h q (List.mem_append_left _ hq)

theorem AgreeExcept.right {S S' : ScanI} {a0 : Nat} {l1 l2 : List Query} (h : AgreeExcept S S' a0 (l1 ++ l2)) :
    AgreeExcept S S' a0 l2 := fun q hq => h q (List.mem_append_right _ hq)

theorem AgreeExcept.tail {S S' : ScanI} {a0 : Nat} {q : Query} {l : List Query} (h : AgreeExcept S S' a0 (q :: l)) :
    AgreeExcept S S' a0 l := fun q' hq => h q' (List.mem_cons_of_mem _ hq)

theorem matchBytes_perturbed {S S' : ScanI} {a0 v : Nat} (hne : S'.read 1 a0 ≠ some v) :
    ∀ (bs : List Nat) (c : Nat), (a0, v) ∈ consMatch S bs c → AgreeExcept S S' a0 (fpMatch S bs c) →
    matchBytes S' bs c = none
  | [], _, hm, _ => by simp [consMatch] at hm
  | b :: bs, c, hm, h => by
    rw [consMatch] at hm
    rw [fpMatch] at h
    simp only [matchBytes]
    rcases List.mem_cons.1 hm with he | ht
    · simp only [Prod.mk.injEq] at he; obtain ⟨rfl, rfl⟩ := he
      rw [if_neg hne]
    · by_cases hb : S.read 1 c = some b
      · rw [if_pos hb] at ht h
        by_cases hb' : S'.read 1 c = some b
        · rw [if_pos hb']
          exact matchBytes_perturbed hne bs (c + 1) ht h.tail
        · rw [if_neg hb']
      · rw [if_neg hb] at ht; cases ht

/-- when `S'` answers the comparisons like `S` except at `a0`, it fails or ends where `S` ends -/
theorem matchBytes_lockstep (S S' : ScanI) (bs : List Nat) (c c' : Nat) (h : matchBytes S bs c = some c') :
    matchBytes S' bs c = none ∨ matchBytes S' bs c = some c' := by
  cases h' : matchBytes S' bs c with
  | none => exact Or.inl rfl
  | some c2 =>
    rw [matchBytes_end S bs c c' h, matchBytes_end S' bs c c2 h']
    exact Or.inr rfl

theorem lit_not_in_jump_fp (S : ScanI) (j : Jump) (c a0 : Nat) : ∀ q ∈ j.fp S c, q ≠ Query.lit a0 := by
  intro q hq
  cases j with
  | j1 => simp only [Jump.fp, List.mem_singleton] at hq; subst hq; simp
  | j4 => simp only [Jump.fp, List.mem_singleton] at hq; subst hq; simp
  | ptr =>
    simp only [Jump.fp, List.mem_cons] at hq
    rcases hq with rfl | hq
    · simp
    · cases hv : S.read S.fmt.ptrSize c with
      | none => rw [hv] at hq; simp at hq
      | some v => rw [hv] at hq; simp only [List.mem_singleton] at hq; subst hq; simp

theorem AgreeExcept.jump {S S' : ScanI} {a0 : Nat} {j : Jump} {c : Nat} (h : AgreeExcept S S' a0 (j.fp S c)) :
    AgreeOn S S' (j.fp S c) := fun q hq => h q hq (lit_not_in_jump_fp S j c a0 q hq)

/-- an item without sub-patterns under the perturbed image: it fails, or moves the cursor as under `S` -/
theorem semItem_lockstep {S S' : ScanI} (hf : S'.fmt = S.fmt) {a0 : Nat} (k : Nat) : ∀ (it : Item) (c c1 : Nat) (w1 : Caps),
    plain it = true → AgreeExcept S S' a0 (fpItem S it c) → semItem S k it c = some (c1, w1) →
    semItem S' k it c = none ∨ ∃ w1', semItem S' k it c = some (c1, w1')
  | .ws _, c, c1, w1, _, _, h => Or.inr ⟨w1, by simpa [semItem] using h⟩
  | .byte b, c, c1, w1, _, _, h => by
    simp only [semItem, Option.map_eq_some_iff] at h
    obtain ⟨c2, hm, he⟩ := h
    simp only [Prod.mk.injEq] at he; obtain ⟨rfl, rfl⟩ := he
    rcases matchBytes_lockstep S S' [b] c c2 hm with h' | h'
    · exact Or.inl (by simp [semItem, h'])
    · exact Or.inr ⟨[], by simp [semItem, h']⟩
  | .str bs, c, c1, w1, _, _, h => by
    simp only [semItem, Option.map_eq_some_iff] at h
    obtain ⟨c2, hm, he⟩ := h
    simp only [Prod.mk.injEq] at he; obtain ⟨rfl, rfl⟩ := he
    rcases matchBytes_lockstep S S' _ c c2 hm with h' | h'
    · exact Or.inl (by simp [semItem, h'])
    · exact Or.inr ⟨[], by simp [semItem, h']⟩
  | .any, c, c1, w1, _, _, h => Or.inr ⟨w1, by simpa [semItem] using h⟩
  | .skip n, c, c1, w1, _, _, h => Or.inr ⟨w1, by simpa [semItem] using h⟩
  | .jump j, c, c1, w1, _, hq, h => by
    have := target_same hf j c (AgreeExcept.jump (a0 := a0) hq)
    exact Or.inr ⟨w1, by simp only [semItem] at h ⊢; rw [this]; exact h⟩
  | .save, c, c1, w1, _, _, h => Or.inr ⟨w1, by simpa [semItem] using h⟩
  | .aligned n, c, c1, w1, _, _, h => Or.inr ⟨w1, by simpa [semItem] using h⟩
  | .readI w, c, c1, w1, _, hq, h => by
    have h1 : S'.read w c = S.read w c := hq (.read w c) (by simp [fpItem]) (by simp)
    exact Or.inr ⟨w1, by simp only [semItem] at h ⊢; rw [h1]; exact h⟩
  | .readU w, c, c1, w1, _, hq, h => by
    have h1 : S'.read w c = S.read w c := hq (.read w c) (by simp [fpItem]) (by simp)
    exact Or.inr ⟨w1, by simp only [semItem] at h ⊢; rw [h1]; exact h⟩
  | .zero, c, c1, w1, _, _, h => Or.inr ⟨w1, by simpa [semItem] using h⟩
  | .range _ _, _, _, _, hp, _, _ => by simp [plain] at hp
  | .group _ _ _, _, _, _, hp, _, _ => by simp [plain] at hp
  | .alt _, _, _, _, hp, _, _ => by simp [plain] at hp

theorem consItem_perturbed {S S' : ScanI} {a0 v : Nat} (hne : S'.read 1 a0 ≠ some v) (k : Nat) (it : Item) (c : Nat)
    (hm : (a0, v) ∈ consItem S it c) (h : AgreeExcept S S' a0 (fpItem S it c)) : semItem S' k it c = none := by
  cases it with
  | byte b => simp only [consItem] at hm; simp only [fpItem] at h; simp [semItem, matchBytes_perturbed hne [b] c hm h]
  | str bs => simp only [consItem] at hm; simp only [fpItem] at h; simp [semItem, matchBytes_perturbed hne _ c hm h]
  | _ => simp [consItem] at hm

theorem consItem_holds (S : ScanI) (k : Nat) (it : Item) (c c1 : Nat) (w1 : Caps) (h : semItem S k it c = some (c1, w1)) :
    ∀ a v, (a, v) ∈ consItem S it c → S.read 1 a = some v := by
  intro a v hm
  cases it with
  | byte b =>
    simp only [semItem, Option.map_eq_some_iff] at h
    obtain ⟨c2, hmb, _⟩ := h
    exact consMatch_holds S [b] c c2 hmb a v (by simpa [consItem] using hm)
  | str bs =>
    simp only [semItem, Option.map_eq_some_iff] at h
    obtain ⟨c2, hmb, _⟩ := h
    exact consMatch_holds S _ c c2 hmb a v (by simpa [consItem] using hm)
  | _ => simp [consItem] at hm

theorem consItem_fp (S : ScanI) (it : Item) (c a v : Nat) (hm : (a, v) ∈ consItem S it c) : Query.lit a ∈ fpItem S it c := by
  cases it with
  | byte b => exact consMatch_fp S [b] c a v (by simpa [consItem] using hm)
  | str bs => exact consMatch_fp S _ c a v (by simpa [consItem] using hm)
  | _ => simp [consItem] at hm

theorem addCaps_none (w : Caps) : addCaps w none = none := rfl

theorem addCaps_some_iff {w1 : Caps} {res : Option (Nat × Caps)} {x : Nat × Caps} (h : addCaps w1 res = some x) :
    ∃ y, res = some y := by
  cases res with
  | none => simp [addCaps] at h
  | some y => exact ⟨y, rfl⟩

/-- every constrained byte is compared on the way: it is in the footprint -/
theorem consI_fp (S : ScanI) : ∀ items : List Item, ∀ (k c : Nat) (κ : Kont) (φ : Nat → List Query) (a v : Nat),
    (a, v) ∈ consI S k items c → Query.lit a ∈ fpI S k items c κ φ := by
  apply seqInd (P := fun items => ∀ (k c : Nat) (κ : Kont) (φ : Nat → List Query) (a v : Nat),
      (a, v) ∈ consI S k items c → Query.lit a ∈ fpI S k items c κ φ) (Q := fun _ => True)
  · intro k c κ φ a v hm; simp [consI_nil] at hm
  · intro it r hp ih k c κ φ a v hm
    rw [consI_plain S k r c hp] at hm
    rw [fpI_plain S k r c κ φ hp]
    rcases List.mem_append.1 hm with h1 | h2
    · exact List.mem_append_left _ (consItem_fp S it c a v h1)
    · refine List.mem_append_right _ ?_
      cases hi : semItem S k it c with
      | none => rw [hi] at h2; cases h2
      | some x =>
        obtain ⟨c1, w1⟩ := x
        rw [hi] at h2
        exact ih _ c1 κ φ a v h2
  · intro a' b r _ k c κ φ a v hm; simp [consI_range] at hm
  · intro j gap body r ihb ih k c κ φ a v hm
    rw [consI_group] at hm
    rw [fpI]
    refine List.mem_append_right _ ?_
    cases ht : j.target S c with
    | none => rw [ht] at hm; cases hm
    | some t =>
      rw [ht] at hm
      simp only at hm ⊢
      rcases List.mem_append.1 hm with h1 | h2
      · exact List.mem_append_left _ (ihb k t Kont.done _ a v h1)
      · refine List.mem_append_right _ ?_
        cases hb : semI S k body t Kont.done with
        | none => rw [hb] at h2; cases h2
        | some x =>
          rw [hb] at h2
          exact ih _ _ κ φ a v h2
  · intro bodies r _ _ k c κ φ a v hm; simp [consI_alt] at hm
  · trivial
  · intros; trivial

/-- on an accepted layout every constrained byte has the value the pattern demands -/
theorem consI_holds (S : ScanI) : ∀ items : List Item, ∀ (k c : Nat) (κ : Kont) (x : Nat × Caps),
    semI S k items c κ = some x → ∀ a v, (a, v) ∈ consI S k items c → S.read 1 a = some v := by
  apply seqInd (P := fun items => ∀ (k c : Nat) (κ : Kont) (x : Nat × Caps),
      semI S k items c κ = some x → ∀ a v, (a, v) ∈ consI S k items c → S.read 1 a = some v) (Q := fun _ => True)
  · intro k c κ x _ a v hm; simp [consI_nil] at hm
  · intro it r hp ih k c κ x h a v hm
    rw [consI_plain S k r c hp] at hm
    rw [semI_plain S k r c κ hp] at h
    cases hi : semItem S k it c with
    | none => rw [hi] at h; cases h
    | some y =>
      obtain ⟨c1, w1⟩ := y
      rw [hi] at h hm
      simp only at h hm
      rcases List.mem_append.1 hm with h1 | h2
      · exact consItem_holds S k it c c1 w1 hi a v h1
      · obtain ⟨y, hy⟩ := addCaps_some_iff h
        exact ih _ c1 κ y hy a v h2
  · intro a' b r _ k c κ x _ a v hm; simp [consI_range] at hm
  · intro j gap body r ihb ih k c κ x h a v hm
    rw [consI_group] at hm
    rw [semI] at h
    cases ht : j.target S c with
    | none => rw [ht] at hm; cases hm
    | some t =>
      rw [ht] at hm h
      simp only at hm h
      cases hb : semI S k body t Kont.done with
      | none => rw [hb] at h; cases h
      | some y =>
        obtain ⟨cb, wb⟩ := y
        rw [hb] at h hm
        simp only at h hm
        rcases List.mem_append.1 hm with h1 | h2
        · exact ihb k t Kont.done _ hb a v h1
        · obtain ⟨z, hz⟩ := addCaps_some_iff h
          exact ih _ _ κ z hz a v h2
  · intro bodies r _ _ k c κ x _ a v hm; simp [consI_alt] at hm
  · trivial
  · intros; trivial

/-- **perturbation**: an image that answers the comparison of a constrained byte differently — and every other
question of the footprint alike — is rejected -/
theorem consI_perturbed {S S' : ScanI} (hf : S'.fmt = S.fmt) {a0 v : Nat} (hne : S'.read 1 a0 ≠ some v) :
    ∀ items : List Item, ∀ (k c : Nat) (κ κ' : Kont) (φ : Nat → List Query),
    (a0, v) ∈ consI S k items c → AgreeExcept S S' a0 (fpI S k items c κ φ) → semI S' k items c κ' = none := by
  apply seqInd (P := fun items => ∀ (k c : Nat) (κ κ' : Kont) (φ : Nat → List Query),
      (a0, v) ∈ consI S k items c → AgreeExcept S S' a0 (fpI S k items c κ φ) → semI S' k items c κ' = none)
    (Q := fun _ => True)
  · intro k c κ κ' φ hm; simp [consI_nil] at hm
  · intro it r hp ih k c κ κ' φ hm h
    rw [consI_plain S k r c hp] at hm
    rw [fpI_plain S k r c κ φ hp] at h
    rw [semI_plain S' k r c κ' hp]
    rcases List.mem_append.1 hm with h1 | h2
    · rw [consItem_perturbed hne k it c h1 h.left]
    · cases hi : semItem S k it c with
      | none => rw [hi] at h2; cases h2
      | some x =>
        obtain ⟨c1, w1⟩ := x
        rw [hi] at h2
        have hr := h.right
        rw [hi] at hr
        rcases semItem_lockstep hf k it c c1 w1 hp h.left hi with h' | ⟨w1', h'⟩
        · rw [h']
        · rw [h']
          simp only
          rw [ih _ c1 κ κ' φ h2 hr]; rfl
  · intro a' b r _ k c κ κ' φ hm; simp [consI_range] at hm
  · intro j gap body r ihb ih k c κ κ' φ hm h
    rw [consI_group] at hm
    rw [fpI] at h
    rw [semI, target_same hf j c (AgreeExcept.jump h.left), width_same hf]
    cases ht : j.target S c with
    | none => rfl
    | some t =>
      rw [ht] at hm
      have hr := h.right
      rw [ht] at hr
      simp only at hm hr ⊢
      rcases List.mem_append.1 hm with h1 | h2
      · rw [ihb k t Kont.done Kont.done _ h1 hr.left]
      · cases hb : semI S k body t Kont.done with
        | none => rw [hb] at h2; cases h2
        | some x =>
          rw [hb] at h2
          have hrr := hr.right
          rw [hb] at hrr
          cases hb' : semI S' k body t Kont.done with
          | none => rfl
          | some y =>
            obtain ⟨cb', wb'⟩ := y
            simp only
            rw [ih _ _ κ κ' φ h2 hrr]; rfl
  · intro bodies r _ _ k c κ κ' φ hm; simp [consI_alt] at hm
  · trivial
  · intros; trivial

/-! ## completeness of `consI` on straight-line sequences -/

theorem consMatch_length (S : ScanI) : ∀ (bs : List Nat) (c c' : Nat), matchBytes S bs c = some c' →
    (consMatch S bs c).length = bs.length
  | [], _, _, _ => by simp [consMatch]
  | b :: bs, c, c', h => by
    simp only [matchBytes] at h
    split at h
    · next hb => rw [consMatch, if_pos hb]; simp [consMatch_length S bs (c + 1) c' h]
    · cases h

/-- on an accepted layout a straight-line sequence constrains every one of its literal bytes -/
theorem consI_length (S : ScanI) : ∀ items : List Item, ∀ (k c : Nat) (κ : Kont) (x : Nat × Caps),
    straight items = true → semI S k items c κ = some x → (consI S k items c).length = litCount items := by
  apply seqInd (P := fun items => ∀ (k c : Nat) (κ : Kont) (x : Nat × Caps),
      straight items = true → semI S k items c κ = some x → (consI S k items c).length = litCount items)
    (Q := fun _ => True)
  · intro k c κ x _ _; simp [consI_nil, litCount_nil]
  · intro it r hp ih k c κ x hs h
    rw [straight_plain r hp] at hs
    rw [consI_plain S k r c hp]
    rw [semI_plain S k r c κ hp] at h
    cases hi : semItem S k it c with
    | none => rw [hi] at h; cases h
    | some y =>
      obtain ⟨c1, w1⟩ := y
      rw [hi] at h
      simp only at h ⊢
      obtain ⟨z, hz⟩ := addCaps_some_iff h
      rw [List.length_append, ih _ c1 κ z hs hz]
      cases it with
      | byte b =>
        simp only [semItem, Option.map_eq_some_iff] at hi
        obtain ⟨c2, hm, _⟩ := hi
        simp [consItem, litCount_cons, litCountItem, consMatch_length S [b] c c2 hm]
      | str bs =>
        simp only [semItem, Option.map_eq_some_iff] at hi
        obtain ⟨c2, hm, _⟩ := hi
        simp [consItem, litCount_cons, litCountItem, consMatch_length S _ c c2 hm]
      | range a b => simp [plain] at hp
      | group j gap body => simp [plain] at hp
      | alt bodies => simp [plain] at hp
      | _ => simp [consItem, litCount_cons, litCountItem]
  · intro a b r _ k c κ x hs _; rw [straight_range] at hs; cases hs
  · intro j gap body r ihb ih k c κ x hs h
    rw [straight_group, Bool.and_eq_true] at hs
    rw [consI_group, litCount_group]
    rw [semI] at h
    cases ht : j.target S c with
    | none => rw [ht] at h; cases h
    | some t =>
      rw [ht] at h
      simp only at h ⊢
      cases hb : semI S k body t Kont.done with
      | none => rw [hb] at h; cases h
      | some y =>
        obtain ⟨cb, wb⟩ := y
        rw [hb] at h
        simp only at h ⊢
        obtain ⟨z, hz⟩ := addCaps_some_iff h
        rw [List.length_append, ihb k t Kont.done _ hs.1 hb, ih _ _ κ z hs.2 hz]
  · intro bodies r _ _ k c κ x hs _; rw [straight_alt] at hs; cases hs
  · trivial
  · intros; trivial

instance (S S' : ScanI) (q : Query) : Decidable (q.same S S') := by
  cases q <;> simp only [Query.same] <;> infer_instance

end Pelite.PatSem
