import PeliteModel.Spec.PatternSemImpl
import PeliteModel.Lemmas.PatternSem
/-!
Lemmas for C11, unconditional T2: the interpreter model run on the reference compiler's output computes
the second reference semantics `PatSem.semI` / `denoteImpl` (`Spec/PatternSemImpl.lean`) for EVERY
well-formed tree.

Part 1 (this file): an induction principle for item sequences, unfolding equations of `semI` /
`dropTrailing`, slot facts, the simulation relation `RunsK` ("running from `pc` to the end of the
enclosing frame behaves as the continuation semantics says") and its combinators.
-/
namespace Pelite.PatSem
open Pelite.Pattern Pelite.Exec

/-! ## induction over sequences / alternatives -/

/-- items without sub-patterns whose meaning does not depend on what follows -/
def plain : Item → Bool
  | .range _ _ | .group _ _ _ | .alt _ => false
  | _ => true

section Ind
variable {P : List Item → Prop} {Q : List (List Item) → Prop}
  (nil : P [])
  (hplain : ∀ it r, plain it = true → P r → P (it :: r))
  (range : ∀ a b r, P r → P (.range a b :: r))
  (group : ∀ j gap body r, P body → P r → P (.group j gap body :: r))
  (alt : ∀ bodies r, Q bodies → P r → P (.alt bodies :: r))
  (anil : Q [])
  (acons : ∀ b bs, P b → Q bs → Q (b :: bs))
include nil hplain range group alt anil acons
set_option linter.unusedSectionVars false

mutual
theorem seqInd : ∀ items : List Item, P items
  | [] => nil
  | .range a b :: r => range a b r (seqInd r)
  | .group j gap body :: r => group j gap body r (seqInd body) (seqInd r)
  | .alt bodies :: r => alt bodies r (altsInd bodies) (seqInd r)
  | .ws s :: r => hplain (.ws s) r rfl (seqInd r)
  | .byte b :: r => hplain (.byte b) r rfl (seqInd r)
  | .str bs :: r => hplain (.str bs) r rfl (seqInd r)
  | .any :: r => hplain .any r rfl (seqInd r)
  | .skip n :: r => hplain (.skip n) r rfl (seqInd r)
  | .jump j :: r => hplain (.jump j) r rfl (seqInd r)
  | .save :: r => hplain .save r rfl (seqInd r)
  | .aligned n :: r => hplain (.aligned n) r rfl (seqInd r)
  | .readI w :: r => hplain (.readI w) r rfl (seqInd r)
  | .readU w :: r => hplain (.readU w) r rfl (seqInd r)
  | .zero :: r => hplain .zero r rfl (seqInd r)
theorem altsInd : ∀ bodies : List (List Item), Q bodies
  | [] => anil
  | b :: bs => acons b bs (seqInd b) (altsInd bs)
end

end Ind

/-! ## unfolding equations -/

theorem semI_plain (S : ScanI) (k : Nat) {it : Item} (r : List Item) (c : Nat) (κ : Kont) (h : plain it = true) :
    semI S k (it :: r) c κ =
      match semItem S k it c with
      | none => none
      | some (c1, w1) => addCaps w1 (semI S (slotsItem k it) r c1 κ) := by
  exact semI.eq_5 S k c κ it r (by intro a b hab; subst hab; simp [plain] at h)
    (by intro j gap body hab; subst hab; simp [plain] at h) (by intro bodies hab; subst hab; simp [plain] at h)

/-- first `res`, then the continuation -/
def bindK (res : Option (Nat × Caps)) (κ : Kont) : Option (Nat × Caps) :=
  match res with
  | none => none
  | some (c1, w1) => addCaps w1 (κ c1)

theorem semI_plain' (S : ScanI) (k : Nat) {it : Item} (r : List Item) (c : Nat) (κ : Kont) (h : plain it = true) :
    semI S k (it :: r) c κ = bindK (semItem S k it c) (fun c1 => semI S (slotsItem k it) r c1 κ) :=
  semI_plain S k r c κ h

theorem dropTrailing_plain (e : Bool) {it : Item} (r : List Item) (h : plain it = true) :
    dropTrailing e (it :: r) = it :: dropTrailing e r := by
  exact dropTrailing.eq_5 e it r (by intro a b hab; subst hab; simp [plain] at h)
    (by intro j gap body hab; subst hab; simp [plain] at h) (by intro bodies hab; subst hab; simp [plain] at h)

theorem dropTrailing_range (e : Bool) (a b : Nat) (r : List Item) :
    dropTrailing e (.range a b :: r) =
      (if e && r.all trailingItem then .skip a else .range a b) :: dropTrailing e r := by
  rw [dropTrailing]

theorem dropTrailing_group (e : Bool) (j : Jump) (gap : List UInt8) (body r : List Item) :
    dropTrailing e (.group j gap body :: r) =
      .group j gap (dropTrailing (e && r.all trailingItem) body) :: dropTrailing e r := by
  rw [dropTrailing]

theorem dropTrailing_alt (e : Bool) (bodies : List (List Item)) (r : List Item) :
    dropTrailing e (.alt bodies :: r) =
      .alt (dropTrailingAlts (e && r.all trailingItem) bodies) :: dropTrailing e r := by
  rw [dropTrailing]

theorem dropTrailingAlts_cons2 (e : Bool) (b b' : List Item) (bs : List (List Item)) :
    dropTrailingAlts e (b :: b' :: bs) = dropTrailing false b :: dropTrailingAlts e (b' :: bs) := by
  exact dropTrailingAlts.eq_3 e b (b' :: bs) (by intro h; cases h)

theorem semAltsI_cons2 (S : ScanI) (k : Nat) (b b' : List Item) (bs : List (List Item)) (c : Nat) (κ : Kont) :
    semAltsI S k (b :: b' :: bs) c κ =
      match semI S k b c Kont.done with
      | some (c1, w1) => addCaps w1 (κ c1)
      | none => semAltsI S k (b' :: bs) c κ := by
  exact semAltsI.eq_3 S k c κ b (b' :: bs) (by intro h; cases h)

theorem addCaps_nil (res : Option (Nat × Caps)) : addCaps [] res = res := by
  cases res with
  | none => rfl
  | some r => obtain ⟨c2, w2⟩ := r; simp [addCaps]

/-- `dropTrailing false` is the identity -/
theorem dropTrailing_false : ∀ items : List Item, dropTrailing false items = items := by
  apply seqInd (P := fun items => dropTrailing false items = items)
    (Q := fun bodies => dropTrailingAlts false bodies = bodies)
  · rw [dropTrailing]
  · intro it r h ih; rw [dropTrailing_plain _ _ h, ih]
  · intro a b r ih; rw [dropTrailing_range, ih]; simp
  · intro j gap body r ihb ih; rw [dropTrailing_group, ih]; simp [ihb]
  · intro bodies r ihb ih; rw [dropTrailing_alt, ih]; simp [ihb]
  · rw [dropTrailingAlts]
  · intro b bs hb hbs
    cases bs with
    | nil => simp [dropTrailingAlts, hb]
    | cons b' bs => rw [dropTrailingAlts_cons2, hb, hbs]

/-! ## slots -/

theorem slotsItem_plain_drop (k : Nat) (a b : Nat) (t : Bool) :
    slotsItem k (if t then Item.skip a else Item.range a b) = k := by
  cases t <;> simp [slotsItem]

theorem slots_dropTrailing_both :
    (∀ (items : List Item) (k : Nat) (e : Bool), slotsItems k (dropTrailing e items) = slotsItems k items) ∧
    (∀ (bodies : List (List Item)) (k : Nat) (e : Bool), slotsAlts k (dropTrailingAlts e bodies) = slotsAlts k bodies) := by
  have key : ∀ items : List Item, ∀ (k : Nat) (e : Bool), slotsItems k (dropTrailing e items) = slotsItems k items := by
    apply seqInd (P := fun items => ∀ (k : Nat) (e : Bool), slotsItems k (dropTrailing e items) = slotsItems k items)
      (Q := fun bodies => ∀ (k : Nat) (e : Bool), slotsAlts k (dropTrailingAlts e bodies) = slotsAlts k bodies)
    · intro k e; rw [dropTrailing]
    · intro it r h ih k e; rw [dropTrailing_plain _ _ h]; simp only [slotsItems]; exact ih _ _
    · intro a b r ih k e
      rw [dropTrailing_range]; simp only [slotsItems, slotsItem_plain_drop]
      rw [ih]; simp [slotsItem]
    · intro j gap body r ihb ih k e
      rw [dropTrailing_group]; simp only [slotsItems, slotsItem]; rw [ihb, ih]
    · intro bodies r ihb ih k e
      rw [dropTrailing_alt]; simp only [slotsItems, slotsItem]; rw [ihb, ih]
    · intro k e; rw [dropTrailingAlts]
    · intro b bs hb hbs k e
      cases bs with
      | nil => simp [dropTrailingAlts, slotsAlts, hb]
      | cons b' bs => rw [dropTrailingAlts_cons2, slotsAlts, slotsAlts, hb, hbs]
  refine ⟨key, ?_⟩
  intro bodies
  induction bodies with
  | nil => intro k e; rw [dropTrailingAlts]
  | cons b bs ih =>
    intro k e
    cases bs with
    | nil => simp [dropTrailingAlts, slotsAlts, key]
    | cons b' bs => rw [dropTrailingAlts_cons2, slotsAlts, slotsAlts, key, ih]

theorem slots_dropTrailing (items : List Item) (k : Nat) (e : Bool) :
    slotsItems k (dropTrailing e items) = slotsItems k items := slots_dropTrailing_both.1 items k e

theorem slots_dropTrailingAlts (bodies : List (List Item)) (k : Nat) (e : Bool) :
    slotsAlts k (dropTrailingAlts e bodies) = slotsAlts k bodies := slots_dropTrailing_both.2 bodies k e

/-- the captures of `semI` lie in the slot range of the sequence, when those of the continuation lie behind it -/
theorem semI_slots_both (S : ScanI) :
    (∀ (items : List Item) (lo k hi c c' : Nat) (w : Caps) (κ : Kont),
      (∀ c1 c2 w2, κ c1 = some (c2, w2) → SlotsIn w2 lo hi) → lo ≤ k → slotsItems k items ≤ hi →
      semI S k items c κ = some (c', w) → SlotsIn w lo hi) ∧
    (∀ (bodies : List (List Item)) (lo k hi c c' : Nat) (w : Caps) (κ : Kont),
      (∀ c1 c2 w2, κ c1 = some (c2, w2) → SlotsIn w2 lo hi) → lo ≤ k → slotsAlts k bodies ≤ hi →
      semAltsI S k bodies c κ = some (c', w) → SlotsIn w lo hi) := by
  have hadd : ∀ {k hi : Nat} {w1 : Caps} {res : Option (Nat × Caps)} {c' : Nat} {w : Caps},
      SlotsIn w1 k hi → (∀ c2 w2, res = some (c2, w2) → SlotsIn w2 k hi) → addCaps w1 res = some (c', w) →
      SlotsIn w k hi := by
    intro k hi w1 res c' w h1 h2 h
    cases res with
    | none => simp [addCaps] at h
    | some x =>
      obtain ⟨c2, w2⟩ := x
      simp only [addCaps, Option.some.injEq, Prod.mk.injEq] at h
      obtain ⟨_, rfl⟩ := h
      exact SlotsIn.append h1 (h2 c2 w2 rfl)
  have hdone : ∀ (k hi : Nat) (c1 c2 : Nat) (w2 : Caps), Kont.done c1 = some (c2, w2) → SlotsIn w2 k hi := by
    intro k hi c1 c2 w2 h2
    simp only [Kont.done, Option.some.injEq, Prod.mk.injEq] at h2
    obtain ⟨_, rfl⟩ := h2; exact SlotsIn.nil _ _
  have key : ∀ items : List Item, ∀ (lo k hi c c' : Nat) (w : Caps) (κ : Kont),
      (∀ c1 c2 w2, κ c1 = some (c2, w2) → SlotsIn w2 lo hi) → lo ≤ k → slotsItems k items ≤ hi →
      semI S k items c κ = some (c', w) → SlotsIn w lo hi := by
    apply seqInd (P := fun items => ∀ (lo k hi c c' : Nat) (w : Caps) (κ : Kont),
        (∀ c1 c2 w2, κ c1 = some (c2, w2) → SlotsIn w2 lo hi) → lo ≤ k → slotsItems k items ≤ hi →
        semI S k items c κ = some (c', w) → SlotsIn w lo hi)
      (Q := fun bodies => ∀ (lo k hi c c' : Nat) (w : Caps) (κ : Kont),
        (∀ c1 c2 w2, κ c1 = some (c2, w2) → SlotsIn w2 lo hi) → lo ≤ k → slotsAlts k bodies ≤ hi →
        semAltsI S k bodies c κ = some (c', w) → SlotsIn w lo hi)
    · intro lo k hi c c' w κ hκ _ _ h
      rw [semI] at h; exact hκ _ _ _ h
    · intro it r hp ih lo k hi c c' w κ hκ hlo hle h
      rw [semI_plain S k r c κ hp] at h
      simp only [slotsItems] at hle
      split at h
      · cases h
      · next c1 w1 h1 =>
        have q1 := semItem_slots S k it c c1 w1 h1
        have hk := slotsItem_le k it
        refine hadd (q1.mono hlo (Nat.le_trans (slotsItems_le _ r) hle)) ?_ h
        intro c2 w2 h2
        exact ih lo _ hi _ _ _ κ hκ (by omega) hle h2
    · intro a b r ih lo k hi c c' w κ hκ hlo hle h
      rw [semI] at h
      simp only [slotsItems, slotsItem] at hle
      split at h
      · cases h
      · obtain ⟨j, _, _, hj⟩ := firstSome_some h
        exact ih lo _ _ _ _ _ κ hκ hlo hle hj
    · intro j gap body r ihb ih lo k hi c c' w κ hκ hlo hle h
      rw [semI] at h
      simp only [slotsItems, slotsItem] at hle
      split at h
      · cases h
      · split at h
        · cases h
        · next t _ cb wb hb =>
          have hk := slotsItems_le k body
          have q1 := ihb k k (slotsItems k body) _ _ _ Kont.done (hdone _ _) (Nat.le_refl _) (Nat.le_refl _) hb
          refine hadd (q1.mono hlo (Nat.le_trans (slotsItems_le _ r) hle)) ?_ h
          intro c2 w2 h2
          exact ih lo _ hi _ _ _ κ hκ (by omega) hle h2
    · intro bodies r ihb ih lo k hi c c' w κ hκ hlo hle h
      rw [semI] at h
      simp only [slotsItems, slotsItem] at hle
      have hk := slotsAlts_le k bodies
      refine ihb lo k hi _ _ _ _ ?_ hlo (Nat.le_trans (slotsItems_le _ r) hle) h
      intro c1 c2 w2 h2
      exact ih lo _ hi _ _ _ κ hκ (by omega) hle h2
    · intro lo k hi c c' w κ _ _ _ h
      simp [semAltsI] at h
    · intro b bs hb hbs lo k hi c c' w κ hκ hlo hle h
      cases bs with
      | nil =>
        simp only [semAltsI] at h
        simp only [slotsAlts] at hle
        exact hb lo k hi _ _ _ κ hκ hlo (by omega) h
      | cons b' bs =>
        rw [semAltsI_cons2] at h
        rw [slotsAlts] at hle
        split at h
        · next c1 w1 h1 =>
          have q1 := hb k k (slotsItems k b) _ _ _ Kont.done (hdone _ _) (Nat.le_refl _) (Nat.le_refl _) h1
          exact hadd (q1.mono hlo (by omega)) (fun c2 w2 h2 => hκ _ _ _ h2) h
        · exact hbs lo k hi _ _ _ κ hκ hlo (by omega) h
  refine ⟨key, ?_⟩
  intro bodies
  induction bodies with
  | nil => intro lo k hi c c' w κ _ _ _ h; simp [semAltsI] at h
  | cons b bs ih =>
    intro lo k hi c c' w κ hκ hlo hle h
    cases bs with
    | nil =>
      simp only [semAltsI] at h
      simp only [slotsAlts] at hle
      exact key b lo k hi _ _ _ κ hκ hlo (by omega) h
    | cons b' bs =>
      rw [semAltsI_cons2] at h
      rw [slotsAlts] at hle
      split at h
      · next c1 w1 h1 =>
        have q1 := key b k k (slotsItems k b) _ _ _ Kont.done (hdone _ _) (Nat.le_refl _) (Nat.le_refl _) h1
        exact hadd (q1.mono hlo (by omega)) (fun c2 w2 h2 => hκ _ _ _ h2) h
      · exact ih lo k hi _ _ _ κ hκ hlo (by omega) h

/-- a frame of its own: the captures lie in the slots of the sequence -/
theorem semI_done_slots (S : ScanI) (k : Nat) (items : List Item) (c c' : Nat) (w : Caps)
    (h : semI S k items c Kont.done = some (c', w)) : SlotsIn w k (slotsItems k items) :=
  (semI_slots_both S).1 items k k _ c c' w Kont.done
    (by intro c1 c2 w2 h2; simp only [Kont.done, Option.some.injEq, Prod.mk.injEq] at h2
        obtain ⟨_, rfl⟩ := h2; exact SlotsIn.nil _ _) (Nat.le_refl _) (Nat.le_refl _) h

end Pelite.PatSem
