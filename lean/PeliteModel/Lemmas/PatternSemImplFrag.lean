import PeliteModel.Lemmas.PatternSemImplMain
/-!
Lemmas for C11, unconditional T2, part 4: on the fragment `InFragment` the two reference semantics agree.

(1) when no `Many` is trimmed, `dropTrailing true p = p`; (2) when every `[a-b]` retries over its documented
scope (`scopeOK`), backtracking into the continuation is unobservable: `semI … κ = sem … >>= κ`.
-/
namespace Pelite.PatSem
open Pelite.Pattern Pelite.Exec

/-! ## (1) nothing is dropped -/

section Drop
variable {F U : List Atom} {n : Nat} (hcut : Cut F U n)
  (hnm : ∀ i a, n ≤ i → F[i]? = some a → isMany a = false)
include hcut hnm

omit hnm in
/-- `→` of `cut_iff` -/
theorem cut_le {e : Bool} {r : List Item} {k' pos : Nat} {xs : List Atom} (hxs : ∀ x ∈ xs, redundant x = true)
    (hA : At F pos (xs ++ comp k' none r))
    (he : e = true → n ≤ pos + xs.length + (comp k' none r).length)
    (h : (e && r.all trailingItem) = true) : n ≤ pos := by
  rw [Bool.and_eq_true] at h
  have hn := he h.1
  refine hcut.le_of_red hA ?_ (by simp only [List.length_append]; omega)
  intro x hx
  rcases List.mem_append.1 hx with hx | hx
  · exact hxs x hx
  · exact comp_trailing r k' none h.2 x hx

def DropId (F : List Atom) (n : Nat) (items : List Item) : Prop :=
  ∀ (k : Nat) (pend : Option Nat) (pc : Nat) (e : Bool), At F pc (comp k pend items) →
    (e = true → n ≤ pc + (comp k pend items).length) → dropTrailing e items = items

def DropIdAlts (F : List Atom) (n : Nat) (bodies : List (List Item)) : Prop :=
  ∀ (k pc : Nat) (e : Bool), At F pc (compAlts k bodies) →
    (e = true → n ≤ pc + (compAlts k bodies).length) → dropTrailingAlts e bodies = bodies

theorem dropTrailing_id : ∀ items : List Item, DropId F n items := by
  apply seqInd (P := DropId F n) (Q := DropIdAlts F n)
  · intro k pend pc e _ _; rw [dropTrailing]
  · -- plain items: the code of the rest is a suffix of the code
    intro it r hp ih k pend pc e hA he
    rw [dropTrailing_plain e r hp]
    congr 1
    have key : ∃ pre k' pend', comp k pend (it :: r) = pre ++ comp k' pend' r := by
      cases it
      case range a b => simp [plain] at hp
      case group j gap body => simp [plain] at hp
      case alt bodies => simp [plain] at hp
      case ws s => exact ⟨[], k, pend, by rw [comp]; rfl⟩
      case byte b => exact ⟨flush pend ++ [.byte b], k, none, by rw [comp]; simp⟩
      case str bs =>
        by_cases hbs : bs = []
        · exact ⟨[], k, pend, by rw [comp]; simp [hbs]⟩
        · exact ⟨flush pend ++ bs.map (fun c => Atom.byte c.toNat), k, none, by rw [comp]; simp [hbs]⟩
      case any =>
        cases pend with
        | none => exact ⟨[], k, some 1, by rw [comp]; rfl⟩
        | some m =>
          by_cases hm : m ≠ 0 ∧ m < 255
          · exact ⟨[], k, some (m + 1), by rw [comp]; simp [hm]⟩
          · exact ⟨[.skip m], k, some 1, by rw [comp]; simp [hm]⟩
      case skip m =>
        by_cases hm : m = 0
        · exact ⟨[], k, pend, by rw [comp]; simp [hm]⟩
        · exact ⟨flush pend ++ rangext m, k, some (m % 256), by rw [comp]; simp [hm]⟩
      case jump j => exact ⟨flush pend ++ [j.atom], k, none, by rw [comp]; simp⟩
      case save => exact ⟨flush pend ++ [.save k], k + 1, none, by rw [comp]; simp⟩
      case aligned m => exact ⟨flush pend ++ [.aligned m], k, none, by rw [comp]; simp⟩
      case readI w => exact ⟨flush pend ++ [readAtom true w k], k + 1, none, by rw [comp]; simp⟩
      case readU w => exact ⟨flush pend ++ [readAtom false w k], k + 1, none, by rw [comp]; simp⟩
      case zero => exact ⟨flush pend ++ [.zero k], k + 1, none, by rw [comp]; simp⟩
    obtain ⟨pre, k', pend', hcomp⟩ := key
    rw [hcomp] at hA he
    exact ih k' pend' (pc + pre.length) e hA.right (by intro h; have := he h; simp only [List.length_append] at this; omega)
  · intro a b r ih k pend pc e hA he
    rw [comp_range] at hA he
    generalize hlo : (if a = 0 then flush pend else flush pend ++ rangext a ++ [Atom.skip (a % 256)]) = lo at hA he
    have hAF : At F pc ((lo ++ rangext (b - a)) ++ ([Atom.many ((b - a) % 256)] ++ comp k none r)) := by
      simpa using hA
    have hAm := hAF.right
    have hlen : (lo ++ rangext (b - a) ++ Atom.many ((b - a) % 256) :: comp k none r).length =
        (lo ++ rangext (b - a)).length + 1 + (comp k none r).length := by
      simp only [List.length_append, List.length_cons]; omega
    rw [hlen] at he
    rw [dropTrailing_range]
    have hf : (e && r.all trailingItem) = false := by
      cases ht : (e && r.all trailingItem) with
      | false => rfl
      | true =>
        have hn := cut_le hcut (xs := [Atom.many ((b - a) % 256)]) (by intro x hx; simp at hx; subst hx; rfl) hAm
          (by intro h; have := he h; simp only [List.length_cons, List.length_nil]; omega) ht
        have := hnm _ _ hn hAm.left.head
        cases this
    rw [hf]
    simp only [Bool.false_eq_true, if_false]
    congr 1
    exact ih k none _ e hAm.right (by intro h; have := he h; simp only [List.length_cons, List.length_nil]; omega)
  · intro j gap body r ihb ih k pend pc e hA he
    have hcomp : comp k pend (.group j gap body :: r) =
        (flush pend ++ [.push j.push, j.atom]) ++ (comp k none body ++ ([.pop] ++ comp (slotsItems k body) none r)) := by
      rw [comp]; simp [List.append_assoc]
    rw [hcomp] at hA he
    have hl : ((flush pend ++ [Atom.push j.push, j.atom]) ++ (comp k none body ++ ([Atom.pop] ++ comp (slotsItems k body) none r))).length =
        (flush pend ++ [Atom.push j.push, j.atom]).length + (comp k none body).length + 1 + (comp (slotsItems k body) none r).length := by
      simp only [List.length_append, List.length_cons, List.length_nil]; omega
    rw [hl] at he
    have hAb := hA.right.left
    have hAp := hA.right.right
    rw [dropTrailing_group]
    have hb := ihb k none _ (e && r.all trailingItem) hAb (by
      intro ht
      exact cut_le hcut (xs := [Atom.pop]) (by intro x hx; simp at hx; subst hx; rfl) hAp
        (by intro h; have := he h; simp only [List.length_cons, List.length_nil]; omega) ht)
    have hr := ih (slotsItems k body) none _ e hAp.right
      (by intro h; have := he h; simp only [List.length_cons, List.length_nil]; omega)
    rw [hb, hr]
  · intro bodies r ihb ih k pend pc e hA he
    have hcomp : comp k pend (.alt bodies :: r) =
        flush pend ++ (compAlts k bodies ++ ([] ++ comp (slotsAlts k bodies) none r)) := by
      rw [comp]; simp [List.append_assoc]
    rw [hcomp] at hA he
    have hl : (flush pend ++ (compAlts k bodies ++ ([] ++ comp (slotsAlts k bodies) none r))).length =
        (flush pend).length + (compAlts k bodies).length + (comp (slotsAlts k bodies) none r).length := by
      simp only [List.length_append, List.length_nil]; omega
    rw [hl] at he
    have hAb := hA.right.left
    have hAp := hA.right.right
    rw [dropTrailing_alt]
    have hb := ihb k _ (e && r.all trailingItem) hAb (by
      intro ht
      exact cut_le hcut (xs := []) (by intro x hx; cases hx) hAp
        (by intro h; have := he h; simp only [List.length_nil]; omega) ht)
    have hr := ih (slotsAlts k bodies) none _ e hAp.right
      (by intro h; have := he h; simp only [List.length_nil]; omega)
    rw [hb, hr]
  · intro k pc e _ _; rw [dropTrailingAlts]
  · intro b bs ihb ihbs k pc e hA he
    cases bs with
    | nil =>
      simp only [compAlts, List.length_cons] at hA he
      simp only [dropTrailingAlts]
      rw [ihb k none (pc + 1) e hA.tail (by intro h; have := he h; omega)]
    | cons b' bs =>
      have hcomp : compAlts k (b :: b' :: bs) =
          (.case ((comp k none b).length + 1) :: (comp k none b ++ [.brk (compAlts k (b' :: bs)).length])) ++ compAlts k (b' :: bs) := by
        rw [compAlts]
        · simp
        · intro h; cases h
      rw [hcomp] at hA he
      rw [dropTrailingAlts_cons2, dropTrailing_false]
      congr 1
      exact ihbs k _ e hA.right (by intro h; have := he h; simp only [List.length_append] at this; omega)

end Drop

/-- in the fragment no `[a-b]` is a trailing one -/
theorem dropTrailing_of_fragment {p : Pat} (h : InFragment p = true) : dropTrailing true p = p := by
  simp only [InFragment, Bool.and_eq_true, Bool.not_eq_true', List.any_eq_false] at h
  let F := compileRaw p
  have hcut := cut_compile F
  have hnm : ∀ i a, (trimEnd F).length ≤ i → F[i]? = some a → isMany a = false := by
    intro i a hle ha
    rw [trim_split F, List.getElem?_append_right hle] at ha
    simpa using h.2 a (List.mem_of_getElem? ha)
  have hA : At F 1 (comp 1 none p) := by
    intro i a ha
    show (Atom.save 0 :: comp 1 none p)[1 + i]? = some a
    rw [Nat.add_comm, List.getElem?_cons_succ]; exact ha
  refine dropTrailing_id hcut hnm p 1 none 1 true hA ?_
  intro _
  have : (trimEnd F).length ≤ F.length := by
    conv => rhs; rw [trim_split F]
    simp
  have hl : F.length = 1 + (comp 1 none p).length := by
    show (Atom.save 0 :: comp 1 none p).length = _
    simp only [List.length_cons]; omega
  omega

/-! ## (2) `semI` is `sem` when every `[a-b]` retries over its documented scope -/

theorem bindK_done (res : Option (Nat × Caps)) : bindK res Kont.done = res := by
  cases res with
  | none => rfl
  | some x => obtain ⟨c, w⟩ := x; simp [bindK, Kont.done, addCaps]

theorem bindK_assoc (x : Option (Nat × Caps)) (f : Nat → Option (Nat × Caps)) (κ : Kont) :
    bindK x (fun c1 => bindK (f c1) κ) =
      bindK (match x with
             | none => none
             | some (c1, w1) => thenRes w1 (f c1)) κ := by
  cases x with
  | none => rfl
  | some x =>
    obtain ⟨c1, w1⟩ := x
    simp only [bindK]
    cases f c1 with
    | none => rfl
    | some y =>
      obtain ⟨c2, w2⟩ := y
      simp only [thenRes, addCaps]
      cases κ c2 with
      | none => rfl
      | some z => obtain ⟨c3, w3⟩ := z; simp [List.append_assoc]

/-- a continuation that cannot fail -/
def Total (κ : Kont) : Prop := ∀ c, (κ c).isSome = true

theorem Total.done : Total Kont.done := fun _ => rfl

theorem bindK_isSome {res : Option (Nat × Caps)} {κ : Kont} (hκ : Total κ) : (bindK res κ).isSome = res.isSome := by
  cases res with
  | none => rfl
  | some x =>
    obtain ⟨c, w⟩ := x
    simp only [bindK]
    have := hκ c
    cases hk : κ c with
    | none => rw [hk] at this; cases this
    | some y => obtain ⟨c2, w2⟩ := y; rfl

/-- against a continuation that cannot fail, the first candidate that matches is the first at which the
continuation matches as well -/
theorem firstSome_bindK {f : Nat → Option (Nat × Caps)} {κ : Kont} (hκ : Total κ) :
    ∀ m i, firstSome (fun j => bindK (f j) κ) m i = bindK (firstSome f m i) κ
  | 0, _ => rfl
  | m + 1, i => by
    simp only [firstSome]
    cases hf : f i with
    | none => simp only [bindK]; exact firstSome_bindK hκ m (i + 1)
    | some x =>
      have h1 := bindK_isSome (res := f i) hκ
      rw [hf] at h1
      cases hb : bindK (some x) κ with
      | none => rw [hb] at h1; cases h1
      | some y => rfl

theorem sem_silent (S : ScanI) : ∀ (r : List Item) (k c : Nat), silent r = true → (sem S k r c).isSome = true := by
  intro r
  induction r with
  | nil => intro k c _; rfl
  | cons it r ih =>
    intro k c h
    simp only [silent, List.all_cons, Bool.and_eq_true] at h
    have ihr := fun k c => ih k c (by simpa [silent] using h.2)
    have hit := h.1
    cases it <;> simp only [silentItem, reduceCtorEq, decide_eq_true_eq] at hit
    case ws s =>
      rw [sem_cons S k _ r c (by intro a b h; cases h)]
      simp only [semItem, slotsItem, thenRes_nil]; exact ihr _ _
    case skip m =>
      rw [sem_cons S k _ r c (by intro a b h; cases h)]
      simp only [semItem, slotsItem, thenRes_nil]; exact ihr _ _
    case str bs =>
      subst hit
      rw [sem_cons S k _ r c (by intro a b h; cases h)]
      simp only [semItem, List.map_nil, matchBytes, Option.map_some, slotsItem, thenRes_nil]; exact ihr _ _

theorem scopeOK_plain (t : Bool) {it : Item} (r : List Item) (h : plain it = true) : scopeOK t (it :: r) = scopeOK t r :=
  scopeOK.eq_5 t it r (by intro a b hab; subst hab; simp [plain] at h)
    (by intro j gap body hab; subst hab; simp [plain] at h) (by intro bodies hab; subst hab; simp [plain] at h)

def SemEq (S : ScanI) (items : List Item) : Prop :=
  ∀ (k : Nat) (t : Bool) (c : Nat) (κ : Kont), scopeOK t items = true → (t = true → Total κ) →
    semI S k items c κ = bindK (sem S k items c) κ

def SemEqAlts (S : ScanI) (bodies : List (List Item)) : Prop :=
  ∀ (k : Nat) (tl : Bool) (c : Nat) (κ : Kont), scopeOKAlts tl bodies = true → (tl = true → Total κ) →
    semAltsI S k bodies c κ = bindK (semAlts S k bodies c) κ

theorem semI_eq_sem (S : ScanI) : ∀ items : List Item, SemEq S items := by
  apply seqInd (P := SemEq S) (Q := SemEqAlts S)
  · intro k t c κ _ _
    rw [semI, sem]
    simp [bindK, addCaps_nil]
  · intro it r hp ih k t c κ hsc hκ
    rw [scopeOK_plain t r hp] at hsc
    rw [semI_plain' S k r c κ hp]
    have : (fun c1 => semI S (slotsItem k it) r c1 κ) = fun c1 => bindK (sem S (slotsItem k it) r c1) κ := by
      funext c1; exact ih _ t c1 κ hsc hκ
    rw [this, bindK_assoc, sem_cons S k it r c (by intro a b hab; subst hab; simp [plain] at hp)]
    rfl
  · intro a b r ih k t c κ hsc hκ
    simp only [scopeOK, Bool.and_eq_true] at hsc
    have hκ' := hκ hsc.1
    rw [semI, sem]
    cases S.slice (addRva c a) with
    | none => rfl
    | some ol =>
      obtain ⟨off, len⟩ := ol
      simp only
      have : (fun i => semI S k r (addRva (addRva c a) i) κ) = fun i => bindK (sem S k r (addRva (addRva c a) i)) κ := by
        funext i; exact ih k t _ κ hsc.2 hκ
      rw [this]
      exact firstSome_bindK (f := fun i => sem S k r (addRva (addRva c a) i)) hκ' _ _
  · intro j gap body r ihb ih k t c κ hsc hκ
    simp only [scopeOK, Bool.and_eq_true] at hsc
    rw [semI_group_eq]
    have : (fun c1 => semI S (slotsItems k body) r c1 κ) = fun c1 => bindK (sem S (slotsItems k body) r c1) κ := by
      funext c1; exact ih _ t c1 κ hsc.2 hκ
    rw [this, bindK_assoc, sem_cons S k _ r c (by intro a b hab; cases hab)]
    have hg : groupRes S k j body c = semItem S k (.group j gap body) c := by
      unfold groupRes
      simp only [semItem]
      cases j.target S c with
      | none => rfl
      | some tg =>
        simp only
        rw [ihb k true tg Kont.done hsc.1 (fun _ => Total.done), bindK_done]
        rfl
    rw [hg]
    rfl
  · intro bodies r ihb ih k t c κ hsc hκ
    simp only [scopeOK, Bool.and_eq_true] at hsc
    rw [semI]
    have hk : (fun c1 => semI S (slotsAlts k bodies) r c1 κ) = fun c1 => bindK (sem S (slotsAlts k bodies) r c1) κ := by
      funext c1; exact ih _ t c1 κ hsc.2 hκ
    rw [hk]
    rw [ihb k (t && silent r) c _ hsc.1 (by
      intro htl
      simp only [Bool.and_eq_true] at htl
      intro c1
      show (bindK (sem S (slotsAlts k bodies) r c1) κ).isSome = true
      rw [bindK_isSome (hκ htl.1)]
      exact sem_silent S r _ _ htl.2)]
    rw [bindK_assoc, sem_cons S k _ r c (by intro a b hab; cases hab)]
    rfl
  · intro k tl c κ _ _
    simp [semAltsI, semAlts, bindK]
  · intro b bs ihb ihbs k tl c κ hsc hκ
    cases bs with
    | nil =>
      simp only [scopeOKAlts] at hsc
      simp only [semAltsI, semAlts]
      rw [ihb k tl c κ hsc hκ]
      cases sem S k b c <;> rfl
    | cons b' bs =>
      rw [scopeOKAlts.eq_3 tl b (b' :: bs) (by intro h; cases h), Bool.and_eq_true] at hsc
      rw [semAltsI_cons2, ihb k true c Kont.done hsc.1 (fun _ => Total.done), bindK_done]
      have hsa : semAlts S k (b :: b' :: bs) c =
          match sem S k b c with
          | some r => some r
          | none => semAlts S k (b' :: bs) c := by rw [semAlts]; rfl
      rw [hsa]
      cases sem S k b c with
      | none => exact ihbs k tl c κ hsc.2 hκ
      | some x => obtain ⟨c1, w1⟩ := x; rfl

/-- **the two readings agree on the fragment** -/
theorem denoteImpl_eq_denote (S : ScanI) {p : Pat} (h : InFragment p = true) (c : Nat) :
    denoteImpl S p c = denote S p c := by
  have hsc : scopeOK true p = true := by
    simp only [InFragment, Bool.and_eq_true] at h; exact h.1
  unfold denoteImpl denote
  rw [dropTrailing_of_fragment h, semI_eq_sem S p 1 true c Kont.done hsc (fun _ => Total.done), bindK_done]

end Pelite.PatSem
