import PeliteModel.Lemmas.PatternSemImplRun
/-!
Lemmas for C11, unconditional T2, part 3: assembly.

(A) the cut of `compileRaw p`; (B) `Scanner::exec` on `compile p` computes `denoteImpl`;
(C) on the fragment `dropTrailing` changes nothing and `semI` is `sem`: `denoteImpl = denote`.
-/
namespace Pelite.PatSem
open Pelite.Pattern Pelite.Exec

/-! ## (A) the cut of the compiled code -/

/-- what is executed instead of the kept code: the kept code, then the trimmed atoms with `Many` neutralised -/
def cutCode (F : List Atom) : List Atom := trimEnd F ++ (trimmedTail F).map deMany

theorem cutCode_length (F : List Atom) : (cutCode F).length = F.length := by
  conv => rhs; rw [trim_split F]
  simp [cutCode]

theorem trimEnd_last (F : List Atom) :
    (trimEnd F).length = 0 ∨ ∃ a, F[(trimEnd F).length - 1]? = some a ∧ redundant a = false := by
  by_cases h0 : (trimEnd F).length = 0
  · exact Or.inl h0
  · right
    have hne : trimEnd F ≠ [] := by intro h; rw [h] at h0; exact h0 rfl
    have hd : F.reverse.dropWhile redundant ≠ [] := by
      intro h; apply hne; unfold trimEnd; rw [h]; rfl
    refine ⟨(F.reverse.dropWhile redundant).head hd, ?_, List.head_dropWhile_not redundant hd⟩
    have h1 : (trimEnd F)[(trimEnd F).length - 1]? = some ((F.reverse.dropWhile redundant).head hd) := by
      rw [← List.getLast?_eq_getElem?]
      unfold trimEnd
      rw [List.getLast?_reverse, List.head?_eq_some_head hd]
    have hlt : (trimEnd F).length - 1 < (trimEnd F).length := by omega
    have h2 : F[(trimEnd F).length - 1]? = (trimEnd F ++ trimmedTail F)[(trimEnd F).length - 1]? := by
      rw [← trim_split F]
    rw [h2, List.getElem?_append_left hlt]
    exact h1

theorem cut_compile (F : List Atom) : Cut F (cutCode F) (trimEnd F).length where
  exec := by
    intro i a ha
    rw [trim_split F] at ha
    unfold cutCode
    by_cases hi : i < (trimEnd F).length
    · rw [List.getElem?_append_left hi] at ha ⊢
      rw [ha]; simp [Nat.not_le.2 hi]
    · have hle : (trimEnd F).length ≤ i := Nat.le_of_not_lt hi
      rw [List.getElem?_append_right hle] at ha ⊢
      rw [List.getElem?_map, ha]; simp [hle]
  tail := by
    intro i a hle ha
    rw [trim_split F, List.getElem?_append_right hle] at ha
    exact trimmedTail_redundant F a (List.mem_of_getElem? ha)
  last := trimEnd_last F

theorem deMany_inert {a : Atom} (h : redundant a = true) : inert (deMany a) = true := by
  cases a <;> simp_all [redundant, deMany, isMany, inert]

theorem cutCode_tail_inert (F : List Atom) : ∀ a ∈ (trimmedTail F).map deMany, inert a = true := by
  intro a ha
  obtain ⟨x, hx, rfl⟩ := List.mem_map.1 ha
  exact deMany_inert (trimmedTail_redundant F x hx)

theorem cutCode_bytesOK {F : List Atom} (h : BytesOK F) : BytesOK (cutCode F) := by
  intro b hb
  unfold cutCode at hb
  rcases List.mem_append.1 hb with hb | hb
  · apply h b
    rw [trim_split F]
    exact List.mem_append_left _ hb
  · obtain ⟨x, hx, hxb⟩ := List.mem_map.1 hb
    have := trimmedTail_redundant F x hx
    cases x <;> simp_all [redundant, deMany, isMany]

/-! ## (B) the run -/

/-- **unconditional T2**: `Scanner::exec` on the reference compiler's output computes `denoteImpl`, for every
well-formed pattern -/
theorem run_compile_impl {S : ScanI} (hS : S.WF) (hC : Coherent S) (p : Pat) (hwf : WF p = true)
    (c : Nat) (hc : c < 4294967296) (save0 : Array Nat) :
    ∃ save, run S (compile p) c save0 = .ok ((denoteImpl S p c).isSome, save) ∧ save.size = save0.size ∧
      ∀ c' w, denoteImpl S p c = some (c', w) → ∀ s v, (s, v) ∈ w → s < save0.size → save[s]? = some v := by
  simp only [WF, Bool.and_eq_true, decide_eq_true_eq] at hwf
  obtain ⟨⟨hwf1, _⟩, _⟩ := hwf
  let F := compileRaw p
  let U := cutCode F
  have hF : F = .save 0 :: comp 1 none p := rfl
  have hcut : Cut F U (trimEnd F).length := cut_compile F
  have hBF : BytesOK F := BytesOK.cons (by intro b hb; cases hb) (comp_bytesOK p 1 0 none hwf1)
  have hB : ∀ b, Atom.byte b ∈ U → b < 256 := cutCode_bytesOK hBF
  have hA : At F 1 (comp 1 none p) := by
    intro i a ha
    rw [hF, Nat.add_comm, List.getElem?_cons_succ]; exact ha
  have hlen : F.length = 1 + (comp 1 none p).length := by rw [hF]; simp only [List.length_cons]; omega
  have hUlen : U.length = F.length := cutCode_length F
  have hnle : (trimEnd F).length ≤ F.length := by
    conv => rhs; rw [trim_split F]
    simp
  have hrun := comp_runsK hS hcut hB hC p 1 0 none 0 1 c (saveSet save0 0 c) F.length true Kont.done hwf1 hA rfl hc
    (by rw [← hlen]; simp [hnle])
    (by intro c1 sv1 hc1
        rw [← hlen]
        exact RunsK.done (IsTerm.end_ hS (by omega)) hc1)
  have h0 : execT S U ⟨0, c, save0⟩ 0xff 0 = execT S U ⟨1, c, saveSet save0 0 c⟩ 0xff 0 :=
    execT_step_some hS (st := ⟨0, c, save0⟩) (a := .save 0) (hcut.get (by rw [hF]; rfl) rfl) rfl rfl
  have hex : exec S U (fuelFor U) ⟨0, c, save0⟩ 0xff 0 = .ok (execT S U ⟨0, c, save0⟩ 0xff 0) :=
    exec_eq_execT hS (by simp [fuelFor]) (by simp [fuelFor])
  have hrunU : run S U c save0 = .ok ((execT S U ⟨0, c, save0⟩ 0xff 0).1, (execT S U ⟨0, c, save0⟩ 0xff 0).2.save) := by
    simp only [run, hex]
  have htrim : run S (compile p) c save0 = run S U c save0 :=
    run_trim hS (trimEnd F) ((trimmedTail F).map deMany) (cutCode_tail_inert F) c save0
  rw [htrim, hrunU, h0]
  simp only [cur] at hrun
  simp only [denoteImpl]
  cases hs : semI S 1 (dropTrailing true p) c Kont.done with
  | none =>
    rw [hs] at hrun
    obtain ⟨st', he, hok⟩ := hrun
    refine ⟨st'.save, by rw [he]; rfl, ?_, ?_⟩
    · rw [hok.1]; simp [saveSet]
    · intro c' w h; simp at h
  | some x =>
    obtain ⟨c', w⟩ := x
    rw [hs] at hrun
    obtain ⟨sv', he, hok, hw, _⟩ := hrun
    refine ⟨sv', by rw [he]; rfl, ?_, ?_⟩
    · rw [hok.1]; simp [saveSet]
    · intro c'' w'' h s v hm hsz
      simp only [Option.map_some, Option.some.injEq, Prod.mk.injEq] at h
      obtain ⟨_, rfl⟩ := h
      have hsz' : s < sv'.size := by rw [hok.1]; simpa [saveSet] using hsz
      rcases List.mem_append.1 hm with h1 | h1
      · exact hw s v h1 hsz'
      · simp only [List.mem_singleton, Prod.mk.injEq] at h1
        obtain ⟨rfl, rfl⟩ := h1
        rw [hok.2 0 (by omega)]
        simp only [saveSet]
        simp [hsz]

end Pelite.PatSem
