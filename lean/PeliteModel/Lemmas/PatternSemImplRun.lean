import PeliteModel.Lemmas.PatternSemImpl
/-!
Lemmas for C11, unconditional T2, part 2: compiler correctness against `semI`.

The parser trims the redundant atoms `Skip / Rangext / Pop / Many` from the end of the code.  `F` is the
code as compiled (`compileRaw p`), `n` the length of what is kept.  Instead of the kept prefix we run `U`:
`F` with every `Many` at a position `≥ n` replaced by the inert `Rangext 0` — by `run_trim` the kept prefix
and `U` give the same answer, and `U` has the shape of `F` everywhere else (`Cut`).  A `[a-b]` whose `Many`
is neutralised behaves like `[a]`: that is `dropTrailing`.
-/
namespace Pelite.PatSem
open Pelite.Pattern Pelite.Exec

/-! ## the cut -/

def deMany (a : Atom) : Atom := if isMany a then .rangext 0 else a

structure Cut (F U : List Atom) (n : Nat) : Prop where
  exec : ∀ i a, F[i]? = some a → U[i]? = some (if n ≤ i then deMany a else a)
  tail : ∀ i a, n ≤ i → F[i]? = some a → redundant a = true
  last : n = 0 ∨ ∃ a, F[n - 1]? = some a ∧ redundant a = false

theorem deMany_of_not {a : Atom} (h : isMany a = false) : deMany a = a := by simp [deMany, h]

theorem Cut.get {F U : List Atom} {n : Nat} (h : Cut F U n) {i : Nat} {a : Atom} (ha : F[i]? = some a)
    (hm : isMany a = false) : U[i]? = some a := by
  rw [h.exec i a ha, deMany_of_not hm]; simp

theorem Cut.at {F U : List Atom} {n : Nat} (h : Cut F U n) {pc : Nat} {code : List Atom} (hA : At F pc code)
    (hm : ∀ a ∈ code, isMany a = false) : At U pc code := by
  intro i a ha
  exact h.get (hA i a ha) (hm a (List.mem_of_getElem? ha))

theorem Cut.solid_lt {F U : List Atom} {n : Nat} (h : Cut F U n) {i : Nat} {a : Atom} (ha : F[i]? = some a)
    (hr : redundant a = false) : i < n := by
  apply Nat.lt_of_not_le
  intro hle
  rw [h.tail i a hle ha] at hr
  cases hr

/-- redundant atoms in front of the cut are cut, too -/
theorem Cut.le_of_red {F U : List Atom} {n : Nat} (h : Cut F U n) {pos : Nat} {code : List Atom} (hA : At F pos code)
    (hr : ∀ a ∈ code, redundant a = true) (hn : n ≤ pos + code.length) : n ≤ pos := by
  apply Nat.le_of_not_lt
  intro hlt
  rcases h.last with h0 | ⟨a, ha, hra⟩
  · omega
  · have hi : n - 1 - pos < code.length := by omega
    have hc := hA (n - 1 - pos) code[n - 1 - pos] (List.getElem?_eq_getElem hi)
    rw [show pos + (n - 1 - pos) = n - 1 by omega, ha] at hc
    cases hc
    rw [hr _ (List.getElem_mem hi)] at hra
    cases hra

theorem Cut.red_of_le {F U : List Atom} {n : Nat} (h : Cut F U n) {pos : Nat} {code : List Atom} (hA : At F pos code)
    (hn : n ≤ pos) : ∀ a ∈ code, redundant a = true := by
  intro a ha
  obtain ⟨i, hi⟩ := List.mem_iff_getElem?.1 ha
  exact h.tail (pos + i) a (by omega) (hA i a hi)

/-! ## which sequences compile to redundant atoms only -/

theorem flush_redundant (pend : Option Nat) : ∀ a ∈ flush pend, redundant a = true := by
  cases pend <;> simp [flush, redundant]

theorem rangext_redundant (m : Nat) : ∀ a ∈ rangext m, redundant a = true := by
  unfold rangext; split <;> simp [redundant]

/-- trailing items compile to `Skip / Rangext / Many` only -/
theorem comp_trailing : ∀ (r : List Item) (k : Nat) (pend : Option Nat), r.all trailingItem = true →
    ∀ a ∈ comp k pend r, redundant a = true := by
  intro r
  induction r with
  | nil => intro k pend _; rw [comp]; exact flush_redundant pend
  | cons it r ih =>
    intro k pend h
    simp only [List.all_cons, Bool.and_eq_true] at h
    obtain ⟨hit, hr⟩ := h
    cases it <;> simp only [trailingItem, reduceCtorEq, decide_eq_true_eq] at hit
    case ws s => rw [comp]; exact ih k pend hr
    case str bs => subst hit; rw [comp]; simp only [if_true]; exact ih k pend hr
    case any =>
      cases pend with
      | none => rw [comp]; exact ih k _ hr
      | some m =>
        rw [comp]
        split
        · exact ih k _ hr
        · intro a ha
          rcases List.mem_cons.1 ha with rfl | ha
          · rfl
          · exact ih k _ hr a ha
    case skip m =>
      rw [comp]
      split
      · exact ih k pend hr
      · intro a ha
        rcases List.mem_append.1 ha with ha | ha
        · rcases List.mem_append.1 ha with ha | ha
          · exact flush_redundant _ a ha
          · exact rangext_redundant _ a ha
        · exact ih k _ hr a ha
    case range x y =>
      rw [comp]
      intro a ha
      rcases List.mem_append.1 ha with ha | ha
      · rcases List.mem_append.1 ha with ha | ha
        · split at ha
          · exact flush_redundant _ a ha
          · rcases List.mem_append.1 ha with ha | ha
            · rcases List.mem_append.1 ha with ha | ha
              · exact flush_redundant _ a ha
              · exact rangext_redundant _ a ha
            · simp only [List.mem_singleton] at ha; subst ha; rfl
        · exact rangext_redundant _ a ha
      · rcases List.mem_cons.1 ha with rfl | ha
        · rfl
        · exact ih k _ hr a ha

theorem compAlts_solid (k : Nat) : ∀ bodies : List (List Item), bodies ≠ [] →
    ∃ a ∈ compAlts k bodies, redundant a = false
  | [], h => absurd rfl h
  | [b], _ => ⟨.nop, by simp [compAlts], rfl⟩
  | b :: b' :: bs, _ => by
    rw [compAlts]
    · exact ⟨_, List.mem_cons_self .., rfl⟩
    · intro h; cases h

/-- … and only they do -/
theorem trailing_of_comp : ∀ (r : List Item) (d k : Nat) (pend : Option Nat), wfItems d r = true →
    (∀ a ∈ comp k pend r, redundant a = true) → r.all trailingItem = true := by
  intro r
  induction r with
  | nil => intro _ _ _ _ _; rfl
  | cons it r ih =>
    intro d k pend hwf h
    have hwr := (wf_cons hwf).2
    have hwi := (wf_cons hwf).1
    simp only [List.all_cons, Bool.and_eq_true]
    have solid : ∀ {a : Atom}, a ∈ comp k pend (it :: r) → redundant a = false → False := by
      intro a ha hr; rw [h a ha] at hr; cases hr
    cases it
    case ws s => rw [comp] at h; exact ⟨rfl, ih d k pend hwr h⟩
    case byte b =>
      exact (solid (a := .byte b) (by rw [comp]; simp) rfl).elim
    case str bs =>
      by_cases hbs : bs = []
      · subst hbs; rw [comp] at h; simp only [if_true] at h
        exact ⟨by simp [trailingItem], ih d k pend hwr h⟩
      · obtain ⟨x, xs, rfl⟩ := List.exists_cons_of_ne_nil hbs
        exact (solid (a := .byte x.toNat) (by rw [comp]; simp) rfl).elim
    case any =>
      refine ⟨rfl, ?_⟩
      cases pend with
      | none => rw [comp] at h; exact ih d k _ hwr h
      | some m =>
        rw [comp] at h
        split at h
        · exact ih d k _ hwr h
        · exact ih d k _ hwr (fun a ha => h a (List.mem_cons_of_mem _ ha))
    case skip m =>
      refine ⟨rfl, ?_⟩
      rw [comp] at h
      split at h
      · exact ih d k _ hwr h
      · exact ih d k _ hwr (fun a ha => h a (List.mem_append_right _ ha))
    case range x y =>
      refine ⟨rfl, ?_⟩
      rw [comp] at h
      exact ih d k _ hwr (fun a ha => h a (List.mem_append_right _ (List.mem_cons_of_mem _ ha)))
    case jump j =>
      exact (solid (a := j.atom) (by rw [comp]; simp) (by cases j <;> rfl)).elim
    case save => exact (solid (a := .save k) (by rw [comp]; simp) rfl).elim
    case aligned m => exact (solid (a := .aligned m) (by rw [comp]; simp) rfl).elim
    case readI w =>
      exact (solid (a := readAtom true w k) (by rw [comp]; simp) (by unfold readAtom; split <;> rfl)).elim
    case readU w =>
      exact (solid (a := readAtom false w k) (by rw [comp]; simp) (by unfold readAtom; split <;> rfl)).elim
    case zero => exact (solid (a := .zero k) (by rw [comp]; simp) rfl).elim
    case group j gap body =>
      exact (solid (a := .push j.push) (by rw [comp]; simp) rfl).elim
    case alt bodies =>
      have hne : bodies ≠ [] := by
        simp [wfItem] at hwi
        intro hb; simp [hb] at hwi
      obtain ⟨a, ha, hra⟩ := compAlts_solid k bodies hne
      exact (solid (a := a) (by rw [comp]; simp [ha]) hra).elim

/-! ## running to the end of the frame -/

/-- **what compiler correctness asserts against the continuation semantics**: running from `pc` at cursor
`c` (save array `sv`, `ext_range = E`) to the end of the enclosing frame — which returns at `pcR` — behaves
as `res`, the documented result of the rest of the frame: on a match the frame returns `true` at the
documented cursor, has written the documented captures and left the slots below `k` alone; on a mismatch it
returns `false` and has left the slots below `k` alone. -/
def RunsK (S : ScanI) (U : List Atom) (k pc E c : Nat) (sv : Array Nat) (pcR : Nat) (res : Option (Nat × Caps)) : Prop :=
  match res with
  | some (c', w) => ∃ sv', execT S U ⟨pc, c, sv⟩ 0xff E = (true, ⟨pcR, c', sv'⟩) ∧
      SaveOK k sv sv' ∧ Writes w sv' ∧ c' < 4294967296
  | none => ∃ st', execT S U ⟨pc, c, sv⟩ 0xff E = (false, st') ∧ SaveOK k sv st'.save

section K
variable {S : ScanI} {U : List Atom}

theorem RunsK.of_eq {k pc E c : Nat} {sv : Array Nat} {pc' E' c' pcR : Nat} {res : Option (Nat × Caps)}
    (he : execT S U ⟨pc, c, sv⟩ 0xff E = execT S U ⟨pc', c', sv⟩ 0xff E')
    (h : RunsK S U k pc' E' c' sv pcR res) : RunsK S U k pc E c sv pcR res := by
  cases res with
  | none =>
    obtain ⟨st', h1, h2⟩ := h
    exact ⟨st', he.trans h1, h2⟩
  | some r =>
    obtain ⟨c2, w⟩ := r
    obtain ⟨sv', h1, h2, h3, h4⟩ := h
    exact ⟨sv', he.trans h1, h2, h3, h4⟩

theorem RunsK.mono {k k' pc E c : Nat} {sv : Array Nat} {pcR : Nat} {res : Option (Nat × Caps)}
    (h : RunsK S U k' pc E c sv pcR res) (hk : k ≤ k') : RunsK S U k pc E c sv pcR res := by
  cases res with
  | none =>
    obtain ⟨st', h1, h2⟩ := h
    exact ⟨st', h1, h2.mono hk⟩
  | some r =>
    obtain ⟨c2, w⟩ := r
    obtain ⟨sv', h1, h2, h3, h4⟩ := h
    exact ⟨sv', h1, h2.mono hk, h3, h4⟩

/-- the frame ends here -/
theorem RunsK.done {k pc c : Nat} {sv : Array Nat} {pcR : Nat} (hterm : IsTerm S U pc pcR) (hc : c < 4294967296) :
    RunsK S U k pc 0 c sv pcR (Kont.done c) :=
  ⟨sv, hterm c sv, SaveOK.refl _ _, Writes.nil _, hc⟩

/-- a part that `Runs`, then the rest of the frame -/
theorem RunsK.seq {k k1 pc len1 E c : Nat} {sv : Array Nat} {pcR : Nat} {resIt : Option (Nat × Caps)} {res2 : Nat → Option (Nat × Caps)}
    (h1 : Runs S U k pc len1 E c sv resIt) (hk : k ≤ k1)
    (hs1 : ∀ c1 w1, resIt = some (c1, w1) → SlotsIn w1 k k1)
    (h2 : ∀ c1 w1, resIt = some (c1, w1) → ∀ sv1, c1 < 4294967296 → RunsK S U k1 (pc + len1) 0 c1 sv1 pcR (res2 c1)) :
    RunsK S U k pc E c sv pcR (bindK resIt res2) := by
  cases resIt with
  | none => exact h1
  | some x =>
    obtain ⟨c1, w1⟩ := x
    obtain ⟨sv1, he1, ho1, hw1, hc1⟩ := h1
    have h2 := h2 c1 w1 rfl sv1 hc1
    have hs1 := hs1 c1 w1 rfl
    simp only [bindK]
    cases hres : res2 c1 with
    | none =>
      rw [hres] at h2
      obtain ⟨st', he2, ho2⟩ := h2
      exact ⟨st', he1.trans he2, ho1.trans ho2 hk⟩
    | some r =>
      obtain ⟨c2, w2⟩ := r
      rw [hres] at h2
      obtain ⟨sv2, he2, ho2, hw2, hc2⟩ := h2
      exact ⟨sv2, he1.trans he2, ho1.trans ho2 hk, Writes.append hw1 hs1 ho2 hw2, hc2⟩

end K

/-! ## compiler correctness, case by case -/

/-- the statement for a sequence: `e` says that the sequence ends where the kept code ends -/
def SeqOK (S : ScanI) (F U : List Atom) (n : Nat) (items : List Item) : Prop :=
  ∀ (k d : Nat) (pend : Option Nat) (E pc c : Nat) (sv : Array Nat) (pcR : Nat) (e : Bool) (κ : Kont),
    wfItems d items = true → At F pc (comp k pend items) → PendGood pend E → c < 4294967296 →
    (e = true ↔ n ≤ pc + (comp k pend items).length) →
    (∀ c1 sv1, c1 < 4294967296 →
      RunsK S U (slotsItems k items) (pc + (comp k pend items).length) 0 c1 sv1 pcR (κ c1)) →
    RunsK S U k pc E c sv pcR (semI S k (dropTrailing e items) (cur pend E c) κ)

/-- the statement for the alternatives of a `( | )` -/
def AltsOK (S : ScanI) (F U : List Atom) (n : Nat) (bodies : List (List Item)) : Prop :=
  ∀ (k d pc c : Nat) (sv : Array Nat) (pcR : Nat) (e : Bool) (κ : Kont), bodies ≠ [] →
    wfAlts d bodies = true → At F pc (compAlts k bodies) → c < 4294967296 →
    (e = true ↔ n ≤ pc + (compAlts k bodies).length) →
    (∀ c1 sv1, c1 < 4294967296 →
      RunsK S U (slotsAlts k bodies) (pc + (compAlts k bodies).length) 0 c1 sv1 pcR (κ c1)) →
    RunsK S U k pc 0 c sv pcR (semAltsI S k (dropTrailingAlts e bodies) c κ)

theorem flush_noMany (pend : Option Nat) : ∀ a ∈ flush pend, isMany a = false := by
  cases pend <;> simp [flush, isMany]

theorem rangext_noMany (m : Nat) : ∀ a ∈ rangext m, isMany a = false := by
  unfold rangext; split <;> simp [isMany]

section Main
variable {S : ScanI} (hS : S.WF) {F U : List Atom} {n : Nat} (hcut : Cut F U n)
include hS

/-- pending skip, a part that `Runs`, then the rest of the frame -/
theorem step_caseK {k k' : Nat} {pend : Option Nat} {E pc c : Nat} {sv : Array Nat} {pcR : Nat}
    {len : Nat} {resIt : Option (Nat × Caps)} {res2 : Nat → Option (Nat × Caps)}
    (hAf : At U pc (flush pend)) (hg : PendGood pend E) (hk : k ≤ k')
    (hit : Runs S U k (pc + (flush pend).length) len 0 (cur pend E c) sv resIt)
    (hsl : ∀ c1 w1, resIt = some (c1, w1) → SlotsIn w1 k k')
    (hr : ∀ c1 sv1, c1 < 4294967296 → RunsK S U k' (pc + (flush pend).length + len) 0 c1 sv1 pcR (res2 c1)) :
    RunsK S U k pc E c sv pcR (bindK resIt res2) :=
  RunsK.of_eq (run_flush hS hAf hg) (RunsK.seq hit hk hsl (fun c1 _ _ sv1 hc1 => hr c1 sv1 hc1))

include hcut

theorem seqOK_nil : SeqOK S F U n [] := by
  intro k d pend E pc c sv pcR e κ _ hA hg hc _ hκ
  rw [comp] at hA hκ
  rw [dropTrailing, semI]
  exact RunsK.of_eq (run_flush hS (hcut.at hA (flush_noMany pend)) hg) (hκ _ sv (cur_lt hc))

/-- an item compiled to one non-control atom -/
theorem simple_caseK {it : Item} {r : List Item} {a : Nat → Atom} (hp : plain it = true)
    (h : ∀ k, simpleAtom k it = some (a k)) (hm : ∀ k, isMany (a k) = false) (ih : SeqOK S F U n r) :
    SeqOK S F U n (it :: r) := by
  intro k d pend E pc c sv pcR e κ hwf hA hg hc he hκ
  have hcomp := comp_simple (h k) pend r
  rw [hcomp] at hA he hκ
  have hl : (flush pend ++ [a k] ++ comp (slotsItem k it) none r).length =
      (flush pend).length + 1 + (comp (slotsItem k it) none r).length := by
    simp only [List.length_append, List.length_cons, List.length_nil]
  rw [hl] at he hκ
  rw [dropTrailing_plain e r hp, semI_plain' S k _ _ κ hp]
  have hAf : At U pc (flush pend) := hcut.at hA.left.left (flush_noMany pend)
  have hat : U[pc + (flush pend).length]? = some (a k) := hcut.get hA.left.right.head (hm k)
  refine step_caseK hS hAf hg (slotsItem_le k it) (runs_simple hS (h k) (wf_cons hwf).1 hat (cur_lt hc))
    (fun c1 w1 h1 => semItem_slots S k it _ c1 w1 h1) ?_
  intro c1 sv1 hc1
  have := ih (slotsItem k it) d none 0 (pc + (flush pend).length + 1) c1 sv1 pcR e κ (wf_cons hwf).2
    (by simpa [Nat.add_assoc] using hA.right) rfl hc1 (by rw [he]; omega)
    (by intro c2 sv2 hc2; simp only [slotsItems] at hκ
        have := hκ c2 sv2 hc2
        rwa [show pc + ((flush pend).length + 1 + (comp (slotsItem k it) none r).length) =
          pc + (flush pend).length + 1 + (comp (slotsItem k it) none r).length by omega] at this)
  exact this

omit hS hcut in
theorem isMany_readAtom (sg : Bool) (w k : Nat) : isMany (readAtom sg w k) = false := by
  unfold readAtom; split <;> rfl

omit hS hcut in
/-- items that neither emit an atom nor move the cursor -/
theorem silent_caseK {it : Item} {r : List Item} (hp : plain it = true)
    (hcomp : ∀ k pend, comp k pend (it :: r) = comp k pend r)
    (hsem : ∀ k c, c < 4294967296 → semItem S k it c = some (c, [])) (hsl : ∀ k, slotsItem k it = k)
    (ih : SeqOK S F U n r) : SeqOK S F U n (it :: r) := by
  intro k d pend E pc c sv pcR e κ hwf hA hg hc he hκ
  rw [hcomp] at hA he hκ
  rw [dropTrailing_plain e r hp, semI_plain' S k _ _ κ hp, hsem k _ (cur_lt hc)]
  simp only [bindK, addCaps_nil, hsl]
  simp only [slotsItems, hsl] at hκ
  exact ih k d pend E pc c sv pcR e κ (wf_cons hwf).2 hA hg hc he hκ

theorem seqOK_plain {it : Item} {r : List Item} (hp : plain it = true) (ih : SeqOK S F U n r) :
    SeqOK S F U n (it :: r) := by
  cases it
  case range a b => simp [plain] at hp
  case group j gap body => simp [plain] at hp
  case alt bodies => simp [plain] at hp
  case byte b => exact simple_caseK hS hcut (a := fun _ => .byte b) rfl (fun _ => rfl) (fun _ => rfl) ih
  case jump j => exact simple_caseK hS hcut (a := fun _ => j.atom) rfl (fun _ => rfl) (fun _ => by cases j <;> rfl) ih
  case save => exact simple_caseK hS hcut (a := fun k => .save k) rfl (fun _ => rfl) (fun _ => rfl) ih
  case aligned m => exact simple_caseK hS hcut (a := fun _ => .aligned m) rfl (fun _ => rfl) (fun _ => rfl) ih
  case readI w => exact simple_caseK hS hcut (a := fun k => readAtom true w k) rfl (fun _ => rfl) (fun _ => isMany_readAtom _ _ _) ih
  case readU w => exact simple_caseK hS hcut (a := fun k => readAtom false w k) rfl (fun _ => rfl) (fun _ => isMany_readAtom _ _ _) ih
  case zero => exact simple_caseK hS hcut (a := fun k => .zero k) rfl (fun _ => rfl) (fun _ => rfl) ih
  case ws s =>
    exact silent_caseK rfl (fun k pend => by rw [comp]) (fun k c _ => by simp [semItem]) (fun k => rfl) ih
  case str bs =>
    by_cases hbs : bs = []
    · subst hbs
      exact silent_caseK rfl (fun k pend => by rw [comp]; simp) (fun k c _ => by simp [semItem, matchBytes])
        (fun k => rfl) ih
    · intro k d pend E pc c sv pcR e κ hwf hA hg hc he hκ
      have hcomp : comp k pend (.str bs :: r) =
          flush pend ++ (bs.map UInt8.toNat).map Atom.byte ++ comp k none r := by
        rw [comp]; simp [hbs, List.map_map, Function.comp_def]
      rw [hcomp] at hA he hκ
      have hl : (flush pend ++ (bs.map UInt8.toNat).map Atom.byte ++ comp k none r).length =
          (flush pend).length + (bs.map UInt8.toNat).length + (comp k none r).length := by
        simp only [List.length_append, List.length_map]
      rw [hl] at he hκ
      rw [dropTrailing_plain e r rfl, semI_plain' S k _ _ κ rfl]
      have hnm : ∀ a ∈ (bs.map UInt8.toNat).map Atom.byte, isMany a = false := by
        intro a ha; obtain ⟨x, _, rfl⟩ := List.mem_map.1 ha; rfl
      have hAf : At U pc (flush pend) := hcut.at hA.left.left (flush_noMany pend)
      have hAb : At U (pc + (flush pend).length) ((bs.map UInt8.toNat).map Atom.byte) := hcut.at hA.left.right hnm
      have hrun := run_bytes hS (U := U) k (bs.map UInt8.toNat) (pc + (flush pend).length) (cur pend E c) sv
        hAb (by intro b hb; obtain ⟨x, _, rfl⟩ := List.mem_map.1 hb; exact x.toNat_lt) (cur_lt hc)
      have hsi : semItem S k (.str bs) (cur pend E c) = (matchBytes S (bs.map UInt8.toNat) (cur pend E c)).map (·, []) := by
        simp [semItem]
      rw [hsi]
      refine step_caseK hS hAf hg (Nat.le_refl _) hrun ?_ ?_
      · intro c1 w1 h1
        simp only [Option.map_eq_some_iff, Prod.mk.injEq] at h1
        obtain ⟨_, _, _, rfl⟩ := h1
        exact SlotsIn.nil _ _
      · intro c1 sv1 hc1
        simp only [slotsItems, slotsItem] at hκ ⊢
        exact ih k d none 0 _ c1 sv1 pcR e κ (wf_cons hwf).2
          (by simpa [Nat.add_assoc] using hA.right) rfl hc1 (by rw [he]; simp only [List.length_map]; omega)
          (by intro c2 sv2 hc2
              have := hκ c2 sv2 hc2
              simp only [List.length_map] at this ⊢
              rwa [show pc + ((flush pend).length + bs.length + (comp k none r).length) =
                pc + (flush pend).length + bs.length + (comp k none r).length by omega] at this)
  case any =>
    intro k d pend E pc c sv pcR e κ hwf hA hg hc he hκ
    rw [dropTrailing_plain e r rfl, semI_plain' S k _ _ κ rfl]
    simp only [semItem, bindK, addCaps_nil, slotsItem, addRva_eq_wadd32]
    simp only [slotsItems, slotsItem] at hκ
    cases pend with
    | none =>
      have hcomp : comp k none (.any :: r) = comp k (some 1) r := by rw [comp]
      rw [hcomp] at hA he hκ
      simp only [PendGood] at hg
      subst hg
      have := ih k d (some 1) 0 pc c sv pcR e κ (wf_cons hwf).2 hA (by simp [PendGood]) hc he hκ
      simpa [cur] using this
    | some m =>
      by_cases hm : m ≠ 0 ∧ m < 255
      · have hcomp : comp k (some m) (.any :: r) = comp k (some (m + 1)) r := by rw [comp]; simp [hm]
        rw [hcomp] at hA he hκ
        have := ih k d (some (m + 1)) E pc c sv pcR e κ (wf_cons hwf).2 hA
          (by simp only [PendGood]; omega) hc he hκ
        simpa [cur, wadd32_wadd32, Nat.add_assoc] using this
      · have hcomp : comp k (some m) (.any :: r) = .skip m :: comp k (some 1) r := by rw [comp]; simp [hm]
        rw [hcomp] at hA he hκ
        have hAf : At U pc (flush (some m)) := by
          refine hcut.at (code := flush (some m)) ?_ (flush_noMany _)
          intro i a ha; exact hA i a (by cases i <;> simp_all [flush])
        have h1 := run_flush hS (pend := some m) (E := E) (c := c) (sv := sv) (pc := pc) hAf hg
        have := ih k d (some 1) 0 (pc + 1) (cur (some m) E c) sv pcR e κ (wf_cons hwf).2
          hA.tail (by simp [PendGood]) (cur_lt hc)
          (by rw [he]; simp only [List.length_cons]; omega)
          (by intro c2 sv2 hc2
              have := hκ c2 sv2 hc2
              simp only [List.length_cons] at this
              rwa [show pc + ((comp k (some 1) r).length + 1) = pc + 1 + (comp k (some 1) r).length by omega] at this)
        have h2 : cur (some 1) 0 (cur (some m) E c) = wadd32 (cur (some m) E c) 1 := by simp [cur]
        rw [h2] at this
        exact RunsK.of_eq h1 this
  case skip m =>
    intro k d pend E pc c sv pcR e κ hwf hA hg hc he hκ
    rw [dropTrailing_plain e r rfl, semI_plain' S k _ _ κ rfl]
    simp only [semItem, bindK, addCaps_nil, slotsItem, addRva_eq_wadd32]
    simp only [slotsItems, slotsItem] at hκ
    by_cases hm : m = 0
    · subst hm
      have hcomp : comp k pend (.skip 0 :: r) = comp k pend r := by rw [comp]; simp
      rw [hcomp] at hA he hκ
      rw [wadd32_zero (cur_lt hc)]
      exact ih k d pend E pc c sv pcR e κ (wf_cons hwf).2 hA hg hc he hκ
    · have hcomp : comp k pend (.skip m :: r) = flush pend ++ rangext m ++ comp k (some (m % 256)) r := by
        rw [comp]; simp [hm]
      rw [hcomp] at hA he hκ
      have hl : (flush pend ++ rangext m ++ comp k (some (m % 256)) r).length =
          (flush pend).length + (rangext m).length + (comp k (some (m % 256)) r).length := by
        simp only [List.length_append]
      rw [hl] at he hκ
      have h1 := run_flush hS (E := E) (c := c) (sv := sv) (hcut.at hA.left.left (flush_noMany pend)) hg
      have h2 := run_rangext hS (c := cur pend E c) (sv := sv) (hcut.at hA.left.right (rangext_noMany m))
      have := ih k d (some (m % 256)) (m / 256 * 256) (pc + (flush pend).length + (rangext m).length)
        (cur pend E c) sv pcR e κ (wf_cons hwf).2 (by simpa [Nat.add_assoc] using hA.right)
        (by simp only [PendGood]; omega) (cur_lt hc) (by rw [he]; omega)
        (by intro c2 sv2 hc2
            have := hκ c2 sv2 hc2
            rwa [show pc + ((flush pend).length + (rangext m).length + (comp k (some (m % 256)) r).length) =
              pc + (flush pend).length + (rangext m).length + (comp k (some (m % 256)) r).length by omega] at this)
      have h3 : cur (some (m % 256)) (m / 256 * 256) (cur pend E c) = wadd32 (cur pend E c) m := by
        simp only [cur]; congr 1; omega
      rw [h3] at this
      exact RunsK.of_eq (h1.trans h2) this

end Main

section Range
variable {S : ScanI} (hS : S.WF) {F U : List Atom} {n : Nat} (hcut : Cut F U n)
  (hB : ∀ b, Atom.byte b ∈ U → b < 256) (hC : Coherent S)
include hS hB

/-- `exec_many`'s loop (with the `memchr` shortcut) finds the first candidate at which the rest of the
FRAME matches -/
theorem manyT_runsK {k pcM pcR cursor off : Nat} {f : Nat → Option (Nat × Caps)}
    (hr : ∀ c1 sv1, c1 < 4294967296 → RunsK S U k pcM 0 c1 sv1 pcR (f c1)) :
    ∀ (m i : Nat) (st0 : St),
      (∀ j, i ≤ j → j < i + m → S.read 1 (wadd32 cursor j) = some (byteAt S.mem (off + j))) →
      match firstSome (fun j => f (wadd32 cursor j)) m i with
      | some (c', w) => ∃ sv', manyT S.mem (fun s => execT S U s 0xff 0) cursor pcM off (peekByte (U.drop pcM)) m i st0
            = (true, ⟨pcR, c', sv'⟩) ∧ SaveOK k st0.save sv' ∧ Writes w sv' ∧ c' < 4294967296
      | none => ∃ st', manyT S.mem (fun s => execT S U s 0xff 0) cursor pcM off (peekByte (U.drop pcM)) m i st0
            = (false, st') ∧ SaveOK k st0.save st'.save := by
  intro m
  induction m with
  | zero => intro i st0 _; exact ⟨st0, rfl, SaveOK.refl _ _⟩
  | succ m ih =>
    intro i st0 hcoh
    have hrun := hr (wadd32 cursor i) st0.save (wadd32_lt _ _)
    have hcoh' : ∀ j, i + 1 ≤ j → j < i + 1 + m → S.read 1 (wadd32 cursor j) = some (byteAt S.mem (off + j)) :=
      fun j h1 h2 => hcoh j (by omega) (by omega)
    simp only [firstSome, manyT]
    cases hpk : peekOk (peekByte (U.drop pcM)) (byteAt S.mem (off + i)) with
    | true =>
      simp only [if_true]
      have hst : ({ st0 with cursor := wadd32 cursor i, pc := pcM } : St) = ⟨pcM, wadd32 cursor i, st0.save⟩ := rfl
      rw [hst]
      cases hs : f (wadd32 cursor i) with
      | none =>
        rw [hs] at hrun
        obtain ⟨st', he, hok⟩ := hrun
        simp only [he]
        have := ih (i + 1) st' hcoh'
        cases hf : firstSome (fun j => f (wadd32 cursor j)) m (i + 1) with
        | none =>
          rw [hf] at this
          obtain ⟨st2, h1, h2⟩ := this
          exact ⟨st2, h1, hok.trans h2 (Nat.le_refl _)⟩
        | some x =>
          obtain ⟨c', w⟩ := x
          rw [hf] at this
          obtain ⟨sv2, h1, h2, h3, h4⟩ := this
          exact ⟨sv2, h1, hok.trans h2 (Nat.le_refl _), h3, h4⟩
      | some x =>
        obtain ⟨c', w⟩ := x
        rw [hs] at hrun
        obtain ⟨sv', he, hok, hw, hc'⟩ := hrun
        simp only [he]
        exact ⟨sv', rfl, hok, hw, hc'⟩
    | false =>
      simp only [Bool.false_eq_true, if_false]
      obtain ⟨b, hb, hne⟩ := peekOk_false hpk
      have hrd : S.read 1 (wadd32 cursor i) ≠ some b := by
        rw [hcoh i (Nat.le_refl _) (by omega)]
        intro h; exact hne (Option.some.inj h)
      have hfail := peek_fail hS hB hrd _ pcM st0.save rfl hb
      have hs : f (wadd32 cursor i) = none := by
        cases hs : f (wadd32 cursor i) with
        | none => rfl
        | some x =>
          obtain ⟨c', w⟩ := x
          rw [hs] at hrun
          obtain ⟨sv', he, _⟩ := hrun
          rw [he] at hfail
          cases hfail
      simp only [hs]
      exact ih (i + 1) st0 hcoh'

include hcut hC

theorem seqOK_range {a b : Nat} {r : List Item} (ih : SeqOK S F U n r) : SeqOK S F U n (.range a b :: r) := by
  intro k d pend E pc c sv pcR e κ hwf hA hg hc he hκ
  have hab : a < b := by
    have := (wf_cons hwf).1
    simp [wfItem] at this; exact this.1
  have hc0 : cur pend E c < 4294967296 := cur_lt hc
  generalize hc0' : cur pend E c = c0 at hc0
  let lo := if a = 0 then flush pend else flush pend ++ rangext a ++ [Atom.skip (a % 256)]
  have hlo_nm : ∀ x ∈ lo, isMany x = false := by
    intro x hx
    simp only [lo] at hx
    split at hx
    · exact flush_noMany _ x hx
    · rcases List.mem_append.1 hx with hx | hx
      · rcases List.mem_append.1 hx with hx | hx
        · exact flush_noMany _ x hx
        · exact rangext_noMany _ x hx
      · simp only [List.mem_singleton] at hx; subst hx; rfl
  have hcomp := comp_range k pend a b r
  rw [hcomp] at hA he hκ
  have hAF : At F pc (lo ++ (rangext (b - a) ++ .many ((b - a) % 256) :: comp k none r)) := by
    rw [← List.append_assoc]; exact hA
  have hAlo : At U pc lo := hcut.at hAF.left hlo_nm
  -- phase 1: the lower bound
  have h1 : execT S U ⟨pc, c, sv⟩ 0xff E = execT S U ⟨pc + lo.length, wadd32 c0 a, sv⟩ 0xff 0 := by
    by_cases ha : a = 0
    · have hlo : lo = flush pend := by simp [lo, ha]
      rw [hlo] at hAlo ⊢
      rw [ha, wadd32_zero hc0, ← hc0']
      exact run_flush hS hAlo hg
    · have hlo : lo = flush pend ++ rangext a ++ [Atom.skip (a % 256)] := by simp [lo, ha]
      rw [hlo] at hAlo ⊢
      rw [run_flush hS hAlo.left.left hg, hc0', run_rangext hS hAlo.left.right]
      have hp : U[pc + (flush pend).length + (rangext a).length]? = some (.skip (a % 256)) := by
        have := hAlo.right.head
        simpa [Nat.add_assoc] using this
      have hamt : skipAmt S (a / 256 * 256) (a % 256) = a := by
        unfold skipAmt
        have : a / 256 * 256 + a % 256 = a := by omega
        rw [this]; simp [ha]
      rw [execT_step_some hS (st := ⟨pc + (flush pend).length + (rangext a).length, c0, sv⟩) hp rfl
        (st' := ⟨pc + (flush pend).length + (rangext a).length + 1, wadd32 c0 a, sv⟩) (m' := 0xff) (e' := 0)
        (by simp only [step, hamt])]
      simp [Nat.add_assoc]
  -- phase 2: Rangext
  have hAmF : At F (pc + lo.length) (rangext (b - a) ++ .many ((b - a) % 256) :: comp k none r) := hAF.right
  have h2 := run_rangext hS (c := wadd32 c0 a) (sv := sv) (hcut.at hAmF.left (rangext_noMany _))
  have hpmF : F[pc + lo.length + (rangext (b - a)).length]? = some (.many ((b - a) % 256)) := hAmF.right.head
  have hArF : At F (pc + lo.length + (rangext (b - a)).length + 1) (comp k none r) := hAmF.right.tail
  have hlen : (lo ++ rangext (b - a) ++ Atom.many ((b - a) % 256) :: comp k none r).length =
      lo.length + (rangext (b - a)).length + 1 + (comp k none r).length := by
    simp only [List.length_append, List.length_cons]; omega
  rw [hlen] at he hκ
  -- the rest of the frame
  have hrr : ∀ c1 sv1, c1 < 4294967296 →
      RunsK S U k (pc + lo.length + (rangext (b - a)).length + 1) 0 c1 sv1 pcR (semI S k (dropTrailing e r) c1 κ) := by
    intro c1 sv1 hc1
    exact ih k d none 0 _ c1 sv1 pcR e κ (wf_cons hwf).2 hArF rfl hc1 (by rw [he]; omega)
      (by intro c2 sv2 hc2
          have := hκ c2 sv2 hc2
          simp only [slotsItems, slotsItem] at this
          rwa [show pc + (lo.length + (rangext (b - a)).length + 1 + (comp k none r).length) =
            pc + lo.length + (rangext (b - a)).length + 1 + (comp k none r).length by omega] at this)
  -- is the `Many` cut?
  have hiff : (e && r.all trailingItem) = true ↔ n ≤ pc + lo.length + (rangext (b - a)).length := by
    rw [Bool.and_eq_true]
    constructor
    · rintro ⟨h1, h2⟩
      have hn := he.1 h1
      refine hcut.le_of_red hAmF.right ?_ (by simp only [List.length_cons]; omega)
      intro x hx
      rcases List.mem_cons.1 hx with rfl | hx
      · rfl
      · exact comp_trailing r k none h2 x hx
    · intro hn
      refine ⟨he.2 (by omega), ?_⟩
      exact trailing_of_comp r d k none (wf_cons hwf).2 (hcut.red_of_le hArF (by omega))
  rw [dropTrailing_range]
  cases ht : (e && r.all trailingItem) with
  | true =>
    have hn := hiff.1 ht
    simp only [if_true]
    have hpm : U[pc + lo.length + (rangext (b - a)).length]? = some (.rangext 0) := by
      rw [hcut.exec _ _ hpmF]; simp [hn, deMany, isMany]
    rw [semI_plain' S k _ _ κ rfl]
    simp only [semItem, bindK, addCaps_nil, slotsItem, addRva_eq_wadd32]
    have h3 : execT S U ⟨pc + lo.length + (rangext (b - a)).length, wadd32 c0 a, sv⟩ 0xff ((b - a) / 256 * 256) =
        execT S U ⟨pc + lo.length + (rangext (b - a)).length + 1, wadd32 c0 a, sv⟩ 0xff 0 :=
      execT_step_some hS (st := ⟨pc + lo.length + (rangext (b - a)).length, wadd32 c0 a, sv⟩) hpm rfl
        (st' := ⟨pc + lo.length + (rangext (b - a)).length + 1, wadd32 c0 a, sv⟩) (m' := 0xff) (e' := 0) (by simp [step])
    exact RunsK.of_eq (h1.trans (h2.trans h3)) (hrr _ sv (wadd32_lt _ _))
  | false =>
    have hn : ¬ n ≤ pc + lo.length + (rangext (b - a)).length := by
      intro h; rw [hiff.2 h] at ht; cases ht
    simp only [Bool.false_eq_true, if_false]
    have hpm : U[pc + lo.length + (rangext (b - a)).length]? = some (.many ((b - a) % 256)) := by
      rw [hcut.exec _ _ hpmF]; simp [hn]
    have hlim : (b - a) / 256 * 256 + (b - a) % 256 = b - a := by omega
    rw [semI]
    simp only [addRva_eq_wadd32]
    have h3 := execT_many hS (st := ⟨pc + lo.length + (rangext (b - a)).length, wadd32 c0 a, sv⟩)
      (m := 0xff) (e := (b - a) / 256 * 256) hpm
    rw [hlim] at h3
    have hne : ¬ (b - a = 0) := by omega
    simp only [hne, if_false] at h3
    cases hsl : S.slice (wadd32 c0 a) with
    | none =>
      simp only [hsl] at h3 ⊢
      exact ⟨_, by rw [h1, h2, h3], SaveOK.refl _ _⟩
    | some ol =>
      obtain ⟨off, len⟩ := ol
      simp only [hsl] at h3 ⊢
      have hm := manyT_runsK hS hB (cursor := wadd32 c0 a) (off := off) hrr (min (b - a) len) 0
        ⟨pc + lo.length + (rangext (b - a)).length + 1, wadd32 c0 a, sv⟩
        (fun j _ hj => hC _ _ _ j hsl (by omega))
      cases hf : firstSome (fun i => semI S k (dropTrailing e r) (wadd32 (wadd32 c0 a) i) κ) (min (b - a) len) 0 with
      | none =>
        rw [hf] at hm
        obtain ⟨st', hm1, hm2⟩ := hm
        exact ⟨st', by rw [h1, h2, h3, hm1], hm2⟩
      | some x =>
        obtain ⟨c', w⟩ := x
        rw [hf] at hm
        obtain ⟨sv', hm1, hm2, hm3, hm4⟩ := hm
        exact ⟨sv', by rw [h1, h2, h3, hm1], hm2, hm3, hm4⟩

end Range

/-! ### braces -/

/-- the meaning of `j { body }` as a part of a sequence: the body is a frame of its own -/
def groupRes (S : ScanI) (k : Nat) (j : Jump) (body : List Item) (c : Nat) : Option (Nat × Caps) :=
  match j.target S c with
  | none => none
  | some t =>
    match semI S k body t Kont.done with
    | none => none
    | some (_, w) => some (addRva c (j.width S), w)

theorem semI_group_eq (S : ScanI) (k : Nat) (j : Jump) (gap : List UInt8) (body r : List Item) (c : Nat) (κ : Kont) :
    semI S k (.group j gap body :: r) c κ =
      bindK (groupRes S k j body c) (fun c1 => semI S (slotsItems k body) r c1 κ) := by
  rw [semI]
  unfold groupRes bindK
  cases j.target S c with
  | none => rfl
  | some t =>
    simp only
    cases semI S k body t Kont.done with
    | none => rfl
    | some x => rfl

/-- whether the kept code ends in front of `pos`, where redundant atoms `xs` and then the rest `r` of a
sequence follow -/
theorem cut_iff {F U : List Atom} {n : Nat} (hcut : Cut F U n) {e : Bool} {r : List Item} {k' d pos : Nat}
    {xs : List Atom} (hxs : ∀ x ∈ xs, redundant x = true) (hwf : wfItems d r = true)
    (hA : At F pos (xs ++ comp k' none r))
    (he : e = true ↔ n ≤ pos + xs.length + (comp k' none r).length) :
    (e && r.all trailingItem) = true ↔ n ≤ pos := by
  rw [Bool.and_eq_true]
  constructor
  · rintro ⟨h1, h2⟩
    have hn := he.1 h1
    refine hcut.le_of_red hA ?_ (by simp only [List.length_append]; omega)
    intro x hx
    rcases List.mem_append.1 hx with hx | hx
    · exact hxs x hx
    · exact comp_trailing r k' none h2 x hx
  · intro hn
    refine ⟨he.2 (by omega), ?_⟩
    exact trailing_of_comp r d k' none hwf (hcut.red_of_le hA.right (by omega))

section Group
variable {S : ScanI} (hS : S.WF) {F U : List Atom} {n : Nat} (hcut : Cut F U n)
include hS

/-- `Push, jump, body…, Pop` -/
theorem group_runsK {j : Jump} {body : List Item} {k pc c blen : Nat} {sv : Array Nat}
    (hpush : U[pc]? = some (.push j.push)) (hjmp : U[pc + 1]? = some j.atom) (hc : c < 4294967296)
    (hbody : ∀ t sv1, t < 4294967296 →
      RunsK S U k (pc + 2) 0 t sv1 (pc + 2 + blen + 1) (semI S k body t Kont.done)) :
    Runs S U k pc (2 + blen + 1) 0 c sv (groupRes S k j body c) := by
  have hjs := runs_simple hS (k := k) (d := 0) (it := .jump j) (a := j.atom) rfl rfl (sv := sv) hjmp hc
  simp only [semItem] at hjs
  unfold groupRes
  cases htg : j.target S c with
  | none =>
    rw [htg] at hjs
    obtain ⟨st', he, hok⟩ := hjs
    refine ⟨st', ?_, hok⟩
    rw [execT_push hS (st := ⟨pc, c, sv⟩) hpush]
    rw [he]
  | some t =>
    rw [htg] at hjs
    obtain ⟨sv0, he, hok0, _, ht⟩ := hjs
    have hb := hbody t sv0 ht
    cases hsb : semI S k body t Kont.done with
    | none =>
      rw [hsb] at hb
      obtain ⟨st', he2, hok2⟩ := hb
      simp only [hsb]
      refine ⟨st', ?_, hok0.trans hok2 (Nat.le_refl _)⟩
      rw [execT_push hS (st := ⟨pc, c, sv⟩) hpush]
      rw [he, show pc + 1 + 1 = pc + 2 by omega, he2]
    | some rb =>
      obtain ⟨cb, wb⟩ := rb
      rw [hsb] at hb
      obtain ⟨sv2, he2, hok2, hw2, _⟩ := hb
      simp only [hsb]
      refine ⟨sv2, ?_, hok0.trans hok2 (Nat.le_refl _), hw2, by simp only [addRva_eq_wadd32]; exact wadd32_lt _ _⟩
      rw [execT_push hS (st := ⟨pc, c, sv⟩) hpush]
      rw [he, show pc + 1 + 1 = pc + 2 by omega, he2]
      simp only [skipAmt_push, addRva_eq_wadd32, Nat.add_assoc]

include hcut

theorem seqOK_group {j : Jump} {gap : List UInt8} {body r : List Item} (ihb : SeqOK S F U n body)
    (ih : SeqOK S F U n r) : SeqOK S F U n (.group j gap body :: r) := by
  intro k d pend E pc c sv pcR e κ hwf hA hg hc he hκ
  have hcomp : comp k pend (.group j gap body :: r) =
      flush pend ++ (.push j.push :: j.atom :: (comp k none body ++ [.pop])) ++
        comp (slotsItems k body) none r := by
    rw [comp]; simp [List.append_assoc]
  have hwfb : wfItems (d + 1) body = true := by
    have := (wf_cons hwf).1
    simp [wfItem] at this; exact this.2
  rw [hcomp] at hA he hκ
  have hl : (flush pend ++ (Atom.push j.push :: j.atom :: (comp k none body ++ [Atom.pop])) ++
      comp (slotsItems k body) none r).length =
      (flush pend).length + (2 + (comp k none body).length + 1) + (comp (slotsItems k body) none r).length := by
    simp only [List.length_append, List.length_cons, List.length_nil]; omega
  rw [hl] at he hκ
  have hAc := hA.left.right
  have hAf : At U pc (flush pend) := hcut.at hA.left.left (flush_noMany pend)
  have hpush : U[pc + (flush pend).length]? = some (.push j.push) := hcut.get hAc.head rfl
  have hjmp : U[pc + (flush pend).length + 1]? = some j.atom := hcut.get hAc.tail.head (by cases j <;> rfl)
  have hpopF : F[pc + (flush pend).length + 2 + (comp k none body).length]? = some .pop := by
    have := hAc.tail.tail.right.head
    simpa [Nat.add_assoc] using this
  have hpop : U[pc + (flush pend).length + 2 + (comp k none body).length]? = some .pop := hcut.get hpopF rfl
  have hAbody : At F (pc + (flush pend).length + 2) (comp k none body) := by
    simpa [Nat.add_assoc] using hAc.tail.tail.left
  have hArest : At F (pc + (flush pend).length + 2 + (comp k none body).length + 1)
      (comp (slotsItems k body) none r) := by
    have := hA.right
    simp only [List.length_append, List.length_cons, List.length_nil] at this
    rwa [show pc + ((flush pend).length + ((comp k none body).length + 1 + 1 + 1)) =
      pc + (flush pend).length + 2 + (comp k none body).length + 1 by omega] at this
  have hApop : At F (pc + (flush pend).length + 2 + (comp k none body).length)
      ([Atom.pop] ++ comp (slotsItems k body) none r) := by
    intro i a ha
    cases i with
    | zero => simp only [List.cons_append, List.nil_append, List.getElem?_cons_zero] at ha; rw [← ha]; exact hpopF
    | succ i =>
      simp only [List.cons_append, List.nil_append, List.getElem?_cons_succ] at ha
      have := hArest i a ha
      rwa [show pc + (flush pend).length + 2 + (comp k none body).length + 1 + i =
        pc + (flush pend).length + 2 + (comp k none body).length + (i + 1) by omega] at this
  have heb := cut_iff hcut (e := e) (xs := [Atom.pop]) (by intro x hx; simp at hx; subst hx; rfl) (wf_cons hwf).2 hApop
    (by rw [he]; simp only [List.length_cons, List.length_nil]; omega)
  rw [dropTrailing_group, semI_group_eq, slots_dropTrailing]
  refine step_caseK hS hAf hg (slotsItems_le k body) (len := 2 + (comp k none body).length + 1)
    (group_runsK hS hpush hjmp (cur_lt hc) ?_) ?_ ?_
  · intro t sv1 ht
    have := ihb k (d + 1) none 0 (pc + (flush pend).length + 2) t sv1
      (pc + (flush pend).length + 2 + (comp k none body).length + 1) (e && r.all trailingItem) Kont.done hwfb hAbody rfl ht
      heb (fun c1 sv1 hc1 => RunsK.done (IsTerm.pop hS hpop) hc1)
    exact this
  · intro c1 w1 h1
    unfold groupRes at h1
    split at h1
    · cases h1
    · split at h1
      · cases h1
      · next t _ cb wb hb =>
        simp only [Option.some.injEq, Prod.mk.injEq] at h1
        obtain ⟨_, rfl⟩ := h1
        have := semI_done_slots S k _ _ _ _ hb
        rwa [slots_dropTrailing] at this
  · intro c1 sv1 hc1
    have := ih (slotsItems k body) d none 0 (pc + (flush pend).length + (2 + (comp k none body).length + 1)) c1 sv1 pcR e κ
      (wf_cons hwf).2 (by rwa [show pc + (flush pend).length + (2 + (comp k none body).length + 1) =
        pc + (flush pend).length + 2 + (comp k none body).length + 1 by omega]) rfl hc1 (by rw [he]; omega)
      (by intro c2 sv2 hc2
          have := hκ c2 sv2 hc2
          simp only [slotsItems, slotsItem] at this
          rwa [show pc + ((flush pend).length + (2 + (comp k none body).length + 1) + (comp (slotsItems k body) none r).length) =
            pc + (flush pend).length + (2 + (comp k none body).length + 1) + (comp (slotsItems k body) none r).length by omega] at this)
    exact this

end Group

/-! ### alternatives -/

theorem dropTrailingAlts_ne (e : Bool) : ∀ bodies : List (List Item), bodies ≠ [] → dropTrailingAlts e bodies ≠ []
  | [], h => absurd rfl h
  | [b], _ => by simp [dropTrailingAlts]
  | b :: b' :: bs, _ => by rw [dropTrailingAlts_cons2]; simp

theorem semAltsI_cons_ne (S : ScanI) (k : Nat) (b : List Item) {bs : List (List Item)} (h : bs ≠ []) (c : Nat) (κ : Kont) :
    semAltsI S k (b :: bs) c κ =
      match semI S k b c Kont.done with
      | some (c1, w1) => addCaps w1 (κ c1)
      | none => semAltsI S k bs c κ :=
  semAltsI.eq_3 S k c κ b bs (fun h' => h h')

section Alt
variable {S : ScanI} (hS : S.WF) {F U : List Atom} {n : Nat} (hcut : Cut F U n)
include hS hcut

theorem seqOK_alt {bodies : List (List Item)} {r : List Item} (ihb : AltsOK S F U n bodies)
    (ih : SeqOK S F U n r) : SeqOK S F U n (.alt bodies :: r) := by
  intro k d pend E pc c sv pcR e κ hwf hA hg hc he hκ
  have hcomp : comp k pend (.alt bodies :: r) =
      flush pend ++ compAlts k bodies ++ comp (slotsAlts k bodies) none r := by
    rw [comp]
  have hwfb : bodies ≠ [] ∧ wfAlts d bodies = true := by
    have := (wf_cons hwf).1
    simp [wfItem] at this
    exact ⟨by intro h; simp [h] at this, this.2⟩
  rw [hcomp] at hA he hκ
  have hl : (flush pend ++ compAlts k bodies ++ comp (slotsAlts k bodies) none r).length =
      (flush pend).length + (compAlts k bodies).length + (comp (slotsAlts k bodies) none r).length := by
    simp only [List.length_append]
  rw [hl] at he hκ
  have hAf : At U pc (flush pend) := hcut.at hA.left.left (flush_noMany pend)
  have hArest : At F (pc + (flush pend).length + (compAlts k bodies).length) (comp (slotsAlts k bodies) none r) := by
    simpa [Nat.add_assoc] using hA.right
  have heb := cut_iff hcut (e := e) (xs := []) (by intro x hx; cases hx) (wf_cons hwf).2
    (by simpa using hArest) (by rw [he]; simp only [List.length_nil]; omega)
  rw [dropTrailing_alt, semI, slots_dropTrailingAlts]
  refine RunsK.of_eq (run_flush hS hAf hg) ?_
  refine ihb k d _ _ sv pcR (e && r.all trailingItem) _ hwfb.1 hwfb.2 hA.left.right (cur_lt hc) heb ?_
  intro c1 sv1 hc1
  exact ih (slotsAlts k bodies) d none 0 _ c1 sv1 pcR e κ (wf_cons hwf).2 hArest rfl hc1 (by rw [he]; omega)
    (by intro c2 sv2 hc2
        have := hκ c2 sv2 hc2
        simp only [slotsItems, slotsItem] at this
        rwa [show pc + ((flush pend).length + (compAlts k bodies).length + (comp (slotsAlts k bodies) none r).length) =
          pc + (flush pend).length + (compAlts k bodies).length + (comp (slotsAlts k bodies) none r).length by omega] at this)

omit hS hcut in
theorem altsOK_nil : AltsOK S F U n [] := by
  intro k d pc c sv pcR e κ hne
  exact absurd rfl hne

theorem altsOK_cons {b : List Item} {bs : List (List Item)} (ihb : SeqOK S F U n b) (ihbs : AltsOK S F U n bs) :
    AltsOK S F U n (b :: bs) := by
  intro k d pc c sv pcR e κ _ hwf hA hc he hκ
  cases bs with
  | nil =>
    have hwfb : wfItems d b = true := by simpa [wfAlts] using hwf
    simp only [compAlts, List.length_cons] at hA he hκ
    have hnop : U[pc]? = some .nop := hcut.get hA.head rfl
    have h1 : execT S U ⟨pc, c, sv⟩ 0xff 0 = execT S U ⟨pc + 1, c, sv⟩ 0xff 0 :=
      execT_step_some hS (st := ⟨pc, c, sv⟩) hnop rfl rfl
    simp only [dropTrailingAlts, semAltsI]
    refine RunsK.of_eq h1 ?_
    have hsl : slotsItems k b ≤ slotsAlts k [b] := by simp only [slotsAlts]; omega
    exact ihb k d none 0 (pc + 1) c sv pcR e κ hwfb hA.tail rfl hc (by rw [he]; omega)
      (by intro c2 sv2 hc2
          have := hκ c2 sv2 hc2
          rw [show pc + ((comp k none b).length + 1) = pc + 1 + (comp k none b).length by omega] at this
          exact this.mono hsl)
  | cons b' bs =>
    have hwfb : wfItems d b = true ∧ wfAlts d (b' :: bs) = true := by simpa [wfAlts] using hwf
    have hcomp : compAlts k (b :: b' :: bs) =
        .case ((comp k none b).length + 1) :: (comp k none b ++ .brk (compAlts k (b' :: bs)).length :: compAlts k (b' :: bs)) := by
      rw [compAlts]
      intro h; cases h
    rw [hcomp] at hA he hκ
    have hlen : (Atom.case ((comp k none b).length + 1) ::
        (comp k none b ++ Atom.brk (compAlts k (b' :: bs)).length :: compAlts k (b' :: bs))).length =
        1 + (comp k none b).length + 1 + (compAlts k (b' :: bs)).length := by
      simp only [List.length_cons, List.length_append]; omega
    rw [hlen] at he hκ
    have hcase : U[pc]? = some (.case ((comp k none b).length + 1)) := hcut.get hA.head rfl
    have hbrkF : F[pc + 1 + (comp k none b).length]? = some (.brk (compAlts k (b' :: bs)).length) := hA.tail.right.head
    have hbrk : U[pc + 1 + (comp k none b).length]? = some (.brk (compAlts k (b' :: bs)).length) := hcut.get hbrkF rfl
    have hArest : At F (pc + 1 + (comp k none b).length + 1) (compAlts k (b' :: bs)) := hA.tail.right.tail
    have hnb : (false = true) ↔ n ≤ pc + 1 + (comp k none b).length := by
      have := hcut.solid_lt hbrkF rfl
      constructor
      · intro h; cases h
      · intro h; omega
    have hb := ihb k d none 0 (pc + 1) c sv (pc + 1 + (comp k none b).length + 1 + (compAlts k (b' :: bs)).length)
      false Kont.done hwfb.1 hA.tail.left rfl hc hnb
      (fun c1 sv1 hc1 => RunsK.done (IsTerm.brk hS hbrk) hc1)
    rw [show cur none 0 c = c from rfl] at hb
    have hcs := execT_case hS (st := ⟨pc, c, sv⟩) (m := 0xff) (e := 0) hcase
    rw [dropTrailingAlts_cons2, semAltsI_cons_ne S k _ (dropTrailingAlts_ne e (b' :: bs) (by simp))]
    have hs1 : slotsItems k b ≤ slotsAlts k (b :: b' :: bs) := by rw [slotsAlts]; omega
    have hs2 : slotsAlts k (b' :: bs) ≤ slotsAlts k (b :: b' :: bs) := by
      rw [slotsAlts]; exact Nat.le_max_right _ _
    cases hs : semI S k (dropTrailing false b) c Kont.done with
    | some x =>
      obtain ⟨c1, w1⟩ := x
      rw [hs] at hb
      obtain ⟨sv1, he1, hok1, hw1, hc1⟩ := hb
      have hq1 := semI_done_slots S k _ _ _ _ hs
      rw [slots_dropTrailing] at hq1
      have hk2 := hκ c1 sv1 hc1
      rw [show pc + (1 + (comp k none b).length + 1 + (compAlts k (b' :: bs)).length) =
        pc + 1 + (comp k none b).length + 1 + (compAlts k (b' :: bs)).length by omega] at hk2
      have he0 : execT S U ⟨pc, c, sv⟩ 0xff 0 =
          execT S U ⟨pc + 1 + (comp k none b).length + 1 + (compAlts k (b' :: bs)).length, c1, sv1⟩ 0xff 0 := by
        rw [hcs, he1]
      simp only
      cases hk : κ c1 with
      | none =>
        rw [hk] at hk2
        obtain ⟨st', he2, hok2⟩ := hk2
        exact ⟨st', he0.trans he2, hok1.trans hok2 (Nat.le_trans (slotsItems_le k b) hs1)⟩
      | some y =>
        obtain ⟨c2, w2⟩ := y
        rw [hk] at hk2
        obtain ⟨sv2, he2, hok2, hw2, hc2⟩ := hk2
        exact ⟨sv2, he0.trans he2, hok1.trans hok2 (Nat.le_trans (slotsItems_le k b) hs1),
          Writes.append hw1 hq1 (hok2.mono hs1) hw2, hc2⟩
    | none =>
      rw [hs] at hb
      obtain ⟨st', he1, hok1⟩ := hb
      have ih := ihbs k d (pc + 1 + (comp k none b).length + 1) c st'.save pcR e κ (by simp) hwfb.2 hArest hc
        (by rw [he]; omega)
        (by intro c2 sv2 hc2
            have := hκ c2 sv2 hc2
            rw [show pc + (1 + (comp k none b).length + 1 + (compAlts k (b' :: bs)).length) =
              pc + 1 + (comp k none b).length + 1 + (compAlts k (b' :: bs)).length by omega] at this
            exact this.mono hs2)
      have he2 : execT S U ⟨pc, c, sv⟩ 0xff 0 =
          execT S U ⟨pc + 1 + (comp k none b).length + 1, c, st'.save⟩ 0xff 0 := by
        rw [hcs, he1]
        simp only [Nat.add_assoc]
      simp only
      cases hs2' : semAltsI S k (dropTrailingAlts e (b' :: bs)) c κ with
      | none =>
        rw [hs2'] at ih
        obtain ⟨st2, h1, h2⟩ := ih
        exact ⟨st2, he2.trans h1, hok1.trans h2 (Nat.le_refl _)⟩
      | some y =>
        obtain ⟨c2, w2⟩ := y
        rw [hs2'] at ih
        obtain ⟨sv2, h1, h2, h3, h4⟩ := ih
        exact ⟨sv2, he2.trans h1, hok1.trans h2 (Nat.le_refl _), h3, h4⟩

end Alt

/-! ### every sequence -/

/-- **compiler correctness against the continuation semantics**, for every sequence of items -/
theorem comp_runsK {S : ScanI} (hS : S.WF) {F U : List Atom} {n : Nat} (hcut : Cut F U n)
    (hB : ∀ b, Atom.byte b ∈ U → b < 256) (hC : Coherent S) : ∀ items : List Item, SeqOK S F U n items := by
  apply seqInd (P := SeqOK S F U n) (Q := AltsOK S F U n)
  · exact seqOK_nil hS hcut
  · intro it r hp ih; exact seqOK_plain hS hcut hp ih
  · intro a b r ih; exact seqOK_range hS hcut hB hC ih
  · intro j gap body r ihb ih; exact seqOK_group hS hcut ihb ih
  · intro bodies r ihb ih; exact seqOK_alt hS hcut ihb ih
  · exact altsOK_nil
  · intro b bs ihb ihbs; exact altsOK_cons hS hcut ihb ihbs

end Pelite.PatSem
