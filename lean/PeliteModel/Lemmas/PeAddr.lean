import PeliteModel.Spec.Pe
/-! Helper lemmas (property theorems live in Thm/). -/
namespace Pelite.Pe

/-! ### primitives -/

theorem cadd32_isNone (a b : Nat) : (cadd32 a b).isNone = true ↔ 4294967296 ≤ a + b := by
  unfold cadd32
  split <;> simp <;> omega

theorem firstV_nil (rva : Nat) : firstV [] rva = none := rfl
theorem firstF_nil (fo : Nat) : firstF [] fo = none := rfl

theorem firstV_cons (s : Sec) (rest : List Sec) (rva : Nat) :
    firstV (s :: rest) rva = if s.containsRva rva = true then some s else firstV rest rva := by
  unfold firstV
  rw [List.find?_cons]
  cases s.containsRva rva <;> rfl

theorem firstF_cons (s : Sec) (rest : List Sec) (fo : Nat) :
    firstF (s :: rest) fo = if s.containsOff fo = true then some s else firstF rest fo := by
  unfold firstF
  rw [List.find?_cons]
  cases s.containsOff fo <;> rfl

theorem containsRva_iff (s : Sec) (rva : Nat) :
    s.containsRva rva = true ↔ s.va ≤ rva ∧ rva < wadd32 s.va (max s.vs s.rs) := by
  simp [Sec.containsRva, wadd32]

theorem containsOff_iff (s : Sec) (fo : Nat) :
    s.containsOff fo = true ↔ s.prd ≤ fo ∧ fo < wadd32 s.prd s.rs := by
  simp [Sec.containsOff, wadd32]

theorem firstV_some {secs : List Sec} {rva : Nat} {s : Sec} (h : firstV secs rva = some s) :
    s ∈ secs ∧ s.containsRva rva = true := by
  unfold firstV at h
  exact ⟨List.mem_of_find?_eq_some h, by simpa using List.find?_some h⟩

theorem firstF_some {secs : List Sec} {fo : Nat} {s : Sec} (h : firstF secs fo = some s) :
    s ∈ secs ∧ s.containsOff fo = true := by
  unfold firstF at h
  exact ⟨List.mem_of_find?_eq_some h, by simpa using List.find?_some h⟩

/-- With `u32` fields a virtual extent that contains something does not wrap. -/
theorem containsRva_nowrap {s : Sec} (hs : s.InRange) {rva : Nat} (h : s.containsRva rva = true) :
    s.va ≤ rva ∧ rva < s.va + max s.vs s.rs ∧ s.va + max s.vs s.rs < 4294967296 := by
  obtain ⟨h1, h2, h3, h4⟩ := hs
  simp only [Sec.containsRva, Bool.and_eq_true, decide_eq_true_eq] at h
  omega

theorem containsOff_nowrap {s : Sec} (hs : s.InRange) {fo : Nat} (h : s.containsOff fo = true) :
    s.prd ≤ fo ∧ fo < s.prd + s.rs ∧ s.prd + s.rs < 4294967296 := by
  obtain ⟨h1, h2, h3, h4⟩ := hs
  simp only [Sec.containsOff, Bool.and_eq_true, decide_eq_true_eq] at h
  omega

/-! ### the two conversion loops -/

theorem r2fSecs_eq_spec (secs : List Sec) (rva : Nat) : r2fSecs secs rva = specR2F secs rva := by
  induction secs with
  | nil => rfl
  | cons s rest ih =>
    unfold r2fSecs specR2F
    rw [firstV_cons]
    simp only [← containsRva_iff]
    by_cases hc : s.containsRva rva = true
    · simp only [hc, if_true]
      by_cases ho : 4294967296 ≤ s.prd + s.rs
      · simp [(cadd32_isNone _ _).2 ho, ho]
      · have : ¬ (cadd32 s.prd s.rs).isNone = true := fun h => ho ((cadd32_isNone _ _).1 h)
        simp [this, ho, Nat.add_comm (rva - s.va) s.prd]
    · simp only [hc]
      rw [ih]; rfl

theorem f2rSecs_eq_spec (secs : List Sec) (fo : Nat) : f2rSecs secs fo = specF2R secs fo := by
  induction secs with
  | nil => rfl
  | cons s rest ih =>
    unfold f2rSecs specF2R
    rw [firstF_cons]
    simp only [← containsOff_iff]
    by_cases hc : s.containsOff fo = true
    · simp only [hc, if_true]
      by_cases ho : 4294967296 ≤ s.va + s.vs
      · simp [(cadd32_isNone _ _).2 ho, ho]
      · have : ¬ (cadd32 s.va s.vs).isNone = true := fun h => ho ((cadd32_isNone _ _).1 h)
        simp [this, ho, Nat.add_comm (fo - s.prd) s.va]
    · simp only [hc]
      rw [ih]; rfl

/-! ### `range_file` / `slice_file` -/

/-- what `range_file` answers once the section is chosen -/
def rangeOne (size : Nat) (s : Sec) (rva min : Nat) : Out (Nat × Nat) :=
  let vend := wadd32 s.va (max s.vs s.rs)
  let stop := wadd32 s.prd s.rs
  if s.prd ≤ stop ∧ stop ≤ size then
    let so := rva - s.va
    let slen := stop - s.prd
    if so < slen ∧ slen - so ≥ min then .ok (s.prd + so, slen - so)
    else if min > vend - rva then .err .bounds else .err .zeroFill
  else .err .invalid

theorem rangeFile_eq (size : Nat) (secs : List Sec) (rva min : Nat) :
    rangeFile size secs rva min =
      match firstV secs rva with
      | none => .err .bounds
      | some s => rangeOne size s rva min := by
  induction secs with
  | nil => rfl
  | cons s rest ih =>
    unfold rangeFile
    rw [firstV_cons]
    simp only [← containsRva_iff]
    by_cases hc : s.containsRva rva = true
    · simp only [hc, if_true]; rfl
    · simp only [hc]
      rw [ih]; rfl

/-- with `u32` fields, `image.get(prd .. prd.wrapping_add(rs))` succeeds iff the raw range does not
wrap and ends inside the buffer -/
theorem rawRange_ok_iff {s : Sec} (hs : s.InRange) (size : Nat) :
    (s.prd ≤ wadd32 s.prd s.rs ∧ wadd32 s.prd s.rs ≤ size) ↔
      (s.prd + s.rs < 4294967296 ∧ s.prd + s.rs ≤ size) := by
  obtain ⟨h1, h2, h3, h4⟩ := hs
  unfold wadd32
  omega

theorem rangeOne_nowrap {s : Sec} {size : Nat} (h1 : s.prd + s.rs < 4294967296)
    (h2 : s.prd + s.rs ≤ size) (rva min : Nat) :
    rangeOne size s rva min =
      if rva - s.va < s.rs ∧ min ≤ s.rs - (rva - s.va) then .ok (s.prd + (rva - s.va), s.rs - (rva - s.va))
      else if min > wadd32 s.va (max s.vs s.rs) - rva then .err .bounds else .err .zeroFill := by
  have hw : wadd32 s.prd s.rs = s.prd + s.rs := by unfold wadd32; omega
  unfold rangeOne
  simp only [hw, Nat.le_add_right, h2, and_self, if_true, Nat.add_sub_cancel_left, ge_iff_le]

theorem rangeOne_ok_iff {s : Sec} (hs : s.InRange) (size rva min o l : Nat) :
    rangeOne size s rva min = .ok (o, l) ↔
      s.prd + s.rs < 4294967296 ∧ s.prd + s.rs ≤ size ∧ rva - s.va < s.rs ∧
      min ≤ s.rs - (rva - s.va) ∧ o = s.prd + (rva - s.va) ∧ l = s.rs - (rva - s.va) := by
  by_cases hr : s.prd + s.rs < 4294967296 ∧ s.prd + s.rs ≤ size
  · rw [rangeOne_nowrap hr.1 hr.2]
    by_cases hc : rva - s.va < s.rs ∧ min ≤ s.rs - (rva - s.va)
    · simp only [hc, and_self, if_true, Out.ok.injEq, Prod.mk.injEq, hr, true_and]
      constructor
      · rintro ⟨rfl, rfl⟩; exact ⟨rfl, rfl⟩
      · rintro ⟨rfl, rfl⟩; exact ⟨rfl, rfl⟩
    · simp only [hc, if_false]
      constructor
      · intro h; split at h <;> cases h
      · intro h; exact absurd ⟨h.2.2.1, h.2.2.2.1⟩ hc
  · have hr' := hr
    rw [← rawRange_ok_iff hs] at hr'
    unfold rangeOne
    simp only [hr', if_false]
    constructor
    · intro h; cases h
    · intro h; exact absurd ⟨h.1, h.2.1⟩ hr

theorem alignedTo_eq (site : String) (addr align : Nat) :
    alignedTo site addr align = if isPow2 align = true then .ok (decide (addr % align = 0)) else .panic site := rfl

/-- `slice_file` once the null / alignment preamble is passed -/
theorem sliceFile_aligned (img : Img) (secs : List Sec) (rva min align : Nat)
    (h0 : rva ≠ 0) (hp : isPow2 align = true) (ha : (img.base + rva) % align = 0) :
    sliceFile img secs rva min align =
      match rangeFile img.bytes.size secs rva min with
      | .ok (o, l) => if (img.base + o) % align = 0 then .ok ⟨o, l, align⟩ else .err .misaligned
      | .err e => .err e
      | .panic s => .panic s
      | .ub s => .ub s
      | .diverge => .diverge := by
  unfold sliceFile
  simp only [h0, if_false, alignedTo_eq, hp, if_true, ha, decide_true]
  rfl

theorem sliceFile_ok_pre {img : Img} {secs : List Sec} {rva min align : Nat} {r : Ref}
    (h : sliceFile img secs rva min align = .ok r) :
    rva ≠ 0 ∧ isPow2 align = true ∧ (img.base + rva) % align = 0 := by
  unfold sliceFile at h
  by_cases h0 : rva = 0
  · simp [h0] at h
  · refine ⟨h0, ?_⟩
    simp only [h0, if_false, alignedTo_eq] at h
    by_cases hp : isPow2 align = true
    · refine ⟨hp, ?_⟩
      simp only [hp, if_true] at h
      by_cases ha : (img.base + rva) % align = 0
      · exact ha
      · simp [ha] at h
    · simp [hp] at h

theorem sliceFile_ok_iff_range (img : Img) (secs : List Sec) (rva min align : Nat) (r : Ref) :
    sliceFile img secs rva min align = .ok r ↔
      rva ≠ 0 ∧ isPow2 align = true ∧ (img.base + rva) % align = 0 ∧
      ∃ o l, rangeFile img.bytes.size secs rva min = .ok (o, l) ∧ (img.base + o) % align = 0 ∧
        r = ⟨o, l, align⟩ := by
  constructor
  · intro h
    obtain ⟨h0, hp, ha⟩ := sliceFile_ok_pre h
    refine ⟨h0, hp, ha, ?_⟩
    rw [sliceFile_aligned img secs rva min align h0 hp ha] at h
    split at h
    next o l heq =>
      by_cases hal : (img.base + o) % align = 0
      · rw [if_pos hal] at h
        cases h
        exact ⟨o, l, heq, hal, rfl⟩
      · rw [if_neg hal] at h
        cases h
    all_goals cases h
  · rintro ⟨h0, hp, ha, o, l, hrf, hal, rfl⟩
    rw [sliceFile_aligned img secs rva min align h0 hp ha, hrf]
    exact if_pos hal

/-! ### inversion on well-formed tables -/

/-- If the first section mapping `rva` stores it, then (raw extents being disjoint and not
wrapping) that section is also the first one whose raw extent contains the mapped offset. -/
theorem firstF_of_firstV (secs : List Sec)
    (hnw : ∀ s ∈ secs, s.prd + s.rs < 4294967296)
    (hpw : secs.Pairwise (fun a b => a.prd + a.rs ≤ b.prd ∨ b.prd + b.rs ≤ a.prd))
    {rva : Nat} {s : Sec} (h : firstV secs rva = some s) (hlt : rva - s.va < s.rs) :
    firstF secs (s.prd + (rva - s.va)) = some s := by
  induction secs with
  | nil => cases h
  | cons a rest ih =>
    rw [firstV_cons] at h
    rw [List.pairwise_cons] at hpw
    rw [firstF_cons]
    have hna := hnw a (List.mem_cons_self ..)
    by_cases hc : a.containsRva rva = true
    · simp only [hc, if_true, Option.some.injEq] at h
      subst h
      have : a.containsOff (a.prd + (rva - a.va)) = true := by
        rw [containsOff_iff]; unfold wadd32; omega
      simp only [this, if_true]
    · simp only [hc] at h
      have hd := hpw.1 s (firstV_some h).1
      have hns : ¬ a.containsOff (s.prd + (rva - s.va)) = true := by
        rw [containsOff_iff]; unfold wadd32; omega
      simp only [hns]
      exact ih (fun s hs => hnw s (List.mem_cons_of_mem _ hs)) hpw.2 h

theorem firstV_of_firstF (secs : List Sec)
    (hnw : ∀ s ∈ secs, s.va + max s.vs s.rs < 4294967296)
    (hpw : secs.Pairwise (fun a b => a.va + max a.vs a.rs ≤ b.va ∨ b.va + max b.vs b.rs ≤ a.va))
    {fo : Nat} {s : Sec} (h : firstF secs fo = some s) (hlt : fo - s.prd < s.vs) :
    firstV secs (s.va + (fo - s.prd)) = some s := by
  induction secs with
  | nil => cases h
  | cons a rest ih =>
    rw [firstF_cons] at h
    rw [List.pairwise_cons] at hpw
    rw [firstV_cons]
    have hna := hnw a (List.mem_cons_self ..)
    by_cases hc : a.containsOff fo = true
    · simp only [hc, if_true, Option.some.injEq] at h
      subst h
      have : a.containsRva (a.va + (fo - a.prd)) = true := by
        rw [containsRva_iff]; unfold wadd32; omega
      simp only [this, if_true]
    · simp only [hc] at h
      have hd := hpw.1 s (firstF_some h).1
      have hns : ¬ a.containsRva (s.va + (fo - s.prd)) = true := by
        rw [containsRva_iff]; unfold wadd32; omega
      simp only [hns]
      exact ih (fun s hs => hnw s (List.mem_cons_of_mem _ hs)) hpw.2 h

theorem WF.raw_nowrap {soh : Nat} {secs : List Sec} (h : WF soh secs) :
    ∀ s ∈ secs, s.prd + s.rs < 4294967296 := fun s hs => (h.1 s hs).2.1
theorem WF.virt_nowrap {soh : Nat} {secs : List Sec} (h : WF soh secs) :
    ∀ s ∈ secs, s.va + max s.vs s.rs < 4294967296 := fun s hs => (h.1 s hs).1
theorem WF.raw_disjoint {soh : Nat} {secs : List Sec} (h : WF soh secs) :
    secs.Pairwise (fun a b => a.prd + a.rs ≤ b.prd ∨ b.prd + b.rs ≤ a.prd) :=
  h.2.imp (fun hab => hab.1)
theorem WF.virt_disjoint {soh : Nat} {secs : List Sec} (h : WF soh secs) :
    secs.Pairwise (fun a b => a.va + max a.vs a.rs ≤ b.va ∨ b.va + max b.vs b.rs ≤ a.va) :=
  h.2.imp (fun hab => hab.2)

/-- congruent section pointers keep the alignment of the rva -/
theorem aligned_transfer (base rva va prd align : Nat) (hva : va ≤ rva)
    (hc : prd % align = va % align) (ha : (base + rva) % align = 0) :
    (base + (prd + (rva - va))) % align = 0 := by
  have e1 : base + (prd + (rva - va)) = prd + (base + (rva - va)) := by omega
  have e2 : base + rva = va + (base + (rva - va)) := by omega
  rw [e1, ← Nat.mod_add_mod, hc, Nat.mod_add_mod, ← e2, ha]

end Pelite.Pe
