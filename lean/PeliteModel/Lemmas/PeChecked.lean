import PeliteModel.Model.PeChecked
import PeliteModel.Lemmas.Typed
import PeliteModel.Lemmas.Convert
/-!
Helper lemmas for `Thm/C02Arith.lean`: every CHECKED function of `Model/PeChecked.lean` equals the
unchecked model function — no panicking primitive (`padd32`, `padd64`, `psub`, `pmulUsize`,
`pIndexTo`, `pIndexFrom`, `pIndex`, `pCopyLen`) and no `rawRef` ever takes its failure branch.
-/
namespace Pelite
namespace Pe

/-! ### the primitives succeed when their side condition holds -/

theorem psub_ok {s : String} {a b : Nat} (h : b ≤ a) : psub s a b = .ok (a - b) := by
  unfold psub; rw [if_pos h]
theorem padd32_ok {s : String} {a b : Nat} (h : a + b < 4294967296) : padd32 s a b = .ok (a + b) := by
  unfold padd32; rw [if_pos h]
theorem padd64_ok {s : String} {a b : Nat} (h : a + b < 18446744073709551616) : padd64 s a b = .ok (a + b) := by
  unfold padd64; rw [if_pos h]
theorem pmulUsize_ok {s : String} {a b : Nat} (h : a * b < 18446744073709551616) : pmulUsize s a b = .ok (a * b) := by
  unfold pmulUsize; rw [if_pos h]
theorem pIndexTo_ok {s : String} {len n : Nat} (h : n ≤ len) : pIndexTo s len n = .ok n := by
  unfold pIndexTo; rw [if_pos h]
theorem pIndexFrom_ok {s : String} {len n : Nat} (h : n ≤ len) : pIndexFrom s len n = .ok (len - n) := by
  unfold pIndexFrom; rw [if_pos h]
theorem pIndex_ok {s : String} {len i : Nat} (h : i < len) : pIndex s len i = .ok () := by
  unfold pIndex; rw [if_pos h]
theorem pCopyLen_ok {s : String} {a b : Nat} (h : a = b) : pCopyLen s a b = .ok () := by
  unfold pCopyLen; rw [if_pos h]
theorem rawRef_ok_of {site : String} {i : Img} {off size align : Nat}
    (h1 : off + size ≤ i.bytes.size) (h2 : (i.base + off) % align = 0) :
    rawRef site i off size align = .ok ⟨off, size, align⟩ := by
  unfold rawRef; rw [if_pos ⟨h1, h2⟩]


/-! ### powers of two -/

theorem pow2_of_and_pred : ∀ (n a : Nat), a ≤ n → a ≠ 0 → a &&& (a - 1) = 0 → ∃ k, a = 2 ^ k := by
  intro n
  induction n with
  | zero => intro a h1 h2; omega
  | succ n ih =>
    intro a hle h0 hand
    by_cases h1 : a = 1
    · exact ⟨0, h1⟩
    · have hdiv : (a / 2) &&& ((a - 1) / 2) = 0 := by
        rw [← Nat.and_div_two, hand]
      rcases Nat.mod_two_eq_zero_or_one a with hr | hr
      · -- even: a = 2 b, (a-1)/2 = b - 1
        have e : (a - 1) / 2 = a / 2 - 1 := by omega
        rw [e] at hdiv
        obtain ⟨k, hk⟩ := ih (a / 2) (by omega) (by omega) hdiv
        refine ⟨k + 1, ?_⟩
        rw [Nat.pow_succ, ← hk]; omega
      · -- odd: (a-1)/2 = a/2, so a/2 &&& a/2 = a/2 = 0, a = 1
        have e : (a - 1) / 2 = a / 2 := by omega
        rw [e, Nat.and_self] at hdiv
        omega

theorem isPow2_iff (a : Nat) : isPow2 a = true ↔ ∃ k, a = 2 ^ k := by
  unfold isPow2
  simp only [ne_eq, Bool.decide_and, Bool.and_eq_true, decide_eq_true_eq, decide_not, Bool.not_eq_true']
  constructor
  · rintro ⟨h0, h1⟩
    exact pow2_of_and_pred a a (Nat.le_refl _) (by simpa using h0) h1
  · rintro ⟨k, rfl⟩
    refine ⟨by simp, ?_⟩
    rw [Nat.and_two_pow_sub_one_eq_mod, Nat.mod_self]


/-! ### address conversion -/

theorem r2fSecsChk_eq (secs : List Sec) (rva : Nat) : r2fSecsChk secs rva = r2fSecs secs rva := by
  induction secs with
  | nil => rfl
  | cons s rest ih =>
    unfold r2fSecsChk r2fSecs
    dsimp only
    by_cases hc : s.va ≤ rva ∧ rva < wadd32 s.va (max s.vs s.rs)
    · rw [if_pos hc, if_pos hc]
      by_cases ho : (cadd32 s.prd s.rs).isNone = true
      · rw [if_pos ho, if_pos ho]
      · rw [if_neg ho, if_neg ho, psub_ok hc.1]
        have hlt : s.prd + s.rs < 4294967296 := by
          rcases Nat.lt_or_ge (s.prd + s.rs) 4294967296 with h | h
          · exact h
          · exact absurd ((cadd32_isNone _ _).2 h) ho
        simp only [Out.bind_ok]
        by_cases h1 : rva - s.va < s.rs
        · rw [if_pos h1, if_pos h1, padd32_ok (by omega)]
        · rw [if_neg h1, if_neg h1]
    · rw [if_neg hc, if_neg hc, ih]

theorem f2rSecsChk_eq (secs : List Sec) (fo : Nat) : f2rSecsChk secs fo = f2rSecs secs fo := by
  induction secs with
  | nil => rfl
  | cons s rest ih =>
    unfold f2rSecsChk f2rSecs
    dsimp only
    by_cases hc : s.prd ≤ fo ∧ fo < wadd32 s.prd s.rs
    · rw [if_pos hc, if_pos hc]
      have hfo : fo % 4294967296 = fo := by
        have : wadd32 s.prd s.rs < 4294967296 := Nat.mod_lt _ (by decide)
        omega
      by_cases ho : (cadd32 s.va s.vs).isNone = true
      · rw [if_pos ho, if_pos ho]
      · rw [if_neg ho, if_neg ho, hfo, psub_ok hc.1]
        have hlt : s.va + s.vs < 4294967296 := by
          rcases Nat.lt_or_ge (s.va + s.vs) 4294967296 with h | h
          · exact h
          · exact absurd ((cadd32_isNone _ _).2 h) ho
        simp only [Out.bind_ok]
        by_cases h1 : fo - s.prd < s.vs
        · rw [if_pos h1, if_pos h1, padd32_ok (by omega)]
        · rw [if_neg h1, if_neg h1]
    · rw [if_neg hc, if_neg hc, ih]

theorem rvaToFileOffsetChk_eq (soh : Nat) (secs : List Sec) (rva : Nat) :
    rvaToFileOffsetChk soh secs rva = rvaToFileOffset soh secs rva := by
  unfold rvaToFileOffsetChk rvaToFileOffset
  rw [r2fSecsChk_eq]

theorem fileOffsetToRvaChk_eq (soh : Nat) (secs : List Sec) (fo : Nat) (hs : soh ≤ 4294967296) :
    fileOffsetToRvaChk soh secs fo = fileOffsetToRva soh secs fo := by
  unfold fileOffsetToRvaChk fileOffsetToRva
  rw [f2rSecsChk_eq]
  by_cases h : fo < soh
  · rw [if_pos h, if_pos h, Nat.mod_eq_of_lt (by omega)]
  · rw [if_neg h, if_neg h]

theorem vaToRvaChk_eq (v : View) (va : Nat) : v.vaToRvaChk va = v.vaToRva va := by
  unfold View.vaToRvaChk View.vaToRva
  have hsoi : sizeOfImage v.b < 4294967296 := le32_lt _ _
  by_cases h0 : va = 0
  · rw [if_pos h0, if_pos h0]
  · rw [if_neg h0, if_neg h0]
    by_cases h1 : va < v.imageBase
    · rw [if_pos h1, if_pos (Or.inl h1)]
    · rw [if_neg h1, psub_ok (by omega)]
      simp only [Out.bind_ok]
      by_cases h2 : va - v.imageBase > sizeOfImage v.b
      · rw [if_pos h2, if_pos (Or.inr h2)]
      · rw [if_neg h2, if_neg (by omega), psub_ok (by omega)]
        simp only [Out.bind_ok]
        rw [Nat.mod_eq_of_lt (by omega)]

/-! ### alignment test, untyped slices -/

/-- `self & (align - 1) == 0` is `self % align == 0` for a power of two -/
theorem alignedToChk_eq (site : String) (addr align : Nat) :
    alignedToChk site addr align = alignedTo site addr align := by
  unfold alignedToChk alignedTo
  by_cases hp : isPow2 align = true
  · rw [if_pos hp, if_pos hp]
    obtain ⟨k, rfl⟩ := (isPow2_iff align).1 hp
    rw [psub_ok (Nat.two_pow_pos k)]
    simp only [Out.bind_ok]
    rw [Nat.and_two_pow_sub_one_eq_mod]
  · rw [if_neg hp, if_neg hp]

/-- `usize::wrapping_add(ptr, off)`: the wrap at 2^64 is invisible to a power-of-two alignment test -/
theorem alignedTo_wrap (site : String) (addr align : Nat) (ha : align < 18446744073709551616) :
    alignedTo site (addr % 18446744073709551616) align = alignedTo site addr align := by
  unfold alignedTo
  by_cases hp : isPow2 align = true
  · rw [if_pos hp, if_pos hp]
    obtain ⟨k, rfl⟩ := (isPow2_iff align).1 hp
    have hk : k ≤ 64 := by
      have : (2:Nat) ^ k < 2 ^ 64 := ha
      exact Nat.le_of_lt ((Nat.pow_lt_pow_iff_right (by decide)).1 this)
    have : addr % 18446744073709551616 % 2 ^ k = addr % 2 ^ k :=
      Nat.mod_mod_of_dvd addr (Nat.pow_dvd_pow 2 hk)
    rw [this]
  · rw [if_neg hp, if_neg hp]

theorem alignedToChk_wadd64 (site : String) (a b align : Nat) (ha : align < 18446744073709551616) :
    alignedToChk site (wadd64 a b) align = alignedTo site (a + b) align := by
  rw [alignedToChk_eq]
  exact alignedTo_wrap site (a + b) align ha

theorem sliceSectionChk_eq (img : Img) (rva min align : Nat) (ha : align < 18446744073709551616) :
    sliceSectionChk img rva min align = sliceSection img rva min align := by
  unfold sliceSectionChk sliceSection
  dsimp only
  rw [alignedToChk_wadd64 _ _ _ _ ha]
  by_cases h0 : rva = 0
  · rw [if_pos h0, if_pos h0]
  · rw [if_neg h0, if_neg h0]
    cases alignedTo "slice_section:aligned_to" (img.base + rva) align with
    | ok b =>
      cases b
      · rfl
      · dsimp only
        unfold getFrom
        by_cases h1 : rva ≤ img.bytes.size
        · rw [if_pos h1]
          dsimp only
          by_cases h2 : img.bytes.size - rva ≥ min
          · rw [if_pos h2, if_pos ⟨h1, h2⟩]
          · rw [if_neg h2, if_neg (fun h => h2 h.2)]
        · rw [if_neg h1, if_neg (fun h => h1 h.1)]
    | _ => rfl


theorem rangeFileChk_eq (size : Nat) (secs : List Sec) (rva min : Nat) :
    rangeFileChk size secs rva min = rangeFile size secs rva min := by
  induction secs with
  | nil => rfl
  | cons s rest ih =>
    unfold rangeFileChk rangeFile
    dsimp only
    by_cases hc : s.va ≤ rva ∧ rva < wadd32 s.va (max s.vs s.rs)
    · rw [if_pos hc, if_pos hc]
      unfold getRange
      by_cases hr : s.prd ≤ wadd32 s.prd s.rs ∧ wadd32 s.prd s.rs ≤ size
      · rw [if_pos hr, if_pos hr]
        dsimp only
        rw [psub_ok hc.1, psub_ok (Nat.le_of_lt hc.2)]
        simp only [Out.bind_ok]
        generalize (if min > wadd32 s.va (max s.vs s.rs) - rva then (Out.err Err.bounds : Out (Nat × Nat))
          else Out.err Err.zeroFill) = F
        unfold getFrom
        by_cases h1 : rva - s.va ≤ wadd32 s.prd s.rs - s.prd
        · rw [if_pos h1]
          dsimp only
          by_cases h2 : rva - s.va < wadd32 s.prd s.rs - s.prd ∧ wadd32 s.prd s.rs - s.prd - (rva - s.va) ≥ min
          · rw [if_pos h2, if_pos ⟨by omega, h2.2⟩]
          · rw [if_neg h2, if_neg (by omega)]
        · rw [if_neg h1]
          dsimp only
          rw [if_neg (by omega)]
      · rw [if_neg hr, if_neg hr]
    · rw [if_neg hc, if_neg hc, ih]


/-- what `fileTailChk` computes, in terms of the unchecked `rangeFile`, once the first alignment test passed -/
theorem fileTailChk_eq (site : String) (img : Img) (secs : List Sec) (rva min align : Nat)
    (hp : isPow2 align = true) :
    fileTailChk site img secs rva min align = fileTail img secs rva min align := by
  unfold fileTailChk fileTail
  rw [rangeFileChk_eq]
  cases rangeFile img.bytes.size secs rva min with
  | ok p =>
    obtain ⟨o, l⟩ := p
    dsimp only
    rw [alignedToChk_eq, alignedTo_eq, if_pos hp]
    by_cases ha : (img.base + o) % align = 0
    · rw [if_pos ha]; simp [ha]
    · rw [if_neg ha]; simp [ha]
  | _ => rfl

theorem alignedTo_true_pow2 {site : String} {addr align : Nat} {b : Bool}
    (h : alignedTo site addr align = .ok b) : isPow2 align = true := by
  rw [alignedTo_eq] at h
  by_cases hp : isPow2 align = true
  · exact hp
  · rw [if_neg hp] at h; cases h

theorem sliceFileChk_eq (img : Img) (secs : List Sec) (rva min align : Nat) (ha : align < 18446744073709551616) :
    sliceFileChk img secs rva min align = sliceFile img secs rva min align := by
  unfold sliceFileChk sliceFile
  rw [alignedToChk_wadd64 _ _ _ _ ha]
  by_cases h0 : rva = 0
  · rw [if_pos h0, if_pos h0]
  · rw [if_neg h0, if_neg h0]
    cases hal : alignedTo "slice_file:aligned_to" (img.base + rva) align with
    | ok b =>
      cases b
      · rfl
      · dsimp only
        rw [fileTailChk_eq _ _ _ _ _ _ (alignedTo_true_pow2 hal)]
        rfl
    | _ => rfl

theorem View.sliceChk_eq (v : View) (rva min align : Nat) (ha : align < 18446744073709551616) :
    v.sliceChk rva min align = v.slice rva min align := by
  unfold View.sliceChk View.slice
  cases v.kind
  · exact sliceFileChk_eq _ _ _ _ _ ha
  · exact sliceSectionChk_eq _ _ _ _ ha

theorem readSectionChk_eq (img : Img) (B soi va min align : Nat) (ha : align < 18446744073709551616) :
    readSectionChk img B soi va min align = readSection img B soi va min align := by
  unfold readSectionChk readSection
  by_cases h0 : va = 0
  · rw [if_pos h0, if_pos h0]
  · rw [if_neg h0, if_neg h0]
    by_cases h1 : va < B
    · rw [if_pos h1, if_pos (Or.inl h1)]
    · rw [if_neg h1, psub_ok (by omega)]
      simp only [Out.bind_ok]
      by_cases h2 : va - B > soi
      · rw [if_pos h2, if_pos (Or.inr h2)]
      · rw [if_neg h2, if_neg (by omega), psub_ok (by omega)]
        simp only [Out.bind_ok]
        rw [alignedToChk_wadd64 _ _ _ _ ha]
        cases alignedTo "read_section:aligned_to" (img.base + (va - B)) align with
        | ok b =>
          cases b
          · rfl
          · dsimp only
            unfold getFrom
            by_cases h3 : va - B ≤ img.bytes.size
            · rw [if_pos h3]
              dsimp only
              by_cases h4 : img.bytes.size - (va - B) ≥ min
              · rw [if_pos h4, if_pos ⟨h3, h4⟩]
              · rw [if_neg h4, if_neg (fun h => h4 h.2)]
            · rw [if_neg h3, if_neg (fun h => h3 h.1)]
        | _ => rfl

theorem readFileChk_eq (img : Img) (secs : List Sec) (B soi va min align : Nat)
    (hs : soi < 4294967296) (ha : align < 18446744073709551616) :
    readFileChk img secs B soi va min align = readFile img secs B soi va min align := by
  unfold readFileChk readFile
  by_cases h0 : va = 0
  · rw [if_pos h0, if_pos h0]
  · rw [if_neg h0, if_neg h0]
    by_cases h1 : va < B
    · rw [if_pos h1, if_pos (Or.inl h1)]
    · rw [if_neg h1, psub_ok (by omega)]
      simp only [Out.bind_ok]
      by_cases h2 : va - B > soi
      · rw [if_pos h2, if_pos (Or.inr h2)]
      · rw [if_neg h2, if_neg (by omega), psub_ok (by omega)]
        simp only [Out.bind_ok]
        rw [Nat.mod_eq_of_lt (by omega : va - B < 4294967296), alignedToChk_wadd64 _ _ _ _ ha]
        cases hal : alignedTo "read_file:aligned_to" (img.base + (va - B)) align with
        | ok b =>
          cases b
          · rfl
          · dsimp only
            rw [fileTailChk_eq _ _ _ _ _ _ (alignedTo_true_pow2 hal)]
            rfl
        | _ => rfl

theorem View.readChk_eq (v : View) (va min align : Nat) (ha : align < 18446744073709551616) :
    v.readChk va min align = v.read va min align := by
  unfold View.readChk View.read
  cases v.kind
  · exact readFileChk_eq _ _ _ _ _ _ _ (le32_lt _ _) ha
  · exact readSectionChk_eq _ _ _ _ _ _ ha

theorem View.atChk_eq (v : View) (a : Addr) (min align : Nat) (ha : align < 18446744073709551616) :
    v.atChk a min align = v.at a min align := by
  cases a with
  | rva r => exact v.sliceChk_eq r min align ha
  | va x => exact v.readChk_eq x min align ha


/-! ### check_sum -/

theorem csumStep_bound (acc dw : Nat) (ha : acc < 18446744073709551616) (hd : dw < 4294967296) :
    csumStep acc dw < 18446744073709551616 := by
  unfold csumStep
  dsimp only
  split <;> omega

theorem csumStepChk_eq (site : String) (acc dw : Nat) (ha : acc < 18446744073709551616) (hd : dw < 4294967296) :
    csumStepChk site acc dw = .ok (csumStep acc dw) := by
  unfold csumStepChk csumStep
  rw [padd64_ok (by omega)]
  simp only [Out.bind_ok]
  rw [padd64_ok (by omega)]
  simp only [Out.bind_ok]
  by_cases hc : acc % 4294967296 + dw + acc / 4294967296 > 0xffffffff
  · rw [if_pos hc, if_pos hc, padd64_ok (by omega)]
  · rw [if_neg hc, if_neg hc]

theorem csumLoopChk_eq (b : Bytes) (skip n : Nat) :
    ∀ (fuel acc : Nat), fuel ≤ n → acc < 18446744073709551616 →
      csumLoopChk b skip n fuel acc = .ok (csumLoop b skip n fuel acc) ∧
      csumLoop b skip n fuel acc < 18446744073709551616 := by
  intro fuel
  induction fuel with
  | zero => intro acc _ ha; exact ⟨rfl, ha⟩
  | succ fuel ih =>
    intro acc hf ha
    unfold csumLoopChk csumLoop
    dsimp only
    by_cases hi : n - (fuel + 1) = skip
    · rw [if_pos hi, if_pos hi]
      exact ih acc (by omega) ha
    · rw [if_neg hi, if_neg hi, pIndex_ok (by omega)]
      simp only [Out.bind_ok]
      rw [csumStepChk_eq _ _ _ ha (le32_lt _ _)]
      simp only [Out.bind_ok]
      exact ih _ (by omega) (csumStep_bound _ _ ha (le32_lt _ _))

/-- `hbase`: the buffer is dword aligned — established by `validate_headers` (pe.rs:778) for every view
that came out of a constructor; `check_sum` itself does not test it before `from_raw_parts(.. as *const u32 ..)` -/
theorem checkSumChk_eq (v : View) (hb : v.b.size < 4294967296) (hbase : v.img.base % 4 = 0) :
    v.checkSumChk = .ok v.checkSum := by
  unfold View.checkSumChk View.checkSum
  have he : eLfanew v.b < 4294967296 := le32_lt _ _
  have hsz : v.img.bytes.size = v.b.size := rfl
  rw [padd64_ok (by omega)]
  simp only [Out.bind_ok]
  rw [padd64_ok (by omega)]
  simp only [Out.bind_ok]
  rw [rawRef_ok_of (by omega) (by omega)]
  simp only [Out.bind_ok]
  obtain ⟨h1, h2⟩ := csumLoopChk_eq v.b ((eLfanew v.b + 24 + 64) / 4) (v.b.size / 4) (v.b.size / 4) 0
    (Nat.le_refl _) (by decide)
  rw [h1]
  simp only [Out.bind_ok]
  rw [pmulUsize_ok (by omega)]
  simp only [Out.bind_ok]
  rw [pIndexFrom_ok (by omega)]
  simp only [Out.bind_ok]
  generalize csumLoop v.b ((eLfanew v.b + 24 + 64) / 4) (v.b.size / 4) (v.b.size / 4) 0 = c0 at h2 ⊢
  have hmul : v.b.size / 4 * 4 = 4 * (v.b.size / 4) := Nat.mul_comm _ _
  by_cases ht : v.b.size % 4 ≠ 0
  · rw [if_pos (by omega), if_pos ht, pIndexTo_ok (by omega)]
    simp only [Out.bind_ok]
    rw [pCopyLen_ok rfl]
    simp only [Out.bind_ok]
    rw [csumStepChk_eq _ _ _ h2 (le32_lt _ _)]
    simp only [Out.bind_ok]
    rw [hmul]
    have h3 := csumStep_bound c0 (le32 v.b (4 * (v.b.size / 4))) h2 (le32_lt _ _)
    generalize csumStep c0 (le32 v.b (4 * (v.b.size / 4))) = c1 at h3 ⊢
    rw [padd64_ok (by omega)]
    simp only [Out.bind_ok]
    rw [padd64_ok (by omega)]
    simp only [Out.bind_ok]
    rw [padd64_ok (by omega)]
    rfl
  · rw [if_neg (by omega), if_neg ht]
    simp only [Out.bind_ok]
    rw [padd64_ok (by omega)]
    simp only [Out.bind_ok]
    rw [padd64_ok (by omega)]
    simp only [Out.bind_ok]
    rw [padd64_ok (by omega)]
    rfl

/-! ### validate_headers and the constructors -/

theorem validateChk_eq (f : Fmt) (img : Img) : validateChk f img = validate f img := by
  have he : eLfanew img.bytes < 4294967296 := le32_lt _ _
  have hn : numberOfSections img.bytes < 65536 := le16_lt _ _
  have ho : sizeOfOptionalHeader img.bytes < 65536 := le16_lt _ _
  have h24 : f.ntSize - f.optSize = 24 := by cases f <;> rfl
  have hnt : 120 ≤ f.ntSize ∧ f.ntSize ≤ 136 := by cases f <;> decide
  have hm : min (numberOfRvaAndSizes f img.bytes) 16 ≤ 16 := Nat.min_le_right _ _
  unfold validateChk validate optMagic ntEnd numDataDirs secTable optOff
  simp only [h24]
  by_cases g1 : 64 > img.bytes.size
  · rw [if_pos g1, if_pos g1]
  rw [if_neg g1, if_neg g1]
  by_cases g2 : img.base % 4 ≠ 0
  · rw [if_pos g2, if_pos g2]
  rw [if_neg g2, if_neg g2]
  -- pe.rs:781: the DOS header lies inside the buffer (`64 ≤ len`) and the buffer is 4-aligned
  rw [rawRef_ok_of (by omega) (by omega)]
  simp only [Out.bind_ok]
  by_cases g3 : le16 img.bytes 0 ≠ 0x5A4D
  · rw [if_pos g3, if_pos g3]
  rw [if_neg g3, if_neg g3]
  by_cases g4 : eLfanew img.bytes % 4 ≠ 0
  · rw [if_pos g4, if_pos g4]
  rw [if_neg g4, if_neg g4]
  by_cases g5 : eLfanew img.bytes > 0x01000000
  · rw [if_pos g5, if_pos g5]
  rw [if_neg g5, if_neg g5]
  rw [padd64_ok (by omega)]
  simp only [Out.bind_ok]
  rw [padd64_ok (by omega)]
  simp only [Out.bind_ok]
  by_cases g6 : eLfanew img.bytes + 24 + 2 > img.bytes.size
  · rw [if_pos g6, if_pos g6]
  rw [if_neg g6, if_neg g6]
  -- pe.rs:801 / 802: signature and magic lie below `magic_offset + 2 ≤ len`; `e_lfanew` is a multiple of 4
  rw [rawRef_ok_of (by omega) (by omega)]
  simp only [Out.bind_ok]
  rw [rawRef_ok_of (by omega) (by omega)]
  simp only [Out.bind_ok]
  by_cases g7 : le32 img.bytes (eLfanew img.bytes) ≠ 0x00004550 ∨
      ¬ (le16 img.bytes (eLfanew img.bytes + 24) = 0x10b ∨ le16 img.bytes (eLfanew img.bytes + 24) = 0x20b)
  · rw [if_pos g7, if_pos g7]
  rw [if_neg g7, if_neg g7]
  by_cases g8 : le16 img.bytes (eLfanew img.bytes + 24) ≠ f.magic
  · rw [if_pos g8, if_pos g8]
  rw [if_neg g8, if_neg g8]
  rw [padd64_ok (by omega)]
  simp only [Out.bind_ok]
  by_cases g9 : eLfanew img.bytes + f.ntSize > img.bytes.size
  · rw [if_pos g9, if_pos g9]
  rw [if_neg g9, if_neg g9]
  -- pe.rs:817: the NT headers end at `nt_end ≤ len`
  rw [rawRef_ok_of (by omega) (by omega)]
  simp only [Out.bind_ok]
  by_cases g10 : sizeOfHeaders img.bytes > img.bytes.size
  · rw [if_pos g10, if_pos g10]
  rw [if_neg g10, if_neg g10]
  by_cases g11 : sizeOfHeaders img.bytes > sizeOfImage img.bytes
  · rw [if_pos g11, if_pos g11]
  rw [if_neg g11, if_neg g11]
  rw [pmulUsize_ok (by omega)]
  simp only [Out.bind_ok]
  rw [padd64_ok (by omega)]
  simp only [Out.bind_ok]
  by_cases g12 : eLfanew img.bytes + f.ntSize + min (numberOfRvaAndSizes f img.bytes) 16 * 8 > img.bytes.size
  · rw [if_pos g12, if_pos g12]
  rw [if_neg g12, if_neg g12]
  by_cases g13 : numberOfSections img.bytes > 96
  · rw [if_pos g13, if_pos g13]
  rw [if_neg g13, if_neg g13]
  rw [pmulUsize_ok (by omega)]
  simp only [Out.bind_ok]
  rw [padd64_ok (by omega)]
  simp only [Out.bind_ok]
  rw [padd64_ok (by omega)]
  simp only [Out.bind_ok]
  rw [padd64_ok (by omega)]
  simp only [Out.bind_ok]

theorem fromBytesChk_eq (f : Fmt) (k : Kind) (img : Img) : fromBytesChk f k img = fromBytes f k img := by
  unfold fromBytesChk fromBytes
  rw [validateChk_eq]
  cases validate f img <;> rfl

theorem wrapFromBytesChk_eq (k : Kind) (img : Img) : wrapFromBytesChk k img = wrapFromBytes k img := by
  unfold wrapFromBytesChk wrapFromBytes
  rw [fromBytesChk_eq, fromBytesChk_eq]
  cases fromBytes .pe64 k img with
  | err e => cases e <;> rfl
  | _ => rfl

/-! ### `SectionHeaders::by_name` -/

theorem nameBufLoopChk_eq (n : Bytes) (h8 : n.size ≤ 8) :
    ∀ (fuel : Nat) (buf : Bytes), fuel ≤ n.size → buf.size = 8 →
      nameBufLoopChk n fuel buf =
        .ok ((List.range' (n.size - fuel) fuel).foldl (fun buf i => buf.setIfInBounds i (n.getD i 0)) buf) := by
  intro fuel
  induction fuel with
  | zero => intro buf _ _; rfl
  | succ fuel ih =>
    intro buf hf hbuf
    unfold nameBufLoopChk
    dsimp only
    rw [pIndex_ok (by omega)]
    simp only [Out.bind_ok]
    rw [pIndex_ok (by omega)]
    simp only [Out.bind_ok]
    rw [ih _ (by omega) (by rw [Array.size_setIfInBounds]; exact hbuf), List.range'_succ, List.foldl_cons]
    have e : n.size - (fuel + 1) + 1 = n.size - fuel := by omega
    rw [e]

/-- no index of the copy loop of `by_name` is out of range: the checked function is the model's -/
theorem byNameBytesChk_eq (secs : List Sec) (n : Bytes) : byNameBytesChk secs n = .ok (byNameBytes secs n) := by
  unfold byNameBytesChk byNameBytes
  by_cases h : n.size > 8
  · rw [if_pos h, if_pos h]
  · rw [if_neg h, if_neg h, nameBufLoopChk_eq n (by omega) n.size _ (Nat.le_refl _) (by simp)]
    simp only [Out.bind_ok]
    unfold nameBuf
    rw [Nat.sub_self, List.range_eq_range']

/-! ### typed reads -/

theorem View.dervaChk_eq (v : View) (a : Addr) (size align : Nat) (ha : align < 18446744073709551616) :
    v.dervaChk a size align = v.derva a size align := by
  unfold View.dervaChk View.derva
  rw [v.atChk_eq a size align ha]
  cases h : v.at a size align with
  | ok r =>
    obtain ⟨⟨hb, hal⟩, hm, hra⟩ := v.at_sound a size align r h
    rw [hra] at hal
    exact rawRef_ok_of (by omega) hal
  | _ => rfl

theorem View.dervaCopyChk_eq (v : View) (a : Addr) (size : Nat) :
    v.dervaCopyChk a size = v.dervaCopy a size := by
  unfold View.dervaCopyChk View.dervaCopy
  rw [v.atChk_eq a size 1 (by decide)]
  cases h : v.at a size 1 with
  | ok r =>
    obtain ⟨⟨hb, hal⟩, hm, hra⟩ := v.at_sound a size 1 r h
    dsimp only
    rw [rawRef_ok_of (by omega) (Nat.mod_one _)]
    rfl
  | _ => rfl

theorem View.dervaIntoChk_eq (v : View) (a : Addr) (len : Nat) :
    v.dervaIntoChk a len = v.dervaInto a len := by
  unfold View.dervaIntoChk View.dervaInto
  rw [v.atChk_eq a len 1 (by decide)]
  cases h : v.at a len 1 with
  | ok r =>
    obtain ⟨-, hm, -⟩ := v.at_sound a len 1 r h
    dsimp only
    rw [pIndexTo_ok hm]
    simp only [Out.bind_ok]
    rw [pCopyLen_ok rfl]
    rfl
  | _ => rfl

theorem View.dervaSliceChk_eq (v : View) (a : Addr) (size align len : Nat) (ha : align < 18446744073709551616) :
    v.dervaSliceChk a size align len = v.dervaSlice a size align len := by
  unfold View.dervaSliceChk View.dervaSlice
  rw [v.atChk_eq a (size * len) align ha]
  by_cases hz : a.isZero = true
  · rw [if_pos hz, if_pos hz]
  · rw [if_neg hz, if_neg hz]
    by_cases ho : size * len ≥ 18446744073709551616
    · rw [if_pos ho, if_pos ho]
    · rw [if_neg ho, if_neg ho]
      cases h : v.at a (size * len) align with
      | ok r =>
        obtain ⟨⟨hb, hal⟩, hm, hra⟩ := v.at_sound a (size * len) align r h
        rw [hra] at hal
        exact rawRef_ok_of (by omega) hal
      | _ => rfl

theorem sliceFLoopChk_eq (img : Img) (off blen size align : Nat) (stop : Nat → Bool)
    (hin : off + blen ≤ img.bytes.size) (hal : (img.base + off) % align = 0) (hsa : size % align = 0)
    (hb : blen < 9223372036854775808) (hsz : size < 18446744073709551616) :
    ∀ (fuel len : Nat), len + fuel < 18446744073709551616 → len * size ≤ blen →
      sliceFLoopChk img off blen size align stop fuel len = sliceFLoop img.bytes off blen size stop fuel len := by
  intro fuel
  induction fuel with
  | zero => intro len _ _; rfl
  | succ fuel ih =>
    intro len hf hl
    unfold sliceFLoopChk
    rw [sliceFLoop_succ, pmulUsize_ok (by omega)]
    simp only [Out.bind_ok]
    have hsum : len * size + size < 18446744073709551616 := by
      rcases Nat.eq_zero_or_pos len with h0 | h0
      · subst h0; omega
      · have : size ≤ len * size := Nat.le_mul_of_pos_left _ h0
        omega
    rw [padd64_ok hsum]
    simp only [Out.bind_ok]
    by_cases hb' : len * size + size > blen
    · rw [if_pos hb', if_pos hb']
    · rw [if_neg hb', if_neg hb']
      have hmod : (img.base + (off + len * size)) % align = 0 := by
        have e : img.base + (off + len * size) = (img.base + off) + len * size := by omega
        rw [e, Nat.add_mod, hal, Nat.mul_mod, hsa]
        simp
      rw [rawRef_ok_of (by omega) hmod]
      simp only [Out.bind_ok]
      by_cases hst : stop (leN img.bytes (off + len * size) size) = true
      · rw [if_pos hst, if_pos hst]
      · rw [if_neg hst, if_neg hst, padd64_ok (by omega)]
        simp only [Out.bind_ok]
        exact ih (len + 1) (by omega) (by rw [Nat.succ_mul]; omega)

theorem View.dervaSliceFChk_eq (v : View) (a : Addr) (size align : Nat) (stop : Nat → Bool)
    (hb : v.b.size < 4294967296) (hsz : size < 18446744073709551616) (hsa : size % align = 0)
    (ha : align < 18446744073709551616) :
    v.dervaSliceFChk a size align stop = v.dervaSliceF a size align stop := by
  unfold View.dervaSliceFChk View.dervaSliceF
  rw [v.atChk_eq a 0 align ha]
  cases h : v.at a 0 align with
  | ok r =>
    obtain ⟨⟨hin, hal⟩, -, hra⟩ := v.at_sound a 0 align r h
    rw [hra] at hal
    have hbs : v.img.bytes.size < 4294967296 := hb
    dsimp only
    rw [sliceFLoopChk_eq v.img r.off r.len size align stop hin hal hsa (by omega) hsz (r.len + 2) 0
      (by omega) (by omega)]
    show (match sliceFLoop v.b r.off r.len size stop (r.len + 2) 0 with
      | .ok n => rawRef _ v.img r.off (n * size) align
      | .err e => .err e | .panic s => .panic s | .ub s => .ub s | .diverge => .diverge) = _
    cases hL : sliceFLoop v.b r.off r.len size stop (r.len + 2) 0 with
    | ok n =>
      obtain ⟨-, h2, -, -⟩ := sliceFLoop_ok _ _ _ hL
      rw [Nat.succ_mul] at h2
      exact rawRef_ok_of (by omega) hal
    | _ => rfl
  | _ => rfl

/-! ### the loop of `derva_slice_f` with a stateful callable -/

theorem sliceFLoopIChk_eq (img : Img) (off blen size align : Nat) (stop : Nat → Nat → Bool)
    (hin : off + blen ≤ img.bytes.size) (hal : (img.base + off) % align = 0) (hsa : size % align = 0)
    (hb : blen < 9223372036854775808) (hsz : size < 18446744073709551616) :
    ∀ (fuel len : Nat), len + fuel < 18446744073709551616 → len * size ≤ blen →
      sliceFLoopIChk img off blen size align stop fuel len = sliceFLoopI img.bytes off blen size stop fuel len := by
  intro fuel
  induction fuel with
  | zero => intro len _ _; rfl
  | succ fuel ih =>
    intro len hf hl
    unfold sliceFLoopIChk
    rw [sliceFLoopI_succ, pmulUsize_ok (by omega)]
    simp only [Out.bind_ok]
    have hsum : len * size + size < 18446744073709551616 := by
      rcases Nat.eq_zero_or_pos len with h0 | h0
      · subst h0; omega
      · have : size ≤ len * size := Nat.le_mul_of_pos_left _ h0
        omega
    rw [padd64_ok hsum]
    simp only [Out.bind_ok]
    by_cases hb' : len * size + size > blen
    · rw [if_pos hb', if_pos hb']
    · rw [if_neg hb', if_neg hb']
      have hmod : (img.base + (off + len * size)) % align = 0 := by
        have e : img.base + (off + len * size) = (img.base + off) + len * size := by omega
        rw [e, Nat.add_mod, hal, Nat.mul_mod, hsa]
        simp
      rw [rawRef_ok_of (by omega) hmod]
      simp only [Out.bind_ok]
      by_cases hst : stop len (leN img.bytes (off + len * size) size) = true
      · rw [if_pos hst, if_pos hst]
      · rw [if_neg hst, if_neg hst, padd64_ok (by omega)]
        simp only [Out.bind_ok]
        exact ih (len + 1) (by omega) (by rw [Nat.succ_mul]; omega)

theorem View.dervaSliceFIChk_eq (v : View) (a : Addr) (size align : Nat) (stop : Nat → Nat → Bool)
    (hb : v.b.size < 4294967296) (hsz : size < 18446744073709551616) (hsa : size % align = 0)
    (ha : align < 18446744073709551616) :
    v.dervaSliceFIChk a size align stop = v.dervaSliceFI a size align stop := by
  unfold View.dervaSliceFIChk View.dervaSliceFI
  rw [v.atChk_eq a 0 align ha]
  cases h : v.at a 0 align with
  | ok r =>
    obtain ⟨⟨hin, hal⟩, -, hra⟩ := v.at_sound a 0 align r h
    rw [hra] at hal
    have hbs : v.img.bytes.size < 4294967296 := hb
    dsimp only
    rw [sliceFLoopIChk_eq v.img r.off r.len size align stop hin hal hsa (by omega) hsz (r.len + 2) 0
      (by omega) (by omega)]
    show (match sliceFLoopI v.b r.off r.len size stop (r.len + 2) 0 with
      | .ok n => rawRef _ v.img r.off (n * size) align
      | .err e => .err e | .panic s => .panic s | .ub s => .ub s | .diverge => .diverge) = _
    cases hL : sliceFLoopI v.b r.off r.len size stop (r.len + 2) 0 with
    | ok n =>
      obtain ⟨-, h2, -, -⟩ := sliceFLoopI_ok _ _ _ hL
      rw [Nat.succ_mul] at h2
      exact rawRef_ok_of (by omega) hal
    | _ => rfl
  | _ => rfl

theorem View.dervaSliceSChk_eq (v : View) (a : Addr) (size align sentinel : Nat)
    (hb : v.b.size < 4294967296) (hsz : size < 18446744073709551616) (hsa : size % align = 0)
    (ha : align < 18446744073709551616) :
    v.dervaSliceSChk a size align sentinel = v.dervaSliceS a size align sentinel :=
  v.dervaSliceFChk_eq a size align _ hb hsz hsa ha

theorem cstrFromBytesChk_eq (img : Img) (off len : Nat) (hin : off + len ≤ img.bytes.size)
    (hb : img.bytes.size < 4294967296) :
    cstrFromBytesChk img off len = .ok (cstrFromBytes img.bytes off len) := by
  unfold cstrFromBytesChk cstrFromBytes
  cases hf : findNul img.bytes off len 0 with
  | none => rfl
  | some n =>
    obtain ⟨-, h2, -, -⟩ := findNul_some _ _ _ hf
    dsimp only
    rw [padd64_ok (by omega)]
    simp only [Out.bind_ok]
    rw [rawRef_ok_of (by omega) (Nat.mod_one _)]
    rfl

theorem View.dervaCStrChk_eq (v : View) (a : Addr) (hb : v.b.size < 4294967296) :
    v.dervaCStrChk a = v.dervaCStr a := by
  unfold View.dervaCStrChk View.dervaCStr
  rw [v.atChk_eq a 0 1 (by decide)]
  cases h : v.at a 0 1 with
  | ok r =>
    obtain ⟨⟨hin, -⟩, -, -⟩ := v.at_sound a 0 1 r h
    dsimp only
    rw [cstrFromBytesChk_eq v.img r.off r.len hin hb]
    show _ = (match cstrFromBytes v.img.bytes r.off r.len with
      | some c => Out.ok c | none => .err .encoding)
    cases cstrFromBytes v.img.bytes r.off r.len <;> rfl
  | _ => rfl

theorem wstrFromBytesChk_eq (img : Img) (off len : Nat) (hin : off + len ≤ img.bytes.size)
    (h2 : 2 ≤ len) (hal : (img.base + off) % 2 = 0) :
    wstrFromBytesChk img off len = .ok (wstrFromBytes img.bytes off len) := by
  unfold wstrFromBytesChk wstrFromBytes
  have hw : le16 img.bytes off < 65536 := le16_lt _ _
  rw [rawRef_ok_of (by omega) hal]
  simp only [Out.bind_ok]
  rw [padd64_ok (by omega)]
  simp only [Out.bind_ok]
  rw [pmulUsize_ok (by omega)]
  simp only [Out.bind_ok]
  by_cases hc : (le16 img.bytes off + 1) * 2 > len
  · rw [if_pos hc, if_pos hc]
  · rw [if_neg hc, if_neg hc, rawRef_ok_of (by omega) hal]
    rfl

theorem View.dervaWStrChk_eq (v : View) (a : Addr) : v.dervaWStrChk a = v.dervaWStr a := by
  unfold View.dervaWStrChk View.dervaWStr
  rw [v.atChk_eq a 2 2 (by decide)]
  cases h : v.at a 2 2 with
  | ok r =>
    obtain ⟨⟨hin, hal⟩, hm, hra⟩ := v.at_sound a 2 2 r h
    rw [hra] at hal
    dsimp only
    rw [wstrFromBytesChk_eq v.img r.off r.len hin hm hal]
    show _ = (match wstrFromBytes v.img.bytes r.off r.len with
      | some c => Out.ok c | none => .err .encoding)
    cases wstrFromBytes v.img.bytes r.off r.len <;> rfl
  | _ => rfl

/-! ### conversions -/

theorem copyFitsChk_eq (file : String) (vec image : Bytes) (doff dlen soff slen : Nat) :
    copyFitsChk file vec image doff dlen soff slen = .ok (blit vec doff image soff (min dlen slen)) := by
  unfold copyFitsChk
  dsimp only
  rw [pIndexTo_ok (Nat.min_le_left _ _)]
  simp only [Out.bind_ok]
  rw [pIndexTo_ok (Nat.min_le_right _ _)]
  simp only [Out.bind_ok]
  rw [pCopyLen_ok rfl]
  rfl

theorem toViewStepChk_eq (image vec : Bytes) (s : Sec) :
    toViewStepChk image vec s = .ok (toViewStep image vec s) := by
  unfold toViewStepChk toViewStep getRange
  dsimp only
  by_cases h1 : s.va ≤ wadd32 s.va s.vs ∧ wadd32 s.va s.vs ≤ vec.size
  · by_cases h2 : s.prd ≤ wadd32 s.prd s.rs ∧ wadd32 s.prd s.rs ≤ image.size
    · rw [if_pos h1, if_pos h2, if_pos ⟨h1.1, h1.2, h2.1, h2.2⟩]
      exact copyFitsChk_eq ..
    · have hbig : ¬ (s.va ≤ wadd32 s.va s.vs ∧ wadd32 s.va s.vs ≤ vec.size ∧
          s.prd ≤ wadd32 s.prd s.rs ∧ wadd32 s.prd s.rs ≤ image.size) := fun h => h2 ⟨h.2.2.1, h.2.2.2⟩
      rw [if_pos h1, if_neg h2, if_neg hbig]
  · have hbig : ¬ (s.va ≤ wadd32 s.va s.vs ∧ wadd32 s.va s.vs ≤ vec.size ∧
        s.prd ≤ wadd32 s.prd s.rs ∧ wadd32 s.prd s.rs ≤ image.size) := fun h => h1 ⟨h.1, h.2.1⟩
    rw [if_neg h1, if_neg hbig]

theorem toFileStepChk_eq (image vec : Bytes) (s : Sec) :
    toFileStepChk image vec s = .ok (toFileStep image vec s) := by
  unfold toFileStepChk toFileStep getRange
  dsimp only
  by_cases h1 : s.prd ≤ min (wadd32 s.prd s.rs) vec.size ∧ min (wadd32 s.prd s.rs) vec.size ≤ vec.size
  · by_cases h2 : s.va ≤ wadd32 s.va s.vs ∧ wadd32 s.va s.vs ≤ image.size
    · rw [if_pos h1, if_pos h2, if_pos ⟨h1.1, h1.2, h2.1, h2.2⟩]
      exact copyFitsChk_eq ..
    · have hbig : ¬ (s.prd ≤ min (wadd32 s.prd s.rs) vec.size ∧ min (wadd32 s.prd s.rs) vec.size ≤ vec.size ∧
          s.va ≤ wadd32 s.va s.vs ∧ wadd32 s.va s.vs ≤ image.size) := fun h => h2 ⟨h.2.2.1, h.2.2.2⟩
      rw [if_pos h1, if_neg h2, if_neg hbig]
  · have hbig : ¬ (s.prd ≤ min (wadd32 s.prd s.rs) vec.size ∧ min (wadd32 s.prd s.rs) vec.size ≤ vec.size ∧
        s.va ≤ wadd32 s.va s.vs ∧ wadd32 s.va s.vs ≤ image.size) := fun h => h1 ⟨h.1, h.2.1⟩
    rw [if_neg h1, if_neg hbig]

theorem foldSecsChk_ok (step : Bytes → Sec → Out Bytes) (step' : Bytes → Sec → Bytes)
    (h : ∀ vec s, step vec s = .ok (step' vec s)) :
    ∀ (secs : List Sec) (vec : Bytes), foldSecsChk step secs vec = .ok (secs.foldl step' vec) := by
  intro secs
  induction secs with
  | nil => intro vec; rfl
  | cons s rest ih =>
    intro vec
    unfold foldSecsChk
    rw [h vec s]
    simp only [Out.bind_ok]
    exact ih _

theorem copyHeadersChk_eq (file : String) (vec image : Bytes) (soh : Nat) (h1 : soh ≤ vec.size)
    (h2 : soh ≤ image.size) : copyHeadersChk file vec image soh = .ok (blit vec 0 image 0 soh) := by
  unfold copyHeadersChk
  rw [if_neg (by omega), if_neg (by omega), pCopyLen_ok rfl]
  rfl

theorem View.toViewChk_eq (v : View) (h1 : sizeOfHeaders v.b ≤ sizeOfImage v.b)
    (h2 : sizeOfHeaders v.b ≤ v.b.size) : v.toViewChk = .ok v.toView := by
  unfold View.toViewChk View.toView
  dsimp only
  rw [copyHeadersChk_eq _ _ _ _ (by rw [Array.size_replicate]; exact h1) h2]
  simp only [Out.bind_ok]
  exact foldSecsChk_ok _ _ (toViewStepChk_eq v.b) _ _

theorem View.toFileChk_eq (v : View) (h1 : sizeOfHeaders v.b ≤ v.fileSize)
    (h2 : sizeOfHeaders v.b ≤ v.b.size) : v.toFileChk = .ok v.toFile := by
  unfold View.toFileChk View.toFile
  dsimp only
  rw [copyHeadersChk_eq _ _ _ _ (by rw [Array.size_replicate]; exact h1) h2]
  simp only [Out.bind_ok]
  exact foldSecsChk_ok _ _ (toFileStepChk_eq v.b) _ _

end Pe
end Pelite
