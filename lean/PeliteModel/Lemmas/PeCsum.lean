import PeliteModel.Spec.Pe
/-! Helper lemmas for the checksum clause of C07: a relational invariant between the 32-bit
end-around-carry accumulator of `Headers::check_sum` and the 16-bit one's-complement accumulator of
the standard algorithm. -/
namespace Pelite.Pe

/-- the relation kept between the 32-bit accumulator of `check_sum` and the 16-bit accumulator of the
standard algorithm: same residue mod 65535, both zero or both non-zero -/
def CsRel (a32 a16 : Nat) : Prop :=
  a32 < 4294967296 ∧ a16 < 65536 ∧ a32 % 65535 = a16 % 65535 ∧ (a32 = 0 ↔ a16 = 0)

theorem csRel_zero : CsRel 0 0 := by unfold CsRel; omega

/-- one dword step = two word steps -/
theorem csRel_step {a32 a16 lo hi : Nat} (h : CsRel a32 a16) (hlo : lo < 65536) (hhi : hi < 65536) :
    CsRel (csumStep a32 (lo + 65536 * hi)) (foldCarry16 (foldCarry16 (a16 + lo) + hi)) := by
  unfold CsRel csumStep foldCarry16 at *
  dsimp only
  split <;> omega

/-- one dword step with a zero high word = one word step -/
theorem csRel_step1 {a32 a16 lo : Nat} (h : CsRel a32 a16) (hlo : lo < 65536) :
    CsRel (csumStep a32 (lo + 65536 * 0)) (foldCarry16 (a16 + lo)) := by
  unfold CsRel csumStep foldCarry16 at *
  dsimp only
  split <;> omega

theorem csRel_skip {a32 a16 : Nat} (h : CsRel a32 a16) :
    CsRel a32 (foldCarry16 (foldCarry16 (a16 + 0) + 0)) := by
  unfold CsRel foldCarry16 at *
  omega

theorem byteAt_of_ge (b : Bytes) (i : Nat) (h : b.size ≤ i) : byteAt b i = 0 := by
  unfold byteAt
  simp [Array.getD, Nat.not_lt.2 h]

theorem le16_of_ge (b : Bytes) (i : Nat) (h : b.size ≤ i) : le16 b i = 0 := by
  unfold le16
  rw [byteAt_of_ge b i h, byteAt_of_ge b (i + 1) (by omega)]

theorem le32_eq_le16 (b : Bytes) (i : Nat) : le32 b i = le16 b i + 65536 * le16 b (i + 2) := by
  unfold le32 le16
  have : i + 2 + 1 = i + 3 := rfl
  rw [this]; omega

/-- `fuel` dwords against `2 * fuel` words, leaving the last `t` words of the word loop -/
theorem csRel_loop (b : Bytes) (pos n t : Nat) (hn : (b.size + 1) / 2 = 2 * n + t) :
    ∀ fuel a32 a16, fuel ≤ n → CsRel a32 a16 →
      ∃ a16', CsRel (csumLoop b pos n fuel a32) a16' ∧
        stdSum16 b (2 * pos) (2 * fuel + t) a16 = stdSum16 b (2 * pos) t a16' := by
  intro fuel
  induction fuel with
  | zero => intro a32 a16 _ h; exact ⟨a16, by simpa [csumLoop] using h, by simp⟩
  | succ fuel ih =>
    intro a32 a16 hf h
    have e2 : 2 * (fuel + 1) + t = (2 * fuel + t + 1) + 1 := by omega
    rw [e2]
    simp only [stdSum16, csumLoop]
    apply ih _ _ (by omega)
    generalize hi : n - (fuel + 1) = i
    have i1 : (b.size + 1) / 2 - (2 * fuel + t + 1 + 1) = 2 * i := by omega
    have i2 : (b.size + 1) / 2 - (2 * fuel + t + 1) = 2 * i + 1 := by omega
    rw [i1, i2]
    by_cases hp : i = pos
    · have c1 : (2 * i = 2 * pos ∨ 2 * i = 2 * pos + 1) := by omega
      have c2 : (2 * i + 1 = 2 * pos ∨ 2 * i + 1 = 2 * pos + 1) := by omega
      rw [if_pos hp, if_pos c1, if_pos c2]
      exact csRel_skip h
    · have c1 : ¬ (2 * i = 2 * pos ∨ 2 * i = 2 * pos + 1) := by omega
      have c2 : ¬ (2 * i + 1 = 2 * pos ∨ 2 * i + 1 = 2 * pos + 1) := by omega
      rw [if_neg hp, if_neg c1, if_neg c2, le32_eq_le16]
      have j1 : 2 * (2 * i) = 4 * i := by omega
      have j2 : 2 * (2 * i + 1) = 4 * i + 2 := by omega
      rw [j1, j2]
      exact csRel_step h (le16_lt _ _) (le16_lt _ _)

/-- the remaining 1–3 bytes: the tail dword of `check_sum` against the last one or two words -/
theorem csRel_tail (b : Bytes) (pos : Nat) (hp : pos ≠ b.size / 4 ∨ b.size % 4 = 0) {a32 a16 : Nat} (h : CsRel a32 a16) :
    CsRel (if b.size % 4 ≠ 0 then csumStep a32 (le32 b (4 * (b.size / 4))) else a32)
      (stdSum16 b (2 * pos) ((b.size + 1) / 2 - 2 * (b.size / 4)) a16) := by
  generalize hn : b.size / 4 = n at *
  have hr : b.size % 4 = 0 ∨ b.size % 4 = 1 ∨ b.size % 4 = 2 ∨ b.size % 4 = 3 := by omega
  rcases hr with hr | hr | hr | hr
  · have t0 : (b.size + 1) / 2 - 2 * n = 0 := by omega
    rw [t0, if_neg (by omega)]
    simpa [stdSum16] using h
  · have t1 : (b.size + 1) / 2 - 2 * n = 0 + 1 := by omega
    rw [t1, if_pos (by omega)]
    simp only [stdSum16]
    have i1 : (b.size + 1) / 2 - (0 + 1) = 2 * n := by omega
    have c1 : ¬ (2 * n = 2 * pos ∨ 2 * n = 2 * pos + 1) := by omega
    have j1 : 2 * (2 * n) = 4 * n := by omega
    rw [i1, if_neg c1, j1, le32_eq_le16, le16_of_ge b (4 * n + 2) (by omega)]
    exact csRel_step1 h (le16_lt _ _)
  · have t1 : (b.size + 1) / 2 - 2 * n = 0 + 1 := by omega
    rw [t1, if_pos (by omega)]
    simp only [stdSum16]
    have i1 : (b.size + 1) / 2 - (0 + 1) = 2 * n := by omega
    have c1 : ¬ (2 * n = 2 * pos ∨ 2 * n = 2 * pos + 1) := by omega
    have j1 : 2 * (2 * n) = 4 * n := by omega
    rw [i1, if_neg c1, j1, le32_eq_le16, le16_of_ge b (4 * n + 2) (by omega)]
    exact csRel_step1 h (le16_lt _ _)
  · have t2 : (b.size + 1) / 2 - 2 * n = 0 + 1 + 1 := by omega
    rw [t2, if_pos (by omega)]
    simp only [stdSum16]
    have i1 : (b.size + 1) / 2 - (0 + 1 + 1) = 2 * n := by omega
    have i2 : (b.size + 1) / 2 - (0 + 1) = 2 * n + 1 := by omega
    have c1 : ¬ (2 * n = 2 * pos ∨ 2 * n = 2 * pos + 1) := by omega
    have c2 : ¬ (2 * n + 1 = 2 * pos ∨ 2 * n + 1 = 2 * pos + 1) := by omega
    have j1 : 2 * (2 * n) = 4 * n := by omega
    have j2 : 2 * (2 * n + 1) = 4 * n + 2 := by omega
    rw [i1, i2, if_neg c1, if_neg c2, j1, j2, le32_eq_le16]
    exact csRel_step h (le16_lt _ _) (le16_lt _ _)

theorem csRel_final {a32 a16 : Nat} (h : CsRel a32 a16) :
    (a32 % 65536 + a32 / 65536 + (a32 % 65536 + a32 / 65536) / 65536) % 65536 =
      foldCarry16 (foldCarry16 a16) := by
  obtain ⟨h1, h2, h3, h4⟩ := h
  have e16 : foldCarry16 (foldCarry16 a16) = a16 := by unfold foldCarry16; omega
  rw [e16]
  generalize hc : a32 % 65536 + a32 / 65536 = c1
  have hb : c1 ≤ 131070 := by omega
  have hm : c1 % 65535 = a16 % 65535 := by omega
  have hz : c1 = 0 ↔ a16 = 0 := by omega
  clear hc h3 h4 h1
  by_cases hc1 : c1 < 65536
  · by_cases hc2 : c1 < 65535 <;> by_cases hc3 : a16 < 65535 <;> omega
  · by_cases hc3 : a16 < 65535 <;> omega

/-- general form: the tail dword (if any) is not the CheckSum dword -/
theorem checkSum_std_general (v : View) (hl : eLfanew v.img.bytes % 4 = 0)
    (hp : (eLfanew v.img.bytes + 24 + 64) / 4 ≠ v.img.bytes.size / 4 ∨ v.img.bytes.size % 4 = 0) :
    v.checkSum = stdPeChecksum v.img.bytes := by
  unfold View.checkSum stdPeChecksum View.b
  dsimp only
  have hs : (eLfanew v.img.bytes + 24 + 64) / 2 = 2 * ((eLfanew v.img.bytes + 24 + 64) / 4) := by omega
  have hn : (v.img.bytes.size + 1) / 2 =
      2 * (v.img.bytes.size / 4) + ((v.img.bytes.size + 1) / 2 - 2 * (v.img.bytes.size / 4)) := by omega
  obtain ⟨a16, hrel, heq⟩ := csRel_loop v.img.bytes ((eLfanew v.img.bytes + 24 + 64) / 4)
    (v.img.bytes.size / 4) _ hn (v.img.bytes.size / 4) 0 0 (Nat.le_refl _) csRel_zero
  have ht := csRel_tail v.img.bytes _ hp hrel
  rw [← hn] at heq
  rw [hs, heq, csRel_final ht]

theorem checkSum_std (v : View) (hl : eLfanew v.img.bytes % 4 = 0)
    (hpos : eLfanew v.img.bytes + 24 + 64 + 4 ≤ v.img.bytes.size) :
    v.checkSum = stdPeChecksum v.img.bytes :=
  checkSum_std_general v hl (by omega)

end Pelite.Pe
