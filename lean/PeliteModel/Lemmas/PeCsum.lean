import PeliteModel.Spec.Pe
/-! Helper lemmas for the checksum clause of C07: a relational invariant between the 32-bit
end-around-carry accumulator of `Headers::check_sum` and the 16-bit one's-complement accumulator of
the standard algorithm. -/
namespace Pelite.Pe

def CsRel (a32 a16 : Nat) : Prop :=
  a32 < 4294967296 ∧ a16 < 65536 ∧ a32 % 65535 = a16 % 65535 ∧ (a32 = 0 ↔ a16 = 0)

theorem csRel_zero : CsRel 0 0 := by unfold CsRel; omega

theorem csRel_step {a32 a16 lo hi : Nat} (h : CsRel a32 a16) (hlo : lo < 65536) (hhi : hi < 65536) :
    CsRel (csumStep a32 (lo + 65536 * hi)) (foldCarry16 (foldCarry16 (a16 + lo) + hi)) := by
  unfold CsRel csumStep foldCarry16 at *
  dsimp only
  split <;> omega

theorem csRel_skip {a32 a16 : Nat} (h : CsRel a32 a16) :
    CsRel a32 (foldCarry16 (foldCarry16 (a16 + 0) + 0)) := by
  unfold CsRel foldCarry16 at *
  omega

theorem le32_eq_le16 (b : Bytes) (i : Nat) : le32 b i = le16 b i + 65536 * le16 b (i + 2) := by
  unfold le32 le16
  have : i + 2 + 1 = i + 3 := rfl
  rw [this]; omega

theorem csRel_loop (b : Bytes) (pos n : Nat) (hn : b.size / 2 = 2 * n) :
    ∀ fuel a32 a16, fuel ≤ n → CsRel a32 a16 →
      CsRel (csumLoop b pos n fuel a32) (stdSum16 b (2 * pos) (2 * fuel) a16) := by
  intro fuel
  induction fuel with
  | zero => intro a32 a16 _ h; simpa [csumLoop, stdSum16] using h
  | succ fuel ih =>
    intro a32 a16 hf h
    have e2 : 2 * (fuel + 1) = (2 * fuel + 1) + 1 := by omega
    rw [e2]
    simp only [stdSum16, csumLoop]
    apply ih _ _ (by omega)
    generalize hi : n - (fuel + 1) = i
    have i1 : b.size / 2 - (2 * fuel + 1 + 1) = 2 * i := by omega
    have i2 : b.size / 2 - (2 * fuel + 1) = 2 * i + 1 := by omega
    rw [i1, i2]
    by_cases hp : i = pos
    · have c1 : (2 * i = 2 * pos ∨ 2 * i = 2 * pos + 1) := by omega
      have c2 : (2 * i + 1 = 2 * pos ∨ 2 * i + 1 = 2 * pos + 1) := by omega
      rw [if_pos hp, if_pos c1, if_pos c2]
      exact csRel_skip h
    · have c1 : ¬ (2 * i = 2 * pos ∨ 2 * i = 2 * pos + 1) := by omega
      have c2 : ¬ (2 * i + 1 = 2 * pos ∨ 2 * i + 1 = 2 * pos + 1) := by omega
      rw [if_neg hp, if_neg c1, if_neg c2, le32_eq_le16]
      have j1 : 2 * (2 * i) = 4 * i := by omega
      have j2 : 2 * (2 * i + 1) = 4 * i + 2 := by omega
      rw [j1, j2]
      exact csRel_step h (le16_lt _ _) (le16_lt _ _)

theorem csRel_final {a32 a16 : Nat} (h : CsRel a32 a16) :
    (a32 % 65536 + a32 / 65536 + (a32 % 65536 + a32 / 65536) / 65536) % 65536 =
      foldCarry16 (foldCarry16 a16) := by
  obtain ⟨h1, h2, h3, h4⟩ := h
  have e16 : foldCarry16 (foldCarry16 a16) = a16 := by unfold foldCarry16; omega
  rw [e16]
  generalize hc : a32 % 65536 + a32 / 65536 = c1
  have hb : c1 ≤ 131070 := by omega
  have hm : c1 % 65535 = a16 % 65535 := by omega
  have hz : c1 = 0 ↔ a16 = 0 := by omega
  clear hc h3 h4 h1
  by_cases hc1 : c1 < 65536
  · by_cases hc2 : c1 < 65535 <;> by_cases hc3 : a16 < 65535 <;> omega
  · by_cases hc3 : a16 < 65535 <;> omega


theorem checkSum_std (v : View) (h4 : v.img.bytes.size % 4 = 0) (hl : eLfanew v.img.bytes % 4 = 0) :
    v.checkSum = stdPeChecksum v.img.bytes := by
  unfold View.checkSum stdPeChecksum View.b
  dsimp only
  have hn : v.img.bytes.size / 2 = 2 * (v.img.bytes.size / 4) := by omega
  have hs : (eLfanew v.img.bytes + 24 + 64) / 2 = 2 * ((eLfanew v.img.bytes + 24 + 64) / 4) := by omega
  have := csRel_loop v.img.bytes ((eLfanew v.img.bytes + 24 + 64) / 4) (v.img.bytes.size / 4) hn
    (v.img.bytes.size / 4) 0 0 (Nat.le_refl _) csRel_zero
  rw [hs, hn, csRel_final this]

end Pelite.Pe
