import PeliteModel.Spec.Pe
import PeliteModel.Spec.PeFormat
/-! Helper lemmas for C07 (property theorems live in Thm/C07.lean): `validate` as an if-chain,
`fromBytes` / `wrapFromBytes` in terms of `Accept`, header refs, section table, lookups. -/
namespace Pelite.Pe

theorem ite_err_eq_ok {α} {c : Prop} [Decidable c] {e : Err} {x : Out α} {n : α} :
    ((if c then Out.err e else x) = Out.ok n) ↔ (¬ c ∧ x = Out.ok n) := by
  split <;> simp [*]

theorem validate_ok_iff (f : Fmt) (img : Img) (n : Nat) :
    validate f img = .ok n ↔ Accept f img ∧ n = sizeOfImage img.bytes := by
  unfold validate Accept
  dsimp only
  iterate 15 rw [ite_err_eq_ok]
  rw [Out.ok.injEq]
  simp only [ntEnd, secTable, numDataDirs, optOff]
  cases f <;> simp only [Fmt.ntSize, Fmt.magic] <;> omega

/-- an outcome that is a value or a typed error: no panic, no UB, no divergence -/
def OkOrErr {α} (o : Out α) : Prop := (∃ n, o = .ok n) ∨ (∃ e, o = .err e)

theorem okOrErr_ite {α} {c : Prop} [Decidable c] {e : Err} {x : Out α} (h : OkOrErr x) :
    OkOrErr (if c then Out.err e else x) := by
  split
  · exact .inr ⟨_, rfl⟩
  · exact h

theorem validate_okOrErr (f : Fmt) (img : Img) : OkOrErr (validate f img) := by
  unfold validate
  dsimp only
  iterate 15 apply okOrErr_ite
  exact .inl ⟨_, rfl⟩

theorem validate_other_format (f g : Fmt) (hfg : f ≠ g) (img : Img) (h : Accept g img) :
    validate f img = .err .peMagic := by
  unfold Accept at h
  dsimp only at h
  obtain ⟨h1, h2, h3, h4, h5, h6, h7, h8, -⟩ := h
  have hg : 24 + 2 ≤ g.ntSize := by cases g <;> decide
  have hm : g.magic = 267 ∨ g.magic = 523 := by cases g <;> simp [Fmt.magic]
  have hne : g.magic ≠ f.magic := by cases f <;> cases g <;> simp_all [Fmt.magic]
  unfold validate
  dsimp only
  rw [if_neg (by omega), if_neg (by omega), if_neg (by omega), if_neg (by omega), if_neg (by omega),
    if_neg (by omega), if_neg (by omega), if_pos (by omega)]

theorem fromBytes_ok_iff (f : Fmt) (k : Kind) (img : Img) (v : View) :
    fromBytes f k img = .ok v ↔ Accept f img ∧ v = ⟨img, f, k, imageBaseField f img.bytes⟩ := by
  unfold fromBytes
  constructor
  · intro h
    split at h <;> try cases h
    rename_i n hn
    exact ⟨((validate_ok_iff f img n).1 hn).1, rfl⟩
  · rintro ⟨ha, rfl⟩
    have := (validate_ok_iff f img _).2 ⟨ha, rfl⟩
    rw [this]

theorem fromBytes_err_of_validate {f : Fmt} {k : Kind} {img : Img} {e : Err} (h : validate f img = .err e) :
    fromBytes f k img = .err e := by
  unfold fromBytes; rw [h]

theorem fromBytes_err_imp {f : Fmt} {k : Kind} {img : Img} {e : Err} (h : fromBytes f k img = .err e) :
    validate f img = .err e := by
  unfold fromBytes at h
  split at h <;> first | cases h | skip
  assumption

theorem wrap_ok_imp (k : Kind) (img : Img) (v : View) (h : wrapFromBytes k img = .ok v) :
    fromBytes v.fmt k img = .ok v := by
  unfold wrapFromBytes at h
  split at h
  · rename_i w hw
    cases h
    have := ((fromBytes_ok_iff _ _ _ _).1 hw).2
    have hf : v.fmt = .pe64 := by rw [this]
    rw [hf]; exact hw
  · have := ((fromBytes_ok_iff _ _ _ _).1 h).2
    have hf : v.fmt = .pe32 := by rw [this]
    rw [hf]; exact h
  · rename_i o h1 h2
    exact absurd h (h1 v)

theorem wrap_complete (f : Fmt) (k : Kind) (img : Img) (v : View) (h : fromBytes f k img = .ok v) :
    wrapFromBytes k img = .ok v := by
  cases f
  · have ha := ((fromBytes_ok_iff _ _ _ _).1 h).1
    have := fromBytes_err_of_validate (k := k) (validate_other_format .pe64 .pe32 (by decide) img ha)
    unfold wrapFromBytes
    rw [this]; exact h
  · unfold wrapFromBytes
    rw [h]

theorem header_refs_ok (f : Fmt) (k : Kind) (img : Img) (v : View) (h : fromBytes f k img = .ok v) :
    RefOK img v.dosHeader ∧ RefOK img v.dosImage ∧ RefOK img v.ntHeaders ∧ RefOK img v.fileHeader ∧
    RefOK img v.optionalHeader ∧ RefOK img v.dataDirectory ∧ RefOK img v.sectionHeaders ∧
    RefOK img v.headersImage ∧
    v.dataDirectory.len = 8 * min (numberOfRvaAndSizes f img.bytes) 16 ∧
    v.sectionHeaders.off = eLfanew img.bytes + 24 + sizeOfOptionalHeader img.bytes ∧
    v.sectionHeaders.len = 40 * numberOfSections img.bytes := by
  obtain ⟨ha, rfl⟩ := (fromBytes_ok_iff _ _ _ _).1 h
  unfold Accept at ha
  dsimp only at ha
  simp only [RefOK, View.dosHeader, View.dosImage, View.ntHeaders, View.fileHeader, View.optionalHeader,
    View.dataDirectory, View.sectionHeaders, View.headersImage, View.b, ntEnd, secTable, numDataDirs, optOff]
  cases f <;> simp only [Fmt.ntSize, Fmt.optSize] at *
  all_goals (and_intros <;> first | trivial | omega)

theorem sections_in_range (b : Bytes) : ∀ s ∈ sections b, s.InRange := by
  intro s hs
  simp only [sections, List.mem_map] at hs
  obtain ⟨i, -, rfl⟩ := hs
  exact ⟨le32_lt _ _, le32_lt _ _, le32_lt _ _, le32_lt _ _⟩

theorem sections_length (b : Bytes) : (sections b).length = numberOfSections b := by
  simp [sections]

theorem byRva_eq_findIdx (secs : List Sec) (rva : Nat) :
    byRva secs rva = secs.findIdx? (fun s => decide (s.va ≤ rva ∧ rva < (s.va + s.vs) % 4294967296)) := by
  induction secs with
  | nil => rfl
  | cons s rest ih =>
    simp only [byRva, List.findIdx?_cons, wadd32, ge_iff_le, ih]
    split <;> simp_all

theorem byName_eq_findIdx (secs : List Sec) (lo hi : Nat) :
    byName secs lo hi = secs.findIdx? (fun s => decide (s.nameLo = lo ∧ s.nameHi = hi)) := by
  induction secs with
  | nil => rfl
  | cons s rest ih =>
    simp only [byName, List.findIdx?_cons, ih]
    split <;> simp_all

/-! ### `by_name` on the query bytes -/

theorem nameBuf_aux (n : Bytes) : ∀ k, k ≤ 8 →
    ((List.range k).foldl (fun buf i => buf.setIfInBounds i (n.getD i 0)) (Array.replicate 8 (0:UInt8))).size = 8 ∧
    ∀ j, ((List.range k).foldl (fun buf i => buf.setIfInBounds i (n.getD i 0)) (Array.replicate 8 (0:UInt8))).getD j 0 =
      if j < k then n.getD j 0 else 0 := by
  intro k
  induction k with
  | zero =>
    intro _
    refine ⟨by simp, fun j => ?_⟩
    simp [Array.getD_eq_getD_getElem?, Array.getElem?_replicate]
    split <;> rfl
  | succ k ih =>
    intro hk
    obtain ⟨h1, h2⟩ := ih (by omega)
    rw [List.range_succ, List.foldl_append, List.foldl_cons, List.foldl_nil]
    refine ⟨by rw [Array.size_setIfInBounds]; exact h1, fun j => ?_⟩
    rw [Array.getD_eq_getD_getElem?, Array.getElem?_setIfInBounds]
    by_cases hj : k = j
    · subst hj
      rw [if_pos rfl, if_pos (by omega), if_pos (by omega)]
      rfl
    · rw [if_neg hj, ← Array.getD_eq_getD_getElem?, h2 j]
      by_cases hjk : j < k
      · rw [if_pos hjk, if_pos (by omega)]
      · rw [if_neg hjk, if_neg (by omega)]

theorem byteAt_nameBuf (n : Bytes) (h : n.size ≤ 8) (j : Nat) :
    byteAt (nameBuf n) j = if j < n.size then byteAt n j else 0 := by
  unfold byteAt nameBuf
  rw [(nameBuf_aux n n.size h).2 j]
  split <;> rfl


theorem forall_lt_8 (P : Nat → Prop) :
    (∀ j, j < 8 → P j) ↔ P 0 ∧ P 1 ∧ P 2 ∧ P 3 ∧ P 4 ∧ P 5 ∧ P 6 ∧ P 7 := by
  constructor
  · intro h
    exact ⟨h 0 (by omega), h 1 (by omega), h 2 (by omega), h 3 (by omega), h 4 (by omega), h 5 (by omega),
      h 6 (by omega), h 7 (by omega)⟩
  · rintro ⟨h0, h1, h2, h3, h4, h5, h6, h7⟩ j hj
    have : j = 0 ∨ j = 1 ∨ j = 2 ∨ j = 3 ∨ j = 4 ∨ j = 5 ∨ j = 6 ∨ j = 7 := by omega
    rcases this with rfl | rfl | rfl | rfl | rfl | rfl | rfl | rfl <;> assumption

theorem findIdx?_congr' {α} (l : List α) (p q : α → Bool) (h : ∀ a ∈ l, p a = q a) :
    l.findIdx? p = l.findIdx? q := by
  induction l with
  | nil => rfl
  | cons a rest ih =>
    rw [List.findIdx?_cons, List.findIdx?_cons, h a List.mem_cons_self,
      ih (fun b hb => h b (List.mem_cons_of_mem _ hb))]

/-- a `u32` equals the little-endian value of four bytes iff its four bytes are those -/
theorem le32_eq_iff_bytes (x : Nat) (hx : x < 4294967296) (b : Bytes) (o : Nat) :
    x = le32 b o ↔ x % 256 = byteAt b o ∧ x / 256 % 256 = byteAt b (o + 1) ∧
      x / 65536 % 256 = byteAt b (o + 2) ∧ x / 16777216 % 256 = byteAt b (o + 3) := by
  have := byteAt_lt b o; have := byteAt_lt b (o+1); have := byteAt_lt b (o+2); have := byteAt_lt b (o+3)
  unfold le32
  omega

theorem name_match_iff (s : Sec) (hlo : s.nameLo < 4294967296) (hhi : s.nameHi < 4294967296)
    (n : Bytes) (hn : n.size ≤ 8) :
    (s.nameLo = le32 (nameBuf n) 0 ∧ s.nameHi = le32 (nameBuf n) 4) ↔
      ∀ j, j < 8 → s.nameByte j = paddedName n j := by
  rw [forall_lt_8, le32_eq_iff_bytes _ hlo, le32_eq_iff_bytes _ hhi]
  simp only [Sec.nameByte, paddedName, byteAt_nameBuf n hn, Nat.zero_add, and_assoc]

theorem byNameBytes_eq (secs : List Sec) (hs : ∀ s ∈ secs, s.nameLo < 4294967296 ∧ s.nameHi < 4294967296)
    (n : Bytes) :
    byNameBytes secs n =
      if n.size > 8 then none
      else secs.findIdx? (fun s : Sec => decide (∀ j : Nat, j < 8 → s.nameByte j = paddedName n j)) := by
  unfold byNameBytes
  by_cases hn : n.size > 8
  · rw [if_pos hn, if_pos hn]
  · rw [if_neg hn, if_neg hn]
    dsimp only
    rw [byName_eq_findIdx]
    apply findIdx?_congr'
    intro s hm
    obtain ⟨h1, h2⟩ := hs s hm
    have := name_match_iff s h1 h2 n (by omega)
    simp only [this]

theorem sections_name_lt (b : Bytes) : ∀ s ∈ sections b, s.nameLo < 4294967296 ∧ s.nameHi < 4294967296 := by
  intro s hs
  simp only [sections, List.mem_map] at hs
  obtain ⟨i, -, rfl⟩ := hs
  exact ⟨le32_lt _ _, le32_lt _ _⟩

theorem le32_four_bytes (b : Bytes) (o : Nat) :
    le32 b o % 256 = byteAt b o ∧ le32 b o / 256 % 256 = byteAt b (o + 1) ∧
    le32 b o / 65536 % 256 = byteAt b (o + 2) ∧ le32 b o / 16777216 % 256 = byteAt b (o + 3) := by
  have := byteAt_lt b o; have := byteAt_lt b (o+1); have := byteAt_lt b (o+2); have := byteAt_lt b (o+3)
  unfold le32
  omega

theorem secAt_nameByte (b : Bytes) (o j : Nat) (hj : j < 8) : (secAt b o).nameByte j = byteAt b (o + j) := by
  have : j = 0 ∨ j = 1 ∨ j = 2 ∨ j = 3 ∨ j = 4 ∨ j = 5 ∨ j = 6 ∨ j = 7 := by omega
  obtain ⟨a0, a1, a2, a3⟩ := le32_four_bytes b o
  obtain ⟨c0, c1, c2, c3⟩ := le32_four_bytes b (o + 4)
  rcases this with rfl | rfl | rfl | rfl | rfl | rfl | rfl | rfl
  · exact a0
  · exact a1
  · exact a2
  · exact a3
  · exact c0
  · exact c1
  · exact c2
  · exact c3

/-! ### two small hand-built images (non-vacuity witnesses of `Accept`, used by C06 and C07) -/

/-- A 288-byte PE32 file: e_lfanew = 64, two data directory entries, two sections, SizeOfHeaders = 280,
SizeOfImage = 296.  Section ".a" is stored and mapped at the same place (280, 4 bytes); section
".bss" has 4 stored bytes at file offset 284 mapped at 288 and 4 more virtual-only bytes. -/
def twoSecPe32 : Bytes := #[
    -- 0: "MZ" … e_lfanew = 64
    77, 90, 0, 0, 0, 0, 0, 0, 0, 0, 0, 0, 0, 0, 0, 0, 0, 0, 0, 0, 0, 0, 0, 0, 0, 0, 0, 0, 0, 0, 0, 0, 0, 0,
    0, 0, 0, 0, 0, 0, 0, 0, 0, 0, 0, 0, 0, 0, 0, 0, 0, 0, 0, 0, 0, 0, 0, 0, 0, 0, 64, 0, 0, 0,
    -- 64: "PE\0\0"
    80, 69, 0, 0,
    -- 68: file header: NumberOfSections = 2, SizeOfOptionalHeader = 112
    0, 0, 2, 0, 0, 0, 0, 0, 0, 0, 0, 0, 0, 0, 0, 0, 112, 0, 0, 0,
    -- 88: optional header: Magic = 0x10b, ImageBase = 0x400000
    11, 1, 0, 0, 0, 0, 0, 0, 0, 0, 0, 0, 0, 0, 0, 0, 0, 0, 0, 0, 0, 0, 0, 0, 0, 0, 0, 0, 0, 0, 64, 0, 0, 0,
    0, 0, 0, 0, 0, 0, 0, 0, 0, 0, 0, 0, 0, 0, 0, 0, 0, 0, 0, 0, 0, 0,
    -- 144: SizeOfImage = 296, SizeOfHeaders = 280, CheckSum = 0 … NumberOfRvaAndSizes = 2
    40, 1, 0, 0, 24, 1, 0, 0, 0, 0, 0, 0, 0, 0, 0, 0, 0, 0, 0, 0, 0, 0, 0, 0, 0, 0, 0, 0, 0, 0, 0, 0, 0, 0,
    0, 0, 2, 0, 0, 0,
    -- 184: data directory: (288, 4), (0, 0)
    32, 1, 0, 0, 4, 0, 0, 0, 0, 0, 0, 0, 0, 0, 0, 0,
    -- 200: ".a": VirtualSize 4, VirtualAddress 280, SizeOfRawData 4, PointerToRawData 280
    46, 97, 0, 0, 0, 0, 0, 0, 4, 0, 0, 0, 24, 1, 0, 0, 4, 0, 0, 0, 24, 1, 0, 0, 0, 0, 0, 0, 0, 0, 0, 0, 0, 0,
    0, 0, 0, 0, 0, 0,
    -- 240: ".bss": VirtualSize 8, VirtualAddress 288, SizeOfRawData 4, PointerToRawData 284
    46, 98, 115, 115, 0, 0, 0, 0, 8, 0, 0, 0, 32, 1, 0, 0, 4, 0, 0, 0, 28, 1, 0, 0, 0, 0, 0, 0, 0, 0, 0, 0,
    0, 0, 0, 0, 0, 0, 0, 0,
    -- 280: raw data of ".a": "ab\0", 1
    97, 98, 0, 1,
    -- 284: raw data of ".bss": the u16 table 5, 0xffff (mapped at 288; 292..296 is zero fill)
    5, 0, 255, 255]

/-- A 252-byte PE32+ file: e_lfanew = 64, one data directory entry, one section (4 stored bytes at 248,
VirtualSize 8), SizeOfHeaders = 248, SizeOfImage = 256. -/
def onePe64 : Bytes := #[
    -- 0: "MZ" … e_lfanew = 64
    77, 90, 0, 0, 0, 0, 0, 0, 0, 0, 0, 0, 0, 0, 0, 0, 0, 0, 0, 0, 0, 0, 0, 0, 0, 0, 0, 0, 0, 0, 0, 0, 0, 0,
    0, 0, 0, 0, 0, 0, 0, 0, 0, 0, 0, 0, 0, 0, 0, 0, 0, 0, 0, 0, 0, 0, 0, 0, 0, 0, 64, 0, 0, 0,
    -- 64: "PE\0\0"
    80, 69, 0, 0,
    -- 68: file header: Machine = 0x8664, NumberOfSections = 1, SizeOfOptionalHeader = 120
    100, 134, 1, 0, 0, 0, 0, 0, 0, 0, 0, 0, 0, 0, 0, 0, 120, 0, 0, 0,
    -- 88: optional header: Magic = 0x20b, ImageBase = 0x1_4000_0000 (u64 at +24)
    11, 2, 0, 0, 0, 0, 0, 0, 0, 0, 0, 0, 0, 0, 0, 0, 0, 0, 0, 0, 0, 0, 0, 0, 0, 0, 0, 64, 1, 0, 0, 0, 0, 0,
    0, 0, 0, 0, 0, 0, 0, 0, 0, 0, 0, 0, 0, 0, 0, 0, 0, 0, 0, 0, 0, 0,
    -- 144: SizeOfImage = 256, SizeOfHeaders = 248 … NumberOfRvaAndSizes = 1 (at +108)
    0, 1, 0, 0, 248, 0, 0, 0, 0, 0, 0, 0, 0, 0, 0, 0, 0, 0, 0, 0, 0, 0, 0, 0, 0, 0, 0, 0, 0, 0, 0, 0, 0, 0,
    0, 0, 0, 0, 0, 0, 0, 0, 0, 0, 0, 0, 0, 0, 0, 0, 0, 0, 1, 0, 0, 0,
    -- 200: data directory: (248, 4)
    248, 0, 0, 0, 4, 0, 0, 0,
    -- 208: ".t": VirtualSize 8, VirtualAddress 248, SizeOfRawData 4, PointerToRawData 248
    46, 116, 0, 0, 0, 0, 0, 0, 8, 0, 0, 0, 248, 0, 0, 0, 4, 0, 0, 0, 248, 0, 0, 0, 0, 0, 0, 0, 0, 0, 0, 0, 0,
    0, 0, 0, 0, 0, 0, 0,
    -- 248: raw data
    1, 2, 3, 4]

end Pelite.Pe
