import PeliteModel.Spec.Pe
/-! Helper lemmas for C07 (property theorems live in Thm/C07.lean): `validate` as an if-chain,
`fromBytes` / `wrapFromBytes` in terms of `Accept`, header refs, section table, lookups. -/
namespace Pelite.Pe

theorem ite_err_eq_ok {α} {c : Prop} [Decidable c] {e : Err} {x : Out α} {n : α} :
    ((if c then Out.err e else x) = Out.ok n) ↔ (¬ c ∧ x = Out.ok n) := by
  split <;> simp [*]

theorem validate_ok_iff (f : Fmt) (img : Img) (n : Nat) :
    validate f img = .ok n ↔ Accept f img ∧ n = sizeOfImage img.bytes := by
  unfold validate Accept
  dsimp only
  iterate 15 rw [ite_err_eq_ok]
  rw [Out.ok.injEq]
  simp only [ntEnd, secTable, numDataDirs, optOff]
  cases f <;> simp only [Fmt.ntSize, Fmt.magic] <;> omega

/-- an outcome that is a value or a typed error: no panic, no UB, no divergence -/
def OkOrErr {α} (o : Out α) : Prop := (∃ n, o = .ok n) ∨ (∃ e, o = .err e)

theorem okOrErr_ite {α} {c : Prop} [Decidable c] {e : Err} {x : Out α} (h : OkOrErr x) :
    OkOrErr (if c then Out.err e else x) := by
  split
  · exact .inr ⟨_, rfl⟩
  · exact h

theorem validate_okOrErr (f : Fmt) (img : Img) : OkOrErr (validate f img) := by
  unfold validate
  dsimp only
  iterate 15 apply okOrErr_ite
  exact .inl ⟨_, rfl⟩

theorem validate_other_format (f g : Fmt) (hfg : f ≠ g) (img : Img) (h : Accept g img) :
    validate f img = .err .peMagic := by
  unfold Accept at h
  dsimp only at h
  obtain ⟨h1, h2, h3, h4, h5, h6, h7, h8, -⟩ := h
  have hg : 24 + 2 ≤ g.ntSize := by cases g <;> decide
  have hm : g.magic = 267 ∨ g.magic = 523 := by cases g <;> simp [Fmt.magic]
  have hne : g.magic ≠ f.magic := by cases f <;> cases g <;> simp_all [Fmt.magic]
  unfold validate
  dsimp only
  rw [if_neg (by omega), if_neg (by omega), if_neg (by omega), if_neg (by omega), if_neg (by omega),
    if_neg (by omega), if_neg (by omega), if_pos (by omega)]

theorem fromBytes_ok_iff (f : Fmt) (k : Kind) (img : Img) (v : View) :
    fromBytes f k img = .ok v ↔ Accept f img ∧ v = ⟨img, f, k, imageBaseField f img.bytes⟩ := by
  unfold fromBytes
  constructor
  · intro h
    split at h <;> try cases h
    rename_i n hn
    exact ⟨((validate_ok_iff f img n).1 hn).1, rfl⟩
  · rintro ⟨ha, rfl⟩
    have := (validate_ok_iff f img _).2 ⟨ha, rfl⟩
    rw [this]

theorem fromBytes_err_of_validate {f : Fmt} {k : Kind} {img : Img} {e : Err} (h : validate f img = .err e) :
    fromBytes f k img = .err e := by
  unfold fromBytes; rw [h]

theorem fromBytes_err_imp {f : Fmt} {k : Kind} {img : Img} {e : Err} (h : fromBytes f k img = .err e) :
    validate f img = .err e := by
  unfold fromBytes at h
  split at h <;> first | cases h | skip
  assumption

theorem wrap_ok_imp (k : Kind) (img : Img) (v : View) (h : wrapFromBytes k img = .ok v) :
    fromBytes v.fmt k img = .ok v := by
  unfold wrapFromBytes at h
  split at h
  · rename_i w hw
    cases h
    have := ((fromBytes_ok_iff _ _ _ _).1 hw).2
    have hf : v.fmt = .pe64 := by rw [this]
    rw [hf]; exact hw
  · have := ((fromBytes_ok_iff _ _ _ _).1 h).2
    have hf : v.fmt = .pe32 := by rw [this]
    rw [hf]; exact h
  · rename_i o h1 h2
    exact absurd h (h1 v)

theorem wrap_complete (f : Fmt) (k : Kind) (img : Img) (v : View) (h : fromBytes f k img = .ok v) :
    wrapFromBytes k img = .ok v := by
  cases f
  · have ha := ((fromBytes_ok_iff _ _ _ _).1 h).1
    have := fromBytes_err_of_validate (k := k) (validate_other_format .pe64 .pe32 (by decide) img ha)
    unfold wrapFromBytes
    rw [this]; exact h
  · unfold wrapFromBytes
    rw [h]

theorem header_refs_ok (f : Fmt) (k : Kind) (img : Img) (v : View) (h : fromBytes f k img = .ok v) :
    RefOK img v.dosHeader ∧ RefOK img v.dosImage ∧ RefOK img v.ntHeaders ∧ RefOK img v.fileHeader ∧
    RefOK img v.optionalHeader ∧ RefOK img v.dataDirectory ∧ RefOK img v.sectionHeaders ∧
    RefOK img v.headersImage ∧
    v.dataDirectory.len = 8 * min (numberOfRvaAndSizes f img.bytes) 16 ∧
    v.sectionHeaders.off = eLfanew img.bytes + 24 + sizeOfOptionalHeader img.bytes ∧
    v.sectionHeaders.len = 40 * numberOfSections img.bytes := by
  obtain ⟨ha, rfl⟩ := (fromBytes_ok_iff _ _ _ _).1 h
  unfold Accept at ha
  dsimp only at ha
  simp only [RefOK, View.dosHeader, View.dosImage, View.ntHeaders, View.fileHeader, View.optionalHeader,
    View.dataDirectory, View.sectionHeaders, View.headersImage, View.b, ntEnd, secTable, numDataDirs, optOff]
  cases f <;> simp only [Fmt.ntSize, Fmt.optSize] at *
  all_goals (and_intros <;> first | trivial | omega)

theorem sections_in_range (b : Bytes) : ∀ s ∈ sections b, s.InRange := by
  intro s hs
  simp only [sections, List.mem_map] at hs
  obtain ⟨i, -, rfl⟩ := hs
  exact ⟨le32_lt _ _, le32_lt _ _, le32_lt _ _, le32_lt _ _⟩

theorem sections_length (b : Bytes) : (sections b).length = numberOfSections b := by
  simp [sections]

theorem byRva_eq_findIdx (secs : List Sec) (rva : Nat) :
    byRva secs rva = secs.findIdx? (fun s => decide (s.va ≤ rva ∧ rva < (s.va + s.vs) % 4294967296)) := by
  induction secs with
  | nil => rfl
  | cons s rest ih =>
    simp only [byRva, List.findIdx?_cons, wadd32, ge_iff_le, ih]
    split <;> simp_all

theorem byName_eq_findIdx (secs : List Sec) (lo hi : Nat) :
    byName secs lo hi = secs.findIdx? (fun s => decide (s.nameLo = lo ∧ s.nameHi = hi)) := by
  induction secs with
  | nil => rfl
  | cons s rest ih =>
    simp only [byName, List.findIdx?_cons, ih]
    split <;> simp_all

end Pelite.Pe
