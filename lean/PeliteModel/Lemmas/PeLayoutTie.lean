import PeliteModel.Model.Pe
import PeliteModel.Generated.Tables
/-!
Names for the entries of `Generated.layoutVals` (the table `harness/src/probe.rs` regenerates on
every run from `size_of` / `align_of` / `offset_of!` of pelite's `image.rs` structs), and the
header code of `src/pe64/pe.rs` written *only* in terms of these names.  `Thm/C07Layout.lean` proves
that the literal offsets of `Model/Pe.lean` are these entries, so that a change of a struct layout
in the Rust source breaks those proofs on the next run.

The index of every name is its position in the list `layout()` of `probe.rs` (the same order as the
docstring of `Generated.layoutVals` and as `Spec/PeFormat.lean`).
-/
namespace Pelite.Pe.Src

/-- entry `i` of the regenerated table -/
def val (i : Nat) : Nat := Generated.layoutVals.getD i 0

/-! ### `IMAGE_DOS_HEADER`, `IMAGE_FILE_HEADER` -/
def dos_size : Nat := val 0
def dos_align : Nat := val 1
def dos_e_magic : Nat := val 2
def dos_e_lfanew : Nat := val 3
def file_size : Nat := val 4
def file_NumberOfSections : Nat := val 5
def file_SizeOfOptionalHeader : Nat := val 6

/-! ### `IMAGE_NT_HEADERS32/64` -/
def nt_size : Fmt → Nat | .pe32 => val 7 | .pe64 => val 12
def nt_align : Fmt → Nat | .pe32 => val 8 | .pe64 => val 13
def nt_Signature : Fmt → Nat | .pe32 => val 9 | .pe64 => val 14
def nt_FileHeader : Fmt → Nat | .pe32 => val 10 | .pe64 => val 15
def nt_OptionalHeader : Fmt → Nat | .pe32 => val 11 | .pe64 => val 16

/-! ### `IMAGE_OPTIONAL_HEADER32/64` -/
def opt_size : Fmt → Nat | .pe32 => val 17 | .pe64 => val 28
def opt_Magic : Fmt → Nat | .pe32 => val 18 | .pe64 => val 29
def opt_SizeOfCode : Fmt → Nat | .pe32 => val 19 | .pe64 => val 30
def opt_AddressOfEntryPoint : Fmt → Nat | .pe32 => val 20 | .pe64 => val 31
def opt_BaseOfCode : Fmt → Nat | .pe32 => val 21 | .pe64 => val 32
def opt_ImageBase : Fmt → Nat | .pe32 => val 22 | .pe64 => val 33
def opt_SizeOfImage : Fmt → Nat | .pe32 => val 23 | .pe64 => val 34
def opt_SizeOfHeaders : Fmt → Nat | .pe32 => val 24 | .pe64 => val 35
def opt_CheckSum : Fmt → Nat | .pe32 => val 25 | .pe64 => val 36
def opt_NumberOfRvaAndSizes : Fmt → Nat | .pe32 => val 26 | .pe64 => val 37
def opt_DataDirectory : Fmt → Nat | .pe32 => val 27 | .pe64 => val 38

/-! ### `IMAGE_DATA_DIRECTORY`, `IMAGE_SECTION_HEADER` -/
def dd_size : Nat := val 39
def dd_align : Nat := val 40
def dd_VirtualAddress : Nat := val 41
def dd_Size : Nat := val 42
def sec_size : Nat := val 43
def sec_align : Nat := val 44
def sec_Name : Nat := val 45
def sec_VirtualSize : Nat := val 46
def sec_VirtualAddress : Nat := val 47
def sec_SizeOfRawData : Nat := val 48
def sec_PointerToRawData : Nat := val 49
def sec_Characteristics : Nat := val 50

/-! ### public constants -/
def IMAGE_DOS_SIGNATURE : Nat := val 51
def IMAGE_NT_HEADERS_SIGNATURE : Nat := val 52
def HDR32_MAGIC : Nat := val 53
def HDR64_MAGIC : Nat := val 54
/-- `IMAGE_NT_OPTIONAL_HDR_MAGIC` of the `pe32` / `pe64` module -/
def hdr_magic : Fmt → Nat | .pe32 => HDR32_MAGIC | .pe64 => HDR64_MAGIC
def NUMBEROF_DIRECTORY_ENTRIES : Nat := val 55

/-- `validate_headers` of `src/pe64/pe.rs` transcribed with the source's own `size_of` /
field names: every offset and size is an entry of the regenerated table, none is a literal
(the literals that remain — 4, `size_of::<u16>() = 2`, 0x01000000, 96 — are literals in the Rust
code too). -/
def validateSrc (f : Fmt) (img : Img) : Out Nat :=
  let b := img.bytes
  -- `if mem::size_of::<IMAGE_DOS_HEADER>() > image.len()`
  if dos_size > b.size then .err .bounds
  -- `if !image.as_ptr().aligned_to(4)`
  else if img.base % 4 ≠ 0 then .err .misaligned
  -- `if dos.e_magic != IMAGE_DOS_SIGNATURE`
  else if le16 b dos_e_magic ≠ IMAGE_DOS_SIGNATURE then .err .badMagic
  else
    let e := le32 b dos_e_lfanew
    if e % 4 ≠ 0 then .err .misaligned
    else if e > 0x01000000 then .err .insanity
    else
      -- `dos.e_lfanew + (size_of::<IMAGE_NT_HEADERS>() - size_of::<IMAGE_OPTIONAL_HEADER>())`
      let magicOffset := e + (nt_size f - opt_size f)
      if magicOffset + 2 > b.size then .err .bounds
      else
        let signature := le32 b e
        let magic := le16 b magicOffset
        if signature ≠ IMAGE_NT_HEADERS_SIGNATURE ∨ ¬ (magic = HDR32_MAGIC ∨ magic = HDR64_MAGIC) then .err .badMagic
        else if magic ≠ hdr_magic f then .err .peMagic
        else
          let ntEnd := e + nt_size f
          if ntEnd > b.size then .err .bounds
          else
            -- `nt.OptionalHeader.SizeOfHeaders`, `nt.OptionalHeader.SizeOfImage`
            let soh := le32 b (e + nt_OptionalHeader f + opt_SizeOfHeaders f)
            let soi := le32 b (e + nt_OptionalHeader f + opt_SizeOfImage f)
            if soh > b.size then .err .bounds
            else if soh > soi then .err .insanity
            else
              -- `min(nt.OptionalHeader.NumberOfRvaAndSizes, IMAGE_NUMBEROF_DIRECTORY_ENTRIES)`
              let numRva := min (le32 b (e + nt_OptionalHeader f + opt_NumberOfRvaAndSizes f)) NUMBEROF_DIRECTORY_ENTRIES
              if ntEnd + numRva * dd_size > b.size then .err .bounds
              else
                -- `nt.FileHeader.NumberOfSections`
                let nsec := le16 b (e + nt_FileHeader f + file_NumberOfSections)
                if nsec > 96 then .err .insanity
                else
                  -- `e_lfanew + (size_of NT - size_of OPT) + nt.FileHeader.SizeOfOptionalHeader`
                  let start := e + (nt_size f - opt_size f) +
                    le16 b (e + nt_FileHeader f + file_SizeOfOptionalHeader)
                  if nsec * sec_size + start > b.size then .err .bounds
                  -- `!start_of_sections.aligned_to(align_of::<IMAGE_SECTION_HEADER>())`
                  else if start % sec_align ≠ 0 then .err .misaligned
                  else .ok soi

/-- one section header at offset `o`, every field at its `offset_of!` -/
def secAtSrc (b : Bytes) (o : Nat) : Sec :=
  ⟨le32 b (o + sec_Name), le32 b (o + sec_Name + 4), le32 b (o + sec_VirtualSize),
   le32 b (o + sec_VirtualAddress), le32 b (o + sec_SizeOfRawData), le32 b (o + sec_PointerToRawData),
   le32 b (o + sec_Characteristics)⟩

/-- `Headers::check_sum` of `src/pe64/headers.rs` with the position of the skipped dword as a parameter -/
def checkSumAt (v : View) (pos : Nat) : Nat :=
  let n := v.b.size / 4
  let c := csumLoop v.b pos n n 0
  let c := if v.b.size % 4 ≠ 0 then csumStep c (le32 v.b (4 * n)) else c
  let c := c % 65536 + c / 65536
  let c := c + c / 65536
  let c := c % 65536
  (c + v.b.size) % 4294967296

end Pelite.Pe.Src
