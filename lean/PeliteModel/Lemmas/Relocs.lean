import PeliteModel.Model.Relocs
/-! Helper lemmas for C14. -/
namespace Pelite.Relocs

/-! ### unfolding `peek` / `blocksFrom` -/

/-- the block `peek` produces at `off` when at least 8 bytes remain -/
def blockAt (data : Bytes) (off : Nat) : Block :=
  { off := off, va := le32 data off, size := le32 data (off + 4),
    nwords := (min (le32 data (off + 4)) (data.size - off) - 8) / 2 }

theorem peek_of_ge {data : Bytes} {off : Nat} (h : off + 8 ≤ data.size) :
    peek data off = some (blockAt data off) := by
  unfold peek blockAt
  simp only
  rw [if_pos (by omega)]

theorem peek_of_lt {data : Bytes} {off : Nat} (h : data.size < off + 8) :
    peek data off = none := by
  unfold peek
  simp only
  rw [if_neg (by omega)]

theorem blocksFrom_of_lt {data : Bytes} {off : Nat} (h : data.size < off + 8) :
    blocksFrom data off = [] := by
  rw [blocksFrom]
  split
  · rfl
  · next b hb => rw [peek_of_lt h] at hb; cases hb

theorem blocksFrom_of_ge {data : Bytes} {off : Nat} (h : off + 8 ≤ data.size) :
    blocksFrom data off =
      blockAt data off ::
        blocksFrom data (off + step (le32 data (off + 4)) (data.size - off)) := by
  rw [blocksFrom]
  split
  · next hb => rw [peek_of_ge h] at hb; cases hb
  · next b hb =>
    rw [peek_of_ge h] at hb
    cases hb
    rfl

theorem blocksFrom_cons_inv {data : Bytes} {off : Nat} {b : Block} {rest : List Block}
    (h : blocksFrom data off = b :: rest) :
    off + 8 ≤ data.size ∧ b = blockAt data off ∧
      rest = blocksFrom data (off + step (le32 data (off + 4)) (data.size - off)) := by
  by_cases hlt : data.size < off + 8
  · rw [blocksFrom_of_lt hlt] at h; cases h
  · have hge : off + 8 ≤ data.size := by omega
    rw [blocksFrom_of_ge hge] at h
    cases h
    exact ⟨hge, rfl, rfl⟩

theorem step_ge {size rem : Nat} (hs : size < 4294967296) (h : 8 ≤ rem) : 8 ≤ step size rem :=
  step_pos hs h

theorem step_le (size rem : Nat) : step size rem ≤ rem := by
  unfold step; omega

/-- on a well-formed header the iterator advances by exactly `SizeOfBlock` -/
theorem step_eq_size {size rem : Nat} (hs : size < 4294967296) (h4 : size % 4 = 0)
    (h8 : 8 ≤ size) (hle : size ≤ rem) : step size rem = size := by
  unfold step alignTo64 wadd64
  omega

/-- the step is a multiple of four unless it runs into the end of the directory -/
theorem step_mod4_or (size rem : Nat) : step size rem % 4 = 0 ∨ step size rem = rem := by
  unfold step alignTo64 wadd64
  omega

theorem blocksFrom_length_le (data : Bytes) (off : Nat) :
    (blocksFrom data off).length ≤ (data.size - off) / 8 := by
  generalize hn : data.size - off = n
  induction n using Nat.strongRecOn generalizing off with
  | ind n ih =>
    by_cases hlt : data.size < off + 8
    · rw [blocksFrom_of_lt hlt]; simp
    · have hge : off + 8 ≤ data.size := by omega
      rw [blocksFrom_of_ge hge]
      have h1 := step_ge (le32_lt data (off + 4)) (rem := data.size - off) (by omega)
      have h2 := step_le (le32 data (off + 4)) (data.size - off)
      have := ih (data.size - (off + step (le32 data (off + 4)) (data.size - off))) (by omega)
        (off + step (le32 data (off + 4)) (data.size - off)) rfl
      simp only [List.length_cons]
      omega

/-- every block of the iteration started at a 4-aligned offset is `blockAt` some 4-aligned
offset with a complete header -/
theorem mem_blocksFrom {data : Bytes} {off : Nat} {b : Block} (h4 : off % 4 = 0)
    (hmem : b ∈ blocksFrom data off) :
    ∃ o, off ≤ o ∧ o % 4 = 0 ∧ o + 8 ≤ data.size ∧ b = blockAt data o := by
  generalize hn : data.size - off = n at *
  induction n using Nat.strongRecOn generalizing off with
  | ind n ih =>
    by_cases hlt : data.size < off + 8
    · rw [blocksFrom_of_lt hlt] at hmem; cases hmem
    · have hge : off + 8 ≤ data.size := by omega
      rw [blocksFrom_of_ge hge] at hmem
      rcases List.mem_cons.mp hmem with rfl | hmem
      · exact ⟨off, Nat.le_refl _, h4, hge, rfl⟩
      · have h1 := step_ge (le32_lt data (off + 4)) (rem := data.size - off) (by omega)
        have h2 := step_le (le32 data (off + 4)) (data.size - off)
        rcases step_mod4_or (le32 data (off + 4)) (data.size - off) with h3 | h3
        · obtain ⟨o, ho1, ho2, ho3, ho4⟩ :=
            ih (data.size - (off + step (le32 data (off + 4)) (data.size - off))) (by omega)
              (off := off + step (le32 data (off + 4)) (data.size - off)) (by omega) hmem rfl
          exact ⟨o, by omega, ho2, ho3, ho4⟩
        · rw [h3, blocksFrom_of_lt (by omega)] at hmem
          cases hmem

/-! ### little-endian reads over `List.toArray` / append -/

theorem byteAt_toArray (l : List UInt8) (i : Nat) : byteAt l.toArray i = (l.getD i 0).toNat := by
  simp [byteAt]

theorem byteAt_append_right (pre l : List UInt8) (i : Nat) :
    byteAt (pre ++ l).toArray (pre.length + i) = byteAt l.toArray i := by
  simp [byteAt_toArray, List.getD_eq_getElem?_getD, List.getElem?_append_right]

theorem le16_u16le (w : Nat) (post : List UInt8) : le16 (u16le w ++ post).toArray 0 = w % 65536 := by
  simp [le16, byteAt_toArray, u16le]
  omega

theorem le32_u32le (w : Nat) (post : List UInt8) : le32 (u32le w ++ post).toArray 0 = w % 4294967296 := by
  simp [le32, byteAt_toArray, u32le]
  omega

theorem le16_append_right (pre l : List UInt8) (i : Nat) :
    le16 (pre ++ l).toArray (pre.length + i) = le16 l.toArray i := by
  unfold le16
  rw [Nat.add_assoc, byteAt_append_right, byteAt_append_right]

theorem le32_append_right (pre l : List UInt8) (i : Nat) :
    le32 (pre ++ l).toArray (pre.length + i) = le32 l.toArray i := by
  unfold le32
  simp only [Nat.add_assoc, byteAt_append_right]

@[simp] theorem length_u16le (w : Nat) : (u16le w).length = 2 := rfl
@[simp] theorem length_u32le (w : Nat) : (u32le w).length = 4 := rfl

theorem length_flatMap_u16le (ws : List Nat) : (ws.flatMap u16le).length = 2 * ws.length := by
  induction ws with
  | nil => rfl
  | cons w ws ih => simp only [List.flatMap_cons, List.length_append, length_u16le, ih, List.length_cons]; omega

/-- reading back a run of encoded 16-bit words -/
theorem words_read (ws : List Nat) (hws : ∀ w ∈ ws, w < 65536) (pre post : List UInt8) :
    (List.range ws.length).map
      (fun i => le16 (pre ++ (ws.flatMap u16le ++ post)).toArray (pre.length + 2 * i)) = ws := by
  induction ws generalizing pre with
  | nil => rfl
  | cons w ws ih =>
    rw [List.length_cons, List.range_succ_eq_map, List.map_cons, List.map_map]
    congr 1
    · simp only [List.flatMap_cons, List.append_assoc, Nat.mul_zero]
      rw [le16_append_right, le16_u16le]
      have := hws w (by simp)
      omega
    · have h := ih (fun w' h => hws w' (by simp [h])) (pre ++ u16le w)
      refine Eq.trans ?_ h
      apply List.map_congr_left
      intro i _
      simp only [Function.comp, List.flatMap_cons, List.append_assoc, List.length_append,
        length_u16le]
      congr 1
      omega

/-! ### type/offset words -/

theorem encodeTypeOffset_eq {start rva ty : Nat} (h1 : start ≤ rva) (h2 : rva ≤ start + 4095)
    (hty : ty ≤ 15) : encodeTypeOffset start rva ty = (rva - start) + ty * 4096 := by
  unfold encodeTypeOffset
  have hd : rva - start < 2 ^ 12 := by omega
  rw [Nat.or_comm, ← Nat.shiftLeft_add_eq_or_of_lt hd, Nat.shiftLeft_eq]
  omega

theorem encodeTypeOffset_lt (start rva ty : Nat) : encodeTypeOffset start rva ty < 65536 := by
  unfold encodeTypeOffset; omega

theorem typeOf_encode {start rva ty : Nat} (h1 : start ≤ rva) (h2 : rva ≤ start + 4095)
    (hty : ty ≤ 15) : typeOf (encodeTypeOffset start rva ty) = ty := by
  rw [encodeTypeOffset_eq h1 h2 hty]; unfold typeOf; omega

theorem rvaOf_encode {start rva ty : Nat} (h1 : start ≤ rva) (h2 : rva ≤ start + 4095)
    (hty : ty ≤ 15) (hr : rva < 4294967296) : rvaOf start (encodeTypeOffset start rva ty) = rva := by
  rw [encodeTypeOffset_eq h1 h2 hty]; unfold rvaOf wadd32; omega

/-! ### the shape of one built block -/

/-- the 16-bit words of one block of `build`, padding included -/
def blockWords (start : Nat) (ps : List (Nat × Nat)) : List Nat :=
  ps.map (fun p => encodeTypeOffset start p.1 p.2) ++ (if ps.length % 2 = 1 then [0] else [])

theorem buildBlock_eq (start : Nat) (ps : List (Nat × Nat)) :
    buildBlock start ps =
      u32le start ++ (u32le (alignTo64 (8 + 2 * ps.length) 4) ++ (blockWords start ps).flatMap u16le) := by
  unfold buildBlock blockWords
  simp only [List.flatMap_append, List.flatMap_map, List.append_assoc]
  split <;> simp

theorem blockWords_lt (start : Nat) (ps : List (Nat × Nat)) : ∀ w ∈ blockWords start ps, w < 65536 := by
  intro w hw
  unfold blockWords at hw
  rcases List.mem_append.mp hw with h | h
  · obtain ⟨p, -, rfl⟩ := List.mem_map.mp h
    exact encodeTypeOffset_lt _ _ _
  · split at h
    · simp at h; omega
    · cases h

theorem length_blockWords (start : Nat) (ps : List (Nat × Nat)) :
    (blockWords start ps).length = ps.length + ps.length % 2 := by
  unfold blockWords
  split <;> simp <;> omega

theorem alignTo64_block {n : Nat} (hfit : 2 * n + 11 < 4294967296) :
    alignTo64 (8 + 2 * n) 4 = 8 + 2 * (n + n % 2) := by
  unfold alignTo64 wadd64; omega

theorem length_buildBlock (start : Nat) (ps : List (Nat × Nat)) :
    (buildBlock start ps).length = 8 + 2 * (ps.length + ps.length % 2) := by
  rw [buildBlock_eq]
  simp only [List.length_append, length_u32le, length_flatMap_u16le, length_blockWords]
  omega

theorem le32_at (pre l : List UInt8) : le32 (pre ++ l).toArray pre.length = le32 l.toArray 0 := by
  have := le32_append_right pre l 0
  rwa [Nat.add_zero] at this

/-- header fields of a built block read back, truncated to `u32` as stored -/
theorem built_header_raw (pre post : List UInt8) (start : Nat) (chunk : List (Nat × Nat)) :
    le32 (pre ++ (buildBlock start chunk ++ post)).toArray pre.length = start % 4294967296 ∧
    le32 (pre ++ (buildBlock start chunk ++ post)).toArray (pre.length + 4) =
      alignTo64 (8 + 2 * chunk.length) 4 % 4294967296 := by
  constructor
  · rw [le32_at, buildBlock_eq, List.append_assoc, le32_u32le]
  · rw [le32_append_right, buildBlock_eq, List.append_assoc]
    have := le32_append_right (u32le start)
      (u32le (alignTo64 (8 + 2 * chunk.length) 4) ++ List.flatMap u16le (blockWords start chunk) ++ post) 0
    rw [length_u32le] at this
    rw [this, List.append_assoc, le32_u32le]

/-- header fields of a built block read back -/
theorem built_header (pre post : List UInt8) (start : Nat) (chunk : List (Nat × Nat))
    (hstart : start < 4294967296) (hfit : 2 * chunk.length + 11 < 4294967296) :
    le32 (pre ++ (buildBlock start chunk ++ post)).toArray pre.length = start ∧
    le32 (pre ++ (buildBlock start chunk ++ post)).toArray (pre.length + 4) =
      (buildBlock start chunk).length := by
  obtain ⟨h1, h2⟩ := built_header_raw pre post start chunk
  rw [h1, h2, length_buildBlock, alignTo64_block hfit]
  omega

/-- the iterator standing at a built block yields it and advances to its end -/
theorem blocksFrom_built (pre post : List UInt8) (start : Nat) (chunk : List (Nat × Nat))
    (hstart : start < 4294967296) (hfit : 2 * chunk.length + 11 < 4294967296) :
    blocksFrom (pre ++ (buildBlock start chunk ++ post)).toArray pre.length =
      ⟨pre.length, start, (buildBlock start chunk).length, (blockWords start chunk).length⟩ ::
        blocksFrom (pre ++ (buildBlock start chunk ++ post)).toArray
          (pre.length + (buildBlock start chunk).length) := by
  obtain ⟨hva, hsz⟩ := built_header pre post start chunk hstart hfit
  have hlen := length_buildBlock start chunk
  have hsize : (pre ++ (buildBlock start chunk ++ post)).toArray.size =
      pre.length + ((buildBlock start chunk).length + post.length) := by simp
  rw [blocksFrom_of_ge (by omega)]
  congr 1
  · simp only [blockAt, hva, hsz, hsize, length_blockWords]
    congr 1
    omega
  · rw [hsz, step_eq_size (by omega) (by omega) (by omega) (by omega)]

/-- the words of a built block read back -/
theorem words_built (pre post : List UInt8) (start : Nat) (chunk : List (Nat × Nat)) (va size : Nat) :
    Block.words (pre ++ (buildBlock start chunk ++ post)).toArray
      ⟨pre.length, va, size, (blockWords start chunk).length⟩ = blockWords start chunk := by
  unfold Block.words
  simp only
  have h := words_read (blockWords start chunk) (blockWords_lt start chunk)
    (pre ++ (u32le start ++ u32le (alignTo64 (8 + 2 * chunk.length) 4))) post
  simp only [List.length_append, length_u32le] at h
  rw [buildBlock_eq]
  simpa [List.append_assoc, Nat.add_assoc] using h

/-! ### `runLen` / `buildList` -/

theorem runLen_take_mem (start stop : Nat) (l : List (Nat × Nat)) :
    ∀ p ∈ l.take (runLen start stop l), start ≤ p.1 ∧ p.1 ≤ stop := by
  induction l with
  | nil => intro p hp; simp [runLen] at hp
  | cons q l ih =>
    intro p hp
    unfold runLen at hp
    split at hp
    · next hq =>
      rw [List.take_succ_cons] at hp
      rcases List.mem_cons.mp hp with rfl | hp
      · exact hq
      · exact ih p hp
    · simp at hp

theorem runLen_pos (p : Nat × Nat) (ps : List (Nat × Nat)) :
    1 ≤ runLen (p.1 / 4096 * 4096) (p.1 / 4096 * 4096 + 4095) (p :: ps) := by
  unfold runLen
  rw [if_pos (by omega)]
  omega

theorem buildList_cons (p : Nat × Nat) (ps : List (Nat × Nat)) :
    buildList (p :: ps) =
      buildBlock (p.1 / 4096 * 4096)
          ((p :: ps).take (runLen (p.1 / 4096 * 4096) (p.1 / 4096 * 4096 + 4095) (p :: ps))) ++
        buildList ((p :: ps).drop (runLen (p.1 / 4096 * 4096) (p.1 / 4096 * 4096 + 4095) (p :: ps))) := by
  rw [buildList]

/-- decoding the words of a built block gives back its pairs (the padding word is skipped) -/
theorem flat_blockWords (start : Nat) (chunk : List (Nat × Nat))
    (h : ∀ p ∈ chunk, start ≤ p.1 ∧ p.1 ≤ start + 4095 ∧ p.1 < 4294967296 ∧ 1 ≤ p.2 ∧ p.2 ≤ 15) :
    (blockWords start chunk).filterMap
      (fun w => if typeOf w ≠ 0 then some (rvaOf start w, typeOf w) else none) = chunk := by
  unfold blockWords
  rw [List.filterMap_append]
  have hpad : (if chunk.length % 2 = 1 then [0] else []).filterMap
      (fun w => if typeOf w ≠ 0 then some (rvaOf start w, typeOf w) else none) = [] := by
    split <;> simp [typeOf]
  rw [hpad, List.append_nil]
  clear hpad
  induction chunk with
  | nil => rfl
  | cons p ps ih =>
    obtain ⟨h1, h2, h3, h4, h5⟩ := h p (by simp)
    rw [List.map_cons, List.filterMap_cons, typeOf_encode h1 h2 h5, rvaOf_encode h1 h2 h5 h3]
    have : ¬ p.2 = 0 := by omega
    simp only [ne_eq, this, not_false_eq_true, if_true]
    rw [ih (fun q hq => h q (by simp [hq]))]

theorem flatBlock_built (pre post : List UInt8) (start : Nat) (chunk : List (Nat × Nat)) (size : Nat)
    (h : ∀ p ∈ chunk, start ≤ p.1 ∧ p.1 ≤ start + 4095 ∧ p.1 < 4294967296 ∧ 1 ≤ p.2 ∧ p.2 ≤ 15) :
    flatBlock (pre ++ (buildBlock start chunk ++ post)).toArray
      ⟨pre.length, start, size, (blockWords start chunk).length⟩ = chunk := by
  unfold flatBlock
  rw [words_built]
  exact flat_blockWords start chunk h

/-! ### the whole output of `build` -/

/-- The `SizeOfBlock` field is a `u32`: a page with 2^31-5 or more entries cannot be represented
(the Rust code truncates with `as u32`).  Either bound below excludes that. -/
def Fits (ps : List (Nat × Nat)) : Prop :=
  ps.length < 2147483643 ∨ (buildList ps).length < 4294967296

theorem Fits.chunk {p : Nat × Nat} {ps : List (Nat × Nat)} (h : Fits (p :: ps)) :
    2 * ((p :: ps).take (runLen (p.1 / 4096 * 4096) (p.1 / 4096 * 4096 + 4095) (p :: ps))).length + 11
        < 4294967296 ∧
      Fits ((p :: ps).drop (runLen (p.1 / 4096 * 4096) (p.1 / 4096 * 4096 + 4095) (p :: ps))) := by
  have hle := runLen_le (p.1 / 4096 * 4096) (p.1 / 4096 * 4096 + 4095) (p :: ps)
  rcases h with h | h
  · refine ⟨?_, Or.inl ?_⟩
    · rw [List.length_take]; omega
    · rw [List.length_drop]; omega
  · rw [buildList_cons, List.length_append, length_buildBlock, List.length_take] at h
    refine ⟨?_, Or.inr ?_⟩
    · rw [List.length_take]; omega
    · omega

theorem buildList_nil : buildList [] = [] := by rw [buildList]

/-- well-formedness of every block the iterator finds in `pre ++ buildList ps` from `pre.length` on -/
theorem built_blocks_wf (ps : List (Nat × Nat)) (pre : List UInt8) (hfit : Fits ps)
    (hps : ∀ p ∈ ps, p.1 < 4294967296) :
    ∀ b ∈ blocksFrom (pre ++ buildList ps).toArray pre.length,
      b.va % 4096 = 0 ∧ b.size % 4 = 0 ∧ 12 ≤ b.size ∧
        b.off + b.size ≤ pre.length + (buildList ps).length := by
  generalize hn : ps.length = n
  induction n using Nat.strongRecOn generalizing ps pre with
  | ind n ih =>
    cases ps with
    | nil =>
      intro b hb
      rw [blocksFrom_of_lt (by simp [buildList_nil])] at hb
      cases hb
    | cons p ps =>
      obtain ⟨hc, hfit'⟩ := hfit.chunk
      have hpos := runLen_pos p ps
      have hle := runLen_le (p.1 / 4096 * 4096) (p.1 / 4096 * 4096 + 4095) (p :: ps)
      have hp := hps p (by simp)
      intro b hb
      rw [buildList_cons] at hb ⊢
      rw [blocksFrom_built pre _ _ _ (by omega) hc] at hb
      have hbl := length_buildBlock (p.1 / 4096 * 4096)
        ((p :: ps).take (runLen (p.1 / 4096 * 4096) (p.1 / 4096 * 4096 + 4095) (p :: ps)))
      rw [List.length_take] at hbl
      rcases List.mem_cons.mp hb with rfl | hb
      · simp only [List.length_append]
        omega
      · rw [← List.append_assoc, ← List.length_append] at hb
        have := ih _ (by rw [← hn, List.length_drop]; omega) _ (pre ++ buildBlock _ _) hfit'
          (fun q hq => hps q (List.mem_of_mem_drop hq)) rfl b hb
        simp only [List.length_append] at this ⊢
        omega

/-- flattening the blocks the iterator finds in `pre ++ buildList ps` from `pre.length` on -/
theorem built_flat (ps : List (Nat × Nat)) (pre : List UInt8) (hfit : Fits ps)
    (hps : ∀ p ∈ ps, p.1 < 4294967296 ∧ 1 ≤ p.2 ∧ p.2 ≤ 15) :
    (blocksFrom (pre ++ buildList ps).toArray pre.length).flatMap
      (flatBlock (pre ++ buildList ps).toArray) = ps := by
  generalize hn : ps.length = n
  induction n using Nat.strongRecOn generalizing ps pre with
  | ind n ih =>
    cases ps with
    | nil =>
      rw [blocksFrom_of_lt (by simp [buildList_nil])]
      rfl
    | cons p ps =>
      obtain ⟨hc, hfit'⟩ := hfit.chunk
      have hpos := runLen_pos p ps
      have hle := runLen_le (p.1 / 4096 * 4096) (p.1 / 4096 * 4096 + 4095) (p :: ps)
      have hp := hps p (by simp)
      rw [buildList_cons]
      rw [blocksFrom_built pre _ _ _ (by omega) hc, List.flatMap_cons]
      rw [flatBlock_built]
      · rw [← List.append_assoc, ← List.length_append]
        rw [ih _ (by rw [← hn, List.length_drop]; omega) _ (pre ++ buildBlock _ _) hfit'
          (fun q hq => hps q (List.mem_of_mem_drop hq)) rfl]
        exact List.take_append_drop _ _
      · intro q hq
        have h1 := runLen_take_mem _ _ _ q hq
        have h2 := hps q (List.mem_of_mem_take hq)
        omega

theorem blocks_build (ps : List (Nat × Nat)) :
    blocks (build ps) = blocksFrom (([] : List UInt8) ++ buildList ps).toArray ([] : List UInt8).length := rfl

/-! ### the `SizeOfBlock` truncation: why `build` needs a bound on its input -/

theorem runLen_replicate (k : Nat) : runLen 0 4095 (List.replicate k (0, 1)) = k := by
  induction k with
  | zero => rfl
  | succ k ih => rw [List.replicate_succ, runLen, if_pos (by simp), ih]

theorem buildList_replicate (k : Nat) :
    buildList (List.replicate (k + 1) (0, 1)) = buildBlock 0 (List.replicate (k + 1) (0, 1)) := by
  have h := buildList_cons (0, 1) (List.replicate k (0, 1))
  rw [← List.replicate_succ] at h
  simp only [Nat.zero_div, Nat.zero_mul, Nat.zero_add] at h
  rw [runLen_replicate] at h
  rw [h]
  simp [buildList_nil]

theorem le32_eq_le16 (data : Bytes) (i : Nat) :
    le32 data i = le16 data i + 65536 * le16 data (i + 2) := by
  unfold le32 le16
  rw [show i + 2 + 1 = i + 3 from rfl]
  omega

/-- one encoded word read back -/
theorem word_read (ws : List Nat) (hws : ∀ w ∈ ws, w < 65536) (pre post : List UInt8) (i : Nat)
    (hi : i < ws.length) :
    le16 (pre ++ (ws.flatMap u16le ++ post)).toArray (pre.length + 2 * i) = ws[i] := by
  have h := congrArg (fun l => l[i]?) (words_read ws hws pre post)
  simpa [hi] using h


/-- The data `build` produces for 2147483644 entries on page 0: the first header says
`SizeOfBlock = 0` (2^32 truncated) and the iterator resynchronises 8 bytes later, inside the
entries. -/
theorem huge_blocks (k : Nat) (hk : k + 1 = 2147483644) :
    ∃ tl, blocks (build (List.replicate (k + 1) (0, 1))) = ⟨0, 0, 0, 0⟩ :: tl ∧
      ∃ tl', flat (build (List.replicate (k + 1) (0, 1))) = (268439552, 1) :: tl' := by
  generalize hps : List.replicate (k + 1) ((0, 1) : Nat × Nat) = ps
  have hlen : ps.length = k + 1 := by rw [← hps, List.length_replicate]
  have hdata : build ps = (([] : List UInt8) ++ (buildBlock 0 ps ++ [])).toArray := by
    rw [build, ← hps, buildList_replicate]; simp
  generalize hd : build ps = data at *
  have hsize : data.size = 4294967296 := by
    rw [hdata]; simp [length_buildBlock, hlen]; omega
  obtain ⟨hva, hsz⟩ := built_header_raw [] [] 0 ps
  rw [← hdata] at hva hsz
  simp only [List.length_nil, Nat.zero_add, Nat.zero_mod] at hva hsz
  have hsz0 : le32 data 4 = 0 := by
    rw [hsz, hlen]; unfold alignTo64 wadd64; omega
  -- the words
  have hws : blockWords 0 ps = List.replicate (k + 1) 4096 := by
    unfold blockWords
    rw [if_neg (by omega), ← hps]
    simp [encodeTypeOffset]
  have hbytes : data = ((u32le 0 ++ u32le (alignTo64 (8 + 2 * ps.length) 4)) ++
      ((List.replicate (k + 1) 4096).flatMap u16le ++ [])).toArray := by
    rw [hdata, buildBlock_eq, hws]; simp
  have hword : ∀ i, i < k + 1 → le16 data (8 + 2 * i) = 4096 := by
    intro i hi
    have := word_read (List.replicate (k + 1) 4096) (by simp) (u32le 0 ++ u32le (alignTo64 (8 + 2 * ps.length) 4)) [] i
      (by simpa using hi)
    rw [← hbytes] at this
    simpa using this
  have h8 : le32 data 8 = 268439552 := by
    rw [le32_eq_le16, show 8 = 8 + 2 * 0 from rfl, hword 0 (by omega),
      show 8 + 2 * 0 + 2 = 8 + 2 * 1 from rfl, hword 1 (by omega)]
  have h12 : le32 data 12 = 268439552 := by
    rw [le32_eq_le16, show 12 = 8 + 2 * 2 from rfl, hword 2 (by omega),
      show 8 + 2 * 2 + 2 = 8 + 2 * 3 from rfl, hword 3 (by omega)]
  have h16 : le16 data 16 = 4096 := by
    rw [show 16 = 8 + 2 * 4 from rfl, hword 4 (by omega)]
  -- the blocks
  have hb0 : blocksFrom data 0 = ⟨0, 0, 0, 0⟩ :: blocksFrom data 8 := by
    rw [blocksFrom_of_ge (by omega)]
    simp only [blockAt, Nat.zero_add, hva, hsz0, hsize]
    rfl
  have hb8 : blocksFrom data 8 = blockAt data 8 ::
      blocksFrom data (8 + step (le32 data (8 + 4)) (data.size - 8)) :=
    blocksFrom_of_ge (by omega)
  refine ⟨_, hb0, ?_⟩
  obtain ⟨m, hm⟩ : ∃ m, (blockAt data 8).nwords = m + 1 := by
    refine ⟨(blockAt data 8).nwords - 1, ?_⟩
    simp only [blockAt, h12, hsize]
    omega
  have hfb : ∃ t, flatBlock data (blockAt data 8) = (268439552, 1) :: t := by
    unfold flatBlock Block.words
    rw [hm, List.range_succ_eq_map, List.map_cons, List.filterMap_cons]
    simp only [blockAt, Nat.mul_zero, Nat.add_zero, h16, h8]
    exact ⟨_, rfl⟩
  obtain ⟨t, ht⟩ := hfb
  unfold flat blocks
  rw [hb0, hb8, List.flatMap_cons, List.flatMap_cons, ht]
  exact ⟨_, rfl⟩

theorem huge_not_wellformed (k : Nat) (hk : k + 1 = 2147483644) :
    ∃ b ∈ blocks (build (List.replicate (k + 1) (0, 1))), b.size = 0 := by
  obtain ⟨tl, h, -⟩ := huge_blocks k hk
  exact ⟨⟨0, 0, 0, 0⟩, by rw [h]; exact List.mem_cons_self, rfl⟩

theorem huge_not_roundtrip (k : Nat) (hk : k + 1 = 2147483644) :
    flat (build (List.replicate (k + 1) (0, 1))) ≠ List.replicate (k + 1) (0, 1) := by
  obtain ⟨-, -, tl', h⟩ := huge_blocks k hk
  rw [h, List.replicate_succ]
  intro hc
  injection hc with h1 _
  injection h1 with h1 _
  omega

theorem huge_input_ok (k : Nat) :
    ∀ p ∈ List.replicate (k + 1) ((0, 1) : Nat × Nat), p.1 < 4294967296 ∧ 1 ≤ p.2 ∧ p.2 ≤ 15 := by
  intro p hp
  rw [List.eq_of_mem_replicate hp]
  omega

end Pelite.Relocs
