import PeliteModel.Model.Relocs
/-! Helper lemmas for C14. -/
namespace Pelite.Relocs
end Pelite.Relocs
