import PeliteModel.Lemmas.Relocs
import PeliteModel.Spec.Relocs
/-!
Helper lemmas for C14 / C18: `nextBlock` against `blocksFrom`, the internal iteration
(`foldWords` / `foldBlocks`) against the flattened block list, and the whole-list partition facts.
-/
namespace Pelite.Relocs

/-! ### `nextBlock` pops the head of `blocksFrom` -/

theorem nextBlock_of_ge {data : Bytes} {off : Nat} (h : off + 8 ≤ data.size) :
    nextBlock data off =
      some (blockAt data off, off + step (le32 data (off + 4)) (data.size - off)) := by
  unfold nextBlock
  rw [peek_of_ge h]
  rfl

theorem nextBlock_of_lt {data : Bytes} {off : Nat} (h : data.size < off + 8) :
    nextBlock data off = none := by
  unfold nextBlock
  rw [peek_of_lt h]

theorem blocksFrom_of_next_some {data : Bytes} {off : Nat} {b : Block} {off' : Nat}
    (h : nextBlock data off = some (b, off')) :
    blocksFrom data off = b :: blocksFrom data off' := by
  by_cases hlt : data.size < off + 8
  · rw [nextBlock_of_lt hlt] at h; cases h
  · have hge : off + 8 ≤ data.size := by omega
    rw [nextBlock_of_ge hge] at h
    cases h
    exact blocksFrom_of_ge hge

theorem blocksFrom_of_next_none {data : Bytes} {off : Nat} (h : nextBlock data off = none) :
    blocksFrom data off = [] := by
  by_cases hlt : data.size < off + 8
  · exact blocksFrom_of_lt hlt
  · have hge : off + 8 ≤ data.size := by omega
    rw [nextBlock_of_ge hge] at h; cases h

theorem next_none_of_blocksFrom_nil {data : Bytes} {off : Nat} (h : blocksFrom data off = []) :
    nextBlock data off = none := by
  by_cases hlt : data.size < off + 8
  · exact nextBlock_of_lt hlt
  · have hge : off + 8 ≤ data.size := by omega
    rw [blocksFrom_of_ge hge] at h; cases h

/-! ### the inner loop -/

/-- what the closure of `fold` does with one stored word -/
def stepWord {α : Type} (f : α → Nat → Nat → α) (va : Nat) (accum : α) (w : Nat) : α :=
  if typeOf w ≠ 0 then f accum (rvaOf va w) (typeOf w) else accum

theorem foldWords_eq_foldl {α : Type} (f : α → Nat → Nat → α) (data : Bytes) (b : Block) (i : Nat)
    (accum : α) :
    foldWords f data b i accum =
      ((List.range' i (b.nwords - i)).map (fun i => le16 data (b.off + 8 + 2 * i))).foldl
        (stepWord f b.va) accum := by
  fun_induction foldWords f data b i accum with
  | case1 i accum hlt word ty hty ih =>
    rw [ih, show b.nwords - i = (b.nwords - (i + 1)) + 1 by omega, List.range'_succ,
      List.map_cons, List.foldl_cons]
    simp only [stepWord, word, ty] at hty ⊢
    rw [if_pos hty]
  | case2 i accum hlt word ty hty ih =>
    rw [ih, show b.nwords - i = (b.nwords - (i + 1)) + 1 by omega, List.range'_succ,
      List.map_cons, List.foldl_cons]
    simp only [stepWord, word, ty] at hty ⊢
    rw [if_neg hty]
  | case3 i accum hge =>
    rw [show b.nwords - i = 0 by omega]
    rfl

/-- folding the decoded (non-padding) entries = folding the raw words with the skipping closure -/
theorem foldl_filterMap_entries {α : Type} (f : α → Nat → Nat → α) (va : Nat) (ws : List Nat)
    (accum : α) :
    (ws.filterMap (fun w => if typeOf w ≠ 0 then some (rvaOf va w, typeOf w) else none)).foldl
        (fun a p => f a p.1 p.2) accum =
      ws.foldl (stepWord f va) accum := by
  induction ws generalizing accum with
  | nil => rfl
  | cons w ws ih =>
    rw [List.filterMap_cons, List.foldl_cons]
    by_cases h : typeOf w ≠ 0
    · simp only [stepWord, if_pos h, List.foldl_cons]
      exact ih _
    · simp only [stepWord, if_neg h]
      exact ih _

theorem foldWords_eq_flatBlock {α : Type} (f : α → Nat → Nat → α) (data : Bytes) (b : Block)
    (accum : α) :
    foldWords f data b 0 accum = (flatBlock data b).foldl (fun a p => f a p.1 p.2) accum := by
  rw [foldWords_eq_foldl, flatBlock, foldl_filterMap_entries, Block.words, Nat.sub_zero,
    List.range_eq_range']

/-! ### the outer loop -/

theorem foldBlocks_eq_foldl {α : Type} (f : α → Nat → Nat → α) (data : Bytes) (off : Nat) (accum : α) :
    foldBlocks f data off accum =
      ((blocksFrom data off).flatMap (flatBlock data)).foldl (fun a p => f a p.1 p.2) accum := by
  fun_induction foldBlocks f data off accum with
  | case1 off accum h =>
    rw [blocksFrom_of_next_none h]
    rfl
  | case2 off accum b off' h _ ih =>
    rw [ih, blocksFrom_of_next_some h, List.flatMap_cons, List.foldl_append, foldWords_eq_flatBlock]

theorem fold_eq_flat {α : Type} (f : α → Nat → Nat → α) (init : α) (data : Bytes) :
    fold f init data = (flat data).foldl (fun a p => f a p.1 p.2) init := by
  unfold fold flat blocks
  exact foldBlocks_eq_foldl f data 0 init

theorem foldl_snd {σ : Type} (g : Nat → Nat → σ → σ) (l : List (Nat × Nat)) (acc : Unit × σ) :
    (l.foldl (fun (a : Unit × σ) p => ((), g p.1 p.2 a.2)) acc).2 =
      l.foldl (fun s p => g p.1 p.2 s) acc.2 := by
  induction l generalizing acc with
  | nil => rfl
  | cons p l ih => rw [List.foldl_cons, List.foldl_cons, ih]

/-! ### provided iterator methods against the block list -/

/-- the state after `nth k`, as a suffix of the block list: `nth k` answers the `k`-th remaining
block and leaves the iterator on the blocks after it -/
theorem nthBlock_spec (data : Bytes) (k off : Nat) :
    (nthBlock data off k).1 = (blocksFrom data off)[k]? ∧
    blocksFrom data (nthBlock data off k).2 = (blocksFrom data off).drop (k + 1) := by
  induction k generalizing off with
  | zero =>
    unfold nthBlock
    cases h : nextBlock data off with
    | none =>
      have := blocksFrom_of_next_none h
      simp [this]
    | some p =>
      obtain ⟨b, off'⟩ := p
      have := blocksFrom_of_next_some h
      simp [this]
  | succ k ih =>
    unfold nthBlock
    cases h : nextBlock data off with
    | none =>
      have := blocksFrom_of_next_none h
      simp [this]
    | some p =>
      obtain ⟨b, off'⟩ := p
      have := blocksFrom_of_next_some h
      obtain ⟨h1, h2⟩ := ih off'
      simp only [this, List.getElem?_cons_succ, List.drop_succ_cons]
      exact ⟨h1, h2⟩

theorem countBlocks_eq (data : Bytes) (off n : Nat) :
    countBlocks data off n = n + (blocksFrom data off).length := by
  fun_induction countBlocks data off n with
  | case1 off n h => rw [blocksFrom_of_next_none h]; rfl
  | case2 off n b off' h _ ih =>
    rw [ih, blocksFrom_of_next_some h, List.length_cons]; omega

/-! ### the list-of-bytes decoder of Spec/Relocs.lean against the index reads of the model -/
open Spec

theorem toNat_getElem_eq_byteAt (data : Bytes) (i : Nat) (h : i < data.toList.length) :
    (data.toList[i]).toNat = byteAt data i := by
  have h' : i < data.size := by simpa using h
  simp [byteAt, h']

theorem drop_cons_byte (data : Bytes) (i : Nat) (h : i < data.size) :
    ∃ b : UInt8, b.toNat = byteAt data i ∧ data.toList.drop i = b :: data.toList.drop (i + 1) := by
  have h' : i < data.toList.length := by simpa using h
  exact ⟨data.toList[i], toNat_getElem_eq_byteAt data i h', List.drop_eq_getElem_cons h'⟩

theorem leVal_take4 (data : Bytes) (off : Nat) (h : off + 4 ≤ data.size) :
    leVal ((data.toList.drop off).take 4) = le32 data off := by
  obtain ⟨b0, h0, e0⟩ := drop_cons_byte data off (by omega)
  obtain ⟨b1, h1, e1⟩ := drop_cons_byte data (off + 1) (by omega)
  obtain ⟨b2, h2, e2⟩ := drop_cons_byte data (off + 2) (by omega)
  obtain ⟨b3, h3, e3⟩ := drop_cons_byte data (off + 3) (by omega)
  rw [e0, e1, e2, e3]
  simp only [List.take_succ_cons, List.take_zero, leVal, le32, h0, h1, h2, h3]
  omega

theorem words16_take (data : Bytes) (n o : Nat) (h : o + 2 * n ≤ data.size) :
    words16 ((data.toList.drop o).take (2 * n)) =
      (List.range n).map (fun i => le16 data (o + 2 * i)) := by
  induction n generalizing o with
  | zero => simp [words16]
  | succ n ih =>
    obtain ⟨b0, h0, e0⟩ := drop_cons_byte data o (by omega)
    obtain ⟨b1, h1, e1⟩ := drop_cons_byte data (o + 1) (by omega)
    rw [e0, e1, show 2 * (n + 1) = 2 * n + 1 + 1 by omega, List.take_succ_cons, List.take_succ_cons,
      words16, ih (o + 2) (by omega), List.range_succ_eq_map, List.map_cons, List.map_map]
    congr 1
    · simp only [leVal, le16, h0, h1, Nat.mul_zero, Nat.add_zero]
    · apply List.map_congr_left
      intro i _
      simp only [Function.comp]
      congr 1
      omega

theorem decodeEntry_eq (va w : Nat) :
    decodeEntry va w = if typeOf w ≠ 0 then some (rvaOf va w, typeOf w) else none := by
  unfold decodeEntry typeOf rvaOf wadd32
  have h1 : w >>> 12 = w / 4096 := by rw [Nat.shiftRight_eq_div_pow]
  have h2 : w &&& 0xFFF = w % 4096 := Nat.and_two_pow_sub_one_eq_mod w 12
  simp only [h1, h2]
  split <;> simp_all


/-- on a well-formed header the iteration continues exactly `SizeOfBlock` bytes further -/
theorem blocksFrom_wf {data : Bytes} {off : Nat} (hge : off + 8 ≤ data.size)
    (hwf : (blockAt data off).WF data) :
    blocksFrom data off = blockAt data off :: blocksFrom data (off + le32 data (off + 4)) := by
  rw [blocksFrom_of_ge hge]
  obtain ⟨h4, h8, hin⟩ := hwf
  simp only [blockAt] at h4 h8 hin
  rw [step_eq_size (le32_lt _ _) h4 h8 (by omega)]

theorem flatBlock_eq_spec {data : Bytes} {off : Nat} (hwf : (blockAt data off).WF data) :
    flatBlock data (blockAt data off) =
      decodeBlock ((data.toList.drop off).take (le32 data (off + 4))) := by
  obtain ⟨h4, h8, hin⟩ := hwf
  simp only [blockAt] at h4 h8 hin
  unfold flatBlock decodeBlock Block.words
  have hva : leVal (((data.toList.drop off).take (le32 data (off + 4))).take 4) = le32 data off := by
    rw [List.take_take, Nat.min_eq_left (by omega), leVal_take4 data off (by omega)]
  have hws : words16 (((data.toList.drop off).take (le32 data (off + 4))).drop 8) =
      (List.range ((le32 data (off + 4) - 8) / 2)).map (fun i => le16 data (off + 8 + 2 * i)) := by
    rw [List.drop_take, List.drop_drop,
      show le32 data (off + 4) - 8 = 2 * ((le32 data (off + 4) - 8) / 2) by omega,
      words16_take data _ _ (by omega)]
    simp only [show 2 * ((le32 data (off + 4) - 8) / 2) = le32 data (off + 4) - 8 by omega]
  rw [hva, hws]
  simp only [blockAt, Nat.min_eq_left (show le32 data (off + 4) ≤ data.size - off by omega)]
  congr 1
  funext w
  exact (decodeEntry_eq _ w).symm

theorem flat_from_eq_spec (data : Bytes) (off : Nat) (hoff : off ≤ data.size)
    (hwf : ∀ b ∈ blocksFrom data off, b.WF data) :
    (blocksFrom data off).flatMap (flatBlock data) = decodeDir (data.toList.drop off) := by
  generalize hn : data.size - off = n
  induction n using Nat.strongRecOn generalizing off with
  | ind n ih =>
    have hlen : (data.toList.drop off).length = data.size - off := by simp
    by_cases hlt : data.size < off + 8
    · rw [blocksFrom_of_lt hlt, decodeDir, if_pos (by omega)]
      rfl
    · have hge : off + 8 ≤ data.size := by omega
      have hb : (blockAt data off).WF data := hwf _ (by rw [blocksFrom_of_ge hge]; exact List.mem_cons_self)
      have hb' := hb
      obtain ⟨h4, h8, hin⟩ := hb'
      simp only [blockAt] at h4 h8 hin
      have hsz : leVal (((data.toList.drop off).drop 4).take 4) = le32 data (off + 4) := by
        rw [List.drop_drop, leVal_take4 data (off + 4) (by omega)]
      rw [blocksFrom_wf hge hb] at hwf ⊢
      rw [decodeDir, if_neg (by omega)]
      simp only [hsz]
      rw [if_neg (by omega), List.flatMap_cons, flatBlock_eq_spec hb, List.drop_drop]
      congr 1
      exact ih (data.size - (off + le32 data (off + 4))) (by omega) _ (by omega)
        (fun b hb => hwf b (List.mem_cons_of_mem _ hb)) rfl

/-! ### the format-side well-formedness predicate against the blocks the iterator finds -/

theorem wellFormedDir_from_iff (data : Bytes) (off : Nat) (hoff : off ≤ data.size) :
    WellFormedDir (data.toList.drop off) ↔ ∀ b ∈ blocksFrom data off, b.WF data := by
  generalize hn : data.size - off = n
  induction n using Nat.strongRecOn generalizing off with
  | ind n ih =>
    have hlen : (data.toList.drop off).length = data.size - off := by simp
    by_cases hlt : data.size < off + 8
    · rw [blocksFrom_of_lt hlt, WellFormedDir, if_pos (by omega)]
      simp
    · have hge : off + 8 ≤ data.size := by omega
      have hsz : leVal (((data.toList.drop off).drop 4).take 4) = le32 data (off + 4) := by
        rw [List.drop_drop, leVal_take4 data (off + 4) (by omega)]
      have hmem : blockAt data off ∈ blocksFrom data off := by
        rw [blocksFrom_of_ge hge]; exact List.mem_cons_self
      rw [WellFormedDir, if_neg (by omega)]
      simp only [hsz]
      by_cases hbad : le32 data (off + 4) < 8 ∨ (data.toList.drop off).length < le32 data (off + 4)
      · rw [if_pos hbad]
        constructor
        · intro h; exact h.elim
        · intro h
          obtain ⟨_, h8, hin⟩ := h _ hmem
          simp only [blockAt] at h8 hin
          omega
      · rw [if_neg hbad]
        by_cases h4 : le32 data (off + 4) % 4 = 0
        · have hb : (blockAt data off).WF data := by
            refine ⟨h4, ?_, ?_⟩ <;> simp only [blockAt] <;> omega
          rw [blocksFrom_wf hge hb, List.drop_drop, List.forall_mem_cons,
            ih (data.size - (off + le32 data (off + 4))) (by omega) _ (by omega) rfl]
          exact ⟨fun h => ⟨hb, h.2⟩, fun h => ⟨h4, h.2⟩⟩
        · constructor
          · intro h; exact absurd h.1 h4
          · intro h; exact absurd (h _ hmem).1 h4

theorem wellFormedDir_decides (dir : List UInt8) : wellFormedDir dir = true ↔ WellFormedDir dir := by
  generalize hn : dir.length = n
  induction n using Nat.strongRecOn generalizing dir with
  | ind n ih =>
    rw [wellFormedDir, WellFormedDir]
    by_cases h8 : dir.length < 8
    · rw [if_pos h8, if_pos h8]; simp
    · rw [if_neg h8, if_neg h8]
      simp only
      by_cases hbad : leVal ((dir.drop 4).take 4) < 8 ∨ dir.length < leVal ((dir.drop 4).take 4)
      · rw [if_pos hbad, if_pos hbad]; simp
      · rw [if_neg hbad, if_neg hbad, Bool.and_eq_true, decide_eq_true_eq,
          ih (dir.drop (leVal ((dir.drop 4).take 4))).length (by rw [List.length_drop]; omega) _ rfl]

/-! ### tiling -/

theorem Tiles.end_eq {s e : Nat} {bs : List Block} (h : Tiles s bs e) :
    e = s + (bs.map (·.size)).sum := by
  induction bs generalizing s with
  | nil => simpa [Tiles] using h.symm
  | cons b bs ih =>
    obtain ⟨_, h2⟩ := h
    rw [ih h2, List.map_cons, List.sum_cons]; omega

theorem Tiles.bounds {s e : Nat} {bs : List Block} (h : Tiles s bs e) :
    s ≤ e ∧ ∀ b ∈ bs, s ≤ b.off ∧ b.off + b.size ≤ e := by
  induction bs generalizing s with
  | nil => exact ⟨by simp [Tiles] at h; omega, fun b hb => by cases hb⟩
  | cons b bs ih =>
    obtain ⟨h1, h2⟩ := h
    obtain ⟨h3, h4⟩ := ih h2
    refine ⟨by omega, ?_⟩
    intro c hc
    rcases List.mem_cons.mp hc with rfl | hc
    · omega
    · have := h4 c hc; omega

theorem Tiles.offset {s e : Nat} {bs : List Block} (h : Tiles s bs e) (i : Nat) (hi : i < bs.length) :
    bs[i].off = s + ((bs.take i).map (·.size)).sum := by
  induction bs generalizing s i with
  | nil => cases hi
  | cons b bs ih =>
    obtain ⟨h1, h2⟩ := h
    cases i with
    | zero => simpa using h1
    | succ i =>
      simp only [List.getElem_cons_succ, List.take_succ_cons, List.map_cons, List.sum_cons]
      rw [ih h2 i (by simpa using hi)]; omega

theorem Tiles.consecutive {s e : Nat} {bs : List Block} (h : Tiles s bs e) (i : Nat)
    (hi : i + 1 < bs.length) : bs[i + 1].off = bs[i].off + bs[i].size := by
  induction bs generalizing s i with
  | nil => cases hi
  | cons b bs ih =>
    obtain ⟨h1, h2⟩ := h
    cases i with
    | zero =>
      cases bs with
      | nil => simp at hi
      | cons c cs => obtain ⟨h3, _⟩ := h2; simp only [List.getElem_cons_succ, List.getElem_cons_zero]; omega
    | succ i =>
      simp only [List.getElem_cons_succ]
      exact ih h2 i (by simpa using hi)

theorem Tiles.pairwise {s e : Nat} {bs : List Block} (h : Tiles s bs e) :
    bs.Pairwise (fun a b => a.off + a.size ≤ b.off) := by
  induction bs generalizing s with
  | nil => exact List.Pairwise.nil
  | cons b bs ih =>
    obtain ⟨h1, h2⟩ := h
    refine List.Pairwise.cons ?_ (ih h2)
    intro c hc
    have := (Tiles.bounds h2).2 c hc
    omega

theorem Tiles.cover {s e : Nat} {bs : List Block} (h : Tiles s bs e) (p : Nat) (h1 : s ≤ p)
    (h2 : p < e) : ∃ b ∈ bs, b.off ≤ p ∧ p < b.off + b.size := by
  induction bs generalizing s with
  | nil => simp [Tiles] at h; omega
  | cons b bs ih =>
    obtain ⟨h3, h4⟩ := h
    by_cases hp : p < s + b.size
    · exact ⟨b, List.mem_cons_self, by omega, by omega⟩
    · obtain ⟨c, hc, hc'⟩ := ih h4 (by omega)
      exact ⟨c, List.mem_cons_of_mem _ hc, hc'⟩

/-- the iteration over well-formed data tiles the directory up to a tail shorter than a header -/
theorem tiles_blocksFrom (data : Bytes) (off : Nat) (hoff : off ≤ data.size)
    (hwf : ∀ b ∈ blocksFrom data off, b.WF data) :
    ∃ e, Tiles off (blocksFrom data off) e ∧ e ≤ data.size ∧ data.size < e + 8 := by
  generalize hn : data.size - off = n
  induction n using Nat.strongRecOn generalizing off with
  | ind n ih =>
    by_cases hlt : data.size < off + 8
    · rw [blocksFrom_of_lt hlt]
      exact ⟨off, rfl, hoff, hlt⟩
    · have hge : off + 8 ≤ data.size := by omega
      have hb : (blockAt data off).WF data := hwf _ (by rw [blocksFrom_of_ge hge]; exact List.mem_cons_self)
      have hb' := hb
      obtain ⟨h4, h8, hin⟩ := hb'
      simp only [blockAt] at h4 h8 hin
      rw [blocksFrom_wf hge hb] at hwf ⊢
      obtain ⟨e, he1, he2, he3⟩ := ih (data.size - (off + le32 data (off + 4))) (by omega) _ (by omega)
        (fun b hb => hwf b (List.mem_cons_of_mem _ hb)) rfl
      exact ⟨e, ⟨rfl, he1⟩, he2, he3⟩

/-- shape of a well-formed block: `(SizeOfBlock - 8) / 2` entries that end where the block ends -/
theorem wf_block_shape {data : Bytes} {b : Block} (hmem : b ∈ blocks data) (hwf : b.WF data) :
    b.nwords = (b.size - 8) / 2 ∧ b.off + 8 + 2 * b.nwords = b.off + b.size := by
  obtain ⟨o, -, -, ho8, rfl⟩ := mem_blocksFrom (off := 0) (by rfl) hmem
  obtain ⟨h4, h8, hin⟩ := hwf
  simp only [blockAt] at h4 h8 hin ⊢
  omega

/-! ### call histories: the model's iterator against the sequence specification -/
open Pelite.Seq in
/-- one call: same answer as the sequence of the remaining blocks, and the new state stands for
the sequence the specification is left with -/
theorem stepOp_spec (data : Bytes) (off : Nat) (o : Seq.Op) :
    (stepOp data off o).1 = (stepSeq Hint.unknown (blocksFrom data off) o).1 ∧
    blocksFrom data (stepOp data off o).2 = (stepSeq Hint.unknown (blocksFrom data off) o).2 := by
  cases o with
  | next =>
    unfold stepOp
    cases h : nextBlock data off with
    | none =>
      have := blocksFrom_of_next_none h
      simp [stepSeq, DequeSpec.next, this]
    | some p =>
      obtain ⟨b, off'⟩ := p
      have := blocksFrom_of_next_some h
      simp [stepSeq, DequeSpec.next, this]
  | nth n =>
    obtain ⟨h1, h2⟩ := nthBlock_spec data n off
    simp [stepOp, stepSeq, DequeSpec.nth, h1, h2]
  | sizeHint => simp [stepOp, stepSeq, sizeHintBlocks, Hint.unknown]
  | count => simp [stepOp, stepSeq, countBlocks_eq]
  | clone => simp [stepOp, stepSeq]

open Pelite.Seq in
theorem runOps_eq_runSeq (data : Bytes) (ops : List Seq.Op) (off : Nat) :
    runOps data off ops = runSeq Hint.unknown (blocksFrom data off) ops := by
  induction ops generalizing off with
  | nil => rfl
  | cons o os ih =>
    obtain ⟨h1, h2⟩ := stepOp_spec data off o
    rw [runOps, runSeq, ih, h1, h2]

/-! ### images for the non-vacuity examples of the extraction theorem (`C14_extraction`, Thm/C14.lean)

Two FILES with one section `.reloc` (RVA 0x1000, 32 raw bytes directly behind the headers: file offset 272 / 288) and six
data directories; slot 5 = (0x1000, 28): two well-formed blocks (page 0x2000: one entry and a padding entry; page
0x3000: three entries and a padding entry).  The generator `gen_pure.gen_relocs_image` reads the arrays out of THIS
file and replays them through the model driver and the Rust harness on every check. -/

/-- 304-byte PE32 file -/
def relocFile32 : Bytes := #[
    77, 90, 0, 0, 0, 0, 0, 0, 0, 0, 0, 0, 0, 0, 0, 0, 0, 0, 0, 0, 0, 0, 0, 0, 0, 0, 0, 0, 0, 0, 0, 0, 0, 0,
    0, 0, 0, 0, 0, 0, 0, 0, 0, 0, 0, 0, 0, 0, 0, 0, 0, 0, 0, 0, 0, 0, 0, 0, 0, 0, 64, 0, 0, 0, 80, 69, 0, 0,
    76, 1, 1, 0, 0, 0, 0, 95, 0, 0, 0, 0, 0, 0, 0, 0, 144, 0, 2, 33, 11, 1, 14, 0, 0, 0, 0, 0, 0, 2, 0, 0, 0, 0,
    0, 0, 0, 16, 0, 0, 0, 16, 0, 0, 0, 32, 0, 0, 0, 0, 64, 0, 0, 16, 0, 0, 4, 0, 0, 0, 6, 0, 0, 0, 0, 0, 0, 0,
    6, 0, 0, 0, 0, 0, 0, 0, 0, 32, 0, 0, 16, 1, 0, 0, 0, 0, 0, 0, 3, 0, 64, 129, 0, 0, 16, 0, 0, 16, 0, 0, 0, 0,
    16, 0, 0, 16, 0, 0, 0, 0, 0, 0, 6, 0, 0, 0, 0, 0, 0, 0, 0, 0, 0, 0, 0, 0, 0, 0, 0, 0, 0, 0, 0, 0, 0, 0,
    0, 0, 0, 0, 0, 0, 0, 0, 0, 0, 0, 0, 0, 0, 0, 0, 0, 0, 0, 0, 0, 16, 0, 0, 28, 0, 0, 0, 46, 114, 101, 108, 111, 99,
    0, 0, 32, 0, 0, 0, 0, 16, 0, 0, 32, 0, 0, 0, 16, 1, 0, 0, 0, 0, 0, 0, 0, 0, 0, 0, 0, 0, 0, 0, 64, 0, 0, 66,
    0, 32, 0, 0, 12, 0, 0, 0, 4, 48, 0, 0, 0, 48, 0, 0, 16, 0, 0, 0, 8, 160, 16, 48, 255, 63, 0, 0, 0, 0, 0, 0]

/-- 320-byte PE32+ file -/
def relocFile64 : Bytes := #[
    77, 90, 0, 0, 0, 0, 0, 0, 0, 0, 0, 0, 0, 0, 0, 0, 0, 0, 0, 0, 0, 0, 0, 0, 0, 0, 0, 0, 0, 0, 0, 0, 0, 0,
    0, 0, 0, 0, 0, 0, 0, 0, 0, 0, 0, 0, 0, 0, 0, 0, 0, 0, 0, 0, 0, 0, 0, 0, 0, 0, 64, 0, 0, 0, 80, 69, 0, 0,
    100, 134, 1, 0, 0, 0, 0, 95, 0, 0, 0, 0, 0, 0, 0, 0, 160, 0, 34, 32, 11, 2, 14, 0, 0, 0, 0, 0, 0, 2, 0, 0, 0, 0,
    0, 0, 0, 16, 0, 0, 0, 16, 0, 0, 0, 0, 0, 64, 1, 0, 0, 0, 0, 16, 0, 0, 4, 0, 0, 0, 6, 0, 0, 0, 0, 0, 0, 0,
    6, 0, 0, 0, 0, 0, 0, 0, 0, 32, 0, 0, 32, 1, 0, 0, 0, 0, 0, 0, 3, 0, 96, 129, 0, 0, 16, 0, 0, 0, 0, 0, 0, 16,
    0, 0, 0, 0, 0, 0, 0, 0, 16, 0, 0, 0, 0, 0, 0, 16, 0, 0, 0, 0, 0, 0, 0, 0, 0, 0, 6, 0, 0, 0, 0, 0, 0, 0,
    0, 0, 0, 0, 0, 0, 0, 0, 0, 0, 0, 0, 0, 0, 0, 0, 0, 0, 0, 0, 0, 0, 0, 0, 0, 0, 0, 0, 0, 0, 0, 0, 0, 0,
    0, 0, 0, 16, 0, 0, 28, 0, 0, 0, 46, 114, 101, 108, 111, 99, 0, 0, 32, 0, 0, 0, 0, 16, 0, 0, 32, 0, 0, 0, 32, 1, 0, 0,
    0, 0, 0, 0, 0, 0, 0, 0, 0, 0, 0, 0, 64, 0, 0, 66, 0, 32, 0, 0, 12, 0, 0, 0, 4, 48, 0, 0, 0, 48, 0, 0, 16, 0,
    0, 0, 8, 160, 16, 48, 255, 63, 0, 0, 0, 0, 0, 0]

end Pelite.Relocs
