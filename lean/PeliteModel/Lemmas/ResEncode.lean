import PeliteModel.Lemmas.ResTree
/-!
Helper lemmas for C12, part 3: the reference writer produces a section that represents the tree
(`IsNode (encode t) 0 t`), by reading the written bytes back chunk by chunk.
-/
namespace Pelite.Resources
open Pelite

/-- the byte list `chunk` occurs in `l` at offset `off` -/
def ReadAt (l : List UInt8) (off : Nat) (chunk : List UInt8) : Prop :=
  ∃ pre suf, l = pre ++ chunk ++ suf ∧ pre.length = off

theorem ReadAt.left {l : List UInt8} {off : Nat} {a b : List UInt8} (h : ReadAt l off (a ++ b)) : ReadAt l off a := by
  obtain ⟨pre, suf, h1, h2⟩ := h
  exact ⟨pre, b ++ suf, by rw [h1]; simp [List.append_assoc], h2⟩

theorem ReadAt.right {l : List UInt8} {off : Nat} {a b : List UInt8} (h : ReadAt l off (a ++ b)) :
    ReadAt l (off + a.length) b := by
  obtain ⟨pre, suf, h1, h2⟩ := h
  exact ⟨pre ++ a, suf, by rw [h1]; simp [List.append_assoc], by simp [h2]⟩

theorem ReadAt.bound {l : List UInt8} {off : Nat} {c : List UInt8} (h : ReadAt l off c) : off + c.length ≤ l.length := by
  obtain ⟨pre, suf, h1, h2⟩ := h
  rw [h1]; simp; omega

theorem ReadAt.whole (l : List UInt8) : ReadAt l 0 l := ⟨[], [], by simp, rfl⟩

theorem ReadAt.getD {l : List UInt8} {off : Nat} {c : List UInt8} (h : ReadAt l off c) (i : Nat) (hi : i < c.length) :
    l.toArray.getD (off + i) 0 = c.getD i 0 := by
  obtain ⟨pre, suf, h1, h2⟩ := h
  subst h2
  rw [h1]
  simp only [Array.getD_eq_getD_getElem?, List.getElem?_toArray, List.getD_eq_getElem?_getD]
  rw [List.append_assoc, List.getElem?_append_right (by omega)]
  rw [show pre.length + i - pre.length = i by omega, List.getElem?_append_left hi]

theorem ReadAt.byteAt {l : List UInt8} {off : Nat} {c : List UInt8} (h : ReadAt l off c) (i : Nat) (hi : i < c.length) :
    byteAt l.toArray (off + i) = (c.getD i 0).toNat := by
  unfold Pelite.byteAt
  rw [h.getD i hi]

theorem ofNat_toNat_of_lt {n : Nat} (h : n < 256) : (UInt8.ofNat n).toNat = n := by
  simp [UInt8.toNat_ofNat, Nat.mod_eq_of_lt h]

theorem ReadAt.le16 {l : List UInt8} {off v : Nat} (h : ReadAt l off (le16b v)) (hv : v < 65536) :
    le16 l.toArray off = v := by
  unfold Pelite.le16
  have h0 := h.byteAt 0 (by simp [le16b])
  have h1 := h.byteAt 1 (by simp [le16b])
  simp only [Nat.add_zero] at h0
  rw [h0, h1]
  simp only [le16b, List.getD_cons_zero, List.getD_cons_succ]
  rw [ofNat_toNat_of_lt (by omega), ofNat_toNat_of_lt (by omega)]
  omega

theorem ReadAt.le32 {l : List UInt8} {off v : Nat} (h : ReadAt l off (le32b v)) (hv : v < 4294967296) :
    le32 l.toArray off = v := by
  unfold Pelite.le32
  have h0 := h.byteAt 0 (by simp [le32b])
  have h1 := h.byteAt 1 (by simp [le32b])
  have h2 := h.byteAt 2 (by simp [le32b])
  have h3 := h.byteAt 3 (by simp [le32b])
  simp only [Nat.add_zero] at h0
  rw [h0, h1, h2, h3]
  simp only [le32b, List.getD_cons_zero, List.getD_cons_succ]
  rw [ofNat_toNat_of_lt (by omega), ofNat_toNat_of_lt (by omega), ofNat_toNat_of_lt (by omega), ofNat_toNat_of_lt (by omega)]
  omega

theorem le16b_length (v : Nat) : (le16b v).length = 2 := rfl
theorem le32b_length (v : Nat) : (le32b v).length = 4 := rfl

theorem encWords_length (ws : List Nat) : (encWords ws).length = 2 * ws.length := by
  induction ws with
  | nil => rfl
  | cons w ws ih => simp [encWords, le16b_length, ih]; omega

theorem wordsAt_succ (b : Bytes) (off n : Nat) : wordsAt b off (n + 1) = Pelite.le16 b off :: wordsAt b (off + 2) n := by
  unfold wordsAt
  rw [List.range_succ_eq_map]
  simp only [List.map_cons, List.map_map, Nat.mul_zero, Nat.add_zero]
  congr 1
  apply List.map_congr_left
  intro i _
  simp only [Function.comp]
  congr 1
  omega

theorem ReadAt.words {l : List UInt8} : ∀ {ws : List Nat} {off : Nat}, ReadAt l off (encWords ws) → (∀ w ∈ ws, w < 65536) →
    wordsAt l.toArray off ws.length = ws := by
  intro ws
  induction ws with
  | nil => intro off _ _; simp [wordsAt]
  | cons w ws ih =>
    intro off h hw
    have hl := h.left
    have hr := h.right
    rw [le16b_length] at hr
    have e1 := hl.le16 (hw w (by simp))
    have e2 := ih hr (fun x hx => hw x (by simp [hx]))
    rw [List.length_cons, wordsAt_succ, e1, e2]

theorem ReadAt.bytes {l : List UInt8} {c : List UInt8} {off : Nat} (h : ReadAt l off c) :
    bytesAt l.toArray off c.length = c := by
  apply List.ext_getElem
  · simp [bytesAt]
  · intro i h1 h2
    simp only [bytesAt, List.getElem_map, List.getElem_range]
    rw [h.getD i h2]
    simp [List.getD_eq_getElem?_getD, h2]

end Pelite.Resources

namespace Pelite.Resources
open Pelite

theorem pad4_ge (n : Nat) : n ≤ pad4 n := by unfold pad4; omega
theorem pad4_lt (n : Nat) : pad4 n < n + 4 := by unfold pad4; omega
theorem pad4_mod (n : Nat) : pad4 n % 4 = 0 := by unfold pad4; omega

theorem zeros_length (n : Nat) : (zeros n).length = n := by simp [zeros]

theorem rname_size_mod (nm : RName) : nm.size % 4 = 0 := by
  cases nm with
  | id n => rfl
  | wide ws => exact pad4_mod _

theorem encName_length (nm : RName) : (encName nm).length = nm.size := by
  cases nm with
  | id n => rfl
  | wide ws =>
    simp only [encName, RName.size, List.length_append, le16b_length, encWords_length, zeros_length]
    have := pad4_ge (2 + 2 * ws.length)
    omega

theorem encTable_length : ∀ (es : Entries) (o : Nat), (encTable o es).length = 8 * es.length
  | .nil, _ => rfl
  | .cons nm ch rest, o => by
    simp only [encTable, List.length_append, le32b_length, Entries.length, encTable_length rest]
    omega

mutual
theorem encNode_length (dirVA : Nat) : ∀ (t : Node) (base : Nat), (encNode dirVA base t).length = t.size
  | .data c cp, base => by
    simp only [encNode, Node.size, List.length_append, le32b_length, zeros_length]
    have := pad4_ge c.length
    omega
  | .dir n es, base => by
    simp only [encNode, Node.size, List.length_append, le32b_length, le16b_length, encTable_length,
      encBlobs_length dirVA es]
theorem encBlobs_length (dirVA : Nat) : ∀ (es : Entries) (o : Nat), (encBlobs dirVA o es).length = es.blobSize
  | .nil, _ => rfl
  | .cons nm ch rest, o => by
    simp only [encBlobs, Entries.blobSize, List.length_append, encName_length, encNode_length dirVA ch,
      encBlobs_length dirVA rest]
end

mutual
theorem node_size_mod : ∀ (t : Node), t.size % 4 = 0
  | .data c cp => by simp only [Node.size]; have := pad4_mod c.length; omega
  | .dir n es => by simp only [Node.size]; have := blobSize_mod es; omega
theorem blobSize_mod : ∀ (es : Entries), es.blobSize % 4 = 0
  | .nil => rfl
  | .cons nm ch rest => by
    simp only [Entries.blobSize]
    have := rname_size_mod nm; have := node_size_mod ch; have := blobSize_mod rest
    omega
end

/-- the Name field written for `nm` reads back as `nm` -/
theorem nameAt_enc {sec : List UInt8} {dirVA b : Nat} {nm : RName} {tpos o : Nat}
    (ht : ReadAt sec tpos (le32b (nameField nm o))) (hs : ReadAt sec o (encName nm))
    (hwf : nm.WF) (ho : o % 4 = 0) (hlt : o < 0x80000000) :
    NameAt ⟨sec.toArray, dirVA, b⟩ (le32 sec.toArray tpos) nm := by
  cases nm with
  | id n =>
    simp only [nameField] at ht
    simp only [RName.WF] at hwf
    rw [ht.le32 (by omega)]
    exact ⟨rfl, hwf⟩
  | wide ws =>
    simp only [nameField] at ht
    obtain ⟨hlen, hws⟩ := hwf
    rw [ht.le32 (by omega)]
    simp only [encName] at hs
    have h1 := hs.left.left
    have h2 := hs.left.right
    rw [le16b_length] at h2
    have hbound := hs.bound
    simp only [List.length_append, le16b_length, encWords_length, zeros_length] at hbound
    have hmod : (0x80000000 + o) % 0x80000000 = o := by omega
    unfold NameAt
    dsimp only
    rw [hmod, h1.le16 hlen, h2.words hws]
    refine ⟨by omega, by omega, ?_, rfl, rfl⟩
    simp only [List.size_toArray]
    omega

mutual
theorem isNode_enc (sec : List UInt8) (dirVA b : Nat) : ∀ (t : Node) (base : Nat),
    ReadAt sec base (encNode dirVA base t) → t.WF → base % 4 = 0 → base + t.size ≤ 0x80000000 →
    dirVA + base + t.size < 4294967296 → IsNode ⟨sec.toArray, dirVA, b⟩ base t
  | .data c cp, base, h, hwf, hal, hsz, hva => by
    simp only [encNode, List.append_assoc] at h
    simp only [Node.size] at hsz hva
    simp only [Node.WF] at hwf
    have hb := h.bound
    simp only [List.length_append, le32b_length, zeros_length] at hb
    have hp := pad4_ge c.length
    have f0 := h.left.le32 (v := dirVA + base + 16) (by omega)
    have r1 := h.right; rw [le32b_length] at r1
    have f1 := r1.left.le32 (v := c.length) (by omega)
    have r2 := r1.right; rw [le32b_length] at r2
    have f2 := r2.left.le32 (v := cp) (by omega)
    have r3 := r2.right; rw [le32b_length] at r3
    have r4 := r3.right; rw [le32b_length] at r4
    have f4 := r4.left.bytes
    unfold IsNode
    dsimp only
    rw [f0, show base + 4 = base + 4 from rfl, f1, show base + 8 = base + 4 + 4 by omega, f2]
    simp only [List.size_toArray]
    refine ⟨hal, by omega, by omega, by omega, by omega, ?_, trivial⟩
    rw [show dirVA + base + 16 - dirVA = base + 4 + 4 + 4 + 4 by omega, f4]
  | .dir n es, base, h, hwf, hal, hsz, hva => by
    simp only [encNode, List.append_assoc] at h
    simp only [Node.size] at hsz hva
    simp only [Node.WF] at hwf
    obtain ⟨hn1, hn2, hn3, hes⟩ := hwf
    have hb := h.bound
    simp only [List.length_append, le32b_length, le16b_length, encTable_length, encBlobs_length] at hb
    have r1 := h.right; rw [le32b_length] at r1
    have r2 := r1.right; rw [le32b_length] at r2
    have r3 := r2.right; rw [le16b_length] at r3
    have r4 := r3.right; rw [le16b_length] at r4
    have f4 := r4.left.le16 (v := n) hn2
    have r5 := r4.right; rw [le16b_length] at r5
    have f5 := r5.left.le16 (v := es.length - n) hn3
    have r6 := r5.right; rw [le16b_length] at r6
    have htab := r6.left
    have hblob := r6.right; rw [encTable_length] at hblob
    have e12 : base + 4 + 4 + 2 + 2 = base + 12 := by omega
    have e14 : base + 4 + 4 + 2 + 2 + 2 = base + 14 := by omega
    have e16 : base + 4 + 4 + 2 + 2 + 2 + 2 = base + 16 := by omega
    have eo : base + 4 + 4 + 2 + 2 + 2 + 2 + 8 * es.length = base + 16 + 8 * es.length := by omega
    rw [e12] at f4; rw [e14] at f5; rw [e16] at htab; rw [eo] at hblob
    have hents := isEntries_enc sec dirVA b es (base + 16) (base + 16 + 8 * es.length) htab hblob hes
      (by omega) (by omega) (by omega)
    unfold IsNode
    dsimp only
    rw [f4, f5]
    simp only [List.size_toArray]
    exact ⟨hal, by omega, trivial, by omega, hents⟩
theorem isEntries_enc (sec : List UInt8) (dirVA b : Nat) : ∀ (es : Entries) (tpos o : Nat),
    ReadAt sec tpos (encTable o es) → ReadAt sec o (encBlobs dirVA o es) → es.WF → o % 4 = 0 →
    o + es.blobSize ≤ 0x80000000 → dirVA + o + es.blobSize < 4294967296 →
    IsEntries ⟨sec.toArray, dirVA, b⟩ tpos es
  | .nil, _, _, _, _, _, _, _, _ => by simp [IsEntries]
  | .cons nm ch rest, tpos, o, ht, hbl, hwf, hal, hsz, hva => by
    simp only [encTable, List.append_assoc] at ht
    simp only [encBlobs, List.append_assoc] at hbl
    simp only [Entries.blobSize] at hsz hva
    simp only [Entries.WF] at hwf
    obtain ⟨hnm, hch, hrest⟩ := hwf
    have t0 := ht.left
    have t1 := ht.right; rw [le32b_length] at t1
    have t2 := t1.right; rw [le32b_length] at t2
    have b0 := hbl.left
    have b1 := hbl.right; rw [encName_length] at b1
    have b2 := b1.right; rw [encNode_length] at b2
    have hnmod := rname_size_mod nm
    have hcmod := node_size_mod ch
    have hcsz : 16 ≤ ch.size := by cases ch <;> simp only [Node.size] <;> omega
    have hname := nameAt_enc (dirVA := dirVA) (b := b) t0 b0 hnm hal (by omega)
    have hchild := isNode_enc sec dirVA b ch (o + nm.size) b1.left hch (by omega) (by omega) (by omega)
    have e8 : tpos + 4 + 4 = tpos + 8 := by omega
    rw [e8] at t2
    have hrestE := isEntries_enc sec dirVA b rest (tpos + 8) (o + nm.size + ch.size) t2 b2 hrest (by omega) (by omega) (by omega)
    unfold IsEntries
    refine ⟨hname, ?_, ?_, hrestE⟩
    · dsimp only
      unfold offsetField at t1
      cases hd : ch.isDir with
      | true =>
        rw [hd] at t1
        rw [t1.left.le32 (by simp only [if_true]; omega)]
        simp only [if_true]
        exact ⟨fun _ => trivial, fun _ => Nat.le_add_right _ _⟩
      | false =>
        rw [hd] at t1
        rw [t1.left.le32 (by simp; omega)]
        simp
        omega
    · dsimp only
      unfold offsetField at t1
      cases hd : ch.isDir with
      | true =>
        rw [hd] at t1
        rw [t1.left.le32 (by simp only [if_true]; omega)]
        simp only [if_true]
        rw [show (0x80000000 + (o + nm.size)) % 0x80000000 = o + nm.size by omega]
        exact hchild
      | false =>
        rw [hd] at t1
        rw [t1.left.le32 (by simp; omega)]
        simp only [Bool.false_eq_true, if_false]
        rw [Nat.mod_eq_of_lt (by omega)]
        exact hchild
end

/-- the reference writer produces a section that represents the tree -/
theorem isTree_resourcesOf {dirVA : Nat} {t : Node} (h : Encodable dirVA t) : IsTree (resourcesOf dirVA t) t := by
  obtain ⟨hdir, hwf, h1, h2⟩ := h
  refine ⟨hdir, ?_⟩
  exact isNode_enc (encodeTree dirVA t) dirVA 0 t 0 (ReadAt.whole _) hwf rfl (by omega) (by omega)

theorem aligned_resourcesOf (dirVA : Nat) (t : Node) : Aligned (resourcesOf dirVA t) := rfl

end Pelite.Resources
