import PeliteModel.Lemmas.ResTree
import PeliteModel.Lemmas.ResName
/-!
Helper lemmas for C12, part 5: the find API — safety for arbitrary section bytes, "first match in
stored order", and the lookups on a section that represents a tree against the lookups on the tree.
-/
namespace Pelite.Resources
open Pelite

/-! ### safety: the find API always produces a Rust value -/

/-- directories inside an `Entry` satisfy the directory invariant -/
def EntryOK (r : Resources) : Entry → Prop
  | .dir d => DirOK r d
  | .data _ => True

theorem entry_entryOK {r : Resources} (hb : Aligned r) {e : DirEntry} {en : Entry} (h : e.entry r = .ok en) : EntryOK r en := by
  cases en with
  | dir d => exact (entry_dir_ok hb h).1
  | data de => trivial

theorem isVal_liftE {α β : Type} {x : Out α} {f : α → Out (FRes β)} (hx : Safe x) (hf : ∀ a, x = .ok a → IsVal (f a)) :
    IsVal (liftE x f) := by
  cases x with
  | ok a => exact hf a rfl
  | err e => trivial
  | panic s => exact hx.elim
  | ub s => exact hx.elim
  | diverge => exact hx.elim

theorem isVal_bindF {α β : Type} {x : Out (FRes α)} {f : α → Out (FRes β)} (hx : IsVal x)
    (hf : ∀ a, x = .ok (.ok a) → IsVal (f a)) : IsVal (bindF x f) := by
  cases x with
  | ok v =>
    cases v with
    | ok a => exact hf a rfl
    | error e => trivial
  | err e => exact hx.elim
  | panic s => exact hx.elim
  | ub s => exact hx.elim
  | diverge => exact hx.elim

theorem isVal_firstMatch {r : Resources} (hb : Aligned r) (q : Name) : ∀ es : List DirEntry, IsVal (firstMatch r q es)
  | [] => trivial
  | e :: rest => by
    unfold firstMatch
    have hs := safe_getName hb e
    cases hn : e.getName r with
    | ok nm =>
      dsimp only
      by_cases hq : nm.eq q = true
      · rw [if_pos hq]; trivial
      · rw [if_neg hq]; exact isVal_firstMatch hb q rest
    | err er => exact isVal_firstMatch hb q rest
    | panic s => rw [hn] at hs; exact hs.elim
    | ub s => rw [hn] at hs; exact hs.elim
    | diverge => rw [hn] at hs; exact hs.elim

/-- the part of `lookup` after `entries()` -/
def pick (r : Resources) (q : Name) (es : List DirEntry) : Out (FRes Entry) :=
  match firstMatch r q es with
  | .ok (some e) => liftE (e.entry r) okF
  | .ok none => failF .notFound
  | .err e => .err e
  | .panic s => .panic s
  | .ub s => .ub s
  | .diverge => .diverge

theorem lookup_eq_pick {r : Resources} (hb : Aligned r) {d : Dir} (hd : DirOK r d) (q : Name) :
    lookup r d q = pick r q (entriesFrom r (d.off + 16) (d.named + d.ids)) := by
  unfold lookup pick
  rw [entries_eq hb hd]
  rfl

theorem isVal_pick {r : Resources} (hb : Aligned r) (q : Name) (es : List DirEntry) :
    IsVal (pick r q es) ∧ ∀ en, pick r q es = .ok (.ok en) → EntryOK r en := by
  unfold pick
  have hv := isVal_firstMatch hb q es
  cases hf : firstMatch r q es with
  | ok o =>
    cases o with
    | none => exact ⟨trivial, fun en h => by cases h⟩
    | some e =>
      dsimp only
      have hs := safe_entry hb e
      cases he : e.entry r with
      | ok en' =>
        refine ⟨trivial, fun en h => ?_⟩
        simp only [liftE, okF, Out.ok.injEq, Except.ok.injEq] at h
        subst h
        exact entry_entryOK hb he
      | err er => exact ⟨trivial, fun en h => by cases h⟩
      | panic s => rw [he] at hs; exact hs.elim
      | ub s => rw [he] at hs; exact hs.elim
      | diverge => rw [he] at hs; exact hs.elim
  | err er => rw [hf] at hv; exact hv.elim
  | panic s => rw [hf] at hv; exact hv.elim
  | ub s => rw [hf] at hv; exact hv.elim
  | diverge => rw [hf] at hv; exact hv.elim

theorem isVal_lookup {r : Resources} (hb : Aligned r) {d : Dir} (hd : DirOK r d) (q : Name) :
    IsVal (lookup r d q) ∧ ∀ en, lookup r d q = .ok (.ok en) → EntryOK r en := by
  rw [lookup_eq_pick hb hd]; exact isVal_pick hb q _

theorem isVal_asData (en : Entry) : IsVal (asData en) := by cases en <;> trivial
theorem isVal_asDir (en : Entry) : IsVal (asDir en) := by cases en <;> trivial

theorem asDir_ok {r : Resources} {en : Entry} {d : Dir} (h : asDir en = .ok (.ok d)) (he : EntryOK r en) : DirOK r d := by
  cases en with
  | dir d' => simp only [asDir, okF, Out.ok.injEq, Except.ok.injEq] at h; subst h; exact he
  | data de => cases h

theorem isVal_getDir {r : Resources} (hb : Aligned r) {d : Dir} (hd : DirOK r d) (q : Name) :
    IsVal (d.getDir r q) ∧ ∀ d', d.getDir r q = .ok (.ok d') → DirOK r d' := by
  unfold Dir.getDir
  obtain ⟨h1, h2⟩ := isVal_lookup hb hd q
  refine ⟨isVal_bindF h1 (fun a _ => isVal_asDir a), ?_⟩
  intro d' h
  cases hl : lookup r d q with
  | ok v =>
    cases v with
    | ok en => rw [hl] at h; exact asDir_ok h (h2 en hl)
    | error e => rw [hl] at h; cases h
  | _ => rw [hl] at h; cases h

theorem isVal_get {r : Resources} (hb : Aligned r) {d : Dir} (hd : DirOK r d) (q : Name) : IsVal (d.get r q) :=
  (isVal_lookup hb hd q).1

theorem isVal_getData {r : Resources} (hb : Aligned r) {d : Dir} (hd : DirOK r d) (q : Name) : IsVal (d.getData r q) :=
  isVal_bindF (isVal_lookup hb hd q).1 (fun a _ => isVal_asData a)

theorem isVal_first {r : Resources} (hb : Aligned r) {d : Dir} (hd : DirOK r d) :
    IsVal (d.first r) ∧ ∀ en, d.first r = .ok (.ok en) → EntryOK r en := by
  unfold Dir.first
  rw [entries_eq hb hd]
  cases hes : entriesFrom r (d.off + 16) (d.named + d.ids) with
  | nil => exact ⟨trivial, fun en h => by cases h⟩
  | cons e rest =>
    dsimp only
    have hs := safe_entry hb e
    cases he : e.entry r with
    | ok en' =>
      refine ⟨trivial, fun en h => ?_⟩
      simp only [liftE, okF, Out.ok.injEq, Except.ok.injEq] at h
      subst h
      exact entry_entryOK hb he
    | err er => exact ⟨trivial, fun en h => by cases h⟩
    | panic s => rw [he] at hs; exact hs.elim
    | ub s => rw [he] at hs; exact hs.elim
    | diverge => rw [he] at hs; exact hs.elim

theorem isVal_firstData {r : Resources} (hb : Aligned r) {d : Dir} (hd : DirOK r d) : IsVal (d.firstData r) :=
  isVal_bindF (isVal_first hb hd).1 (fun a _ => isVal_asData a)

theorem isVal_firstDir {r : Resources} (hb : Aligned r) {d : Dir} (hd : DirOK r d) :
    IsVal (d.firstDir r) ∧ ∀ d', d.firstDir r = .ok (.ok d') → DirOK r d' := by
  unfold Dir.firstDir
  obtain ⟨h1, h2⟩ := isVal_first hb hd
  refine ⟨isVal_bindF h1 (fun a _ => isVal_asDir a), ?_⟩
  intro d' h
  cases hl : d.first r with
  | ok v =>
    cases v with
    | ok en => rw [hl] at h; exact asDir_ok h (h2 en hl)
    | error e => rw [hl] at h; cases h
  | _ => rw [hl] at h; cases h

theorem isVal_findParts {r : Resources} (hb : Aligned r) : ∀ (parts : List (List Nat)) (en : Entry), EntryOK r en →
    IsVal (findParts r parts en)
  | [], en, _ => trivial
  | part :: rest, en, hen => by
    unfold findParts
    cases hu : utf8Chars part with
    | none => trivial
    | some cs =>
      dsimp only
      cases en with
      | data de => trivial
      | dir d =>
        dsimp only
        rw [entries_eq hb hen]
        dsimp only
        have hv := isVal_firstMatch hb (.str part) (entriesFrom r (d.off + 16) (d.named + d.ids))
        cases hf : firstMatch r (.str part) (entriesFrom r (d.off + 16) (d.named + d.ids)) with
        | ok o =>
          cases o with
          | none => trivial
          | some child =>
            dsimp only
            exact isVal_liftE (safe_entry hb child) (fun a ha => isVal_findParts hb rest a (entry_entryOK hb ha))
        | err er => rw [hf] at hv; exact hv.elim
        | panic s => rw [hf] at hv; exact hv.elim
        | ub s => rw [hf] at hv; exact hv.elim
        | diverge => rw [hf] at hv; exact hv.elim

theorem isVal_find {r : Resources} (hb : Aligned r) (p : List Nat) : IsVal (find r p) := by
  unfold find
  cases pathSplit p with
  | none => trivial
  | some sp =>
    dsimp only
    by_cases h : sp.1 ≠ [47] ∧ sp.1 ≠ [92]
    · rw [if_pos h]; trivial
    · rw [if_neg h]
      exact isVal_liftE (safe_root hb) (fun d hd => isVal_findParts hb _ _ (root_ok hb hd))

theorem isVal_dirFind {r : Resources} (hb : Aligned r) {d : Dir} (hd : DirOK r d) (p : List Nat) : IsVal (d.find r p) :=
  isVal_findParts hb _ _ hd

theorem isVal_findData {r : Resources} (hb : Aligned r) (p : List Nat) : IsVal (findData r p) :=
  isVal_bindF (isVal_find hb p) (fun a _ => isVal_asData a)
theorem isVal_findDir {r : Resources} (hb : Aligned r) (p : List Nat) : IsVal (findDir r p) :=
  isVal_bindF (isVal_find hb p) (fun a _ => isVal_asDir a)

theorem isVal_findResources {r : Resources} (hb : Aligned r) (ty name : Name) :
    IsVal (findResources r ty name) ∧ ∀ d, findResources r ty name = .ok (.ok d) → DirOK r d := by
  unfold findResources
  have hs := safe_root hb
  cases hr : root r with
  | ok d0 =>
    have hd0 := root_ok hb hr
    simp only [liftE]
    obtain ⟨h1, h2⟩ := isVal_getDir hb hd0 ty
    cases hg : d0.getDir r ty with
    | ok v =>
      cases v with
      | ok t => simp only [bindF]; exact isVal_getDir hb (h2 t hg) name
      | error e => exact ⟨trivial, fun d h => by cases h⟩
    | err er => rw [hg] at h1; exact h1.elim
    | panic s => rw [hg] at h1; exact h1.elim
    | ub s => rw [hg] at h1; exact h1.elim
    | diverge => rw [hg] at h1; exact h1.elim
  | err er => exact ⟨trivial, fun d h => by cases h⟩
  | panic s => rw [hr] at hs; exact hs.elim
  | ub s => rw [hr] at hs; exact hs.elim
  | diverge => rw [hr] at hs; exact hs.elim

theorem isVal_bytesF (r : Resources) (de : DataEntry) : IsVal (liftE (de.bytes r) (okF (α := Ref))) :=
  isVal_liftE (safe_bytes r de) (fun _ _ => trivial)

theorem isVal_findResource {r : Resources} (hb : Aligned r) (ty name : Name) : IsVal (findResource r ty name) := by
  unfold findResource
  obtain ⟨h1, h2⟩ := isVal_findResources hb ty name
  exact isVal_bindF h1 (fun n hn => isVal_bindF (isVal_firstData hb (h2 n hn)) (fun de _ => isVal_bytesF r de))

theorem isVal_findResourceEx {r : Resources} (hb : Aligned r) (ty name lang : Name) : IsVal (findResourceEx r ty name lang) := by
  unfold findResourceEx
  obtain ⟨h1, h2⟩ := isVal_findResources hb ty name
  exact isVal_bindF h1 (fun n hn => isVal_bindF (isVal_getData hb (h2 n hn) lang) (fun de _ => isVal_bytesF r de))

theorem isVal_versionBytes {r : Resources} (hb : Aligned r) : IsVal (versionBytes r) := isVal_findResource hb _ _

theorem isVal_versionInfo {r : Resources} (hb : Aligned r) : IsVal (versionInfo r) := by
  unfold versionInfo
  refine isVal_bindF (isVal_versionBytes hb) (fun b _ => ?_)
  by_cases h : (r.base + b.off) % 4 ≠ 0
  · rw [if_pos h]; trivial
  · rw [if_neg h]; trivial

theorem isVal_manifest {r : Resources} (hb : Aligned r) : IsVal (manifest r) := by
  unfold manifest
  refine isVal_liftE (safe_root hb) (fun d hd => ?_)
  obtain ⟨h1, h2⟩ := isVal_getDir hb (root_ok hb hd) (.id RT_MANIFEST)
  refine isVal_bindF h1 (fun m hm => ?_)
  obtain ⟨h3, h4⟩ := isVal_firstDir hb (h2 m hm)
  refine isVal_bindF h3 (fun l hl => ?_)
  refine isVal_bindF (isVal_firstData hb (h4 l hl)) (fun de _ => ?_)
  refine isVal_liftE (safe_bytes r de) (fun b _ => ?_)
  cases utf8Chars ((bytesAt r.sec b.off b.len).map UInt8.toNat) <;> trivial

end Pelite.Resources

namespace Pelite.Resources
open Pelite

/-! ### "the first entry whose name matches" (for arbitrary section bytes) -/

/-- the comparison `de.name() == Ok(q)` of the lookups -/
def entryMatches (r : Resources) (q : Name) (e : DirEntry) : Prop := ∃ nm, e.getName r = .ok nm ∧ nm.eq q = true

theorem firstMatch_step {r : Resources} (hb : Aligned r) (q : Name) (e : DirEntry) (rest : List DirEntry) :
    (entryMatches r q e ∧ firstMatch r q (e :: rest) = .ok (some e)) ∨
    (¬ entryMatches r q e ∧ firstMatch r q (e :: rest) = firstMatch r q rest) := by
  have hdef : firstMatch r q (e :: rest) =
      match e.getName r with
      | .ok nm => if nm.eq q then .ok (some e) else firstMatch r q rest
      | .err _ => firstMatch r q rest
      | .panic s => .panic s
      | .ub s => .ub s
      | .diverge => .diverge := rfl
  rw [hdef]
  have hs := safe_getName hb e
  cases hn : e.getName r with
  | ok nm =>
    dsimp only
    by_cases hq : nm.eq q = true
    · rw [if_pos hq]; exact Or.inl ⟨⟨nm, hn, hq⟩, rfl⟩
    · rw [if_neg hq]
      refine Or.inr ⟨?_, rfl⟩
      rintro ⟨nm', h1, h2⟩
      rw [hn] at h1; cases h1; exact hq h2
  | err er =>
    refine Or.inr ⟨?_, rfl⟩
    rintro ⟨nm', h1, _⟩
    rw [hn] at h1; cases h1
  | panic s => rw [hn] at hs; exact hs.elim
  | ub s => rw [hn] at hs; exact hs.elim
  | diverge => rw [hn] at hs; exact hs.elim

/-- `find(|de| de.name() == Ok(q))` returns the first matching entry in stored order -/
theorem firstMatch_some {r : Resources} (hb : Aligned r) (q : Name) : ∀ (es : List DirEntry) (e : DirEntry),
    firstMatch r q es = .ok (some e) →
      ∃ pre post, es = pre ++ e :: post ∧ entryMatches r q e ∧ ∀ x ∈ pre, ¬ entryMatches r q x
  | [], e, h => by simp [firstMatch] at h
  | x :: rest, e, h => by
    rcases firstMatch_step hb q x rest with ⟨hm, he⟩ | ⟨hm, he⟩
    · rw [he] at h
      simp only [Out.ok.injEq, Option.some.injEq] at h
      subst h
      exact ⟨[], rest, rfl, hm, fun y hy => by cases hy⟩
    · rw [he] at h
      obtain ⟨pre, post, h1, h2, h3⟩ := firstMatch_some hb q rest e h
      refine ⟨x :: pre, post, by rw [h1]; rfl, h2, ?_⟩
      intro y hy
      rcases List.mem_cons.1 hy with rfl | hy
      · exact hm
      · exact h3 y hy

theorem firstMatch_none {r : Resources} (hb : Aligned r) (q : Name) : ∀ (es : List DirEntry),
    firstMatch r q es = .ok none ↔ ∀ x ∈ es, ¬ entryMatches r q x
  | [] => by simp [firstMatch]
  | x :: rest => by
    rcases firstMatch_step hb q x rest with ⟨hm, he⟩ | ⟨hm, he⟩
    · rw [he]
      constructor
      · intro h; cases h
      · intro h; exact absurd hm (h x (by simp))
    · rw [he, firstMatch_none hb q rest]
      constructor
      · intro h y hy
        rcases List.mem_cons.1 hy with rfl | hy
        · exact hm
        · exact h y hy
      · intro h y hy; exact h y (by simp [hy])

/-! ### lookups on a section that represents a tree -/

/-- the entry handed out by the code stands for the abstract node -/
def Rep (r : Resources) : Entry → Node → Prop
  | .dir d, .dir n es => d = ⟨d.off, n, es.length - n⟩ ∧ IsNode r d.off (.dir n es)
  | .data de, .data c cp =>
    de = ⟨de.off, le32 r.sec de.off, le32 r.sec (de.off + 4), le32 r.sec (de.off + 8)⟩ ∧ IsNode r de.off (.data c cp)
  | _, _ => False

def RepDir (r : Resources) (d : Dir) (t : Node) : Prop := Rep r (.dir d) t
def RepData (r : Resources) (de : DataEntry) (t : Node) : Prop := Rep r (.data de) t
/-- the returned bytes are the content of the abstract data entry -/
def RepBytes (r : Resources) (ref : Ref) (t : Node) : Prop :=
  ∃ c cp, t = .data c cp ∧ ref.off + ref.len ≤ r.sec.size ∧ ref.len = c.length ∧ bytesAt r.sec ref.off ref.len = c

/-- the code's `Result` corresponds to the specification's: same error, or related values -/
def FRelG {α β : Type} (R : α → β → Prop) (o : Out (FRes α)) (s : FRes β) : Prop :=
  match s with
  | .ok b => ∃ a, o = .ok (.ok a) ∧ R a b
  | .error e => o = .ok (.error e)

theorem FRelG.bind {α β α' β' : Type} {R : α → β → Prop} {R' : α' → β' → Prop} {o : Out (FRes α)} {s : FRes β}
    {f : α → Out (FRes α')} {g : β → FRes β'} (h : FRelG R o s) (hf : ∀ a b, R a b → FRelG R' (f a) (g b)) :
    FRelG R' (bindF o f) (s.bind g) := by
  cases s with
  | ok b =>
    obtain ⟨a, h1, h2⟩ := h
    rw [h1]
    exact hf a b h2
  | error e =>
    have : o = .ok (.error e) := h
    rw [this]
    rfl

/-- the same when the specification has nothing more to do -/
theorem FRelG.bind_ok {α β α' : Type} {R : α → β → Prop} {R' : α' → β → Prop} {o : Out (FRes α)} {s : FRes β}
    {f : α → Out (FRes α')} (h : FRelG R o s) (hf : ∀ a b, R a b → FRelG R' (f a) (Except.ok b)) :
    FRelG R' (bindF o f) s := by
  cases s with
  | ok b =>
    obtain ⟨a, h1, h2⟩ := h
    rw [h1]
    exact hf a b h2
  | error e =>
    have : o = .ok (.error e) := h
    rw [this]
    rfl

theorem FRelG.liftE {α α' β' : Type} {R' : α' → β' → Prop} {x : Out α} {a : α} {f : α → Out (FRes α')} {s : FRes β'}
    (hx : x = .ok a) (h : FRelG R' (f a) s) : FRelG R' (liftE x f) s := by
  rw [hx]; exact h

theorem nameAt_inRange {r : Resources} {f : Nat} {nm : RName} (h : NameAt r f nm) : nm.InRange := by
  cases nm with
  | id n => obtain ⟨_, h2⟩ := h; show n < 4294967296; omega
  | wide ws =>
    obtain ⟨_, _, _, _, h5⟩ := h
    intro w hw
    rw [h5] at hw
    simp only [wordsAt, List.mem_map, List.mem_range] at hw
    obtain ⟨i, _, rfl⟩ := hw
    exact le16_lt _ _

/-- the entry a represented record resolves to -/
theorem entry_rep {r : Resources} (hb : Aligned r) {pos : Nat} {ch : Node}
    (hkind : 0x80000000 ≤ le32 r.sec (pos + 4) ↔ ch.isDir = true)
    (hnode : IsNode r (le32 r.sec (pos + 4) % 0x80000000) ch) :
    ∃ en, (entryAt r pos).entry r = .ok en ∧ Rep r en ch := by
  cases ch with
  | dir n ces =>
    have hge : (entryAt r pos).offset ≥ 0x80000000 := hkind.2 rfl
    obtain ⟨h1, _, _, _⟩ := dir_of_isNode hb hnode
    exact ⟨_, entry_of_dir hge h1, rfl, hnode⟩
  | data c cp =>
    have hlt : (entryAt r pos).offset < 0x80000000 := by
      have := hkind.1
      simp only [Node.isDir] at this
      show le32 r.sec (pos + 4) < 0x80000000
      by_cases hc : 0x80000000 ≤ le32 r.sec (pos + 4)
      · exact absurd (this hc) (by decide)
      · omega
    rw [show le32 r.sec (pos + 4) = (entryAt r pos).offset from rfl, Nat.mod_eq_of_lt hlt] at hnode
    obtain ⟨h1, _, _, _⟩ := data_of_isNode hb hnode
    exact ⟨_, entry_of_data hlt h1, rfl, hnode⟩

/-- the result of a name lookup on the abstract entries -/
def Entries.pick (es : Entries) (q : Name) : FRes Node :=
  match es.lookup q with
  | some c => .ok c
  | none => .error .notFound

theorem pick_rep {r : Resources} (hb : Aligned r) (q : Name) : ∀ (es : Entries) (pos : Nat), IsEntries r pos es →
    FRelG (Rep r) (pick r q (entriesFrom r pos es.length)) (es.pick q)
  | .nil, pos, _ => by
    simp only [Entries.length, entriesFrom, pick, firstMatch, Entries.pick, Entries.lookup]
    rfl
  | .cons nm ch rest, pos, h => by
    unfold IsEntries at h
    obtain ⟨hname, hkind, hnode, hrest⟩ := h
    rw [show (Entries.cons nm ch rest).length = rest.length + 1 from rfl,
      show entriesFrom r pos (rest.length + 1) = entryAt r pos :: entriesFrom r (pos + 8) rest.length from rfl]
    have hgn := getName_of_nameAt hb (e := entryAt r pos) hname
    have heq := eq_eq_nameMatch nm q (nameAt_inRange hname)
    unfold pick firstMatch
    rw [hgn]
    dsimp only
    unfold Entries.pick Entries.lookup
    rw [heq]
    cases hm : nameMatch nm q with
    | true =>
      simp only [if_true]
      obtain ⟨en, he, hrep⟩ := entry_rep hb hkind hnode
      rw [he]
      exact ⟨en, rfl, hrep⟩
    | false =>
      simp only [Bool.false_eq_true, if_false]
      exact pick_rep hb q rest (pos + 8) hrest

theorem lookup_rep {r : Resources} (hb : Aligned r) {d : Dir} {t : Node} (h : RepDir r d t) (q : Name) :
    FRelG (Rep r) (lookup r d q) (t.get q) := by
  cases t with
  | data c cp => exact h.elim
  | dir n es =>
    obtain ⟨hd, hnode⟩ := h
    obtain ⟨_, hok, hle, hents⟩ := dir_of_isNode hb hnode
    rw [← hd] at hok
    rw [lookup_eq_pick hb hok, hd]
    show FRelG (Rep r) (pick r q (entriesFrom r (d.off + 16) (n + (es.length - n)))) (es.pick q)
    rw [show n + (es.length - n) = es.length by omega]
    exact pick_rep hb q es _ hents

theorem asDir_rep {r : Resources} {en : Entry} {t : Node} (h : Rep r en t) : FRelG (RepDir r) (asDir en) t.asDir := by
  cases en with
  | dir d => cases t with
    | dir n es => exact ⟨d, rfl, h⟩
    | data c cp => exact h.elim
  | data de => cases t with
    | dir n es => exact h.elim
    | data c cp => rfl

theorem asData_rep {r : Resources} {en : Entry} {t : Node} (h : Rep r en t) : FRelG (RepData r) (asData en) t.asData := by
  cases en with
  | dir d => cases t with
    | dir n es => rfl
    | data c cp => exact h.elim
  | data de => cases t with
    | dir n es => exact h.elim
    | data c cp => exact ⟨de, rfl, h⟩

theorem get_rep {r : Resources} (hb : Aligned r) {d : Dir} {t : Node} (h : RepDir r d t) (q : Name) :
    FRelG (Rep r) (d.get r q) (t.get q) := lookup_rep hb h q
theorem getDir_rep {r : Resources} (hb : Aligned r) {d : Dir} {t : Node} (h : RepDir r d t) (q : Name) :
    FRelG (RepDir r) (d.getDir r q) (t.getDir q) := (lookup_rep hb h q).bind (fun _ _ => asDir_rep)
theorem getData_rep {r : Resources} (hb : Aligned r) {d : Dir} {t : Node} (h : RepDir r d t) (q : Name) :
    FRelG (RepData r) (d.getData r q) (t.getData q) := (lookup_rep hb h q).bind (fun _ _ => asData_rep)

theorem first_rep {r : Resources} (hb : Aligned r) {d : Dir} {t : Node} (h : RepDir r d t) :
    FRelG (Rep r) (d.first r) t.first := by
  cases t with
  | data c cp => exact h.elim
  | dir n es =>
    obtain ⟨hd, hnode⟩ := h
    obtain ⟨_, hok, hle, hents⟩ := dir_of_isNode hb hnode
    rw [← hd] at hok
    unfold Dir.first
    rw [entries_eq hb hok, hd]
    show FRelG (Rep r) (match Out.ok (entriesFrom r (d.off + 16) (n + (es.length - n))) with
      | .ok (e :: _) => liftE (e.entry r) okF | .ok [] => failF .notFound
      | .err e => .err e | .panic s => .panic s | .ub s => .ub s | .diverge => .diverge) _
    rw [show n + (es.length - n) = es.length by omega]
    cases es with
    | nil => rfl
    | cons nm ch rest =>
      unfold IsEntries at hents
      obtain ⟨_, hkind, hn, _⟩ := hents
      obtain ⟨en, he, hrep⟩ := entry_rep hb hkind hn
      show FRelG (Rep r) (liftE ((entryAt r (d.off + 16)).entry r) okF) (Except.ok ch)
      rw [he]
      exact ⟨en, rfl, hrep⟩

theorem firstDir_rep {r : Resources} (hb : Aligned r) {d : Dir} {t : Node} (h : RepDir r d t) :
    FRelG (RepDir r) (d.firstDir r) t.firstDir := (first_rep hb h).bind (fun _ _ => asDir_rep)
theorem firstData_rep {r : Resources} (hb : Aligned r) {d : Dir} {t : Node} (h : RepDir r d t) :
    FRelG (RepData r) (d.firstData r) t.firstData := (first_rep hb h).bind (fun _ _ => asData_rep)

theorem findParts_rep {r : Resources} (hb : Aligned r) : ∀ (parts : List (List Nat)) (en : Entry) (t : Node), Rep r en t →
    FRelG (Rep r) (findParts r parts en) (t.walk parts)
  | [], en, t, h => ⟨en, rfl, h⟩
  | part :: rest, en, t, h => by
    unfold findParts Node.walk
    cases hu : utf8Chars part with
    | none => rfl
    | some cs =>
      dsimp only
      cases en with
      | data de =>
        cases t with
        | dir n es => exact h.elim
        | data c cp => rfl
      | dir d =>
        cases t with
        | data c cp => exact h.elim
        | dir n es =>
          dsimp only
          have hl := lookup_rep hb (d := d) (t := .dir n es) h (.str part)
          obtain ⟨hd, hnode⟩ := h
          obtain ⟨_, hok, hle, hents⟩ := dir_of_isNode hb hnode
          rw [← hd] at hok
          rw [lookup_eq_pick hb hok] at hl
          rw [entries_eq hb hok]
          dsimp only
          unfold pick at hl
          simp only [Node.get] at hl
          cases hlk : es.lookup (.str part) with
          | none =>
            rw [hlk] at hl
            have hl' : _ = Out.ok (Except.error FindError.notFound) := hl
            cases hf : firstMatch r (.str part) (entriesFrom r (d.off + 16) (d.named + d.ids)) with
            | ok o =>
              rw [hf] at hl'
              cases o with
              | none => rfl
              | some e =>
                dsimp only at hl' ⊢
                cases he : e.entry r with
                | ok en' => rw [he] at hl'; simp [liftE, okF] at hl'
                | err er => rw [he] at hl'; simp [liftE] at hl'
                | panic s => rw [he] at hl'; simp [liftE] at hl'
                | ub s => rw [he] at hl'; simp [liftE] at hl'
                | diverge => rw [he] at hl'; simp [liftE] at hl'
            | err er => rw [hf] at hl'; cases hl'
            | panic s => rw [hf] at hl'; cases hl'
            | ub s => rw [hf] at hl'; cases hl'
            | diverge => rw [hf] at hl'; cases hl'
          | some c =>
            rw [hlk] at hl
            obtain ⟨en', h1, h2⟩ := hl
            cases hf : firstMatch r (.str part) (entriesFrom r (d.off + 16) (d.named + d.ids)) with
            | ok o =>
              rw [hf] at h1
              cases o with
              | none => simp [failF] at h1
              | some e =>
                dsimp only at h1 ⊢
                cases he : e.entry r with
                | ok en'' =>
                  rw [he] at h1
                  simp only [liftE, okF, Out.ok.injEq, Except.ok.injEq] at h1
                  subst h1
                  exact findParts_rep hb rest en'' c h2
                | err er => rw [he] at h1; simp [liftE] at h1
                | panic s => rw [he] at h1; simp [liftE] at h1
                | ub s => rw [he] at h1; simp [liftE] at h1
                | diverge => rw [he] at h1; simp [liftE] at h1
            | err er => rw [hf] at h1; cases h1
            | panic s => rw [hf] at h1; cases h1
            | ub s => rw [hf] at h1; cases h1
            | diverge => rw [hf] at h1; cases h1

theorem root_rep {r : Resources} (hb : Aligned r) {t : Node} (h : IsTree r t) : ∃ d, root r = .ok d ∧ RepDir r d t := by
  obtain ⟨hdir, hnode⟩ := h
  cases t with
  | data c cp => cases hdir
  | dir n es =>
    obtain ⟨h1, _, _, _⟩ := dir_of_isNode hb hnode
    exact ⟨_, h1, rfl, hnode⟩

/-- `find(path)` on a section that represents `t` finds what the path names in `t` -/
theorem find_rep {r : Resources} (hb : Aligned r) {t : Node} (h : IsTree r t) (p : List Nat) :
    FRelG (Rep r) (find r p) (t.find p) := by
  unfold find Node.find
  cases pathSplit p with
  | none => rfl
  | some sp =>
    dsimp only
    by_cases hc : sp.1 ≠ [47] ∧ sp.1 ≠ [92]
    · rw [if_pos hc, if_pos hc]; rfl
    · rw [if_neg hc, if_neg hc]
      obtain ⟨d, hr, hrep⟩ := root_rep hb h
      exact FRelG.liftE hr (findParts_rep hb _ _ _ hrep)

theorem bytes_rep {r : Resources} (hb : Aligned r) {de : DataEntry} {t : Node} (h : RepData r de t) :
    FRelG (RepBytes r) (liftE (de.bytes r) okF) (Except.ok t) := by
  cases t with
  | dir n es => exact h.elim
  | data c cp =>
    obtain ⟨hde, hnode⟩ := h
    obtain ⟨_, h2, h3, _⟩ := data_of_isNode hb hnode
    rw [← hde] at h2
    rw [h2]
    refine ⟨_, rfl, c, cp, rfl, ?_, ?_, h3.symm⟩
    · unfold IsNode at hnode; exact hnode.2.2.2.2.1
    · rw [h3, bytesAt_length]

theorem findResources_rep {r : Resources} (hb : Aligned r) {t : Node} (h : IsTree r t) (ty name : Name) :
    FRelG (RepDir r) (findResources r ty name) (t.findResources ty name) := by
  obtain ⟨d, hr, hrep⟩ := root_rep hb h
  exact FRelG.liftE hr ((getDir_rep hb hrep ty).bind (fun _ _ h' => getDir_rep hb h' name))

theorem findResource_rep {r : Resources} (hb : Aligned r) {t : Node} (h : IsTree r t) (ty name : Name) :
    FRelG (RepBytes r) (findResource r ty name) (t.findResource ty name) := by
  unfold findResource Node.findResource Node.firstData
  exact (findResources_rep hb h ty name).bind (fun _ _ h1 => (firstData_rep hb h1).bind_ok (fun _ _ h2 => bytes_rep hb h2))

theorem findResourceEx_rep {r : Resources} (hb : Aligned r) {t : Node} (h : IsTree r t) (ty name lang : Name) :
    FRelG (RepBytes r) (findResourceEx r ty name lang) (t.findResourceEx ty name lang) := by
  unfold findResourceEx Node.findResourceEx
  exact (findResources_rep hb h ty name).bind (fun _ _ h1 => (getData_rep hb h1 lang).bind_ok (fun _ _ h2 => bytes_rep hb h2))

end Pelite.Resources
