import PeliteModel.Lemmas.ResGroup
/-!
Helper lemmas for C12, part 11: lookups are *path local*.

For ARBITRARY section bytes `find`, `find_resource`, `find_resource_ex`, `manifest`, `version_info`
and `GroupResource::image` are left folds of a one-level step (`stepSel`: in the current directory
select a child — by path component, by name, or the first one — and resolve it with `entry()`), so
their answer depends only on the directories met along the path.  No `IsTree` hypothesis anywhere.
-/
namespace Pelite.Resources
open Pelite

deriving instance DecidableEq for Except

instance (r : Resources) (d : Dir) : Decidable (DirOK r d) := by unfold DirOK; exact inferInstance

/-! ### the one-level step and its left fold -/

/-- how one level of a lookup selects a child of the current directory -/
inductive Sel
  /-- a component of a `find` path: must be UTF-8 (`Bad8Path`), then the child named `Name::Str(p)` -/
  | part (p : List Nat)
  /-- `get(q)`: the child named `q` -/
  | name (q : Name)
  /-- `first()`: the first child in stored order -/
  | first
  deriving DecidableEq, Repr

/-- One level of a lookup.  The current entry must be a directory (`UnDataEntry` otherwise); the
selected child — for `.part` / `.name` the FIRST entry in stored order whose name matches, see
`stepSel_name_eq` — is resolved with `DirectoryEntry::entry()`.  Only the entry table of the current
directory, the names of its entries and the header the selected entry points at are read. -/
def stepSel (r : Resources) (cur : Entry) (s : Sel) : Out (FRes Entry) :=
  match s with
  | .part p =>
    match utf8Chars p with
    | none => failF .bad8Path
    | some _ =>
      match cur with
      | .dir d => d.get r (.str p)
      | .data _ => failF .unDataEntry
  | .name q =>
    match cur with
    | .dir d => d.get r q
    | .data _ => failF .unDataEntry
  | .first =>
    match cur with
    | .dir d => d.first r
    | .data _ => failF .unDataEntry

/-- the LEFT fold of the one-level step over the selectors, from `start` -/
def walkSel (r : Resources) (start : Out (FRes Entry)) (sels : List Sel) : Out (FRes Entry) :=
  sels.foldl (fun acc s => bindF acc fun cur => stepSel r cur s) start

/-- `self.root()?` as an entry -/
def rootEntry (r : Resources) : Out (FRes Entry) := liftE (root r) fun d => okF (.dir d)

/-- `.data().ok_or(UnDirectory)?.bytes()?` -/
def dataBytes (r : Resources) (en : Entry) : Out (FRes Ref) := bindF (asData en) fun de => liftE (de.bytes r) okF

/-! ### the algebra of `?` -/

theorem bindF_okF {α : Type} (x : Out (FRes α)) : bindF x okF = x := by
  cases x with
  | ok v => cases v <;> rfl
  | _ => rfl

theorem bindF_assoc {α β γ : Type} (x : Out (FRes α)) (f : α → Out (FRes β)) (g : β → Out (FRes γ)) :
    bindF (bindF x f) g = bindF x fun a => bindF (f a) g := by
  cases x with
  | ok v => cases v <;> rfl
  | _ => rfl

theorem bindF_liftE {α β γ : Type} (x : Out α) (f : α → Out (FRes β)) (g : β → Out (FRes γ)) :
    bindF (liftE x f) g = liftE x fun a => bindF (f a) g := by
  cases x <;> rfl

theorem bindF_okF_left {α β : Type} (a : α) (f : α → Out (FRes β)) : bindF (okF a) f = f a := rfl

theorem bindF_congr {α β : Type} (x : Out (FRes α)) {f g : α → Out (FRes β)} (h : ∀ a, f a = g a) : bindF x f = bindF x g := by
  have : f = g := funext h
  rw [this]

theorem liftE_congr {α β : Type} (x : Out α) {f g : α → Out (FRes β)} (h : ∀ a, f a = g a) : liftE x f = liftE x g := by
  have : f = g := funext h
  rw [this]

/-! ### right fold = left fold -/

/-- the right-fold form of the walk (what the `'parts` loop of `find_internal` is) -/
def walkR (r : Resources) : List Sel → Entry → Out (FRes Entry)
  | [], e => okF e
  | s :: rest, e => bindF (stepSel r e s) (walkR r rest)

theorem walkSel_eq_walkR (r : Resources) : ∀ (sels : List Sel) (start : Out (FRes Entry)),
    walkSel r start sels = bindF start (walkR r sels)
  | [], start => by
    show start = bindF start okF
    rw [bindF_okF]
  | s :: rest, start => by
    show walkSel r (bindF start fun cur => stepSel r cur s) rest = _
    rw [walkSel_eq_walkR r rest, bindF_assoc]
    rfl

theorem walkSel_okF (r : Resources) (sels : List Sel) (e : Entry) : walkSel r (okF e) sels = walkR r sels e := by
  rw [walkSel_eq_walkR]; rfl

theorem walkSel_append (r : Resources) (start : Out (FRes Entry)) (a b : List Sel) :
    walkSel r start (a ++ b) = walkSel r (walkSel r start a) b := by
  unfold walkSel
  rw [List.foldl_append]

/-- `lookup` followed by more work: the `entry()?` of the selected child feeds the continuation -/
theorem stepSel_part (r : Resources) (en : Entry) (p : List Nat) :
    stepSel r en (.part p) =
      match utf8Chars p with
      | none => failF .bad8Path
      | some _ =>
        match en with
        | .dir d => d.get r (.str p)
        | .data _ => failF .unDataEntry := rfl

/-- `lookup` followed by more work: the `entry()?` of the selected child feeds the continuation -/
theorem findParts_cons (r : Resources) (part : List Nat) (rest : List (List Nat)) (en : Entry) :
    findParts r (part :: rest) en = bindF (stepSel r en (.part part)) (findParts r rest) := by
  rw [stepSel_part]
  unfold findParts
  cases utf8Chars part with
  | none => rfl
  | some cs =>
    dsimp only
    cases en with
    | data de => rfl
    | dir d =>
      dsimp only
      unfold Dir.get lookup
      cases d.entries r with
      | ok es =>
        dsimp only
        cases firstMatch r (.str part) es with
        | ok o =>
          cases o with
          | none => rfl
          | some child =>
            dsimp only
            rw [bindF_liftE]
            rfl
        | _ => rfl
      | _ => rfl

theorem findParts_eq_walkR (r : Resources) : ∀ (parts : List (List Nat)) (en : Entry),
    findParts r parts en = walkR r (parts.map .part) en
  | [], en => rfl
  | part :: rest, en => by
    rw [findParts_cons]
    show _ = bindF (stepSel r en (.part part)) (walkR r (rest.map .part))
    exact bindF_congr _ (fun a => findParts_eq_walkR r rest a)

/-- **`find` is path local** — for arbitrary section bytes -/
theorem find_eq_walk (r : Resources) (p : List Nat) :
    find r p =
      match pathSplit p with
      | none => failF .notFound
      | some (slash, rest) =>
        if slash ≠ [47] ∧ slash ≠ [92] then failF .noRootPath
        else walkSel r (rootEntry r) (rest.map .part) := by
  unfold find
  cases pathSplit p with
  | none => rfl
  | some sp =>
    dsimp only
    by_cases hc : sp.1 ≠ [47] ∧ sp.1 ≠ [92]
    · rw [if_pos hc, if_pos hc]
    · rw [if_neg hc, if_neg hc, walkSel_eq_walkR]
      unfold rootEntry
      rw [bindF_liftE]
      exact liftE_congr _ (fun d => findParts_eq_walkR r _ _)

theorem dirFind_eq_walk (r : Resources) (d : Dir) (p : List Nat) :
    d.find r p = walkSel r (okF (.dir d)) ((dirPathParts p).map .part) := by
  unfold Dir.find
  rw [walkSel_okF, findParts_eq_walkR]

/-! ### the helpers are walks too -/

theorem asDir_step (r : Resources) (en : Entry) (s : Sel) (hs : ∀ p, s ≠ .part p) {α : Type} (k : Entry → Out (FRes α)) :
    bindF (asDir en) (fun d => bindF (stepSel r (.dir d) s) k) = bindF (stepSel r en s) k := by
  cases en with
  | dir d => rfl
  | data de =>
    cases s with
    | part p => exact absurd rfl (hs p)
    | name q => rfl
    | first => rfl

/-- `get_dir(q)` then anything that starts with `as a directory` -/
theorem getDir_eq (r : Resources) (d : Dir) (q : Name) : d.getDir r q = bindF (stepSel r (.dir d) (.name q)) asDir := rfl
theorem getData_eq (r : Resources) (d : Dir) (q : Name) : d.getData r q = bindF (stepSel r (.dir d) (.name q)) asData := rfl
theorem firstDir_eq (r : Resources) (d : Dir) : d.firstDir r = bindF (stepSel r (.dir d) .first) asDir := rfl
theorem firstData_eq (r : Resources) (d : Dir) : d.firstData r = bindF (stepSel r (.dir d) .first) asData := rfl

theorem findResources_eq_walk (r : Resources) (ty name : Name) :
    findResources r ty name = bindF (walkSel r (rootEntry r) [.name ty, .name name]) asDir := by
  rw [walkSel_eq_walkR]
  unfold findResources rootEntry
  rw [bindF_liftE, bindF_liftE]
  refine liftE_congr _ (fun d => ?_)
  show bindF (d.getDir r ty) (fun t => t.getDir r name) =
    bindF (bindF (stepSel r (.dir d) (.name ty)) fun e1 => bindF (stepSel r e1 (.name name)) okF) asDir
  rw [getDir_eq, bindF_assoc, bindF_assoc]
  refine bindF_congr _ (fun e1 => ?_)
  rw [bindF_okF]
  exact asDir_step r e1 (.name name) (fun p h => by cases h) asDir

/-- `root()?.get_dir(a)?.get_dir(b)?` followed by one more step and a continuation -/
theorem chain3 (r : Resources) (a b : Name) (s : Sel) (hs : ∀ p, s ≠ .part p) {α : Type} (k : Entry → Out (FRes α)) :
    bindF (findResources r a b) (fun n => bindF (stepSel r (.dir n) s) k) =
      bindF (walkSel r (rootEntry r) [.name a, .name b, s]) k := by
  rw [findResources_eq_walk, walkSel_eq_walkR, walkSel_eq_walkR]
  simp only [walkR, bindF_assoc, bindF_okF_left]
  refine bindF_congr _ (fun d0 => ?_)
  refine bindF_congr _ (fun e1 => ?_)
  refine bindF_congr _ (fun e2 => ?_)
  exact asDir_step r e2 s hs k

theorem findResource_eq_walk (r : Resources) (ty name : Name) :
    findResource r ty name = bindF (walkSel r (rootEntry r) [.name ty, .name name, .first]) (dataBytes r) := by
  unfold findResource
  rw [← chain3 r ty name .first (fun p h => by cases h)]
  refine bindF_congr _ (fun n => ?_)
  rw [firstData_eq, bindF_assoc]
  rfl

theorem findResourceEx_eq_walk (r : Resources) (ty name lang : Name) :
    findResourceEx r ty name lang = bindF (walkSel r (rootEntry r) [.name ty, .name name, .name lang]) (dataBytes r) := by
  unfold findResourceEx
  rw [← chain3 r ty name (.name lang) (fun p h => by cases h)]
  refine bindF_congr _ (fun n => ?_)
  rw [getData_eq, bindF_assoc]
  rfl

/-- `str::from_utf8(bytes)?` on the data of the entry found -/
def utf8Bytes (r : Resources) (en : Entry) : Out (FRes Ref) :=
  bindF (dataBytes r en) fun b =>
    match utf8Chars ((bytesAt r.sec b.off b.len).map UInt8.toNat) with
    | some _ => okF b
    | none => failF (.pe .encoding)

theorem manifest_eq_walk (r : Resources) :
    manifest r = bindF (walkSel r (rootEntry r) [.name (.id RT_MANIFEST), .first, .first]) (utf8Bytes r) := by
  rw [walkSel_eq_walkR]
  unfold manifest rootEntry
  simp only [walkR, bindF_assoc, bindF_okF_left, bindF_liftE]
  refine liftE_congr _ (fun d => ?_)
  rw [getDir_eq, bindF_assoc]
  refine bindF_congr _ (fun e1 => ?_)
  rw [← asDir_step r e1 .first (fun p h => by cases h)]
  refine bindF_congr _ (fun m => ?_)
  rw [firstDir_eq, bindF_assoc]
  refine bindF_congr _ (fun e2 => ?_)
  rw [← asDir_step r e2 .first (fun p h => by cases h)]
  refine bindF_congr _ (fun l => ?_)
  rw [firstData_eq, bindF_assoc]
  refine bindF_congr _ (fun e3 => ?_)
  unfold utf8Bytes dataBytes
  rw [bindF_assoc]
  refine bindF_congr _ (fun de => ?_)
  rw [bindF_liftE]
  rfl

theorem image_eq_findResource (r : Resources) (g : Group) (id t : Nat) (ht : g.typeId = .ok t) :
    g.image r id = findResource r (.id t) (.id id) := by
  unfold Group.image findResource findResources
  rw [ht]
  dsimp only
  rw [bindF_liftE]
  refine liftE_congr _ (fun d => ?_)
  rw [bindF_assoc]

/-- `root().and_then(|root| root.get_dir(ty))` of `icons()` / `cursors()` -/
theorem groupDir_eq_walk (r : Resources) (ty : Nat) :
    (liftE (root r) fun d => d.getDir r (.id ty)) = bindF (walkSel r (rootEntry r) [.name (.id ty)]) asDir := by
  rw [walkSel_eq_walkR]
  unfold rootEntry
  rw [bindF_liftE, bindF_liftE]
  refine liftE_congr _ (fun d => ?_)
  show d.getDir r (.id ty) = bindF (bindF (stepSel r (.dir d) (.name (.id ty))) okF) asDir
  rw [bindF_okF]
  rfl

/-! ### what a walk returns: the entry reached by following the selected children, or the error of
the first step that fails -/

/-- `tgt` is reached from `cur` by following, level by level, the child each selector selects -/
inductive Follows (r : Resources) : Entry → List Sel → Entry → Prop
  | done (e : Entry) : Follows r e [] e
  | step {cur nxt tgt : Entry} {s : Sel} {rest : List Sel} :
      stepSel r cur s = .ok (.ok nxt) → Follows r nxt rest tgt → Follows r cur (s :: rest) tgt

theorem walkR_ok_iff (r : Resources) : ∀ (sels : List Sel) (cur tgt : Entry),
    walkR r sels cur = .ok (.ok tgt) ↔ Follows r cur sels tgt
  | [], cur, tgt => by
    show okF cur = _ ↔ _
    constructor
    · intro h
      simp only [okF, Out.ok.injEq, Except.ok.injEq] at h
      subst h
      exact .done _
    · intro h; cases h; rfl
  | s :: rest, cur, tgt => by
    show bindF (stepSel r cur s) (walkR r rest) = _ ↔ _
    constructor
    · intro h
      cases hs : stepSel r cur s with
      | ok v =>
        cases v with
        | ok nxt => rw [hs] at h; exact .step hs ((walkR_ok_iff r rest nxt tgt).1 h)
        | error e => rw [hs] at h; simp [bindF] at h
      | err e => rw [hs] at h; cases h
      | panic m => rw [hs] at h; cases h
      | ub m => rw [hs] at h; cases h
      | diverge => rw [hs] at h; cases h
    · intro h
      cases h with
      | step h1 h2 => rw [h1]; exact (walkR_ok_iff r rest _ tgt).2 h2

theorem Follows.unique {r : Resources} {cur a b : Entry} {sels : List Sel} (ha : Follows r cur sels a) (hb : Follows r cur sels b) :
    a = b := by
  have h1 := (walkR_ok_iff r sels cur a).2 ha
  have h2 := (walkR_ok_iff r sels cur b).2 hb
  rw [h1] at h2
  simpa using h2

theorem follows_append {r : Resources} : ∀ {a b : List Sel} {cur tgt : Entry},
    Follows r cur (a ++ b) tgt ↔ ∃ mid, Follows r cur a mid ∧ Follows r mid b tgt
  | [], b, cur, tgt => by
    constructor
    · intro h; exact ⟨cur, .done _, h⟩
    · rintro ⟨mid, h1, h2⟩; cases h1; exact h2
  | s :: a, b, cur, tgt => by
    constructor
    · intro h
      cases h with
      | step h1 h2 =>
        obtain ⟨mid, h3, h4⟩ := follows_append.1 h2
        exact ⟨mid, .step h1 h3, h4⟩
    · rintro ⟨mid, h1, h2⟩
      cases h1 with
      | step h3 h4 => exact .step h3 (follows_append.2 ⟨mid, h4, h2⟩)

/-- a walk fails with `e` exactly when some step — the first that does not return an entry — fails
with `e` after the steps before it have been followed -/
theorem walkR_err_iff (r : Resources) : ∀ (sels : List Sel) (cur : Entry) (e : FindError),
    walkR r sels cur = .ok (.error e) ↔
      ∃ pre s post mid, sels = pre ++ s :: post ∧ Follows r cur pre mid ∧ stepSel r mid s = .ok (.error e)
  | [], cur, e => by
    show okF cur = _ ↔ _
    constructor
    · intro h; simp [okF] at h
    · rintro ⟨pre, s, post, mid, h, _⟩; simp at h
  | s :: rest, cur, e => by
    show bindF (stepSel r cur s) (walkR r rest) = _ ↔ _
    constructor
    · intro h
      cases hs : stepSel r cur s with
      | ok v =>
        cases v with
        | ok nxt =>
          rw [hs] at h
          obtain ⟨pre, s', post, mid, h1, h2, h3⟩ := (walkR_err_iff r rest nxt e).1 h
          exact ⟨s :: pre, s', post, mid, by rw [h1]; rfl, .step hs h2, h3⟩
        | error e' =>
          rw [hs] at h
          simp only [bindF, Out.ok.injEq, Except.error.injEq] at h
          subst h
          exact ⟨[], s, rest, cur, rfl, .done _, hs⟩
      | err e' => rw [hs] at h; cases h
      | panic m => rw [hs] at h; cases h
      | ub m => rw [hs] at h; cases h
      | diverge => rw [hs] at h; cases h
    · rintro ⟨pre, s', post, mid, h1, h2, h3⟩
      cases pre with
      | nil =>
        simp only [List.nil_append, List.cons.injEq] at h1
        obtain ⟨rfl, rfl⟩ := h1
        cases h2
        rw [h3]; rfl
      | cons x pre' =>
        simp only [List.cons_append, List.cons.injEq] at h1
        obtain ⟨rfl, rfl⟩ := h1
        cases h2 with
        | step h4 h5 =>
          rw [h4]
          exact (walkR_err_iff r _ _ e).2 ⟨pre', s', post, mid, rfl, h5, h3⟩

/-- a lookup from the root that ends with `fin` succeeds exactly when the root is readable, the
selectors can be followed, and `fin` accepts the entry reached -/
theorem lookup_ok_iff (r : Resources) (sels : List Sel) {α : Type} (fin : Entry → Out (FRes α)) (a : α) :
    bindF (walkSel r (rootEntry r) sels) fin = .ok (.ok a) ↔
      ∃ d0 tgt, root r = .ok d0 ∧ Follows r (.dir d0) sels tgt ∧ fin tgt = .ok (.ok a) := by
  rw [walkSel_eq_walkR]
  unfold rootEntry
  rw [bindF_liftE, bindF_liftE]
  cases hr : root r with
  | ok d0 =>
    show bindF (walkR r sels (.dir d0)) fin = _ ↔ _
    constructor
    · intro h
      cases hw : walkR r sels (.dir d0) with
      | ok v =>
        cases v with
        | ok tgt => rw [hw] at h; exact ⟨d0, tgt, rfl, (walkR_ok_iff r _ _ _).1 hw, h⟩
        | error e => rw [hw] at h; simp [bindF] at h
      | err e => rw [hw] at h; cases h
      | panic m => rw [hw] at h; cases h
      | ub m => rw [hw] at h; cases h
      | diverge => rw [hw] at h; cases h
    · rintro ⟨d0', tgt, h1, h2, h3⟩
      cases h1
      rw [(walkR_ok_iff r _ _ _).2 h2]
      exact h3
  | err e =>
    constructor
    · intro h; simp [liftE] at h
    · rintro ⟨_, _, h, _⟩; cases h
  | panic m =>
    constructor
    · intro h; cases h
    · rintro ⟨_, _, h, _⟩; cases h
  | ub m =>
    constructor
    · intro h; cases h
    · rintro ⟨_, _, h, _⟩; cases h
  | diverge =>
    constructor
    · intro h; cases h
    · rintro ⟨_, _, h, _⟩; cases h

/-- … and fails with `e` exactly when the root is unreadable (`e = Pe(err)`), or the first step that
does not return an entry fails with `e`, or every step can be followed and `fin` fails with `e` -/
theorem lookup_err_iff (r : Resources) (sels : List Sel) {α : Type} (fin : Entry → Out (FRes α)) (e : FindError) :
    bindF (walkSel r (rootEntry r) sels) fin = .ok (.error e) ↔
      (∃ e', root r = .err e' ∧ e = .pe e') ∨
      ∃ d0, root r = .ok d0 ∧
        ((∃ pre s post mid, sels = pre ++ s :: post ∧ Follows r (.dir d0) pre mid ∧ stepSel r mid s = .ok (.error e)) ∨
         ∃ tgt, Follows r (.dir d0) sels tgt ∧ fin tgt = .ok (.error e)) := by
  rw [walkSel_eq_walkR]
  unfold rootEntry
  rw [bindF_liftE, bindF_liftE]
  cases hr : root r with
  | ok d0 =>
    show bindF (walkR r sels (.dir d0)) fin = _ ↔ _
    constructor
    · intro h
      refine Or.inr ⟨d0, rfl, ?_⟩
      cases hw : walkR r sels (.dir d0) with
      | ok v =>
        cases v with
        | ok tgt => rw [hw] at h; exact Or.inr ⟨tgt, (walkR_ok_iff r _ _ _).1 hw, h⟩
        | error e' =>
          rw [hw] at h
          simp only [bindF, Out.ok.injEq, Except.error.injEq] at h
          subst h
          exact Or.inl ((walkR_err_iff r _ _ _).1 hw)
      | err e' => rw [hw] at h; cases h
      | panic m => rw [hw] at h; cases h
      | ub m => rw [hw] at h; cases h
      | diverge => rw [hw] at h; cases h
    · rintro (⟨e', h, _⟩ | ⟨d0', h1, h2⟩)
      · cases h
      · cases h1
        rcases h2 with h2 | ⟨tgt, h2, h3⟩
        · rw [(walkR_err_iff r _ _ _).2 h2]; rfl
        · rw [(walkR_ok_iff r _ _ _).2 h2]; exact h3
  | err e' =>
    constructor
    · intro h
      simp only [liftE, Out.ok.injEq, Except.error.injEq] at h
      exact Or.inl ⟨e', rfl, h.symm⟩
    · rintro (⟨e'', h, rfl⟩ | ⟨_, h, _⟩)
      · cases h; rfl
      · cases h
  | panic m =>
    constructor
    · intro h; cases h
    · rintro (⟨_, h, _⟩ | ⟨_, h, _⟩) <;> cases h
  | ub m =>
    constructor
    · intro h; cases h
    · rintro (⟨_, h, _⟩ | ⟨_, h, _⟩) <;> cases h
  | diverge =>
    constructor
    · intro h; cases h
    · rintro (⟨_, h, _⟩ | ⟨_, h, _⟩) <;> cases h

/-! ### the step in closed form (4-aligned section, directory handed out by the code) -/

/-- `de.name() == Ok(q)` as a boolean -/
def nameIs (r : Resources) (q : Name) (e : DirEntry) : Bool :=
  match e.getName r with
  | .ok nm => nm.eq q
  | _ => false

theorem nameIs_iff (r : Resources) (q : Name) (e : DirEntry) : nameIs r q e = true ↔ entryMatches r q e := by
  unfold nameIs entryMatches
  cases h : e.getName r with
  | ok nm => simp
  | _ => simp

theorem firstMatch_eq_find {r : Resources} (hb : Aligned r) (q : Name) : ∀ es : List DirEntry,
    firstMatch r q es = .ok (es.find? (nameIs r q))
  | [] => rfl
  | e :: rest => by
    rcases firstMatch_step hb q e rest with ⟨hm, he⟩ | ⟨hm, he⟩
    · rw [he, List.find?_cons_of_pos ((nameIs_iff r q e).2 hm)]
    · have : ¬ nameIs r q e = true := fun h => hm ((nameIs_iff r q e).1 h)
      rw [he, List.find?_cons_of_neg this]
      exact firstMatch_eq_find hb q rest

/-- `get(q)` / a path component: the FIRST entry in stored order whose name reads and matches, resolved with `entry()` -/
theorem stepSel_name_eq {r : Resources} (hb : Aligned r) {d : Dir} (hd : DirOK r d) (q : Name) :
    stepSel r (.dir d) (.name q) =
      match (entriesFrom r (d.off + 16) (d.named + d.ids)).find? (nameIs r q) with
      | some e => liftE (e.entry r) okF
      | none => failF .notFound := by
  show lookup r d q = _
  rw [lookup_eq_pick hb hd]
  unfold pick
  rw [firstMatch_eq_find hb]
  cases (entriesFrom r (d.off + 16) (d.named + d.ids)).find? (nameIs r q) <;> rfl

theorem stepSel_part_eq (r : Resources) (d : Dir) (p : List Nat) :
    stepSel r (.dir d) (.part p) =
      if utf8Chars p = none then failF .bad8Path else stepSel r (.dir d) (.name (.str p)) := by
  rw [stepSel_part]
  cases utf8Chars p <;> rfl

/-- `first()`: the first entry in stored order, resolved with `entry()` -/
theorem stepSel_first_eq {r : Resources} (hb : Aligned r) {d : Dir} (hd : DirOK r d) :
    stepSel r (.dir d) .first =
      match (entriesFrom r (d.off + 16) (d.named + d.ids)).head? with
      | some e => liftE (e.entry r) okF
      | none => failF .notFound := by
  show d.first r = _
  unfold Dir.first
  rw [entries_eq hb hd]
  cases entriesFrom r (d.off + 16) (d.named + d.ids) <;> rfl

/-- `entry()` fails only with `Misaligned` or `Bounds` -/
theorem entry_err {r : Resources} (hb : Aligned r) {e : DirEntry} {err : Err} (h : e.entry r = .err err) :
    err = .misaligned ∨ err = .bounds := by
  rw [entry_eq] at h
  by_cases hge : e.offset ≥ 0x80000000
  · rw [if_pos hge, dirTryFrom_eq hb] at h
    by_cases c1 : e.offset % 0x80000000 % 4 ≠ 0
    · rw [if_pos c1] at h; cases h; exact Or.inl rfl
    · rw [if_neg c1] at h
      by_cases c2 : e.offset % 0x80000000 + 16 > r.sec.size
      · rw [if_pos c2] at h; cases h; exact Or.inr rfl
      · rw [if_neg c2] at h
        by_cases c3 : (le16 r.sec (e.offset % 0x80000000 + 12) + le16 r.sec (e.offset % 0x80000000 + 14)) * 8 >
            r.sec.size - (e.offset % 0x80000000 + 16)
        · rw [if_pos c3] at h; cases h; exact Or.inr rfl
        · rw [if_neg c3] at h; cases h
  · rw [if_neg hge, dataTryFrom_eq hb] at h
    by_cases c1 : e.offset % 4 ≠ 0
    · rw [if_pos c1] at h; cases h; exact Or.inl rfl
    · rw [if_neg c1] at h
      by_cases c2 : e.offset + 16 > r.sec.size
      · rw [if_pos c2] at h; cases h; exact Or.inr rfl
      · rw [if_neg c2] at h; cases h

/-- success of a by-name step, spelled out -/
theorem stepSel_name_ok_iff {r : Resources} (hb : Aligned r) {d : Dir} (hd : DirOK r d) (q : Name) (en : Entry) :
    stepSel r (.dir d) (.name q) = .ok (.ok en) ↔
      ∃ pre e post, entriesFrom r (d.off + 16) (d.named + d.ids) = pre ++ e :: post ∧ entryMatches r q e ∧
        (∀ x ∈ pre, ¬ entryMatches r q x) ∧ e.entry r = .ok en := by
  rw [stepSel_name_eq hb hd]
  constructor
  · intro h
    cases hf : (entriesFrom r (d.off + 16) (d.named + d.ids)).find? (nameIs r q) with
    | none => rw [hf] at h; simp [failF] at h
    | some e =>
      rw [hf] at h
      obtain ⟨h1, pre, post, h2, h3⟩ := List.find?_eq_some_iff_append.1 hf
      refine ⟨pre, e, post, h2, (nameIs_iff r q e).1 h1, ?_, ?_⟩
      · intro x hx hm
        have := h3 x hx
        rw [(nameIs_iff r q x).2 hm] at this
        cases this
      · dsimp only at h
        cases he : e.entry r with
        | ok en' => rw [he] at h; simp only [liftE, okF, Out.ok.injEq, Except.ok.injEq] at h; rw [h]
        | err er => rw [he] at h; simp [liftE] at h
        | panic m => rw [he] at h; cases h
        | ub m => rw [he] at h; cases h
        | diverge => rw [he] at h; cases h
  · rintro ⟨pre, e, post, h1, h2, h3, h4⟩
    have hf : (entriesFrom r (d.off + 16) (d.named + d.ids)).find? (nameIs r q) = some e := by
      rw [List.find?_eq_some_iff_append]
      refine ⟨(nameIs_iff r q e).2 h2, pre, post, h1, ?_⟩
      intro x hx
      cases hn : nameIs r q x with
      | false => rfl
      | true => exact absurd ((nameIs_iff r q x).1 hn) (h3 x hx)
    rw [hf]
    dsimp only
    rw [h4]
    rfl

/-- failure of a by-name step, spelled out: nothing matches (`NotFound`), or `entry()` of the first
match fails (`Pe(Misaligned)` / `Pe(Bounds)`) -/
theorem stepSel_name_err_iff {r : Resources} (hb : Aligned r) {d : Dir} (hd : DirOK r d) (q : Name) (fe : FindError) :
    stepSel r (.dir d) (.name q) = .ok (.error fe) ↔
      (fe = .notFound ∧ ∀ x ∈ entriesFrom r (d.off + 16) (d.named + d.ids), ¬ entryMatches r q x) ∨
      ∃ pre e post err, entriesFrom r (d.off + 16) (d.named + d.ids) = pre ++ e :: post ∧ entryMatches r q e ∧
        (∀ x ∈ pre, ¬ entryMatches r q x) ∧ e.entry r = .err err ∧ fe = .pe err ∧ (err = .misaligned ∨ err = .bounds) := by
  rw [stepSel_name_eq hb hd]
  constructor
  · intro h
    cases hf : (entriesFrom r (d.off + 16) (d.named + d.ids)).find? (nameIs r q) with
    | none =>
      rw [hf] at h
      simp only [failF, Out.ok.injEq, Except.error.injEq] at h
      refine Or.inl ⟨h.symm, fun x hx hm => ?_⟩
      have := List.find?_eq_none.1 hf x hx
      exact this ((nameIs_iff r q x).2 hm)
    | some e =>
      rw [hf] at h
      obtain ⟨h1, pre, post, h2, h3⟩ := List.find?_eq_some_iff_append.1 hf
      dsimp only at h
      cases he : e.entry r with
      | ok en' => rw [he] at h; simp [liftE, okF] at h
      | err er =>
        rw [he] at h
        simp only [liftE, Out.ok.injEq, Except.error.injEq] at h
        refine Or.inr ⟨pre, e, post, er, h2, (nameIs_iff r q e).1 h1, ?_, he, h.symm, entry_err hb he⟩
        intro x hx hm
        have := h3 x hx
        rw [(nameIs_iff r q x).2 hm] at this
        cases this
      | panic m => rw [he] at h; cases h
      | ub m => rw [he] at h; cases h
      | diverge => rw [he] at h; cases h
  · rintro (⟨rfl, h⟩ | ⟨pre, e, post, err, h1, h2, h3, h4, rfl, _⟩)
    · have hf : (entriesFrom r (d.off + 16) (d.named + d.ids)).find? (nameIs r q) = none := by
        rw [List.find?_eq_none]
        intro x hx hn
        exact h x hx ((nameIs_iff r q x).1 hn)
      rw [hf]; rfl
    · have hf : (entriesFrom r (d.off + 16) (d.named + d.ids)).find? (nameIs r q) = some e := by
        rw [List.find?_eq_some_iff_append]
        refine ⟨(nameIs_iff r q e).2 h2, pre, post, h1, ?_⟩
        intro x hx
        cases hn : nameIs r q x with
        | false => rfl
        | true => exact absurd ((nameIs_iff r q x).1 hn) (h3 x hx)
      rw [hf]
      dsimp only
      rw [h4]
      rfl

/-! ### every directory met along a walk satisfies the invariant of `Directory::try_from` -/

theorem stepSel_entryOK {r : Resources} (hb : Aligned r) {cur : Entry} (hc : EntryOK r cur) (s : Sel) :
    IsVal (stepSel r cur s) ∧ ∀ en, stepSel r cur s = .ok (.ok en) → EntryOK r en := by
  cases s with
  | part p =>
    rw [stepSel_part]
    cases utf8Chars p with
    | none => exact ⟨trivial, fun en h => by simp [failF] at h⟩
    | some cs =>
      cases cur with
      | dir d => exact isVal_lookup hb hc (.str p)
      | data de => exact ⟨trivial, fun en h => by simp [failF] at h⟩
  | name q =>
    cases cur with
    | dir d => exact isVal_lookup hb hc q
    | data de => exact ⟨trivial, fun en h => by simp [stepSel, failF] at h⟩
  | first =>
    cases cur with
    | dir d => exact isVal_first hb hc
    | data de => exact ⟨trivial, fun en h => by simp [stepSel, failF] at h⟩

theorem follows_entryOK {r : Resources} (hb : Aligned r) {cur tgt : Entry} {sels : List Sel} (h : Follows r cur sels tgt)
    (hc : EntryOK r cur) : EntryOK r tgt := by
  induction h with
  | done e => exact hc
  | step h1 _ ih => exact ih ((stepSel_entryOK hb hc _).2 _ h1)

theorem isVal_walkR {r : Resources} (hb : Aligned r) : ∀ (sels : List Sel) (cur : Entry), EntryOK r cur → IsVal (walkR r sels cur)
  | [], _, _ => trivial
  | s :: rest, cur, hc => by
    show IsVal (bindF (stepSel r cur s) (walkR r rest))
    obtain ⟨h1, h2⟩ := stepSel_entryOK hb hc s
    exact isVal_bindF h1 (fun a ha => isVal_walkR hb rest a (h2 a ha))

theorem isVal_walkSel {r : Resources} (hb : Aligned r) (sels : List Sel) : IsVal (walkSel r (rootEntry r) sels) := by
  rw [walkSel_eq_walkR]
  unfold rootEntry
  rw [bindF_liftE]
  exact isVal_liftE (safe_root hb) (fun d hd => isVal_walkR hb sels _ (root_ok hb hd))

/-- the comparison `de.name() == Ok(q)` in terms of the specification alone: the Name field stores a
name (layout relation `NameAt`) that matches `q` under the documented rule `nameMatch` -/
theorem entryMatches_iff {r : Resources} (hb : Aligned r) (q : Name) (e : DirEntry) :
    entryMatches r q e ↔ ∃ nm : RName, NameAt r e.name nm ∧ nameMatch nm q = true := by
  constructor
  · rintro ⟨n, h1, h2⟩
    obtain ⟨h3, h4⟩ := getName_ok hb h1
    refine ⟨_, h3, ?_⟩
    rw [← eq_eq_nameMatch _ q (nameAt_inRange h3), ← h4]
    exact h2
  · rintro ⟨nm, h1, h2⟩
    refine ⟨nm.toName, getName_of_nameAt hb h1, ?_⟩
    rw [eq_eq_nameMatch nm q (nameAt_inRange h1)]
    exact h2

/-! ### a lookup result, explained locally -/

/-- The answer `res` of the lookup "`root()?`, then the selectors `sels` level by level, then `fin`" is
explained by the directories along the path alone: a value is what `fin` makes of the entry reached
by following the selectors from the root; an error is that of reading the root header, or of the
FIRST step that does not return an entry (after the steps before it were followed), or of `fin` on the
entry reached. -/
def LocalResult {α : Type} (r : Resources) (sels : List Sel) (fin : Entry → Out (FRes α)) : FRes α → Prop
  | .ok a => ∃ d0 tgt, root r = .ok d0 ∧ Follows r (.dir d0) sels tgt ∧ fin tgt = .ok (.ok a)
  | .error e =>
    (∃ e', root r = .err e' ∧ e = .pe e') ∨
    ∃ d0, root r = .ok d0 ∧
      ((∃ pre s post mid, sels = pre ++ s :: post ∧ Follows r (.dir d0) pre mid ∧ stepSel r mid s = .ok (.error e)) ∨
       ∃ tgt, Follows r (.dir d0) sels tgt ∧ fin tgt = .ok (.error e))

theorem lookup_local (r : Resources) (sels : List Sel) {α : Type} (fin : Entry → Out (FRes α)) (res : FRes α) :
    bindF (walkSel r (rootEntry r) sels) fin = .ok res ↔ LocalResult r sels fin res := by
  cases res with
  | ok a => exact lookup_ok_iff r sels fin a
  | error e => exact lookup_err_iff r sels fin e

end Pelite.Resources
