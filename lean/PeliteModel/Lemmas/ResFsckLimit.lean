import PeliteModel.Lemmas.ResTree
/-!
Helper lemmas for C12, the limits of `fsck`: on a section that REPRESENTS a tree (every reference in
bounds and aligned, nothing contains itself) the only way `fsck` can fail is `Insanity` — the depth
limit `FSCK_MAX_DEPTH` or the visit budget `len / 16`.
-/
namespace Pelite.Resources
open Pelite

/-- `fsck_` ended with a remaining budget or gave up at one of its two limits -/
def OkOrInsane (o : Out Nat) : Prop := (∃ b, o = .ok b) ∨ o = .err .insanity

/-- on a directory that represents a tree `fsck_` can only give up at a limit -/
def FsckTree (r : Resources) (k : Nat) : Prop :=
  ∀ off n (es : Entries) b, IsNode r off (.dir n es) → OkOrInsane (fsckDir r k ⟨off, n, es.length - n⟩ b)

theorem fsckEntries_tree {r : Resources} (hb : Aligned r) {k : Nat} (hk : FsckTree r k) :
    ∀ (es : Entries) (pos b : Nat), IsEntries r pos es →
      OkOrInsane (fsckEntries (fsckDir r k) r (entriesFrom r pos es.length) b)
  | .nil, pos, b, _ => Or.inl ⟨b, by simp [Entries.length, entriesFrom, fsckEntries]⟩
  | .cons nm ch rest, pos, b, h => by
    have ih := fsckEntries_tree hb hk rest
    unfold IsEntries at h
    obtain ⟨hname, hkind, hnode, hrest⟩ := h
    rw [show (Entries.cons nm ch rest).length = rest.length + 1 from rfl,
      show entriesFrom r pos (rest.length + 1) = entryAt r pos :: entriesFrom r (pos + 8) rest.length from rfl]
    unfold fsckEntries
    rw [getName_of_nameAt hb (e := entryAt r pos) hname]
    dsimp only
    cases ch with
    | dir n ces =>
      have hge : (entryAt r pos).offset ≥ 0x80000000 := hkind.2 rfl
      obtain ⟨h1, _, _, _⟩ := dir_of_isNode hb hnode
      rw [entry_of_dir hge h1]
      dsimp only
      rcases hk _ n ces b hnode with ⟨b1, e1⟩ | e1
      · rw [e1]; dsimp only; exact ih (pos + 8) b1 hrest
      · rw [e1]; exact Or.inr rfl
    | data c cp =>
      have hlt : (entryAt r pos).offset < 0x80000000 := by
        have := hkind.1
        simp only [Node.isDir] at this
        show le32 r.sec (pos + 4) < 0x80000000
        by_cases hc : 0x80000000 ≤ le32 r.sec (pos + 4)
        · exact absurd (this hc) (by decide)
        · omega
      rw [show le32 r.sec (pos + 4) = (entryAt r pos).offset from rfl, Nat.mod_eq_of_lt hlt] at hnode
      obtain ⟨h1, h2, _, _⟩ := data_of_isNode hb hnode
      rw [entry_of_data hlt h1]
      dsimp only
      rw [dataFsck_of_bytes h2]
      dsimp only
      exact ih (pos + 8) b hrest

theorem fsckTree {r : Resources} (hb : Aligned r) : ∀ k, FsckTree r k := by
  intro k
  induction k with
  | zero => intro off n es b _; exact Or.inr rfl
  | succ k ih =>
    intro off n es b hnode
    obtain ⟨_, hd, hle, hents⟩ := dir_of_isNode hb hnode
    unfold fsckDir
    by_cases hb0 : b = 0
    · rw [if_pos hb0]; exact Or.inr rfl
    · rw [if_neg hb0, entries_eq hb hd]
      dsimp only
      rw [show n + (es.length - n) = es.length by omega]
      exact fsckEntries_tree hb ih es _ _ hents

/-- on a section that represents a tree, `fsck` succeeds or answers `Insanity` -/
theorem fsck_tree_ok_or_insanity {r : Resources} (hb : Aligned r) {t : Node} (h : IsTree r t) :
    fsck r = .ok () ∨ fsck r = .err .insanity := by
  obtain ⟨hdir, hnode⟩ := h
  cases t with
  | data c cp => cases hdir
  | dir n es =>
    obtain ⟨h1, _, _, _⟩ := dir_of_isNode hb hnode
    unfold fsck
    rw [show root r = dirTryFrom r 0 from rfl, h1]
    dsimp only
    unfold Dir.fsck
    rcases fsckTree hb FSCK_MAX_DEPTH 0 n es (fsckBudget r) hnode with ⟨b, e⟩ | e
    · rw [e]; exact Or.inl rfl
    · rw [e]; exact Or.inr rfl

end Pelite.Resources
