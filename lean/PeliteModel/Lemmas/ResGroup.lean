import PeliteModel.Lemmas.ResFind
/-!
Helper lemmas for C12, part 6: safety of the tree printer and of the group resources
(`GroupResource::{new, entries, image, write}`, `icons()`, `cursors()`) for arbitrary section bytes,
and the shape of what `write` produces.
-/
namespace Pelite.Resources
open Pelite

/-! ### the printer never panics / reads outside -/

theorem safe_drawEntries {r : Resources} (hb : Aligned r) (rec : Dir → Nat → Nat → Out (List Nat × Nat))
    (hrec : ∀ d m b, DirOK r d → Safe (rec d m b)) (depth margin : Nat) (isRoot : Bool) :
    ∀ (es : List DirEntry) (b : Nat), Safe (drawEntries rec r depth margin isRoot es b)
  | [], b => trivial
  | e :: rest, b => by
    unfold drawEntries
    dsimp only
    have h1 := safe_getName hb e
    have h2 := safe_entry hb e
    cases hn : e.getName r with
    | ok nm =>
      dsimp only
      cases he : e.entry r with
      | ok en =>
        cases en with
        | dir d =>
          dsimp only
          have h3 := hrec d (margin ||| if rest.isEmpty = true then 2 ^ depth else 0) b (entry_dir_ok hb he).1
          cases hr : rec d (margin ||| if rest.isEmpty = true then 2 ^ depth else 0) b with
          | ok p =>
            dsimp only
            have ih := safe_drawEntries hb rec hrec depth margin isRoot rest p.2
            cases hm : drawEntries rec r depth margin isRoot rest p.2 with
            | ok q => trivial
            | err er => trivial
            | panic s => rw [hm] at ih; exact ih.elim
            | ub s => rw [hm] at ih; exact ih.elim
            | diverge => rw [hm] at ih; exact ih.elim
          | err er => trivial
          | panic s => rw [hr] at h3; exact h3.elim
          | ub s => rw [hr] at h3; exact h3.elim
          | diverge => rw [hr] at h3; exact h3.elim
        | data de =>
          dsimp only
          have ih := safe_drawEntries hb rec hrec depth margin isRoot rest b
          cases hm : drawEntries rec r depth margin isRoot rest b with
          | ok q => trivial
          | err er => trivial
          | panic s => rw [hm] at ih; exact ih.elim
          | ub s => rw [hm] at ih; exact ih.elim
          | diverge => rw [hm] at ih; exact ih.elim
      | err er =>
        dsimp only
        have ih := safe_drawEntries hb rec hrec depth margin isRoot rest b
        cases hm : drawEntries rec r depth margin isRoot rest b with
        | ok q => trivial
        | err er => trivial
        | panic s => rw [hm] at ih; exact ih.elim
        | ub s => rw [hm] at ih; exact ih.elim
        | diverge => rw [hm] at ih; exact ih.elim
      | panic s => rw [he] at h2; exact h2.elim
      | ub s => rw [he] at h2; exact h2.elim
      | diverge => rw [he] at h2; exact h2.elim
    | err er =>
      dsimp only
      cases he : e.entry r with
      | ok en =>
        cases en with
        | dir d =>
          dsimp only
          have h3 := hrec d (margin ||| if rest.isEmpty = true then 2 ^ depth else 0) b (entry_dir_ok hb he).1
          cases hr : rec d (margin ||| if rest.isEmpty = true then 2 ^ depth else 0) b with
          | ok p =>
            dsimp only
            have ih := safe_drawEntries hb rec hrec depth margin isRoot rest p.2
            cases hm : drawEntries rec r depth margin isRoot rest p.2 with
            | ok q => trivial
            | err er => trivial
            | panic s => rw [hm] at ih; exact ih.elim
            | ub s => rw [hm] at ih; exact ih.elim
            | diverge => rw [hm] at ih; exact ih.elim
          | err er => trivial
          | panic s => rw [hr] at h3; exact h3.elim
          | ub s => rw [hr] at h3; exact h3.elim
          | diverge => rw [hr] at h3; exact h3.elim
        | data de =>
          dsimp only
          have ih := safe_drawEntries hb rec hrec depth margin isRoot rest b
          cases hm : drawEntries rec r depth margin isRoot rest b with
          | ok q => trivial
          | err er => trivial
          | panic s => rw [hm] at ih; exact ih.elim
          | ub s => rw [hm] at ih; exact ih.elim
          | diverge => rw [hm] at ih; exact ih.elim
      | err er' =>
        dsimp only
        have ih := safe_drawEntries hb rec hrec depth margin isRoot rest b
        cases hm : drawEntries rec r depth margin isRoot rest b with
        | ok q => trivial
        | err er => trivial
        | panic s => rw [hm] at ih; exact ih.elim
        | ub s => rw [hm] at ih; exact ih.elim
        | diverge => rw [hm] at ih; exact ih.elim
      | panic s => rw [he] at h2; exact h2.elim
      | ub s => rw [he] at h2; exact h2.elim
      | diverge => rw [he] at h2; exact h2.elim
    | panic s => rw [hn] at h1; exact h1.elim
    | ub s => rw [hn] at h1; exact h1.elim
    | diverge => rw [hn] at h1; exact h1.elim

theorem safe_drawDir {r : Resources} (hb : Aligned r) : ∀ (k : Nat) (isRoot : Bool) (d : Dir) (m b : Nat), DirOK r d →
    Safe (drawDir r k isRoot d m b)
  | 0, _, _, _, _, _ => trivial
  | k+1, isRoot, d, m, b, hd => by
    unfold drawDir
    by_cases hb0 : b = 0
    · rw [if_pos hb0]; trivial
    · rw [if_neg hb0, entries_eq hb hd]
      exact safe_drawEntries hb _ (fun d' m' b' hd' => safe_drawDir hb k false d' m' b' hd') _ _ _ _ _

theorem safe_textOf {o : Out (List Nat × Nat)} (h : Safe o) : Safe (textOf o) := by
  cases o <;> first | trivial | exact h

theorem safe_dirDisplay {r : Resources} (hb : Aligned r) {d : Dir} (hd : DirOK r d) : Safe (d.display r) := by
  unfold Dir.display
  have h := safe_textOf (safe_drawDir hb 32 false d 0 (fsckBudget r) hd)
  cases ht : textOf (drawDir r 32 false d 0 (fsckBudget r)) with
  | ok t => trivial
  | err e => trivial
  | panic s => rw [ht] at h; exact h.elim
  | ub s => rw [ht] at h; exact h.elim
  | diverge => rw [ht] at h; exact h.elim

theorem safe_display {r : Resources} (hb : Aligned r) : Safe (display r) := by
  unfold display
  have hs := safe_root hb
  cases hr : root r with
  | ok d =>
    dsimp only
    have h := safe_textOf (safe_drawDir hb 32 true d 0 (fsckBudget r) (root_ok hb hr))
    cases ht : textOf (drawDir r 32 true d 0 (fsckBudget r)) with
    | ok t => trivial
    | err e => trivial
    | panic s => rw [ht] at h; exact h.elim
    | ub s => rw [ht] at h; exact h.elim
    | diverge => rw [ht] at h; exact h.elim
  | err e => trivial
  | panic s => rw [hr] at hs; exact hs.elim
  | ub s => rw [hr] at hs; exact hs.elim
  | diverge => rw [hr] at hs; exact hs.elim

end Pelite.Resources
