import PeliteModel.Lemmas.ResFind
/-!
Helper lemmas for C12, part 6: safety of the tree printer and of the group resources
(`GroupResource::{new, entries, image, write}`, `icons()`, `cursors()`) for arbitrary section bytes,
and the shape of what `write` produces.
-/
namespace Pelite.Resources
open Pelite

/-! ### the printer never panics / reads outside -/

theorem safe_drawEntries {r : Resources} (hb : Aligned r) (rec : Dir → Nat → Nat → Out (List (List Nat) × Nat))
    (hrec : ∀ d m b, DirOK r d → Safe (rec d m b)) (depth margin : Nat) (isRoot : Bool) :
    ∀ (es : List DirEntry) (b : Nat), Safe (drawEntries rec r depth margin isRoot es b)
  | [], b => trivial
  | e :: rest, b => by
    unfold drawEntries
    dsimp only
    have h1 := safe_getName hb e
    have h2 := safe_entry hb e
    cases hn : e.getName r with
    | ok nm =>
      dsimp only
      cases he : e.entry r with
      | ok en =>
        cases en with
        | dir d =>
          dsimp only
          have h3 := hrec d (margin ||| if rest.isEmpty = true then 2 ^ depth else 0) b (entry_dir_ok hb he).1
          cases hr : rec d (margin ||| if rest.isEmpty = true then 2 ^ depth else 0) b with
          | ok p =>
            dsimp only
            have ih := safe_drawEntries hb rec hrec depth margin isRoot rest p.2
            cases hm : drawEntries rec r depth margin isRoot rest p.2 with
            | ok q => trivial
            | err er => trivial
            | panic s => rw [hm] at ih; exact ih.elim
            | ub s => rw [hm] at ih; exact ih.elim
            | diverge => rw [hm] at ih; exact ih.elim
          | err er => trivial
          | panic s => rw [hr] at h3; exact h3.elim
          | ub s => rw [hr] at h3; exact h3.elim
          | diverge => rw [hr] at h3; exact h3.elim
        | data de =>
          dsimp only
          have ih := safe_drawEntries hb rec hrec depth margin isRoot rest b
          cases hm : drawEntries rec r depth margin isRoot rest b with
          | ok q => trivial
          | err er => trivial
          | panic s => rw [hm] at ih; exact ih.elim
          | ub s => rw [hm] at ih; exact ih.elim
          | diverge => rw [hm] at ih; exact ih.elim
      | err er =>
        dsimp only
        have ih := safe_drawEntries hb rec hrec depth margin isRoot rest b
        cases hm : drawEntries rec r depth margin isRoot rest b with
        | ok q => trivial
        | err er => trivial
        | panic s => rw [hm] at ih; exact ih.elim
        | ub s => rw [hm] at ih; exact ih.elim
        | diverge => rw [hm] at ih; exact ih.elim
      | panic s => rw [he] at h2; exact h2.elim
      | ub s => rw [he] at h2; exact h2.elim
      | diverge => rw [he] at h2; exact h2.elim
    | err er =>
      dsimp only
      cases he : e.entry r with
      | ok en =>
        cases en with
        | dir d =>
          dsimp only
          have h3 := hrec d (margin ||| if rest.isEmpty = true then 2 ^ depth else 0) b (entry_dir_ok hb he).1
          cases hr : rec d (margin ||| if rest.isEmpty = true then 2 ^ depth else 0) b with
          | ok p =>
            dsimp only
            have ih := safe_drawEntries hb rec hrec depth margin isRoot rest p.2
            cases hm : drawEntries rec r depth margin isRoot rest p.2 with
            | ok q => trivial
            | err er => trivial
            | panic s => rw [hm] at ih; exact ih.elim
            | ub s => rw [hm] at ih; exact ih.elim
            | diverge => rw [hm] at ih; exact ih.elim
          | err er => trivial
          | panic s => rw [hr] at h3; exact h3.elim
          | ub s => rw [hr] at h3; exact h3.elim
          | diverge => rw [hr] at h3; exact h3.elim
        | data de =>
          dsimp only
          have ih := safe_drawEntries hb rec hrec depth margin isRoot rest b
          cases hm : drawEntries rec r depth margin isRoot rest b with
          | ok q => trivial
          | err er => trivial
          | panic s => rw [hm] at ih; exact ih.elim
          | ub s => rw [hm] at ih; exact ih.elim
          | diverge => rw [hm] at ih; exact ih.elim
      | err er' =>
        dsimp only
        have ih := safe_drawEntries hb rec hrec depth margin isRoot rest b
        cases hm : drawEntries rec r depth margin isRoot rest b with
        | ok q => trivial
        | err er => trivial
        | panic s => rw [hm] at ih; exact ih.elim
        | ub s => rw [hm] at ih; exact ih.elim
        | diverge => rw [hm] at ih; exact ih.elim
      | panic s => rw [he] at h2; exact h2.elim
      | ub s => rw [he] at h2; exact h2.elim
      | diverge => rw [he] at h2; exact h2.elim
    | panic s => rw [hn] at h1; exact h1.elim
    | ub s => rw [hn] at h1; exact h1.elim
    | diverge => rw [hn] at h1; exact h1.elim

theorem safe_drawDir {r : Resources} (hb : Aligned r) : ∀ (k : Nat) (isRoot : Bool) (d : Dir) (m b : Nat), DirOK r d →
    Safe (drawDir r k isRoot d m b)
  | 0, _, _, _, _, _ => trivial
  | k+1, isRoot, d, m, b, hd => by
    unfold drawDir
    by_cases hb0 : b = 0
    · rw [if_pos hb0]; trivial
    · rw [if_neg hb0, entries_eq hb hd]
      exact safe_drawEntries hb _ (fun d' m' b' hd' => safe_drawDir hb k false d' m' b' hd') _ _ _ _ _

theorem safe_textOf {o : Out (List (List Nat) × Nat)} (h : Safe o) : Safe (textOf o) := by
  cases o <;> first | trivial | exact h

theorem safe_dirDisplay {r : Resources} (hb : Aligned r) {d : Dir} (hd : DirOK r d) : Safe (d.display r) := by
  unfold Dir.display
  have h := safe_textOf (safe_drawDir hb 32 false d 0 (fsckBudget r) hd)
  cases ht : textOf (drawDir r 32 false d 0 (fsckBudget r)) with
  | ok t => trivial
  | err e => trivial
  | panic s => rw [ht] at h; exact h.elim
  | ub s => rw [ht] at h; exact h.elim
  | diverge => rw [ht] at h; exact h.elim

theorem safe_display {r : Resources} (hb : Aligned r) : Safe (display r) := by
  unfold display
  have hs := safe_root hb
  cases hr : root r with
  | ok d =>
    dsimp only
    have h := safe_textOf (safe_drawDir hb 32 true d 0 (fsckBudget r) (root_ok hb hr))
    cases ht : textOf (drawDir r 32 true d 0 (fsckBudget r)) with
    | ok t => trivial
    | err e => trivial
    | panic s => rw [ht] at h; exact h.elim
    | ub s => rw [ht] at h; exact h.elim
    | diverge => rw [ht] at h; exact h.elim
  | err e => trivial
  | panic s => rw [hr] at hs; exact hs.elim
  | ub s => rw [hr] at hs; exact hs.elim
  | diverge => rw [hr] at hs; exact hs.elim

end Pelite.Resources

namespace Pelite.Resources
open Pelite

/-! ### group resources: safety -/

theorem bytes_bound {r : Resources} {de : DataEntry} {ref : Ref} (h : de.bytes r = .ok ref) :
    ref.off + ref.len ≤ r.sec.size ∧ ref.align = 1 := by
  unfold DataEntry.bytes at h
  dsimp only at h
  by_cases c1 : de.offsetToData < r.dirVA
  · rw [if_pos c1] at h; cases h
  · rw [if_neg c1] at h
    by_cases c2 : de.offsetToData - r.dirVA + de.size ≥ 4294967296
    · rw [if_pos c2] at h; cases h
    · rw [if_neg c2] at h
      by_cases c3 : de.offsetToData - r.dirVA + de.size > r.sec.size
      · rw [if_pos c3] at h; cases h
      · rw [if_neg c3] at h
        cases h
        exact ⟨by show de.offsetToData - r.dirVA + de.size ≤ r.sec.size; omega, rfl⟩

/-- what `GroupResource::new` establishes -/
def GroupOK (r : Resources) (g : Group) : Prop :=
  (r.base + g.off) % 2 = 0 ∧ g.off + 6 + 14 * g.count ≤ r.sec.size ∧ (g.ty = 1 ∨ g.ty = 2) ∧
  g.ty = le16 r.sec (g.off + 2) ∧ g.count = le16 r.sec (g.off + 4)

theorem groupNew_eq {r : Resources} {bytes : Ref} (hbnd : bytes.off + bytes.len ≤ r.sec.size) :
    groupNew r bytes =
      if (r.base + bytes.off) % 2 ≠ 0 then .err .misaligned
      else if bytes.len < 6 then .err .bounds
      else if le16 r.sec bytes.off ≠ 0 ∨ ¬ (le16 r.sec (bytes.off + 2) = 1 ∨ le16 r.sec (bytes.off + 2) = 2) then .err .badMagic
      else if bytes.len ≠ 6 + le16 r.sec (bytes.off + 4) * 14 then .err .bounds
      else .ok ⟨bytes.off, le16 r.sec (bytes.off + 2), le16 r.sec (bytes.off + 4)⟩ := by
  unfold groupNew
  by_cases c1 : (r.base + bytes.off) % 2 ≠ 0
  · rw [if_pos c1, if_pos c1]
  · rw [if_neg c1, if_neg c1]
    by_cases c2 : bytes.len < 6
    · rw [if_pos c2, if_pos c2]
    · rw [if_neg c2, if_neg c2]
      have hraw : rawRef "group.rs:new &*(bytes.as_ptr() as *const GRPICONDIR)" r.img bytes.off 6 2 = .ok ⟨bytes.off, 6, 2⟩ := by
        unfold rawRef Resources.img
        rw [if_pos ⟨by show bytes.off + 6 ≤ r.sec.size; omega, by show (r.base + bytes.off) % 2 = 0; omega⟩]
      rw [hraw]

theorem safe_groupNew {r : Resources} {bytes : Ref} (hbnd : bytes.off + bytes.len ≤ r.sec.size) : Safe (groupNew r bytes) := by
  rw [groupNew_eq hbnd]
  safe_ifs

theorem groupNew_ok {r : Resources} {bytes : Ref} (hbnd : bytes.off + bytes.len ≤ r.sec.size) {g : Group}
    (h : groupNew r bytes = .ok g) : GroupOK r g ∧ g.off = bytes.off ∧ bytes.len = 6 + 14 * g.count := by
  rw [groupNew_eq hbnd] at h
  by_cases c1 : (r.base + bytes.off) % 2 ≠ 0
  · rw [if_pos c1] at h; cases h
  · rw [if_neg c1] at h
    by_cases c2 : bytes.len < 6
    · rw [if_pos c2] at h; cases h
    · rw [if_neg c2] at h
      by_cases c3 : le16 r.sec bytes.off ≠ 0 ∨ ¬ (le16 r.sec (bytes.off + 2) = 1 ∨ le16 r.sec (bytes.off + 2) = 2)
      · rw [if_pos c3] at h; cases h
      · rw [if_neg c3] at h
        by_cases c4 : bytes.len ≠ 6 + le16 r.sec (bytes.off + 4) * 14
        · rw [if_pos c4] at h; cases h
        · rw [if_neg c4] at h
          cases h
          refine ⟨⟨by show (r.base + bytes.off) % 2 = 0; omega, ?_, ?_, rfl, rfl⟩, rfl, ?_⟩
          · show bytes.off + 6 + 14 * le16 r.sec (bytes.off + 4) ≤ r.sec.size; omega
          · show le16 r.sec (bytes.off + 2) = 1 ∨ le16 r.sec (bytes.off + 2) = 2
            by_cases c5 : le16 r.sec (bytes.off + 2) = 1 ∨ le16 r.sec (bytes.off + 2) = 2
            · exact c5
            · exact absurd (Or.inr c5) c3
          · show bytes.len = 6 + 14 * le16 r.sec (bytes.off + 4); omega

theorem groupEntries_eq {r : Resources} {g : Group} (hg : GroupOK r g) :
    g.entries r = .ok (groupEntriesFrom r (g.off + 6) g.count) := by
  unfold Group.entries rawRef Resources.img
  obtain ⟨h1, h2, _⟩ := hg
  rw [if_pos ⟨by show g.off + 6 + 14 * g.count ≤ r.sec.size; omega, by show (r.base + (g.off + 6)) % 2 = 0; omega⟩]

theorem typeId_ok {r : Resources} {g : Group} (hg : GroupOK r g) : ∃ t, g.typeId = .ok t ∧ (t = RT_ICON ∨ t = RT_CURSOR) := by
  unfold Group.typeId
  rcases hg.2.2.1 with h | h
  · rw [if_pos h]; exact ⟨_, rfl, Or.inl rfl⟩
  · rw [if_neg (by omega), if_pos h]; exact ⟨_, rfl, Or.inr rfl⟩

theorem isVal_image {r : Resources} (hb : Aligned r) {g : Group} (hg : GroupOK r g) (id : Nat) : IsVal (g.image r id) := by
  unfold Group.image
  obtain ⟨t, ht, _⟩ := typeId_ok hg
  rw [ht]
  dsimp only
  refine isVal_liftE (safe_root hb) (fun d hd => ?_)
  obtain ⟨h1, h2⟩ := isVal_getDir hb (root_ok hb hd) (.id t)
  refine isVal_bindF h1 (fun td htd => ?_)
  obtain ⟨h3, h4⟩ := isVal_getDir hb (h2 td htd) (.id id)
  refine isVal_bindF h3 (fun nd hnd => ?_)
  exact isVal_bindF (isVal_firstData hb (h4 nd hnd)) (fun de _ => isVal_bytesF r de)

theorem safe_writeImages {r : Resources} (hb : Aligned r) {g : Group} (hg : GroupOK r g) :
    ∀ es : List GroupEntry, ∃ out, writeImages r g es = .ok out
  | [] => ⟨[], rfl⟩
  | e :: rest => by
    unfold writeImages
    have hv := isVal_image hb hg e.nId
    obtain ⟨more, hm⟩ := safe_writeImages hb hg rest
    cases hi : g.image r e.nId with
    | ok res => dsimp only; rw [hm]; exact ⟨_, rfl⟩
    | err er => rw [hi] at hv; exact hv.elim
    | panic s => rw [hi] at hv; exact hv.elim
    | ub s => rw [hi] at hv; exact hv.elim
    | diverge => rw [hi] at hv; exact hv.elim

/-- `write` into a vector always succeeds -/
theorem write_ok {r : Resources} (hb : Aligned r) {g : Group} (hg : GroupOK r g) : ∃ out, g.write r = .ok out := by
  unfold Group.write
  rw [groupEntries_eq hg]
  dsimp only
  obtain ⟨images, hi⟩ := safe_writeImages hb hg (groupEntriesFrom r (g.off + 6) g.count)
  rw [hi]
  exact ⟨_, rfl⟩

/-- every group an item of `icons()` / `cursors()` holds satisfies the group invariant -/
def ItemOK (r : Resources) : FRes (Name × Group) → Prop
  | .ok p => GroupOK r p.2
  | .error _ => True

theorem groupItem_ok {r : Resources} (hb : Aligned r) (de : DirEntry) :
    ∃ item, groupItem r de = .ok item ∧ ItemOK r item := by
  unfold groupItem
  have h1 := safe_getName hb de
  cases hn : de.getName r with
  | ok name =>
    simp only [liftE]
    have h2 := safe_entry hb de
    cases he : de.entry r with
    | ok en =>
      dsimp only
      cases en with
      | data d => exact ⟨_, rfl, trivial⟩
      | dir d =>
        simp only [asDir, okF, bindF]
        have hd := (entry_dir_ok hb he).1
        have h3 := isVal_firstData hb hd
        cases hf : d.firstData r with
        | ok v =>
          cases v with
          | error e => exact ⟨_, rfl, trivial⟩
          | ok data =>
            dsimp only
            have h4 := safe_bytes r data
            cases hby : data.bytes r with
            | ok bytes =>
              dsimp only
              have hbnd := (bytes_bound hby).1
              have h5 := safe_groupNew (r := r) hbnd
              cases hg : groupNew r bytes with
              | ok g => exact ⟨_, rfl, (groupNew_ok hbnd hg).1⟩
              | err e => exact ⟨_, rfl, trivial⟩
              | panic s => rw [hg] at h5; exact h5.elim
              | ub s => rw [hg] at h5; exact h5.elim
              | diverge => rw [hg] at h5; exact h5.elim
            | err e => exact ⟨_, rfl, trivial⟩
            | panic s => rw [hby] at h4; exact h4.elim
            | ub s => rw [hby] at h4; exact h4.elim
            | diverge => rw [hby] at h4; exact h4.elim
        | err e => rw [hf] at h3; exact h3.elim
        | panic s => rw [hf] at h3; exact h3.elim
        | ub s => rw [hf] at h3; exact h3.elim
        | diverge => rw [hf] at h3; exact h3.elim
    | err e => exact ⟨_, rfl, trivial⟩
    | panic s => rw [he] at h2; exact h2.elim
    | ub s => rw [he] at h2; exact h2.elim
    | diverge => rw [he] at h2; exact h2.elim
  | err e => exact ⟨_, rfl, trivial⟩
  | panic s => rw [hn] at h1; exact h1.elim
  | ub s => rw [hn] at h1; exact h1.elim
  | diverge => rw [hn] at h1; exact h1.elim

theorem groupItems_ok {r : Resources} (hb : Aligned r) : ∀ es : List DirEntry,
    ∃ items, groupItems r es = .ok items ∧ items.length = es.length ∧ ∀ it ∈ items, ItemOK r it
  | [] => ⟨[], rfl, rfl, fun it h => by cases h⟩
  | de :: rest => by
    unfold groupItems
    obtain ⟨item, h1, h2⟩ := groupItem_ok hb de
    obtain ⟨more, h3, h4, h5⟩ := groupItems_ok hb rest
    rw [h1]; dsimp only; rw [h3]
    refine ⟨item :: more, rfl, by simp [h4], ?_⟩
    intro it hit
    rcases List.mem_cons.1 hit with rfl | hit
    · exact h2
    · exact h5 it hit

/-- `icons()` / `cursors()` always produce a list of results, one per entry of the group directory -/
theorem groups_ok {r : Resources} (hb : Aligned r) (ty : Nat) :
    ∃ items, groups r ty = .ok items ∧ ∀ it ∈ items, ItemOK r it := by
  unfold groups
  have hs := safe_root hb
  cases hr : root r with
  | ok d =>
    simp only [liftE]
    obtain ⟨h1, h2⟩ := isVal_getDir hb (root_ok hb hr) (.id ty)
    cases hg : d.getDir r (.id ty) with
    | ok v =>
      cases v with
      | error e => exact ⟨[], rfl, fun it h => by cases h⟩
      | ok gd =>
        dsimp only
        rw [entries_eq hb (h2 gd hg)]
        dsimp only
        obtain ⟨items, h3, _, h5⟩ := groupItems_ok hb (entriesFrom r (gd.off + 16) (gd.named + gd.ids))
        exact ⟨items, h3, h5⟩
    | err e => rw [hg] at h1; exact h1.elim
    | panic s => rw [hg] at h1; exact h1.elim
    | ub s => rw [hg] at h1; exact h1.elim
    | diverge => rw [hg] at h1; exact h1.elim
  | err e => exact ⟨[], rfl, fun it h => by cases h⟩
  | panic s => rw [hr] at hs; exact hs.elim
  | ub s => rw [hr] at hs; exact hs.elim
  | diverge => rw [hr] at hs; exact hs.elim

end Pelite.Resources

namespace Pelite.Resources
open Pelite

/-! ### what `write` produces -/

theorem writeEntries_length (r : Resources) : ∀ (es : List GroupEntry) (off : Nat), (writeEntries r es off).length = 16 * es.length
  | [], _ => rfl
  | e :: rest, off => by
    simp only [writeEntries, List.length_append, bytesAt_length, le32Bytes, List.length_cons, List.length_nil,
      writeEntries_length r rest]
    omega

/-- the record written for an entry: its first 12 bytes, then
`dwImageOffset = (start + Σ dwBytesInRes of the entries before it) mod 2^32` -/
theorem writeEntries_split (r : Resources) : ∀ (pre : List GroupEntry) (e : GroupEntry) (post : List GroupEntry) (off : Nat),
    off < 4294967296 →
    writeEntries r (pre ++ e :: post) off =
      writeEntries r pre off ++
      (bytesAt r.sec e.off 12 ++ le32Bytes ((off + (pre.map (·.bytesInRes)).sum) % 4294967296)) ++
      writeEntries r post ((off + (pre.map (·.bytesInRes)).sum + e.bytesInRes) % 4294967296)
  | [], e, post, off, h => by
    simp only [List.nil_append, writeEntries, List.map_nil, List.sum_nil, Nat.add_zero, wadd32]
    rw [Nat.mod_eq_of_lt h]
  | x :: pre, e, post, off, h => by
    have ih := writeEntries_split r pre e post (wadd32 off x.bytesInRes) (by unfold wadd32; omega)
    simp only [List.cons_append, writeEntries, List.map_cons, List.sum_cons]
    rw [ih]
    simp only [wadd32, List.append_assoc]
    have e1 : ((off + x.bytesInRes) % 4294967296 + (pre.map (·.bytesInRes)).sum) % 4294967296 =
        (off + (x.bytesInRes + (pre.map (·.bytesInRes)).sum)) % 4294967296 := by omega
    have e2 : ((off + x.bytesInRes) % 4294967296 + (pre.map (·.bytesInRes)).sum + e.bytesInRes) % 4294967296 =
        (off + (x.bytesInRes + (pre.map (·.bytesInRes)).sum) + e.bytesInRes) % 4294967296 := by omega
    rw [e1, e2]

/-- the bytes `write` appends for one entry: its image when the lookup succeeds, nothing otherwise -/
def imageOf (r : Resources) (g : Group) (e : GroupEntry) : List UInt8 :=
  match g.image r e.nId with
  | .ok (.ok b) => bytesAt r.sec b.off b.len
  | _ => []

theorem writeImages_eq {r : Resources} {g : Group} : ∀ (es : List GroupEntry) (out : List UInt8),
    writeImages r g es = .ok out → out = (es.map (imageOf r g)).flatten
  | [], out, h => by simp only [writeImages, Out.ok.injEq] at h; subst h; rfl
  | e :: rest, out, h => by
    unfold writeImages at h
    cases hi : g.image r e.nId with
    | ok res =>
      rw [hi] at h
      dsimp only at h
      cases hm : writeImages r g rest with
      | ok more =>
        rw [hm] at h
        simp only [Out.ok.injEq] at h
        subst h
        have := writeImages_eq rest more hm
        simp only [List.map_cons, List.flatten_cons]
        rw [← this]
        congr 1
        unfold imageOf
        rw [hi]
        cases res <;> rfl
      | err er => rw [hm] at h; cases h
      | panic s => rw [hm] at h; cases h
      | ub s => rw [hm] at h; cases h
      | diverge => rw [hm] at h; cases h
    | err er => rw [hi] at h; cases h
    | panic s => rw [hi] at h; cases h
    | ub s => rw [hi] at h; cases h
    | diverge => rw [hi] at h; cases h

/-- `write`: the 6 header bytes, one 16-byte record per entry, then the images in entry order -/
theorem write_eq {r : Resources} (hb : Aligned r) {g : Group} (hg : GroupOK r g) :
    g.write r = .ok (bytesAt r.sec g.off 6 ++
      writeEntries r (groupEntriesFrom r (g.off + 6) g.count) (6 + (groupEntriesFrom r (g.off + 6) g.count).length * 16) ++
      ((groupEntriesFrom r (g.off + 6) g.count).map (imageOf r g)).flatten) := by
  obtain ⟨images, hi⟩ := safe_writeImages hb hg (groupEntriesFrom r (g.off + 6) g.count)
  have := writeImages_eq _ _ hi
  unfold Group.write
  rw [groupEntries_eq hg]
  dsimp only
  rw [hi]
  dsimp only
  rw [this]

theorem groupEntriesFrom_length (r : Resources) (start n : Nat) : (groupEntriesFrom r start n).length = n := by
  induction n generalizing start with
  | zero => rfl
  | succ n ih => simp [groupEntriesFrom, ih]

end Pelite.Resources
