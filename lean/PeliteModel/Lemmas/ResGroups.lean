import PeliteModel.Lemmas.ResFindLocal
/-!
Helper lemmas for C12, part 12: `icons()` / `cursors()` and `GroupResource::{new, entries, image}` on a
section that represents ANY tree, against `Node.groups` / `parseGroup` of the specification.
-/
namespace Pelite.Resources
open Pelite

instance (r : Resources) (g : Group) : Decidable (GroupOK r g) := by unfold GroupOK; exact inferInstance

/-! ### reading the group data through the section -/

theorem getD_bytesAt (b : Bytes) (off len k : Nat) (h : k < len) : (bytesAt b off len).getD k 0 = b.getD (off + k) 0 := by
  unfold bytesAt
  rw [List.getD_eq_getElem?_getD, List.getElem?_map, List.getElem?_range h]
  rfl

theorem l16_bytesAt (b : Bytes) (off len k : Nat) (h : k + 2 ≤ len) : l16 (bytesAt b off len) k = le16 b (off + k) := by
  unfold l16 Pelite.le16 Pelite.byteAt
  rw [getD_bytesAt b off len k (by omega), getD_bytesAt b off len (k + 1) (by omega), Nat.add_assoc]

/-- `GroupResource::new` is: the alignment of the data, then the GRPICONDIR format -/
theorem groupNew_parse {r : Resources} {ref : Ref} (hbnd : ref.off + ref.len ≤ r.sec.size) :
    groupNew r ref =
      if (r.base + ref.off) % 2 ≠ 0 then .err .misaligned
      else
        match parseGroup (bytesAt r.sec ref.off ref.len) with
        | .error e => .err e
        | .ok G => .ok ⟨ref.off, G.kind, G.entries.length⟩ := by
  rw [groupNew_eq hbnd]
  by_cases c1 : (r.base + ref.off) % 2 ≠ 0
  · rw [if_pos c1, if_pos c1]
  · rw [if_neg c1, if_neg c1]
    unfold parseGroup
    rw [bytesAt_length]
    by_cases c2 : ref.len < 6
    · rw [if_pos c2, if_pos c2]
    · rw [if_neg c2, if_neg c2]
      have e0 := l16_bytesAt r.sec ref.off ref.len 0 (by omega)
      have e2 := l16_bytesAt r.sec ref.off ref.len 2 (by omega)
      have e4 := l16_bytesAt r.sec ref.off ref.len 4 (by omega)
      rw [Nat.add_zero] at e0
      rw [e0, e2, e4]
      by_cases c3 : le16 r.sec ref.off ≠ 0 ∨ ¬ (le16 r.sec (ref.off + 2) = 1 ∨ le16 r.sec (ref.off + 2) = 2)
      · rw [if_pos c3, if_pos c3]
      · rw [if_neg c3, if_neg c3]
        by_cases c4 : ref.len ≠ 6 + le16 r.sec (ref.off + 4) * 14
        · rw [if_pos c4, if_pos (by omega)]
        · rw [if_neg c4, if_neg (by omega)]
          simp only [List.length_map, List.length_range]

theorem groupEntriesFrom_map (r : Resources) : ∀ (n start : Nat),
    (groupEntriesFrom r start n).map (fun e => (e.bytesInRes, e.nId)) =
      (List.range n).map fun i =>
        (le16 r.sec (start + 14 * i + 10) * 0x10000 + le16 r.sec (start + 14 * i + 8), le16 r.sec (start + 14 * i + 12))
  | 0, _ => rfl
  | n + 1, start => by
    have hr := List.range_succ_eq_map (n := n)
    rw [hr, List.map_cons, List.map_map]
    show (_, _) :: (groupEntriesFrom r (start + 14) n).map _ = _
    rw [groupEntriesFrom_map r n (start + 14)]
    have h0 : start + 14 * 0 = start := by omega
    rw [h0]
    refine List.cons_eq_cons.2 ⟨rfl, ?_⟩
    apply List.map_congr_left
    intro i _
    show (_, _) = (_, _)
    rw [show start + 14 + 14 * i = start + 14 * (i + 1) by omega]

/-- the entries `GroupResource::entries` hands out are the ones of the parsed GRPICONDIR -/
theorem groupEntries_parse {r : Resources} {ref : Ref} {G : GroupSpec}
    (h : parseGroup (bytesAt r.sec ref.off ref.len) = .ok G) :
    (groupEntriesFrom r (ref.off + 6) G.entries.length).map (fun e => (e.bytesInRes, e.nId)) = G.entries := by
  unfold parseGroup at h
  rw [bytesAt_length] at h
  by_cases c2 : ref.len < 6
  · rw [if_pos c2] at h; cases h
  · rw [if_neg c2] at h
    by_cases c3 : l16 (bytesAt r.sec ref.off ref.len) 0 ≠ 0 ∨
        ¬ (l16 (bytesAt r.sec ref.off ref.len) 2 = 1 ∨ l16 (bytesAt r.sec ref.off ref.len) 2 = 2)
    · rw [if_pos c3] at h; cases h
    · rw [if_neg c3] at h
      by_cases c4 : ref.len ≠ 6 + 14 * l16 (bytesAt r.sec ref.off ref.len) 4
      · rw [if_pos c4] at h; cases h
      · rw [if_neg c4] at h
        simp only [Except.ok.injEq] at h
        subst h
        simp only [List.length_map, List.length_range]
        rw [groupEntriesFrom_map]
        apply List.map_congr_left
        intro i hi
        have hi' : i < l16 (bytesAt r.sec ref.off ref.len) 4 := List.mem_range.1 hi
        have hlen : ref.len = 6 + 14 * l16 (bytesAt r.sec ref.off ref.len) 4 := by omega
        rw [l16_bytesAt r.sec ref.off ref.len (6 + 14 * i + 10) (by omega),
          l16_bytesAt r.sec ref.off ref.len (6 + 14 * i + 8) (by omega),
          l16_bytesAt r.sec ref.off ref.len (6 + 14 * i + 12) (by omega)]
        rw [show ref.off + 6 + 14 * i + 10 = ref.off + (6 + 14 * i + 10) by omega,
          show ref.off + 6 + 14 * i + 8 = ref.off + (6 + 14 * i + 8) by omega,
          show ref.off + 6 + 14 * i + 12 = ref.off + (6 + 14 * i + 12) by omega]

/-! ### the relation between what `icons()` / `cursors()` yield and the specification -/

/-- the group object stands for the parsed GRPICONDIR `G` -/
def GroupRep (r : Resources) (g : Group) (G : GroupSpec) : Prop :=
  GroupOK r g ∧ g.ty = G.kind ∧ g.count = G.entries.length ∧
  (groupEntriesFrom r (g.off + 6) g.count).map (fun e => (e.bytesInRes, e.nId)) = G.entries

/-- One item of `icons()` / `cursors()` against one entry of `Node.groups`.  When the specification has
no group data the item is that error.  Otherwise the data lie somewhere in the section (`off`); the
item is `Misaligned` when that place is at an odd address (a property of the layout, not of the tree),
else the format error of `parseGroup`, else the entry's name with a group object that stands for the
parsed GRPICONDIR. -/
def ItemRel (r : Resources) (it : FRes (Name × Group)) (s : RName × FRes (List UInt8)) : Prop :=
  match s.2 with
  | .error e => it = .error e
  | .ok blob =>
    ∃ off, off + blob.length ≤ r.sec.size ∧ bytesAt r.sec off blob.length = blob ∧
      if (r.base + off) % 2 ≠ 0 then it = .error (.pe .misaligned)
      else
        match parseGroup blob with
        | .error e => it = .error (.pe e)
        | .ok G => ∃ g, it = .ok (s.1.toName, g) ∧ g.off = off ∧ GroupRep r g G

/-- `items` and `specs` have the same length and are related item by item -/
def ItemsRel (r : Resources) : List (FRes (Name × Group)) → List (RName × FRes (List UInt8)) → Prop
  | [], [] => True
  | it :: items, s :: specs => ItemRel r it s ∧ ItemsRel r items specs
  | _, _ => False

theorem groupItem_rep {r : Resources} (hb : Aligned r) {pos : Nat} {nm : RName} {ch : Node} {rest : Entries}
    (h : IsEntries r pos (.cons nm ch rest)) :
    ∃ it, groupItem r (entryAt r pos) = .ok it ∧ ItemRel r it (nm, ch.groupData) := by
  unfold IsEntries at h
  obtain ⟨hname, hkind, hnode, _⟩ := h
  have hgn := getName_of_nameAt hb (e := entryAt r pos) hname
  obtain ⟨en, he, hrep⟩ := entry_rep hb hkind hnode
  have key : FRelG (RepBytes r)
      (bindF (asDir en) fun d => bindF (d.firstData r) fun data => liftE (data.bytes r) okF)
      (ch.asDir.bind Node.firstData) :=
    (asDir_rep hrep).bind (fun _ _ h1 => (firstData_rep hb h1).bind_ok (fun _ _ h2 => bytes_rep hb h2))
  have hitem : groupItem r (entryAt r pos) =
      bindF (bindF (asDir en) fun d => bindF (d.firstData r) fun data => liftE (data.bytes r) okF)
        (fun bytes => liftE (groupNew r bytes) fun g => okF (nm.toName, g)) := by
    unfold groupItem
    rw [hgn, he]
    show bindF (asDir en) (fun d => bindF (d.firstData r) fun data => liftE (data.bytes r) fun bytes =>
      liftE (groupNew r bytes) fun g => okF (nm.toName, g)) = _
    rw [bindF_assoc]
    refine bindF_congr _ (fun d => ?_)
    rw [bindF_assoc]
    refine bindF_congr _ (fun data => ?_)
    rw [bindF_liftE]
    rfl
  rw [hitem]
  unfold ItemRel Node.groupData
  cases hS : ch.asDir.bind Node.firstData with
  | error e =>
    rw [hS] at key
    have key' : _ = Out.ok (Except.error e) := key
    rw [key']
    exact ⟨_, rfl, rfl⟩
  | ok node =>
    rw [hS] at key
    obtain ⟨ref, h1, c, cp, h2, hbnd, hlen, hby⟩ := key
    subst h2
    rw [h1]
    show ∃ it, (liftE (groupNew r ref) fun g => okF (nm.toName, g)) = .ok it ∧
      ∃ off, off + c.length ≤ r.sec.size ∧ bytesAt r.sec off c.length = c ∧ _
    have hnew := groupNew_parse hbnd
    rw [hby] at hnew
    by_cases ca : (r.base + ref.off) % 2 ≠ 0
    · rw [if_pos ca] at hnew
      rw [hnew]
      refine ⟨_, rfl, ref.off, by omega, by rw [← hlen]; exact hby, ?_⟩
      rw [if_pos ca]
    · rw [if_neg ca] at hnew
      cases hp : parseGroup c with
      | error e =>
        rw [hp] at hnew
        rw [hnew]
        refine ⟨_, rfl, ref.off, by omega, by rw [← hlen]; exact hby, ?_⟩
        rw [if_neg ca]
      | ok G =>
        rw [hp] at hnew
        rw [hnew]
        refine ⟨_, rfl, ref.off, by omega, by rw [← hlen]; exact hby, ?_⟩
        rw [if_neg ca]
        refine ⟨⟨ref.off, G.kind, G.entries.length⟩, rfl, rfl, (groupNew_ok hbnd hnew).1, rfl, rfl, ?_⟩
        rw [← hby] at hp
        exact groupEntries_parse hp

theorem groupItems_rep {r : Resources} (hb : Aligned r) : ∀ (es : Entries) (pos : Nat), IsEntries r pos es →
    ∃ items, groupItems r (entriesFrom r pos es.length) = .ok items ∧
      ItemsRel r items (es.toList.map fun p => (p.1, p.2.groupData))
  | .nil, _, _ => ⟨[], rfl, trivial⟩
  | .cons nm ch rest, pos, h => by
    obtain ⟨it, h1, h2⟩ := groupItem_rep hb h
    have hrest : IsEntries r (pos + 8) rest := by unfold IsEntries at h; exact h.2.2.2
    obtain ⟨more, h3, h4⟩ := groupItems_rep hb rest (pos + 8) hrest
    refine ⟨it :: more, ?_, h2, h4⟩
    show groupItems r (entryAt r pos :: entriesFrom r (pos + 8) rest.length) = _
    unfold groupItems
    rw [h1]
    dsimp only
    rw [h3]

/-- **`icons()` / `cursors()` on a section that represents any tree** -/
theorem groups_rep {r : Resources} (hb : Aligned r) {t : Node} (h : IsTree r t) (ty : Nat) :
    ∃ items, groups r ty = .ok items ∧ ItemsRel r items (t.groups ty) := by
  obtain ⟨d, hr, hrep⟩ := root_rep hb h
  have hg := getDir_rep hb hrep (.id ty)
  unfold groups Node.groups
  rw [hr]
  simp only [liftE]
  cases hS : t.getDir (.id ty) with
  | error e =>
    rw [hS] at hg
    have hg' : _ = Out.ok (Except.error e) := hg
    rw [hg']
    exact ⟨[], rfl, trivial⟩
  | ok gnode =>
    rw [hS] at hg
    obtain ⟨gd, h1, h2⟩ := hg
    rw [h1]
    cases gnode with
    | data c cp => exact h2.elim
    | dir n es =>
      obtain ⟨hd, hnode⟩ := h2
      obtain ⟨_, hok, hle, hents⟩ := dir_of_isNode hb hnode
      rw [← hd] at hok
      dsimp only
      rw [entries_eq hb hok]
      dsimp only
      have hcount : gd.named + gd.ids = es.length := by
        rw [hd]; show n + (es.length - n) = es.length; omega
      rw [hcount]
      exact groupItems_rep hb es _ hents

/-! ### the lookups of a group -/

theorem typeId_of_kind {g : Group} {G : GroupSpec} (hty : g.ty = G.kind) (hk : G.kind = 1 ∨ G.kind = 2) :
    g.typeId = .ok G.imageType := by
  unfold Group.typeId GroupSpec.imageType
  rcases hk with h | h
  · rw [hty, h]; rfl
  · rw [hty, h]; rfl

theorem groupRep_kind {r : Resources} {g : Group} {G : GroupSpec} (h : GroupRep r g G) : G.kind = 1 ∨ G.kind = 2 := by
  obtain ⟨hok, hty, _, _⟩ := h
  rw [← hty]
  exact hok.2.2.1

/-- `image(id)` of a group that stands for `G` is `find_resource(&[RT_ICON | RT_CURSOR, id])` -/
theorem image_eq {r : Resources} {g : Group} {G : GroupSpec} (h : GroupRep r g G) (id : Nat) :
    g.image r id = findResource r (.id G.imageType) (.id id) :=
  image_eq_findResource r g id _ (typeId_of_kind h.2.1 (groupRep_kind h))

theorem image_rep {r : Resources} (hb : Aligned r) {t : Node} (ht : IsTree r t) {g : Group} {G : GroupSpec}
    (h : GroupRep r g G) (id : Nat) : FRelG (RepBytes r) (g.image r id) (t.groupImage G id) := by
  rw [image_eq h]
  exact findResource_rep hb ht _ _

end Pelite.Resources
