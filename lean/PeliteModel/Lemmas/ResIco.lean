import PeliteModel.Lemmas.ResMisc
/-!
Helper lemmas for C12, part 10: an `.ico` / `.cur` file turned into resources by the specification's
`icoToResources` is reproduced byte for byte by `GroupResource::write`.
-/
namespace Pelite.Resources
open Pelite

/-! ### windows of a byte array -/

/-- the bytes `c` occur in `b` at offset `off` -/
def Window (b : Bytes) (off : Nat) (c : List UInt8) : Prop := bytesAt b off c.length = c

theorem window_iff (b : Bytes) (off : Nat) (c : List UInt8) :
    Window b off c ↔ ∀ i, i < c.length → b.getD (off + i) 0 = c.getD i 0 := by
  unfold Window bytesAt
  constructor
  · intro h i hi
    have : ((List.range c.length).map fun i => b.getD (off + i) 0)[i]? = c[i]? := by rw [h]
    simp only [List.getElem?_map, List.getElem?_range hi, Option.map_some] at this
    rw [List.getD_eq_getElem?_getD, ← this]; rfl
  · intro h
    apply List.ext_getElem
    · simp
    · intro i h1 h2
      simp only [List.getElem_map, List.getElem_range]
      rw [h i h2, List.getD_eq_getElem?_getD, List.getElem?_eq_getElem h2]; rfl

theorem Window.left {b : Bytes} {off : Nat} {a c : List UInt8} (h : Window b off (a ++ c)) : Window b off a := by
  rw [window_iff] at h ⊢
  intro i hi
  rw [h i (by simp; omega)]
  simp only [List.getD_eq_getElem?_getD, List.getElem?_append_left hi]

theorem Window.right {b : Bytes} {off : Nat} {a c : List UInt8} (h : Window b off (a ++ c)) : Window b (off + a.length) c := by
  rw [window_iff] at h ⊢
  intro i hi
  rw [Nat.add_assoc, h (a.length + i) (by simp; omega)]
  simp only [List.getD_eq_getElem?_getD]
  rw [List.getElem?_append_right (by omega), show a.length + i - a.length = i by omega]

theorem Window.byteAt {b : Bytes} {off : Nat} {c : List UInt8} (h : Window b off c) (i : Nat) (hi : i < c.length) :
    byteAt b (off + i) = (c.getD i 0).toNat := by
  unfold Pelite.byteAt
  rw [(window_iff b off c).1 h i hi]

theorem Window.le16 {b : Bytes} {off v : Nat} (h : Window b off (le16b v)) (hv : v < 65536) : le16 b off = v := by
  unfold Pelite.le16
  have h0 := h.byteAt 0 (by simp [le16b])
  have h1 := h.byteAt 1 (by simp [le16b])
  simp only [Nat.add_zero] at h0
  rw [h0, h1]
  simp only [le16b, List.getD_cons_zero, List.getD_cons_succ]
  rw [ofNat_toNat_of_lt (by omega), ofNat_toNat_of_lt (by omega)]
  omega

theorem Window.le32 {b : Bytes} {off v : Nat} (h : Window b off (le32b v)) (hv : v < 4294967296) : le32 b off = v := by
  unfold Pelite.le32
  have h0 := h.byteAt 0 (by simp [le32b])
  have h1 := h.byteAt 1 (by simp [le32b])
  have h2 := h.byteAt 2 (by simp [le32b])
  have h3 := h.byteAt 3 (by simp [le32b])
  simp only [Nat.add_zero] at h0
  rw [h0, h1, h2, h3]
  simp only [le32b, List.getD_cons_zero, List.getD_cons_succ]
  rw [ofNat_toNat_of_lt (by omega), ofNat_toNat_of_lt (by omega), ofNat_toNat_of_lt (by omega), ofNat_toNat_of_lt (by omega)]
  omega

/-- the two halves of a little-endian u32 (`dwBytesInResLo`, `dwBytesInResHi`) -/
theorem Window.le32_halves {b : Bytes} {off v : Nat} (h : Window b off (le32b v)) (hv : v < 4294967296) :
    Pelite.le16 b off = v % 65536 ∧ Pelite.le16 b (off + 2) = v / 65536 := by
  unfold Pelite.le16
  have h0 := h.byteAt 0 (by simp [le32b])
  have h1 := h.byteAt 1 (by simp [le32b])
  have h2 := h.byteAt 2 (by simp [le32b])
  have h3 := h.byteAt 3 (by simp [le32b])
  simp only [Nat.add_zero] at h0
  rw [h0, h1, h2, show off + 2 + 1 = off + 3 by omega, h3]
  simp only [le32b, List.getD_cons_zero, List.getD_cons_succ]
  rw [ofNat_toNat_of_lt (by omega), ofNat_toNat_of_lt (by omega), ofNat_toNat_of_lt (by omega), ofNat_toNat_of_lt (by omega)]
  omega

/-! ### canonical layout: the writer puts the content of a data entry right behind it -/

mutual
def Canon (r : Resources) : Nat → Node → Prop
  | off, .data _ _ => le32 r.sec off = r.dirVA + off + 16 ∧ off % 4 = 0
  | off, .dir _ es => CanonEntries r (off + 16) es
def CanonEntries (r : Resources) : Nat → Entries → Prop
  | _, .nil => True
  | pos, .cons _ ch rest => Canon r (le32 r.sec (pos + 4) % 0x80000000) ch ∧ CanonEntries r (pos + 8) rest
end

mutual
theorem canon_enc (sec : List UInt8) (dirVA b : Nat) : ∀ (t : Node) (base : Nat),
    ReadAt sec base (encNode dirVA base t) → base % 4 = 0 → base + t.size ≤ 0x80000000 →
    dirVA + base + t.size < 4294967296 → Canon ⟨sec.toArray, dirVA, b⟩ base t
  | .data c cp, base, h, hal, hsz, hva => by
    simp only [encNode, List.append_assoc] at h
    simp only [Node.size] at hsz hva
    have f0 := h.left.le32 (v := dirVA + base + 16) (by omega)
    exact ⟨f0, hal⟩
  | .dir n es, base, h, hal, hsz, hva => by
    simp only [encNode, List.append_assoc] at h
    simp only [Node.size] at hsz hva
    have r1 := h.right; rw [le32b_length] at r1
    have r2 := r1.right; rw [le32b_length] at r2
    have r3 := r2.right; rw [le16b_length] at r3
    have r4 := r3.right; rw [le16b_length] at r4
    have r5 := r4.right; rw [le16b_length] at r5
    have r6 := r5.right; rw [le16b_length] at r6
    have htab := r6.left
    have hblob := r6.right; rw [encTable_length] at hblob
    have e16 : base + 4 + 4 + 2 + 2 + 2 + 2 = base + 16 := by omega
    have eo : base + 4 + 4 + 2 + 2 + 2 + 2 + 8 * es.length = base + 16 + 8 * es.length := by omega
    rw [e16] at htab; rw [eo] at hblob
    exact canonEntries_enc sec dirVA b es (base + 16) (base + 16 + 8 * es.length) htab hblob (by omega) (by omega) (by omega)
theorem canonEntries_enc (sec : List UInt8) (dirVA b : Nat) : ∀ (es : Entries) (tpos o : Nat),
    ReadAt sec tpos (encTable o es) → ReadAt sec o (encBlobs dirVA o es) → o % 4 = 0 →
    o + es.blobSize ≤ 0x80000000 → dirVA + o + es.blobSize < 4294967296 →
    CanonEntries ⟨sec.toArray, dirVA, b⟩ tpos es
  | .nil, _, _, _, _, _, _, _ => trivial
  | .cons nm ch rest, tpos, o, ht, hbl, hal, hsz, hva => by
    simp only [encTable, List.append_assoc] at ht
    simp only [encBlobs, List.append_assoc] at hbl
    simp only [Entries.blobSize] at hsz hva
    have t1 := ht.right; rw [le32b_length] at t1
    have t2 := t1.right; rw [le32b_length] at t2
    have b1 := hbl.right; rw [encName_length] at b1
    have b2 := b1.right; rw [encNode_length] at b2
    have hnmod := rname_size_mod nm
    have hcmod := node_size_mod ch
    have hcsz : 16 ≤ ch.size := by cases ch <;> simp only [Node.size] <;> omega
    have hchild := canon_enc sec dirVA b ch (o + nm.size) b1.left (by omega) (by omega) (by omega)
    have e8 : tpos + 4 + 4 = tpos + 8 := by omega
    rw [e8] at t2
    have hrestE := canonEntries_enc sec dirVA b rest (tpos + 8) (o + nm.size + ch.size) t2 b2 (by omega) (by omega) (by omega)
    refine ⟨?_, hrestE⟩
    dsimp only
    unfold offsetField at t1
    cases hd : ch.isDir with
    | true =>
      rw [hd] at t1
      rw [t1.left.le32 (by simp only [if_true]; omega)]
      simp only [if_true]
      rw [show (0x80000000 + (o + nm.size)) % 0x80000000 = o + nm.size by omega]
      exact hchild
    | false =>
      rw [hd] at t1
      rw [t1.left.le32 (by simp; omega)]
      simp only [Bool.false_eq_true, if_false]
      rw [Nat.mod_eq_of_lt (by omega)]
      exact hchild
end

theorem canon_resourcesOf {dirVA : Nat} {t : Node} (h : Encodable dirVA t) : Canon (resourcesOf dirVA t) 0 t := by
  obtain ⟨_, _, h1, h2⟩ := h
  exact canon_enc (encodeTree dirVA t) dirVA 0 t 0 (ReadAt.whole _) rfl (by omega) (by omega)

end Pelite.Resources
