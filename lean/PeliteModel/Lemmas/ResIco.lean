import PeliteModel.Lemmas.ResMisc
/-!
Helper lemmas for C12, part 10: an `.ico` / `.cur` file turned into resources by the specification's
`icoToResources` is reproduced byte for byte by `GroupResource::write`.
-/
namespace Pelite.Resources
open Pelite

/-! ### windows of a byte array -/

/-- the bytes `c` occur in `b` at offset `off` -/
def Window (b : Bytes) (off : Nat) (c : List UInt8) : Prop := bytesAt b off c.length = c

theorem window_iff (b : Bytes) (off : Nat) (c : List UInt8) :
    Window b off c ↔ ∀ i, i < c.length → b.getD (off + i) 0 = c.getD i 0 := by
  unfold Window bytesAt
  constructor
  · intro h i hi
    have : ((List.range c.length).map fun i => b.getD (off + i) 0)[i]? = c[i]? := by rw [h]
    simp only [List.getElem?_map, List.getElem?_range hi, Option.map_some] at this
    rw [List.getD_eq_getElem?_getD, ← this]; rfl
  · intro h
    apply List.ext_getElem
    · simp
    · intro i h1 h2
      simp only [List.getElem_map, List.getElem_range]
      rw [h i h2, List.getD_eq_getElem?_getD, List.getElem?_eq_getElem h2]; rfl

theorem Window.left {b : Bytes} {off : Nat} {a c : List UInt8} (h : Window b off (a ++ c)) : Window b off a := by
  rw [window_iff] at h ⊢
  intro i hi
  rw [h i (by simp; omega)]
  simp only [List.getD_eq_getElem?_getD, List.getElem?_append_left hi]

theorem Window.right {b : Bytes} {off : Nat} {a c : List UInt8} (h : Window b off (a ++ c)) : Window b (off + a.length) c := by
  rw [window_iff] at h ⊢
  intro i hi
  rw [Nat.add_assoc, h (a.length + i) (by simp; omega)]
  simp only [List.getD_eq_getElem?_getD]
  rw [List.getElem?_append_right (by omega), show a.length + i - a.length = i by omega]

theorem Window.byteAt {b : Bytes} {off : Nat} {c : List UInt8} (h : Window b off c) (i : Nat) (hi : i < c.length) :
    byteAt b (off + i) = (c.getD i 0).toNat := by
  unfold Pelite.byteAt
  rw [(window_iff b off c).1 h i hi]

theorem Window.le16 {b : Bytes} {off v : Nat} (h : Window b off (le16b v)) (hv : v < 65536) : le16 b off = v := by
  unfold Pelite.le16
  have h0 := h.byteAt 0 (by simp [le16b])
  have h1 := h.byteAt 1 (by simp [le16b])
  simp only [Nat.add_zero] at h0
  rw [h0, h1]
  simp only [le16b, List.getD_cons_zero, List.getD_cons_succ]
  rw [ofNat_toNat_of_lt (by omega), ofNat_toNat_of_lt (by omega)]
  omega

theorem Window.le32 {b : Bytes} {off v : Nat} (h : Window b off (le32b v)) (hv : v < 4294967296) : le32 b off = v := by
  unfold Pelite.le32
  have h0 := h.byteAt 0 (by simp [le32b])
  have h1 := h.byteAt 1 (by simp [le32b])
  have h2 := h.byteAt 2 (by simp [le32b])
  have h3 := h.byteAt 3 (by simp [le32b])
  simp only [Nat.add_zero] at h0
  rw [h0, h1, h2, h3]
  simp only [le32b, List.getD_cons_zero, List.getD_cons_succ]
  rw [ofNat_toNat_of_lt (by omega), ofNat_toNat_of_lt (by omega), ofNat_toNat_of_lt (by omega), ofNat_toNat_of_lt (by omega)]
  omega

/-- the two halves of a little-endian u32 (`dwBytesInResLo`, `dwBytesInResHi`) -/
theorem Window.le32_halves {b : Bytes} {off v : Nat} (h : Window b off (le32b v)) (hv : v < 4294967296) :
    Pelite.le16 b off = v % 65536 ∧ Pelite.le16 b (off + 2) = v / 65536 := by
  unfold Pelite.le16
  have h0 := h.byteAt 0 (by simp [le32b])
  have h1 := h.byteAt 1 (by simp [le32b])
  have h2 := h.byteAt 2 (by simp [le32b])
  have h3 := h.byteAt 3 (by simp [le32b])
  simp only [Nat.add_zero] at h0
  rw [h0, h1, h2, show off + 2 + 1 = off + 3 by omega, h3]
  simp only [le32b, List.getD_cons_zero, List.getD_cons_succ]
  rw [ofNat_toNat_of_lt (by omega), ofNat_toNat_of_lt (by omega), ofNat_toNat_of_lt (by omega), ofNat_toNat_of_lt (by omega)]
  omega

/-! ### canonical layout: the writer puts the content of a data entry right behind it -/

mutual
def Canon (r : Resources) : Nat → Node → Prop
  | off, .data _ _ => le32 r.sec off = r.dirVA + off + 16 ∧ off % 4 = 0
  | off, .dir _ es => CanonEntries r (off + 16) es
def CanonEntries (r : Resources) : Nat → Entries → Prop
  | _, .nil => True
  | pos, .cons _ ch rest => Canon r (le32 r.sec (pos + 4) % 0x80000000) ch ∧ CanonEntries r (pos + 8) rest
end

mutual
theorem canon_enc (sec : List UInt8) (dirVA b : Nat) : ∀ (t : Node) (base : Nat),
    ReadAt sec base (encNode dirVA base t) → base % 4 = 0 → base + t.size ≤ 0x80000000 →
    dirVA + base + t.size < 4294967296 → Canon ⟨sec.toArray, dirVA, b⟩ base t
  | .data c cp, base, h, hal, hsz, hva => by
    simp only [encNode, List.append_assoc] at h
    simp only [Node.size] at hsz hva
    have f0 := h.left.le32 (v := dirVA + base + 16) (by omega)
    exact ⟨f0, hal⟩
  | .dir n es, base, h, hal, hsz, hva => by
    simp only [encNode, List.append_assoc] at h
    simp only [Node.size] at hsz hva
    have r1 := h.right; rw [le32b_length] at r1
    have r2 := r1.right; rw [le32b_length] at r2
    have r3 := r2.right; rw [le16b_length] at r3
    have r4 := r3.right; rw [le16b_length] at r4
    have r5 := r4.right; rw [le16b_length] at r5
    have r6 := r5.right; rw [le16b_length] at r6
    have htab := r6.left
    have hblob := r6.right; rw [encTable_length] at hblob
    have e16 : base + 4 + 4 + 2 + 2 + 2 + 2 = base + 16 := by omega
    have eo : base + 4 + 4 + 2 + 2 + 2 + 2 + 8 * es.length = base + 16 + 8 * es.length := by omega
    rw [e16] at htab; rw [eo] at hblob
    exact canonEntries_enc sec dirVA b es (base + 16) (base + 16 + 8 * es.length) htab hblob (by omega) (by omega) (by omega)
theorem canonEntries_enc (sec : List UInt8) (dirVA b : Nat) : ∀ (es : Entries) (tpos o : Nat),
    ReadAt sec tpos (encTable o es) → ReadAt sec o (encBlobs dirVA o es) → o % 4 = 0 →
    o + es.blobSize ≤ 0x80000000 → dirVA + o + es.blobSize < 4294967296 →
    CanonEntries ⟨sec.toArray, dirVA, b⟩ tpos es
  | .nil, _, _, _, _, _, _, _ => trivial
  | .cons nm ch rest, tpos, o, ht, hbl, hal, hsz, hva => by
    simp only [encTable, List.append_assoc] at ht
    simp only [encBlobs, List.append_assoc] at hbl
    simp only [Entries.blobSize] at hsz hva
    have t1 := ht.right; rw [le32b_length] at t1
    have t2 := t1.right; rw [le32b_length] at t2
    have b1 := hbl.right; rw [encName_length] at b1
    have b2 := b1.right; rw [encNode_length] at b2
    have hnmod := rname_size_mod nm
    have hcmod := node_size_mod ch
    have hcsz : 16 ≤ ch.size := by cases ch <;> simp only [Node.size] <;> omega
    have hchild := canon_enc sec dirVA b ch (o + nm.size) b1.left (by omega) (by omega) (by omega)
    have e8 : tpos + 4 + 4 = tpos + 8 := by omega
    rw [e8] at t2
    have hrestE := canonEntries_enc sec dirVA b rest (tpos + 8) (o + nm.size + ch.size) t2 b2 (by omega) (by omega) (by omega)
    refine ⟨?_, hrestE⟩
    dsimp only
    unfold offsetField at t1
    cases hd : ch.isDir with
    | true =>
      rw [hd] at t1
      rw [t1.left.le32 (by simp only [if_true]; omega)]
      simp only [if_true]
      rw [show (0x80000000 + (o + nm.size)) % 0x80000000 = o + nm.size by omega]
      exact hchild
    | false =>
      rw [hd] at t1
      rw [t1.left.le32 (by simp; omega)]
      simp only [Bool.false_eq_true, if_false]
      rw [Nat.mod_eq_of_lt (by omega)]
      exact hchild
end

theorem canon_resourcesOf {dirVA : Nat} {t : Node} (h : Encodable dirVA t) : Canon (resourcesOf dirVA t) 0 t := by
  obtain ⟨_, _, h1, h2⟩ := h
  exact canon_enc (encodeTree dirVA t) dirVA 0 t 0 (ReadAt.whole _) rfl (by omega) (by omega)

end Pelite.Resources

namespace Pelite.Resources
open Pelite

/-! ### the group resource of an `.ico` file -/

/-- the file can be turned into resources: icon or cursor, complete 8-byte entry headers, sizes and
offsets that fit their fields, ids that fit `u16` -/
structure IcoOK (kind : Nat) (imgs : List IcoImage) : Prop where
  kind : kind = 1 ∨ kind = 2
  hdr : ∀ im ∈ imgs, im.hdr.length = 8
  len : ∀ im ∈ imgs, im.data.length < 4294967296
  count : imgs.length < 65535
  total : 6 + 16 * imgs.length + (imgs.map (·.data.length)).sum < 4294967296

theorem IcoOK.tail {kind : Nat} {im : IcoImage} {rest : List IcoImage} (h : IcoOK kind (im :: rest)) : IcoOK kind rest :=
  ⟨h.kind, fun x hx => h.hdr x (by simp [hx]), fun x hx => h.len x (by simp [hx]),
   by have := h.count; simp at this; omega,
   by have := h.total; simp only [List.length_cons, List.map_cons, List.sum_cons] at this; omega⟩

theorem groupEntries_length : ∀ (imgs : List IcoImage) (id : Nat), (∀ im ∈ imgs, im.hdr.length = 8) →
    (groupEntries imgs id).length = 14 * imgs.length
  | [], _, _ => rfl
  | im :: rest, id, h => by
    simp only [groupEntries, List.length_append, le32b_length, le16b_length, List.length_cons,
      groupEntries_length rest (id + 1) (fun x hx => h x (by simp [hx])), h im (by simp)]
    omega

/-- the entries `GroupResource::entries` should find -/
def expEntries : List IcoImage → Nat → Nat → List GroupEntry
  | [], _, _ => []
  | im :: rest, start, id => ⟨start, im.data.length, id⟩ :: expEntries rest (start + 14) (id + 1)

theorem expEntries_length : ∀ (imgs : List IcoImage) (start id : Nat), (expEntries imgs start id).length = imgs.length
  | [], _, _ => rfl
  | im :: rest, start, id => by simp [expEntries, expEntries_length rest]

theorem groupEntriesFrom_window (r : Resources) : ∀ (imgs : List IcoImage) (start id : Nat),
    Window r.sec start (groupEntries imgs id) → (∀ im ∈ imgs, im.hdr.length = 8) →
    (∀ im ∈ imgs, im.data.length < 4294967296) → id + imgs.length ≤ 65536 →
    groupEntriesFrom r start imgs.length = expEntries imgs start id
  | [], _, _, _, _, _, _ => rfl
  | im :: rest, start, id, hw, hh, hl, hid => by
    simp only [groupEntries, List.append_assoc] at hw
    have h8 := hh im (by simp)
    have w1 := hw.right; rw [h8] at w1
    have w2 := w1.right; rw [le32b_length] at w2
    have w3 := w2.right; rw [le16b_length] at w3
    obtain ⟨lo, hi⟩ := w1.left.le32_halves (hl im (by simp))
    have hidv := w2.left.le16 (v := id) (by simp at hid; omega)
    have ih := groupEntriesFrom_window r rest (start + 14) (id + 1)
      (by rw [show start + 8 + 4 + 2 = start + 14 by omega] at w3; exact w3)
      (fun x hx => hh x (by simp [hx])) (fun x hx => hl x (by simp [hx])) (by simp at hid; omega)
    simp only [List.length_cons, groupEntriesFrom, expEntries]
    rw [ih]
    congr 1
    unfold groupEntryAt
    rw [show start + 10 = start + 8 + 2 by omega, hi, lo, show start + 12 = start + 8 + 4 by omega, hidv]
    have := hl im (by simp)
    congr 1
    omega

theorem le32Bytes_eq (n : Nat) : le32Bytes n = le32b n := rfl

theorem writeEntries_ico (r : Resources) : ∀ (imgs : List IcoImage) (start id off : Nat),
    Window r.sec start (groupEntries imgs id) → (∀ im ∈ imgs, im.hdr.length = 8) →
    off + (imgs.map (·.data.length)).sum < 4294967296 →
    writeEntries r (expEntries imgs start id) off = icoEntries imgs off
  | [], _, _, _, _, _, _ => rfl
  | im :: rest, start, id, off, hw, hh, hsum => by
    simp only [groupEntries, List.append_assoc] at hw
    have h8 := hh im (by simp)
    simp only [List.map_cons, List.sum_cons] at hsum
    -- the first 12 bytes of the GRPICONDIRENTRY
    have w12 : Window r.sec start (im.hdr ++ le32b im.data.length) := by
      have := hw
      rw [← List.append_assoc] at this
      exact this.left
    have e12 : bytesAt r.sec start 12 = im.hdr ++ le32b im.data.length := by
      have := w12
      unfold Window at this
      rw [List.length_append, h8, le32b_length] at this
      exact this
    have w3 := hw.right.right.right
    rw [h8, le32b_length, le16b_length, show start + 8 + 4 + 2 = start + 14 by omega] at w3
    have ih := writeEntries_ico r rest (start + 14) (id + 1) (off + im.data.length) w3
      (fun x hx => hh x (by simp [hx])) (by omega)
    simp only [expEntries, writeEntries, icoEntries]
    rw [e12, le32Bytes_eq, show wadd32 off im.data.length = off + im.data.length by unfold wadd32; omega, ih]

theorem images_ico (r : Resources) (g : Group) : ∀ (imgs : List IcoImage) (start id : Nat),
    (∀ i (h : i < imgs.length), ∃ ref, g.image r (id + i) = .ok (.ok ref) ∧ bytesAt r.sec ref.off ref.len = imgs[i].data) →
    ((expEntries imgs start id).map (imageOf r g)).flatten = icoData imgs
  | [], _, _, _ => rfl
  | im :: rest, start, id, h => by
    obtain ⟨ref, h1, h2⟩ := h 0 (by simp)
    simp only [Nat.add_zero, List.getElem_cons_zero] at h1 h2
    have ih := images_ico r g rest (start + 14) (id + 1) (fun i hi => by
      obtain ⟨ref', g1, g2⟩ := h (i + 1) (by simp; omega)
      refine ⟨ref', ?_, ?_⟩
      · rw [show id + 1 + i = id + (i + 1) by omega]; exact g1
      · simpa using g2)
    simp only [expEntries, List.map_cons, List.flatten_cons, icoData]
    rw [ih]
    congr 1
    unfold imageOf
    dsimp only
    rw [h1]
    exact h2

/-- `GroupResource::new` on the group blob of a file -/
theorem groupNew_blob {r : Resources} {kind : Nat} {imgs : List IcoImage} (hok : IcoOK kind imgs) {ref : Ref}
    (hw : Window r.sec ref.off (groupBlob kind imgs)) (hlen : ref.len = (groupBlob kind imgs).length)
    (hal : (r.base + ref.off) % 2 = 0) (hbnd : ref.off + ref.len ≤ r.sec.size) :
    groupNew r ref = .ok ⟨ref.off, kind, imgs.length⟩ ∧ (groupBlob kind imgs).length = 6 + 14 * imgs.length := by
  have hblen : (groupBlob kind imgs).length = 6 + 14 * imgs.length := by
    simp only [groupBlob, List.length_append, le16b_length, groupEntries_length imgs 1 hok.hdr]
  refine ⟨?_, hblen⟩
  simp only [groupBlob, List.append_assoc] at hw
  have f0 := hw.left.le16 (v := 0) (by omega)
  have w1 := hw.right; rw [le16b_length] at w1
  have f1 := w1.left.le16 (v := kind) (by have := hok.kind; omega)
  have w2 := w1.right; rw [le16b_length] at w2
  have f2 := w2.left.le16 (v := imgs.length) (by have := hok.count; omega)
  rw [groupNew_eq hbnd, if_neg (by omega), if_neg (by omega), f0, f1, show ref.off + 4 = ref.off + 2 + 2 by omega, f2,
    if_neg (by have := hok.kind; omega), if_neg (by omega)]

end Pelite.Resources

namespace Pelite.Resources
open Pelite

/-! ### following entries by position -/

theorem entryAt_dir {r : Resources} (hb : Aligned r) {pos : Nat} {nm : RName} {n : Nat} {es rest : Entries}
    (h : IsEntries r pos (.cons nm (.dir n es) rest)) :
    (entryAt r pos).getName r = .ok nm.toName ∧
    (entryAt r pos).entry r = .ok (.dir ⟨le32 r.sec (pos + 4) % 0x80000000, n, es.length - n⟩) ∧
    IsNode r (le32 r.sec (pos + 4) % 0x80000000) (.dir n es) ∧ IsEntries r (pos + 8) rest := by
  unfold IsEntries at h
  obtain ⟨hname, hkind, hnode, hrest⟩ := h
  have hge : (entryAt r pos).offset ≥ 0x80000000 := hkind.2 rfl
  obtain ⟨h1, _, _, _⟩ := dir_of_isNode hb hnode
  exact ⟨getName_of_nameAt hb (e := entryAt r pos) hname, entry_of_dir hge h1, hnode, hrest⟩

theorem entryAt_data {r : Resources} (hb : Aligned r) {pos : Nat} {nm : RName} {c : List UInt8} {cp : Nat} {rest : Entries}
    (h : IsEntries r pos (.cons nm (.data c cp) rest)) :
    (entryAt r pos).getName r = .ok nm.toName ∧
    (entryAt r pos).entry r = .ok (.data ⟨le32 r.sec (pos + 4) % 0x80000000,
      le32 r.sec (le32 r.sec (pos + 4) % 0x80000000), le32 r.sec (le32 r.sec (pos + 4) % 0x80000000 + 4),
      le32 r.sec (le32 r.sec (pos + 4) % 0x80000000 + 8)⟩) ∧
    IsNode r (le32 r.sec (pos + 4) % 0x80000000) (.data c cp) ∧ IsEntries r (pos + 8) rest := by
  unfold IsEntries at h
  obtain ⟨hname, hkind, hnode, hrest⟩ := h
  have hlt : (entryAt r pos).offset < 0x80000000 := by
    have := hkind.1
    simp only [Node.isDir] at this
    show le32 r.sec (pos + 4) < 0x80000000
    by_cases hc : 0x80000000 ≤ le32 r.sec (pos + 4)
    · exact absurd (this hc) (by decide)
    · omega
  have hmod : le32 r.sec (pos + 4) % 0x80000000 = (entryAt r pos).offset := Nat.mod_eq_of_lt hlt
  refine ⟨getName_of_nameAt hb (e := entryAt r pos) hname, ?_, hnode, hrest⟩
  rw [hmod] at hnode ⊢
  obtain ⟨h1, _, _, _⟩ := data_of_isNode hb hnode
  exact entry_of_data hlt h1

/-! ### the resource tree of a file -/

theorem imageEntries_lookup : ∀ (imgs : List IcoImage) (s i : Nat) (h : i < imgs.length),
    (imageEntries imgs s).lookup (.id (s + i)) =
      some (.dir 0 (.cons (.id 1033) (.data imgs[i].data 0) .nil))
  | [], _, _, h => by simp at h
  | im :: rest, s, 0, _ => by
    simp only [imageEntries, Entries.lookup, nameMatch, Nat.add_zero, decide_true, if_true, List.getElem_cons_zero]
  | im :: rest, s, i + 1, h => by
    have hne : ¬ (s = s + (i + 1)) := by omega
    have := imageEntries_lookup rest (s + 1) i (by simp at h; omega)
    simp only [imageEntries, Entries.lookup, nameMatch, hne, decide_false, Bool.false_eq_true, if_false,
      List.getElem_cons_succ]
    rw [show s + (i + 1) = s + 1 + i by omega, this]

/-- type ids of the images / of the group for a file of the given kind -/
def icoType (kind : Nat) : Nat := if kind = 1 then RT_ICON else RT_CURSOR
def icoGroupType (kind : Nat) : Nat := if kind = 1 then RT_GROUP_ICON else RT_GROUP_CURSOR

theorem icoToTree_eq (kind : Nat) (imgs : List IcoImage) :
    icoToTree kind imgs =
      .dir 0 (.cons (.id (icoType kind)) (.dir 0 (imageEntries imgs 1))
        (.cons (.id (icoGroupType kind))
          (.dir 0 (.cons (.id 1) (.dir 0 (.cons (.id 1033) (.data (groupBlob kind imgs) 0) .nil)) .nil)) .nil)) := rfl

/-- the image a group entry names is found, and it is that image's data -/
theorem image_ico {r : Resources} (hb : Aligned r) {kind : Nat} {imgs : List IcoImage} (hk : kind = 1 ∨ kind = 2)
    (ht : IsTree r (icoToTree kind imgs)) {g : Group} (hg : g.ty = kind) (i : Nat) (hi : i < imgs.length) :
    ∃ ref, g.image r (1 + i) = .ok (.ok ref) ∧ bytesAt r.sec ref.off ref.len = imgs[i].data := by
  have hty : g.typeId = .ok (icoType kind) := by
    unfold Group.typeId icoType
    rcases hk with h | h
    · rw [hg, h]; rfl
    · rw [hg, h]; rfl
  unfold Group.image
  rw [hty]
  dsimp only
  obtain ⟨d, hr, hrep⟩ := root_rep hb ht
  have key : FRelG (RepBytes r)
      (liftE (root r) fun d => bindF (d.getDir r (.id (icoType kind))) fun td => bindF (td.getDir r (.id (1 + i))) fun nd =>
        bindF (nd.firstData r) fun de => liftE (de.bytes r) okF)
      (((icoToTree kind imgs).getDir (.id (icoType kind))).bind fun a => (a.getDir (.id (1 + i))).bind fun b => b.firstData) :=
    FRelG.liftE hr ((getDir_rep hb hrep _).bind (fun _ _ h1 => (getDir_rep hb h1 _).bind (fun _ _ h2 =>
      (firstData_rep hb h2).bind_ok (fun _ _ h3 => bytes_rep hb h3))))
  have hspec : (((icoToTree kind imgs).getDir (.id (icoType kind))).bind fun a => (a.getDir (.id (1 + i))).bind fun b => b.firstData) =
      .ok (.data imgs[i].data 0) := by
    rw [icoToTree_eq]
    simp only [Node.getDir, Node.get, Entries.lookup, nameMatch, decide_true, if_true]
    show (Except.ok (Node.dir 0 (imageEntries imgs 1)) : FRes Node).bind _ = _
    simp only [Except.bind, Node.asDir, Node.getDir, Node.get]
    rw [imageEntries_lookup imgs 1 i hi]
    rfl
  rw [hspec] at key
  obtain ⟨ref, h1, c, cp, h2, _, _, h4⟩ := key
  cases h2
  exact ⟨ref, h1, h4⟩

end Pelite.Resources

namespace Pelite.Resources
open Pelite

theorem ico_types_ne {kind : Nat} (hk : kind = 1 ∨ kind = 2) : icoType kind ≠ icoGroupType kind := by
  rcases hk with h | h <;> subst h <;> decide

/-- `icons()` / `cursors()` on the resources of a file: exactly one group, named `1`, whose header
and entries are the group blob -/
theorem groups_ico {r : Resources} (hb : Aligned r) {kind : Nat} {imgs : List IcoImage} (hok : IcoOK kind imgs)
    (ht : IsTree r (icoToTree kind imgs)) (hc : Canon r 0 (icoToTree kind imgs)) :
    ∃ g, groups r (icoGroupType kind) = .ok [.ok (.id 1, g)] ∧ GroupOK r g ∧ g.ty = kind ∧ g.count = imgs.length ∧
      Window r.sec g.off (groupBlob kind imgs) := by
  obtain ⟨_, hnode⟩ := ht
  rw [icoToTree_eq] at hnode hc
  -- the root and its two entries
  obtain ⟨hroot, hdroot, _, hents⟩ := dir_of_isNode hb hnode
  obtain ⟨hn0, _, _, hents1⟩ := entryAt_dir hb hents
  obtain ⟨hn1, he1, hnodeB, _⟩ := entryAt_dir hb hents1
  -- the group directory and its only entry
  obtain ⟨_, hdG, _, hentsG⟩ := dir_of_isNode hb hnodeB
  obtain ⟨hn2, he2, hnodeC, _⟩ := entryAt_dir hb hentsG
  -- the language directory and its only entry, the data entry
  obtain ⟨_, hdN, _, hentsN⟩ := dir_of_isNode hb hnodeC
  obtain ⟨_, he3, hnodeD, _⟩ := entryAt_data hb hentsN
  obtain ⟨_, hbytes, hblob, _⟩ := data_of_isNode hb hnodeD
  -- canonical layout: the blob follows its data entry
  unfold Canon at hc
  unfold CanonEntries at hc
  have hc1 := hc.2
  unfold CanonEntries at hc1
  have hcB := hc1.1
  unfold Canon at hcB
  unfold CanonEntries at hcB
  have hcC := hcB.1
  unfold Canon at hcC
  unfold CanonEntries at hcC
  have hcD := hcC.1
  unfold Canon at hcD
  obtain ⟨hx, hx4⟩ := hcD
  -- names of the offsets
  generalize hg0 : le32 r.sec (0 + 16 + 8 + 4) % 0x80000000 = g0 at *
  generalize hn0' : le32 r.sec (g0 + 16 + 4) % 0x80000000 = n0 at *
  generalize hx' : le32 r.sec (n0 + 16 + 4) % 0x80000000 = x at *
  -- the bytes handed to `GroupResource::new`
  have hoff : le32 r.sec x - r.dirVA = x + 16 := by omega
  rw [hoff] at hbytes hblob
  have hwin : Window r.sec (x + 16) (groupBlob kind imgs) := by
    unfold Window
    rw [hblob, bytesAt_length]
  have hlen : le32 r.sec (x + 4) = (groupBlob kind imgs).length := by rw [hblob, bytesAt_length]
  have hbnd := (bytes_bound hbytes).1
  obtain ⟨hnew, hblen⟩ := groupNew_blob (r := r) (ref := ⟨x + 16, le32 r.sec (x + 4), 1⟩) hok hwin hlen
    (by unfold Aligned at hb; show (r.base + (x + 16)) % 2 = 0; omega) hbnd
  obtain ⟨hgok, _, _⟩ := groupNew_ok hbnd hnew
  refine ⟨⟨x + 16, kind, imgs.length⟩, ?_, hgok, rfl, rfl, hwin⟩
  -- now run `groups`
  have hq : (Name.id (icoType kind)).eq (Name.id (icoGroupType kind)) = false := by
    show decide (icoType kind = icoGroupType kind) = false
    exact decide_eq_false (ico_types_ne hok.kind)
  have hq' : (Name.id (icoGroupType kind)).eq (Name.id (icoGroupType kind)) = true := by
    show decide (icoGroupType kind = icoGroupType kind) = true
    exact decide_eq_true rfl
  have hpick : pick r (.id (icoGroupType kind)) [entryAt r (0 + 16), entryAt r (0 + 16 + 8)] =
      .ok (.ok (.dir ⟨g0, 0, (Entries.cons (.id 1) (.dir 0 (.cons (.id 1033) (.data (groupBlob kind imgs) 0) .nil)) .nil).length - 0⟩)) := by
    unfold pick firstMatch
    rw [hn0]
    dsimp only [RName.toName]
    rw [hq]
    simp only [Bool.false_eq_true, if_false]
    unfold firstMatch
    rw [hn1]
    dsimp only [RName.toName]
    rw [hq']
    simp only [if_true]
    rw [he1]
    rfl
  have hgetDir : (liftE (root r) fun d => d.getDir r (.id (icoGroupType kind))) =
      .ok (.ok ⟨g0, 0, (Entries.cons (.id 1) (.dir 0 (.cons (.id 1033) (.data (groupBlob kind imgs) 0) .nil)) .nil).length - 0⟩) := by
    rw [show root r = dirTryFrom r 0 from rfl, hroot]
    simp only [liftE, Dir.getDir]
    rw [lookup_eq_pick hb hdroot]
    show bindF (pick r (.id (icoGroupType kind)) [entryAt r (0 + 16), entryAt r (0 + 16 + 8)]) asDir = _
    rw [hpick]
    rfl
  have hfirst : Dir.firstData r ⟨n0, 0, (Entries.cons (.id 1033) (.data (groupBlob kind imgs) 0) .nil).length - 0⟩ =
      .ok (.ok ⟨x, le32 r.sec x, le32 r.sec (x + 4), le32 r.sec (x + 8)⟩) := by
    unfold Dir.firstData Dir.first
    rw [entries_eq hb hdN]
    show bindF (liftE ((entryAt r (n0 + 16)).entry r) okF) asData = _
    rw [he3]
    rfl
  have hitem : groupItem r (entryAt r (g0 + 16)) = .ok (.ok (.id 1, ⟨x + 16, kind, imgs.length⟩)) := by
    unfold groupItem
    rw [hn2, he2]
    simp only [liftE, asDir, okF, bindF]
    rw [hfirst]
    dsimp only
    rw [hbytes]
    dsimp only
    rw [hnew]
    rfl
  unfold groups
  rw [hgetDir]
  dsimp only
  rw [entries_eq hb hdG]
  show groupItems r [entryAt r (g0 + 16)] = _
  unfold groupItems
  rw [hitem]
  rfl

end Pelite.Resources

namespace Pelite.Resources
open Pelite

/-- on any 4-aligned section that represents the resource tree of a file in the canonical layout,
the group is found and `write` reproduces the file -/
theorem write_ico {r : Resources} (hb : Aligned r) {kind : Nat} {imgs : List IcoImage} (hok : IcoOK kind imgs)
    (ht : IsTree r (icoToTree kind imgs)) (hc : Canon r 0 (icoToTree kind imgs)) :
    ∃ g, groups r (icoGroupType kind) = .ok [.ok (.id 1, g)] ∧ g.write r = .ok (icoFile kind imgs) := by
  obtain ⟨g, hgroups, hgok, hty, hcount, hwin⟩ := groups_ico hb hok ht hc
  refine ⟨g, hgroups, ?_⟩
  rw [write_eq hb hgok]
  -- the header and the entry array inside the blob
  have hwin' : Window r.sec g.off ((le16b 0 ++ le16b kind ++ le16b imgs.length) ++ groupEntries imgs 1) := hwin
  have hH : bytesAt r.sec g.off 6 = le16b 0 ++ le16b kind ++ le16b imgs.length := hwin'.left
  have hE : Window r.sec (g.off + 6) (groupEntries imgs 1) := hwin'.right
  have hentries : groupEntriesFrom r (g.off + 6) g.count = expEntries imgs (g.off + 6) 1 := by
    rw [hcount]
    exact groupEntriesFrom_window r imgs (g.off + 6) 1 hE hok.hdr hok.len (by have := hok.count; omega)
  rw [hentries, expEntries_length]
  have hW : writeEntries r (expEntries imgs (g.off + 6) 1) (6 + imgs.length * 16) = icoEntries imgs (6 + 16 * imgs.length) := by
    rw [show 6 + imgs.length * 16 = 6 + 16 * imgs.length by omega]
    exact writeEntries_ico r imgs (g.off + 6) 1 _ hE hok.hdr hok.total
  have hI : ((expEntries imgs (g.off + 6) 1).map (imageOf r g)).flatten = icoData imgs :=
    images_ico r g imgs (g.off + 6) 1 (fun i hi => image_ico hb hok.kind ht hty i hi)
  rw [hH, hW, hI]
  rfl

/-- **round trip of an `.ico` / `.cur` file** through the specification's resource compiler and
`GroupResource::write` -/
theorem ico_round_trip {kind : Nat} {imgs : List IcoImage} (hok : IcoOK kind imgs) (henc : Encodable 0 (icoToTree kind imgs)) :
    ∃ g, groups (icoToResources kind imgs) (icoGroupType kind) = .ok [.ok (.id 1, g)] ∧
      g.write (icoToResources kind imgs) = .ok (icoFile kind imgs) :=
  write_ico (aligned_resourcesOf 0 _) hok (isTree_resourcesOf henc) (canon_resourcesOf henc)

end Pelite.Resources
