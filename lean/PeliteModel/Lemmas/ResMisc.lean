import PeliteModel.Lemmas.ResEncode
import PeliteModel.Lemmas.ResWork
import PeliteModel.Lemmas.ResView
/-!
Helper lemmas for C12, part 9: references are inside the section and aligned (C01), the manifest
helper on a represented tree, consequences of the writer theorem.
-/
namespace Pelite.Resources
open Pelite

/-! ### references -/

theorem dirRef_ok {r : Resources} (hb : Aligned r) {d : Dir} (hd : DirOK r d) : RefOK r.img d.ref := by
  obtain ⟨h1, h2, _, _⟩ := hd
  unfold RefOK Dir.ref Resources.img Aligned at *
  exact ⟨by show d.off + 16 ≤ r.sec.size; omega, by show (r.base + d.off) % 4 = 0; omega⟩

theorem entryRef_ok {r : Resources} (hb : Aligned r) {d : Dir} (hd : DirOK r d) {e : DirEntry}
    (he : e ∈ entriesFrom r (d.off + 16) (d.named + d.ids)) : RefOK r.img e.ref := by
  obtain ⟨h1, h2, _, _⟩ := hd
  obtain ⟨i, hi, rfl⟩ := entriesFrom_mem he
  unfold RefOK DirEntry.ref entryAt Resources.img Aligned at *
  exact ⟨by show d.off + 16 + 8 * i + 8 ≤ r.sec.size; omega, by show (r.base + (d.off + 16 + 8 * i)) % 4 = 0; omega⟩

theorem nameRef_ok {r : Resources} (hb : Aligned r) {e : DirEntry} {w : Ref} (h : e.nameRef r = .ok (some w)) :
    RefOK r.img w := by
  rw [nameRef_eq hb] at h
  by_cases c0 : e.name < 0x80000000
  · rw [if_pos c0] at h; cases h
  · rw [if_neg c0] at h
    by_cases c1 : (e.name % 0x80000000) % 2 ≠ 0
    · rw [if_pos c1] at h; cases h
    · rw [if_neg c1] at h
      by_cases c2 : e.name % 0x80000000 + 2 > r.sec.size
      · rw [if_pos c2] at h; cases h
      · rw [if_neg c2] at h
        by_cases c3 : e.name % 0x80000000 + 2 + le16 r.sec (e.name % 0x80000000) * 2 > r.sec.size
        · rw [if_pos c3] at h; cases h
        · rw [if_neg c3] at h
          cases h
          unfold RefOK Resources.img Aligned at *
          exact ⟨by show e.name % 0x80000000 + 2 + le16 r.sec (e.name % 0x80000000) * 2 ≤ r.sec.size; omega,
            by show (r.base + (e.name % 0x80000000 + 2)) % 2 = 0; omega⟩

theorem dataRef_ok {r : Resources} (hb : Aligned r) {off : Nat} {de : DataEntry} (h : dataTryFrom r off = .ok de) :
    RefOK r.img de.ref := by
  rw [dataTryFrom_eq hb] at h
  by_cases c1 : off % 4 ≠ 0
  · rw [if_pos c1] at h; cases h
  · rw [if_neg c1] at h
    by_cases c2 : off + 16 > r.sec.size
    · rw [if_pos c2] at h; cases h
    · rw [if_neg c2] at h
      cases h
      unfold RefOK DataEntry.ref Resources.img Aligned at *
      exact ⟨by show off + 16 ≤ r.sec.size; omega, by show (r.base + off) % 4 = 0; omega⟩

theorem bytesRef_ok {r : Resources} {de : DataEntry} {ref : Ref} (h : de.bytes r = .ok ref) : RefOK r.img ref := by
  obtain ⟨h1, h2⟩ := bytes_bound h
  unfold RefOK Resources.img
  exact ⟨h1, by rw [h2]; exact Nat.mod_one _⟩

/-! ### the manifest helper on a represented tree -/

theorem checkUtf8_rep {r : Resources} (hb : Aligned r) {de : DataEntry} {t : Node} (h : RepData r de t) :
    FRelG (RepBytes r)
      (liftE (de.bytes r) fun b =>
        match utf8Chars ((bytesAt r.sec b.off b.len).map UInt8.toNat) with
        | some _ => okF b
        | none => failF (.pe .encoding))
      t.checkUtf8 := by
  cases t with
  | dir n es => exact h.elim
  | data c cp =>
    obtain ⟨hde, hnode⟩ := h
    obtain ⟨_, h2, h3, _⟩ := data_of_isNode hb hnode
    rw [← hde] at h2
    rw [h2]
    simp only [liftE]
    rw [← h3]
    cases hu : utf8Chars (c.map UInt8.toNat) with
    | none =>
      simp only [Node.checkUtf8, hu]
      rfl
    | some cs =>
      simp only [Node.checkUtf8, hu, Option.isSome_some, if_true]
      refine ⟨_, rfl, c, cp, rfl, ?_, ?_, h3.symm⟩
      · unfold IsNode at hnode; exact hnode.2.2.2.2.1
      · rw [h3, bytesAt_length]

theorem manifest_rep {r : Resources} (hb : Aligned r) {t : Node} (h : IsTree r t) :
    FRelG (RepBytes r) (manifest r) t.manifest := by
  unfold manifest Node.manifest Node.firstData
  obtain ⟨d, hr, hrep⟩ := root_rep hb h
  refine FRelG.liftE hr ?_
  exact (getDir_rep hb hrep (.id 24)).bind (fun _ _ h1 => (firstDir_rep hb h1).bind (fun _ _ h2 =>
    (firstData_rep hb h2).bind (fun _ _ h3 => checkUtf8_rep hb h3)))

/-! ### consequences of the writer theorem -/

mutual
theorem dirCount_le_size : ∀ (t : Node), 16 * t.dirCount ≤ t.size
  | .data c cp => by simp [Node.dirCount]
  | .dir n es => by
    simp only [Node.dirCount, Node.size]
    have := dirCount_le_blobSize es
    omega
theorem dirCount_le_blobSize : ∀ (es : Entries), 16 * es.dirCount ≤ es.blobSize
  | .nil => by simp [Entries.dirCount]
  | .cons nm ch rest => by
    simp only [Entries.dirCount, Entries.blobSize]
    have := dirCount_le_size ch
    have := dirCount_le_blobSize rest
    omega
end

theorem resourcesOf_size (dirVA : Nat) (t : Node) : (resourcesOf dirVA t).sec.size = t.size := by
  show (encodeTree dirVA t).toArray.size = t.size
  rw [List.size_toArray]
  exact encNode_length dirVA t 0

end Pelite.Resources

namespace Pelite.Resources
open Pelite

/-! ### the represented tree is unique -/

mutual
theorem isNode_unique {r : Resources} : ∀ (t1 t2 : Node) (off : Nat), IsNode r off t1 → IsNode r off t2 →
    t1.isDir = t2.isDir → t1 = t2
  | .data c1 cp1, .data c2 cp2, off, h1, h2, _ => by
    unfold IsNode at h1 h2
    obtain ⟨_, _, _, _, _, a6, a7⟩ := h1
    obtain ⟨_, _, _, _, _, b6, b7⟩ := h2
    rw [a6, a7, b6, b7]
  | .data .., .dir .., _, _, _, hk => by cases hk
  | .dir .., .data .., _, _, _, hk => by cases hk
  | .dir n1 es1, .dir n2 es2, off, h1, h2, _ => by
    unfold IsNode at h1 h2
    obtain ⟨_, _, a3, a4, a5⟩ := h1
    obtain ⟨_, _, b3, b4, b5⟩ := h2
    have hn : n1 = n2 := by rw [← a3, ← b3]
    have hl : es1.length = es2.length := by omega
    rw [hn, isEntries_unique es1 es2 (off + 16) a5 b5 hl]
theorem isEntries_unique {r : Resources} : ∀ (es1 es2 : Entries) (pos : Nat), IsEntries r pos es1 → IsEntries r pos es2 →
    es1.length = es2.length → es1 = es2
  | .nil, .nil, _, _, _, _ => rfl
  | .nil, .cons .., _, _, _, hl => by simp [Entries.length] at hl
  | .cons .., .nil, _, _, _, hl => by simp [Entries.length] at hl
  | .cons nm1 ch1 rest1, .cons nm2 ch2 rest2, pos, h1, h2, hl => by
    unfold IsEntries at h1 h2
    obtain ⟨a1, a2, a3, a4⟩ := h1
    obtain ⟨b1, b2, b3, b4⟩ := h2
    have hnm := nameAt_unique a1 b1
    have hkind : ch1.isDir = ch2.isDir := by
      by_cases hc : 0x80000000 ≤ le32 r.sec (pos + 4)
      · rw [a2.1 hc, b2.1 hc]
      · have e1 : ch1.isDir = false := by
          cases hd : ch1.isDir with
          | false => rfl
          | true => exact absurd (a2.2 hd) hc
        have e2 : ch2.isDir = false := by
          cases hd : ch2.isDir with
          | false => rfl
          | true => exact absurd (b2.2 hd) hc
        rw [e1, e2]
    have hch := isNode_unique ch1 ch2 _ a3 b3 hkind
    have hrest := isEntries_unique rest1 rest2 (pos + 8) a4 b4 (by simp only [Entries.length] at hl; omega)
    rw [hnm, hch, hrest]
end

theorem isTree_unique {r : Resources} {t1 t2 : Node} (h1 : IsTree r t1) (h2 : IsTree r t2) : t1 = t2 :=
  isNode_unique t1 t2 0 h1.2 h2.2 (by rw [h1.1, h2.1])

end Pelite.Resources
