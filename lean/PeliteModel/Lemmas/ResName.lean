import PeliteModel.Spec.Resources
/-!
Helper lemmas for C12, part 4: the name comparison of the code (`Name::eq`, `eq_string`,
`str::parse::<u32>`, `decode_utf16`, the `RSRC_TYPES` table) against the documented matching rules.
-/
namespace Pelite.Resources
open Pelite

/-! ### the predefined type names -/

theorem typeName_eq_small : ∀ n, n < 25 → typeName rsrcTypes n = typeString n := by decide

theorem ms_keys_lt : ∀ p ∈ msResourceTypes, p.1 < 25 := by decide

theorem typeName_eq (n : Nat) : typeName rsrcTypes n = typeString n := by
  by_cases h : n < 25
  · exact typeName_eq_small n h
  · have h1 : rsrcTypes[n]? = none := List.getElem?_eq_none (by simp [rsrcTypes]; omega)
    have h2 : msResourceTypes.find? (fun p => decide (p.1 = n)) = none := by
      rw [List.find?_eq_none]
      intro p hp
      have := ms_keys_lt p hp
      simp; omega
    unfold typeName typeString
    rw [h1, h2]
    rfl

/-- every predefined name is `#` followed by an upper case letter (so never by a digit) -/
def nameShapeOK (p : Nat × String) : Bool :=
  match asc p.2 with
  | c :: _ => decide (65 ≤ c ∧ c ≤ 90)
  | [] => false

theorem ms_names_shape : ∀ p ∈ msResourceTypes, nameShapeOK p = true := by decide

theorem typeString_shape {n : Nat} {s : List Nat} (h : typeString n = some s) :
    ∃ c t, s = 35 :: c :: t ∧ 65 ≤ c ∧ c ≤ 90 := by
  unfold typeString at h
  cases hf : msResourceTypes.find? (fun p => decide (p.1 = n)) with
  | none => rw [hf] at h; cases h
  | some p =>
    rw [hf] at h
    simp only [Option.map_some, Option.some.injEq] at h
    have hp := List.mem_of_find?_eq_some hf
    have hs := ms_names_shape p hp
    unfold nameShapeOK at hs
    cases ha : asc p.2 with
    | nil => rw [ha] at hs; cases hs
    | cons c t => rw [ha] at hs h; exact ⟨c, t, h.symm, of_decide_eq_true hs⟩

/-! ### `str::parse::<u32>` -/

theorem foldl_dec_ge (ds : List Nat) (acc : Nat) : acc ≤ ds.foldl (fun a d => a * 10 + (d - 48)) acc := by
  induction ds generalizing acc with
  | nil => exact Nat.le_refl _
  | cons d ds ih =>
    simp only [List.foldl_cons]
    exact Nat.le_trans (by omega) (ih _)

theorem parseDigits_eq_some (ds : List Nat) : ∀ (acc v : Nat), acc < 4294967296 →
    (parseDigits ds acc = some v ↔
      (∀ c ∈ ds, 48 ≤ c ∧ c ≤ 57) ∧ v = ds.foldl (fun a d => a * 10 + (d - 48)) acc ∧ v < 4294967296) := by
  induction ds with
  | nil =>
    intro acc v hacc
    simp only [parseDigits, Option.some.injEq, List.not_mem_nil, false_imp_iff, implies_true, List.foldl_nil, true_and]
    constructor
    · intro h; subst h; exact ⟨rfl, hacc⟩
    · intro h; exact h.1.symm
  | cons c rest ih =>
    intro acc v hacc
    unfold parseDigits
    by_cases hc : 48 ≤ c ∧ c ≤ 57
    · rw [if_pos hc]
      dsimp only
      by_cases hv : acc * 10 + (c - 48) < 4294967296
      · rw [if_pos hv, ih _ _ hv]
        simp only [List.mem_cons, forall_eq_or_imp, List.foldl_cons]
        constructor
        · rintro ⟨h1, h2, h3⟩; exact ⟨⟨hc, h1⟩, h2, h3⟩
        · rintro ⟨⟨_, h1⟩, h2, h3⟩; exact ⟨h1, h2, h3⟩
      · rw [if_neg hv]
        simp only [List.mem_cons, forall_eq_or_imp, List.foldl_cons]
        constructor
        · intro h; cases h
        · rintro ⟨_, h2, h3⟩
          have := foldl_dec_ge rest (acc * 10 + (c - 48))
          omega
    · rw [if_neg hc]
      simp only [List.mem_cons, forall_eq_or_imp]
      constructor
      · intro h; cases h
      · rintro ⟨⟨h1, _⟩, _⟩; exact absurd h1 hc

/-- after a first digit `1`‥`9` the sign handling of `parse` is irrelevant -/
theorem parseU32_digit (d : Nat) (ds : List Nat) (hd : 49 ≤ d ∧ d ≤ 57) : parseU32 (d :: ds) = parseDigits (d :: ds) 0 := by
  cases ds with
  | nil =>
    show (if d = 43 ∨ d = 45 then none else parseDigits [d] 0) = _
    rw [if_neg (by omega)]
  | cons x xs =>
    show (if d = 43 then parseDigits (x :: xs) 0 else parseDigits (d :: x :: xs) 0) = _
    rw [if_neg (by omega)]

/-! ### `eq_string` on ids -/

theorem isIdString_iff (n d : Nat) (ds : List Nat) :
    isIdString n (35 :: d :: ds) = true ↔ (49 ≤ d ∧ d ≤ 57) ∧ (∀ c ∈ ds, 48 ≤ c ∧ c ≤ 57) ∧ decVal (d :: ds) = n := by
  simp only [isIdString, Bool.decide_and, Bool.and_eq_true, decide_eq_true_eq, List.all_eq_true]
  constructor
  · rintro ⟨h1, h2, h3, h4⟩; exact ⟨⟨h1, h2⟩, h3, h4⟩
  · rintro ⟨⟨h1, h2⟩, h3, h4⟩; exact ⟨h1, h2, h3, h4⟩

theorem isIdString_head {n : Nat} {s : List Nat} (h : isIdString n s = true) : ∃ d ds, s = 35 :: d :: ds := by
  unfold isIdString at h
  split at h
  · exact ⟨_, _, rfl⟩
  · cases h

theorem eqString_id (n : Nat) (s : List Nat) (hn : n < 4294967296) :
    (Name.id n).eqString s = (isIdString n s || typeString n == some s) := by
  -- both sides are false unless `s = '#' :: d :: ds`
  have hfalse : (∀ d ds, s ≠ 35 :: d :: ds) → (isIdString n s || typeString n == some s) = false := by
    intro hs
    rw [Bool.or_eq_false_iff]
    constructor
    · cases hi : isIdString n s with
      | false => rfl
      | true => obtain ⟨d, ds, h⟩ := isIdString_head hi; exact absurd h (hs d ds)
    · cases ht : typeString n with
      | none => rfl
      | some t =>
        obtain ⟨c, u, h, _⟩ := typeString_shape ht
        simp only [beq_eq_false_iff_ne, ne_eq, Option.some.injEq]
        intro he
        exact hs c u (by rw [← he, h])
  unfold Name.eqString
  dsimp only
  match s with
  | [] => rw [if_pos (by simp), hfalse (by intro d ds h; cases h)]
  | [a] => rw [if_pos (by simp), hfalse (by intro d ds h; cases h)]
  | a :: d :: ds =>
    by_cases ha : a = 35
    · subst ha
      rw [if_neg (by simp)]
      simp only [List.getD_cons_succ, List.getD_cons_zero, List.drop_succ_cons, List.drop_zero]
      by_cases hd : d > 48 ∧ d ≤ 57
      · rw [if_pos hd, parseU32_digit d ds (by omega)]
        have hts : (typeString n == some (35 :: d :: ds)) = false := by
          cases ht : typeString n with
          | none => rfl
          | some t =>
            obtain ⟨c, u, h, h1, h2⟩ := typeString_shape ht
            simp only [beq_eq_false_iff_ne, ne_eq, Option.some.injEq]
            intro he
            rw [h] at he
            simp only [List.cons.injEq, true_and] at he
            omega
        rw [hts, Bool.or_false]
        have key := parseDigits_eq_some (d :: ds) 0
        cases hp : parseDigits (d :: ds) 0 with
        | none =>
          dsimp only
          symm
          rw [Bool.eq_false_iff]
          intro hi
          obtain ⟨h1, h2, h3⟩ := (isIdString_iff n d ds).1 hi
          have := (key n (by omega)).2 ⟨by
            intro c hc
            rcases List.mem_cons.1 hc with rfl | hc
            · omega
            · exact h2 c hc, by rw [← h3]; rfl, hn⟩
          rw [hp] at this; cases this
        | some v =>
          dsimp only
          obtain ⟨k1, k2, k3⟩ := (key v (by omega)).1 hp
          by_cases hnv : n = v
          · subst hnv
            rw [decide_eq_true rfl]
            symm
            rw [isIdString_iff]
            exact ⟨by omega, fun c hc => k1 c (by simp [hc]), by rw [k2]; rfl⟩
          · rw [decide_eq_false hnv]
            symm
            rw [Bool.eq_false_iff]
            intro hi
            obtain ⟨_, _, h3⟩ := (isIdString_iff n d ds).1 hi
            apply hnv
            rw [← h3, k2]; rfl
      · rw [if_neg hd, typeName_eq]
        have hid : isIdString n (35 :: d :: ds) = false := by
          rw [Bool.eq_false_iff]
          intro hi
          obtain ⟨h1, _, _⟩ := (isIdString_iff n d ds).1 hi
          omega
        rw [hid, Bool.false_or]
        cases ht : typeString n with
        | none => rfl
        | some t =>
          dsimp only
          by_cases he : 35 :: d :: ds = t
          · subst he; simp
          · rw [decide_eq_false he]
            symm
            simp only [beq_eq_false_iff_ne, ne_eq, Option.some.injEq]
            intro h; exact he h.symm
    · rw [if_pos (by simp [ha]), hfalse (by intro d' ds' h; simp only [List.cons.injEq] at h; exact ha h.1)]

end Pelite.Resources
