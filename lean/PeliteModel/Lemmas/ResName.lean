import PeliteModel.Spec.Resources
/-!
Helper lemmas for C12, part 4: the name comparison of the code (`Name::eq`, `eq_string`,
`str::parse::<u32>`, `decode_utf16`, the `RSRC_TYPES` table) against the documented matching rules.
-/
namespace Pelite.Resources
open Pelite

/-! ### the predefined type names -/

theorem typeName_eq_small : ∀ n, n < 25 → typeName rsrcTypes n = typeString n := by decide

theorem ms_keys_lt : ∀ p ∈ msResourceTypes, p.1 < 25 := by decide

theorem typeName_eq (n : Nat) : typeName rsrcTypes n = typeString n := by
  by_cases h : n < 25
  · exact typeName_eq_small n h
  · have h1 : rsrcTypes[n]? = none := List.getElem?_eq_none (by simp [rsrcTypes]; omega)
    have h2 : msResourceTypes.find? (fun p => decide (p.1 = n)) = none := by
      rw [List.find?_eq_none]
      intro p hp
      have := ms_keys_lt p hp
      simp; omega
    unfold typeName typeString
    rw [h1, h2]
    rfl

/-- every predefined name is `#` followed by an upper case letter (so never by a digit) -/
def nameShapeOK (p : Nat × String) : Bool :=
  match asc p.2 with
  | c :: _ => decide (65 ≤ c ∧ c ≤ 90)
  | [] => false

theorem ms_names_shape : ∀ p ∈ msResourceTypes, nameShapeOK p = true := by decide

theorem typeString_shape {n : Nat} {s : List Nat} (h : typeString n = some s) :
    ∃ c t, s = 35 :: c :: t ∧ 65 ≤ c ∧ c ≤ 90 := by
  unfold typeString at h
  cases hf : msResourceTypes.find? (fun p => decide (p.1 = n)) with
  | none => rw [hf] at h; cases h
  | some p =>
    rw [hf] at h
    simp only [Option.map_some, Option.some.injEq] at h
    have hp := List.mem_of_find?_eq_some hf
    have hs := ms_names_shape p hp
    unfold nameShapeOK at hs
    cases ha : asc p.2 with
    | nil => rw [ha] at hs; cases hs
    | cons c t => rw [ha] at hs h; exact ⟨c, t, h.symm, of_decide_eq_true hs⟩

/-! ### `str::parse::<u32>` -/

theorem foldl_dec_ge (ds : List Nat) (acc : Nat) : acc ≤ ds.foldl (fun a d => a * 10 + (d - 48)) acc := by
  induction ds generalizing acc with
  | nil => exact Nat.le_refl _
  | cons d ds ih =>
    simp only [List.foldl_cons]
    exact Nat.le_trans (by omega) (ih _)

theorem parseDigits_eq_some (ds : List Nat) : ∀ (acc v : Nat), acc < 4294967296 →
    (parseDigits ds acc = some v ↔
      (∀ c ∈ ds, 48 ≤ c ∧ c ≤ 57) ∧ v = ds.foldl (fun a d => a * 10 + (d - 48)) acc ∧ v < 4294967296) := by
  induction ds with
  | nil =>
    intro acc v hacc
    simp only [parseDigits, Option.some.injEq, List.not_mem_nil, false_imp_iff, implies_true, List.foldl_nil, true_and]
    constructor
    · intro h; subst h; exact ⟨rfl, hacc⟩
    · intro h; exact h.1.symm
  | cons c rest ih =>
    intro acc v hacc
    unfold parseDigits
    by_cases hc : 48 ≤ c ∧ c ≤ 57
    · rw [if_pos hc]
      dsimp only
      by_cases hv : acc * 10 + (c - 48) < 4294967296
      · rw [if_pos hv, ih _ _ hv]
        simp only [List.mem_cons, forall_eq_or_imp, List.foldl_cons]
        constructor
        · rintro ⟨h1, h2, h3⟩; exact ⟨⟨hc, h1⟩, h2, h3⟩
        · rintro ⟨⟨_, h1⟩, h2, h3⟩; exact ⟨h1, h2, h3⟩
      · rw [if_neg hv]
        simp only [List.mem_cons, forall_eq_or_imp, List.foldl_cons]
        constructor
        · intro h; cases h
        · rintro ⟨_, h2, h3⟩
          have := foldl_dec_ge rest (acc * 10 + (c - 48))
          omega
    · rw [if_neg hc]
      simp only [List.mem_cons, forall_eq_or_imp]
      constructor
      · intro h; cases h
      · rintro ⟨⟨h1, _⟩, _⟩; exact absurd h1 hc

/-- after a first digit `1`‥`9` the sign handling of `parse` is irrelevant -/
theorem parseU32_digit (d : Nat) (ds : List Nat) (hd : 49 ≤ d ∧ d ≤ 57) : parseU32 (d :: ds) = parseDigits (d :: ds) 0 := by
  cases ds with
  | nil =>
    show (if d = 43 ∨ d = 45 then none else parseDigits [d] 0) = _
    rw [if_neg (by omega)]
  | cons x xs =>
    show (if d = 43 then parseDigits (x :: xs) 0 else parseDigits (d :: x :: xs) 0) = _
    rw [if_neg (by omega)]

/-! ### `eq_string` on ids -/

theorem isIdString_iff (n d : Nat) (ds : List Nat) :
    isIdString n (35 :: d :: ds) = true ↔ (49 ≤ d ∧ d ≤ 57) ∧ (∀ c ∈ ds, 48 ≤ c ∧ c ≤ 57) ∧ decVal (d :: ds) = n := by
  simp only [isIdString, Bool.decide_and, Bool.and_eq_true, decide_eq_true_eq, List.all_eq_true]
  constructor
  · rintro ⟨h1, h2, h3, h4⟩; exact ⟨⟨h1, h2⟩, h3, h4⟩
  · rintro ⟨⟨h1, h2⟩, h3, h4⟩; exact ⟨h1, h2, h3, h4⟩

theorem isIdString_head {n : Nat} {s : List Nat} (h : isIdString n s = true) : ∃ d ds, s = 35 :: d :: ds := by
  unfold isIdString at h
  split at h
  · exact ⟨_, _, rfl⟩
  · cases h

theorem eqString_id (n : Nat) (s : List Nat) (hn : n < 4294967296) :
    (Name.id n).eqString s = (isIdString n s || typeString n == some s) := by
  -- both sides are false unless `s = '#' :: d :: ds`
  have hfalse : (∀ d ds, s ≠ 35 :: d :: ds) → (isIdString n s || typeString n == some s) = false := by
    intro hs
    rw [Bool.or_eq_false_iff]
    constructor
    · cases hi : isIdString n s with
      | false => rfl
      | true => obtain ⟨d, ds, h⟩ := isIdString_head hi; exact absurd h (hs d ds)
    · cases ht : typeString n with
      | none => rfl
      | some t =>
        obtain ⟨c, u, h, _⟩ := typeString_shape ht
        simp only [beq_eq_false_iff_ne, ne_eq, Option.some.injEq]
        intro he
        exact hs c u (by rw [← he, h])
  unfold Name.eqString
  dsimp only
  match s with
  | [] => rw [if_pos (by simp), hfalse (by intro d ds h; cases h)]
  | [a] => rw [if_pos (by simp), hfalse (by intro d ds h; cases h)]
  | a :: d :: ds =>
    by_cases ha : a = 35
    · subst ha
      rw [if_neg (by simp)]
      simp only [List.getD_cons_succ, List.getD_cons_zero, List.drop_succ_cons, List.drop_zero]
      by_cases hd : d > 48 ∧ d ≤ 57
      · rw [if_pos hd, parseU32_digit d ds (by omega)]
        have hts : (typeString n == some (35 :: d :: ds)) = false := by
          cases ht : typeString n with
          | none => rfl
          | some t =>
            obtain ⟨c, u, h, h1, h2⟩ := typeString_shape ht
            simp only [beq_eq_false_iff_ne, ne_eq, Option.some.injEq]
            intro he
            rw [h] at he
            simp only [List.cons.injEq, true_and] at he
            omega
        rw [hts, Bool.or_false]
        have key := parseDigits_eq_some (d :: ds) 0
        cases hp : parseDigits (d :: ds) 0 with
        | none =>
          dsimp only
          symm
          rw [Bool.eq_false_iff]
          intro hi
          obtain ⟨h1, h2, h3⟩ := (isIdString_iff n d ds).1 hi
          have := (key n (by omega)).2 ⟨by
            intro c hc
            rcases List.mem_cons.1 hc with rfl | hc
            · omega
            · exact h2 c hc, by rw [← h3]; rfl, hn⟩
          rw [hp] at this; cases this
        | some v =>
          dsimp only
          obtain ⟨k1, k2, k3⟩ := (key v (by omega)).1 hp
          by_cases hnv : n = v
          · subst hnv
            rw [decide_eq_true rfl]
            symm
            rw [isIdString_iff]
            exact ⟨by omega, fun c hc => k1 c (by simp [hc]), by rw [k2]; rfl⟩
          · rw [decide_eq_false hnv]
            symm
            rw [Bool.eq_false_iff]
            intro hi
            obtain ⟨_, _, h3⟩ := (isIdString_iff n d ds).1 hi
            apply hnv
            rw [← h3, k2]; rfl
      · rw [if_neg hd, typeName_eq]
        have hid : isIdString n (35 :: d :: ds) = false := by
          rw [Bool.eq_false_iff]
          intro hi
          obtain ⟨h1, _, _⟩ := (isIdString_iff n d ds).1 hi
          omega
        rw [hid, Bool.false_or]
        cases ht : typeString n with
        | none => rfl
        | some t =>
          dsimp only
          by_cases he : 35 :: d :: ds = t
          · subst he; simp
          · rw [decide_eq_false he]
            symm
            simp only [beq_eq_false_iff_ne, ne_eq, Option.some.injEq]
            intro h; exact he h.symm
    · rw [if_pos (by simp [ha]), hfalse (by intro d' ds' h; simp only [List.cons.injEq] at h; exact ha h.1)]

end Pelite.Resources

namespace Pelite.Resources
open Pelite

/-! ### UTF-8 / UTF-16 -/

def AllScalar (cs : List Nat) : Prop := ∀ c ∈ cs, IsScalar c

theorem allScalar_cons {c : Nat} {cs : List Nat} (h1 : IsScalar c) (h2 : AllScalar cs) : AllScalar (c :: cs) := by
  intro x hx
  rcases List.mem_cons.1 hx with rfl | hx
  · exact h1
  · exact h2 x hx

theorem map_cons_scalar {c : Nat} {o : Option (List Nat)} (hc : IsScalar c) (ih : ∀ cs, o = some cs → AllScalar cs) :
    ∀ cs, Option.map (fun x => c :: x) o = some cs → AllScalar cs := by
  intro cs h
  cases o with
  | none => cases h
  | some cs' => cases h; exact allScalar_cons hc (ih cs' rfl)

theorem utf8Chars_scalar (s : List Nat) : ∀ cs, utf8Chars s = some cs → AllScalar cs := by
  fun_induction utf8Chars s
  case case1 => intro cs h; cases h; intro x hx; cases hx
  case case2 => rename_i b0 rest h ih; exact map_cons_scalar (Or.inl (by omega)) ih
  case case3 =>
    rename_i b0 h1 h2 b1 rest1 h3 ih
    simp only [isCont, decide_eq_true_eq] at h3
    exact map_cons_scalar (Or.inl (by omega)) ih
  case case6 =>
    rename_i b0 h1 h2 h3 b1 b2 rest2 lo hi h4 ih
    simp only [isCont, decide_eq_true_eq, lo, hi] at h4
    refine map_cons_scalar ?_ ih
    unfold IsScalar
    by_cases e0 : b0 = 224
    · simp [e0] at h4; omega
    · by_cases e1 : b0 = 237
      · simp [e1] at h4; omega
      · simp [e0, e1] at h4; omega
  case case9 =>
    rename_i b0 h1 h2 h3 h4 b1 b2 b3 rest3 lo hi h5 ih
    simp only [isCont, decide_eq_true_eq, lo, hi] at h5
    refine map_cons_scalar ?_ ih
    unfold IsScalar
    by_cases e0 : b0 = 240
    · simp [e0] at h5; omega
    · by_cases e1 : b0 = 244
      · simp [e1] at h5; omega
      · simp [e0, e1] at h5; omega
  all_goals (intro cs h; cases h)

theorem decodeUtf16_bmp (u : Nat) (rest : List Nat) (h : u < 0xD800 ∨ 0xE000 ≤ u) :
    decodeUtf16 (u :: rest) = .ok u :: decodeUtf16 rest := by
  cases rest with
  | nil => simp only [decodeUtf16]; rw [if_pos h]
  | cons u2 r => simp only [decodeUtf16]; rw [if_pos h]

theorem decodeUtf16_pair (u u2 : Nat) (rest : List Nat) (h1 : 0xD800 ≤ u ∧ u < 0xDC00) (h2 : 0xDC00 ≤ u2 ∧ u2 ≤ 0xDFFF) :
    decodeUtf16 (u :: u2 :: rest) = .ok ((u % 0x400) * 0x400 + u2 % 0x400 + 0x10000) :: decodeUtf16 rest := by
  simp only [decodeUtf16]
  rw [if_neg (by omega), if_neg (by omega), if_neg (by omega)]

/-- a surrogate that does not start a valid pair decodes to an error item -/
theorem decodeUtf16_bad (u : Nat) (rest : List Nat) (h0 : ¬ (u < 0xD800 ∨ 0xE000 ≤ u))
    (h : 0xDC00 ≤ u ∨ rest = [] ∨ ∃ u2 r, rest = u2 :: r ∧ (u2 < 0xDC00 ∨ 0xDFFF < u2)) :
    ∃ tl, decodeUtf16 (u :: rest) = .bad u :: tl := by
  cases rest with
  | nil => exact ⟨[], by simp only [decodeUtf16]; rw [if_neg h0]⟩
  | cons u2 r =>
    simp only [decodeUtf16]
    rw [if_neg h0]
    by_cases c1 : 0xDC00 ≤ u
    · rw [if_pos c1]; exact ⟨_, rfl⟩
    · rw [if_neg c1]
      rcases h with h | h | ⟨a, b, h, h'⟩
      · exact absurd h c1
      · cases h
      · cases h
        rw [if_pos h']; exact ⟨_, rfl⟩

theorem decode_encode : ∀ (cs : List Nat), AllScalar cs → decodeUtf16 (utf16Encode cs) = cs.map .ok
  | [], _ => rfl
  | c :: cs, h => by
    have hc : IsScalar c := h c (by simp)
    have ih := decode_encode cs (fun x hx => h x (by simp [hx]))
    unfold IsScalar at hc
    unfold utf16Encode
    by_cases hlt : c < 0x10000
    · rw [if_pos hlt, decodeUtf16_bmp c _ (by omega), ih]; rfl
    · rw [if_neg hlt, decodeUtf16_pair _ _ _ (by omega) (by omega), ih]
      simp only [List.map_cons, List.cons.injEq, U16Item.ok.injEq, and_true]
      omega

theorem decode_eq_map_ok : ∀ (n : Nat) (ws cs : List Nat), ws.length ≤ n → (∀ w ∈ ws, w < 65536) →
    decodeUtf16 ws = cs.map .ok → ws = utf16Encode cs := by
  intro n
  induction n with
  | zero =>
    intro ws cs hl _ h
    cases ws with
    | nil => cases cs with
      | nil => rfl
      | cons c cs => simp [decodeUtf16] at h
    | cons w ws => simp at hl
  | succ n ih =>
    intro ws cs hl hw h
    cases ws with
    | nil => cases cs with
      | nil => rfl
      | cons c cs => simp [decodeUtf16] at h
    | cons u rest =>
      have hu : u < 65536 := hw u (by simp)
      by_cases h0 : u < 0xD800 ∨ 0xE000 ≤ u
      · rw [decodeUtf16_bmp u rest h0] at h
        cases cs with
        | nil => simp at h
        | cons c cs =>
          simp only [List.map_cons, List.cons.injEq, U16Item.ok.injEq] at h
          obtain ⟨rfl, h⟩ := h
          have := ih rest cs (by simp at hl; omega) (fun w hw' => hw w (by simp [hw'])) h
          unfold utf16Encode
          rw [if_pos hu, ← this]
      · -- a surrogate
        by_cases hpair : u < 0xDC00 ∧ ∃ u2 r, rest = u2 :: r ∧ 0xDC00 ≤ u2 ∧ u2 ≤ 0xDFFF
        · obtain ⟨hlt, u2, r, rfl, h2⟩ := hpair
          rw [decodeUtf16_pair u u2 r (by omega) h2] at h
          cases cs with
          | nil => simp at h
          | cons c cs =>
            simp only [List.map_cons, List.cons.injEq, U16Item.ok.injEq] at h
            obtain ⟨hc, h⟩ := h
            have := ih r cs (by simp at hl; omega) (fun w hw' => hw w (by simp [hw'])) h
            unfold utf16Encode
            rw [if_neg (by omega), ← this]
            simp only [List.cons.injEq, and_true]
            omega
        · have hbad : 0xDC00 ≤ u ∨ rest = [] ∨ ∃ u2 r, rest = u2 :: r ∧ (u2 < 0xDC00 ∨ 0xDFFF < u2) := by
            by_cases c1 : 0xDC00 ≤ u
            · exact Or.inl c1
            · cases rest with
              | nil => exact Or.inr (Or.inl rfl)
              | cons u2 r =>
                refine Or.inr (Or.inr ⟨u2, r, rfl, ?_⟩)
                by_cases c2 : u2 < 0xDC00 ∨ 0xDFFF < u2
                · exact c2
                · exact absurd ⟨by omega, u2, r, rfl, by omega, by omega⟩ hpair
          obtain ⟨tl, hd⟩ := decodeUtf16_bad u rest h0 hbad
          rw [hd] at h
          cases cs with
          | nil => simp at h
          | cons c cs => simp at h

/-- the comparison `decode_utf16(words).eq(chars.map(Ok))` is equality with the UTF-16 encoding -/
theorem decode_eq_iff (ws cs : List Nat) (hw : ∀ w ∈ ws, w < 65536) (hc : AllScalar cs) :
    decodeUtf16 ws = cs.map .ok ↔ ws = utf16Encode cs := by
  constructor
  · exact decode_eq_map_ok ws.length ws cs (Nat.le_refl _) hw
  · intro h; rw [h]; exact decode_encode cs hc

theorem strChars_scalar (s : List Nat) : AllScalar (strChars s) := by
  unfold strChars
  cases h : utf8Chars s with
  | none => intro x hx; cases hx
  | some cs => exact utf8Chars_scalar s cs h

/-! ### `Name::eq` against the documented rules -/

def RName.InRange : RName → Prop
  | .id n => n < 4294967296
  | .wide ws => ∀ w ∈ ws, w < 65536

/-- the comparison the lookups make (`de.name() == Ok(name)`) decides exactly `nameMatch` -/
theorem eq_eq_nameMatch (nm : RName) (q : Name) (h : nm.InRange) : nm.toName.eq q = nameMatch nm q := by
  cases nm with
  | id n =>
    cases q with
    | id m => rfl
    | wide ws => rfl
    | str s =>
      show (Name.id n).eqString s = _
      rw [eqString_id n s h]; rfl
  | wide ws =>
    cases q with
    | id m => rfl
    | wide vs => rfl
    | str s =>
      show (Name.wide ws).eqString s = _
      unfold Name.eqString nameMatch
      dsimp only
      have := decode_eq_iff ws (strChars s) h (strChars_scalar s)
      by_cases hd : decodeUtf16 ws = (strChars s).map .ok
      · rw [decide_eq_true hd, decide_eq_true (this.1 hd)]
      · rw [decide_eq_false hd, decide_eq_false (fun he => hd (this.2 he))]

end Pelite.Resources
