import PeliteModel.Lemmas.ResGroup
/-!
Helper lemmas for C12, `GroupResource::write` into a sink that accepts fewer bytes than offered
(`Group.writeChunked`): because every piece is handed over with `write_all`, a sink that accepts at
least one byte per call receives exactly what a `Vec<u8>` receives.
-/
namespace Pelite.Resources
open Pelite

/-- `write_all` into a sink that accepts `n ≥ 1` bytes per call delivers the whole buffer -/
theorem writeAllChunked_complete {n : Nat} (hn : 0 < n) :
    ∀ (fuel : Nat) (sink buf : List UInt8), buf.length ≤ fuel →
      writeAllChunked n fuel sink buf = .ok ⟨sink ++ buf, false⟩ := by
  intro fuel
  induction fuel with
  | zero =>
    intro sink buf h
    cases buf with
    | nil => simp [writeAllChunked]
    | cons b bs => simp at h
  | succ fuel ih =>
    intro sink buf h
    cases buf with
    | nil => simp [writeAllChunked]
    | cons b bs =>
      unfold writeAllChunked
      rw [if_neg (by omega)]
      rw [ih _ _ (by simp only [List.length_drop, List.length_cons] at h ⊢; omega)]
      rw [List.append_assoc, List.take_append_drop]

/-- a sink that accepts nothing makes `write_all` of a non-empty buffer fail (`WriteZero`) -/
theorem writeAllChunked_zero (fuel : Nat) (sink : List UInt8) (b : UInt8) (bs : List UInt8) :
    writeAllChunked 0 (fuel + 1) sink (b :: bs) = .ok ⟨sink, true⟩ := by
  simp [writeAllChunked]

theorem feedCalls_complete {n : Nat} (hn : 0 < n) :
    ∀ (calls : List (List UInt8)) (sink : List UInt8), feedCalls n calls sink = .ok ⟨sink ++ calls.flatten, false⟩
  | [], sink => by simp [feedCalls]
  | buf :: rest, sink => by
    unfold feedCalls
    rw [writeAllChunked_complete hn _ _ _ (Nat.le_refl _)]
    dsimp only
    rw [if_neg (by decide), feedCalls_complete hn rest]
    simp [List.append_assoc]

theorem writeEntryCalls_flatten (r : Resources) :
    ∀ (es : List GroupEntry) (off : Nat), (writeEntryCalls r es off).flatten = writeEntries r es off
  | [], _ => rfl
  | e :: rest, off => by
    simp only [writeEntryCalls, writeEntries, List.flatten_cons, writeEntryCalls_flatten r rest, List.append_assoc]

/-- `f` applied to a Rust value, everything else unchanged -/
def mapOut {α β : Type} (f : α → β) : Out α → Out β
  | .ok a => .ok (f a)
  | .err e => .err e
  | .panic s => .panic s
  | .ub s => .ub s
  | .diverge => .diverge

theorem writeImageCalls_flatten (r : Resources) (g : Group) :
    ∀ es : List GroupEntry, mapOut List.flatten (writeImageCalls r g es) = writeImages r g es
  | [] => rfl
  | e :: rest => by
    have ih := writeImageCalls_flatten r g rest
    unfold writeImageCalls writeImages
    cases hi : g.image r e.nId with
    | ok res =>
      dsimp only
      cases hc : writeImageCalls r g rest with
      | ok more =>
        rw [hc] at ih
        rw [← ih]
        cases res with
        | ok b => simp [mapOut]
        | error err => simp [mapOut]
      | err x => rw [hc] at ih; rw [← ih]; rfl
      | panic x => rw [hc] at ih; rw [← ih]; rfl
      | ub x => rw [hc] at ih; rw [← ih]; rfl
      | diverge => rw [hc] at ih; rw [← ih]; rfl
    | err x => rfl
    | panic x => rfl
    | ub x => rfl
    | diverge => rfl

/-- the calls of `write`, concatenated, are what `write` puts into a vector -/
theorem writeCalls_flatten (r : Resources) (g : Group) : mapOut List.flatten (g.writeCalls r) = g.write r := by
  unfold Group.writeCalls Group.write
  cases he : g.entries r with
  | ok es =>
    dsimp only
    have := writeImageCalls_flatten r g es
    cases hc : writeImageCalls r g es with
    | ok images =>
      rw [hc] at this
      rw [← this]
      simp [mapOut, writeEntryCalls_flatten, List.append_assoc]
    | err x => rw [hc] at this; rw [← this]; rfl
    | panic x => rw [hc] at this; rw [← this]; rfl
    | ub x => rw [hc] at this; rw [← this]; rfl
    | diverge => rw [hc] at this; rw [← this]; rfl
  | err x => rfl
  | panic x => rfl
  | ub x => rfl
  | diverge => rfl

/-- `write` into a sink that accepts at least one byte per call: the sink receives exactly the bytes
a vector receives, and `write` returns `Ok(())` -/
theorem writeChunked_eq (r : Resources) (g : Group) {n : Nat} (hn : 0 < n) :
    g.writeChunked r n = mapOut (fun out => (⟨out, false⟩ : SinkState)) (g.write r) := by
  rw [← writeCalls_flatten]
  unfold Group.writeChunked
  cases g.writeCalls r with
  | ok calls => simp [mapOut, feedCalls_complete hn]
  | err x => rfl
  | panic x => rfl
  | ub x => rfl
  | diverge => rfl

end Pelite.Resources
