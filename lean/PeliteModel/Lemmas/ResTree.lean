import PeliteModel.Lemmas.Resources
/-!
Helper lemmas for C12, part 2: the model against the layout relation `IsNode`:
what a successful `name()` / `entry()` / `bytes()` says about the bytes, and the exact
characterisation of `fsck`.
-/
namespace Pelite.Resources
open Pelite

theorem wordsAt_length (b : Bytes) (off n : Nat) : (wordsAt b off n).length = n := by
  simp [wordsAt]

theorem bytesAt_length (b : Bytes) (off n : Nat) : (bytesAt b off n).length = n := by
  simp [bytesAt]

/-- the name the Name field `f` of an entry record denotes -/
def storedName (r : Resources) (f : Nat) : RName :=
  if f < 0x80000000 then .id f
  else .wide (wordsAt r.sec (f % 0x80000000 + 2) (le16 r.sec (f % 0x80000000)))

theorem getName_ok {r : Resources} (hb : Aligned r) {e : DirEntry} {nm : Name} (h : e.getName r = .ok nm) :
    NameAt r e.name (storedName r e.name) ∧ nm = (storedName r e.name).toName := by
  rw [getName_eq hb] at h
  unfold storedName
  by_cases c0 : e.name < 0x80000000
  · rw [if_pos c0] at h ⊢
    cases h
    exact ⟨⟨rfl, c0⟩, rfl⟩
  · rw [if_neg c0] at h ⊢
    by_cases c1 : (e.name % 0x80000000) % 2 ≠ 0
    · rw [if_pos c1] at h; cases h
    · rw [if_neg c1] at h
      by_cases c2 : e.name % 0x80000000 + 2 > r.sec.size
      · rw [if_pos c2] at h; cases h
      · rw [if_neg c2] at h
        by_cases c3 : e.name % 0x80000000 + 2 + le16 r.sec (e.name % 0x80000000) * 2 > r.sec.size
        · rw [if_pos c3] at h; cases h
        · rw [if_neg c3] at h
          cases h
          refine ⟨?_, rfl⟩
          unfold NameAt
          dsimp only
          rw [wordsAt_length]
          refine ⟨by omega, by omega, by omega, rfl, rfl⟩

theorem getName_of_nameAt {r : Resources} (hb : Aligned r) {e : DirEntry} {nm : RName} (h : NameAt r e.name nm) :
    e.getName r = .ok nm.toName := by
  rw [getName_eq hb]
  cases nm with
  | id n =>
    obtain ⟨h1, h2⟩ := h
    rw [if_pos (by omega), h1]; rfl
  | wide ws =>
    obtain ⟨h1, h2, h3, h4, h5⟩ := h
    rw [if_neg (by omega), if_neg (by omega), if_neg (by omega), if_neg (by omega), h4]
    show Out.ok (Name.wide _) = Out.ok (Name.wide ws)
    rw [← h5]

/-- `NameAt` determines the name -/
theorem nameAt_unique {r : Resources} {f : Nat} {a b : RName} (ha : NameAt r f a) (hb : NameAt r f b) : a = b := by
  cases a with
  | id n =>
    cases b with
    | id m => obtain ⟨h1, _⟩ := ha; obtain ⟨h2, _⟩ := hb; rw [← h1, ← h2]
    | wide ws => obtain ⟨h1, h1'⟩ := ha; obtain ⟨h2, _⟩ := hb; omega
  | wide ws =>
    cases b with
    | id m => obtain ⟨h1, _⟩ := ha; obtain ⟨h2, h2'⟩ := hb; omega
    | wide vs =>
      obtain ⟨_, _, _, h4, h5⟩ := ha
      obtain ⟨_, _, _, g4, g5⟩ := hb
      have : ws.length = vs.length := by omega
      rw [h5, g5, this]

/-! ### data entries -/

theorem data_ok {r : Resources} (hb : Aligned r) {off : Nat} {de : DataEntry} {ref : Ref}
    (h1 : dataTryFrom r off = .ok de) (h2 : de.bytes r = .ok ref) :
    IsNode r off (.data (bytesAt r.sec ref.off ref.len) de.codePage) ∧
    de = ⟨off, le32 r.sec off, le32 r.sec (off + 4), le32 r.sec (off + 8)⟩ ∧
    ref = ⟨le32 r.sec off - r.dirVA, le32 r.sec (off + 4), 1⟩ := by
  rw [dataTryFrom_eq hb] at h1
  by_cases c1 : off % 4 ≠ 0
  · rw [if_pos c1] at h1; cases h1
  · rw [if_neg c1] at h1
    by_cases c2 : off + 16 > r.sec.size
    · rw [if_pos c2] at h1; cases h1
    · rw [if_neg c2] at h1
      cases h1
      unfold DataEntry.bytes at h2
      dsimp only at h2
      by_cases d1 : le32 r.sec off < r.dirVA
      · rw [if_pos d1] at h2; cases h2
      · rw [if_neg d1] at h2
        by_cases d2 : le32 r.sec off - r.dirVA + le32 r.sec (off + 4) ≥ 4294967296
        · rw [if_pos d2] at h2; cases h2
        · rw [if_neg d2] at h2
          by_cases d3 : le32 r.sec off - r.dirVA + le32 r.sec (off + 4) > r.sec.size
          · rw [if_pos d3] at h2; cases h2
          · rw [if_neg d3] at h2
            cases h2
            refine ⟨?_, rfl, rfl⟩
            unfold IsNode
            refine ⟨by omega, by omega, by omega, by omega, by omega, rfl, rfl⟩

theorem data_of_isNode {r : Resources} (hb : Aligned r) {off : Nat} {c : List UInt8} {cp : Nat}
    (h : IsNode r off (.data c cp)) :
    dataTryFrom r off = .ok ⟨off, le32 r.sec off, le32 r.sec (off + 4), le32 r.sec (off + 8)⟩ ∧
    DataEntry.bytes r ⟨off, le32 r.sec off, le32 r.sec (off + 4), le32 r.sec (off + 8)⟩ =
      .ok ⟨le32 r.sec off - r.dirVA, le32 r.sec (off + 4), 1⟩ ∧
    c = bytesAt r.sec (le32 r.sec off - r.dirVA) (le32 r.sec (off + 4)) ∧ cp = le32 r.sec (off + 8) := by
  unfold IsNode at h
  obtain ⟨h1, h2, h3, h4, h5, h6, h7⟩ := h
  refine ⟨?_, ?_, h6, h7⟩
  · rw [dataTryFrom_eq hb, if_neg (by omega), if_neg (by omega)]
  · unfold DataEntry.bytes
    dsimp only
    rw [if_neg (by omega), if_neg (by omega), if_neg (by omega)]

/-! ### directories -/

theorem dir_of_isNode {r : Resources} (hb : Aligned r) {off n : Nat} {es : Entries}
    (h : IsNode r off (.dir n es)) :
    dirTryFrom r off = .ok ⟨off, n, es.length - n⟩ ∧ DirOK r ⟨off, n, es.length - n⟩ ∧ n ≤ es.length ∧
    IsEntries r (off + 16) es := by
  unfold IsNode at h
  obtain ⟨h1, h2, h3, h4, h5⟩ := h
  have h6 : le16 r.sec (off + 14) = es.length - n := by omega
  refine ⟨?_, ⟨h1, ?_, h3.symm, h6.symm⟩, by omega, h5⟩
  · rw [dirTryFrom_eq hb, if_neg (by omega), if_neg (by omega), if_neg (by omega), h3, h6]
  · show off + 16 + 8 * (n + (es.length - n)) ≤ r.sec.size
    omega

theorem isNode_of_dir {r : Resources} {d : Dir} (hd : DirOK r d) {es : Entries}
    (hl : es.length = d.named + d.ids) (he : IsEntries r (d.off + 16) es) : IsNode r d.off (.dir d.named es) := by
  obtain ⟨h1, h2, h3, h4⟩ := hd
  unfold IsNode
  exact ⟨h1, by omega, h3.symm, by omega, he⟩

end Pelite.Resources

namespace Pelite.Resources
open Pelite

theorem entry_data_ok {r : Resources} {e : DirEntry} {de : DataEntry} (h : e.entry r = .ok (.data de)) :
    e.offset < 0x80000000 ∧ dataTryFrom r e.offset = .ok de := by
  rw [entry_eq] at h
  by_cases hge : e.offset ≥ 0x80000000
  · rw [if_pos hge] at h
    cases hd : dirTryFrom r (e.offset % 0x80000000) <;> rw [hd] at h <;> cases h
  · rw [if_neg hge] at h
    cases hd : dataTryFrom r e.offset with
    | ok d' => rw [hd] at h; cases h; exact ⟨by omega, rfl⟩
    | _ => rw [hd] at h; cases h

theorem entry_of_dir {r : Resources} {e : DirEntry} {d : Dir} (h1 : e.offset ≥ 0x80000000)
    (h2 : dirTryFrom r (e.offset % 0x80000000) = .ok d) : e.entry r = .ok (.dir d) := by
  rw [entry_eq, if_pos h1, h2]

theorem entry_of_data {r : Resources} {e : DirEntry} {d : DataEntry} (h1 : e.offset < 0x80000000)
    (h2 : dataTryFrom r e.offset = .ok d) : e.entry r = .ok (.data d) := by
  rw [entry_eq, if_neg (by omega), h2]

theorem dataFsck_ok {r : Resources} {de : DataEntry} {u : Unit} (h : de.fsck r = .ok u) : ∃ ref, de.bytes r = .ok ref := by
  unfold DataEntry.fsck at h
  cases hb : de.bytes r with
  | ok ref => exact ⟨ref, rfl⟩
  | _ => rw [hb] at h; cases h

theorem dataFsck_of_bytes {r : Resources} {de : DataEntry} {ref : Ref} (h : de.bytes r = .ok ref) : de.fsck r = .ok () := by
  unfold DataEntry.fsck; rw [h]

/-! ### fsck: soundness -/

/-- what a successful `Directory::fsck_` with `k` levels to go establishes -/
def FsckSound (r : Resources) (k : Nat) : Prop :=
  ∀ d b b', DirOK r d → fsckDir r k d b = .ok b' →
    ∃ es : Entries, es.length = d.named + d.ids ∧ IsEntries r (d.off + 16) es ∧ es.depth + 1 ≤ k ∧ es.dirCount + 1 + b' = b

theorem fsckEntries_sound {r : Resources} (hb : Aligned r) {k : Nat} (hk : FsckSound r k) :
    ∀ (n pos b b' : Nat), fsckEntries (fsckDir r k) r (entriesFrom r pos n) b = .ok b' →
      ∃ es : Entries, es.length = n ∧ IsEntries r pos es ∧ es.depth + 1 ≤ k + 1 ∧ es.dirCount + b' = b := by
  intro n
  induction n with
  | zero =>
    intro pos b b' h
    simp only [entriesFrom, fsckEntries] at h
    cases h
    exact ⟨.nil, rfl, by simp [IsEntries], by simp [Entries.depth], by simp [Entries.dirCount]⟩
  | succ n ih =>
    intro pos b b' h
    rw [show entriesFrom r pos (n + 1) = entryAt r pos :: entriesFrom r (pos + 8) n from rfl] at h
    unfold fsckEntries at h
    cases hn : (entryAt r pos).getName r with
    | ok nm =>
      rw [hn] at h; dsimp only at h
      obtain ⟨hname, _⟩ := getName_ok hb hn
      cases he : (entryAt r pos).entry r with
      | ok en =>
        rw [he] at h
        cases en with
        | dir d =>
          dsimp only at h
          obtain ⟨hd, hge, hoff⟩ := entry_dir_ok hb he
          cases hr : fsckDir r k d b with
          | ok b1 =>
            rw [hr] at h; dsimp only at h
            obtain ⟨ces, hcl, hce, hcd, hcc⟩ := hk d b b1 hd hr
            obtain ⟨res, hrl, hre, hrd, hrc⟩ := ih (pos + 8) b1 b' h
            refine ⟨.cons (storedName r (entryAt r pos).name) (.dir d.named ces) res, ?_, ?_, ?_, ?_⟩
            · simp [Entries.length, hrl]
            · unfold IsEntries
              refine ⟨hname, ?_, ?_, hre⟩
              · simp only [Node.isDir, iff_true]; exact hge
              · have := isNode_of_dir hd hcl hce
                rw [hoff] at this
                exact this
            · simp only [Entries.depth, Node.depth]; omega
            · simp only [Entries.dirCount, Node.dirCount]; omega
          | _ => rw [hr] at h; cases h
        | data de =>
          dsimp only at h
          obtain ⟨hlt, hdt⟩ := entry_data_ok he
          cases hf : de.fsck r with
          | ok u =>
            rw [hf] at h; dsimp only at h
            obtain ⟨ref, hbytes⟩ := dataFsck_ok hf
            obtain ⟨hnode, _, _⟩ := data_ok hb hdt hbytes
            obtain ⟨res, hrl, hre, hrd, hrc⟩ := ih (pos + 8) b b' h
            refine ⟨.cons (storedName r (entryAt r pos).name) (.data (bytesAt r.sec ref.off ref.len) de.codePage) res, ?_, ?_, ?_, ?_⟩
            · simp [Entries.length, hrl]
            · unfold IsEntries
              refine ⟨hname, ?_, ?_, hre⟩
              · simp only [Node.isDir]
                constructor
                · intro hh; exact absurd hh (by show ¬ 0x80000000 ≤ (entryAt r pos).offset; omega)
                · intro hh; cases hh
              · rw [show le32 r.sec (pos + 4) = (entryAt r pos).offset from rfl, Nat.mod_eq_of_lt hlt]
                exact hnode
            · simp only [Entries.depth, Node.depth]; omega
            · simp only [Entries.dirCount, Node.dirCount]; omega
          | _ => rw [hf] at h; cases h
      | _ => rw [he] at h; cases h
    | _ => rw [hn] at h; cases h

theorem fsckSound {r : Resources} (hb : Aligned r) : ∀ k, FsckSound r k := by
  intro k
  induction k with
  | zero => intro d b b' _ h; simp [fsckDir] at h
  | succ k ih =>
    intro d b b' hd h
    unfold fsckDir at h
    by_cases hb0 : b = 0
    · rw [if_pos hb0] at h; cases h
    · rw [if_neg hb0, entries_eq hb hd] at h
      dsimp only at h
      obtain ⟨es, h1, h2, h3, h4⟩ := fsckEntries_sound hb ih _ _ _ _ h
      exact ⟨es, h1, h2, by omega, by omega⟩

/-! ### fsck: completeness -/

/-- `fsck_` accepts every directory that represents a tree which is not too deep and fits the budget -/
def FsckComplete (r : Resources) (k : Nat) : Prop :=
  ∀ off n (es : Entries) b, IsNode r off (.dir n es) → es.depth + 1 ≤ k → es.dirCount + 1 ≤ b →
    fsckDir r k ⟨off, n, es.length - n⟩ b = .ok (b - (es.dirCount + 1))

theorem fsckEntries_complete {r : Resources} (hb : Aligned r) {k : Nat} (hk : FsckComplete r k) :
    ∀ (es : Entries) (pos b : Nat), IsEntries r pos es → es.depth + 1 ≤ k + 1 → es.dirCount ≤ b →
      fsckEntries (fsckDir r k) r (entriesFrom r pos es.length) b = .ok (b - es.dirCount)
  | .nil, pos, b, _, _, _ => by simp [Entries.length, entriesFrom, fsckEntries, Entries.dirCount]
  | .cons nm ch rest, pos, b, h, hdep, hcnt => by
    have ih := fsckEntries_complete hb hk rest
    unfold IsEntries at h
    obtain ⟨hname, hkind, hnode, hrest⟩ := h
    rw [show (Entries.cons nm ch rest).length = rest.length + 1 from rfl,
      show entriesFrom r pos (rest.length + 1) = entryAt r pos :: entriesFrom r (pos + 8) rest.length from rfl]
    unfold fsckEntries
    rw [getName_of_nameAt hb (e := entryAt r pos) hname]
    dsimp only
    simp only [Entries.depth, Entries.dirCount] at hdep hcnt
    cases ch with
    | dir n ces =>
      have hge : (entryAt r pos).offset ≥ 0x80000000 := hkind.2 rfl
      obtain ⟨h1, _, _, _⟩ := dir_of_isNode hb hnode
      rw [entry_of_dir hge h1]
      dsimp only
      simp only [Node.depth, Node.dirCount] at hdep hcnt
      rw [hk _ n ces b hnode (by omega) (by omega)]
      dsimp only
      rw [ih (pos + 8) _ hrest (by omega) (by omega)]
      simp only [Entries.dirCount, Node.dirCount]
      congr 1; omega
    | data c cp =>
      have hlt : (entryAt r pos).offset < 0x80000000 := by
        have := hkind.1
        simp only [Node.isDir] at this
        show le32 r.sec (pos + 4) < 0x80000000
        by_cases hc : 0x80000000 ≤ le32 r.sec (pos + 4)
        · exact absurd (this hc) (by decide)
        · omega
      rw [show le32 r.sec (pos + 4) = (entryAt r pos).offset from rfl, Nat.mod_eq_of_lt hlt] at hnode
      obtain ⟨h1, h2, _, _⟩ := data_of_isNode hb hnode
      rw [entry_of_data hlt h1]
      dsimp only
      rw [dataFsck_of_bytes h2]
      dsimp only
      simp only [Node.depth, Node.dirCount] at hdep hcnt
      rw [ih (pos + 8) _ hrest (by omega) (by omega)]
      simp only [Entries.dirCount, Node.dirCount]
      congr 1; omega

theorem fsckComplete {r : Resources} (hb : Aligned r) : ∀ k, FsckComplete r k := by
  intro k
  induction k with
  | zero => intro off n es b _ h _; omega
  | succ k ih =>
    intro off n es b hnode hdep hcnt
    obtain ⟨_, hd, hle, hents⟩ := dir_of_isNode hb hnode
    unfold fsckDir
    rw [if_neg (by omega), entries_eq hb hd]
    dsimp only
    rw [show n + (es.length - n) = es.length by omega]
    rw [fsckEntries_complete hb ih es _ _ hents (by omega) (by omega)]
    congr 1; omega

end Pelite.Resources

namespace Pelite.Resources
open Pelite

theorem unitOf_ok_iff {o : Out Nat} : unitOf o = .ok () ↔ ∃ b, o = .ok b := by
  cases o <;> simp [unitOf]

/-- exact characterisation of `Directory::fsck` -/
theorem dirFsck_ok_iff {r : Resources} (hb : Aligned r) {d : Dir} (hd : DirOK r d) :
    d.fsck r = .ok () ↔
      ∃ es : Entries, IsNode r d.off (.dir d.named es) ∧ es.length = d.named + d.ids ∧
        es.depth + 1 ≤ 32 ∧ es.dirCount + 1 ≤ r.sec.size / 16 := by
  unfold Dir.fsck
  rw [unitOf_ok_iff]
  constructor
  · rintro ⟨b', h⟩
    obtain ⟨es, h1, h2, h3, h4⟩ := fsckSound hb _ d _ b' hd h
    exact ⟨es, isNode_of_dir hd h1 h2, h1, h3, by unfold fsckBudget at h4; omega⟩
  · rintro ⟨es, h1, h2, h3, h4⟩
    have := fsckComplete hb FSCK_MAX_DEPTH d.off d.named es (fsckBudget r) h1 h3 h4
    have hd' : (⟨d.off, d.named, es.length - d.named⟩ : Dir) = d := by
      cases d with
      | mk o n i => simp only [Dir.mk.injEq, true_and]; simp only at h2; omega
    rw [hd'] at this
    exact ⟨_, this⟩

/-- exact characterisation of `Resources::fsck`: it succeeds iff the section represents a tree
whose directories nest at most 32 deep and number (with multiplicity) at most `len / 16` -/
theorem fsck_ok_iff {r : Resources} (hb : Aligned r) :
    fsck r = .ok () ↔ ∃ t : Node, IsTree r t ∧ t.depth ≤ 32 ∧ t.dirCount ≤ r.sec.size / 16 := by
  unfold fsck
  constructor
  · intro h
    cases hr : root r with
    | ok d =>
      rw [hr] at h; dsimp only at h
      obtain ⟨hd, hd2⟩ := dirTryFrom_ok hb hr
      have hoff : d.off = 0 := by rw [hd2]
      obtain ⟨es, h1, h2, h3, h4⟩ := (dirFsck_ok_iff hb hd).1 h
      rw [hoff] at h1
      exact ⟨.dir d.named es, ⟨rfl, h1⟩, by simp only [Node.depth]; omega, by simp only [Node.dirCount]; omega⟩
    | _ => rw [hr] at h; cases h
  · rintro ⟨t, ⟨hdir, hnode⟩, hdep, hcnt⟩
    cases t with
    | data c cp => cases hdir
    | dir n es =>
      obtain ⟨h1, hd, hle, _⟩ := dir_of_isNode hb hnode
      rw [show root r = dirTryFrom r 0 from rfl, h1]
      dsimp only
      rw [dirFsck_ok_iff hb hd]
      simp only [Node.depth, Node.dirCount] at hdep hcnt
      exact ⟨es, hnode, by show es.length = n + (es.length - n); omega, by omega, by omega⟩

end Pelite.Resources

namespace Pelite.Resources
open Pelite

/-! ### reachability in the stored graph -/

/-- the directory stored at offset `a` has an entry that designates a sub-directory at offset `b` -/
def SubDirAt (r : Resources) (a b : Nat) : Prop :=
  ∃ i, i < le16 r.sec (a + 12) + le16 r.sec (a + 14) ∧ b < 0x80000000 ∧
    le32 r.sec (a + 16 + 8 * i + 4) = 0x80000000 + b

/-- `b` is reached from `a` by following `n` sub-directory references -/
inductive Reach (r : Resources) : Nat → Nat → Nat → Prop
  | refl (a : Nat) : Reach r a 0 a
  | step {a n b c : Nat} : Reach r a n b → SubDirAt r b c → Reach r a (n + 1) c

/-- the `i`-th entry record of a represented entry list designates a represented child -/
theorem isEntries_get {r : Resources} : ∀ (es : Entries) (pos i : Nat), IsEntries r pos es → i < es.length →
    ∃ ch : Node, (0x80000000 ≤ le32 r.sec (pos + 8 * i + 4) ↔ ch.isDir = true) ∧
      IsNode r (le32 r.sec (pos + 8 * i + 4) % 0x80000000) ch ∧ ch.depth ≤ es.depth
  | .nil, _, _, _, hi => by simp [Entries.length] at hi
  | .cons nm ch rest, pos, i, h, hi => by
    unfold IsEntries at h
    obtain ⟨_, hkind, hnode, hrest⟩ := h
    cases i with
    | zero => exact ⟨ch, hkind, hnode, by simp only [Entries.depth]; omega⟩
    | succ i =>
      simp only [Entries.length] at hi
      obtain ⟨c, h1, h2, h3⟩ := isEntries_get rest (pos + 8) i hrest (by omega)
      have e : pos + 8 + 8 * i + 4 = pos + 8 * (i + 1) + 4 := by omega
      rw [e] at h1 h2
      exact ⟨c, h1, h2, by simp only [Entries.depth]; omega⟩

theorem subDir_isNode {r : Resources} {a b n : Nat} {es : Entries} (h : IsNode r a (.dir n es)) (hs : SubDirAt r a b) :
    ∃ n' es', IsNode r b (.dir n' es') ∧ es'.depth + 1 ≤ es.depth := by
  obtain ⟨i, hi, hb31, hf⟩ := hs
  unfold IsNode at h
  obtain ⟨_, _, h3, h4, h5⟩ := h
  obtain ⟨ch, h1, h2, hdep⟩ := isEntries_get es (a + 16) i h5 (by omega)
  rw [hf] at h1 h2
  have hmod : (0x80000000 + b) % 0x80000000 = b := by omega
  rw [hmod] at h2
  have hdir : ch.isDir = true := h1.1 (by omega)
  cases ch with
  | data c cp => cases hdir
  | dir n' es' => exact ⟨n', es', h2, by simp only [Node.depth] at hdep; omega⟩

theorem reach_isNode {r : Resources} {a n b : Nat} (hr : Reach r a n b) :
    ∀ {m : Nat} {es : Entries}, IsNode r a (.dir m es) →
      ∃ m' es', IsNode r b (.dir m' es') ∧ es'.depth + n ≤ es.depth := by
  induction hr with
  | refl => intro m es h; exact ⟨m, es, h, by omega⟩
  | step _ hs ih =>
    intro m es h
    obtain ⟨m1, es1, h1, d1⟩ := ih h
    obtain ⟨m2, es2, h2, d2⟩ := subDir_isNode h1 hs
    exact ⟨m2, es2, h2, by omega⟩

/-- no directory that represents a (finite) tree contains itself -/
theorem no_self_reach {r : Resources} {a n : Nat} (hr : Reach r a (n + 1) a) :
    ∀ (d m : Nat) (es : Entries), es.depth ≤ d → ¬ IsNode r a (.dir m es) := by
  intro d
  induction d with
  | zero =>
    intro m es hd h
    obtain ⟨_, es', _, h2⟩ := reach_isNode hr h
    omega
  | succ d ih =>
    intro m es hd h
    obtain ⟨m', es', h1, h2⟩ := reach_isNode hr h
    exact ih m' es' (by omega) h1

end Pelite.Resources

namespace Pelite.Resources
open Pelite

/-! ### full traversal of a represented tree -/

theorem toName_toRName (nm : RName) : nm.toName.toRName = nm := by cases nm <;> rfl

/-- the traversal of a directory that represents `es` reports `es`, given enough depth -/
def ReadComplete (r : Resources) (k : Nat) : Prop :=
  ∀ off n (es : Entries), IsNode r off (.dir n es) → es.depth + 1 ≤ k →
    readDir r k ⟨off, n, es.length - n⟩ = .ok (.dir n es)

theorem readEntries_complete {r : Resources} (hb : Aligned r) {k : Nat} (hk : ReadComplete r k) :
    ∀ (es : Entries) (pos : Nat), IsEntries r pos es → es.depth + 1 ≤ k + 1 →
      readEntries (readDir r k) r (entriesFrom r pos es.length) = .ok es
  | .nil, pos, _, _ => by simp [Entries.length, entriesFrom, readEntries]
  | .cons nm ch rest, pos, h, hdep => by
    have ih := readEntries_complete hb hk rest
    unfold IsEntries at h
    obtain ⟨hname, hkind, hnode, hrest⟩ := h
    rw [show (Entries.cons nm ch rest).length = rest.length + 1 from rfl,
      show entriesFrom r pos (rest.length + 1) = entryAt r pos :: entriesFrom r (pos + 8) rest.length from rfl]
    unfold readEntries
    rw [getName_of_nameAt hb (e := entryAt r pos) hname]
    dsimp only
    simp only [Entries.depth] at hdep
    cases ch with
    | dir n ces =>
      have hge : (entryAt r pos).offset ≥ 0x80000000 := hkind.2 rfl
      obtain ⟨h1, _, _, _⟩ := dir_of_isNode hb hnode
      rw [entry_of_dir hge h1]
      dsimp only
      simp only [Node.depth] at hdep
      rw [hk _ n ces hnode (by omega)]
      dsimp only
      rw [ih (pos + 8) hrest (by omega), toName_toRName]
    | data c cp =>
      have hlt : (entryAt r pos).offset < 0x80000000 := by
        have := hkind.1
        simp only [Node.isDir] at this
        show le32 r.sec (pos + 4) < 0x80000000
        by_cases hc : 0x80000000 ≤ le32 r.sec (pos + 4)
        · exact absurd (this hc) (by decide)
        · omega
      rw [show le32 r.sec (pos + 4) = (entryAt r pos).offset from rfl, Nat.mod_eq_of_lt hlt] at hnode
      obtain ⟨h1, h2, h3, h4⟩ := data_of_isNode hb hnode
      rw [entry_of_data hlt h1]
      dsimp only
      rw [h2]
      dsimp only
      simp only [Node.depth] at hdep
      rw [ih (pos + 8) hrest (by omega), toName_toRName]
      simp only [DataEntry.codePageOf]
      rw [← h3, ← h4]

theorem readComplete {r : Resources} (hb : Aligned r) : ∀ k, ReadComplete r k := by
  intro k
  induction k with
  | zero => intro off n es _ h; omega
  | succ k ih =>
    intro off n es hnode hdep
    obtain ⟨_, hd, hle, hents⟩ := dir_of_isNode hb hnode
    unfold readDir
    rw [entries_eq hb hd]
    dsimp only
    rw [show n + (es.length - n) = es.length by omega]
    rw [readEntries_complete hb ih es _ hents (by omega)]

/-- traversing a section that represents `t` reports `t` -/
theorem readTree_of_isTree {r : Resources} (hb : Aligned r) {t : Node} (h : IsTree r t) {k : Nat} (hk : t.depth ≤ k) :
    readTree r k = .ok t := by
  obtain ⟨hdir, hnode⟩ := h
  cases t with
  | data c cp => cases hdir
  | dir n es =>
    obtain ⟨h1, _, _, _⟩ := dir_of_isNode hb hnode
    unfold readTree
    rw [show root r = dirTryFrom r 0 from rfl, h1]
    dsimp only
    simp only [Node.depth] at hk
    exact readComplete hb k 0 n es hnode hk

end Pelite.Resources
