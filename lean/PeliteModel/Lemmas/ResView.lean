import PeliteModel.Lemmas.Resources
/-!
Helper lemmas for C12, part 8: what `Pe::resources` hands to `Resources::new` — a section that
lies inside the image buffer and starts at a 4-aligned address.
-/
namespace Pelite.Resources
open Pelite Pelite.Pe

theorem rangeFile_bound (size : Nat) : ∀ (secs : List Sec) (rva min o l : Nat),
    rangeFile size secs rva min = .ok (o, l) → o + l ≤ size
  | [], _, _, _, _, h => by simp [rangeFile] at h
  | s :: rest, rva, min, o, l, h => by
    unfold rangeFile at h
    dsimp only at h
    by_cases c1 : s.va ≤ rva ∧ rva < wadd32 s.va (max s.vs s.rs)
    · rw [if_pos c1] at h
      by_cases c2 : s.prd ≤ wadd32 s.prd s.rs ∧ wadd32 s.prd s.rs ≤ size
      · rw [if_pos c2] at h
        by_cases c3 : rva - s.va < wadd32 s.prd s.rs - s.prd ∧ wadd32 s.prd s.rs - s.prd - (rva - s.va) ≥ min
        · rw [if_pos c3] at h
          simp only [Out.ok.injEq, Prod.mk.injEq] at h
          obtain ⟨rfl, rfl⟩ := h
          omega
        · rw [if_neg c3] at h
          split at h <;> cases h
      · rw [if_neg c2] at h; cases h
    · rw [if_neg c1] at h
      exact rangeFile_bound size rest rva min o l h

theorem alignedTo_true {site : String} {addr align : Nat} (h : alignedTo site addr align = .ok true) : addr % align = 0 := by
  unfold alignedTo at h
  split at h
  · simp only [Out.ok.injEq, decide_eq_true_eq] at h; exact h
  · cases h

theorem viewSlice_ok {v : View} {va min : Nat} {ref : Ref} (h : v.slice va min 4 = .ok ref) :
    (v.img.base + ref.off) % 4 = 0 ∧ ref.off + ref.len ≤ v.img.bytes.size := by
  unfold View.slice at h
  cases hk : v.kind with
  | file =>
    rw [hk] at h
    dsimp only at h
    unfold sliceFile at h
    by_cases c0 : va = 0
    · rw [if_pos c0] at h; cases h
    · rw [if_neg c0] at h
      cases ha : alignedTo "slice_file:aligned_to" (v.img.base + va) 4 with
      | ok b =>
        rw [ha] at h
        cases b with
        | false => cases h
        | true =>
          dsimp only at h
          cases hr : rangeFile v.img.bytes.size v.secs va min with
          | ok p =>
            obtain ⟨o, l⟩ := p
            rw [hr] at h
            dsimp only at h
            by_cases c1 : (v.img.base + o) % 4 = 0
            · rw [if_pos c1] at h
              cases h
              exact ⟨c1, rangeFile_bound _ _ _ _ _ _ hr⟩
            · rw [if_neg c1] at h; cases h
          | err e => rw [hr] at h; cases h
          | panic s => rw [hr] at h; cases h
          | ub s => rw [hr] at h; cases h
          | diverge => rw [hr] at h; cases h
      | err e => rw [ha] at h; cases h
      | panic s => rw [ha] at h; cases h
      | ub s => rw [ha] at h; cases h
      | diverge => rw [ha] at h; cases h
  | view =>
    rw [hk] at h
    dsimp only at h
    unfold sliceSection at h
    by_cases c0 : va = 0
    · rw [if_pos c0] at h; cases h
    · rw [if_neg c0] at h
      cases ha : alignedTo "slice_section:aligned_to" (v.img.base + va) 4 with
      | ok b =>
        rw [ha] at h
        cases b with
        | false => cases h
        | true =>
          dsimp only at h
          by_cases c1 : va ≤ v.img.bytes.size ∧ v.img.bytes.size - va ≥ min
          · rw [if_pos c1] at h
            cases h
            exact ⟨alignedTo_true ha, by show va + (v.img.bytes.size - va) ≤ v.img.bytes.size; omega⟩
          · rw [if_neg c1] at h; cases h
      | err e => rw [ha] at h; cases h
      | panic s => rw [ha] at h; cases h
      | ub s => rw [ha] at h; cases h
      | diverge => rw [ha] at h; cases h

/-- `Pe::resources` yields a 4-aligned section inside the image, clamped to the directory size -/
theorem ofView_ok {v : View} {r : Resources} {secOff : Nat} (h : ofView v = .ok (r, secOff)) :
    Aligned r ∧ secOff + r.sec.size ≤ v.img.bytes.size ∧ r.base = v.img.base + secOff ∧
    ∃ va size, v.dataDir 2 = some (va, size) ∧ r.dirVA = va ∧ r.sec.size ≤ size ∧
      r.sec = v.b.extract secOff (secOff + r.sec.size) := by
  unfold ofView at h
  cases hd : v.dataDir 2 with
  | none => rw [hd] at h; cases h
  | some p =>
    obtain ⟨va, size⟩ := p
    rw [hd] at h
    dsimp only at h
    cases hs : v.slice va 0 4 with
    | ok ref =>
      rw [hs] at h
      simp only [Out.ok.injEq, Prod.mk.injEq] at h
      obtain ⟨rfl, rfl⟩ := h
      obtain ⟨h1, h2⟩ := viewSlice_ok hs
      have hsz : (v.b.extract ref.off (ref.off + min size ref.len)).size = min size ref.len := by
        simp only [Array.size_extract]
        have : v.b.size = v.img.bytes.size := rfl
        omega
      refine ⟨h1, ?_, rfl, va, size, rfl, rfl, ?_, ?_⟩
      · show ref.off + (v.b.extract ref.off (ref.off + min size ref.len)).size ≤ v.img.bytes.size
        rw [hsz]; omega
      · show (v.b.extract ref.off (ref.off + min size ref.len)).size ≤ size
        rw [hsz]; omega
      · show v.b.extract ref.off (ref.off + min size ref.len) = v.b.extract ref.off (ref.off + (v.b.extract ref.off (ref.off + min size ref.len)).size)
        rw [hsz]
    | err e => rw [hs] at h; cases h
    | panic s => rw [hs] at h; cases h
    | ub s => rw [hs] at h; cases h
    | diverge => rw [hs] at h; cases h

end Pelite.Resources
