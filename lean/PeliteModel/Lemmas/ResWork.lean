import PeliteModel.Lemmas.ResGroup
/-!
Helper lemmas for C12, part 7 (C03): the work `fsck` and the tree printer do on arbitrary section
bytes.  Both visit at most `len / 16` directories (the budget), each with at most `len / 8` entries.
The printer's text is a list of per-entry records, so its length is the work.  For `fsck` an
instrumented twin counts the entries examined; it is proved to compute the same result.
-/
namespace Pelite.Resources
open Pelite

/-- a validated directory has at most `len / 8` entries -/
theorem dirOK_count {r : Resources} {d : Dir} (hd : DirOK r d) : d.named + d.ids ≤ r.sec.size / 8 := by
  have := hd.2.1
  omega

/-! ### the printer -/

theorem drawEntries_work {r : Resources} (hb : Aligned r) (rec : Dir → Nat → Nat → Out (List (List Nat) × Nat)) (M : Nat)
    (hrec : ∀ d m b t b', DirOK r d → rec d m b = .ok (t, b') → b' ≤ b ∧ t.length ≤ (b - b') * M)
    (depth margin : Nat) (isRoot : Bool) :
    ∀ (es : List DirEntry) (b : Nat) (t : List (List Nat)) (b' : Nat),
      drawEntries rec r depth margin isRoot es b = .ok (t, b') → b' ≤ b ∧ t.length ≤ es.length + (b - b') * M
  | [], b, t, b', h => by
    simp only [drawEntries, Out.ok.injEq, Prod.mk.injEq] at h
    obtain ⟨rfl, rfl⟩ := h
    exact ⟨Nat.le_refl _, by simp⟩
  | e :: rest, b, t, b', h => by
    unfold drawEntries at h
    dsimp only at h
    -- whatever the name is, one record is written, then the sub-directory, then the rest
    have key : ∀ (line : List Nat) (sub : Out (List (List Nat) × Nat)),
        (∀ st b1, sub = .ok (st, b1) → b1 ≤ b ∧ st.length ≤ (b - b1) * M) →
        (match sub with
          | .ok (subText, b1) =>
            match drawEntries rec r depth margin isRoot rest b1 with
            | .ok (more, b2) => .ok (line :: (subText ++ more), b2)
            | o => o
          | o => o) = Out.ok (t, b') → b' ≤ b ∧ t.length ≤ (e :: rest).length + (b - b') * M := by
      intro line sub hsub hres
      cases hs : sub with
      | ok p =>
        obtain ⟨st, b1⟩ := p
        rw [hs] at hres
        dsimp only at hres
        obtain ⟨h1, h2⟩ := hsub st b1 hs
        cases hm : drawEntries rec r depth margin isRoot rest b1 with
        | ok q =>
          obtain ⟨more, b2⟩ := q
          rw [hm] at hres
          simp only [Out.ok.injEq, Prod.mk.injEq] at hres
          obtain ⟨rfl, rfl⟩ := hres
          obtain ⟨h3, h4⟩ := drawEntries_work hb rec M hrec depth margin isRoot rest b1 more b2 hm
          refine ⟨by omega, ?_⟩
          simp only [List.length_cons, List.length_append]
          have e1 : b - b2 = (b - b1) + (b1 - b2) := by omega
          rw [e1, Nat.add_mul]
          omega
        | err er => rw [hm] at hres; cases hres
        | panic s => rw [hm] at hres; cases hres
        | ub s => rw [hm] at hres; cases hres
        | diverge => rw [hm] at hres; cases hres
      | err er => rw [hs] at hres; cases hres
      | panic s => rw [hs] at hres; cases hres
      | ub s => rw [hs] at hres; cases hres
      | diverge => rw [hs] at hres; cases hres
    have hsub : ∀ st b1, (match e.entry r with
        | .ok (.dir d) => rec d (margin ||| (if rest.isEmpty then 2 ^ depth else 0)) b
        | .ok (.data _) => .ok ([], b)
        | .err _ => .ok ([], b)
        | .panic s => .panic s
        | .ub s => .ub s
        | .diverge => .diverge) = Out.ok (st, b1) → b1 ≤ b ∧ st.length ≤ (b - b1) * M := by
      intro st b1 hq
      cases he : e.entry r with
      | ok en =>
        rw [he] at hq
        cases en with
        | dir d => exact hrec d _ b st b1 (entry_dir_ok hb he).1 hq
        | data de =>
          simp only [Out.ok.injEq, Prod.mk.injEq] at hq
          obtain ⟨rfl, rfl⟩ := hq
          exact ⟨Nat.le_refl _, by simp⟩
      | err er =>
        rw [he] at hq
        simp only [Out.ok.injEq, Prod.mk.injEq] at hq
        obtain ⟨rfl, rfl⟩ := hq
        exact ⟨Nat.le_refl _, by simp⟩
      | panic s => rw [he] at hq; cases hq
      | ub s => rw [he] at hq; cases hq
      | diverge => rw [he] at hq; cases hq
    cases hn : e.getName r with
    | ok nm => rw [hn] at h; exact key _ _ hsub h
    | err er => rw [hn] at h; exact key _ _ hsub h
    | panic s => rw [hn] at h; cases h
    | ub s => rw [hn] at h; cases h
    | diverge => rw [hn] at h; cases h

theorem drawDir_work {r : Resources} (hb : Aligned r) : ∀ (k : Nat) (isRoot : Bool) (d : Dir) (m b : Nat) (t : List (List Nat)) (b' : Nat),
    DirOK r d → drawDir r k isRoot d m b = .ok (t, b') → b' ≤ b ∧ t.length ≤ (b - b') * (r.sec.size / 8)
  | 0, _, _, _, b, t, b', _, h => by
    simp only [drawDir, Out.ok.injEq, Prod.mk.injEq] at h
    obtain ⟨rfl, rfl⟩ := h
    exact ⟨Nat.le_refl _, by simp⟩
  | k+1, isRoot, d, m, b, t, b', hd, h => by
    unfold drawDir at h
    by_cases hb0 : b = 0
    · rw [if_pos hb0] at h
      simp only [Out.ok.injEq, Prod.mk.injEq] at h
      obtain ⟨rfl, rfl⟩ := h
      exact ⟨Nat.le_refl _, by simp⟩
    · rw [if_neg hb0, entries_eq hb hd] at h
      dsimp only at h
      obtain ⟨h1, h2⟩ := drawEntries_work hb _ (r.sec.size / 8)
        (fun d' m' b0 t0 b0' hd' hq => drawDir_work hb k false d' m' b0 t0 b0' hd' hq) _ _ _ _ _ _ _ h
      rw [entriesFrom_length] at h2
      have hc := dirOK_count hd
      refine ⟨by omega, ?_⟩
      have e1 : b - b' = (b - 1 - b') + 1 := by omega
      rw [e1, Nat.add_mul, Nat.one_mul]
      omega

/-- the text `Display` writes is one record per entry drawn, and at most `(len/16) * (len/8)` entries are drawn -/
theorem display_work {r : Resources} (hb : Aligned r) {text : List Nat} (h : display r = .ok text) :
    (∃ e, root r = .err e ∧ text = asc "Resources/\n" ++ errText e) ∨
    ∃ records : List (List Nat), text = asc "Resources/\n" ++ records.flatten ∧
      records.length ≤ (r.sec.size / 16) * (r.sec.size / 8) := by
  unfold display at h
  cases hr : root r with
  | ok d =>
    rw [hr] at h
    dsimp only at h
    cases hd : drawDir r 32 true d 0 (fsckBudget r) with
    | ok p =>
      obtain ⟨t, b'⟩ := p
      rw [hd] at h
      simp only [textOf, Out.ok.injEq] at h
      obtain ⟨h1, h2⟩ := drawDir_work hb 32 true d 0 _ t b' (root_ok hb hr) hd
      refine Or.inr ⟨t, h.symm, ?_⟩
      unfold fsckBudget at h2
      exact Nat.le_trans h2 (Nat.mul_le_mul_right _ (Nat.sub_le _ _))
    | err e => rw [hd] at h; cases h
    | panic s => rw [hd] at h; cases h
    | ub s => rw [hd] at h; cases h
    | diverge => rw [hd] at h; cases h
  | err e =>
    rw [hr] at h
    simp only [Out.ok.injEq] at h
    exact Or.inl ⟨e, rfl, h.symm⟩
  | panic s => rw [hr] at h; cases h
  | ub s => rw [hr] at h; cases h
  | diverge => rw [hr] at h; cases h

end Pelite.Resources

namespace Pelite.Resources
open Pelite

/-! ### fsck: an instrumented twin

`fsckEntriesW` / `fsckDirW` follow `fsckEntries` / `fsckDir` branch for branch and additionally return
the budget left (also when the check fails) and the number of directory entries examined. -/

def fsckEntriesW (rec : Dir → Nat → Out Nat × Nat × Nat) (r : Resources) : List DirEntry → Nat → Out Nat × Nat × Nat
  | [], b => (.ok b, b, 0)
  | e :: rest, b =>
    match e.getName r with
    | .ok _ =>
      match e.entry r with
      | .ok (.dir d) =>
        match rec d b with
        | (.ok b', _, w1) =>
          match fsckEntriesW rec r rest b' with
          | (o, b2, w2) => (o, b2, 1 + w1 + w2)
        | (o, b1, w1) => (o, b1, 1 + w1)
      | .ok (.data de) =>
        match de.fsck r with
        | .ok _ =>
          match fsckEntriesW rec r rest b with
          | (o, b2, w2) => (o, b2, 1 + w2)
        | .err e => (.err e, b, 1)
        | .panic s => (.panic s, b, 1)
        | .ub s => (.ub s, b, 1)
        | .diverge => (.diverge, b, 1)
      | .err e => (.err e, b, 1)
      | .panic s => (.panic s, b, 1)
      | .ub s => (.ub s, b, 1)
      | .diverge => (.diverge, b, 1)
    | .err e => (.err e, b, 1)
    | .panic s => (.panic s, b, 1)
    | .ub s => (.ub s, b, 1)
    | .diverge => (.diverge, b, 1)

def fsckDirW (r : Resources) : Nat → Dir → Nat → Out Nat × Nat × Nat
  | 0, _, b => (.err .insanity, b, 0)
  | k+1, d, b =>
    if b = 0 then (.err .insanity, b, 0)
    else
      match d.entries r with
      | .ok es => fsckEntriesW (fsckDirW r k) r es (b - 1)
      | .err e => (.err e, b - 1, 0)
      | .panic s => (.panic s, b - 1, 0)
      | .ub s => (.ub s, b - 1, 0)
      | .diverge => (.diverge, b - 1, 0)

/-- the twin computes the result of the model -/
theorem fsckEntriesW_fst (rec : Dir → Nat → Out Nat) (recW : Dir → Nat → Out Nat × Nat × Nat)
    (hrec : ∀ d b, (recW d b).1 = rec d b) (hleft : ∀ d b b', rec d b = .ok b' → (recW d b).2.1 = b') (r : Resources) :
    ∀ (es : List DirEntry) (b : Nat), (fsckEntriesW recW r es b).1 = fsckEntries rec r es b ∧
      ∀ b', fsckEntries rec r es b = .ok b' → (fsckEntriesW recW r es b).2.1 = b'
  | [], b => ⟨rfl, fun b' h => by simp only [fsckEntries, Out.ok.injEq] at h; subst h; rfl⟩
  | e :: rest, b => by
    unfold fsckEntriesW fsckEntries
    cases e.getName r with
    | ok nm =>
      dsimp only
      cases e.entry r with
      | ok en =>
        cases en with
        | dir d =>
          dsimp only
          have h1 := hrec d b
          have h2 := hleft d b
          cases hq : recW d b with
          | mk o p =>
            obtain ⟨b1, w1⟩ := p
            rw [hq] at h1 h2
            simp only at h1 h2
            cases o with
            | ok b' =>
              dsimp only
              rw [← h1]
              dsimp only
              obtain ⟨i1, i2⟩ := fsckEntriesW_fst rec recW hrec hleft r rest b'
              cases hq2 : fsckEntriesW recW r rest b' with
              | mk o2 p2 =>
                obtain ⟨b2, w2⟩ := p2
                rw [hq2] at i1 i2
                exact ⟨i1, i2⟩
            | err er => dsimp only; rw [← h1]; exact ⟨rfl, fun b' h => by cases h⟩
            | panic s => dsimp only; rw [← h1]; exact ⟨rfl, fun b' h => by cases h⟩
            | ub s => dsimp only; rw [← h1]; exact ⟨rfl, fun b' h => by cases h⟩
            | diverge => dsimp only; rw [← h1]; exact ⟨rfl, fun b' h => by cases h⟩
        | data de =>
          dsimp only
          cases de.fsck r with
          | ok u =>
            dsimp only
            obtain ⟨i1, i2⟩ := fsckEntriesW_fst rec recW hrec hleft r rest b
            cases hq2 : fsckEntriesW recW r rest b with
            | mk o2 p2 =>
              obtain ⟨b2, w2⟩ := p2
              rw [hq2] at i1 i2
              exact ⟨i1, i2⟩
          | err er => exact ⟨rfl, fun b' h => by cases h⟩
          | panic s => exact ⟨rfl, fun b' h => by cases h⟩
          | ub s => exact ⟨rfl, fun b' h => by cases h⟩
          | diverge => exact ⟨rfl, fun b' h => by cases h⟩
      | err er => exact ⟨rfl, fun b' h => by cases h⟩
      | panic s => exact ⟨rfl, fun b' h => by cases h⟩
      | ub s => exact ⟨rfl, fun b' h => by cases h⟩
      | diverge => exact ⟨rfl, fun b' h => by cases h⟩
    | err er => exact ⟨rfl, fun b' h => by cases h⟩
    | panic s => exact ⟨rfl, fun b' h => by cases h⟩
    | ub s => exact ⟨rfl, fun b' h => by cases h⟩
    | diverge => exact ⟨rfl, fun b' h => by cases h⟩

theorem fsckDirW_fst (r : Resources) : ∀ (k : Nat) (d : Dir) (b : Nat),
    (fsckDirW r k d b).1 = fsckDir r k d b ∧ ∀ b', fsckDir r k d b = .ok b' → (fsckDirW r k d b).2.1 = b'
  | 0, _, _ => ⟨rfl, fun b' h => by simp [fsckDir] at h⟩
  | k+1, d, b => by
    unfold fsckDirW fsckDir
    by_cases hb0 : b = 0
    · rw [if_pos hb0, if_pos hb0]; exact ⟨rfl, fun b' h => by cases h⟩
    · rw [if_neg hb0, if_neg hb0]
      cases d.entries r with
      | ok es =>
        exact fsckEntriesW_fst (fsckDir r k) (fsckDirW r k) (fun d b => (fsckDirW_fst r k d b).1)
          (fun d b b' h => (fsckDirW_fst r k d b).2 b' h) r es (b - 1)
      | err er => exact ⟨rfl, fun b' h => by cases h⟩
      | panic s => exact ⟨rfl, fun b' h => by cases h⟩
      | ub s => exact ⟨rfl, fun b' h => by cases h⟩
      | diverge => exact ⟨rfl, fun b' h => by cases h⟩

/-- work of the entry loop: the entries of this directory plus `M` per directory visited below -/
theorem fsckEntriesW_work {r : Resources} (hb : Aligned r) (recW : Dir → Nat → Out Nat × Nat × Nat) (M : Nat)
    (hrec : ∀ d b, DirOK r d → (recW d b).2.1 ≤ b ∧ (recW d b).2.2 ≤ (b - (recW d b).2.1) * M)
    (hok : ∀ d b b', (recW d b).1 = .ok b' → (recW d b).2.1 = b') :
    ∀ (es : List DirEntry) (b : Nat),
      (fsckEntriesW recW r es b).2.1 ≤ b ∧
      (fsckEntriesW recW r es b).2.2 ≤ es.length + (b - (fsckEntriesW recW r es b).2.1) * M
  | [], b => ⟨Nat.le_refl _, by simp [fsckEntriesW]⟩
  | e :: rest, b => by
    unfold fsckEntriesW
    cases e.getName r with
    | ok nm =>
      dsimp only
      cases he : e.entry r with
      | ok en =>
        cases en with
        | dir d =>
          dsimp only
          obtain ⟨h1, h2⟩ := hrec d b (entry_dir_ok hb he).1
          have h3 := hok d b
          cases hq : recW d b with
          | mk o p =>
            obtain ⟨b1, w1⟩ := p
            rw [hq] at h1 h2 h3
            simp only at h1 h2 h3
            cases o with
            | ok b' =>
              dsimp only
              have hb' : b1 = b' := h3 b' rfl
              subst hb'
              obtain ⟨i1, i2⟩ := fsckEntriesW_work hb recW M hrec hok rest b1
              cases hq2 : fsckEntriesW recW r rest b1 with
              | mk o2 p2 =>
                obtain ⟨b2, w2⟩ := p2
                rw [hq2] at i1 i2
                simp only at i1 i2 ⊢
                refine ⟨by omega, ?_⟩
                simp only [List.length_cons]
                have e1 : b - b2 = (b - b1) + (b1 - b2) := by omega
                rw [e1, Nat.add_mul]
                omega
            | err er => simp only [List.length_cons]; exact ⟨h1, by omega⟩
            | panic s => simp only [List.length_cons]; exact ⟨h1, by omega⟩
            | ub s => simp only [List.length_cons]; exact ⟨h1, by omega⟩
            | diverge => simp only [List.length_cons]; exact ⟨h1, by omega⟩
        | data de =>
          dsimp only
          cases de.fsck r with
          | ok u =>
            dsimp only
            obtain ⟨i1, i2⟩ := fsckEntriesW_work hb recW M hrec hok rest b
            cases hq2 : fsckEntriesW recW r rest b with
            | mk o2 p2 =>
              obtain ⟨b2, w2⟩ := p2
              rw [hq2] at i1 i2
              simp only at i1 i2 ⊢
              simp only [List.length_cons]
              exact ⟨i1, by omega⟩
          | err er => simp only [List.length_cons]; exact ⟨Nat.le_refl _, by omega⟩
          | panic s => simp only [List.length_cons]; exact ⟨Nat.le_refl _, by omega⟩
          | ub s => simp only [List.length_cons]; exact ⟨Nat.le_refl _, by omega⟩
          | diverge => simp only [List.length_cons]; exact ⟨Nat.le_refl _, by omega⟩
      | err er => simp only [List.length_cons]; exact ⟨Nat.le_refl _, by omega⟩
      | panic s => simp only [List.length_cons]; exact ⟨Nat.le_refl _, by omega⟩
      | ub s => simp only [List.length_cons]; exact ⟨Nat.le_refl _, by omega⟩
      | diverge => simp only [List.length_cons]; exact ⟨Nat.le_refl _, by omega⟩
    | err er => simp only [List.length_cons]; exact ⟨Nat.le_refl _, by omega⟩
    | panic s => simp only [List.length_cons]; exact ⟨Nat.le_refl _, by omega⟩
    | ub s => simp only [List.length_cons]; exact ⟨Nat.le_refl _, by omega⟩
    | diverge => simp only [List.length_cons]; exact ⟨Nat.le_refl _, by omega⟩

theorem fsckDirW_ok (r : Resources) (k : Nat) (d : Dir) (b b' : Nat) (h : (fsckDirW r k d b).1 = .ok b') :
    (fsckDirW r k d b).2.1 = b' := by
  obtain ⟨h1, h2⟩ := fsckDirW_fst r k d b
  exact h2 b' (by rw [← h1]; exact h)

/-- `fsck_` examines at most `len / 8` entries per unit of budget it consumes -/
theorem fsckDirW_work {r : Resources} (hb : Aligned r) : ∀ (k : Nat) (d : Dir) (b : Nat), DirOK r d →
    (fsckDirW r k d b).2.1 ≤ b ∧ (fsckDirW r k d b).2.2 ≤ (b - (fsckDirW r k d b).2.1) * (r.sec.size / 8)
  | 0, _, b, _ => ⟨Nat.le_refl _, by simp [fsckDirW]⟩
  | k+1, d, b, hd => by
    unfold fsckDirW
    by_cases hb0 : b = 0
    · rw [if_pos hb0]; exact ⟨Nat.le_refl _, by simp⟩
    · rw [if_neg hb0, entries_eq hb hd]
      dsimp only
      obtain ⟨h1, h2⟩ := fsckEntriesW_work hb (fsckDirW r k) (r.sec.size / 8)
        (fun d' b0 hd' => fsckDirW_work hb k d' b0 hd') (fsckDirW_ok r k)
        (entriesFrom r (d.off + 16) (d.named + d.ids)) (b - 1)
      rw [entriesFrom_length] at h2
      have hc := dirOK_count hd
      refine ⟨by omega, ?_⟩
      have e1 : b - (fsckEntriesW (fsckDirW r k) r (entriesFrom r (d.off + 16) (d.named + d.ids)) (b - 1)).2.1 =
          (b - 1 - (fsckEntriesW (fsckDirW r k) r (entriesFrom r (d.off + 16) (d.named + d.ids)) (b - 1)).2.1) + 1 := by omega
      rw [e1, Nat.add_mul, Nat.one_mul]
      omega

end Pelite.Resources
