import PeliteModel.Spec.Resources
/-!
Helper lemmas for C12, part 1: closed forms of the raw accessors under the alignment `Pe::resources`
guarantees, the directory invariant, safety (`no ub / panic / diverge`) of every operation of
`Model/Resources.lean` for arbitrary section bytes, and the work bound of `fsck` and the printer.
-/
namespace Pelite.Resources
open Pelite

/-- the section starts at a multiple of 4 (what `Pe::resources` establishes by slicing with
`align_of::<IMAGE_RESOURCE_DIRECTORY>()`) -/
def Aligned (r : Resources) : Prop := r.base % 4 = 0

instance (r : Resources) : Decidable (Aligned r) := by unfold Aligned; exact inferInstance

/-- neither undefined behaviour, nor a panic, nor fuel exhaustion: a Rust value or a Rust error -/
def Safe {α : Type} : Out α → Prop
  | .ok _ => True
  | .err _ => True
  | .panic _ => False
  | .ub _ => False
  | .diverge => False

/-- a Rust value (used for the find API, whose errors are values of `FindError`) -/
def IsVal {α : Type} : Out α → Prop
  | .ok _ => True
  | _ => False

theorem IsVal.safe {α : Type} {o : Out α} (h : IsVal o) : Safe o := by
  cases o <;> simp_all [IsVal, Safe]

/-! ### closed forms -/

theorem slice4_eq {r : Resources} (hb : Aligned r) (site : String) (off size : Nat) :
    slice r site off size 4 =
      if off % 4 ≠ 0 then .err .misaligned
      else if off + size > r.sec.size then .err .bounds
      else .ok ⟨off, size, 4⟩ := by
  unfold slice rawRef Resources.img Aligned at *
  by_cases h1 : off % 4 = 0
  · by_cases h2 : off + size > r.sec.size
    · simp [h1, h2]
    · have : (r.base + off) % 4 = 0 := by omega
      simp [h1, h2, this]
  · simp [h1]

theorem sliceWs_eq {r : Resources} (hb : Aligned r) (off : Nat) :
    sliceWs r off =
      if off % 2 ≠ 0 then .err .misaligned
      else if off + 2 > r.sec.size then .err .bounds
      else if off + 2 + le16 r.sec off * 2 > r.sec.size then .err .bounds
      else .ok ⟨off + 2, le16 r.sec off * 2, 2⟩ := by
  unfold sliceWs rawRef Resources.img Aligned at *
  by_cases h1 : off % 2 = 0
  · by_cases h2 : off + 2 > r.sec.size
    · simp [h1, h2]
    · have h3 : (r.base + off) % 2 = 0 := by omega
      have h3' : (r.base + (off + 2)) % 2 = 0 := by omega
      have h4 : off + 2 ≤ r.sec.size := by omega
      simp only [h1, h2, h3, h4, ne_eq, not_true_eq_false, if_false, and_self, if_true]
      by_cases h5 : off + 2 + le16 r.sec off * 2 > r.sec.size
      · simp [h5]
      · have h6 : off + 2 + le16 r.sec off * 2 ≤ r.sec.size := by omega
        simp [h5, h6, h3']
  · simp [h1]

theorem dirTryFrom_eq {r : Resources} (hb : Aligned r) (off : Nat) :
    dirTryFrom r off =
      if off % 4 ≠ 0 then .err .misaligned
      else if off + 16 > r.sec.size then .err .bounds
      else if (le16 r.sec (off + 12) + le16 r.sec (off + 14)) * 8 > r.sec.size - (off + 16) then .err .bounds
      else .ok ⟨off, le16 r.sec (off + 12), le16 r.sec (off + 14)⟩ := by
  unfold dirTryFrom
  rw [slice4_eq hb]
  by_cases h1 : off % 4 = 0
  · by_cases h2 : off + 16 > r.sec.size
    · simp [h1, h2]
    · simp [h1, h2]
  · simp [h1]

theorem dataTryFrom_eq {r : Resources} (hb : Aligned r) (off : Nat) :
    dataTryFrom r off =
      if off % 4 ≠ 0 then .err .misaligned
      else if off + 16 > r.sec.size then .err .bounds
      else .ok ⟨off, le32 r.sec off, le32 r.sec (off + 4), le32 r.sec (off + 8)⟩ := by
  unfold dataTryFrom
  rw [slice4_eq hb]
  by_cases h1 : off % 4 = 0
  · by_cases h2 : off + 16 > r.sec.size
    · simp [h1, h2]
    · simp [h1, h2]
  · simp [h1]

/-! ### the directory invariant -/

/-- what `Directory::try_from` validates: header and entry array inside the section, 4-aligned -/
def DirOK (r : Resources) (d : Dir) : Prop :=
  d.off % 4 = 0 ∧ d.off + 16 + 8 * (d.named + d.ids) ≤ r.sec.size

theorem dirTryFrom_ok {r : Resources} (hb : Aligned r) {off : Nat} {d : Dir} (h : dirTryFrom r off = .ok d) :
    DirOK r d ∧ d = ⟨off, le16 r.sec (off + 12), le16 r.sec (off + 14)⟩ := by
  rw [dirTryFrom_eq hb] at h
  split at h
  · cases h
  · split at h
    · cases h
    · split at h
      · cases h
      · cases h
        refine ⟨⟨?_, ?_⟩, rfl⟩
        · simp at *; omega
        · simp at *; omega

theorem entrySlice_eq {r : Resources} (hb : Aligned r) (site : String) {start n : Nat}
    (h1 : start % 4 = 0) (h2 : start + 8 * n ≤ r.sec.size) :
    entrySlice r site start n = .ok (entriesFrom r start n) := by
  unfold entrySlice rawRef Resources.img Aligned at *
  have : (r.base + start) % 4 = 0 := by omega
  simp [h2, this]

theorem entries_eq {r : Resources} (hb : Aligned r) {d : Dir} (hd : DirOK r d) :
    d.entries r = .ok (entriesFrom r (d.off + 16) (d.named + d.ids)) := by
  unfold Dir.entries
  exact entrySlice_eq hb _ (by have := hd.1; omega) (by have := hd.2; omega)

theorem namedEntries_eq {r : Resources} (hb : Aligned r) {d : Dir} (hd : DirOK r d) :
    d.namedEntries r = .ok (entriesFrom r (d.off + 16) d.named) := by
  unfold Dir.namedEntries
  exact entrySlice_eq hb _ (by have := hd.1; omega) (by have := hd.2; omega)

theorem idEntries_eq {r : Resources} (hb : Aligned r) {d : Dir} (hd : DirOK r d) :
    d.idEntries r = .ok (entriesFrom r (d.off + 16 + 8 * d.named) d.ids) := by
  unfold Dir.idEntries
  exact entrySlice_eq hb _ (by have := hd.1; omega) (by have := hd.2; omega)

theorem entriesFrom_append (r : Resources) (start a b : Nat) :
    entriesFrom r start (a + b) = entriesFrom r start a ++ entriesFrom r (start + 8 * a) b := by
  induction a generalizing start with
  | zero => simp [entriesFrom]
  | succ a ih =>
    have : a + 1 + b = (a + b) + 1 := by omega
    rw [this]
    simp only [entriesFrom, List.cons_append]
    rw [ih]
    have h8 : start + 8 + 8 * a = start + 8 * (a + 1) := by omega
    rw [h8]

theorem entriesFrom_length (r : Resources) (start n : Nat) : (entriesFrom r start n).length = n := by
  induction n generalizing start with
  | zero => rfl
  | succ n ih => simp [entriesFrom, ih]

/-- the `i`-th entry is the record `8 * i` bytes after the first, with its two stored fields -/
theorem entriesFrom_get (r : Resources) (start n i : Nat) (h : i < n) :
    (entriesFrom r start n)[i]? = some ⟨start + 8 * i, le32 r.sec (start + 8 * i), le32 r.sec (start + 8 * i + 4)⟩ := by
  induction n generalizing start i with
  | zero => omega
  | succ n ih =>
    cases i with
    | zero => simp [entriesFrom, entryAt]
    | succ i =>
      simp only [entriesFrom, List.getElem?_cons_succ]
      rw [ih (start + 8) i (by omega)]
      have : start + 8 + 8 * i = start + 8 * (i + 1) := by omega
      rw [this]

theorem entriesFrom_mem {r : Resources} {start n : Nat} {e : DirEntry} (h : e ∈ entriesFrom r start n) :
    ∃ i, i < n ∧ e = entryAt r (start + 8 * i) := by
  induction n generalizing start with
  | zero => simp [entriesFrom] at h
  | succ n ih =>
    simp only [entriesFrom, List.mem_cons] at h
    rcases h with h | h
    · exact ⟨0, by omega, by simpa using h⟩
    · obtain ⟨i, hi, he⟩ := ih h
      exact ⟨i + 1, by omega, by rw [he]; congr 1; omega⟩

end Pelite.Resources

