import PeliteModel.Spec.Resources
/-!
Helper lemmas for C12, part 1: closed forms of the raw accessors under the alignment `Pe::resources`
guarantees, the directory invariant, safety (`no ub / panic / diverge`) of every operation of
`Model/Resources.lean` for arbitrary section bytes, and the work bound of `fsck` and the printer.
-/
namespace Pelite.Resources
open Pelite

/-- the section starts at a multiple of 4 (what `Pe::resources` establishes by slicing with
`align_of::<IMAGE_RESOURCE_DIRECTORY>()`) -/
def Aligned (r : Resources) : Prop := r.base % 4 = 0

instance (r : Resources) : Decidable (Aligned r) := by unfold Aligned; exact inferInstance

/-- neither undefined behaviour, nor a panic, nor fuel exhaustion: a Rust value or a Rust error -/
def Safe {α : Type} : Out α → Prop
  | .ok _ => True
  | .err _ => True
  | .panic _ => False
  | .ub _ => False
  | .diverge => False

/-- a Rust value (used for the find API, whose errors are values of `FindError`) -/
def IsVal {α : Type} : Out α → Prop
  | .ok _ => True
  | _ => False

theorem IsVal.safe {α : Type} {o : Out α} (h : IsVal o) : Safe o := by
  cases o <;> simp_all [IsVal, Safe]

/-! ### closed forms -/

theorem slice4_eq {r : Resources} (hb : Aligned r) (site : String) (off size : Nat) :
    slice r site off size 4 =
      if off % 4 ≠ 0 then .err .misaligned
      else if off + size > r.sec.size then .err .bounds
      else .ok ⟨off, size, 4⟩ := by
  unfold slice rawRef Resources.img Aligned at *
  by_cases h1 : off % 4 = 0
  · by_cases h2 : off + size > r.sec.size
    · simp [h1, h2]
    · have : (r.base + off) % 4 = 0 := by omega
      simp [h1, h2, this]
  · simp [h1]

theorem sliceWs_eq {r : Resources} (hb : Aligned r) (off : Nat) :
    sliceWs r off =
      if off % 2 ≠ 0 then .err .misaligned
      else if off + 2 > r.sec.size then .err .bounds
      else if off + 2 + le16 r.sec off * 2 > r.sec.size then .err .bounds
      else .ok ⟨off + 2, le16 r.sec off * 2, 2⟩ := by
  unfold sliceWs rawRef Resources.img Aligned at *
  by_cases h1 : off % 2 = 0
  · by_cases h2 : off + 2 > r.sec.size
    · simp [h1, h2]
    · have h3 : (r.base + off) % 2 = 0 := by omega
      have h3' : (r.base + (off + 2)) % 2 = 0 := by omega
      have h4 : off + 2 ≤ r.sec.size := by omega
      simp only [h1, h2, h3, h4, ne_eq, not_true_eq_false, if_false, and_self, if_true]
      by_cases h5 : off + 2 + le16 r.sec off * 2 > r.sec.size
      · simp [h5]
      · have h6 : off + 2 + le16 r.sec off * 2 ≤ r.sec.size := by omega
        simp [h5, h6, h3']
  · simp [h1]

theorem dirTryFrom_eq {r : Resources} (hb : Aligned r) (off : Nat) :
    dirTryFrom r off =
      if off % 4 ≠ 0 then .err .misaligned
      else if off + 16 > r.sec.size then .err .bounds
      else if (le16 r.sec (off + 12) + le16 r.sec (off + 14)) * 8 > r.sec.size - (off + 16) then .err .bounds
      else .ok ⟨off, le16 r.sec (off + 12), le16 r.sec (off + 14)⟩ := by
  unfold dirTryFrom
  rw [slice4_eq hb]
  by_cases h1 : off % 4 = 0
  · by_cases h2 : off + 16 > r.sec.size
    · simp [h1, h2]
    · simp [h1, h2]
  · simp [h1]

theorem dataTryFrom_eq {r : Resources} (hb : Aligned r) (off : Nat) :
    dataTryFrom r off =
      if off % 4 ≠ 0 then .err .misaligned
      else if off + 16 > r.sec.size then .err .bounds
      else .ok ⟨off, le32 r.sec off, le32 r.sec (off + 4), le32 r.sec (off + 8)⟩ := by
  unfold dataTryFrom
  rw [slice4_eq hb]
  by_cases h1 : off % 4 = 0
  · by_cases h2 : off + 16 > r.sec.size
    · simp [h1, h2]
    · simp [h1, h2]
  · simp [h1]

/-! ### the directory invariant -/

/-- what `Directory::try_from` establishes: header and entry array inside the section, 4-aligned,
and the two counts are the ones stored in the header -/
def DirOK (r : Resources) (d : Dir) : Prop :=
  d.off % 4 = 0 ∧ d.off + 16 + 8 * (d.named + d.ids) ≤ r.sec.size ∧
  d.named = le16 r.sec (d.off + 12) ∧ d.ids = le16 r.sec (d.off + 14)

theorem dirTryFrom_ok {r : Resources} (hb : Aligned r) {off : Nat} {d : Dir} (h : dirTryFrom r off = .ok d) :
    DirOK r d ∧ d = ⟨off, le16 r.sec (off + 12), le16 r.sec (off + 14)⟩ := by
  rw [dirTryFrom_eq hb] at h
  split at h
  · cases h
  · split at h
    · cases h
    · split at h
      · cases h
      · cases h
        refine ⟨⟨?_, ?_⟩, rfl⟩
        · simp at *; omega
        · simp at *; omega

theorem entrySlice_eq {r : Resources} (hb : Aligned r) (site : String) {start n : Nat}
    (h1 : start % 4 = 0) (h2 : start + 8 * n ≤ r.sec.size) :
    entrySlice r site start n = .ok (entriesFrom r start n) := by
  unfold entrySlice rawRef Resources.img Aligned at *
  have : (r.base + start) % 4 = 0 := by omega
  simp [h2, this]

theorem entries_eq {r : Resources} (hb : Aligned r) {d : Dir} (hd : DirOK r d) :
    d.entries r = .ok (entriesFrom r (d.off + 16) (d.named + d.ids)) := by
  unfold Dir.entries
  exact entrySlice_eq hb _ (by have := hd.1; omega) (by have := hd.2.1; omega)

theorem namedEntries_eq {r : Resources} (hb : Aligned r) {d : Dir} (hd : DirOK r d) :
    d.namedEntries r = .ok (entriesFrom r (d.off + 16) d.named) := by
  unfold Dir.namedEntries
  exact entrySlice_eq hb _ (by have := hd.1; omega) (by have := hd.2.1; omega)

theorem idEntries_eq {r : Resources} (hb : Aligned r) {d : Dir} (hd : DirOK r d) :
    d.idEntries r = .ok (entriesFrom r (d.off + 16 + 8 * d.named) d.ids) := by
  unfold Dir.idEntries
  exact entrySlice_eq hb _ (by have := hd.1; omega) (by have := hd.2.1; omega)

theorem entriesFrom_append (r : Resources) (start a b : Nat) :
    entriesFrom r start (a + b) = entriesFrom r start a ++ entriesFrom r (start + 8 * a) b := by
  induction a generalizing start with
  | zero => simp [entriesFrom]
  | succ a ih =>
    have : a + 1 + b = (a + b) + 1 := by omega
    rw [this]
    simp only [entriesFrom, List.cons_append]
    rw [ih]
    have h8 : start + 8 + 8 * a = start + 8 * (a + 1) := by omega
    rw [h8]

theorem entriesFrom_length (r : Resources) (start n : Nat) : (entriesFrom r start n).length = n := by
  induction n generalizing start with
  | zero => rfl
  | succ n ih => simp [entriesFrom, ih]

/-- the `i`-th entry is the record `8 * i` bytes after the first, with its two stored fields -/
theorem entriesFrom_get (r : Resources) (start n i : Nat) (h : i < n) :
    (entriesFrom r start n)[i]? = some ⟨start + 8 * i, le32 r.sec (start + 8 * i), le32 r.sec (start + 8 * i + 4)⟩ := by
  induction n generalizing start i with
  | zero => omega
  | succ n ih =>
    cases i with
    | zero => simp [entriesFrom, entryAt]
    | succ i =>
      simp only [entriesFrom, List.getElem?_cons_succ]
      rw [ih (start + 8) i (by omega)]
      have : start + 8 + 8 * i = start + 8 * (i + 1) := by omega
      rw [this]

theorem entriesFrom_mem {r : Resources} {start n : Nat} {e : DirEntry} (h : e ∈ entriesFrom r start n) :
    ∃ i, i < n ∧ e = entryAt r (start + 8 * i) := by
  induction n generalizing start with
  | zero => simp [entriesFrom] at h
  | succ n ih =>
    simp only [entriesFrom, List.mem_cons] at h
    rcases h with h | h
    · exact ⟨0, by omega, by simpa using h⟩
    · obtain ⟨i, hi, he⟩ := ih h
      exact ⟨i + 1, by omega, by rw [he]; congr 1; omega⟩

end Pelite.Resources


namespace Pelite.Resources
open Pelite

@[simp] theorem safe_ok {α : Type} (a : α) : Safe (Out.ok a) = True := rfl
@[simp] theorem safe_err {α : Type} (e : Err) : Safe (Out.err e : Out α) = True := rfl
@[simp] theorem safe_panic {α : Type} (s : String) : Safe (Out.panic s : Out α) = False := rfl
@[simp] theorem safe_ub {α : Type} (s : String) : Safe (Out.ub s : Out α) = False := rfl
@[simp] theorem safe_diverge {α : Type} : Safe (Out.diverge : Out α) = False := rfl
@[simp] theorem isVal_ok {α : Type} (a : α) : IsVal (Out.ok a) = True := rfl
@[simp] theorem isVal_err {α : Type} (e : Err) : IsVal (Out.err e : Out α) = False := rfl
@[simp] theorem isVal_panic {α : Type} (s : String) : IsVal (Out.panic s : Out α) = False := rfl
@[simp] theorem isVal_ub {α : Type} (s : String) : IsVal (Out.ub s : Out α) = False := rfl
@[simp] theorem isVal_diverge {α : Type} : IsVal (Out.diverge : Out α) = False := rfl

/-! ### closed forms of name / entry -/

theorem nameRef_eq {r : Resources} (hb : Aligned r) (e : DirEntry) :
    e.nameRef r =
      if e.name < 0x80000000 then .ok none
      else if (e.name % 0x80000000) % 2 ≠ 0 then .err .misaligned
      else if e.name % 0x80000000 + 2 > r.sec.size then .err .bounds
      else if e.name % 0x80000000 + 2 + le16 r.sec (e.name % 0x80000000) * 2 > r.sec.size then .err .bounds
      else .ok (some ⟨e.name % 0x80000000 + 2, le16 r.sec (e.name % 0x80000000) * 2, 2⟩) := by
  unfold DirEntry.nameRef
  by_cases h : e.name < 0x80000000
  · rw [if_neg (by omega), if_pos h]
  · rw [if_pos (by omega), if_neg h, sliceWs_eq hb]
    by_cases c1 : (e.name % 0x80000000) % 2 ≠ 0
    · rw [if_pos c1, if_pos c1]
    · rw [if_neg c1, if_neg c1]
      by_cases c2 : e.name % 0x80000000 + 2 > r.sec.size
      · rw [if_pos c2, if_pos c2]
      · rw [if_neg c2, if_neg c2]
        by_cases c3 : e.name % 0x80000000 + 2 + le16 r.sec (e.name % 0x80000000) * 2 > r.sec.size
        · rw [if_pos c3, if_pos c3]
        · rw [if_neg c3, if_neg c3]

theorem getName_eq {r : Resources} (hb : Aligned r) (e : DirEntry) :
    e.getName r =
      if e.name < 0x80000000 then .ok (.id e.name)
      else if (e.name % 0x80000000) % 2 ≠ 0 then .err .misaligned
      else if e.name % 0x80000000 + 2 > r.sec.size then .err .bounds
      else if e.name % 0x80000000 + 2 + le16 r.sec (e.name % 0x80000000) * 2 > r.sec.size then .err .bounds
      else .ok (.wide (wordsAt r.sec (e.name % 0x80000000 + 2) (le16 r.sec (e.name % 0x80000000)))) := by
  unfold DirEntry.getName
  rw [nameRef_eq hb]
  by_cases h : e.name < 0x80000000
  · rw [if_pos h, if_pos h]
  · rw [if_neg h, if_neg h]
    by_cases c1 : (e.name % 0x80000000) % 2 ≠ 0
    · rw [if_pos c1, if_pos c1]
    · rw [if_neg c1, if_neg c1]
      by_cases c2 : e.name % 0x80000000 + 2 > r.sec.size
      · rw [if_pos c2, if_pos c2]
      · rw [if_neg c2, if_neg c2]
        by_cases c3 : e.name % 0x80000000 + 2 + le16 r.sec (e.name % 0x80000000) * 2 > r.sec.size
        · rw [if_pos c3, if_pos c3]
        · rw [if_neg c3, if_neg c3]
          show Out.ok (Name.wide (wordsAt r.sec (e.name % 0x80000000 + 2) (le16 r.sec (e.name % 0x80000000) * 2 / 2))) = _
          rw [Nat.mul_div_cancel _ (by decide : 0 < 2)]

theorem entry_eq (r : Resources) (e : DirEntry) :
    e.entry r =
      if e.offset ≥ 0x80000000 then
        match dirTryFrom r (e.offset % 0x80000000) with
        | .ok d => .ok (.dir d) | .err e => .err e | .panic s => .panic s | .ub s => .ub s | .diverge => .diverge
      else
        match dataTryFrom r e.offset with
        | .ok d => .ok (.data d) | .err e => .err e | .panic s => .panic s | .ub s => .ub s | .diverge => .diverge := by
  unfold DirEntry.entry DirEntry.isDir
  by_cases h : e.offset ≥ 0x80000000
  · have hc : decide (e.offset ≥ 0x80000000) = true := decide_eq_true h
    rw [if_pos hc, if_pos h]; rfl
  · have hc : ¬ decide (e.offset ≥ 0x80000000) = true := by rw [decide_eq_true_eq]; exact h
    rw [if_neg hc, if_neg h]; rfl

/-! ### safety of the accessors -/

theorem safe_ite {α : Type} {c : Prop} [Decidable c] {a b : Out α} (ha : Safe a) (hb : Safe b) :
    Safe (if c then a else b) := by
  by_cases h : c
  · rw [if_pos h]; exact ha
  · rw [if_neg h]; exact hb

/-- closes `Safe` of a cascade of `if`s whose leaves are `ok` / `err` -/
macro "safe_ifs" : tactic => `(tactic| repeat (first | apply safe_ite | exact True.intro))

theorem safe_dirTryFrom {r : Resources} (hb : Aligned r) (off : Nat) : Safe (dirTryFrom r off) := by
  rw [dirTryFrom_eq hb]
  safe_ifs

theorem safe_dataTryFrom {r : Resources} (hb : Aligned r) (off : Nat) : Safe (dataTryFrom r off) := by
  rw [dataTryFrom_eq hb]
  safe_ifs

theorem safe_root {r : Resources} (hb : Aligned r) : Safe (root r) := safe_dirTryFrom hb 0

theorem safe_getName {r : Resources} (hb : Aligned r) (e : DirEntry) : Safe (e.getName r) := by
  rw [getName_eq hb]
  safe_ifs

theorem safe_nameRef {r : Resources} (hb : Aligned r) (e : DirEntry) : Safe (e.nameRef r) := by
  rw [nameRef_eq hb]
  safe_ifs

theorem safe_entry {r : Resources} (hb : Aligned r) (e : DirEntry) : Safe (e.entry r) := by
  rw [entry_eq]
  by_cases h : e.offset ≥ 0x80000000
  · rw [if_pos h]
    have hs := safe_dirTryFrom hb (e.offset % 0x80000000)
    revert hs
    cases dirTryFrom r (e.offset % 0x80000000) <;> intro hs <;> first | exact True.intro | exact hs
  · rw [if_neg h]
    have hs := safe_dataTryFrom hb e.offset
    revert hs
    cases dataTryFrom r e.offset <;> intro hs <;> first | exact True.intro | exact hs

theorem safe_bytes (r : Resources) (d : DataEntry) : Safe (d.bytes r) := by
  unfold DataEntry.bytes
  safe_ifs

theorem safe_dataFsck (r : Resources) (d : DataEntry) : Safe (d.fsck r) := by
  unfold DataEntry.fsck
  have := safe_bytes r d
  cases h : d.bytes r <;> simp_all

theorem safe_entries {r : Resources} (hb : Aligned r) {d : Dir} (hd : DirOK r d) : Safe (d.entries r) := by
  rw [entries_eq hb hd]; trivial

theorem entry_dir_ok {r : Resources} (hb : Aligned r) {e : DirEntry} {d : Dir} (h : e.entry r = .ok (.dir d)) :
    DirOK r d ∧ e.offset ≥ 0x80000000 ∧ d.off = e.offset % 0x80000000 := by
  rw [entry_eq] at h
  by_cases hge : e.offset ≥ 0x80000000
  · rw [if_pos hge] at h
    cases hd : dirTryFrom r (e.offset % 0x80000000) with
    | ok d' =>
      rw [hd] at h
      cases h
      obtain ⟨h1, h2⟩ := dirTryFrom_ok hb hd
      exact ⟨h1, hge, by rw [h2]⟩
    | _ => rw [hd] at h; cases h
  · rw [if_neg hge] at h
    cases hd : dataTryFrom r e.offset <;> rw [hd] at h <;> cases h

theorem root_ok {r : Resources} (hb : Aligned r) {d : Dir} (h : root r = .ok d) : DirOK r d :=
  (dirTryFrom_ok hb h).1

/-! ### fsck: safety -/

theorem safe_fsckEntries {r : Resources} (hb : Aligned r) (rec : Dir → Nat → Out Nat)
    (hrec : ∀ d b, DirOK r d → Safe (rec d b)) : ∀ (es : List DirEntry) (b : Nat), Safe (fsckEntries rec r es b) := by
  intro es
  induction es with
  | nil => intro b; simp [fsckEntries]
  | cons e rest ih =>
    intro b
    unfold fsckEntries
    have h1 := safe_getName hb e
    have h2 := safe_entry hb e
    cases hn : e.getName r with
    | ok nm =>
      dsimp only
      cases he : e.entry r with
      | ok en =>
        cases en with
        | dir d =>
          dsimp only
          have hd := (entry_dir_ok hb he).1
          have h3 := hrec d b hd
          cases hr : rec d b with
          | ok b' => exact ih b'
          | _ => simp_all
        | data de =>
          dsimp only
          have h4 := safe_dataFsck r de
          cases hf : de.fsck r with
          | ok u => exact ih b
          | _ => simp_all
      | _ => simp_all
    | _ => simp_all

theorem safe_fsckDir {r : Resources} (hb : Aligned r) : ∀ (k : Nat) (d : Dir) (b : Nat), DirOK r d → Safe (fsckDir r k d b) := by
  intro k
  induction k with
  | zero => intro d b _; simp [fsckDir]
  | succ k ih =>
    intro d b hd
    unfold fsckDir
    by_cases hb0 : b = 0
    · simp [hb0]
    · simp only [hb0, if_false]
      rw [entries_eq hb hd]
      exact safe_fsckEntries hb _ (fun d b hd => ih d b hd) _ _

theorem safe_unitOf {o : Out Nat} (h : Safe o) : Safe (unitOf o) := by
  cases o <;> simp_all [unitOf]

theorem safe_fsck {r : Resources} (hb : Aligned r) : Safe (fsck r) := by
  unfold fsck Dir.fsck
  have h := safe_root hb
  cases hr : root r with
  | ok d => exact safe_unitOf (safe_fsckDir hb _ d _ (root_ok hb hr))
  | _ => simp_all

theorem safe_dirFsck {r : Resources} (hb : Aligned r) {d : Dir} (hd : DirOK r d) : Safe (d.fsck r) :=
  safe_unitOf (safe_fsckDir hb _ d _ hd)

theorem safe_entryFsck {r : Resources} (hb : Aligned r) (e : DirEntry) : Safe (e.fsck r) :=
  safe_unitOf (safe_fsckEntries hb _ (fun d b hd => safe_fsckDir hb _ d b hd) _ _)

end Pelite.Resources
