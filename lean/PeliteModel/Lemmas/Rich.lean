import PeliteModel.Spec.Rich
/-! Helper lemmas for C16 (property theorems live in Thm/C16.lean). -/
namespace Pelite.Rich
open Spec

/-! ### record codec -/

theorem xor_cancel (a k : Nat) : (a ^^^ k) ^^^ k = a := by
  rw [Nat.xor_assoc, Nat.xor_self, Nat.xor_zero]

theorem xor_right_inj {a b k : Nat} (h : a ^^^ k = b ^^^ k) : a = b := by
  have := congrArg (· ^^^ k) h
  simpa [xor_cancel] using this

theorem and_ffff (x : Nat) : x &&& 0xffff = x % 65536 := by
  have := Nat.and_two_pow_sub_one_eq_mod x 16
  simpa using this

theorem shr16 (x : Nat) : x >>> 16 = x / 65536 := by
  rw [Nat.shiftRight_eq_div_pow]

theorem value_eq (r : Record) (hb : r.build < 65536) : r.value = compId r := by
  unfold Record.value compId
  rw [← Nat.shiftLeft_add_eq_or_of_lt (i := 16) (by simpa using hb), Nat.shiftLeft_eq]

theorem value_lt (r : Record) (h : r.WF) : r.value < 4294967296 := by
  rw [value_eq r h.1]; unfold compId; have := h.1; have := h.2.1; omega

theorem decode_eq_spec (k w0 w1 : Nat) (hk : k < 4294967296) (h0 : w0 < 4294967296) :
    Record.decode k w0 w1 = decRecord k w0 w1 := by
  have hx : w0 ^^^ k < 2 ^ 32 := Nat.xor_lt_two_pow (by simpa using h0) (by simpa using hk)
  unfold Record.decode decRecord
  simp only [and_ffff, shr16]
  congr 1
  omega

theorem decode_wf (k w0 w1 : Nat) (hk : k < 4294967296) (h1 : w1 < 4294967296) :
    (Record.decode k w0 w1).WF := by
  have hx : w1 ^^^ k < 2 ^ 32 := Nat.xor_lt_two_pow (by simpa using h1) (by simpa using hk)
  unfold Record.decode Record.WF
  simp only [and_ffff, shr16]
  refine ⟨by omega, by omega, by simpa using hx⟩

theorem encode_eq_spec (k : Nat) (r : Record) (hb : r.build < 65536) :
    [(r.encode k).1, (r.encode k).2] = encRecord k r := by
  unfold Record.encode encRecord; rw [value_eq r hb]

theorem decode_encode (k : Nat) (r : Record) (h : r.WF) :
    Record.decode k (r.encode k).1 (r.encode k).2 = r := by
  obtain ⟨hb, hp, hc⟩ := h
  unfold Record.encode Record.decode
  simp only [xor_cancel, and_ffff, shr16, value_eq r hb]
  unfold compId
  cases r with
  | mk b p c =>
    simp only at hb hp hc ⊢
    congr 1 <;> omega

theorem encode_decode (k w0 w1 : Nat) (hk : k < 4294967296) (h0 : w0 < 4294967296) :
    (Record.decode k w0 w1).encode k = (w0, w1) := by
  have hx : w0 ^^^ k < 2 ^ 32 := Nat.xor_lt_two_pow (by simpa using h0) (by simpa using hk)
  have hwf : (Record.decode k w0 w1).build < 65536 := by
    unfold Record.decode; simp only [and_ffff]; omega
  unfold Record.encode
  rw [value_eq _ hwf]
  unfold Record.decode compId
  simp only [and_ffff, shr16]
  have : (w0 ^^^ k) / 65536 % 65536 * 65536 + (w0 ^^^ k) % 65536 = w0 ^^^ k := by omega
  rw [this, xor_cancel, xor_cancel]


/-! ### checksum: the code's dword loop = the documented byte sum -/
theorem rotl32_eq_spec (x n : Nat) (hx : x < 4294967296) : rotl32 x n = rol32 x n := by
  unfold rotl32 rol32
  generalize hr : n % 32 = r
  have hr32 : r < 32 := by omega
  have hpow : 2 ^ (32 - r) * 2 ^ r = 4294967296 := by
    rw [← Nat.pow_add, Nat.sub_add_cancel (by omega)]
  have h1 : (x <<< r) % 4294967296 = (x % 2 ^ (32 - r)) <<< r := by
    rw [Nat.shiftLeft_eq, Nat.shiftLeft_eq, ← hpow, Nat.mul_mod_mul_right]
  have h2 : x >>> (32 - r) < 2 ^ r := by
    rw [Nat.shiftRight_eq_div_pow]
    apply Nat.div_lt_of_lt_mul
    rw [hpow]; exact hx
  rw [h1, ← Nat.shiftLeft_add_eq_or_of_lt h2, Nat.shiftLeft_eq, Nat.shiftRight_eq_div_pow]

theorem rol32_lt (x n : Nat) (hx : x < 4294967296) : rol32 x n < 4294967296 := by
  unfold rol32
  generalize hr : n % 32 = r
  have hr32 : r < 32 := by omega
  have hpow : 2 ^ (32 - r) * 2 ^ r = 4294967296 := by
    rw [← Nat.pow_add, Nat.sub_add_cancel (by omega)]
  have h2 : x / 2 ^ (32 - r) < 2 ^ r := by
    apply Nat.div_lt_of_lt_mul
    rw [hpow]; exact hx
  have h3 : x % 2 ^ (32 - r) < 2 ^ (32 - r) := Nat.mod_lt _ (Nat.two_pow_pos _)
  have h4 : (x % 2 ^ (32 - r) + 1) * 2 ^ r ≤ 2 ^ (32 - r) * 2 ^ r := Nat.mul_le_mul_right _ h3
  rw [hpow, Nat.add_mul] at h4
  omega

theorem rol32_zero (n : Nat) : rol32 0 n = 0 := by
  unfold rol32; simp

theorem stubBytes_cons (w : Nat) (ws : List Nat) :
    stubBytes (w :: ws) = w % 256 :: (w / 256 % 256) :: (w / 65536 % 256) :: (w / 16777216 % 256) :: stubBytes ws := by
  simp [stubBytes]

theorem csumStub_eq : ∀ (ws : List Nat) (i c : Nat), i % 4 = 0 → i + 4 * ws.length < 4294967296 →
    c < 4294967296 →
    csumStub ws i c = .ok ((c + sumBytes (stubBytes ws) i) % 4294967296) := by
  intro ws
  induction ws with
  | nil => intro i c _ _ hc; simp [csumStub, stubBytes, sumBytes]; omega
  | cons w ws ih =>
    intro i c hi hlen hc
    have hl : i + 4 + 4 * ws.length < 4294967296 := by simp at hlen; omega
    have b0 : w % 256 < 4294967296 := by omega
    have b1 : w / 256 % 256 < 4294967296 := by omega
    have b2 : w / 65536 % 256 < 4294967296 := by omega
    have b3 : w / 16777216 % 256 < 4294967296 := by omega
    rw [csumStub, stubBytes_cons]
    simp only [sumBytes, byte0, byte1, byte2, byte3, wadd32]
    rw [if_neg (by omega), if_neg (by omega)]
    rw [ih (i + 4) _ (by omega) hl (Nat.mod_lt _ (by decide))]
    by_cases h60 : i = 60
    · subst h60
      simp [rotl32_eq_spec, rol32_zero]
    · rw [if_neg h60, if_neg h60, if_neg h60, if_neg h60]
      rw [if_neg (by omega), if_neg (by omega), if_neg (by omega), if_neg (by omega)]
      rw [rotl32_eq_spec _ _ b0, rotl32_eq_spec _ _ b1, rotl32_eq_spec _ _ b2, rotl32_eq_spec _ _ b3]
      simp only [Nat.add_zero, Nat.add_assoc, Nat.reduceAdd]
      congr 1
      omega

theorem csumRecs_eq : ∀ (rs : List Record) (c : Nat), (∀ r ∈ rs, r.WF) → c < 4294967296 →
    csumRecs rs c = (c + sumRecs rs) % 4294967296 := by
  intro rs
  induction rs with
  | nil => intro c _ hc; simp [csumRecs, sumRecs]; omega
  | cons r rs ih =>
    intro c hwf hc
    have hr : r.WF := hwf r (by simp)
    rw [csumRecs, ih _ (fun x hx => hwf x (by simp [hx])) (by unfold wadd32; omega)]
    rw [rotl32_eq_spec _ _ (value_lt r hr), value_eq r hr.1]
    simp only [sumRecs, wadd32]
    omega

theorem checksumOf_eq (stub : List Nat) (rs : List Record) (hlen : 4 * stub.length < 4294967296)
    (hwf : ∀ r ∈ rs, r.WF) : checksumOf stub rs = .ok (Spec.checksum stub rs) := by
  unfold checksumOf
  rw [csumStub_eq stub 0 _ (by omega) (by omega) (by omega)]
  simp only [Out.bind_ok]
  rw [csumRecs_eq rs _ hwf (by omega)]
  unfold Spec.checksum
  congr 1
  omega

/-! ### the two scans of `try_from` -/

/-- `DanS^x, x, x, x` at dword `s` -/
def Hdr (img : List Nat) (x dx s : Nat) : Prop :=
  img[s]? = some dx ∧ img[s + 1]? = some x ∧ img[s + 2]? = some x ∧ img[s + 3]? = some x

instance (img : List Nat) (x dx s : Nat) : Decidable (Hdr img x dx s) := by unfold Hdr; infer_instance

theorem hdrAt_spec (img : List Nat) (x dx s : Nat) (h : s + 3 < img.length) :
    hdrAt img x dx s = .ok (decide (Hdr img x dx s)) := by
  have h0 : img[s]? = some (img[s]'(by omega)) := List.getElem?_eq_getElem _
  have h1 : img[s + 1]? = some (img[s + 1]'(by omega)) := List.getElem?_eq_getElem _
  have h2 : img[s + 2]? = some (img[s + 2]'(by omega)) := List.getElem?_eq_getElem _
  have h3 : img[s + 3]? = some (img[s + 3]'(by omega)) := List.getElem?_eq_getElem _
  unfold hdrAt Hdr
  simp only [h0, h1, h2, h3, Option.some.injEq]
  by_cases a : img[s] = dx <;> by_cases b : img[s + 1] = x <;> by_cases c : img[s + 2] = x <;>
    by_cases d : img[s + 3] = x <;> simp [a, b, c, d]

theorem skipPad_spec (img : List Nat) (e : Nat) (he : e ≤ img.length) :
    (∃ e', skipPad img e = .ok e' ∧ 16 ≤ e' ∧ e' ≤ e ∧ (∃ v, img[e' - 1]? = some v ∧ v ≠ 0) ∧
        ∀ j, e' ≤ j → j < e → img[j]? = some 0)
    ∨ (skipPad img e = .err .invalid ∧ ∀ j, 15 ≤ j → j < e → img[j]? = some 0) := by
  fun_induction skipPad img e with
  | case1 e h => right; exact ⟨rfl, fun j h1 h2 => by omega⟩
  | case2 e h hn =>
    exfalso
    have : e - 1 < img.length := by omega
    rw [List.getElem?_eq_getElem this] at hn; cases hn
  | case3 e h v hv hne =>
    left; exact ⟨e, rfl, by omega, Nat.le_refl _, ⟨v, hv, hne⟩, fun j h1 h2 => by omega⟩
  | case4 e h v hv hz ih =>
    have hv0 : v = 0 := by simpa using hz
    subst hv0
    rcases ih (by omega) with ⟨e', h1, h2, h3, h4, h5⟩ | ⟨h1, h2⟩
    · left
      refine ⟨e', h1, h2, by omega, h4, fun j hj1 hj2 => ?_⟩
      by_cases hj : j = e - 1
      · subst hj; exact hv
      · exact h5 j hj1 (by omega)
    · right
      refine ⟨h1, fun j hj1 hj2 => ?_⟩
      by_cases hj : j = e - 1
      · subst hj; exact hv
      · exact h2 j hj1 (by omega)

theorem findStart_spec (img : List Nat) (x dx s : Nat) (hs : s + 3 < img.length) :
    (∃ s', findStart img x dx s = .ok s' ∧ 16 ≤ s' ∧ s' ≤ s ∧ (s - s') % 2 = 0 ∧ Hdr img x dx s' ∧
        ∀ t, s' < t → t ≤ s → (s - t) % 2 = 0 → ¬ Hdr img x dx t)
    ∨ (findStart img x dx s = .err .invalid ∧
        ∀ t, 16 ≤ t → t ≤ s → (s - t) % 2 = 0 → ¬ Hdr img x dx t) := by
  fun_induction findStart img x dx s with
  | case1 s h => right; exact ⟨rfl, fun t h1 h2 => by omega⟩
  | case2 s h hh =>
    rw [hdrAt_spec img x dx s hs] at hh
    have hd : Hdr img x dx s := by simpa using hh
    left; exact ⟨s, rfl, by omega, Nat.le_refl _, by omega, hd, fun t h1 h2 => by omega⟩
  | case3 s h hh ih =>
    rw [hdrAt_spec img x dx s hs] at hh
    have hd : ¬ Hdr img x dx s := by simpa using hh
    rcases ih (by omega) with ⟨s', h1, h2, h3, h4, h5, h6⟩ | ⟨h1, h2⟩
    · left
      refine ⟨s', h1, h2, by omega, by omega, h5, fun t ht1 ht2 ht3 => ?_⟩
      by_cases ht : t = s
      · subst ht; exact hd
      · exact h6 t ht1 (by omega) (by omega)
    · right
      refine ⟨h1, fun t ht1 ht2 ht3 => ?_⟩
      by_cases ht : t = s
      · subst ht; exact hd
      · exact h2 t ht1 (by omega) (by omega)
  | case4 s h e hh => rw [hdrAt_spec img x dx s hs] at hh; cases hh
  | case5 s h e hh => rw [hdrAt_spec img x dx s hs] at hh; cases hh
  | case6 s h e hh => rw [hdrAt_spec img x dx s hs] at hh; cases hh
  | case7 s h hh => rw [hdrAt_spec img x dx s hs] at hh; cases hh


theorem dans_eq : Spec.dans = DANS := by decide
theorem rich_eq : Spec.rich = RICH := by decide

-- `areaOf`, `HeaderAt`, `NoFake` are defined in Spec/Rich.lean

theorem idx_of_getElem? {site : String} {ws : List Nat} {i v : Nat} (h : ws[i]? = some v) :
    idx site ws i = .ok v := by
  unfold idx; rw [h]

theorem slice_ok (site : String) (ws : List Nat) (a b : Nat) (h : a ≤ b ∧ b ≤ ws.length) :
    slice site ws a b = .ok ((ws.take b).drop a) := by
  unfold slice; rw [if_pos h]

theorem headerAt_iff (area : List Nat) (k t : Nat) : HeaderAt area k t ↔ Hdr area k (DANS ^^^ k) t := by
  unfold HeaderAt Hdr; rw [dans_eq]

/-- `Spec.NoFake` in the vocabulary of the scan lemmas -/
theorem noFake_iff (area : List Nat) (s e k : Nat) :
    NoFake area s e k ↔ ∀ t, s < t → t + 6 ≤ e → (e - t) % 2 = 0 → ¬ Hdr area k (DANS ^^^ k) t := by
  unfold NoFake
  constructor
  · intro h t a b c; rw [← headerAt_iff]; exact h t a b c
  · intro h t a b c; rw [headerAt_iff]; exact h t a b c

theorem parseArea_complete (area : List Nat) (s e k : Nat)
    (hwf : WellFormedAt area s e k) (hk : k ≠ 0) (hno : NoFake area s e k) :
    parseArea area = .ok ⟨area.take s, (area.take e).drop s⟩ := by
  rw [noFake_iff] at hno
  obtain ⟨w1, w2, w3, w4, w5, w6, w7, w8, w9, w10, w11⟩ := hwf
  rw [dans_eq] at w5; rw [rich_eq] at w9
  unfold parseArea
  -- first loop
  have hE : skipPad area area.length = .ok e := by
    rcases skipPad_spec area area.length (Nat.le_refl _) with ⟨e', h1, h2, h3, ⟨v, h4, h4'⟩, h5⟩ | ⟨_, h2⟩
    · have : e' = e := by
        rcases Nat.lt_trichotomy e' e with hlt | heq | hgt
        · have := h5 (e - 1) (by omega) (by omega)
          rw [w10] at this; cases this; exact absurd rfl hk
        · exact heq
        · have := w11 (e' - 1) (by omega) (by omega)
          rw [h4] at this; cases this; exact absurd rfl h4'
      rw [h1, this]
    · have := h2 (e - 1) (by omega) (by omega)
      rw [w10] at this; cases this; exact absurd rfl hk
  rw [hE]; simp only [Out.bind_ok]
  rw [idx_of_getElem? w9]; simp only [Out.bind_ok]
  rw [if_neg (by simp)]
  rw [idx_of_getElem? w10]; simp only [Out.bind_ok]
  have hp : psub "rich_structure.rs:62 end - 6" e 6 = .ok (e - 6) := by unfold psub; rw [if_pos (by omega)]
  rw [hp]; simp only [Out.bind_ok]
  have hd : Hdr area k (DANS ^^^ k) s := ⟨w5, w6, w7, w8⟩
  have hS : findStart area k (DANS ^^^ k) (e - 6) = .ok s := by
    rcases findStart_spec area k (DANS ^^^ k) (e - 6) (by omega) with ⟨s', h1, h2, h3, h4, h5, h6⟩ | ⟨_, h2⟩
    · have : s' = s := by
        rcases Nat.lt_trichotomy s' s with hlt | heq | hgt
        · exact absurd hd (h6 s hlt (by omega) (by omega))
        · exact heq
        · exact absurd h5 (hno s' hgt (by omega) (by omega))
      rw [h1, this]
    · exact absurd hd (h2 s w1 (by omega) (by omega))
  rw [hS]; simp only [Out.bind_ok]
  rw [slice_ok _ _ _ _ ⟨by omega, by omega⟩]; simp only [Out.bind_ok]
  rw [slice_ok _ _ _ _ ⟨by omega, by omega⟩]; simp only [Out.bind_ok]
  simp

/-- what `parseArea` can answer at all, and what an `ok` means -/
theorem parseArea_spec (area : List Nat) :
    (∃ s e k, parseArea area = .ok ⟨area.take s, (area.take e).drop s⟩ ∧
        WellFormedAt area s e k ∧ k ≠ 0 ∧ NoFake area s e k)
    ∨ parseArea area = .err .invalid ∨ parseArea area = .err .badMagic := by
  unfold parseArea
  rcases skipPad_spec area area.length (Nat.le_refl _) with ⟨e, h1, h2, h3, ⟨k, h4, h4'⟩, h5⟩ | ⟨h1, _⟩
  · rw [h1]; simp only [Out.bind_ok]
    have hm : area[e - 2]? = some (area[e - 2]'(by omega)) := List.getElem?_eq_getElem _
    rw [idx_of_getElem? hm]; simp only [Out.bind_ok]
    by_cases hr : area[e - 2]'(by omega) = RICH
    · rw [if_neg (by simp [hr])]
      rw [idx_of_getElem? h4]; simp only [Out.bind_ok]
      have hp : psub "rich_structure.rs:62 end - 6" e 6 = .ok (e - 6) := by unfold psub; rw [if_pos (by omega)]
      rw [hp]; simp only [Out.bind_ok]
      rcases findStart_spec area k (DANS ^^^ k) (e - 6) (by omega) with ⟨s, g1, g2, g3, g4, g5, g6⟩ | ⟨g1, _⟩
      · left
        rw [g1]; simp only [Out.bind_ok]
        rw [slice_ok _ _ _ _ ⟨by omega, by omega⟩]; simp only [Out.bind_ok]
        rw [slice_ok _ _ _ _ ⟨by omega, by omega⟩]; simp only [Out.bind_ok]
        refine ⟨s, e, k, by simp, ?_, h4', ?_⟩
        · obtain ⟨a, b, c, d⟩ := g5
          rw [hr] at hm
          refine ⟨g2, by omega, h3, by omega, by rw [dans_eq]; exact a, b, c, d, by rw [rich_eq]; exact hm, h4, ?_⟩
          intro j hj1 hj2; exact h5 j hj2 hj1
        · rw [noFake_iff]; intro t ht1 ht2 ht3; exact g6 t ht1 (by omega) (by omega)
      · right; left; rw [g1]; rfl
    · right; right; rw [if_pos (by simp [hr])]
  · right; left; rw [h1]; rfl


/-! ### the documented layout: index facts, well-formedness, accessors -/

/-- header, records, footer as the model's `encode` writes them -/
def hdrWords (k : Nat) (rs : List Record) : List Nat := [DANS ^^^ k, k, k, k] ++ (encodeAll k rs ++ [RICH, k])

theorem encodeAll_length (k : Nat) (rs : List Record) : (encodeAll k rs).length = 2 * rs.length := by
  induction rs with
  | nil => rfl
  | cons r rs ih => simp [encodeAll, ih] <;> omega

theorem hdrWords_length (k : Nat) (rs : List Record) : (hdrWords k rs).length = 2 * rs.length + 6 := by
  simp [hdrWords, encodeAll_length] <;> omega

theorem flatMap_encRecord (k : Nat) (rs : List Record) (hwf : ∀ r ∈ rs, r.WF) :
    rs.flatMap (encRecord k) = encodeAll k rs := by
  induction rs with
  | nil => rfl
  | cons r rs ih =>
    have hr : r.WF := hwf r (by simp)
    rw [List.flatMap_cons, ih (fun x hx => hwf x (by simp [hx])), ← encode_eq_spec k r hr.1]
    rfl

theorem header_eq (k : Nat) (rs : List Record) (hwf : ∀ r ∈ rs, r.WF) : Spec.header k rs = hdrWords k rs := by
  unfold Spec.header hdrWords
  rw [flatMap_encRecord k rs hwf, dans_eq, rich_eq, List.append_assoc]

theorem decodeAll_encodeAll (k : Nat) (rs : List Record) (hwf : ∀ r ∈ rs, r.WF) :
    decodeAll k (encodeAll k rs) = rs := by
  induction rs with
  | nil => rfl
  | cons r rs ih =>
    simp only [encodeAll, decodeAll]
    rw [decode_encode k r (hwf r (by simp)), ih (fun x hx => hwf x (by simp [hx]))]

theorem encodeAll_drop (k : Nat) : ∀ (i : Nat) (rs : List Record),
    (encodeAll k rs).drop (2 * i) = encodeAll k (rs.drop i) := by
  intro i
  induction i with
  | zero => intro rs; rfl
  | succ i ih =>
    intro rs
    cases rs with
    | nil => simp [encodeAll]
    | cons r rs =>
      have : 2 * (i + 1) = 2 * i + 1 + 1 := by omega
      rw [this]
      simp only [encodeAll, List.drop_succ_cons]
      exact ih rs

theorem imitates_drop : ∀ (i : Nat) (rs : List Record), imitates (rs.drop i) = true → imitates rs = true := by
  intro i
  induction i with
  | zero => intro rs h; exact h
  | succ i ih =>
    intro rs h
    cases rs with
    | nil => exact h
    | cons a t =>
      have h' := ih t (by simpa using h)
      cases t with
      | nil => simp [imitates] at h'
      | cons b t' => simp only [imitates, Bool.or_eq_true]; exact Or.inr h'


theorem get_app (A T : List Nat) (i : Nat) : (A ++ T)[A.length + i]? = T[i]? := by
  rw [List.getElem?_append_right (Nat.le_add_right _ _), Nat.add_sub_cancel_left]

theorem get_app' (A T : List Nat) (n i : Nat) (h : A.length = n) : (A ++ T)[n + i]? = T[i]? := by
  subst h; exact get_app A T i

/-- the documented layout, in the model's vocabulary -/
def layoutWords (stub : List Nat) (k : Nat) (rs : List Record) (p : Nat) : List Nat :=
  stub ++ (hdrWords k rs ++ List.replicate p 0)

theorem layout_eq (stub : List Nat) (k : Nat) (rs : List Record) (p : Nat) (hwf : ∀ r ∈ rs, r.WF) :
    Spec.layout stub k rs p = layoutWords stub k rs p := by
  unfold Spec.layout layoutWords; rw [header_eq k rs hwf, List.append_assoc]

theorem layoutWords_length (stub : List Nat) (k : Nat) (rs : List Record) (p : Nat) :
    (layoutWords stub k rs p).length = stub.length + (2 * rs.length + 6) + p := by
  simp [layoutWords, hdrWords_length]; omega

/-- dword `stub.length + i` of the layout, by region -/
theorem layout_hdr (stub : List Nat) (k : Nat) (rs : List Record) (p : Nat) :
    (layoutWords stub k rs p)[stub.length]? = some (DANS ^^^ k) ∧
    (layoutWords stub k rs p)[stub.length + 1]? = some k ∧
    (layoutWords stub k rs p)[stub.length + 2]? = some k ∧
    (layoutWords stub k rs p)[stub.length + 3]? = some k := by
  unfold layoutWords hdrWords
  refine ⟨?_, ?_, ?_, ?_⟩
  · have := get_app stub ([DANS ^^^ k, k, k, k] ++ (encodeAll k rs ++ [RICH, k]) ++ List.replicate p 0) 0
    rw [Nat.add_zero] at this; rw [this]; simp
  · rw [get_app]; simp
  · rw [get_app]; simp
  · rw [get_app]; simp

theorem layout_body (stub : List Nat) (k : Nat) (rs : List Record) (p i : Nat) (hi : i < 2 * rs.length) :
    (layoutWords stub k rs p)[stub.length + (4 + i)]? = (encodeAll k rs)[i]? := by
  unfold layoutWords hdrWords
  rw [get_app, List.append_assoc, get_app' _ _ 4 i rfl, List.append_assoc,
    List.getElem?_append_left (by rw [encodeAll_length]; exact hi)]

theorem layout_trailer (stub : List Nat) (k : Nat) (rs : List Record) (p : Nat) :
    (layoutWords stub k rs p)[stub.length + (4 + 2 * rs.length)]? = some RICH ∧
    (layoutWords stub k rs p)[stub.length + (4 + 2 * rs.length) + 1]? = some k := by
  unfold layoutWords hdrWords
  refine ⟨?_, ?_⟩
  · rw [get_app, List.append_assoc, get_app' _ _ 4 _ rfl, List.append_assoc]
    have := get_app' (encodeAll k rs) ([RICH, k] ++ List.replicate p 0) (2 * rs.length) 0 (encodeAll_length k rs)
    simpa using this
  · rw [Nat.add_assoc, get_app, List.append_assoc, Nat.add_assoc, get_app' _ _ 4 _ rfl, List.append_assoc]
    have := get_app' (encodeAll k rs) ([RICH, k] ++ List.replicate p 0) (2 * rs.length) 1 (encodeAll_length k rs)
    simpa using this

theorem layout_pad (stub : List Nat) (k : Nat) (rs : List Record) (p j : Nat)
    (h1 : stub.length + (2 * rs.length + 6) ≤ j) (h2 : j < (layoutWords stub k rs p).length) :
    (layoutWords stub k rs p)[j]? = some 0 := by
  rw [layoutWords_length] at h2
  obtain ⟨i, rfl⟩ : ∃ i, j = stub.length + ((2 * rs.length + 6) + i) := ⟨j - (stub.length + (2 * rs.length + 6)), by omega⟩
  unfold layoutWords
  rw [get_app, get_app' _ _ _ _ (hdrWords_length k rs), List.getElem?_replicate, if_pos (by omega)]


theorem layout_wellFormed (stub : List Nat) (k : Nat) (rs : List Record) (p : Nat) (h16 : 16 ≤ stub.length) :
    WellFormedAt (layoutWords stub k rs p) stub.length (stub.length + (2 * rs.length + 6)) k := by
  obtain ⟨a, b, c, d⟩ := layout_hdr stub k rs p
  obtain ⟨e, f⟩ := layout_trailer stub k rs p
  refine ⟨h16, by omega, by rw [layoutWords_length]; omega, by omega, by rw [dans_eq]; exact a, b, c, d, ?_, ?_, ?_⟩
  · rw [rich_eq, ← e]; congr 1; omega
  · rw [← f]; congr 1; omega
  · intro j hj1 hj2; exact layout_pad stub k rs p j hj2 hj1

theorem xor_eq_self_iff {a k : Nat} (h : a ^^^ k = k) : a = 0 := by
  have : a ^^^ k = 0 ^^^ k := by rw [h, Nat.zero_xor]
  exact xor_right_inj this

theorem record_eq_of_value (r : Record) (hwf : r.WF) (p b : Nat) (hb : b < 65536)
    (hv : r.value = p * 65536 + b) (hc : r.count = 0) : r = ⟨b, p, 0⟩ := by
  rw [value_eq r hwf.1] at hv
  unfold compId at hv
  obtain ⟨h1, h2, _⟩ := hwf
  cases r with
  | mk rb rp rc =>
    simp only at hv hc h1 h2
    subst hc
    congr 1 <;> omega

theorem layout_noFake (stub : List Nat) (k : Nat) (rs : List Record) (p : Nat)
    (hwf : ∀ r ∈ rs, r.WF) (him : imitates rs = false) :
    NoFake (layoutWords stub k rs p) stub.length (stub.length + (2 * rs.length + 6)) k := by
  rw [noFake_iff]
  intro t ht1 ht2 ht3 ⟨g0, g1, g2, g3⟩
  by_cases h2 : t = stub.length + 2
  · -- the block would start at the second key dword
    subst h2
    rw [(layout_hdr stub k rs p).2.2.1] at g0
    have : k = DANS ^^^ k := by simpa using g0
    have hz := xor_eq_self_iff this.symm
    revert hz; decide
  · -- the block lies inside the records
    obtain ⟨i, rfl⟩ : ∃ i, t = stub.length + (4 + 2 * i) := ⟨(t - stub.length - 4) / 2, by omega⟩
    have hi : i + 2 ≤ rs.length := by omega
    have e0 : (layoutWords stub k rs p)[stub.length + (4 + 2 * i)]? = (encodeAll k rs)[2 * i]? :=
      layout_body stub k rs p (2 * i) (by omega)
    have e1 : (layoutWords stub k rs p)[stub.length + (4 + 2 * i) + 1]? = (encodeAll k rs)[2 * i + 1]? := by
      have := layout_body stub k rs p (2 * i + 1) (by omega)
      rw [← this]; congr 1
    have e2 : (layoutWords stub k rs p)[stub.length + (4 + 2 * i) + 2]? = (encodeAll k rs)[2 * i + 2]? := by
      have := layout_body stub k rs p (2 * i + 2) (by omega)
      rw [← this]; congr 1
    have e3 : (layoutWords stub k rs p)[stub.length + (4 + 2 * i) + 3]? = (encodeAll k rs)[2 * i + 3]? := by
      have := layout_body stub k rs p (2 * i + 3) (by omega)
      rw [← this]; congr 1
    rw [e0] at g0; rw [e1] at g1; rw [e2] at g2; rw [e3] at g3
    -- the two records at `i`, `i + 1`
    have hd : ∀ j, (encodeAll k rs)[2 * i + j]? = (encodeAll k (rs.drop i))[j]? := by
      intro j; rw [← encodeAll_drop, List.getElem?_drop]
    obtain ⟨a, b, rest, hab⟩ : ∃ a b rest, rs.drop i = a :: b :: rest := by
      have hl : (rs.drop i).length ≥ 2 := by rw [List.length_drop]; omega
      match hm : rs.drop i, hl with
      | a :: b :: rest, _ => exact ⟨a, b, rest, rfl⟩
    have ha : a ∈ rs := List.mem_of_mem_drop (by rw [hab]; simp)
    have hb : b ∈ rs := List.mem_of_mem_drop (by rw [hab]; simp)
    have g0' := hd 0; have g1' := hd 1; have g2' := hd 2; have g3' := hd 3
    rw [hab] at g0' g1' g2' g3'
    simp only [encodeAll, Nat.add_zero] at g0' g1' g2' g3'
    rw [g0'] at g0; rw [g1'] at g1; rw [g2'] at g2; rw [g3'] at g3
    simp only [Record.encode, List.getElem?_cons_zero, List.getElem?_cons_succ, Option.some.injEq] at g0 g1 g2 g3
    have a1 : a.value = DANS := xor_right_inj g0
    have a2 : a.count = 0 := xor_eq_self_iff g1
    have b1 : b.value = 0 := xor_eq_self_iff g2
    have b2 : b.count = 0 := xor_eq_self_iff g3
    have ea : a = ⟨0x6144, 0x536e, 0⟩ := record_eq_of_value a (hwf a ha) 0x536e 0x6144 (by decide) (by rw [a1]; decide) a2
    have eb : b = ⟨0, 0, 0⟩ := record_eq_of_value b (hwf b hb) 0 0 (by decide) (by rw [b1]) b2
    have : imitates (rs.drop i) = true := by
      rw [hab, ea, eb]; simp [imitates]
    have := imitates_drop i rs this
    rw [him] at this; cases this


theorem layout_take_stub (stub : List Nat) (k : Nat) (rs : List Record) (p : Nat) :
    (layoutWords stub k rs p).take stub.length = stub := by
  unfold layoutWords; exact List.take_left' rfl

theorem layout_take_drop (stub : List Nat) (k : Nat) (rs : List Record) (p : Nat) :
    ((layoutWords stub k rs p).take (stub.length + (2 * rs.length + 6))).drop stub.length = hdrWords k rs := by
  unfold layoutWords
  rw [List.take_length_add_append, List.drop_left', List.take_left' (hdrWords_length k rs)]
  rfl

/-! ### accessors on a parsed header -/

theorem xorKey_hdr (stub : List Nat) (k : Nat) (rs : List Record) :
    (RichS.mk stub (hdrWords k rs)).xorKey = .ok k := by
  unfold RichS.xorKey idx hdrWords; simp

theorem records_hdr (stub : List Nat) (k : Nat) (rs : List Record) :
    (RichS.mk stub (hdrWords k rs)).records = .ok ⟨encodeAll k rs, k⟩ := by
  unfold RichS.records
  have hl : (hdrWords k rs).length = 2 * rs.length + 6 := hdrWords_length k rs
  have hp : psub "rich_structure.rs:118 self.image.len() - 2" (hdrWords k rs).length 2 = .ok (2 * rs.length + 4) := by
    unfold psub; rw [if_pos (by omega), hl]; congr 1
  simp only [hp, Out.bind_ok]
  rw [slice_ok _ _ _ _ ⟨by omega, by omega⟩, xorKey_hdr]
  simp only [Out.bind_ok]
  congr 2
  unfold hdrWords
  have h4 : ([DANS ^^^ k, k, k, k] : List Nat).length = 4 := rfl
  have : 2 * rs.length + 4 = ([DANS ^^^ k, k, k, k] : List Nat).length + (encodeAll k rs).length := by
    rw [encodeAll_length]; simp; omega
  rw [this, List.take_length_add_append, List.take_left' rfl]
  rfl

theorem collect_hdr (k : Nat) (rs : List Record) (hwf : ∀ r ∈ rs, r.WF) :
    (Iter.mk (encodeAll k rs) k).collect = rs := by
  unfold Iter.collect; exact decodeAll_encodeAll k rs hwf

theorem checksum_hdr (stub : List Nat) (k : Nat) (rs : List Record) (hlen : 4 * stub.length < 4294967296)
    (hwf : ∀ r ∈ rs, r.WF) : (RichS.mk stub (hdrWords k rs)).checksum = .ok (Spec.checksum stub rs) := by
  unfold RichS.checksum
  rw [records_hdr]; simp only [Out.bind_ok]
  rw [collect_hdr k rs hwf, checksumOf_eq stub rs hlen hwf]

/-- `encode` in closed form -/
theorem encode_eq (r : RichS) (rs : List Record) (destLen : Nat) (hlen : 4 * r.dosStub.length < 4294967296)
    (hwf : ∀ x ∈ rs, x.WF) (hn : rs.length < 536870906) :
    r.encode rs destLen = .ok (
      let k := Spec.checksum r.dosStub rs
      let total := ((k / 32) % 3 + rs.length) * 2 + 8
      if destLen < rs.length * 2 + 6 then .tooSmall total
      else .done total (hdrWords k rs ++ List.replicate (destLen - (rs.length * 2 + 6)) 0)) := by
  unfold RichS.encode
  rw [checksumOf_eq _ rs hlen hwf]; simp only [Out.bind_ok]
  generalize Spec.checksum r.dosStub rs = k
  have h1 : rs.length % 4294967296 = rs.length := Nat.mod_eq_of_lt (by omega)
  rw [h1]
  unfold padd32 pmul32
  rw [if_pos (by omega)]; simp only [Out.bind_ok]
  rw [if_pos (by omega)]; simp only [Out.bind_ok]
  rw [if_pos (by omega)]; simp only [Out.bind_ok]
  have h2 : ((k / 32 % 3 + rs.length) * 8 + 32) / 4 = (k / 32 % 3 + rs.length) * 2 + 8 := by omega
  rw [h2]
  by_cases hd : destLen < rs.length * 2 + 6
  · simp [hd]
  · simp [hd, hdrWords]


theorem tryFrom_layout (stub : List Nat) (k : Nat) (rs : List Record) (p : Nat) (rest : List Nat)
    (h16 : 16 ≤ stub.length)
    (he : stub.getD 15 0 / 4 = stub.length + (2 * rs.length + 6) + p)
    (hk : k ≠ 0) (hwf : ∀ r ∈ rs, r.WF) (him : imitates rs = false) :
    tryFrom (layoutWords stub k rs p ++ rest) = .ok ⟨stub, hdrWords k rs⟩ := by
  have hL := layoutWords_length stub k rs p
  have h15 : (layoutWords stub k rs p ++ rest)[15]? = some (stub.getD 15 0) := by
    rw [List.getElem?_append_left (by omega)]
    unfold layoutWords
    rw [List.getElem?_append_left (by omega), List.getD_eq_getElem?_getD, List.getElem?_eq_getElem (by omega)]
    simp
  unfold tryFrom
  rw [h15]
  simp only
  rw [if_neg (by rw [he, List.length_append]; omega), he, ← hL, List.take_left' rfl]
  rw [parseArea_complete _ _ _ k (layout_wellFormed stub k rs p h16) hk (layout_noFake stub k rs p hwf him)]
  rw [layout_take_stub, layout_take_drop]


/-! ### RichIter against a deque of the records -/

theorem decodeAll_length (k : Nat) : ∀ l : List Nat, (decodeAll k l).length = l.length / 2
  | [] => rfl
  | [_] => by simp [decodeAll]
  | _ :: _ :: t => by
    simp only [decodeAll, List.length_cons, decodeAll_length k t]; omega

theorem decodeAll_append_even (k : Nat) : ∀ (front l : List Nat), front.length % 2 = 0 →
    decodeAll k (front ++ l) = decodeAll k front ++ decodeAll k l
  | [], _, _ => rfl
  | [_], _, h => by simp at h
  | a :: b :: t, l, h => by
    have h' : t.length % 2 = 0 := by simp only [List.length_cons] at h; omega
    simp only [List.cons_append, decodeAll, decodeAll_append_even k t l h']

theorem decodeAll_drop (k : Nat) : ∀ (i : Nat) (l : List Nat),
    (decodeAll k l).drop i = decodeAll k (l.drop (2 * i)) := by
  intro i
  induction i with
  | zero => intro l; rfl
  | succ i ih =>
    intro l
    have h2 : 2 * (i + 1) = 2 * i + 1 + 1 := by omega
    match l with
    | [] => simp [decodeAll]
    | [a] => rw [h2]; simp [decodeAll]
    | a :: b :: t =>
      rw [h2]
      simp only [decodeAll, List.drop_succ_cons]
      exact ih t

theorem decodeAll_get (k : Nat) (l : List Nat) (i a b : Nat) (ha : l[2 * i]? = some a) (hb : l[2 * i + 1]? = some b) :
    (decodeAll k l)[i]? = some (Record.decode k a b) := by
  have h := decodeAll_drop k i l
  have h0 : (decodeAll k l)[i]? = ((decodeAll k l).drop i)[0]? := by rw [List.getElem?_drop]; rfl
  rw [h0, h]
  have ha' : (l.drop (2 * i))[0]? = some a := by rw [List.getElem?_drop]; exact ha
  have hb' : (l.drop (2 * i))[1]? = some b := by rw [List.getElem?_drop]; exact hb
  match hm : l.drop (2 * i), ha', hb' with
  | x :: y :: t, ha', hb' =>
    simp at ha' hb'
    subst ha' hb'
    simp [decodeAll]


/-- invariant of an iterator handed out by `records()`: whole records only, a real slice length -/
def Iter.Inv (it : Iter) : Prop := it.iter.length % 2 = 0 ∧ it.iter.length < USZ

theorem next_refines (it : Iter) (h : it.Inv) :
    ∃ it', it.next = .ok (it.collect.head?, it') ∧ it'.collect = it.collect.tail ∧ it'.Inv := by
  have h1 := h.1
  have h2 := h.2
  match hm : it.iter with
  | [] =>
    refine ⟨it, ?_, ?_, h⟩
    · unfold Iter.next Iter.collect; rw [hm]; simp [decodeAll]
    · unfold Iter.collect; rw [hm]; simp [decodeAll]
  | [a] => rw [hm] at h1; simp at h1
  | a :: b :: t =>
    refine ⟨⟨t, it.key⟩, ?_, ?_, ?_⟩
    · unfold Iter.next Iter.collect; rw [hm]
      rw [if_pos (by simp)]
      have i0 : idx "rich_structure.rs:254 self.iter[0]" (a :: b :: t) 0 = .ok a := by unfold idx; simp
      have i1 : idx "rich_structure.rs:254 self.iter[1]" (a :: b :: t) 1 = .ok b := by unfold idx; simp
      rw [i0, i1, slice_ok _ _ _ _ ⟨by simp, Nat.le_refl _⟩]
      simp [decodeAll]
    · unfold Iter.collect; rw [hm]; simp [decodeAll]
    · rw [hm] at h1 h2
      simp only [List.length_cons] at h1 h2
      exact ⟨by show t.length % 2 = 0; omega, by show t.length < USZ; omega⟩

theorem split_last2 (l : List Nat) (h : 2 ≤ l.length) :
    ∃ front a b, l = front ++ [a, b] ∧ front.length = l.length - 2 := by
  have h1 : l = l.take (l.length - 2) ++ l.drop (l.length - 2) := (List.take_append_drop _ _).symm
  have h2 : (l.drop (l.length - 2)).length = 2 := by rw [List.length_drop]; omega
  match hm : l.drop (l.length - 2), h2 with
  | [a, b], _ =>
    refine ⟨l.take (l.length - 2), a, b, ?_, ?_⟩
    · rw [hm] at h1; exact h1
    · rw [List.length_take]; omega

theorem nextBack_refines (it : Iter) (h : it.Inv) :
    ∃ it', it.nextBack = .ok (it.collect.getLast?, it') ∧ it'.collect = it.collect.dropLast ∧ it'.Inv := by
  by_cases hl : 2 ≤ it.iter.length
  · obtain ⟨front, a, b, hf, hfl⟩ := split_last2 it.iter hl
    have hfe : front.length % 2 = 0 := by have := h.1; omega
    have hc : it.collect = decodeAll it.key front ++ [Record.decode it.key a b] := by
      unfold Iter.collect; rw [hf, decodeAll_append_even _ _ _ hfe]; simp [decodeAll]
    refine ⟨⟨front, it.key⟩, ?_, ?_, ?_⟩
    · unfold Iter.nextBack
      simp only
      rw [if_pos hl]
      have i0 : it.iter[it.iter.length - 2]? = some a := by
        rw [← hfl]; have := get_app front [a, b] 0; rw [Nat.add_zero] at this; rw [hf, this]; rfl
      have i1 : it.iter[it.iter.length - 1]? = some b := by
        have e : it.iter.length - 1 = front.length + 1 := by omega
        rw [e, hf, get_app]; rfl
      rw [idx_of_getElem? i0, idx_of_getElem? i1, slice_ok _ _ _ _ ⟨by omega, by omega⟩]
      simp only [Out.bind_ok, List.drop_zero]
      rw [hc, ← hfl]
      congr 2
      · simp
      · congr 1; rw [hf]; exact List.take_left' rfl
    · rw [hc]; simp [Iter.collect]
    · exact ⟨hfe, by have := h.2; show front.length < USZ; omega⟩
  · have he : it.iter = [] := by
      have := h.1
      match hm : it.iter with
      | [] => rfl
      | [a] => rw [hm] at this; simp at this
      | a :: b :: t => rw [hm] at hl; simp at hl
    refine ⟨it, ?_, ?_, h⟩
    · unfold Iter.nextBack; simp only; rw [if_neg hl]; unfold Iter.collect; rw [he]; simp [decodeAll]
    · unfold Iter.collect; rw [he]; simp [decodeAll]

theorem nth_refines (it : Iter) (h : it.Inv) (n : Nat) :
    ∃ it', it.nth n = .ok (it.collect[n]?, it') ∧ it'.collect = it.collect.drop (n + 1) ∧ it'.Inv := by
  unfold Iter.nth
  by_cases hn : it.iter.length / 2 > n
  · rw [if_pos hn]
    have hlt := h.2
    unfold USZ at hlt
    have ha : it.iter[n * 2]? = some (it.iter[n * 2]'(by omega)) := List.getElem?_eq_getElem _
    have hb : it.iter[n * 2 + 1]? = some (it.iter[n * 2 + 1]'(by omega)) := List.getElem?_eq_getElem _
    unfold pmul64 padd64 USZ
    rw [if_pos (by omega)]; simp only [Out.bind_ok]
    rw [if_pos (by omega)]; simp only [Out.bind_ok]
    rw [if_pos (by omega)]; simp only [Out.bind_ok]
    rw [idx_of_getElem? ha, idx_of_getElem? hb, slice_ok _ _ _ _ ⟨by omega, Nat.le_refl _⟩]
    simp only [Out.bind_ok, List.take_length]
    refine ⟨⟨it.iter.drop (n * 2 + 2), it.key⟩, ?_, ?_, ?_⟩
    · congr 2
      unfold Iter.collect
      rw [decodeAll_get it.key it.iter n _ _ (by rw [Nat.mul_comm]; exact ha) (by rw [Nat.mul_comm]; exact hb)]
    · unfold Iter.collect
      simp only
      rw [decodeAll_drop]; congr 2; omega
    · refine ⟨?_, ?_⟩
      · simp only [List.length_drop]; have := h.1; omega
      · simp only [List.length_drop]; unfold USZ; omega
  · rw [if_neg hn, slice_ok _ _ _ _ ⟨Nat.le_refl _, Nat.zero_le _⟩]
    simp only [Out.bind_ok]
    have hlen : it.collect.length ≤ n := by unfold Iter.collect; rw [decodeAll_length]; omega
    refine ⟨⟨[], it.key⟩, ?_, ?_, ?_⟩
    · congr 2; rw [List.getElem?_eq_none hlen]
    · rw [List.drop_eq_nil_of_le (by omega)]; rfl
    · simp [Iter.Inv, USZ]

theorem step_refines (it : Iter) (h : it.Inv) (op : Op) :
    ∃ it', it.step op = .ok ((stepDeque it.collect op).1, it') ∧
      it'.collect = (stepDeque it.collect op).2 ∧ it'.Inv := by
  have hlen : it.collect.length = it.iter.length / 2 := by unfold Iter.collect; exact decodeAll_length _ _
  cases op with
  | next =>
    obtain ⟨it', h1, h2, h3⟩ := next_refines it h
    exact ⟨it', by simp [Iter.step, h1, stepDeque], by simp [stepDeque, h2], h3⟩
  | nextBack =>
    obtain ⟨it', h1, h2, h3⟩ := nextBack_refines it h
    exact ⟨it', by simp [Iter.step, h1, stepDeque], by simp [stepDeque, h2], h3⟩
  | nth n =>
    obtain ⟨it', h1, h2, h3⟩ := nth_refines it h n
    exact ⟨it', by simp [Iter.step, h1, stepDeque], by simp [stepDeque, h2], h3⟩
  | len => exact ⟨it, by simp [Iter.step, stepDeque, Iter.len, Iter.sizeHint, hlen], rfl, h⟩
  | sizeHint => exact ⟨it, by simp [Iter.step, stepDeque, Iter.sizeHint, hlen], rfl, h⟩
  | count => exact ⟨it, by simp [Iter.step, stepDeque, Iter.count, Iter.sizeHint, hlen], rfl, h⟩
  | clone => exact ⟨it, by simp [Iter.step, stepDeque], rfl, h⟩

theorem run_refines : ∀ (ops : List Op) (it : Iter), it.Inv → it.run ops = .ok (runDeque it.collect ops) := by
  intro ops
  induction ops with
  | nil => intro it _; rfl
  | cons o os ih =>
    intro it h
    obtain ⟨it', h1, h2, h3⟩ := step_refines it h o
    simp only [Iter.run, runDeque, h1, Out.bind_ok, ih it' h3, h2]


/-! no call on an iterator over any slice panics (also for a slice with a dangling odd dword) -/

theorem idx_ok (site : String) (ws : List Nat) (i : Nat) (h : i < ws.length) : idx site ws i = .ok ws[i] :=
  idx_of_getElem? (List.getElem?_eq_getElem h)

theorem next_total (it : Iter) : ∃ p, it.next = .ok p := by
  unfold Iter.next
  by_cases h : it.iter.length ≥ 2
  · rw [if_pos h, idx_ok _ _ _ (by omega), idx_ok _ _ _ (by omega), slice_ok _ _ _ _ ⟨h, Nat.le_refl _⟩]
    exact ⟨_, rfl⟩
  · rw [if_neg h]; exact ⟨_, rfl⟩

theorem nextBack_total (it : Iter) : ∃ p, it.nextBack = .ok p := by
  unfold Iter.nextBack
  simp only
  by_cases h : it.iter.length ≥ 2
  · rw [if_pos h, idx_ok _ _ _ (by omega), idx_ok _ _ _ (by omega), slice_ok _ _ _ _ ⟨by omega, by omega⟩]
    exact ⟨_, rfl⟩
  · rw [if_neg h]; exact ⟨_, rfl⟩

theorem nth_total (it : Iter) (hlen : it.iter.length < USZ) (n : Nat) : ∃ p, it.nth n = .ok p := by
  unfold Iter.nth
  unfold USZ at hlen
  by_cases hn : it.iter.length / 2 > n
  · rw [if_pos hn]
    unfold pmul64 padd64 USZ
    rw [if_pos (by omega)]; simp only [Out.bind_ok]
    rw [if_pos (by omega)]; simp only [Out.bind_ok]
    rw [if_pos (by omega)]; simp only [Out.bind_ok]
    rw [idx_ok _ _ _ (by omega), idx_ok _ _ _ (by omega), slice_ok _ _ _ _ ⟨by omega, Nat.le_refl _⟩]
    exact ⟨_, rfl⟩
  · rw [if_neg hn, slice_ok _ _ _ _ ⟨Nat.le_refl _, Nat.zero_le _⟩]; exact ⟨_, rfl⟩

theorem step_total (it : Iter) (hlen : it.iter.length < USZ) (op : Op) : ∃ p, it.step op = .ok p := by
  cases op with
  | next => obtain ⟨p, h⟩ := next_total it; exact ⟨_, by simp [Iter.step, h]; rfl⟩
  | nextBack => obtain ⟨p, h⟩ := nextBack_total it; exact ⟨_, by simp [Iter.step, h]; rfl⟩
  | nth n => obtain ⟨p, h⟩ := nth_total it hlen n; exact ⟨_, by simp [Iter.step, h]; rfl⟩
  | len => exact ⟨_, rfl⟩
  | sizeHint => exact ⟨_, rfl⟩
  | count => exact ⟨_, rfl⟩
  | clone => exact ⟨_, rfl⟩

/-- `next` run to exhaustion is `collect` (ties `decodeAll` to the state machine) -/
theorem collect_next_some (it it' : Iter) (r : Record) (h : it.next = .ok (some r, it')) :
    it.collect = r :: it'.collect := by
  unfold Iter.next at h
  unfold Iter.collect
  match hm : it.iter with
  | [] => rw [hm] at h; simp at h
  | [a] => rw [hm] at h; simp at h
  | a :: b :: t =>
    rw [hm] at h
    simp [idx, slice] at h
    obtain ⟨h1, h2⟩ := h
    subst h1 h2
    simp [decodeAll]

theorem collect_next_none (it it' : Iter) (h : it.next = .ok (none, it')) : it.collect = [] ∧ it' = it := by
  unfold Iter.next at h
  by_cases hl : it.iter.length ≥ 2
  · rw [if_pos hl, idx_ok _ _ _ (by omega), idx_ok _ _ _ (by omega), slice_ok _ _ _ _ ⟨hl, Nat.le_refl _⟩] at h
    simp at h
  · rw [if_neg hl] at h
    simp only [Out.ok.injEq, Prod.mk.injEq, true_and] at h
    refine ⟨?_, h.symm⟩
    unfold Iter.collect
    match hm : it.iter, hl with
    | [], _ => rfl
    | [a], _ => rfl
    | a :: b :: t, hl => simp at hl


/-! ### `try_from` as a whole: totality, soundness, the parsed area is the documented layout -/

theorem tryFrom_eq (image : List Nat) :
    tryFrom image = if 16 ≤ image.length ∧ image.getD 15 0 / 4 ≤ image.length then parseArea (areaOf image)
      else .err .invalid := by
  unfold tryFrom areaOf
  by_cases h16 : 16 ≤ image.length
  · have h15 : image[15]? = some (image.getD 15 0) := by
      rw [List.getD_eq_getElem?_getD, List.getElem?_eq_getElem (by omega)]; simp
    rw [h15]
    simp only
    by_cases hn : image.getD 15 0 / 4 ≤ image.length
    · rw [if_neg (by omega), if_pos ⟨h16, hn⟩]
    · rw [if_pos (by omega), if_neg (by omega)]
  · have h15 : image[15]? = none := List.getElem?_eq_none (by omega)
    rw [h15, if_neg (by omega)]

/-- `try_from` never panics, never reads out of bounds, terminates: it answers a structure, `Invalid` or `BadMagic` -/
theorem tryFrom_total (image : List Nat) :
    (∃ r, tryFrom image = .ok r) ∨ tryFrom image = .err .invalid ∨ tryFrom image = .err .badMagic := by
  rw [tryFrom_eq]
  split
  · rcases parseArea_spec (areaOf image) with ⟨s, e, k, h, _⟩ | h | h
    · exact Or.inl ⟨_, h⟩
    · exact Or.inr (Or.inl h)
    · exact Or.inr (Or.inr h)
  · exact Or.inr (Or.inl rfl)

theorem tryFrom_sound (image : List Nat) (r : RichS) (h : tryFrom image = .ok r) :
    16 ≤ image.length ∧ image.getD 15 0 / 4 ≤ image.length ∧
    ∃ s e k, r = ⟨(areaOf image).take s, ((areaOf image).take e).drop s⟩ ∧
      WellFormedAt (areaOf image) s e k ∧ k ≠ 0 ∧ NoFake (areaOf image) s e k := by
  rw [tryFrom_eq] at h
  split at h
  · rename_i hc
    refine ⟨hc.1, hc.2, ?_⟩
    rcases parseArea_spec (areaOf image) with ⟨s, e, k, h1, h2, h3, h4⟩ | h1 | h1
    · rw [h1] at h; cases h; exact ⟨s, e, k, rfl, h2, h3, h4⟩
    · rw [h1] at h; cases h
    · rw [h1] at h; cases h
  · cases h

/-- shape of a parsed structure: where its two slices lie and what the header dwords are -/
theorem parsed_shape (area : List Nat) (s e k : Nat) (hwf : WellFormedAt area s e k) :
    (area.take s).length = s ∧ ((area.take e).drop s).length = e - s ∧
    ∀ i, s + i < e → ((area.take e).drop s)[i]? = area[s + i]? := by
  obtain ⟨w1, w2, w3, _⟩ := hwf
  refine ⟨by rw [List.length_take]; omega, by rw [List.length_drop, List.length_take]; omega, ?_⟩
  intro i hi
  rw [List.getElem?_drop, List.getElem?_take, if_pos hi]


theorem list_shape (M : List Nat) (a b c d x y : Nat) (h6 : 6 ≤ M.length)
    (h0 : M[0]? = some a) (h1 : M[1]? = some b) (h2 : M[2]? = some c) (h3 : M[3]? = some d)
    (hx : M[M.length - 2]? = some x) (hy : M[M.length - 1]? = some y) :
    M = [a, b, c, d] ++ ((M.take (M.length - 2)).drop 4 ++ [x, y]) := by
  match M, h6 with
  | m0 :: m1 :: m2 :: m3 :: rest, h6 =>
    simp only [List.length_cons] at h6 hx hy
    have hr : 2 ≤ rest.length := by omega
    obtain ⟨front, p, q, hf, hfl⟩ := split_last2 rest hr
    simp at h0 h1 h2 h3
    subst h0 h1 h2 h3
    have e1 : rest.length + 1 + 1 + 1 + 1 - 2 = (front.length + 3) + 1 := by omega
    have e2 : rest.length + 1 + 1 + 1 + 1 - 1 = (front.length + 1 + 3) + 1 := by omega
    rw [e1] at hx; rw [e2] at hy
    simp only [List.getElem?_cons_succ] at hx hy
    have gx : rest[front.length]? = some p := by rw [hf]; have := get_app front [p, q] 0; rw [Nat.add_zero] at this; rw [this]; rfl
    have gy : rest[front.length + 1]? = some q := by rw [hf, get_app]; rfl
    have hx' := hx
    have hy' := hy
    rw [gx] at hx'; rw [gy] at hy'
    cases hx'; cases hy'
    have e3 : (m0 :: m1 :: m2 :: m3 :: rest).length - 2 = 4 + front.length := by simp only [List.length_cons]; omega
    rw [e3]
    have : List.take (4 + front.length) (m0 :: m1 :: m2 :: m3 :: rest) = m0 :: m1 :: m2 :: m3 :: front := by
      have : 4 + front.length = front.length + 1 + 1 + 1 + 1 := by omega
      rw [this]; simp only [List.take_succ_cons]
      rw [hf, List.take_left' rfl]
    rw [this, hf]
    rfl


theorem encodeAll_decodeAll (k : Nat) (hk : k < 4294967296) : ∀ l : List Nat, l.length % 2 = 0 →
    (∀ w ∈ l, w < 4294967296) → encodeAll k (decodeAll k l) = l
  | [], _, _ => rfl
  | [_], h, _ => by simp at h
  | a :: b :: t, h, hb => by
    have h' : t.length % 2 = 0 := by simp only [List.length_cons] at h; omega
    simp only [decodeAll, encodeAll]
    rw [encode_decode k a b hk (hb a (by simp)), encodeAll_decodeAll k hk t h' (fun w hw => hb w (by simp [hw]))]

theorem decodeAll_wf (k : Nat) (hk : k < 4294967296) : ∀ l : List Nat,
    (∀ w ∈ l, w < 4294967296) → ∀ r ∈ decodeAll k l, r.WF
  | [], _, r, hr => by simp [decodeAll] at hr
  | [_], _, r, hr => by simp [decodeAll] at hr
  | a :: b :: t, hb, r, hr => by
    simp only [decodeAll, List.mem_cons] at hr
    rcases hr with hr | hr
    · rw [hr]; exact decode_wf k a b hk (hb b (by simp))
    · exact decodeAll_wf k hk t (fun w hw => hb w (by simp [hw])) r hr

/-- a well-formed area *is* the documented layout of its stub, its key and its decoded records -/
theorem parsed_layout (area : List Nat) (s e k : Nat) (hwf : WellFormedAt area s e k)
    (hb : ∀ w ∈ area, w < 4294967296) :
    ∃ rs : List Record, (∀ r ∈ rs, r.WF) ∧ e = s + (2 * rs.length + 6) ∧
      (area.take e).drop s = hdrWords k rs ∧
      area = layoutWords (area.take s) k rs (area.length - e) := by
  have hshape := parsed_shape area s e k hwf
  obtain ⟨w1, w2, w3, w4, w5, w6, w7, w8, w9, w10, w11⟩ := hwf
  rw [dans_eq] at w5; rw [rich_eq] at w9
  obtain ⟨_, hML, hMi⟩ := hshape
  generalize hM : (area.take e).drop s = M at *
  have hk : k < 4294967296 := hb k (List.mem_of_getElem? w6)
  have hMsub : ∀ w ∈ M, w < 4294967296 := by
    intro w hw; rw [← hM] at hw
    exact hb w (List.mem_of_mem_take (List.mem_of_mem_drop hw))
  have hs : M = [DANS ^^^ k, k, k, k] ++ ((M.take (M.length - 2)).drop 4 ++ [RICH, k]) := by
    apply list_shape M _ _ _ _ _ _ (by omega)
    · rw [hMi 0 (by omega)]; exact w5
    · rw [hMi 1 (by omega)]; exact w6
    · rw [hMi 2 (by omega)]; exact w7
    · rw [hMi 3 (by omega)]; exact w8
    · rw [hML, hMi _ (by omega), ← w9]; congr 1; omega
    · rw [hML, hMi _ (by omega), ← w10]; congr 1; omega
  generalize hB : (M.take (M.length - 2)).drop 4 = body at hs
  have hBl : body.length = e - s - 6 := by
    rw [← hB, List.length_drop, List.length_take, hML]; omega
  have hBsub : ∀ w ∈ body, w < 4294967296 := by
    intro w hw; rw [← hB] at hw
    exact hMsub w (List.mem_of_mem_take (List.mem_of_mem_drop hw))
  have hround : encodeAll k (decodeAll k body) = body := encodeAll_decodeAll k hk body (by omega) hBsub
  refine ⟨decodeAll k body, decodeAll_wf k hk body hBsub, ?_, ?_, ?_⟩
  · rw [decodeAll_length]; omega
  · unfold hdrWords; rw [hround]; exact hs
  · have hz : area.drop e = List.replicate (area.length - e) 0 := by
      rw [List.eq_replicate_iff]
      refine ⟨by rw [List.length_drop], ?_⟩
      intro b hbm
      obtain ⟨i, hi⟩ := List.getElem?_of_mem hbm
      rw [List.getElem?_drop] at hi
      have hlt : e + i < area.length := by
        by_cases hlt : e + i < area.length
        · exact hlt
        · rw [List.getElem?_eq_none (by omega)] at hi; cases hi
      have := w11 (e + i) hlt (by omega)
      rw [this] at hi; cases hi; rfl
    unfold layoutWords hdrWords
    rw [hround, ← hs, ← hz, ← hM]
    have t1 : area.take s = (area.take e).take s := by rw [List.take_take, Nat.min_eq_left (by omega)]
    rw [t1, ← List.append_assoc, List.take_append_drop, List.take_append_drop]


theorem wordsGo_lt (b : Bytes) : ∀ (n i : Nat), ∀ w ∈ wordsGo b n i, w < 4294967296 := by
  intro n
  induction n with
  | zero => intro i w hw; simp [wordsGo] at hw
  | succ n ih =>
    intro i w hw
    simp only [wordsGo, List.mem_cons] at hw
    rcases hw with hw | hw
    · rw [hw]; exact le32_lt b _
    · exact ih _ w hw

theorem words_lt (b : Bytes) : ∀ w ∈ words b, w < 4294967296 := wordsGo_lt b _ _

theorem ofImage_eq (img : Img) (h : img.base % 4 = 0) : ofImage img = tryFrom (words img.bytes) := by
  unfold ofImage rawRef
  rw [if_pos ⟨by omega, by simpa using h⟩]
  rfl


end Pelite.Rich
