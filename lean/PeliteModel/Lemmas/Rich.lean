import PeliteModel.Spec.Rich
/-! Helper lemmas for C16 (property theorems live in Thm/C16.lean). -/
namespace Pelite.Rich
end Pelite.Rich
