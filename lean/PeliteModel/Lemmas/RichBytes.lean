import PeliteModel.Lemmas.Rich
/-!
The bytes bridge of C16: the dword lists the Rich-header theorems talk about are exactly what
`Pe::rich_structure` sees of a byte buffer (`words`), for the little-endian bytes `Spec.bytesOf` of any
list of 32-bit values; and every dword of the documented layout is a 32-bit value.  Core-only.
-/
namespace Pelite.Rich
open Spec

theorem stubBytes_length (ws : List Nat) : (stubBytes ws).length = 4 * ws.length := by
  induction ws with
  | nil => rfl
  | cons w ws ih => rw [stubBytes_cons]; simp [ih]; omega

theorem stubBytes_append (a b : List Nat) : stubBytes (a ++ b) = stubBytes a ++ stubBytes b := by
  unfold stubBytes; exact List.flatMap_append

theorem bytesOf_size (ws : List Nat) : (bytesOf ws).size = 4 * ws.length := by
  unfold bytesOf; simp [stubBytes_length]

theorem byteAt_append_left (a t : Bytes) (i : Nat) (h : i < a.size) : byteAt (a ++ t) i = byteAt a i := by
  unfold byteAt
  simp [Array.getD, h, Array.getElem_append_left, Nat.lt_add_right]

theorem byteAt_bytesOf (pre ws : List Nat) (w : Nat) (j : Nat) (hj : j < 4) :
    byteAt (bytesOf (pre ++ w :: ws)) (4 * pre.length + j) =
      [w % 256, w / 256 % 256, w / 65536 % 256, w / 16777216 % 256].getD j 0 := by
  unfold byteAt bytesOf
  rw [stubBytes_append, stubBytes_cons]
  have hl := stubBytes_length pre
  simp only [List.map_append, List.map_cons, Array.getD_eq_getD_getElem?, List.getElem?_toArray]
  rw [List.getElem?_append_right (by simp [hl])]
  simp only [List.length_map, hl, Nat.add_sub_cancel_left]
  have h0 := Nat.mod_lt w (show 256 > 0 by decide)
  have h1 := Nat.mod_lt (w / 256) (show 256 > 0 by decide)
  have h2 := Nat.mod_lt (w / 65536) (show 256 > 0 by decide)
  have h3 := Nat.mod_lt (w / 16777216) (show 256 > 0 by decide)
  have hj' : j = 0 ∨ j = 1 ∨ j = 2 ∨ j = 3 := by omega
  rcases hj' with rfl | rfl | rfl | rfl <;> simp [UInt8.toNat_ofNat'] <;> omega

theorem le32_bytesOf (pre ws : List Nat) (w : Nat) (tail : Bytes) (hw : w < 4294967296) :
    le32 (bytesOf (pre ++ w :: ws) ++ tail) (4 * pre.length) = w := by
  have hs : (bytesOf (pre ++ w :: ws)).size = 4 * pre.length + 4 + 4 * ws.length := by
    rw [bytesOf_size]; simp; omega
  unfold le32
  rw [byteAt_append_left _ _ _ (by omega), byteAt_append_left _ _ _ (by omega),
    byteAt_append_left _ _ _ (by omega), byteAt_append_left _ _ _ (by omega)]
  have b0 := byteAt_bytesOf pre ws w 0 (by omega)
  have b1 := byteAt_bytesOf pre ws w 1 (by omega)
  have b2 := byteAt_bytesOf pre ws w 2 (by omega)
  have b3 := byteAt_bytesOf pre ws w 3 (by omega)
  simp only [Nat.add_zero] at b0
  rw [b0, b1, b2, b3]
  simp
  omega

theorem wordsGo_bytesOf (tail : Bytes) : ∀ (ws pre : List Nat), (∀ w ∈ ws, w < 4294967296) →
    wordsGo (bytesOf (pre ++ ws) ++ tail) ws.length pre.length = ws := by
  intro ws
  induction ws with
  | nil => intro pre _; rfl
  | cons w ws ih =>
    intro pre h
    simp only [List.length_cons, wordsGo]
    rw [le32_bytesOf pre ws w tail (h w (by simp))]
    have := ih (pre ++ [w]) (fun x hx => h x (by simp [hx]))
    simp only [List.append_assoc, List.cons_append, List.nil_append, List.length_append, List.length_cons,
      List.length_nil] at this
    rw [this]

/-- **dwords ∘ bytes = id**: the little-endian bytes of a list of 32-bit values, followed by up to three
bytes that do not fill a dword, are seen by `Pe::rich_structure` as exactly these values. -/
theorem words_bytesOf_append (ws : List Nat) (tail : Bytes) (h : ∀ w ∈ ws, w < 4294967296)
    (ht : tail.size < 4) : words (bytesOf ws ++ tail) = ws := by
  unfold words
  have : (bytesOf ws ++ tail).size / 4 = ws.length := by
    rw [Array.size_append, bytesOf_size]; omega
  rw [this]
  exact wordsGo_bytesOf tail ws [] h

theorem words_bytesOf (ws : List Nat) (h : ∀ w ∈ ws, w < 4294967296) : words (bytesOf ws) = ws := by
  have := words_bytesOf_append ws #[] h (by decide)
  simpa using this

theorem xor_lt32 {a b : Nat} (ha : a < 4294967296) (hb : b < 4294967296) : a ^^^ b < 4294967296 :=
  Nat.xor_lt_two_pow (n := 32) ha hb

theorem checksum_lt (stub : List Nat) (rs : List Record) : Spec.checksum stub rs < 4294967296 := by
  unfold Spec.checksum; omega

theorem layout_lt (stub : List Nat) (k : Nat) (rs : List Record) (pad : Nat)
    (hs : ∀ w ∈ stub, w < 4294967296) (hk : k < 4294967296) (hwf : ∀ r ∈ rs, r.WF) :
    ∀ w ∈ Spec.layout stub k rs pad, w < 4294967296 := by
  intro w hw
  simp only [Spec.layout, Spec.header, List.mem_append, List.mem_cons, List.mem_flatMap, encRecord,
    List.mem_replicate, List.not_mem_nil, or_false] at hw
  rcases hw with (hw | ((hw | hw | hw | hw) | ⟨r, hr, hw | hw⟩) | hw | hw) | ⟨_, hw⟩
  · exact hs w hw
  · subst hw; exact xor_lt32 (by decide) hk
  · subst hw; exact hk
  · subst hw; exact hk
  · subst hw; exact hk
  · subst hw
    obtain ⟨h1, h2, _⟩ := hwf r hr
    exact xor_lt32 (by unfold compId; omega) hk
  · subst hw; exact xor_lt32 (hwf r hr).2.2 hk
  · subst hw; decide
  · subst hw; exact hk
  · subst hw; decide

end Pelite.Rich
