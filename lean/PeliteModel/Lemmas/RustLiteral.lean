import PeliteModel.Model.Pattern
import PeliteModel.Spec.RustLiteral
/-!
Lemmas tying the model of `parse_str_literal` (`unescape`, Model/Pattern.lean) to the independent
meaning of Rust string literals (`Spec.rustLitValue`, Spec/RustLiteral.lean), and the facts about the
reference writer `escapeWith`.  Core-only.
-/
namespace Pelite.Pattern
open Spec

/-! ## Unfolding `litBody` (well-founded recursion) -/

theorem litBody_nil : litBody [] = none := by rw [litBody]
theorem litBody_quote (r : List Char) : litBody ('"' :: r) = some ([], r) := by rw [litBody]
theorem litBody_cr (r : List Char) : litBody ('\r' :: r) = none := by rw [litBody]
theorem litBody_bs (cs : List Char) : litBody ('\\' :: cs) =
    match escapeSeq cs with
    | none => none
    | some (oc, rest) =>
      match litBody rest with
      | some (v, r) => some (oc.toList ++ v, r)
      | none => none := by
  rw [litBody]
  split
  · simp_all
  · next oc rest h => rw [h]; dsimp only; rcases litBody rest with _ | ⟨v, r⟩ <;> rfl
theorem litBody_plain (c : Char) (cs : List Char) (h1 : c ≠ '"') (h2 : c ≠ '\r') (h3 : c ≠ '\\') :
    litBody (c :: cs) = match litBody cs with
      | some (v, r) => some (c :: v, r)
      | none => none := by
  rw [litBody]
  · rcases litBody cs with _ | ⟨v, r⟩ <;> rfl
  all_goals simp_all

/-! ## `unescapeGo` against `litBody` -/

theorem unescapeGo_plain (c : Char) (cs acc : List Char) (h1 : c ≠ '\\') (h2 : c ≠ '"') :
    unescapeGo (c :: cs) acc = unescapeGo cs (c :: acc) := by
  rw [unescapeGo]
  · intro h; exact h1 h
  · intro h; exact h2 h

theorem unescapeGo_sound (cs acc out : List Char) (h : unescapeGo cs acc = .ok out) (hcr : '\r' ∉ cs) :
    ∃ v rest, litBody cs = some (v, rest) ∧ out = acc.reverse ++ v := by
  fun_induction unescapeGo cs acc
  all_goals try (simp at h; done)
  case case11 tail acc => exact ⟨[], tail, litBody_quote _, by simp_all⟩
  case case12 c cs acc h1 h2 ih =>
    obtain ⟨v, rest, hv, rfl⟩ := ih h (by simp_all)
    refine ⟨c :: v, rest, ?_, by simp⟩
    rw [litBody_plain c cs (by simpa using h2) (by intro h; simp [h] at hcr) (by simpa using h1), hv]
  all_goals
    rename_i ih
    obtain ⟨v, rest, hv, rfl⟩ := ih h (by simp_all)
    rw [litBody_bs]; simp [escapeSeq, hv]

theorem escapeSeq_supported (c : Char) (cs : List Char) (oc : Option Char) (rest : List Char)
    (h : escapeSeq (c :: cs) = some (oc, rest)) (h0 : c ≠ '0') (hx : c ≠ 'x') (hu : c ≠ 'u') (hn : c ≠ '\n') :
    rest = cs ∧ ∃ d, oc = some d ∧
      ∀ rest' acc, unescapeGo ('\\' :: c :: rest') acc = unescapeGo rest' (d :: acc) := by
  generalize hl : c :: cs = l at h
  fun_cases escapeSeq l
  all_goals simp_all [escapeSeq]
  all_goals (obtain ⟨rfl, _⟩ := h; simp [unescapeGo])

theorem unescapeGo_complete (cs : List Char) (acc v rest : List Char)
    (h : litBody cs = some (v, rest)) (hu : usesUnsupported cs = false) :
    unescapeGo cs acc = .ok (acc.reverse ++ v) := by
  fun_induction usesUnsupported cs generalizing acc v
  case case1 => simp [litBody_nil] at h
  case case2 => simp [litBody_quote] at h; simp [unescapeGo, h.1]
  case case3 c cs ih =>
    simp only [Bool.or_eq_false_iff, decide_eq_false_iff_not] at hu
    obtain ⟨⟨⟨⟨h0, hx⟩, huu⟩, hn⟩, hrec⟩ := hu
    rw [litBody_bs] at h
    split at h
    · cases h
    · next oc rest' he =>
      obtain ⟨rfl, d, rfl, hstep⟩ := escapeSeq_supported c cs oc rest' he h0 hx huu hn
      split at h
      · next v' r hv =>
        cases h
        rw [hstep, ih _ _ hv hrec]; simp
      · cases h
  case case4 c cs h1 h2 ih =>
    by_cases hb : c = '\\'
    · subst hb
      cases cs with
      | nil => simp [litBody_bs, escapeSeq] at h
      | cons d cs => exact (h2 d cs rfl rfl).elim
    · by_cases hr : c = '\r'
      · subst hr; simp [litBody_cr] at h
      · rw [litBody_plain c cs (by simpa using h1) hr hb] at h
        split at h
        · next v' r hv =>
          cases h
          rw [unescapeGo_plain c cs acc hb (by simpa using h1), ih _ _ hv hu]; simp
        · cases h

theorem unescapeGo_unsupported (cs : List Char) (acc v rest : List Char)
    (h : litBody cs = some (v, rest)) (hu : usesUnsupported cs = true) :
    unescapeGo cs acc = .error .unicodeEscape ∨ unescapeGo cs acc = .error (.unknownEscape '0') ∨
    unescapeGo cs acc = .error (.unknownEscape 'x') ∨ unescapeGo cs acc = .error (.unknownEscape '\n') := by
  fun_induction usesUnsupported cs generalizing acc v
  case case1 => simp at hu
  case case2 => simp at hu
  case case3 c cs ih =>
    by_cases h0 : c = '0'
    · subst h0; simp [unescapeGo]
    by_cases hx : c = 'x'
    · subst hx; simp [unescapeGo]
    by_cases huu : c = 'u'
    · subst huu; simp [unescapeGo]
    by_cases hn : c = '\n'
    · subst hn; simp [unescapeGo]
    simp only [h0, hx, huu, hn, decide_false, Bool.false_or] at hu
    rw [litBody_bs] at h
    split at h
    · cases h
    · next oc rest' he =>
      obtain ⟨rfl, d, rfl, hstep⟩ := escapeSeq_supported c cs oc rest' he h0 hx huu hn
      split at h
      · next v' r hv =>
        cases h
        rw [hstep]; exact ih _ _ hv hu
      · cases h
  case case4 c cs h1 h2 ih =>
    by_cases hb : c = '\\'
    · subst hb
      cases cs with
      | nil => simp [litBody_bs, escapeSeq] at h
      | cons d cs => exact (h2 d cs rfl rfl).elim
    · by_cases hr : c = '\r'
      · subst hr; simp [litBody_cr] at h
      · rw [litBody_plain c cs (by simpa using h1) hr hb] at h
        split at h
        · next v' r hv =>
          cases h
          rw [unescapeGo_plain c cs acc hb (by simpa using h1)]; exact ih _ _ hv hu
        · cases h

/-! ## The reference writer -/

theorem unescapeGo_escChar (b : Bool) (c : Char) (rest acc : List Char) :
    unescapeGo (escChar b c ++ rest) acc = unescapeGo rest (c :: acc) := by
  unfold escChar
  split
  · next h => subst h; simp [unescapeGo]
  · split
    · next h => subst h; simp [unescapeGo]
    · next h1 h2 =>
      split
      · split
        · next h => subst h; simp [unescapeGo]
        · split
          · next h => subst h; simp [unescapeGo]
          · split
            · next h => subst h; simp [unescapeGo]
            · split
              · next h => subst h; simp [unescapeGo]
              · exact unescapeGo_plain c rest acc h1 h2
      · exact unescapeGo_plain c rest acc h1 h2

theorem unescapeGo_body : ∀ (cs : List Char) (bs : List Bool) (rest acc : List Char),
    unescapeGo (escapeBody bs cs ++ rest) acc = unescapeGo rest (cs.reverse ++ acc) := by
  intro cs
  induction cs with
  | nil => intro bs rest acc; cases bs <;> simp [escapeBody]
  | cons c cs ih =>
    intro bs rest acc
    cases bs with
    | nil => simp only [escapeBody, List.append_assoc, unescapeGo_escChar, ih]; simp
    | cons b bs => simp only [escapeBody, List.append_assoc, unescapeGo_escChar, ih]; simp

theorem unescape_escapeWith (bs : List Bool) (cs junk : List Char) :
    unescape (escapeWith bs cs ++ junk) = .ok cs := by
  unfold escapeWith unescape
  simp only [List.cons_append, List.append_assoc]
  rw [unescapeGo_body]
  simp [unescapeGo]


theorem litBody_escChar (b : Bool) (c : Char) (rest v r : List Char) (h : '\r' ∉ escChar b c)
    (hv : litBody rest = some (v, r)) : litBody (escChar b c ++ rest) = some (c :: v, r) := by
  unfold escChar at h ⊢
  repeat' split
  all_goals first
    | (subst_vars; simp [litBody_bs, escapeSeq, hv]; done)
    | (simp only [List.cons_append, List.nil_append]
       rw [litBody_plain c rest (by assumption) (by simp_all [eq_comm]) (by assumption), hv])

theorem litBody_escapeBody (cs : List Char) (bs : List Bool) (junk : List Char)
    (h : '\r' ∉ escapeBody bs cs) : litBody (escapeBody bs cs ++ '"' :: junk) = some (cs, junk) := by
  induction cs generalizing bs with
  | nil => cases bs <;> simp [escapeBody, litBody_quote]
  | cons c cs ih =>
    cases bs with
    | nil =>
      simp only [escapeBody, List.mem_append, not_or] at h
      simp only [escapeBody, List.append_assoc]
      exact litBody_escChar _ _ _ _ _ h.1 (ih _ h.2)
    | cons b bs =>
      simp only [escapeBody, List.mem_append, not_or] at h
      simp only [escapeBody, List.append_assoc]
      exact litBody_escChar _ _ _ _ _ h.1 (ih _ h.2)

theorem rustLitLex_escapeWith (bs : List Bool) (cs junk : List Char) (h : '\r' ∉ escapeWith bs cs) :
    rustLitLex (escapeWith bs cs ++ junk) = some (cs, junk) := by
  unfold escapeWith at h ⊢
  simp only [List.cons_append, List.append_assoc, List.nil_append, rustLitLex]
  exact litBody_escapeBody cs bs junk (by simp_all)

theorem cr_not_mem_escChar_true (c : Char) : '\r' ∉ escChar true c := by
  unfold escChar
  repeat' split
  all_goals simp_all [eq_comm]

theorem cr_not_mem_escape (cs : List Char) : '\r' ∉ escape cs := by
  unfold escape escapeWith
  have : '\r' ∉ escapeBody [] cs := by
    induction cs with
    | nil => simp [escapeBody]
    | cons c cs ih => simp [escapeBody, cr_not_mem_escChar_true, ih]
  simp [this]

/-! ## Whole literals -/

theorem unescape_sound (lit cs : List Char) (hcr : '\r' ∉ lit) (h : unescape lit = .ok cs) :
    rustLitValue lit = some cs := by
  unfold unescape at h
  split at h
  · next body =>
    obtain ⟨v, rest, hv, rfl⟩ := unescapeGo_sound body [] cs h (by simp_all)
    simp [rustLitValue, rustLitLex, hv]
  · cases h

theorem unescape_complete (lit cs : List Char) (h : rustLitValue lit = some cs) :
    unescape lit = .ok cs ∨ UsesUnsupportedEscape lit := by
  unfold rustLitValue rustLitLex at h
  split at h
  · next body =>
    cases hb : litBody body with
    | none => simp [hb] at h
    | some p =>
      obtain ⟨v, rest⟩ := p
      simp [hb] at h
      subst h
      cases hu : usesUnsupported body with
      | true => right; simpa [UsesUnsupportedEscape] using hu
      | false => left; simpa [unescape] using unescapeGo_complete body [] v rest hb hu
  · simp at h

theorem unescape_unsupported (lit cs : List Char) (h : rustLitValue lit = some cs)
    (hu : UsesUnsupportedEscape lit) :
    unescape lit = .error .unicodeEscape ∨ unescape lit = .error (.unknownEscape '0') ∨
    unescape lit = .error (.unknownEscape 'x') ∨ unescape lit = .error (.unknownEscape '\n') := by
  unfold rustLitValue rustLitLex at h
  split at h
  · next body =>
    cases hb : litBody body with
    | none => simp [hb] at h
    | some p =>
      obtain ⟨v, rest⟩ := p
      simpa [unescape] using unescapeGo_unsupported body [] v rest hb (by simpa [UsesUnsupportedEscape] using hu)
  · simp at h

end Pelite.Pattern
