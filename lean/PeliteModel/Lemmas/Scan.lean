import PeliteModel.Lemmas.Exec
/-!
Lemmas about the scanner model `Scan.*` (C10): the window comparison, the Horspool skip table and
`shift_safe`, and for each of the three searches, `next_section`, the section loop and `next` one
combined statement (`SearchOK`): the call returns normally, a reported position was accepted by the
interpreter, and every position it moved `range.start` past was either executed and rejected or
does not hold the literal prefix (`dead`).
-/
namespace Pelite.Scan
open Pelite.Pattern Pelite.Exec

/-! ### primitives -/

theorem padd32_ok {site : String} {a b : Nat} (h : a + b < 4294967296) : padd32 site a b = .ok (a + b) := by
  simp [padd32, h]

@[simp] theorem bind_ok' {α β} (a : α) (f : α → Out β) : (Out.ok a).bind f = f a := rfl

theorem winEq_true_iff (bytes : Bytes) : ∀ (qs : List Nat) (o : Nat),
    winEq bytes o qs = true ↔ ∀ t b, qs[t]? = some b → byteAt bytes (o + t) = b := by
  intro qs
  induction qs with
  | nil => intro o; simp [winEq]
  | cons q qs ih =>
    intro o
    simp only [winEq, Bool.and_eq_true, beq_iff_eq, ih]
    constructor
    · rintro ⟨h0, h1⟩ t b hb
      cases t with
      | zero => simp only [List.getElem?_cons_zero, Option.some.injEq] at hb; rw [Nat.add_zero, h0, hb]
      | succ t =>
        simp only [List.getElem?_cons_succ] at hb
        have := h1 t b hb
        rwa [Nat.add_assoc, Nat.add_comm 1 t] at this
    · intro h
      refine ⟨by simpa using h 0 q rfl, ?_⟩
      intro t b hb
      have := h (t + 1) b (by simpa using hb)
      rwa [Nat.add_assoc, Nat.add_comm 1 t]

/-- the window does not hold the prefix as soon as one byte differs -/
theorem winEq_false_of_ne (bytes : Bytes) (qs : List Nat) (o t b : Nat) (hb : qs[t]? = some b)
    (hne : byteAt bytes (o + t) ≠ b) : winEq bytes o qs = false := by
  cases h : winEq bytes o qs with
  | false => rfl
  | true => exact absurd ((winEq_true_iff bytes qs o).1 h t b hb) hne

/-! ### the skip table -/

/-- the table after the first `n` iterations of the initialisation loop -/
def jumpsUpTo (qs : List Nat) (n : Nat) : Array Nat :=
  (List.range n).foldl
    (fun J i => J.setIfInBounds (qs.getD i 0) (qs.length - i - 1)) (Array.replicate 256 qs.length)

theorem mkJumps_eq (qs : List Nat) : mkJumps qs = jumpsUpTo qs (qs.length - 1) := rfl

theorem jumpsUpTo_succ (qs : List Nat) (n : Nat) :
    jumpsUpTo qs (n + 1) = (jumpsUpTo qs n).setIfInBounds (qs.getD n 0) (qs.length - n - 1) := by
  simp [jumpsUpTo, List.range_succ, List.foldl_append]

theorem jumpsUpTo_spec (qs : List Nat) (hq : ∀ q ∈ qs, q < 256) : ∀ n, n + 1 ≤ qs.length →
    (jumpsUpTo qs n).size = 256 ∧
    (∀ b, b < 256 → ∃ j, (jumpsUpTo qs n)[b]? = some j ∧ 1 ≤ j ∧ j ≤ qs.length) ∧
    (∀ t, t < n → ∃ j, (jumpsUpTo qs n)[qs.getD t 0]? = some j ∧ j ≤ qs.length - 1 - t) := by
  intro n
  induction n with
  | zero =>
    intro h
    refine ⟨by simp [jumpsUpTo], ?_, fun t ht => absurd ht (Nat.not_lt_zero _)⟩
    intro b hb
    exact ⟨qs.length, by simp [jumpsUpTo, hb], by omega, Nat.le_refl _⟩
  | succ n ih =>
    intro h
    obtain ⟨hsz, h1, h2⟩ := ih (by omega)
    have hqn : qs.getD n 0 < 256 := by
      have hn : n < qs.length := by omega
      rw [List.getD_eq_getElem?_getD, List.getElem?_eq_getElem hn]
      exact hq _ (List.getElem_mem hn)
    rw [jumpsUpTo_succ]
    refine ⟨by rw [Array.size_setIfInBounds, hsz], ?_, ?_⟩
    · intro b hb
      rw [Array.getElem?_setIfInBounds]
      by_cases he : qs.getD n 0 = b
      · rw [if_pos he, if_pos (by rw [hsz]; exact hqn)]
        exact ⟨_, rfl, by omega, by omega⟩
      · rw [if_neg he]; exact h1 b hb
    · intro t ht
      rw [Array.getElem?_setIfInBounds]
      by_cases he : qs.getD n 0 = qs.getD t 0
      · rw [if_pos he, if_pos (by rw [hsz]; exact hqn)]
        exact ⟨_, rfl, by omega⟩
      · rw [if_neg he]
        have htn : t < n := by
          rcases Nat.lt_or_ge t n with h' | h'
          · exact h'
          · have : t = n := by omega
            subst this; exact absurd rfl he
        exact h2 t htn

/-- `jumps[b]` for a byte `b`: between 1 and the prefix length -/
theorem mkJumps_bounds (qs : List Nat) (hq : ∀ q ∈ qs, q < 256) (hlen : 1 ≤ qs.length) (b : Nat) (hb : b < 256) :
    1 ≤ (mkJumps qs).getD b 0 ∧ (mkJumps qs).getD b 0 ≤ qs.length := by
  obtain ⟨_, h1, _⟩ := jumpsUpTo_spec qs hq (qs.length - 1) (by omega)
  obtain ⟨j, hj, h⟩ := h1 b hb
  rw [mkJumps_eq, Array.getD_eq_getD_getElem?, hj]
  exact h

/-- `jumps[p[t]] ≤ m - 1 - t` for every index `t < m - 1` of the prefix (the table holds
`m - 1 - (last index of the byte in p[0..m-1))`, which is at most that) -/
theorem mkJumps_le (qs : List Nat) (hq : ∀ q ∈ qs, q < 256) (t : Nat) (ht : t + 1 < qs.length) :
    (mkJumps qs).getD (qs.getD t 0) 0 ≤ qs.length - 1 - t := by
  obtain ⟨_, _, h2⟩ := jumpsUpTo_spec qs hq (qs.length - 1) (by omega)
  obtain ⟨j, hj, h⟩ := h2 t (by omega)
  rw [mkJumps_eq, Array.getD_eq_getD_getElem?, hj]
  exact h

/-- **(c) `shift_safe`.**  For a window at offset `o` whose last byte is `b`, the prefix does not
occur at `o + j` for any `0 < j < jumps[b]`: an occurrence would put `b` at index `m - 1 - j < m - 1`
of the prefix, forcing `jumps[b] ≤ j`.  Holds for every prefix, repeated bytes included. -/
theorem shift_safe (bytes : Bytes) (qs : List Nat) (hq : ∀ q ∈ qs, q < 256) (o j : Nat)
    (hj0 : 0 < j) (hj : j < (mkJumps qs).getD (byteAt bytes (o + qs.length - 1)) 0) :
    winEq bytes (o + j) qs = false := by
  cases hw : winEq bytes (o + j) qs with
  | false => rfl
  | true =>
    exfalso
    have hlen : 1 ≤ qs.length := by
      cases qs with
      | nil => simp [mkJumps, Array.getD_eq_getD_getElem?, byteAt_lt] at hj
      | cons _ _ => simp
    have hb := mkJumps_bounds qs hq hlen _ (byteAt_lt bytes (o + qs.length - 1))
    have hjm : j + 1 ≤ qs.length := by omega
    -- the byte of the prefix that lands on the last byte of the window at `o`
    have ht : qs.length - 1 - j < qs.length := by omega
    have hget : qs[qs.length - 1 - j]? = some (qs.getD (qs.length - 1 - j) 0) := by
      rw [List.getD_eq_getElem?_getD, List.getElem?_eq_getElem ht]; rfl
    have heq := (winEq_true_iff bytes qs (o + j)).1 hw _ _ hget
    have hidx : o + j + (qs.length - 1 - j) = o + qs.length - 1 := by omega
    rw [hidx] at heq
    have hle := mkJumps_le qs hq (qs.length - 1 - j) (by omega)
    rw [← heq] at hle
    omega

/-! ### what a search establishes -/

/-- the interpreter was run at `p` (on some save array) and rejected it -/
def Rej (ex : Interp) (p : Nat) : Prop := ∃ s s', ex p s = .ok (false, s')
/-- the interpreter was run at `p` (on some save array), accepted it and left `out` -/
def Acc (ex : Interp) (p : Nat) (out : Array Nat) : Prop := ∃ s, ex p s = .ok (true, out)
/-- the interpreter returns normally -/
def Interp.Total (ex : Interp) : Prop := ∀ c s, ∃ b s', ex c s = .ok (b, s')

/-- Outcome of a search over the positions `[a, b)` for a prefix of length `ql`: a reported position
lies in `[a, b)`, below the new `range.start`, and was accepted; every other position the search
moved `range.start` past — all of `[a, b)` when nothing is reported — that leaves room for the
prefix is `dead`. -/
structure SearchOK (ex : Interp) (dead : Nat → Prop) (a b ql stop0 : Nat) (r : Res) : Prop where
  stop_eq : r.m.stop = stop0
  found : r.found = true → a ≤ r.pos ∧ r.pos < r.m.start ∧ r.pos < b ∧ r.m.start ≤ b ∧ Acc ex r.pos r.save ∧
      ∀ p, a ≤ p → p < r.m.start → p ≠ r.pos → p + ql ≤ b → dead p
  notfound : r.found = false → ∀ p, a ≤ p → p < b → p + ql ≤ b → dead p

theorem SearchOK.mono {ex : Interp} {dead dead' : Nat → Prop} {a b ql stop0 : Nat} {r : Res}
    (h : SearchOK ex dead a b ql stop0 r) (hd : ∀ p, a ≤ p → p + ql ≤ b → dead p → dead' p) :
    SearchOK ex dead' a b ql stop0 r :=
  ⟨h.stop_eq,
   fun hf => let ⟨h1, h2, h3, h4, h5, h6⟩ := h.found hf
     ⟨h1, h2, h3, h4, h5, fun p hp1 hp2 hp3 hp4 => hd p hp1 hp4 (h6 p hp1 hp2 hp3 hp4)⟩,
   fun hf p hp1 hp2 hp3 => hd p hp1 hp3 (h.notfound hf p hp1 hp2 hp3)⟩

/-! ### strategy 0 -/

theorem strat0Loop_spec {ex : Interp} (hT : ex.Total) (stop : Nat) (hstop : stop < 4294967296) :
    ∀ k (m : MSt) save, m.start + k = stop →
      ∃ r, strat0Loop ex stop k m save = .ok r ∧ SearchOK ex (Rej ex) m.start stop 0 m.stop r ∧
        (r.found = false → r.m.start = stop) := by
  intro k
  induction k with
  | zero =>
    intro m save hk
    refine ⟨⟨false, 0, m, save⟩, by simp only [strat0Loop]; rw [if_neg (by omega)], ⟨rfl, ?_, ?_⟩, fun _ => by simpa using hk⟩
    · intro h; cases h
    · intro _ p h1 h2 _; omega
  | succ k ih =>
    intro m save hk
    simp only [strat0Loop]
    rw [if_pos (by omega), padd32_ok (by omega)]
    obtain ⟨b, s', hex⟩ := hT m.start save
    simp only [bind_ok', hex]
    cases b with
    | true =>
      refine ⟨_, rfl, ⟨rfl, ?_, ?_⟩, ?_⟩
      · intro _
        exact ⟨Nat.le_refl _, Nat.lt_succ_self _, by dsimp only; omega, by dsimp only; omega, ⟨save, hex⟩,
          fun p h1 h2 h3 _ => by dsimp only at h1 h2 h3; omega⟩
      · intro h; cases h
      · intro h; cases h
    | false =>
      obtain ⟨r, hr, hs, hn⟩ := ih { m with start := m.start + 1, hits := m.hits + 1 } s' (by simp only; omega)
      refine ⟨r, by simpa using hr, ⟨hs.stop_eq, ?_, ?_⟩, hn⟩
      · intro hf
        obtain ⟨h1, h2, h3, h4, h5, h6⟩ := hs.found hf
        simp only at h1 h6
        refine ⟨by omega, h2, h3, h4, h5, ?_⟩
        intro p hp1 hp2 hp3 hp4
        by_cases hpe : p = m.start
        · subst hpe; exact ⟨save, s', hex⟩
        · exact h6 p (by omega) hp2 hp3 hp4
      · intro hf p hp1 hp2 hp3
        by_cases hpe : p = m.start
        · subst hpe; exact ⟨save, s', hex⟩
        · exact hs.notfound hf p (by simp only; omega) hp2 hp3

theorem strategy0_spec {ex : Interp} (hT : ex.Total) (len : Nat) (m : MSt) (save : Array Nat)
    (hlen : m.start + len < 4294967296) :
    ∃ r, strategy0 ex len m save = .ok r ∧ SearchOK ex (Rej ex) m.start (m.start + len) 0 m.stop r ∧
      (r.found = false → r.m.start = m.start + len) := by
  unfold strategy0
  rw [padd32_ok hlen]
  exact strat0Loop_spec hT _ hlen len m save rfl

/-! ### strategy 1 -/

theorem strat1Loop_spec {ex : Interp} (hT : ex.Total) (bytes : Bytes) (off len byte : Nat) (m : MSt)
    (hlen : m.start + len < 4294967296) :
    ∀ k i hits save, i + k = len →
      ∃ r, strat1Loop ex bytes off len byte m k i hits save = .ok r ∧
        SearchOK ex (fun p => Rej ex p ∨ byteAt bytes (off + (p - m.start)) ≠ byte)
          (m.start + i) (m.start + len) 0 m.stop r ∧
        (r.found = false → r.m.start = m.start + len) := by
  intro k
  induction k with
  | zero =>
    intro i hits save hk
    simp only [strat1Loop]
    rw [padd32_ok hlen]
    refine ⟨_, rfl, ⟨rfl, ?_, ?_⟩, fun _ => rfl⟩
    · intro h; cases h
    · intro _ p h1 h2 _; omega
  | succ k ih =>
    intro i hits save hk
    simp only [strat1Loop]
    by_cases hbyte : byteAt bytes (off + i) = byte
    · rw [if_pos hbyte, padd32_ok (by omega)]
      obtain ⟨b, s', hex⟩ := hT (m.start + i) save
      simp only [bind_ok', hex]
      cases b with
      | true =>
        rw [if_pos rfl, padd32_ok (by omega)]
        refine ⟨_, rfl, ⟨rfl, ?_, ?_⟩, ?_⟩
        · intro _
          exact ⟨Nat.le_refl _, Nat.lt_succ_self _, by dsimp only; omega, by dsimp only; omega, ⟨save, hex⟩,
            fun p h1 h2 h3 _ => by dsimp only at h1 h2 h3; omega⟩
        · intro h; cases h
        · intro h; cases h
      | false =>
        obtain ⟨r, hr, hs, hn⟩ := ih (i + 1) (hits + 1) s' (by omega)
        refine ⟨r, by simpa using hr, ⟨hs.stop_eq, ?_, ?_⟩, hn⟩
        · intro hf
          obtain ⟨h1, h2, h3, h4, h5, h6⟩ := hs.found hf
          refine ⟨by omega, h2, h3, h4, h5, ?_⟩
          intro p hp1 hp2 hp3 hp4
          by_cases hpe : p = m.start + i
          · subst hpe; exact .inl ⟨save, s', hex⟩
          · exact h6 p (by omega) hp2 hp3 hp4
        · intro hf p hp1 hp2 hp3
          by_cases hpe : p = m.start + i
          · subst hpe; exact .inl ⟨save, s', hex⟩
          · exact hs.notfound hf p (by omega) hp2 hp3
    · rw [if_neg hbyte]
      obtain ⟨r, hr, hs, hn⟩ := ih (i + 1) hits save (by omega)
      refine ⟨r, hr, ⟨hs.stop_eq, ?_, ?_⟩, hn⟩
      · intro hf
        obtain ⟨h1, h2, h3, h4, h5, h6⟩ := hs.found hf
        refine ⟨by omega, h2, h3, h4, h5, ?_⟩
        intro p hp1 hp2 hp3 hp4
        by_cases hpe : p = m.start + i
        · subst hpe; exact .inr (by rwa [Nat.add_sub_cancel_left])
        · exact h6 p (by omega) hp2 hp3 hp4
      · intro hf p hp1 hp2 hp3
        by_cases hpe : p = m.start + i
        · subst hpe; exact .inr (by rwa [Nat.add_sub_cancel_left])
        · exact hs.notfound hf p (by omega) hp2 hp3

/-- the common form of the three searches: `dead` = rejected by the interpreter, or the window at
that position does not hold the literal prefix -/
def deadW (ex : Interp) (bytes : Bytes) (qs : List Nat) (off start0 : Nat) (p : Nat) : Prop :=
  Rej ex p ∨ winEq bytes (off + (p - start0)) qs = false

theorem strategy1_spec {ex : Interp} (hT : ex.Total) (bytes : Bytes) (qs : List Nat) (hqs : qs ≠ [])
    (off len : Nat) (m : MSt) (save : Array Nat) (hlen : m.start + len < 4294967296) :
    ∃ r, strategy1 ex bytes qs off len m save = .ok r ∧
      SearchOK ex (deadW ex bytes qs off m.start) m.start (m.start + len) qs.length m.stop r ∧
      (r.found = false → r.m.start = m.start + len) := by
  cases qs with
  | nil => exact absurd rfl hqs
  | cons byte rest =>
    simp only [strategy1]
    obtain ⟨r, hr, hs, hn⟩ := strat1Loop_spec hT bytes off len byte m hlen len 0 m.hits save (by omega)
    refine ⟨r, hr, ?_, hn⟩
    have hs' : SearchOK ex (deadW ex bytes (byte :: rest) off m.start) (m.start + 0) (m.start + len) 0 m.stop r := by
      apply hs.mono
      intro p _ _ hd
      rcases hd with hd | hd
      · exact .inl hd
      · exact .inr (winEq_false_of_ne bytes _ _ 0 byte rfl hd)
    rw [Nat.add_zero] at hs'
    exact ⟨hs'.stop_eq, fun hf => let ⟨h1, h2, h3, h4, h5, h6⟩ := hs'.found hf
        ⟨h1, h2, h3, h4, h5, fun p hp1 hp2 hp3 hp4 => h6 p hp1 hp2 hp3 (by omega)⟩,
      fun hf p hp1 hp2 hp3 => hs'.notfound hf p hp1 hp2 (by omega)⟩

/-! ### strategy 2 -/

theorem strat2Loop_spec {ex : Interp} (hT : ex.Total) (bytes : Bytes) (qs : List Nat)
    (hq : ∀ q ∈ qs, q < 256) (hql : 1 ≤ qs.length) (off len : Nat) (m : MSt)
    (hlen : m.start + len < 4294967296) :
    ∀ fuel i hits save, len + 1 - qs.length - i + 1 ≤ fuel →
      ∃ r, strat2Loop ex bytes qs (mkJumps qs) off len m fuel i hits save = .ok r ∧
        SearchOK ex (deadW ex bytes qs off m.start) (m.start + i) (m.start + len) qs.length m.stop r ∧
        (r.found = false → r.m.start = m.start + len) := by
  intro fuel
  induction fuel with
  | zero => intro i hits save hf; omega
  | succ fuel ih =>
    intro i hits save hf
    simp only [strat2Loop]
    by_cases hin : i + qs.length ≤ len
    · rw [if_pos hin]
      have hjb := mkJumps_bounds qs hq hql _ (byteAt_lt bytes (off + i + qs.length - 1))
      -- positions strictly between the window and the jump target cannot hold the prefix
      have hskip : ∀ p, m.start + i < p → p < m.start + i + (mkJumps qs).getD (byteAt bytes (off + i + qs.length - 1)) 0 →
          deadW ex bytes qs off m.start p := by
        intro p hp1 hp2
        right
        have := shift_safe bytes qs hq (off + i) (p - (m.start + i)) (by omega) (by omega)
        have hidx : off + i + (p - (m.start + i)) = off + (p - m.start) := by omega
        rwa [hidx] at this
      by_cases hcond : qs.getD (qs.length - 1) 0 = byteAt bytes (off + i + qs.length - 1) ∧ winEq bytes (off + i) qs = true
      · rw [if_pos hcond, padd32_ok (by omega)]
        obtain ⟨b, s', hex⟩ := hT (m.start + i) save
        simp only [bind_ok', hex]
        cases b with
        | true =>
          rw [if_pos rfl, padd32_ok (by omega)]
          refine ⟨_, rfl, ⟨rfl, ?_, ?_⟩, ?_⟩
          · intro _
            refine ⟨Nat.le_refl _, by dsimp only; omega, by dsimp only; omega, by dsimp only; omega, ⟨save, hex⟩, ?_⟩
            intro p h1 h2 h3 _
            dsimp only at h1 h2 h3
            exact hskip p (by omega) h2
          · intro h; cases h
          · intro h; cases h
        | false =>
          obtain ⟨r, hr, hs, hn⟩ := ih (i + (mkJumps qs).getD (byteAt bytes (off + i + qs.length - 1)) 0) (hits + 1) s' (by omega)
          refine ⟨r, by simpa using hr, ⟨hs.stop_eq, ?_, ?_⟩, hn⟩
          · intro hf
            obtain ⟨h1, h2, h3, h4, h5, h6⟩ := hs.found hf
            refine ⟨by omega, h2, h3, h4, h5, ?_⟩
            intro p hp1 hp2 hp3 hp4
            by_cases hpe : p = m.start + i
            · subst hpe; exact .inl ⟨save, s', hex⟩
            · by_cases hpj : p < m.start + i + (mkJumps qs).getD (byteAt bytes (off + i + qs.length - 1)) 0
              · exact hskip p (by omega) hpj
              · exact h6 p (by omega) hp2 hp3 hp4
          · intro hf p hp1 hp2 hp3
            by_cases hpe : p = m.start + i
            · subst hpe; exact .inl ⟨save, s', hex⟩
            · by_cases hpj : p < m.start + i + (mkJumps qs).getD (byteAt bytes (off + i + qs.length - 1)) 0
              · exact hskip p (by omega) hpj
              · exact hs.notfound hf p (by omega) hp2 hp3
      · rw [if_neg hcond]
        have hdead : deadW ex bytes qs off m.start (m.start + i) := by
          right
          rw [Nat.add_sub_cancel_left]
          cases hw : winEq bytes (off + i) qs with
          | false => rfl
          | true =>
            exfalso
            apply hcond
            refine ⟨?_, hw⟩
            have hget : qs[qs.length - 1]? = some (qs.getD (qs.length - 1) 0) := by
              rw [List.getD_eq_getElem?_getD, List.getElem?_eq_getElem (by omega)]; rfl
            have := (winEq_true_iff bytes qs (off + i)).1 hw _ _ hget
            have hidx : off + i + (qs.length - 1) = off + i + qs.length - 1 := by omega
            rw [hidx] at this
            exact this.symm
        obtain ⟨r, hr, hs, hn⟩ := ih (i + (mkJumps qs).getD (byteAt bytes (off + i + qs.length - 1)) 0) hits save (by omega)
        refine ⟨r, hr, ⟨hs.stop_eq, ?_, ?_⟩, hn⟩
        · intro hf
          obtain ⟨h1, h2, h3, h4, h5, h6⟩ := hs.found hf
          refine ⟨by omega, h2, h3, h4, h5, ?_⟩
          intro p hp1 hp2 hp3 hp4
          by_cases hpe : p = m.start + i
          · subst hpe; exact hdead
          · by_cases hpj : p < m.start + i + (mkJumps qs).getD (byteAt bytes (off + i + qs.length - 1)) 0
            · exact hskip p (by omega) hpj
            · exact h6 p (by omega) hp2 hp3 hp4
        · intro hf p hp1 hp2 hp3
          by_cases hpe : p = m.start + i
          · subst hpe; exact hdead
          · by_cases hpj : p < m.start + i + (mkJumps qs).getD (byteAt bytes (off + i + qs.length - 1)) 0
            · exact hskip p (by omega) hpj
            · exact hs.notfound hf p (by omega) hp2 hp3
    · rw [if_neg hin, padd32_ok hlen]
      refine ⟨_, rfl, ⟨rfl, ?_, ?_⟩, fun _ => rfl⟩
      · intro h; cases h
      · intro _ p h1 _ h3; omega

theorem strategy2_spec {ex : Interp} (hT : ex.Total) (bytes : Bytes) (qs : List Nat)
    (hq : ∀ q ∈ qs, q < 256) (hql : 1 ≤ qs.length) (off len : Nat) (m : MSt) (save : Array Nat)
    (hlen : m.start + len < 4294967296) :
    ∃ r, strategy2 ex bytes qs off len m save = .ok r ∧
      SearchOK ex (deadW ex bytes qs off m.start) m.start (m.start + len) qs.length m.stop r ∧
      (r.found = false → r.m.start = m.start + len) := by
  unfold strategy2
  have := strat2Loop_spec hT bytes qs hq hql off len m hlen (len + 1) 0 m.hits save (by omega)
  rwa [Nat.add_zero] at this

/-- **all three strategies** (whichever the prefix length selects) -/
theorem strategy_spec {ex : Interp} (hT : ex.Total) (bytes : Bytes) (qs : List Nat)
    (hq : ∀ q ∈ qs, q < 256) (off len : Nat) (m : MSt) (save : Array Nat)
    (hlen : m.start + len < 4294967296) :
    ∃ r, strategy ex bytes qs off len m save = .ok r ∧
      SearchOK ex (deadW ex bytes qs off m.start) m.start (m.start + len) qs.length m.stop r ∧
      (r.found = false → r.m.start = m.start + len) := by
  unfold strategy
  by_cases h0 : qs.length = 0
  · rw [if_pos h0]
    obtain ⟨r, hr, hs, hn⟩ := strategy0_spec hT len m save hlen
    refine ⟨r, hr, ?_, hn⟩
    rw [h0]
    exact hs.mono (fun p _ _ hd => .inl hd)
  · rw [if_neg h0]
    by_cases h4 : qs.length < 4
    · rw [if_pos h4]
      exact strategy1_spec hT bytes qs (by intro h; rw [h] at h0; exact h0 rfl) off len m save hlen
    · rw [if_neg h4]
      exact strategy2_spec hT bytes qs hq (by omega) off len m save hlen

/-! ### `next_section` -/

/-- `dead` in terms of a section slice `bytes[off .. off+len]` mapped at `base` -/
def deadS (ex : Interp) (bytes : Bytes) (qs : List Nat) (base off : Nat) (p : Nat) : Prop :=
  Rej ex p ∨ winEq bytes (off + (p - base)) qs = false

/-- `next_section` searches the positions `[max(base, range.start), min(base + len, range.end))`;
it cannot panic when `base ≤ range.end` (the caller's overlap test, or `base = 0`). -/
theorem nextSection_spec {ex : Interp} (hT : ex.Total) (bytes : Bytes) (qs : List Nat)
    (hq : ∀ q ∈ qs, q < 256) (base off len : Nat) (m : MSt) (save : Array Nat)
    (hstop : m.stop < 4294967296) (hbase : base ≤ m.stop) :
    ∃ r, nextSection ex bytes qs base off len m save = .ok r ∧
      m.start ≤ r.m.start ∧ r.m.start ≤ max m.start (min (base + len) m.stop) ∧
      SearchOK ex (deadS ex bytes qs base off) (max base m.start) (min (base + len) m.stop) qs.length m.stop r := by
  unfold nextSection
  have he : min (min (base + len) 4294967295) m.stop = min (base + len) m.stop := by omega
  simp only [he]
  rw [if_neg (by omega)]
  by_cases hse : max base m.start - base ≥ min (base + len) m.stop - base
  · rw [if_pos hse]
    refine ⟨_, rfl, by dsimp only; omega, by dsimp only; omega, ⟨rfl, ?_, ?_⟩⟩
    · intro h; cases h
    · intro _ p h1 h2 _; omega
  · rw [if_neg hse, if_pos (by omega)]
    obtain ⟨r, hr, hs, hn⟩ := strategy_spec hT bytes qs hq (off + (max base m.start - base))
      (min (base + len) m.stop - base - (max base m.start - base))
      { m with start := max base m.start } save (by dsimp only; omega)
    dsimp only at hs hn
    have hend : max base m.start + (min (base + len) m.stop - base - (max base m.start - base)) = min (base + len) m.stop := by
      omega
    rw [hend] at hs hn
    have hs' : SearchOK ex (deadS ex bytes qs base off) (max base m.start) (min (base + len) m.stop) qs.length m.stop r := by
      apply hs.mono
      intro p hp1 _ hd
      rcases hd with hd | hd
      · exact .inl hd
      · right
        have hidx : off + (max base m.start - base) + (p - max base m.start) = off + (p - base) := by omega
        rwa [hidx] at hd
    refine ⟨r, hr, ?_, ?_, hs'⟩
    · cases hf : r.found with
      | true => obtain ⟨h1, h2, _⟩ := hs'.found hf; omega
      | false => have := hn hf; omega
    · cases hf : r.found with
      | true => obtain ⟨_, _, _, h4, _⟩ := hs'.found hf; omega
      | false => have := hn hf; omega

/-! ### the section loop of `next` on file views -/

/-- `p` and the `ql` bytes after it are stored bytes of section `s` -/
def InSec (size ql : Nat) (s : Pe.Sec) (p : Nat) : Prop :=
  s.va ≤ p ∧ p + ql ≤ s.va + s.rs ∧ s.prd + s.rs ≤ size

def deadF (ex : Interp) (bytes : Bytes) (qs : List Nat) (secs : List Pe.Sec) (p : Nat) : Prop :=
  Rej ex p ∨ ∃ s ∈ secs, InSec bytes.size qs.length s p ∧ winEq bytes (s.prd + (p - s.va)) qs = false

theorem deadF_mono {ex : Interp} {bytes : Bytes} {qs : List Nat} {s : Pe.Sec} {rest : List Pe.Sec} {p : Nat}
    (h : deadF ex bytes qs rest p) : deadF ex bytes qs (s :: rest) p := by
  rcases h with h | ⟨s', hs', h⟩
  · exact .inl h
  · exact .inr ⟨s', List.mem_cons_of_mem _ hs', h⟩

theorem SecWF.tail {s : Pe.Sec} {rest : List Pe.Sec} (h : SecWF (s :: rest)) : SecWF rest :=
  ⟨fun x hx => h.1 x (List.mem_cons_of_mem _ hx), (List.pairwise_cons.1 h.2).2⟩

theorem SecWF.head_le {s : Pe.Sec} {rest : List Pe.Sec} (h : SecWF (s :: rest)) :
    ∀ s' ∈ rest, s.va + max s.vs s.rs ≤ s'.va := (List.pairwise_cons.1 h.2).1

/-- **the section loop.**  For a table sorted by VirtualAddress with disjoint extents (`SecWF`):
the loop returns normally; a reported position was accepted, lies in the range and in the raw data
of a section; every candidate position (`IsCandSec`, relative to the current `range.start`) below
the new `range.start` — every candidate at all if nothing is reported — is `deadF`. -/
theorem nextFile_spec {ex : Interp} (hT : ex.Total) (bytes : Bytes) (hsz : bytes.size < 4294967296)
    (qs : List Nat) (hq : ∀ q ∈ qs, q < 256) :
    ∀ (secs : List Pe.Sec), SecWF secs → ∀ (m : MSt) (save : Array Nat), m.stop < 4294967296 →
      ∃ r, nextFile ex bytes qs secs m save = .ok r ∧ r.m.stop = m.stop ∧ m.start ≤ r.m.start ∧
        (r.found = true → m.start ≤ r.pos ∧ r.pos < r.m.start ∧ r.pos < m.stop ∧ r.m.start ≤ m.stop ∧
          Acc ex r.pos r.save ∧
          (∃ s ∈ secs, s.va ≤ r.pos ∧ r.pos < s.va + s.rs ∧ s.prd + s.rs ≤ bytes.size) ∧
          ∀ p, (∃ s ∈ secs, IsCandSec bytes.size qs.length m.start m.stop s p) → p < r.m.start → p ≠ r.pos →
            deadF ex bytes qs secs p) ∧
        (r.found = false →
          ∀ p, (∃ s ∈ secs, IsCandSec bytes.size qs.length m.start m.stop s p) → deadF ex bytes qs secs p) := by
  intro secs
  induction secs with
  | nil =>
    intro _ m save _
    refine ⟨_, rfl, rfl, Nat.le_refl _, (fun h => by cases h), ?_⟩
    rintro _ p ⟨s, hs, _⟩
    cases hs
  | cons s rest ih =>
    intro hwf m save hstop
    obtain ⟨hnw, hprd, hrs⟩ := hwf.1 s (List.mem_cons_self ..)
    have hhead := hwf.head_le
    -- candidates of the remaining sections lie at or beyond the end of this one
    have hrest : ∀ p, (∃ s' ∈ rest, IsCandSec bytes.size qs.length m.start m.stop s' p) → s.va + max s.vs s.rs ≤ p := by
      rintro p ⟨s', hs', hc⟩
      have := hhead s' hs'
      have := hc.2.2.1
      omega
    -- when this section is skipped, the loop continues with the same state
    have hskip : (∀ p, ¬ IsCandSec bytes.size qs.length m.start m.stop s p) →
        ∃ r, nextFile ex bytes qs rest m save = .ok r ∧ r.m.stop = m.stop ∧ m.start ≤ r.m.start ∧
        (r.found = true → m.start ≤ r.pos ∧ r.pos < r.m.start ∧ r.pos < m.stop ∧ r.m.start ≤ m.stop ∧
          Acc ex r.pos r.save ∧
          (∃ s' ∈ s :: rest, s'.va ≤ r.pos ∧ r.pos < s'.va + s'.rs ∧ s'.prd + s'.rs ≤ bytes.size) ∧
          ∀ p, (∃ s' ∈ s :: rest, IsCandSec bytes.size qs.length m.start m.stop s' p) → p < r.m.start → p ≠ r.pos →
            deadF ex bytes qs (s :: rest) p) ∧
        (r.found = false →
          ∀ p, (∃ s' ∈ s :: rest, IsCandSec bytes.size qs.length m.start m.stop s' p) → deadF ex bytes qs (s :: rest) p) := by
      intro hno
      obtain ⟨r, hr, h1, h2, h3, h4⟩ := ih hwf.tail m save hstop
      refine ⟨r, hr, h1, h2, ?_, ?_⟩
      · intro hf
        obtain ⟨a1, a2, a3, a4, a5, ⟨s', hs', a6⟩, a7⟩ := h3 hf
        refine ⟨a1, a2, a3, a4, a5, ⟨s', List.mem_cons_of_mem _ hs', a6⟩, ?_⟩
        rintro p ⟨s', hs', hc⟩ hp1 hp2
        rcases List.mem_cons.1 hs' with rfl | hs'
        · exact absurd hc (hno p)
        · exact deadF_mono (a7 p ⟨s', hs', hc⟩ hp1 hp2)
      · intro hf
        rintro p ⟨s', hs', hc⟩
        rcases List.mem_cons.1 hs' with rfl | hs'
        · exact absurd hc (hno p)
        · exact deadF_mono (h4 hf p ⟨s', hs', hc⟩)
    simp only [nextFile]
    by_cases hov : s.va < m.stop ∧ wadd32 s.va s.vs > m.start
    · rw [if_pos hov]
      by_cases hraw : s.prd ≤ wadd32 s.prd s.rs ∧ wadd32 s.prd s.rs ≤ bytes.size
      · rw [if_pos hraw]
        -- the raw range does not wrap, the slice is the whole raw data
        have hlen : wadd32 s.prd s.rs - s.prd = s.rs ∧ s.prd + s.rs ≤ bytes.size := by
          unfold wadd32 at hraw ⊢; omega
        rw [hlen.1]
        obtain ⟨r1, hr1, hb1, hb2, hs1⟩ := nextSection_spec hT bytes qs hq s.va s.prd s.rs m save hstop (by omega)
        rw [hr1]
        simp only [bind_ok']
        cases hf1 : r1.found with
        | true =>
          rw [if_pos rfl]
          obtain ⟨a1, a2, a3, a4, a5, a6⟩ := hs1.found hf1
          refine ⟨r1, rfl, hs1.stop_eq, hb1, ?_, fun h => by rw [hf1] at h; cases h⟩
          intro _
          refine ⟨by omega, a2, by omega, by omega, a5, ⟨s, List.mem_cons_self .., by omega, by omega, hlen.2⟩, ?_⟩
          rintro p ⟨s', hs', hc⟩ hp1 hp2
          rcases List.mem_cons.1 hs' with rfl | hs'
          · obtain ⟨c1, c2, c3, c4, c5, c6, c7⟩ := hc
            rcases a6 p (by omega) hp1 hp2 (by omega) with hd | hd
            · exact .inl hd
            · exact .inr ⟨s', List.mem_cons_self .., ⟨c3, c7, c5⟩, hd⟩
          · have := hrest p ⟨s', hs', hc⟩
            omega
        | false =>
          rw [if_neg (by simp)]
          have hstop1 : r1.m.stop < 4294967296 := by rw [hs1.stop_eq]; exact hstop
          obtain ⟨r, hr, h1, h2, h3, h4⟩ := ih hwf.tail r1.m r1.save hstop1
          rw [hs1.stop_eq] at h1 h3 h4
          -- a candidate of this section is dead; one of a later section is still a candidate
          have hcand : ∀ p, (∃ s' ∈ s :: rest, IsCandSec bytes.size qs.length m.start m.stop s' p) →
              deadF ex bytes qs (s :: rest) p ∨ ∃ s' ∈ rest, IsCandSec bytes.size qs.length r1.m.start m.stop s' p := by
            rintro p ⟨s', hs', hc⟩
            rcases List.mem_cons.1 hs' with rfl | hs'
            · left
              obtain ⟨c1, c2, c3, c4, c5, c6, c7⟩ := hc
              rcases hs1.notfound hf1 p (by omega) (by omega) (by omega) with hd | hd
              · exact .inl hd
              · exact .inr ⟨s', List.mem_cons_self .., ⟨c3, c7, c5⟩, hd⟩
            · right
              have := hrest p ⟨s', hs', hc⟩
              obtain ⟨c1, c2, c3, c4, c5, c6, c7⟩ := hc
              exact ⟨s', hs', by omega, c2, c3, c4, c5, c6, c7⟩
          refine ⟨r, hr, h1, by omega, ?_, ?_⟩
          · intro hf
            obtain ⟨a1, a2, a3, a4, a5, ⟨s', hs', a6⟩, a7⟩ := h3 hf
            refine ⟨by omega, a2, a3, a4, a5, ⟨s', List.mem_cons_of_mem _ hs', a6⟩, ?_⟩
            intro p hc hp1 hp2
            rcases hcand p hc with hd | hc'
            · exact hd
            · exact deadF_mono (a7 p hc' hp1 hp2)
          · intro hf p hc
            rcases hcand p hc with hd | hc'
            · exact hd
            · exact deadF_mono (h4 hf p hc')
      · rw [if_neg hraw]
        apply hskip
        rintro p ⟨_, _, _, _, c5, _, _⟩
        apply hraw
        unfold wadd32; omega
    · rw [if_neg hov]
      apply hskip
      rintro p ⟨c1, c2, c3, c4, _, _, _⟩
      apply hov
      unfold wadd32; omega

/-- soundness of the section loop for an **arbitrary** section table (unsorted, overlapping,
wrapping, raw data outside the file): it returns normally and a reported position lies in the range
and was accepted by the interpreter. -/
theorem nextFile_sound {ex : Interp} (hT : ex.Total) (bytes : Bytes) (qs : List Nat) (hq : ∀ q ∈ qs, q < 256) :
    ∀ (secs : List Pe.Sec) (m : MSt) (save : Array Nat), m.stop < 4294967296 →
      ∃ r, nextFile ex bytes qs secs m save = .ok r ∧ r.m.stop = m.stop ∧ m.start ≤ r.m.start ∧
        (r.found = true → m.start ≤ r.pos ∧ r.pos < r.m.start ∧ r.pos < m.stop ∧ r.m.start ≤ m.stop ∧
          Acc ex r.pos r.save) := by
  intro secs
  induction secs with
  | nil => intro m save _; exact ⟨_, rfl, rfl, Nat.le_refl _, fun h => by cases h⟩
  | cons s rest ih =>
    intro m save hstop
    simp only [nextFile]
    by_cases hov : s.va < m.stop ∧ wadd32 s.va s.vs > m.start
    · rw [if_pos hov]
      by_cases hraw : s.prd ≤ wadd32 s.prd s.rs ∧ wadd32 s.prd s.rs ≤ bytes.size
      · rw [if_pos hraw]
        obtain ⟨r1, hr1, hb1, hb2, hs1⟩ := nextSection_spec hT bytes qs hq s.va s.prd (wadd32 s.prd s.rs - s.prd) m save hstop (by omega)
        rw [hr1]
        simp only [bind_ok']
        cases hf1 : r1.found with
        | true =>
          rw [if_pos rfl]
          obtain ⟨a1, a2, a3, a4, a5, _⟩ := hs1.found hf1
          exact ⟨r1, rfl, hs1.stop_eq, hb1, fun _ => ⟨by omega, a2, by omega, by omega, a5⟩⟩
        | false =>
          rw [if_neg (by simp)]
          obtain ⟨r, hr, h1, h2, h3⟩ := ih r1.m r1.save (by rw [hs1.stop_eq]; exact hstop)
          rw [hs1.stop_eq] at h1 h3
          refine ⟨r, hr, h1, by omega, fun hf => ?_⟩
          obtain ⟨b1, b2, b3, b4, b5⟩ := h3 hf
          exact ⟨by omega, b2, b3, b4, b5⟩
      · rw [if_neg hraw]; exact ih m save hstop
    · rw [if_neg hov]; exact ih m save hstop

/-! ### `next` -/

/-- rejected by the interpreter, or the stored bytes at `p` do not hold the literal prefix -/
def deadV (ex : Interp) (v : Pe.View) (qs : List Nat) (p : Nat) : Prop :=
  Rej ex p ∨
  match v.kind with
  | .view => p + qs.length ≤ v.b.size ∧ winEq v.b p qs = false
  | .file => ∃ s ∈ v.secs, InSec v.b.size qs.length s p ∧ winEq v.b (s.prd + (p - s.va)) qs = false

/-- what one call of `next` establishes (soundness half: for every image) -/
structure NextSound (ex : Interp) (m : MSt) (r : Res) : Prop where
  stop_eq : r.m.stop = m.stop
  start_le : m.start ≤ r.m.start
  found : r.found = true → m.start ≤ r.pos ∧ r.pos < r.m.start ∧ r.pos < m.stop ∧ r.m.start ≤ m.stop ∧
    Acc ex r.pos r.save

/-- … and the completeness half (mapped views; file views with a `SecWF` table) -/
structure NextOK (ex : Interp) (v : Pe.View) (qs : List Nat) (m : MSt) (r : Res) : Prop
    extends NextSound ex m r where
  scanpos : r.found = true → IsScanPos v m.start m.stop r.pos
  skipped : r.found = true → ∀ p, IsCand v qs.length m.start m.stop p → p < r.m.start → p ≠ r.pos → deadV ex v qs p
  notfound : r.found = false → ∀ p, IsCand v qs.length m.start m.stop p → deadV ex v qs p

/-- **(d), one call.** `Matches::next` returns normally on every image (any section table) and a
reported position lies in `[range.start, range.end)`, below the new `range.start`, and was accepted
by the interpreter, whose captures are the save array handed back. -/
theorem nextWith_sound {ex : Interp} (hT : ex.Total) (v : Pe.View) (qs : List Nat) (hq : ∀ q ∈ qs, q < 256)
    (m : MSt) (save : Array Nat) (hstop : m.stop < 4294967296) :
    ∃ r, nextWith ex v qs m save = .ok r ∧ NextSound ex m r := by
  unfold nextWith
  cases hk : v.kind with
  | file =>
    obtain ⟨r, hr, h1, h2, h3⟩ := nextFile_sound hT v.b qs hq v.secs m save hstop
    exact ⟨r, hr, h1, h2, h3⟩
  | view =>
    obtain ⟨r, hr, hb1, hb2, hs⟩ := nextSection_spec hT v.b qs hq 0 0 v.b.size m save hstop (Nat.zero_le _)
    refine ⟨r, hr, hs.stop_eq, hb1, fun hf => ?_⟩
    obtain ⟨a1, a2, a3, a4, a5, _⟩ := hs.found hf
    exact ⟨by omega, a2, by omega, by omega, a5⟩

/-- **(e), one call.** On a mapped view, and on a file view whose section table is `SecWF`, every
candidate position that `next` moves `range.start` past without reporting it is `deadV`. -/
theorem nextWith_spec {ex : Interp} (hT : ex.Total) (v : Pe.View) (hsz : v.b.size < 4294967296)
    (qs : List Nat) (hq : ∀ q ∈ qs, q < 256) (hwf : v.kind = .file → SecWF v.secs)
    (m : MSt) (save : Array Nat) (hstop : m.stop < 4294967296) :
    ∃ r, nextWith ex v qs m save = .ok r ∧ NextOK ex v qs m r := by
  unfold nextWith
  cases hk : v.kind with
  | file =>
    obtain ⟨r, hr, h1, h2, h3, h4⟩ := nextFile_spec hT v.b hsz qs hq v.secs (hwf hk) m save hstop
    refine ⟨r, hr, ⟨⟨h1, h2, fun hf => ?_⟩, fun hf => ?_, fun hf => ?_, fun hf => ?_⟩⟩
    · obtain ⟨a1, a2, a3, a4, a5, _, _⟩ := h3 hf
      exact ⟨a1, a2, a3, a4, a5⟩
    · obtain ⟨a1, a2, a3, a4, a5, a6, _⟩ := h3 hf
      refine ⟨a1, a3, ?_⟩
      rw [hk]; exact a6
    · obtain ⟨a1, a2, a3, a4, a5, a6, a7⟩ := h3 hf
      intro p hc hp1 hp2
      unfold IsCand at hc; rw [hk] at hc
      rcases a7 p hc hp1 hp2 with hd | hd
      · exact .inl hd
      · right; rw [hk]; exact hd
    · intro p hc
      unfold IsCand at hc; rw [hk] at hc
      rcases h4 hf p hc with hd | hd
      · exact .inl hd
      · right; rw [hk]; exact hd
  | view =>
    obtain ⟨r, hr, hb1, hb2, hs⟩ := nextSection_spec hT v.b qs hq 0 0 v.b.size m save hstop (Nat.zero_le _)
    refine ⟨r, hr, ⟨⟨hs.stop_eq, hb1, fun hf => ?_⟩, fun hf => ?_, fun hf => ?_, fun hf => ?_⟩⟩
    · obtain ⟨a1, a2, a3, a4, a5, _⟩ := hs.found hf
      exact ⟨by omega, a2, by omega, by omega, a5⟩
    · obtain ⟨a1, a2, a3, a4, a5, _⟩ := hs.found hf
      refine ⟨by omega, by omega, ?_⟩
      rw [hk]; show r.pos < v.b.size; omega
    · obtain ⟨a1, a2, a3, a4, a5, a6⟩ := hs.found hf
      intro p hc hp1 hp2
      unfold IsCand at hc; rw [hk] at hc
      obtain ⟨c1, c2, c3, c4, c5⟩ := hc
      rcases a6 p (by omega) hp1 hp2 (by omega) with hd | hd
      · exact .inl hd
      · right; rw [hk]
        simp only [Nat.zero_add, Nat.sub_zero] at hd
        exact ⟨c5, hd⟩
    · intro p hc
      unfold IsCand at hc; rw [hk] at hc
      obtain ⟨c1, c2, c3, c4, c5⟩ := hc
      rcases hs.notfound hf p (by omega) (by omega) (by omega) with hd | hd
      · exact .inl hd
      · right; rw [hk]
        simp only [Nat.zero_add, Nat.sub_zero] at hd
        exact ⟨c5, hd⟩

/-! ### repeated `next` -/

theorem IsCand_mono {v : Pe.View} {ql lo lo' hi p : Nat} (h : IsCand v ql lo hi p) (hlo : lo' ≤ p) :
    IsCand v ql lo' hi p := by
  unfold IsCand at h ⊢
  split at h
  · obtain ⟨_, h2⟩ := h; exact ⟨hlo, h2⟩
  · obtain ⟨s, hs, _, h2⟩ := h; exact ⟨s, hs, hlo, h2⟩

theorem IsCand_lo {v : Pe.View} {ql lo hi p : Nat} (h : IsCand v ql lo hi p) : lo ≤ p := by
  unfold IsCand at h
  split at h
  · exact h.1
  · obtain ⟨s, _, h1, _⟩ := h; exact h1

/-- **(d), the whole sequence.**  The positions reported by repeated calls of `next` lie in the
range, each was accepted by the interpreter which left the captures recorded with it, and the
sequence is strictly ascending; `range.end - range.start + 1` calls exhaust the iterator. -/
theorem scanAll_sound {ex : Interp} {nx : MSt → Array Nat → Out Res} (hi : Nat)
    (hnx : ∀ m save, m.stop = hi → ∃ r, nx m save = .ok r ∧ NextSound ex m r) :
    ∀ n (m : MSt) save, m.stop = hi →
      ∃ a, scanAll nx n m save = .ok a ∧ a.m.stop = hi ∧
        (∀ h ∈ a.hits, m.start ≤ h.1 ∧ h.1 < hi ∧ Acc ex h.1 h.2) ∧
        (a.hits.map (·.1)).Pairwise (· < ·) ∧
        (hi - m.start < n → a.exhausted = true) := by
  intro n
  induction n with
  | zero =>
    intro m save hm
    exact ⟨_, rfl, hm, (fun h hh => by cases hh), List.Pairwise.nil, fun h => by omega⟩
  | succ n ih =>
    intro m save hm
    obtain ⟨r, hr, hs⟩ := hnx m save hm
    simp only [scanAll, hr, bind_ok']
    cases hf : r.found with
    | false =>
      rw [if_neg (by simp)]
      exact ⟨_, rfl, by rw [hs.stop_eq, hm], (fun h hh => by cases hh), List.Pairwise.nil, fun _ => rfl⟩
    | true =>
      rw [if_pos rfl]
      obtain ⟨a1, a2, a3, a4, a5⟩ := hs.found hf
      obtain ⟨a, ha, hb1, hb2, hb3, hb4⟩ := ih r.m r.save (by rw [hs.stop_eq, hm])
      rw [ha]
      simp only [bind_ok']
      refine ⟨_, rfl, hb1, ?_, ?_, ?_⟩
      · intro h hh
        rcases List.mem_cons.1 hh with rfl | hh
        · exact ⟨a1, by omega, a5⟩
        · obtain ⟨c1, c2, c3⟩ := hb2 h hh
          exact ⟨by omega, c2, c3⟩
      · simp only [List.map_cons, List.pairwise_cons]
        refine ⟨?_, hb3⟩
        intro x hx
        obtain ⟨h, hh, rfl⟩ := List.mem_map.1 hx
        have := (hb2 h hh).1
        omega
      · intro hn
        apply hb4
        omega

/-- **(e), the whole sequence.**  Once `next` has returned `false`, every candidate position that
is not `deadV` has been reported. -/
theorem scanAll_complete {ex : Interp} {v : Pe.View} {qs : List Nat} {nx : MSt → Array Nat → Out Res} (hi : Nat)
    (hnx : ∀ m save, m.stop = hi → ∃ r, nx m save = .ok r ∧ NextOK ex v qs m r) :
    ∀ n (m : MSt) save a, m.stop = hi → scanAll nx n m save = .ok a → a.exhausted = true →
      ∀ p, IsCand v qs.length m.start hi p → ¬ deadV ex v qs p → p ∈ a.hits.map (·.1) := by
  intro n
  induction n with
  | zero =>
    intro m save a _ ha hex
    simp only [scanAll, Out.ok.injEq] at ha
    subst ha
    cases hex
  | succ n ih =>
    intro m save a hm ha hex p hc hnd
    obtain ⟨r, hr, hs⟩ := hnx m save hm
    simp only [scanAll, hr, bind_ok'] at ha
    rw [← hm] at hc
    cases hf : r.found with
    | false =>
      exact absurd (hs.notfound hf p hc) hnd
    | true =>
      rw [hf, if_pos rfl] at ha
      cases ha' : scanAll nx n r.m r.save with
      | ok a' =>
        rw [ha'] at ha
        simp only [bind_ok', Out.ok.injEq] at ha
        subst ha
        simp only [List.map_cons, List.mem_cons]
        by_cases hpe : p = r.pos
        · exact .inl hpe
        · right
          by_cases hlt : p < r.m.start
          · exact absurd (hs.skipped hf p hc hlt hpe) hnd
          · have hstop : r.m.stop = hi := by rw [hs.stop_eq, hm]
            apply ih r.m r.save a' hstop ha' hex p _ hnd
            rw [← hm]
            exact IsCand_mono hc (by omega)
      | err e => rw [ha'] at ha; cases ha
      | panic s => rw [ha'] at ha; cases ha
      | ub s => rw [ha'] at ha; cases ha
      | diverge => rw [ha'] at ha; cases ha

/-! ### the interpreter behind `next` -/

theorem setupGo_lt (pat : List Atom) (hok : pat.all Atom.ok = true) : ∀ room, ∀ q ∈ setupGo pat room, q < 256 := by
  induction pat with
  | nil => intro room q hq; simp [setupGo] at hq
  | cons a rest ih =>
    intro room q hq
    have hrest : rest.all Atom.ok = true := by
      simp only [List.all_cons, Bool.and_eq_true] at hok; exact hok.2
    have ha : Atom.ok a = true := by
      simp only [List.all_cons, Bool.and_eq_true] at hok; exact hok.1
    cases a <;> simp only [setupGo] at hq <;> try (first | exact ih hrest _ q hq | (simp at hq; done))
    next b =>
      split at hq
      · simp at hq
      · rcases List.mem_cons.1 hq with rfl | hq
        · simpa [Atom.ok] using ha
        · exact ih hrest _ q hq

theorem setup_lt (pat : List Atom) (hok : pat.all Atom.ok = true) : ∀ q ∈ setup pat, q < 256 :=
  setupGo_lt pat hok _

theorem interp_total (v : Pe.View) (hsz : v.b.size < 4294967296) (pat : List Atom) : (interp v pat).Total :=
  fun c s => run_total (ofView_wf v hsz) pat c s

theorem execOK_of_run {v : Pe.View} {pat : List Atom} (hnr : pat.all noRead = true) {p : Nat} {s s' : Array Nat} {b : Bool}
    (h : interp v pat p s = .ok (b, s')) : execOK v pat p = b := by
  obtain ⟨t, ht⟩ := run_save_indep (ofView v) pat hnr p s #[] s' b h
  unfold execOK
  rw [ht]
  cases b <;> rfl

open Pelite.Pe in
theorem firstV_of_wf : ∀ (secs : List Sec), SecWF secs → ∀ s ∈ secs, ∀ rva, s.va ≤ rva →
    rva < s.va + max s.vs s.rs → firstV secs rva = some s := by
  intro secs
  induction secs with
  | nil => intro _ s hs; cases hs
  | cons a rest ih =>
    intro hwf s hs rva h1 h2
    rw [firstV_cons]
    rcases List.mem_cons.1 hs with rfl | hs
    · have hnw := (hwf.1 s (List.mem_cons_self ..)).1
      rw [if_pos]
      rw [containsRva_iff]; unfold wadd32; omega
    · have hle := hwf.head_le s hs
      have hnw := (hwf.1 a (List.mem_cons_self ..)).1
      rw [if_neg]
      · exact ih hwf.tail s hs rva h1 h2
      · rw [containsRva_iff]; unfold wadd32; omega

open Pelite.Pe in
/-- a position the interpreter accepts holds the literal prefix in the stored bytes the search
compares (`deadV`'s second alternative is impossible for it) -/
theorem prefix_in_store {v : Pe.View} (hsz : v.b.size < 4294967296) {pat : List Atom}
    (hok : pat.all Atom.ok = true) (hwf : v.kind = .file → SecWF v.secs) {p : Nat} {s s' : Array Nat}
    (h : interp v pat p s = .ok (true, s')) :
    match v.kind with
    | .view => winEq v.b p (setup pat) = true
    | .file => ∀ sec ∈ v.secs, InSec v.b.size (setup pat).length sec p →
        winEq v.b (sec.prd + (p - sec.va)) (setup pat) = true := by
  have hpre := run_prefix (ofView_wf v hsz) pat hok p s s' h
  cases hk : v.kind with
  | view =>
    rw [winEq_true_iff]
    intro t b hb
    obtain ⟨_, _, hx⟩ := ofView_read_view hk (hpre t b hb)
    exact hx.symm
  | file =>
    intro sec hsec ⟨i1, i2, i3⟩
    rw [winEq_true_iff]
    intro t b hb
    have ht : t < (setup pat).length := by
      rcases Nat.lt_or_ge t (setup pat).length with h' | h'
      · exact h'
      · rw [List.getElem?_eq_none h'] at hb; cases hb
    obtain ⟨s0, o, l, hf, hro, hx⟩ := ofView_read_file hk (hpre t b hb)
    obtain ⟨w1, w2, w3⟩ := (hwf hk).1 sec hsec
    rw [firstV_of_wf v.secs (hwf hk) sec hsec (p + t) (by omega) (by omega)] at hf
    cases hf
    have hir : sec.InRange := ⟨by omega, by omega, by omega, w2⟩
    obtain ⟨_, _, _, _, ho, _⟩ := (rangeOne_ok_iff hir _ _ _ _ _).1 hro
    subst ho
    have hidx : sec.prd + (p + t - sec.va) = sec.prd + (p - sec.va) + t := by omega
    rw [hidx] at hx
    exact hx.symm

/-- a `deadV` position is one at which the pattern does not execute successfully -/
theorem deadV_not_execOK {v : Pe.View} (hsz : v.b.size < 4294967296) {pat : List Atom}
    (hok : pat.all Atom.ok = true) (hnr : pat.all noRead = true) (hwf : v.kind = .file → SecWF v.secs)
    {p : Nat} (hd : deadV (interp v pat) v (setup pat) p) : execOK v pat p = false := by
  rcases hd with ⟨s, s', hr⟩ | hd
  · exact execOK_of_run hnr hr
  · cases hb : execOK v pat p with
    | false => rfl
    | true =>
      exfalso
      obtain ⟨b, s', hr⟩ := interp_total v hsz pat p #[]
      have hb' := execOK_of_run hnr hr
      rw [hb] at hb'
      subst hb'
      have hps := prefix_in_store hsz hok hwf hr
      cases hk : v.kind with
      | view =>
        rw [hk] at hd hps
        simp only at hd hps
        rw [hps] at hd
        exact absurd hd.2 (by simp)
      | file =>
        rw [hk] at hd hps
        simp only at hd hps
        obtain ⟨sec, hsec, hin, hw⟩ := hd
        rw [hps sec hsec hin] at hw
        exact absurd hw (by simp)

/-! ### `finds` -/

theorem IsScanPos_weaken {v : Pe.View} {lo lo' hi c : Nat} (h : IsScanPos v lo' hi c) (hlo : lo ≤ lo') :
    IsScanPos v lo hi c := ⟨by have := h.1; omega, h.2.1, h.2.2⟩

/-- **(f)** `finds` for an abstract success predicate `E` that the interpreter decides
(`hacc`, `hdead`).  `true` means: the reported position `c` is the only candidate at which the
pattern executes, and its captures are in the save array.  If moreover no examined position outside
the candidates executes successfully (`hG`), `finds = true` exactly when there is exactly one
candidate at which the pattern executes. -/
theorem findsWith_spec {ex : Interp} {v : Pe.View} {qs : List Nat} {nx : MSt → Array Nat → Out Res} (hi : Nat)
    (hnx : ∀ m save, m.stop = hi → ∃ r, nx m save = .ok r ∧ NextOK ex v qs m r)
    (E : Nat → Bool) (hacc : ∀ p s, Acc ex p s → E p = true) (hdead : ∀ p, deadV ex v qs p → E p = false)
    (m : MSt) (save : Array Nat) (hm : m.stop = hi) :
    ∃ b s, findsWith nx m save = .ok (b, s) ∧
      (b = true → ∃ c, Acc ex c s ∧ IsScanPos v m.start hi c ∧
        ∀ p, IsCand v qs.length m.start hi p → E p = true → p = c) ∧
      ((∀ c, IsScanPos v m.start hi c → E c = true → IsCand v qs.length m.start hi c) →
        (b = true ↔ ∃ c, ∀ p, (IsCand v qs.length m.start hi p ∧ E p = true) ↔ p = c)) := by
  obtain ⟨r1, hr1, hs1⟩ := hnx m save hm
  unfold findsWith
  simp only [hr1, bind_ok']
  cases hf1 : r1.found with
  | false =>
    refine ⟨false, r1.save, by simp, (fun h => by cases h), fun _ => ⟨(fun h => by cases h), ?_⟩⟩
    rintro ⟨c, hc⟩
    have hcc := (hc c).2 rfl
    have := hdead c (hs1.notfound hf1 c (by rw [hm]; exact hcc.1))
    rw [hcc.2] at this; cases this
  | true =>
    have hstop1 : r1.m.stop = hi := by rw [hs1.stop_eq, hm]
    obtain ⟨r2, hr2, hs2⟩ := hnx r1.m #[] hstop1
    simp only [hr2, bind_ok', Bool.not_true, Bool.false_eq_true, if_false]
    obtain ⟨a1, a2, a3, a4, a5⟩ := hs1.found hf1
    have hsp1 := hs1.scanpos hf1
    rw [hm] at hsp1
    refine ⟨!r2.found, r1.save, rfl, ?_, ?_⟩
    · intro hb
      have hf2 : r2.found = false := by cases h : r2.found <;> simp_all
      refine ⟨r1.pos, a5, hsp1, ?_⟩
      intro p hc hE
      cases hpe : decide (p = r1.pos) with
      | true => exact of_decide_eq_true hpe
      | false =>
        have hpe := of_decide_eq_false hpe
        exfalso
        by_cases hlt : p < r1.m.start
        · have := hdead p (hs1.skipped hf1 p (by rw [hm]; exact hc) hlt hpe)
          rw [hE] at this; cases this
        · have := hdead p (hs2.notfound hf2 p (by rw [hstop1]; exact IsCand_mono hc (by omega)))
          rw [hE] at this; cases this
    · intro hG
      constructor
      · intro hb
        have hf2 : r2.found = false := by cases h : r2.found <;> simp_all
        refine ⟨r1.pos, fun p => ⟨?_, ?_⟩⟩
        · rintro ⟨hc, hE⟩
          cases hpe : decide (p = r1.pos) with
          | true => exact of_decide_eq_true hpe
          | false =>
            have hpe := of_decide_eq_false hpe
            exfalso
            by_cases hlt : p < r1.m.start
            · have := hdead p (hs1.skipped hf1 p (by rw [hm]; exact hc) hlt hpe)
              rw [hE] at this; cases this
            · have := hdead p (hs2.notfound hf2 p (by rw [hstop1]; exact IsCand_mono hc (by omega)))
              rw [hE] at this; cases this
        · rintro rfl
          exact ⟨hG _ hsp1 (hacc _ _ a5), hacc _ _ a5⟩
      · rintro ⟨c, hc⟩
        have h1c : r1.pos = c := (hc r1.pos).1 ⟨hG _ hsp1 (hacc _ _ a5), hacc _ _ a5⟩
        cases hf2 : r2.found with
        | false => rfl
        | true =>
          exfalso
          obtain ⟨b1, b2, b3, b4, b5⟩ := hs2.found hf2
          have hsp2 := hs2.scanpos hf2
          rw [hstop1] at hsp2
          have hsp2' : IsScanPos v m.start hi r2.pos := IsScanPos_weaken hsp2 (by omega)
          have h2c : r2.pos = c := (hc r2.pos).1 ⟨hG _ hsp2' (hacc _ _ b5), hacc _ _ b5⟩
          omega

/-! ### the executable reference -/

theorem mem_candidates (v : Pe.View) (m lo hi p : Nat) : p ∈ candidates v m lo hi ↔ IsCand v m lo hi p := by
  unfold candidates IsCand
  split
  · simp only [List.mem_filter, List.mem_range'_1, decide_eq_true_eq]
    omega
  · simp only [List.mem_flatMap, List.mem_filter, List.mem_range'_1, decide_eq_true_eq]
    constructor
    · rintro ⟨s, hs, _, hc⟩; exact ⟨s, hs, hc⟩
    · rintro ⟨s, hs, hc⟩
      refine ⟨s, hs, ?_, hc⟩
      obtain ⟨c1, c2, c3, c4, c5, c6, c7⟩ := hc
      omega

/-- the reference list holds exactly the candidate positions at which the pattern executes -/
theorem mem_specMatches (v : Pe.View) (pat : List Atom) (lo hi p : Nat) :
    p ∈ specMatches v pat lo hi ↔ IsCand v (setup pat).length lo hi p ∧ execOK v pat p = true := by
  unfold specMatches
  rw [List.mem_filter, mem_candidates]

/-! ### `next` does not depend on the save array it is given

For an interpreter whose verdict does not depend on the save array (`Interp.Indep`: patterns without
`Check` / `Pir`), two runs of a search that differ only in the save array report the same position
and leave the same `Matches` state.  This is what relates the second `next` of `finds` (run on
`&mut save[..0]`) to the second `next` of a scan loop (run on the caller's array). -/

/-- the interpreter returns normally and its verdict is a function of the position -/
def Interp.Indep (ex : Interp) : Prop :=
  ∀ c s1 s2, ∃ b t1 t2, ex c s1 = .ok (b, t1) ∧ ex c s2 = .ok (b, t2)

/-- two results that differ at most in the save array -/
def Res.Agree (r1 r2 : Res) : Prop := r1.found = r2.found ∧ r1.pos = r2.pos ∧ r1.m = r2.m

theorem bind_eq_ok {α β} {x : Out α} {f : α → Out β} {r : β} (h : x.bind f = .ok r) :
    ∃ a, x = .ok a ∧ f a = .ok r := by
  cases x with
  | ok a => exact ⟨a, rfl, h⟩
  | err e => cases h
  | panic s => cases h
  | ub s => cases h
  | diverge => cases h

theorem strat0Loop_agree {ex : Interp} (hI : ex.Indep) (stop : Nat) :
    ∀ k (m : MSt) s1 s2 r1 r2, strat0Loop ex stop k m s1 = .ok r1 → strat0Loop ex stop k m s2 = .ok r2 →
      r1.Agree r2 := by
  intro k
  induction k with
  | zero =>
    intro m s1 s2 r1 r2 h1 h2
    simp only [strat0Loop] at h1 h2
    by_cases hc : m.start < stop
    · rw [if_pos hc] at h1; cases h1
    · rw [if_neg hc] at h1 h2; cases h1; cases h2; exact ⟨rfl, rfl, rfl⟩
  | succ k ih =>
    intro m s1 s2 r1 r2 h1 h2
    simp only [strat0Loop] at h1 h2
    by_cases hc : m.start < stop
    · rw [if_pos hc] at h1 h2
      obtain ⟨a1, ha1, h1⟩ := bind_eq_ok h1
      obtain ⟨a2, ha2, h2⟩ := bind_eq_ok h2
      rw [ha1] at ha2; cases ha2
      obtain ⟨p1, hp1, h1⟩ := bind_eq_ok h1
      obtain ⟨p2, hp2, h2⟩ := bind_eq_ok h2
      obtain ⟨b, t1, t2, e1, e2⟩ := hI m.start s1 s2
      rw [e1] at hp1; rw [e2] at hp2; cases hp1; cases hp2
      cases b with
      | true => rw [if_pos rfl] at h1 h2; cases h1; cases h2; exact ⟨rfl, rfl, rfl⟩
      | false =>
        rw [if_neg (by simp)] at h1 h2
        exact ih _ _ _ _ _ h1 h2
    · rw [if_neg hc] at h1 h2; cases h1; cases h2; exact ⟨rfl, rfl, rfl⟩

theorem strat1Loop_agree {ex : Interp} (hI : ex.Indep) (bytes : Bytes) (off len byte : Nat) (m : MSt) :
    ∀ k i hits s1 s2 r1 r2, strat1Loop ex bytes off len byte m k i hits s1 = .ok r1 →
      strat1Loop ex bytes off len byte m k i hits s2 = .ok r2 → r1.Agree r2 := by
  intro k
  induction k with
  | zero =>
    intro i hits s1 s2 r1 r2 h1 h2
    simp only [strat1Loop] at h1 h2
    obtain ⟨a1, ha1, h1⟩ := bind_eq_ok h1
    obtain ⟨a2, ha2, h2⟩ := bind_eq_ok h2
    rw [ha1] at ha2; cases ha2
    cases h1; cases h2; exact ⟨rfl, rfl, rfl⟩
  | succ k ih =>
    intro i hits s1 s2 r1 r2 h1 h2
    simp only [strat1Loop] at h1 h2
    by_cases hb : byteAt bytes (off + i) = byte
    · rw [if_pos hb] at h1 h2
      obtain ⟨a1, ha1, h1⟩ := bind_eq_ok h1
      obtain ⟨a2, ha2, h2⟩ := bind_eq_ok h2
      rw [ha1] at ha2; cases ha2
      obtain ⟨p1, hp1, h1⟩ := bind_eq_ok h1
      obtain ⟨p2, hp2, h2⟩ := bind_eq_ok h2
      obtain ⟨b, t1, t2, e1, e2⟩ := hI a1 s1 s2
      rw [e1] at hp1; rw [e2] at hp2; cases hp1; cases hp2
      cases b with
      | true =>
        rw [if_pos rfl] at h1 h2
        obtain ⟨c1, hc1, h1⟩ := bind_eq_ok h1
        obtain ⟨c2, hc2, h2⟩ := bind_eq_ok h2
        rw [hc1] at hc2; cases hc2
        cases h1; cases h2; exact ⟨rfl, rfl, rfl⟩
      | false =>
        rw [if_neg (by simp)] at h1 h2
        exact ih _ _ _ _ _ _ h1 h2
    · rw [if_neg hb] at h1 h2
      exact ih _ _ _ _ _ _ h1 h2

theorem strat2Loop_agree {ex : Interp} (hI : ex.Indep) (bytes : Bytes) (qs : List Nat) (J : Array Nat)
    (off len : Nat) (m : MSt) :
    ∀ fuel i hits s1 s2 r1 r2, strat2Loop ex bytes qs J off len m fuel i hits s1 = .ok r1 →
      strat2Loop ex bytes qs J off len m fuel i hits s2 = .ok r2 → r1.Agree r2 := by
  intro fuel
  induction fuel with
  | zero => intro i hits s1 s2 r1 r2 h1 _; simp only [strat2Loop] at h1; cases h1
  | succ fuel ih =>
    intro i hits s1 s2 r1 r2 h1 h2
    simp only [strat2Loop] at h1 h2
    by_cases hin : i + qs.length ≤ len
    · rw [if_pos hin] at h1 h2
      by_cases hcond : qs.getD (qs.length - 1) 0 = byteAt bytes (off + i + qs.length - 1) ∧ winEq bytes (off + i) qs = true
      · rw [if_pos hcond] at h1 h2
        obtain ⟨a1, ha1, h1⟩ := bind_eq_ok h1
        obtain ⟨a2, ha2, h2⟩ := bind_eq_ok h2
        rw [ha1] at ha2; cases ha2
        obtain ⟨p1, hp1, h1⟩ := bind_eq_ok h1
        obtain ⟨p2, hp2, h2⟩ := bind_eq_ok h2
        obtain ⟨b, t1, t2, e1, e2⟩ := hI a1 s1 s2
        rw [e1] at hp1; rw [e2] at hp2; cases hp1; cases hp2
        cases b with
        | true =>
          rw [if_pos rfl] at h1 h2
          obtain ⟨c1, hc1, h1⟩ := bind_eq_ok h1
          obtain ⟨c2, hc2, h2⟩ := bind_eq_ok h2
          rw [hc1] at hc2; cases hc2
          cases h1; cases h2; exact ⟨rfl, rfl, rfl⟩
        | false =>
          rw [if_neg (by simp)] at h1 h2
          exact ih _ _ _ _ _ _ h1 h2
      · rw [if_neg hcond] at h1 h2
        exact ih _ _ _ _ _ _ h1 h2
    · rw [if_neg hin] at h1 h2
      obtain ⟨a1, ha1, h1⟩ := bind_eq_ok h1
      obtain ⟨a2, ha2, h2⟩ := bind_eq_ok h2
      rw [ha1] at ha2; cases ha2
      cases h1; cases h2; exact ⟨rfl, rfl, rfl⟩

theorem strategy_agree {ex : Interp} (hI : ex.Indep) (bytes : Bytes) (qs : List Nat) (off len : Nat) (m : MSt)
    (s1 s2 : Array Nat) (r1 r2 : Res) (h1 : strategy ex bytes qs off len m s1 = .ok r1)
    (h2 : strategy ex bytes qs off len m s2 = .ok r2) : r1.Agree r2 := by
  unfold strategy at h1 h2
  by_cases h0 : qs.length = 0
  · rw [if_pos h0] at h1 h2
    unfold strategy0 at h1 h2
    obtain ⟨a1, ha1, h1⟩ := bind_eq_ok h1
    obtain ⟨a2, ha2, h2⟩ := bind_eq_ok h2
    rw [ha1] at ha2; cases ha2
    exact strat0Loop_agree hI _ _ _ _ _ _ _ h1 h2
  · rw [if_neg h0] at h1 h2
    by_cases h4 : qs.length < 4
    · rw [if_pos h4] at h1 h2
      cases qs with
      | nil => simp only [strategy1] at h1; cases h1
      | cons byte rest =>
        simp only [strategy1] at h1 h2
        exact strat1Loop_agree hI _ _ _ _ _ _ _ _ _ _ _ _ h1 h2
    · rw [if_neg h4] at h1 h2
      unfold strategy2 at h1 h2
      exact strat2Loop_agree hI _ _ _ _ _ _ _ _ _ _ _ _ _ h1 h2

theorem nextSection_agree {ex : Interp} (hI : ex.Indep) (bytes : Bytes) (qs : List Nat) (base off len : Nat)
    (m : MSt) (s1 s2 : Array Nat) (r1 r2 : Res)
    (h1 : nextSection ex bytes qs base off len m s1 = .ok r1)
    (h2 : nextSection ex bytes qs base off len m s2 = .ok r2) : r1.Agree r2 := by
  unfold nextSection at h1 h2
  dsimp only at h1 h2
  split at h1
  · cases h1
  · split at h2
    · cases h2
    · split at h1
      · split at h2
        · cases h1; cases h2; exact ⟨rfl, rfl, rfl⟩
        · omega
      · split at h2
        · omega
        · split at h1
          · split at h2
            · exact strategy_agree hI _ _ _ _ _ _ _ _ _ h1 h2
            · omega
          · cases h1

theorem nextFile_agree {ex : Interp} (hI : ex.Indep) (bytes : Bytes) (qs : List Nat) :
    ∀ (secs : List Pe.Sec) (m : MSt) s1 s2 r1 r2, nextFile ex bytes qs secs m s1 = .ok r1 →
      nextFile ex bytes qs secs m s2 = .ok r2 → r1.Agree r2 := by
  intro secs
  induction secs with
  | nil => intro m s1 s2 r1 r2 h1 h2; simp only [nextFile] at h1 h2; cases h1; cases h2; exact ⟨rfl, rfl, rfl⟩
  | cons s rest ih =>
    intro m s1 s2 r1 r2 h1 h2
    simp only [nextFile] at h1 h2
    by_cases hov : s.va < m.stop ∧ wadd32 s.va s.vs > m.start
    · rw [if_pos hov] at h1 h2
      by_cases hraw : s.prd ≤ wadd32 s.prd s.rs ∧ wadd32 s.prd s.rs ≤ bytes.size
      · rw [if_pos hraw] at h1 h2
        obtain ⟨q1, hq1, h1⟩ := bind_eq_ok h1
        obtain ⟨q2, hq2, h2⟩ := bind_eq_ok h2
        obtain ⟨a1, a2, a3⟩ := nextSection_agree hI _ _ _ _ _ _ _ _ _ _ hq1 hq2
        cases hf : q1.found with
        | true =>
          rw [hf, if_pos rfl] at h1
          rw [← a1, hf, if_pos rfl] at h2
          cases h1; cases h2; exact ⟨a1, a2, a3⟩
        | false =>
          rw [hf, if_neg (by simp)] at h1
          rw [← a1, hf, if_neg (by simp), ← a3] at h2
          exact ih _ _ _ _ _ h1 h2
      · rw [if_neg hraw] at h1 h2; exact ih _ _ _ _ _ h1 h2
    · rw [if_neg hov] at h1 h2; exact ih _ _ _ _ _ h1 h2

/-- **`next` is deterministic up to the save array.** -/
theorem nextWith_agree {ex : Interp} (hI : ex.Indep) (v : Pe.View) (qs : List Nat) (m : MSt)
    (s1 s2 : Array Nat) (r1 r2 : Res) (h1 : nextWith ex v qs m s1 = .ok r1)
    (h2 : nextWith ex v qs m s2 = .ok r2) : r1.Agree r2 := by
  unfold nextWith at h1 h2
  cases hk : v.kind with
  | file => rw [hk] at h1 h2; exact nextFile_agree hI _ _ _ _ _ _ _ _ h1 h2
  | view => rw [hk] at h1 h2; exact nextSection_agree hI _ _ _ _ _ _ _ _ _ _ h1 h2

theorem interp_indep (v : Pe.View) (hsz : v.b.size < 4294967296) (pat : List Atom)
    (hnr : pat.all noRead = true) : (interp v pat).Indep := by
  intro c s1 s2
  obtain ⟨b, t1, h1⟩ := interp_total v hsz pat c s1
  obtain ⟨t2, h2⟩ := run_save_indep (ofView v) pat hnr c s1 s2 t1 b h1
  exact ⟨b, t1, t2, h1, h2⟩

/-- **`finds` against the scan loop**, for an abstract `next` that returns normally (`hnx`), is
deterministic up to the save array (`hag`) and reports ascending positions: `finds` answers `true`
exactly when the loop `while next(save) { record }` (at least two calls allowed) records exactly one
match, and the save array it hands back is the one recorded with that match. -/
theorem findsWith_iff_scanAll {nx : MSt → Array Nat → Out Res} (hi : Nat)
    (hnx : ∀ m save, m.stop = hi → ∃ r, nx m save = .ok r ∧ r.m.stop = hi)
    (hag : ∀ m s1 s2 r1 r2, nx m s1 = .ok r1 → nx m s2 = .ok r2 → r1.Agree r2)
    (m : MSt) (hm : m.stop = hi) (save : Array Nat) (n : Nat) :
    ∃ b s, findsWith nx m save = .ok (b, s) ∧
      ∀ a, scanAll nx (n + 2) m save = .ok a →
        (b = true ↔ a.hits.length = 1) ∧ (b = true → ∃ c, a.hits = [(c, s)]) := by
  obtain ⟨r1, hr1, hs1⟩ := hnx m save hm
  unfold findsWith
  simp only [hr1, bind_ok', scanAll]
  cases hf1 : r1.found with
  | false =>
    refine ⟨false, r1.save, by simp, ?_⟩
    intro a ha
    rw [if_neg (by simp)] at ha
    cases ha
    exact ⟨by simp, fun h => by cases h⟩
  | true =>
    obtain ⟨r2, hr2, _⟩ := hnx r1.m #[] hs1
    obtain ⟨r2', hr2', _⟩ := hnx r1.m r1.save hs1
    have hfa : r2.found = r2'.found := (hag _ _ _ _ _ hr2 hr2').1
    refine ⟨!r2.found, r1.save, by simp [hr2], ?_⟩
    intro a ha
    rw [if_pos rfl] at ha
    simp only [hr2', bind_ok'] at ha
    cases hf2 : r2'.found with
    | false =>
      rw [hf2, if_neg (by simp)] at ha
      simp only [bind_ok', Out.ok.injEq] at ha
      subst ha
      rw [hfa, hf2]
      exact ⟨by simp, fun _ => ⟨r1.pos, rfl⟩⟩
    | true =>
      rw [hf2, if_pos rfl] at ha
      obtain ⟨a', ha', ha⟩ := bind_eq_ok ha
      obtain ⟨a'', _, ha'⟩ := bind_eq_ok ha'
      simp only [Out.ok.injEq] at ha ha'
      subst ha
      subst ha'
      rw [hfa, hf2]
      exact ⟨by simp, fun h => by cases h⟩

/-! ### what `next` does to the caller's save array

The searches hand the caller's save array from one interpreter call to the next and never touch it
themselves: a reflexive and transitive relation that every interpreter call establishes between the
array it is given and the one it leaves therefore holds between the array `next` is given and the
one it hands back (and, along a whole scan, every recorded array). -/

/-- `R` is reflexive, transitive and established by every returning interpreter call -/
structure Interp.Keeps (ex : Interp) (R : Array Nat → Array Nat → Prop) : Prop where
  refl : ∀ s, R s s
  trans : ∀ a b c, R a b → R b c → R a c
  call : ∀ c s b s', ex c s = .ok (b, s') → R s s'

theorem strat0Loop_rel {ex : Interp} {R : Array Nat → Array Nat → Prop} (hK : ex.Keeps R) (stop : Nat) :
    ∀ k (m : MSt) save r, strat0Loop ex stop k m save = .ok r → R save r.save := by
  intro k
  induction k with
  | zero =>
    intro m save r h
    simp only [strat0Loop] at h
    split at h
    · cases h
    · cases h; exact hK.refl _
  | succ k ih =>
    intro m save r h
    simp only [strat0Loop] at h
    by_cases hc : m.start < stop
    · rw [if_pos hc] at h
      obtain ⟨a1, _, h⟩ := bind_eq_ok h
      obtain ⟨p, hp, h⟩ := bind_eq_ok h
      obtain ⟨b, s'⟩ := p
      have hR := hK.call _ _ _ _ hp
      cases b with
      | true => rw [if_pos rfl] at h; cases h; exact hR
      | false => rw [if_neg (by simp)] at h; exact hK.trans _ _ _ hR (ih _ _ _ h)
    · rw [if_neg hc] at h; cases h; exact hK.refl _

theorem strat1Loop_rel {ex : Interp} {R : Array Nat → Array Nat → Prop} (hK : ex.Keeps R)
    (bytes : Bytes) (off len byte : Nat) (m : MSt) :
    ∀ k i hits save r, strat1Loop ex bytes off len byte m k i hits save = .ok r → R save r.save := by
  intro k
  induction k with
  | zero =>
    intro i hits save r h
    simp only [strat1Loop] at h
    obtain ⟨a1, _, h⟩ := bind_eq_ok h
    cases h; exact hK.refl _
  | succ k ih =>
    intro i hits save r h
    simp only [strat1Loop] at h
    by_cases hb : byteAt bytes (off + i) = byte
    · rw [if_pos hb] at h
      obtain ⟨a1, _, h⟩ := bind_eq_ok h
      obtain ⟨p, hp, h⟩ := bind_eq_ok h
      obtain ⟨b, s'⟩ := p
      have hR := hK.call _ _ _ _ hp
      cases b with
      | true =>
        rw [if_pos rfl] at h
        obtain ⟨c1, _, h⟩ := bind_eq_ok h
        cases h; exact hR
      | false => rw [if_neg (by simp)] at h; exact hK.trans _ _ _ hR (ih _ _ _ _ h)
    · rw [if_neg hb] at h; exact ih _ _ _ _ h

theorem strat2Loop_rel {ex : Interp} {R : Array Nat → Array Nat → Prop} (hK : ex.Keeps R)
    (bytes : Bytes) (qs : List Nat) (J : Array Nat) (off len : Nat) (m : MSt) :
    ∀ fuel i hits save r, strat2Loop ex bytes qs J off len m fuel i hits save = .ok r → R save r.save := by
  intro fuel
  induction fuel with
  | zero => intro i hits save r h; simp only [strat2Loop] at h; cases h
  | succ fuel ih =>
    intro i hits save r h
    simp only [strat2Loop] at h
    by_cases hin : i + qs.length ≤ len
    · rw [if_pos hin] at h
      by_cases hcond : qs.getD (qs.length - 1) 0 = byteAt bytes (off + i + qs.length - 1) ∧ winEq bytes (off + i) qs = true
      · rw [if_pos hcond] at h
        obtain ⟨a1, _, h⟩ := bind_eq_ok h
        obtain ⟨p, hp, h⟩ := bind_eq_ok h
        obtain ⟨b, s'⟩ := p
        have hR := hK.call _ _ _ _ hp
        cases b with
        | true =>
          rw [if_pos rfl] at h
          obtain ⟨c1, _, h⟩ := bind_eq_ok h
          cases h; exact hR
        | false => rw [if_neg (by simp)] at h; exact hK.trans _ _ _ hR (ih _ _ _ _ h)
      · rw [if_neg hcond] at h; exact ih _ _ _ _ h
    · rw [if_neg hin] at h
      obtain ⟨a1, _, h⟩ := bind_eq_ok h
      cases h; exact hK.refl _

theorem strategy_rel {ex : Interp} {R : Array Nat → Array Nat → Prop} (hK : ex.Keeps R)
    (bytes : Bytes) (qs : List Nat) (off len : Nat) (m : MSt) (save : Array Nat) (r : Res)
    (h : strategy ex bytes qs off len m save = .ok r) : R save r.save := by
  unfold strategy at h
  by_cases h0 : qs.length = 0
  · rw [if_pos h0] at h
    unfold strategy0 at h
    obtain ⟨a1, _, h⟩ := bind_eq_ok h
    exact strat0Loop_rel hK _ _ _ _ _ h
  · rw [if_neg h0] at h
    by_cases h4 : qs.length < 4
    · rw [if_pos h4] at h
      cases qs with
      | nil => simp only [strategy1] at h; cases h
      | cons byte rest =>
        simp only [strategy1] at h
        exact strat1Loop_rel hK _ _ _ _ _ _ _ _ _ _ h
    · rw [if_neg h4] at h
      unfold strategy2 at h
      exact strat2Loop_rel hK _ _ _ _ _ _ _ _ _ _ _ h

theorem nextSection_rel {ex : Interp} {R : Array Nat → Array Nat → Prop} (hK : ex.Keeps R)
    (bytes : Bytes) (qs : List Nat) (base off len : Nat) (m : MSt) (save : Array Nat) (r : Res)
    (h : nextSection ex bytes qs base off len m save = .ok r) : R save r.save := by
  unfold nextSection at h
  dsimp only at h
  split at h
  · cases h
  · split at h
    · cases h; exact hK.refl _
    · split at h
      · exact strategy_rel hK _ _ _ _ _ _ _ h
      · cases h

theorem nextFile_rel {ex : Interp} {R : Array Nat → Array Nat → Prop} (hK : ex.Keeps R)
    (bytes : Bytes) (qs : List Nat) :
    ∀ (secs : List Pe.Sec) (m : MSt) save r, nextFile ex bytes qs secs m save = .ok r → R save r.save := by
  intro secs
  induction secs with
  | nil => intro m save r h; simp only [nextFile] at h; cases h; exact hK.refl _
  | cons s rest ih =>
    intro m save r h
    simp only [nextFile] at h
    by_cases hov : s.va < m.stop ∧ wadd32 s.va s.vs > m.start
    · rw [if_pos hov] at h
      by_cases hraw : s.prd ≤ wadd32 s.prd s.rs ∧ wadd32 s.prd s.rs ≤ bytes.size
      · rw [if_pos hraw] at h
        obtain ⟨q, hq, h⟩ := bind_eq_ok h
        have hR := nextSection_rel hK _ _ _ _ _ _ _ _ hq
        cases hf : q.found with
        | true => rw [hf, if_pos rfl] at h; cases h; exact hR
        | false => rw [hf, if_neg (by simp)] at h; exact hK.trans _ _ _ hR (ih _ _ _ h)
      · rw [if_neg hraw] at h; exact ih _ _ _ h
    · rw [if_neg hov] at h; exact ih _ _ _ h

/-- **one call of `next`** relates the caller's save array to the one handed back -/
theorem nextWith_rel {ex : Interp} {R : Array Nat → Array Nat → Prop} (hK : ex.Keeps R)
    (v : Pe.View) (qs : List Nat) (m : MSt) (save : Array Nat) (r : Res)
    (h : nextWith ex v qs m save = .ok r) : R save r.save := by
  unfold nextWith at h
  cases hk : v.kind with
  | file => rw [hk] at h; exact nextFile_rel hK _ _ _ _ _ _ h
  | view => rw [hk] at h; exact nextSection_rel hK _ _ _ _ _ _ _ _ h

/-- **a whole scan**: every recorded save array and the final one are related to the initial one -/
theorem scanAll_rel {nx : MSt → Array Nat → Out Res} {R : Array Nat → Array Nat → Prop}
    (hrefl : ∀ s, R s s) (htrans : ∀ a b c, R a b → R b c → R a c)
    (hnx : ∀ m save r, nx m save = .ok r → R save r.save) :
    ∀ n (m : MSt) save a, scanAll nx n m save = .ok a → R save a.save ∧ ∀ h ∈ a.hits, R save h.2 := by
  intro n
  induction n with
  | zero =>
    intro m save a h
    simp only [scanAll] at h
    cases h
    exact ⟨hrefl _, fun h hh => by cases hh⟩
  | succ n ih =>
    intro m save a h
    simp only [scanAll] at h
    obtain ⟨r, hr, h⟩ := bind_eq_ok h
    have hR := hnx _ _ _ hr
    cases hf : r.found with
    | true =>
      rw [hf, if_pos rfl] at h
      obtain ⟨a', ha', h⟩ := bind_eq_ok h
      simp only [Out.ok.injEq] at h
      subst h
      obtain ⟨h1, h2⟩ := ih _ _ _ ha'
      refine ⟨htrans _ _ _ hR h1, fun x hx => ?_⟩
      rcases List.mem_cons.1 hx with rfl | hx
      · exact hR
      · exact htrans _ _ _ hR (h2 x hx)
    | false =>
      rw [hf, if_neg (by simp)] at h
      cases h
      exact ⟨hR, fun x hx => by cases hx⟩

/-! ### the `hits` counter and the progress of `range.start`

Hypothesis-free facts about every search that RETURNS (`… = .ok r`; a panic of the checked `u32`
range arithmetic is a non-`ok` result): arbitrary interpreter, arbitrary prefix bytes, arbitrary
image and section table.  `range.end` is untouched, `range.start` never decreases and never passes
`max range.start range.end`, the counter `hits` never decreases and grows by at most the number of
positions `range.start` advanced, a reported position lies in `[range.start before, range.start
after)` and cost at least one interpreter call. -/

theorem padd32_eq_ok {site : String} {a b c : Nat} (h : padd32 site a b = .ok c) :
    c = a + b ∧ a + b < 4294967296 := by
  unfold padd32 at h
  split at h
  · cases h; exact ⟨rfl, by assumption⟩
  · cases h

/-- what one returning search does to the `Matches` state `m` -/
structure Advance (m : MSt) (r : Res) : Prop where
  stop_eq : r.m.stop = m.stop
  start_le : m.start ≤ r.m.start
  start_bound : r.m.start ≤ max m.start m.stop
  hits_ge : m.hits ≤ r.m.hits
  hits_le : r.m.hits + m.start ≤ m.hits + r.m.start
  found : r.found = true → m.start ≤ r.pos ∧ r.pos < r.m.start ∧ m.hits + 1 ≤ r.m.hits

/-- the table entries used by the quick search, WITHOUT the assumption that the prefix consists of
bytes: entries for out-of-range "bytes" are simply never written -/
theorem jumpsUpTo_bounds' (qs : List Nat) : ∀ n, n + 1 ≤ qs.length →
    (jumpsUpTo qs n).size = 256 ∧
    ∀ b, b < 256 → ∃ j, (jumpsUpTo qs n)[b]? = some j ∧ 1 ≤ j ∧ j ≤ qs.length := by
  intro n
  induction n with
  | zero =>
    intro h
    refine ⟨by simp [jumpsUpTo], fun b hb => ⟨qs.length, by simp [jumpsUpTo, hb], by omega, Nat.le_refl _⟩⟩
  | succ n ih =>
    intro h
    obtain ⟨hsz, h1⟩ := ih (by omega)
    rw [jumpsUpTo_succ]
    refine ⟨by rw [Array.size_setIfInBounds, hsz], fun b hb => ?_⟩
    rw [Array.getElem?_setIfInBounds]
    by_cases he : qs.getD n 0 = b
    · rw [if_pos he, if_pos (by rw [hsz, he]; exact hb)]
      exact ⟨_, rfl, by omega, by omega⟩
    · rw [if_neg he]; exact h1 b hb

/-- `1 ≤ jumps[b] ≤ qslen` for every byte `b`, any non-empty prefix list -/
theorem mkJumps_bounds' (qs : List Nat) (hlen : 1 ≤ qs.length) (b : Nat) (hb : b < 256) :
    1 ≤ (mkJumps qs).getD b 0 ∧ (mkJumps qs).getD b 0 ≤ qs.length := by
  obtain ⟨_, h1⟩ := jumpsUpTo_bounds' qs (qs.length - 1) (by omega)
  obtain ⟨j, hj, h⟩ := h1 b hb
  rw [mkJumps_eq, Array.getD_eq_getD_getElem?, hj]
  exact h

theorem strat0Loop_hits {ex : Interp} (stop : Nat) :
    ∀ k (m : MSt) save r, strat0Loop ex stop k m save = .ok r →
      r.m.stop = m.stop ∧ m.start ≤ r.m.start ∧ r.m.start ≤ max m.start stop ∧ m.hits ≤ r.m.hits ∧
      r.m.hits + m.start ≤ m.hits + r.m.start ∧
      (r.found = true → m.start ≤ r.pos ∧ r.pos < r.m.start ∧ m.hits + 1 ≤ r.m.hits) := by
  intro k
  induction k with
  | zero =>
    intro m save r h
    simp only [strat0Loop] at h
    split at h
    · cases h
    · cases h; exact ⟨rfl, Nat.le_refl _, Nat.le_max_left _ _, Nat.le_refl _, Nat.le_refl _, fun hf => by cases hf⟩
  | succ k ih =>
    intro m save r h
    simp only [strat0Loop] at h
    by_cases hc : m.start < stop
    · rw [if_pos hc] at h
      obtain ⟨st1, hst1, h⟩ := bind_eq_ok h
      obtain ⟨hst1, _⟩ := padd32_eq_ok hst1
      subst hst1
      obtain ⟨p, _, h⟩ := bind_eq_ok h
      obtain ⟨b, s'⟩ := p
      cases b with
      | true =>
        rw [if_pos rfl] at h; cases h
        refine ⟨rfl, ?_, ?_, ?_, ?_, fun _ => ⟨?_, ?_, ?_⟩⟩ <;> simp only <;> omega
      | false =>
        rw [if_neg (by simp)] at h
        obtain ⟨h1, h2, h3, h4, h5, h6⟩ := ih _ _ _ h
        simp only at h1 h2 h3 h4 h5 h6
        refine ⟨h1, by omega, by omega, by omega, by omega, fun hf => ?_⟩
        obtain ⟨a1, a2, a3⟩ := h6 hf
        exact ⟨by omega, a2, by omega⟩
    · rw [if_neg hc] at h; cases h
      exact ⟨rfl, Nat.le_refl _, Nat.le_max_left _ _, Nat.le_refl _, Nat.le_refl _, fun hf => by cases hf⟩

theorem strat1Loop_hits {ex : Interp} (bytes : Bytes) (off len byte : Nat) (m : MSt) :
    ∀ k i hits save r, i + k = len → strat1Loop ex bytes off len byte m k i hits save = .ok r →
      r.m.stop = m.stop ∧ m.start + i ≤ r.m.start ∧ r.m.start ≤ m.start + len ∧ hits ≤ r.m.hits ∧
      r.m.hits + (m.start + i) ≤ hits + r.m.start ∧
      (r.found = true → m.start + i ≤ r.pos ∧ r.pos < r.m.start ∧ hits + 1 ≤ r.m.hits) := by
  intro k
  induction k with
  | zero =>
    intro i hits save r hik h
    simp only [strat1Loop] at h
    obtain ⟨st1, hst1, h⟩ := bind_eq_ok h
    obtain ⟨hst1, _⟩ := padd32_eq_ok hst1
    subst hst1
    cases h
    refine ⟨rfl, ?_, ?_, ?_, ?_, fun hf => by cases hf⟩ <;> simp only <;> omega
  | succ k ih =>
    intro i hits save r hik h
    simp only [strat1Loop] at h
    by_cases hb : byteAt bytes (off + i) = byte
    · rw [if_pos hb] at h
      obtain ⟨cursor, hcur, h⟩ := bind_eq_ok h
      obtain ⟨hcur, _⟩ := padd32_eq_ok hcur
      subst hcur
      obtain ⟨p, _, h⟩ := bind_eq_ok h
      obtain ⟨b, s'⟩ := p
      cases b with
      | true =>
        rw [if_pos rfl] at h
        obtain ⟨st1, hst1, h⟩ := bind_eq_ok h
        obtain ⟨hst1, _⟩ := padd32_eq_ok hst1
        subst hst1
        cases h
        refine ⟨rfl, ?_, ?_, ?_, ?_, fun _ => ⟨?_, ?_, ?_⟩⟩ <;> simp only <;> omega
      | false =>
        rw [if_neg (by simp)] at h
        obtain ⟨h1, h2, h3, h4, h5, h6⟩ := ih _ _ _ _ (by omega) h
        refine ⟨h1, by omega, h3, by omega, by omega, fun hf => ?_⟩
        obtain ⟨a1, a2, a3⟩ := h6 hf
        exact ⟨by omega, a2, by omega⟩
    · rw [if_neg hb] at h
      obtain ⟨h1, h2, h3, h4, h5, h6⟩ := ih _ _ _ _ (by omega) h
      refine ⟨h1, by omega, h3, h4, by omega, fun hf => ?_⟩
      obtain ⟨a1, a2, a3⟩ := h6 hf
      exact ⟨by omega, a2, a3⟩

theorem strat2Loop_hits {ex : Interp} (bytes : Bytes) (qs : List Nat) (J : Array Nat)
    (hJ : ∀ b, b < 256 → 1 ≤ J.getD b 0 ∧ J.getD b 0 ≤ qs.length) (off len : Nat) (m : MSt) :
    ∀ fuel i hits save r, i ≤ len → strat2Loop ex bytes qs J off len m fuel i hits save = .ok r →
      r.m.stop = m.stop ∧ m.start + i ≤ r.m.start ∧ r.m.start ≤ m.start + len ∧ hits ≤ r.m.hits ∧
      r.m.hits + (m.start + i) ≤ hits + r.m.start ∧
      (r.found = true → m.start + i ≤ r.pos ∧ r.pos < r.m.start ∧ hits + 1 ≤ r.m.hits) := by
  intro fuel
  induction fuel with
  | zero => intro i hits save r _ h; simp only [strat2Loop] at h; cases h
  | succ fuel ih =>
    intro i hits save r hil h
    simp only [strat2Loop] at h
    by_cases hin : i + qs.length ≤ len
    · rw [if_pos hin] at h
      obtain ⟨hj1, hj2⟩ := hJ _ (byteAt_lt bytes (off + i + qs.length - 1))
      by_cases hcond : qs.getD (qs.length - 1) 0 = byteAt bytes (off + i + qs.length - 1) ∧ winEq bytes (off + i) qs = true
      · rw [if_pos hcond] at h
        obtain ⟨cursor, hcur, h⟩ := bind_eq_ok h
        obtain ⟨hcur, _⟩ := padd32_eq_ok hcur
        subst hcur
        obtain ⟨p, _, h⟩ := bind_eq_ok h
        obtain ⟨b, s'⟩ := p
        cases b with
        | true =>
          rw [if_pos rfl] at h
          obtain ⟨st1, hst1, h⟩ := bind_eq_ok h
          obtain ⟨hst1, _⟩ := padd32_eq_ok hst1
          subst hst1
          cases h
          refine ⟨rfl, ?_, ?_, ?_, ?_, fun _ => ⟨?_, ?_, ?_⟩⟩ <;> simp only <;> omega
        | false =>
          rw [if_neg (by simp)] at h
          obtain ⟨h1, h2, h3, h4, h5, h6⟩ := ih _ _ _ _ (by omega) h
          refine ⟨h1, by omega, h3, by omega, by omega, fun hf => ?_⟩
          obtain ⟨a1, a2, a3⟩ := h6 hf
          exact ⟨by omega, a2, by omega⟩
      · rw [if_neg hcond] at h
        obtain ⟨h1, h2, h3, h4, h5, h6⟩ := ih _ _ _ _ (by omega) h
        refine ⟨h1, by omega, h3, h4, by omega, fun hf => ?_⟩
        obtain ⟨a1, a2, a3⟩ := h6 hf
        exact ⟨by omega, a2, a3⟩
    · rw [if_neg hin] at h
      obtain ⟨st1, hst1, h⟩ := bind_eq_ok h
      obtain ⟨hst1, _⟩ := padd32_eq_ok hst1
      subst hst1
      cases h
      refine ⟨rfl, ?_, ?_, ?_, ?_, fun hf => by cases hf⟩ <;> simp only <;> omega

/-- any of the three searches over a window of `len` positions starting at `range.start` -/
theorem strategy_hits {ex : Interp} (bytes : Bytes) (qs : List Nat) (off len : Nat) (m : MSt)
    (save : Array Nat) (r : Res) (h : strategy ex bytes qs off len m save = .ok r) :
    r.m.stop = m.stop ∧ m.start ≤ r.m.start ∧ r.m.start ≤ m.start + len ∧ m.hits ≤ r.m.hits ∧
    r.m.hits + m.start ≤ m.hits + r.m.start ∧
    (r.found = true → m.start ≤ r.pos ∧ r.pos < r.m.start ∧ m.hits + 1 ≤ r.m.hits) := by
  unfold strategy at h
  by_cases h0 : qs.length = 0
  · rw [if_pos h0] at h
    unfold strategy0 at h
    obtain ⟨stop, hstop, h⟩ := bind_eq_ok h
    obtain ⟨hstop, _⟩ := padd32_eq_ok hstop
    subst hstop
    obtain ⟨h1, h2, h3, h4, h5, h6⟩ := strat0Loop_hits _ _ _ _ _ h
    exact ⟨h1, h2, by omega, h4, h5, h6⟩
  · rw [if_neg h0] at h
    by_cases h4 : qs.length < 4
    · rw [if_pos h4] at h
      cases qs with
      | nil => simp only [strategy1] at h; cases h
      | cons byte rest =>
        simp only [strategy1] at h
        exact strat1Loop_hits _ _ _ _ _ _ _ _ _ _ (by omega) h
    · rw [if_neg h4] at h
      unfold strategy2 at h
      exact strat2Loop_hits _ _ _ (fun b hb => mkJumps_bounds' qs (by omega) b hb) _ _ _ _ _ _ _ _ (Nat.zero_le _) h

theorem nextSection_hits {ex : Interp} (bytes : Bytes) (qs : List Nat) (base off len : Nat)
    (m : MSt) (save : Array Nat) (r : Res) (h : nextSection ex bytes qs base off len m save = .ok r) :
    r.m.stop = m.stop ∧ m.start ≤ r.m.start ∧ r.m.start ≤ max (max base m.start) m.stop ∧ m.hits ≤ r.m.hits ∧
    r.m.hits + m.start ≤ m.hits + r.m.start ∧
    (r.found = true → m.start ≤ r.pos ∧ r.pos < r.m.start ∧ m.hits + 1 ≤ r.m.hits) := by
  unfold nextSection at h
  dsimp only at h
  split at h
  · cases h
  · split at h
    · cases h
      refine ⟨rfl, ?_, ?_, Nat.le_refl _, ?_, fun hf => by cases hf⟩ <;> simp only <;> omega
    · split at h
      · obtain ⟨h1, h2, h3, h4, h5, h6⟩ := strategy_hits _ _ _ _ _ _ _ h
        simp only at h1 h2 h3 h4 h5 h6
        refine ⟨h1, by omega, by omega, h4, by omega, fun hf => ?_⟩
        obtain ⟨a1, a2, a3⟩ := h6 hf
        exact ⟨by omega, a2, a3⟩
      · cases h

theorem nextFile_hits {ex : Interp} (bytes : Bytes) (qs : List Nat) :
    ∀ (secs : List Pe.Sec) (m : MSt) save r, nextFile ex bytes qs secs m save = .ok r → Advance m r := by
  intro secs
  induction secs with
  | nil =>
    intro m save r h; simp only [nextFile] at h; cases h
    exact ⟨rfl, Nat.le_refl _, Nat.le_max_left _ _, Nat.le_refl _, Nat.le_refl _, fun hf => by cases hf⟩
  | cons s rest ih =>
    intro m save r h
    simp only [nextFile] at h
    by_cases hov : s.va < m.stop ∧ wadd32 s.va s.vs > m.start
    · rw [if_pos hov] at h
      by_cases hraw : s.prd ≤ wadd32 s.prd s.rs ∧ wadd32 s.prd s.rs ≤ bytes.size
      · rw [if_pos hraw] at h
        obtain ⟨q, hq, h⟩ := bind_eq_ok h
        obtain ⟨h1, h2, h3, h4, h5, h6⟩ := nextSection_hits _ _ _ _ _ _ _ _ hq
        cases hf : q.found with
        | true =>
          rw [hf, if_pos rfl] at h; cases h
          exact ⟨h1, h2, by omega, h4, h5, h6⟩
        | false =>
          rw [hf, if_neg (by simp)] at h
          have A := ih _ _ _ h
          refine ⟨by rw [A.stop_eq, h1], Nat.le_trans h2 A.start_le, ?_, Nat.le_trans h4 A.hits_ge, ?_, fun hf' => ?_⟩
          · have := A.start_bound; rw [h1] at this; omega
          · have := A.hits_le; omega
          · obtain ⟨a1, a2, a3⟩ := A.found hf'
            exact ⟨by omega, a2, by omega⟩
      · rw [if_neg hraw] at h; exact ih _ _ _ h
    · rw [if_neg hov] at h; exact ih _ _ _ h

/-- **one call of `next`, any interpreter, any prefix, any image** -/
theorem nextWith_hits {ex : Interp} (v : Pe.View) (qs : List Nat) (m : MSt) (save : Array Nat) (r : Res)
    (h : nextWith ex v qs m save = .ok r) : Advance m r := by
  unfold nextWith at h
  cases hk : v.kind with
  | file => rw [hk] at h; exact nextFile_hits _ _ _ _ _ _ h
  | view =>
    rw [hk] at h
    obtain ⟨h1, h2, h3, h4, h5, h6⟩ := nextSection_hits _ _ _ _ _ _ _ _ h
    exact ⟨h1, h2, by omega, h4, h5, h6⟩

/-- **a whole scan** with a `next` that satisfies `Advance`: the same for the final state, every
recorded position lies in `[range.start at the beginning, range.start at the end)`, and every
recorded match cost at least one interpreter call -/
theorem scanAll_hits {nx : MSt → Array Nat → Out Res}
    (hnx : ∀ m save r, nx m save = .ok r → Advance m r) :
    ∀ n (m : MSt) save a, scanAll nx n m save = .ok a →
      a.m.stop = m.stop ∧ m.start ≤ a.m.start ∧ a.m.start ≤ max m.start m.stop ∧
      m.hits + a.hits.length ≤ a.m.hits ∧ a.m.hits + m.start ≤ m.hits + a.m.start ∧
      ∀ x ∈ a.hits, m.start ≤ x.1 ∧ x.1 < a.m.start := by
  intro n
  induction n with
  | zero =>
    intro m save a h
    simp only [scanAll] at h
    cases h
    exact ⟨rfl, Nat.le_refl _, Nat.le_max_left _ _, Nat.le_refl _, Nat.le_refl _, fun x hx => by cases hx⟩
  | succ n ih =>
    intro m save a h
    simp only [scanAll] at h
    obtain ⟨r, hr, h⟩ := bind_eq_ok h
    have A := hnx _ _ _ hr
    cases hf : r.found with
    | true =>
      rw [hf, if_pos rfl] at h
      obtain ⟨a', ha', h⟩ := bind_eq_ok h
      simp only [Out.ok.injEq] at h
      subst h
      obtain ⟨h1, h2, h3, h4, h5, h6⟩ := ih _ _ _ ha'
      obtain ⟨f1, f2, f3⟩ := A.found hf
      have := A.stop_eq; have := A.start_le; have := A.start_bound; have := A.hits_le
      refine ⟨by simp only; omega, by simp only; omega, by simp only; omega,
        by simp only [List.length_cons]; omega, by simp only; omega, fun x hx => ?_⟩
      rcases List.mem_cons.1 hx with rfl | hx
      · simp only; omega
      · have := h6 x hx; simp only; omega
    | false =>
      rw [hf, if_neg (by simp)] at h
      cases h
      exact ⟨A.stop_eq, A.start_le, A.start_bound, by simpa using A.hits_ge, A.hits_le, fun x hx => by cases hx⟩


/-- the states a `Matches` object can be in after finitely many RETURNING calls of `next` (abstract
`nx`, each call on an arbitrary save array) when it started in state `m` -/
inductive Reach (nx : MSt → Array Nat → Out Res) (m : MSt) : MSt → Prop
  | refl : Reach nx m m
  | step {m' : MSt} {save : Array Nat} {r : Res} : Reach nx m m' → nx m' save = .ok r → Reach nx m r.m

theorem Reach_hits {nx : MSt → Array Nat → Out Res}
    (hnx : ∀ m save r, nx m save = .ok r → Advance m r) {m m' : MSt} (h : Reach nx m m') :
    m'.stop = m.stop ∧ m.start ≤ m'.start ∧ m'.start ≤ max m.start m.stop ∧ m.hits ≤ m'.hits ∧
    m'.hits + m.start ≤ m.hits + m'.start := by
  induction h with
  | refl => exact ⟨rfl, Nat.le_refl _, Nat.le_max_left _ _, Nat.le_refl _, Nat.le_refl _⟩
  | step _ hr ih =>
    obtain ⟨h1, h2, h3, h4, h5⟩ := ih
    have A := hnx _ _ _ hr
    have := A.stop_eq; have := A.start_le; have := A.start_bound; have := A.hits_le; have := A.hits_ge
    exact ⟨by omega, by omega, by omega, by omega, by omega⟩

/-- the final state of `scanAll` is such a state -/
theorem scanAll_reach {nx : MSt → Array Nat → Out Res} :
    ∀ n (m0 m : MSt) save a, Reach nx m0 m → scanAll nx n m save = .ok a → Reach nx m0 a.m := by
  intro n
  induction n with
  | zero => intro m0 m save a hm h; simp only [scanAll] at h; cases h; exact hm
  | succ n ih =>
    intro m0 m save a hm h
    simp only [scanAll] at h
    obtain ⟨r, hr, h⟩ := bind_eq_ok h
    cases hf : r.found with
    | true =>
      rw [hf, if_pos rfl] at h
      obtain ⟨a', ha', h⟩ := bind_eq_ok h
      simp only [Out.ok.injEq] at h
      subst h
      show Reach nx m0 a'.m
      exact ih _ _ _ _ (Reach.step hm hr) ha'
    | false =>
      rw [hf, if_neg (by simp)] at h
      cases h
      exact Reach.step hm hr

end Pelite.Scan
