import PeliteModel.Spec.Strings
/-! Helper lemmas for C20 (property theorems live in Thm/C20.lean). -/
namespace Pelite.Strings

/-- Regenerated table = documented set.  Re-checked by the kernel against the table the probe
extracted from the current source. -/
theorem printable_table_eq_spec : ∀ b, b < 256 → printable b = specPrintable b := by
  decide +kernel

theorem printable_byteAt (bytes : Bytes) (j : Nat) :
    printable (byteAt bytes j) = specPrintable (byteAt bytes j) :=
  printable_table_eq_spec _ (byteAt_lt bytes j)

theorem specPrintable_zero : specPrintable 0 = false := by decide

/-- left boundary: a run may start at `s` -/
def Bnd (bytes : Bytes) (s : Nat) : Prop := s = 0 ∨ specPrintable (byteAt bytes (s - 1)) = false

/-- all bytes in `[s,i)` printable -/
def AllP (bytes : Bytes) (s i : Nat) : Prop := ∀ j, s ≤ j → j < i → specPrintable (byteAt bytes j) = true

theorem AllP_step {bytes s i} (h : AllP bytes s i) (hp : specPrintable (byteAt bytes i) = true) :
    AllP bytes s (i+1) := by
  intro j h1 h2
  by_cases hj : j = i
  · subst hj; exact hp
  · exact h j h1 (by omega)

theorem AllP_empty (bytes s) : AllP bytes s s := by intro j h1 h2; omega

/-- A qualifying run that starts at or after `s`, where `[s,i)` is printable, starts at `s` or after `i`. -/
theorem qual_start {bytes cfg g s i} (hq : Qualifies bytes cfg g) (hs : s ≤ g.start)
    (hall : AllP bytes s i) : g.start = s ∨ i < g.start := by
  by_cases h : g.start = s
  · exact Or.inl h
  · right
    rcases hq with ⟨_, _, _, hb, _⟩
    rcases hb with hb | hb
    · omega
    · by_cases hlt : i < g.start
      · exact hlt
      · have := hall (g.start - 1) (by omega) (by omega)
        rw [this] at hb; cases hb

/-- A qualifying run starting at `s` when `[s,i)` is printable and byte `i` is not (or `i` is the end)
is exactly `[s,i)`. -/
theorem qual_len {bytes cfg g s i} (hq : Qualifies bytes cfg g) (hs : g.start = s) (hsi : s ≤ i)
    (hall : AllP bytes s i)
    (hend : i = bytes.size ∨ (i < bytes.size ∧ specPrintable (byteAt bytes i) = false)) :
    g.len = i - s := by
  rcases hq with ⟨_, hsz, hp, _, hk⟩
  have h1 : g.start + g.len ≤ i := by
    rcases hend with hend | ⟨_, hend⟩
    · omega
    · by_cases hle : g.start + g.len ≤ i
      · exact hle
      · have := hp i (by omega) (by omega)
        rw [this] at hend; cases hend
  have h2 : i ≤ g.start + g.len := by
    by_cases hle : i ≤ g.start + g.len
    · exact hle
    · have hpr := hall (g.start + g.len) (by omega) (by omega)
      rcases hk with ⟨_, hz, _, _⟩ | ⟨_, _, hnp, _⟩ | ⟨he, _⟩
      · rw [hz, specPrintable_zero] at hpr; cases hpr
      · rw [hpr] at hnp; cases hnp
      · omega
  omega

end Pelite.Strings

namespace Pelite.Strings

def ScanPost (bytes : Bytes) (cfg : Config) (start : Nat) : Option (Found × Nat) → Prop
  | none => ∀ g, Qualifies bytes cfg g → start ≤ g.start → False
  | some (f, off') =>
      Qualifies bytes cfg f ∧ start ≤ f.start ∧ f.start + f.len ≤ off' ∧ off' ≤ f.start + f.len + 1 ∧
      off' ≤ bytes.size ∧ (off' < bytes.size → Bnd bytes off') ∧
      (∀ g, Qualifies bytes cfg g → start ≤ g.start → g.start < off' → g = f)

theorem ScanPost_weaken {bytes cfg start s' r} (hle : start ≤ s')
    (hno : ∀ g, Qualifies bytes cfg g → start ≤ g.start → g.start < s' → False)
    (h : ScanPost bytes cfg s' r) : ScanPost bytes cfg start r := by
  cases r with
  | none =>
    intro g hq hs
    by_cases hlt : g.start < s'
    · exact hno g hq hs hlt
    · exact h g hq (by omega)
  | some p =>
    obtain ⟨f, off'⟩ := p
    obtain ⟨a, b, c, d, e, f', g'⟩ := h
    refine ⟨a, by omega, c, d, e, f', ?_⟩
    intro g hq hs hlt
    by_cases hlt' : g.start < s'
    · exact (hno g hq hs hlt').elim
    · exact g' g hq (by omega) hlt

theorem Found.ext' {a b : Found} (h1 : a.start = b.start) (h2 : a.len = b.len) (h3 : a.hasNul = b.hasNul) : a = b := by
  cases a; cases b; simp_all

theorem scan_post {bytes : Bytes} {cfg : Config} (hm : 1 ≤ cfg.minLen) (hn : 1 ≤ cfg.minLenNul)
    (start i : Nat) (hsi : start ≤ i) (hi : i ≤ bytes.size) (hb : Bnd bytes start)
    (hall : AllP bytes start i) : ScanPost bytes cfg start (scan bytes cfg start i) := by
  fun_induction scan bytes cfg start i with
  | case1 start i hlt b hp ih =>
    exact ih (by omega) (by omega) hb (AllP_step hall (by rw [← printable_byteAt]; exact hp))
  | case2 start i hlt b hp hz hlen =>
    -- NUL terminated, long enough
    have hnp : specPrintable (byteAt bytes i) = false := by
      rw [← printable_byteAt]; simpa using hp
    have hq : Qualifies bytes cfg ⟨start, i - start, true⟩ := by
      refine ⟨by simp only; omega, by simp only; omega, ?_, hb, Or.inl ⟨?_, ?_, rfl, ?_⟩⟩
      · intro j h1 h2; exact hall j h1 (by simp only at h2; omega)
      · simp only; omega
      · simp only; rw [show start + (i - start) = i by omega]; exact hz
      · simp only; omega
    refine ⟨hq, Nat.le_refl _, by simp only; omega, by simp only; omega, by omega, ?_, ?_⟩
    · intro _; right; simpa using hnp
    · intro g hg hs hlt'
      rcases qual_start hg hs hall with h | h
      · have hl := qual_len hg h hsi hall (Or.inr ⟨hlt, hnp⟩)
        apply Found.ext' h hl
        rcases hg with ⟨_, _, _, _, hk⟩
        rw [h, hl, show start + (i - start) = i by omega] at hk
        rcases hk with ⟨_, _, hh, _⟩ | ⟨_, hne, _⟩ | ⟨he, _⟩
        · exact hh
        · exact (hne hz).elim
        · omega
      · omega
  | case3 start i hlt b hp hz hlen ih =>
    have hnp : specPrintable (byteAt bytes i) = false := by
      rw [← printable_byteAt]; simpa using hp
    refine ScanPost_weaken (by omega) ?_ (ih (Nat.le_refl _) (by omega) (Or.inr (by simpa using hnp)) (AllP_empty _ _))
    intro g hg hs hlt'
    rcases qual_start hg hs hall with h | h
    · have hl := qual_len hg h hsi hall (Or.inr ⟨hlt, hnp⟩)
      rcases hg with ⟨_, _, _, _, hk⟩
      rw [h, hl, show start + (i - start) = i by omega] at hk
      rcases hk with ⟨_, _, _, hh⟩ | ⟨_, hne, _⟩ | ⟨he, _⟩
      · omega
      · exact hne hz
      · omega
    · omega
  | case4 start i hlt b hp hz hs hlen =>
    have hnp : specPrintable (byteAt bytes i) = false := by
      rw [← printable_byteAt]; simpa using hp
    have hstrict : cfg.strictNul = false := by simpa using hs
    have hq : Qualifies bytes cfg ⟨start, i - start, false⟩ := by
      refine ⟨by simp only; omega, by simp only; omega, ?_, hb, Or.inr (Or.inl ⟨?_, ?_, ?_, rfl, hstrict, ?_⟩)⟩
      · intro j h1 h2; exact hall j h1 (by simp only at h2; omega)
      · simp only; omega
      · simp only; rw [show start + (i - start) = i by omega]; exact hz
      · simp only; rw [show start + (i - start) = i by omega]; exact hnp
      · simp only; omega
    refine ⟨hq, Nat.le_refl _, by simp only; omega, by simp only; omega, by omega, ?_, ?_⟩
    · intro _; right; simpa using hnp
    · intro g hg hs' hlt'
      rcases qual_start hg hs' hall with h | h
      · have hl := qual_len hg h hsi hall (Or.inr ⟨hlt, hnp⟩)
        apply Found.ext' h hl
        rcases hg with ⟨_, _, _, _, hk⟩
        rw [h, hl, show start + (i - start) = i by omega] at hk
        rcases hk with ⟨_, hz', _⟩ | ⟨_, _, _, hh, _⟩ | ⟨he, _⟩
        · exact (hz hz').elim
        · exact hh
        · omega
      · omega
  | case5 start i hlt b hp hz hs hlen ih =>
    have hnp : specPrintable (byteAt bytes i) = false := by
      rw [← printable_byteAt]; simpa using hp
    refine ScanPost_weaken (by omega) ?_ (ih (Nat.le_refl _) (by omega) (Or.inr (by simpa using hnp)) (AllP_empty _ _))
    intro g hg hs' hlt'
    rcases qual_start hg hs' hall with h | h
    · have hl := qual_len hg h hsi hall (Or.inr ⟨hlt, hnp⟩)
      rcases hg with ⟨_, _, _, _, hk⟩
      rw [h, hl, show start + (i - start) = i by omega] at hk
      rcases hk with ⟨_, hz', _⟩ | ⟨_, _, _, _, _, hh⟩ | ⟨he, _⟩
      · exact hz hz'
      · omega
      · omega
    · omega
  | case6 start i hlt b hp hz hs ih =>
    have hnp : specPrintable (byteAt bytes i) = false := by
      rw [← printable_byteAt]; simpa using hp
    have hstrict : cfg.strictNul = true := by simpa using hs
    refine ScanPost_weaken (by omega) ?_ (ih (Nat.le_refl _) (by omega) (Or.inr (by simpa using hnp)) (AllP_empty _ _))
    intro g hg hs' hlt'
    rcases qual_start hg hs' hall with h | h
    · have hl := qual_len hg h hsi hall (Or.inr ⟨hlt, hnp⟩)
      rcases hg with ⟨_, _, _, _, hk⟩
      rw [h, hl, show start + (i - start) = i by omega] at hk
      rcases hk with ⟨_, hz', _⟩ | ⟨_, _, _, _, hh, _⟩ | ⟨he, _⟩
      · exact hz hz'
      · rw [hstrict] at hh; cases hh
      · omega
    · omega
  | case7 start i hge hc =>
    obtain ⟨hne, hs, hlen⟩ := hc
    have hstrict : cfg.strictNul = false := by simpa using hs
    have hisz : i = bytes.size := by omega
    have hq : Qualifies bytes cfg ⟨start, i - start, false⟩ := by
      refine ⟨by simp only; omega, by simp only; omega, ?_, hb, Or.inr (Or.inr ⟨?_, rfl, hstrict, ?_⟩)⟩
      · intro j h1 h2; exact hall j h1 (by simp only at h2; omega)
      · simp only; omega
      · simp only; omega
    refine ⟨hq, Nat.le_refl _, by simp only; omega, by simp only; omega, by omega, ?_, ?_⟩
    · intro h; omega
    · intro g hg hs' hlt'
      rcases qual_start hg hs' hall with h | h
      · have hl := qual_len hg h hsi hall (Or.inl hisz)
        apply Found.ext' h hl
        rcases hg with ⟨_, _, _, _, hk⟩
        rw [h, hl, show start + (i - start) = i by omega] at hk
        rcases hk with ⟨hlt'', _⟩ | ⟨hlt'', _⟩ | ⟨_, hh, _⟩
        · omega
        · omega
        · exact hh
      · omega
  | case8 start i hge hc =>
    have hisz : i = bytes.size := by omega
    intro g hg hs'
    rcases qual_start hg hs' hall with h | h
    · have hl := qual_len hg h hsi hall (Or.inl hisz)
      have hg' := hg
      rcases hg with ⟨h1, _, _, _, hk⟩
      rw [h, hl, show start + (i - start) = i by omega] at hk
      rcases hk with ⟨hlt'', _⟩ | ⟨hlt'', _⟩ | ⟨_, _, hst, hml⟩
      · omega
      · omega
      · apply hc
        refine ⟨by omega, by simpa using hst, by omega⟩
    · have := hg.2.1; have := hg.1; omega

end Pelite.Strings

namespace Pelite.Strings
/-- where `next` leaves the offset: one past the terminator, or at the end of the buffer -/
theorem scan_off (bytes : Bytes) (cfg : Config) (s i : Nat) (f : Found) (off' : Nat) (hsi : s ≤ i)
    (h : scan bytes cfg s i = some (f, off')) :
    (off' = f.start + f.len + 1 ∧ off' ≤ bytes.size) ∨ (off' = f.start + f.len ∧ bytes.size ≤ off') := by
  fun_induction scan bytes cfg s i with
  | case1 start i hlt b hp ih => exact ih (by omega) h
  | case2 start i hlt b hp hz hlen => cases h; left; simp only; omega
  | case3 start i hlt b hp hz hlen ih => exact ih (Nat.le_refl _) h
  | case4 start i hlt b hp hz hs hlen => cases h; left; simp only; omega
  | case5 start i hlt b hp hz hs hlen ih => exact ih (Nat.le_refl _) h
  | case6 start i hlt b hp hz hs ih => exact ih (Nat.le_refl _) h
  | case7 start i hge hc => cases h; right; simp only; omega
  | case8 start i hge hc => cases h
end Pelite.Strings

namespace Pelite.Strings
theorem step_of_none {bytes : Bytes} {cfg : Config} {off : Nat} (h : next bytes cfg off = none) :
    step bytes cfg off = (none, off) := by
  unfold step; rw [h]

theorem nexts_of_none {bytes : Bytes} {cfg : Config} {off : Nat} (h : next bytes cfg off = none) (n : Nat) :
    nexts bytes cfg off n = List.replicate n none := by
  induction n with
  | zero => rfl
  | succ n ih => rw [nexts, step_of_none h, ih, List.replicate_succ]

/-- with fuel `len + 1` (from offset 0) the loop `while let Some(_) = it.next() {}` has ended -/
theorem next_finalOff (bytes : Bytes) (cfg : Config) (fuel off : Nat) (hoff : off ≤ bytes.size)
    (hfuel : bytes.size + 1 ≤ fuel + off) : next bytes cfg (finalOff bytes cfg fuel off) = none := by
  induction fuel generalizing off with
  | zero => omega
  | succ fuel ih =>
    unfold finalOff
    cases h : next bytes cfg off with
    | none => exact h
    | some p =>
      obtain ⟨f, off'⟩ := p
      obtain ⟨h1, h2⟩ := next_progress hoff h
      exact ih off' h2 (by omega)

end Pelite.Strings

namespace Pelite.Strings

theorem itemsFrom_of_none {bytes : Bytes} {cfg : Config} {off : Nat} (h : next bytes cfg off = none) :
    itemsFrom bytes cfg off = [] := by
  rw [itemsFrom]
  split
  · rfl
  · next f off' h' => rw [h] at h'; cases h'

theorem itemsFrom_of_some {bytes : Bytes} {cfg : Config} {off : Nat} {f : Found} {off' : Nat}
    (h : next bytes cfg off = some (f, off')) :
    itemsFrom bytes cfg off = f :: itemsFrom bytes cfg off' := by
  rw [itemsFrom]
  split
  · next h' => rw [h] at h'; cases h'
  · next f1 off1 h' => rw [h] at h'; cases h'; rfl

theorem nthFound_spec (bytes : Bytes) (cfg : Config) (k off : Nat) :
    (nthFound bytes cfg off k).1 = (itemsFrom bytes cfg off)[k]? ∧
    itemsFrom bytes cfg (nthFound bytes cfg off k).2 = (itemsFrom bytes cfg off).drop (k + 1) := by
  induction k generalizing off with
  | zero =>
    unfold nthFound step
    cases h : next bytes cfg off with
    | none => simp [itemsFrom_of_none h]
    | some p => obtain ⟨f, off'⟩ := p; simp [itemsFrom_of_some h]
  | succ k ih =>
    unfold nthFound
    cases h : next bytes cfg off with
    | none => simp [itemsFrom_of_none h]
    | some p =>
      obtain ⟨f, off'⟩ := p
      obtain ⟨h1, h2⟩ := ih off'
      simp only [itemsFrom_of_some h, List.getElem?_cons_succ, List.drop_succ_cons]
      exact ⟨h1, h2⟩

theorem countFound_eq (bytes : Bytes) (cfg : Config) (off n : Nat) :
    countFound bytes cfg off n = n + (itemsFrom bytes cfg off).length := by
  fun_induction countFound bytes cfg off n with
  | case1 off n h => rw [itemsFrom_of_none h]; rfl
  | case2 off n f off' h _ ih => rw [ih, itemsFrom_of_some h, List.length_cons]; omega

/-- `collect` with enough fuel is the total `itemsFrom` -/
theorem enumAll_eq_itemsFrom (bytes : Bytes) (cfg : Config) (fuel off : Nat) (hoff : off ≤ bytes.size)
    (hfuel : bytes.size + 2 ≤ fuel + off) : enumAll bytes cfg fuel off = .ok (itemsFrom bytes cfg off) := by
  induction fuel generalizing off with
  | zero => omega
  | succ fuel ih =>
    unfold enumAll
    cases h : next bytes cfg off with
    | none => simp only [itemsFrom_of_none h]
    | some p =>
      obtain ⟨f, off'⟩ := p
      obtain ⟨h1, h2⟩ := next_progress hoff h
      simp only [ih off' h2 (by omega), itemsFrom_of_some h]

end Pelite.Strings

namespace Pelite.Strings
open Pelite.Seq

theorem stepOp_spec (bytes : Bytes) (cfg : Config) (off : Nat) (o : Seq.Op) :
    (stepOp bytes cfg off o).1 = (stepSeq Hint.unknown (itemsFrom bytes cfg off) o).1 ∧
    itemsFrom bytes cfg (stepOp bytes cfg off o).2 = (stepSeq Hint.unknown (itemsFrom bytes cfg off) o).2 := by
  cases o with
  | next =>
    unfold stepOp step
    cases h : next bytes cfg off with
    | none => simp [stepSeq, DequeSpec.next, itemsFrom_of_none h]
    | some p => obtain ⟨f, off'⟩ := p; simp [stepSeq, DequeSpec.next, itemsFrom_of_some h]
  | nth n =>
    obtain ⟨h1, h2⟩ := nthFound_spec bytes cfg n off
    simp [stepOp, stepSeq, DequeSpec.nth, h1, h2]
  | sizeHint => simp [stepOp, stepSeq, sizeHintFound, Hint.unknown]
  | count => simp [stepOp, stepSeq, countFound_eq]
  | clone => simp [stepOp, stepSeq]

theorem runOps_eq_runSeq (bytes : Bytes) (cfg : Config) (ops : List Seq.Op) (off : Nat) :
    runOps bytes cfg off ops = runSeq Hint.unknown (itemsFrom bytes cfg off) ops := by
  induction ops generalizing off with
  | nil => rfl
  | cons o os ih =>
    obtain ⟨h1, h2⟩ := stepOp_spec bytes cfg off o
    rw [runOps, runSeq, ih, h1, h2]

end Pelite.Strings
