import PeliteModel.Spec.Strings
/-! Helper lemmas for C20 (property theorems live in Thm/C20.lean). -/
namespace Pelite.Strings

/-- Regenerated table = documented set.  Re-checked by the kernel against the table the probe
extracted from the current source. -/
theorem printable_table_eq_spec : ∀ b, b < 256 → printable b = specPrintable b := by
  decide +kernel

theorem printable_byteAt (bytes : Bytes) (j : Nat) :
    printable (byteAt bytes j) = specPrintable (byteAt bytes j) :=
  printable_table_eq_spec _ (byteAt_lt bytes j)

theorem specPrintable_zero : specPrintable 0 = false := by decide

/-- left boundary: a run may start at `s` -/
def Bnd (bytes : Bytes) (s : Nat) : Prop := s = 0 ∨ specPrintable (byteAt bytes (s - 1)) = false

/-- all bytes in `[s,i)` printable -/
def AllP (bytes : Bytes) (s i : Nat) : Prop := ∀ j, s ≤ j → j < i → specPrintable (byteAt bytes j) = true

theorem AllP_step {bytes s i} (h : AllP bytes s i) (hp : specPrintable (byteAt bytes i) = true) :
    AllP bytes s (i+1) := by
  intro j h1 h2
  by_cases hj : j = i
  · subst hj; exact hp
  · exact h j h1 (by omega)

theorem AllP_empty (bytes s) : AllP bytes s s := by intro j h1 h2; omega

/-- A qualifying run that starts at or after `s`, where `[s,i)` is printable, starts at `s` or after `i`. -/
theorem qual_start {bytes cfg g s i} (hq : Qualifies bytes cfg g) (hs : s ≤ g.start)
    (hall : AllP bytes s i) : g.start = s ∨ i < g.start := by
  by_cases h : g.start = s
  · exact Or.inl h
  · right
    rcases hq with ⟨_, _, _, hb, _⟩
    rcases hb with hb | hb
    · omega
    · by_cases hlt : i < g.start
      · exact hlt
      · have := hall (g.start - 1) (by omega) (by omega)
        rw [this] at hb; cases hb

/-- A qualifying run starting at `s` when `[s,i)` is printable and byte `i` is not (or `i` is the end)
is exactly `[s,i)`. -/
theorem qual_len {bytes cfg g s i} (hq : Qualifies bytes cfg g) (hs : g.start = s) (hsi : s ≤ i)
    (hall : AllP bytes s i)
    (hend : i = bytes.size ∨ (i < bytes.size ∧ specPrintable (byteAt bytes i) = false)) :
    g.len = i - s := by
  rcases hq with ⟨_, hsz, hp, _, hk⟩
  have h1 : g.start + g.len ≤ i := by
    rcases hend with hend | ⟨_, hend⟩
    · omega
    · by_cases hle : g.start + g.len ≤ i
      · exact hle
      · have := hp i (by omega) (by omega)
        rw [this] at hend; cases hend
  have h2 : i ≤ g.start + g.len := by
    by_cases hle : i ≤ g.start + g.len
    · exact hle
    · have hpr := hall (g.start + g.len) (by omega) (by omega)
      rcases hk with ⟨_, hz, _, _⟩ | ⟨_, _, hnp, _⟩ | ⟨he, _⟩
      · rw [hz, specPrintable_zero] at hpr; cases hpr
      · rw [hpr] at hnp; cases hnp
      · omega
  omega

end Pelite.Strings

namespace Pelite.Strings

def ScanPost (bytes : Bytes) (cfg : Config) (start : Nat) : Option (Found × Nat) → Prop
  | none => ∀ g, Qualifies bytes cfg g → start ≤ g.start → False
  | some (f, off') =>
      Qualifies bytes cfg f ∧ start ≤ f.start ∧ f.start + f.len ≤ off' ∧ off' ≤ f.start + f.len + 1 ∧
      off' ≤ bytes.size ∧ (off' < bytes.size → Bnd bytes off') ∧
      (∀ g, Qualifies bytes cfg g → start ≤ g.start → g.start < off' → g = f)

theorem ScanPost_weaken {bytes cfg start s' r} (hle : start ≤ s')
    (hno : ∀ g, Qualifies bytes cfg g → start ≤ g.start → g.start < s' → False)
    (h : ScanPost bytes cfg s' r) : ScanPost bytes cfg start r := by
  cases r with
  | none =>
    intro g hq hs
    by_cases hlt : g.start < s'
    · exact hno g hq hs hlt
    · exact h g hq (by omega)
  | some p =>
    obtain ⟨f, off'⟩ := p
    obtain ⟨a, b, c, d, e, f', g'⟩ := h
    refine ⟨a, by omega, c, d, e, f', ?_⟩
    intro g hq hs hlt
    by_cases hlt' : g.start < s'
    · exact (hno g hq hs hlt').elim
    · exact g' g hq (by omega) hlt

theorem Found.ext' {a b : Found} (h1 : a.start = b.start) (h2 : a.len = b.len) (h3 : a.hasNul = b.hasNul) : a = b := by
  cases a; cases b; simp_all

theorem scan_post {bytes : Bytes} {cfg : Config} (hm : 1 ≤ cfg.minLen) (hn : 1 ≤ cfg.minLenNul)
    (start i : Nat) (hsi : start ≤ i) (hi : i ≤ bytes.size) (hb : Bnd bytes start)
    (hall : AllP bytes start i) : ScanPost bytes cfg start (scan bytes cfg start i) := by
  fun_induction scan bytes cfg start i with
  | case1 start i hlt b hp ih =>
    exact ih (by omega) (by omega) hb (AllP_step hall (by rw [← printable_byteAt]; exact hp))
  | case2 start i hlt b hp hz hlen =>
    -- NUL terminated, long enough
    have hnp : specPrintable (byteAt bytes i) = false := by
      rw [← printable_byteAt]; simpa using hp
    have hq : Qualifies bytes cfg ⟨start, i - start, true⟩ := by
      refine ⟨by simp only; omega, by simp only; omega, ?_, hb, Or.inl ⟨?_, ?_, rfl, ?_⟩⟩
      · intro j h1 h2; exact hall j h1 (by simp only at h2; omega)
      · simp only; omega
      · simp only; rw [show start + (i - start) = i by omega]; exact hz
      · simp only; omega
    refine ⟨hq, Nat.le_refl _, by simp only; omega, by simp only; omega, by omega, ?_, ?_⟩
    · intro _; right; simpa using hnp
    · intro g hg hs hlt'
      rcases qual_start hg hs hall with h | h
      · have hl := qual_len hg h hsi hall (Or.inr ⟨hlt, hnp⟩)
        apply Found.ext' h hl
        rcases hg with ⟨_, _, _, _, hk⟩
        rw [h, hl, show start + (i - start) = i by omega] at hk
        rcases hk with ⟨_, _, hh, _⟩ | ⟨_, hne, _⟩ | ⟨he, _⟩
        · exact hh
        · exact (hne hz).elim
        · omega
      · omega
  | case3 start i hlt b hp hz hlen ih =>
    have hnp : specPrintable (byteAt bytes i) = false := by
      rw [← printable_byteAt]; simpa using hp
    refine ScanPost_weaken (by omega) ?_ (ih (Nat.le_refl _) (by omega) (Or.inr (by simpa using hnp)) (AllP_empty _ _))
    intro g hg hs hlt'
    rcases qual_start hg hs hall with h | h
    · have hl := qual_len hg h hsi hall (Or.inr ⟨hlt, hnp⟩)
      rcases hg with ⟨_, _, _, _, hk⟩
      rw [h, hl, show start + (i - start) = i by omega] at hk
      rcases hk with ⟨_, _, _, hh⟩ | ⟨_, hne, _⟩ | ⟨he, _⟩
      · omega
      · exact hne hz
      · omega
    · omega
  | case4 start i hlt b hp hz hs hlen =>
    have hnp : specPrintable (byteAt bytes i) = false := by
      rw [← printable_byteAt]; simpa using hp
    have hstrict : cfg.strictNul = false := by simpa using hs
    have hq : Qualifies bytes cfg ⟨start, i - start, false⟩ := by
      refine ⟨by simp only; omega, by simp only; omega, ?_, hb, Or.inr (Or.inl ⟨?_, ?_, ?_, rfl, hstrict, ?_⟩)⟩
      · intro j h1 h2; exact hall j h1 (by simp only at h2; omega)
      · simp only; omega
      · simp only; rw [show start + (i - start) = i by omega]; exact hz
      · simp only; rw [show start + (i - start) = i by omega]; exact hnp
      · simp only; omega
    refine ⟨hq, Nat.le_refl _, by simp only; omega, by simp only; omega, by omega, ?_, ?_⟩
    · intro _; right; simpa using hnp
    · intro g hg hs' hlt'
      rcases qual_start hg hs' hall with h | h
      · have hl := qual_len hg h hsi hall (Or.inr ⟨hlt, hnp⟩)
        apply Found.ext' h hl
        rcases hg with ⟨_, _, _, _, hk⟩
        rw [h, hl, show start + (i - start) = i by omega] at hk
        rcases hk with ⟨_, hz', _⟩ | ⟨_, _, _, hh, _⟩ | ⟨he, _⟩
        · exact (hz hz').elim
        · exact hh
        · omega
      · omega
  | case5 start i hlt b hp hz hs hlen ih =>
    have hnp : specPrintable (byteAt bytes i) = false := by
      rw [← printable_byteAt]; simpa using hp
    refine ScanPost_weaken (by omega) ?_ (ih (Nat.le_refl _) (by omega) (Or.inr (by simpa using hnp)) (AllP_empty _ _))
    intro g hg hs' hlt'
    rcases qual_start hg hs' hall with h | h
    · have hl := qual_len hg h hsi hall (Or.inr ⟨hlt, hnp⟩)
      rcases hg with ⟨_, _, _, _, hk⟩
      rw [h, hl, show start + (i - start) = i by omega] at hk
      rcases hk with ⟨_, hz', _⟩ | ⟨_, _, _, _, _, hh⟩ | ⟨he, _⟩
      · exact hz hz'
      · omega
      · omega
    · omega
  | case6 start i hlt b hp hz hs ih =>
    have hnp : specPrintable (byteAt bytes i) = false := by
      rw [← printable_byteAt]; simpa using hp
    have hstrict : cfg.strictNul = true := by simpa using hs
    refine ScanPost_weaken (by omega) ?_ (ih (Nat.le_refl _) (by omega) (Or.inr (by simpa using hnp)) (AllP_empty _ _))
    intro g hg hs' hlt'
    rcases qual_start hg hs' hall with h | h
    · have hl := qual_len hg h hsi hall (Or.inr ⟨hlt, hnp⟩)
      rcases hg with ⟨_, _, _, _, hk⟩
      rw [h, hl, show start + (i - start) = i by omega] at hk
      rcases hk with ⟨_, hz', _⟩ | ⟨_, _, _, _, hh, _⟩ | ⟨he, _⟩
      · exact hz hz'
      · rw [hstrict] at hh; cases hh
      · omega
    · omega
  | case7 start i hge hc =>
    obtain ⟨hne, hs, hlen⟩ := hc
    have hstrict : cfg.strictNul = false := by simpa using hs
    have hisz : i = bytes.size := by omega
    have hq : Qualifies bytes cfg ⟨start, i - start, false⟩ := by
      refine ⟨by simp only; omega, by simp only; omega, ?_, hb, Or.inr (Or.inr ⟨?_, rfl, hstrict, ?_⟩)⟩
      · intro j h1 h2; exact hall j h1 (by simp only at h2; omega)
      · simp only; omega
      · simp only; omega
    refine ⟨hq, Nat.le_refl _, by simp only; omega, by simp only; omega, by omega, ?_, ?_⟩
    · intro h; omega
    · intro g hg hs' hlt'
      rcases qual_start hg hs' hall with h | h
      · have hl := qual_len hg h hsi hall (Or.inl hisz)
        apply Found.ext' h hl
        rcases hg with ⟨_, _, _, _, hk⟩
        rw [h, hl, show start + (i - start) = i by omega] at hk
        rcases hk with ⟨hlt'', _⟩ | ⟨hlt'', _⟩ | ⟨_, hh, _⟩
        · omega
        · omega
        · exact hh
      · omega
  | case8 start i hge hc =>
    have hisz : i = bytes.size := by omega
    intro g hg hs'
    rcases qual_start hg hs' hall with h | h
    · have hl := qual_len hg h hsi hall (Or.inl hisz)
      have hg' := hg
      rcases hg with ⟨h1, _, _, _, hk⟩
      rw [h, hl, show start + (i - start) = i by omega] at hk
      rcases hk with ⟨hlt'', _⟩ | ⟨hlt'', _⟩ | ⟨_, _, hst, hml⟩
      · omega
      · omega
      · apply hc
        refine ⟨by omega, by simpa using hst, by omega⟩
    · have := hg.2.1; have := hg.1; omega

end Pelite.Strings

namespace Pelite.Strings
/-- where `next` leaves the offset: one past the terminator, or at the end of the buffer -/
theorem scan_off (bytes : Bytes) (cfg : Config) (s i : Nat) (f : Found) (off' : Nat) (hsi : s ≤ i)
    (h : scan bytes cfg s i = some (f, off')) :
    (off' = f.start + f.len + 1 ∧ off' ≤ bytes.size) ∨ (off' = f.start + f.len ∧ bytes.size ≤ off') := by
  fun_induction scan bytes cfg s i with
  | case1 start i hlt b hp ih => exact ih (by omega) h
  | case2 start i hlt b hp hz hlen => cases h; left; simp only; omega
  | case3 start i hlt b hp hz hlen ih => exact ih (Nat.le_refl _) h
  | case4 start i hlt b hp hz hs hlen => cases h; left; simp only; omega
  | case5 start i hlt b hp hz hs hlen ih => exact ih (Nat.le_refl _) h
  | case6 start i hlt b hp hz hs ih => exact ih (Nat.le_refl _) h
  | case7 start i hge hc => cases h; right; simp only; omega
  | case8 start i hge hc => cases h
end Pelite.Strings

namespace Pelite.Strings
theorem step_of_none {bytes : Bytes} {cfg : Config} {off : Nat} (h : next bytes cfg off = none) :
    step bytes cfg off = (none, off) := by
  unfold step; rw [h]

theorem nexts_of_none {bytes : Bytes} {cfg : Config} {off : Nat} (h : next bytes cfg off = none) (n : Nat) :
    nexts bytes cfg off n = List.replicate n none := by
  induction n with
  | zero => rfl
  | succ n ih => rw [nexts, step_of_none h, ih, List.replicate_succ]

/-- with fuel `len + 1` (from offset 0) the loop `while let Some(_) = it.next() {}` has ended -/
theorem next_finalOff (bytes : Bytes) (cfg : Config) (fuel off : Nat) (hoff : off ≤ bytes.size)
    (hfuel : bytes.size + 1 ≤ fuel + off) : next bytes cfg (finalOff bytes cfg fuel off) = none := by
  induction fuel generalizing off with
  | zero => omega
  | succ fuel ih =>
    unfold finalOff
    cases h : next bytes cfg off with
    | none => exact h
    | some p =>
      obtain ⟨f, off'⟩ := p
      obtain ⟨h1, h2⟩ := next_progress hoff h
      exact ih off' h2 (by omega)

end Pelite.Strings

namespace Pelite.Strings

theorem itemsFrom_of_none {bytes : Bytes} {cfg : Config} {off : Nat} (h : next bytes cfg off = none) :
    itemsFrom bytes cfg off = [] := by
  rw [itemsFrom]
  split
  · rfl
  · next f off' h' => rw [h] at h'; cases h'

theorem itemsFrom_of_some {bytes : Bytes} {cfg : Config} {off : Nat} {f : Found} {off' : Nat}
    (h : next bytes cfg off = some (f, off')) :
    itemsFrom bytes cfg off = f :: itemsFrom bytes cfg off' := by
  rw [itemsFrom]
  split
  · next h' => rw [h] at h'; cases h'
  · next f1 off1 h' => rw [h] at h'; cases h'; rfl

theorem nthFound_spec (bytes : Bytes) (cfg : Config) (k off : Nat) :
    (nthFound bytes cfg off k).1 = (itemsFrom bytes cfg off)[k]? ∧
    itemsFrom bytes cfg (nthFound bytes cfg off k).2 = (itemsFrom bytes cfg off).drop (k + 1) := by
  induction k generalizing off with
  | zero =>
    unfold nthFound step
    cases h : next bytes cfg off with
    | none => simp [itemsFrom_of_none h]
    | some p => obtain ⟨f, off'⟩ := p; simp [itemsFrom_of_some h]
  | succ k ih =>
    unfold nthFound
    cases h : next bytes cfg off with
    | none => simp [itemsFrom_of_none h]
    | some p =>
      obtain ⟨f, off'⟩ := p
      obtain ⟨h1, h2⟩ := ih off'
      simp only [itemsFrom_of_some h, List.getElem?_cons_succ, List.drop_succ_cons]
      exact ⟨h1, h2⟩

theorem countFound_eq (bytes : Bytes) (cfg : Config) (off n : Nat) :
    countFound bytes cfg off n = n + (itemsFrom bytes cfg off).length := by
  fun_induction countFound bytes cfg off n with
  | case1 off n h => rw [itemsFrom_of_none h]; rfl
  | case2 off n f off' h _ ih => rw [ih, itemsFrom_of_some h, List.length_cons]; omega

/-- `collect` with enough fuel is the total `itemsFrom` -/
theorem enumAll_eq_itemsFrom (bytes : Bytes) (cfg : Config) (fuel off : Nat) (hoff : off ≤ bytes.size)
    (hfuel : bytes.size + 2 ≤ fuel + off) : enumAll bytes cfg fuel off = .ok (itemsFrom bytes cfg off) := by
  induction fuel generalizing off with
  | zero => omega
  | succ fuel ih =>
    unfold enumAll
    cases h : next bytes cfg off with
    | none => simp only [itemsFrom_of_none h]
    | some p =>
      obtain ⟨f, off'⟩ := p
      obtain ⟨h1, h2⟩ := next_progress hoff h
      simp only [ih off' h2 (by omega), itemsFrom_of_some h]

end Pelite.Strings

namespace Pelite.Strings
open Pelite.Seq

theorem stepOp_spec (bytes : Bytes) (cfg : Config) (off : Nat) (o : Seq.Op) :
    (stepOp bytes cfg off o).1 = (stepSeq Hint.unknown (itemsFrom bytes cfg off) o).1 ∧
    itemsFrom bytes cfg (stepOp bytes cfg off o).2 = (stepSeq Hint.unknown (itemsFrom bytes cfg off) o).2 := by
  cases o with
  | next =>
    unfold stepOp step
    cases h : next bytes cfg off with
    | none => simp [stepSeq, DequeSpec.next, itemsFrom_of_none h]
    | some p => obtain ⟨f, off'⟩ := p; simp [stepSeq, DequeSpec.next, itemsFrom_of_some h]
  | nth n =>
    obtain ⟨h1, h2⟩ := nthFound_spec bytes cfg n off
    simp [stepOp, stepSeq, DequeSpec.nth, h1, h2]
  | sizeHint => simp [stepOp, stepSeq, sizeHintFound, Hint.unknown]
  | count => simp [stepOp, stepSeq, countFound_eq]
  | clone => simp [stepOp, stepSeq]

theorem runOps_eq_runSeq (bytes : Bytes) (cfg : Config) (ops : List Seq.Op) (off : Nat) :
    runOps bytes cfg off ops = runSeq Hint.unknown (itemsFrom bytes cfg off) ops := by
  induction ops generalizing off with
  | nil => rfl
  | cons o os ih =>
    obtain ⟨h1, h2⟩ := stepOp_spec bytes cfg off o
    rw [runOps, runSeq, ih, h1, h2]

end Pelite.Strings

/-! ### the executable reference `specAll` against `Qualifies` -/
namespace Pelite.Strings

/-- `runEnd` with enough fuel stops at the end of the maximal printable run that starts at `s` -/
theorem runEnd_spec (bytes : Bytes) : ∀ (fuel s : Nat), bytes.size - s ≤ fuel →
    s ≤ runEnd bytes s fuel ∧ (s ≤ bytes.size → runEnd bytes s fuel ≤ bytes.size) ∧
    AllP bytes s (runEnd bytes s fuel) ∧
    (runEnd bytes s fuel < bytes.size → specPrintable (byteAt bytes (runEnd bytes s fuel)) = false) := by
  intro fuel
  induction fuel with
  | zero =>
    intro s h
    unfold runEnd
    exact ⟨Nat.le_refl _, fun h => h, AllP_empty _ _, fun h' => by omega⟩
  | succ fuel ih =>
    intro s h
    unfold runEnd
    by_cases hc : s < bytes.size ∧ specPrintable (byteAt bytes s) = true
    · rw [if_pos hc]
      obtain ⟨h1, h2, h3, h4⟩ := ih (s + 1) (by omega)
      refine ⟨by omega, fun _ => h2 (by omega), ?_, h4⟩
      intro j hj1 hj2
      by_cases hj : j = s
      · subst hj; exact hc.2
      · exact h3 j (by omega) hj2
    · rw [if_neg hc]
      refine ⟨Nat.le_refl _, fun h => h, AllP_empty _ _, fun h' => ?_⟩
      cases hp : specPrintable (byteAt bytes s) with
      | false => rfl
      | true => exact absurd ⟨h', hp⟩ hc

/-- the reference decides, for a start position, exactly the qualifying run that starts there -/
theorem specRunAt_eq_some_iff (bytes : Bytes) (cfg : Config) (s : Nat) (g : Found) :
    specRunAt bytes cfg s = some g ↔ Qualifies bytes cfg g ∧ g.start = s := by
  obtain ⟨e1, e2, e3, e4⟩ := runEnd_spec bytes (bytes.size - s) s (Nat.le_refl _)
  unfold specRunAt
  generalize runEnd bytes s (bytes.size - s) = e at *
  by_cases hc : s < bytes.size ∧ (s = 0 ∨ specPrintable (byteAt bytes (s - 1)) = false)
  · rw [if_pos hc]
    have e2' := e2 (by omega)
    have hse : s + (e - s) = e := by omega
    -- what a qualifying run starting at `s` looks like
    have hlen : ∀ g, Qualifies bytes cfg g → g.start = s → g.len = e - s := by
      intro g hq hs
      refine qual_len hq hs e1 e3 ?_
      by_cases hlt : e < bytes.size
      · exact .inr ⟨hlt, e4 hlt⟩
      · exact .inl (by omega)
    simp only
    by_cases hl : e - s = 0
    · rw [if_pos hl]
      constructor
      · intro h; cases h
      · rintro ⟨hq, hs⟩
        have := hlen g hq hs
        have := hq.1
        omega
    rw [if_neg hl]
    by_cases hlt : e < bytes.size
    · rw [if_pos hlt]
      have hnp := e4 hlt
      by_cases hz : byteAt bytes e = 0
      · rw [if_pos hz]
        by_cases hmin : cfg.minLenNul ≤ e - s
        · rw [if_pos hmin]
          constructor
          · intro h
            cases h
            refine ⟨⟨by simp only; omega, by simp only; omega, ?_, hc.2, .inl ⟨?_, ?_, rfl, hmin⟩⟩, rfl⟩
            · intro j h1 h2; exact e3 j h1 (by simp only at h2; omega)
            · simp only; omega
            · simp only; rw [hse]; exact hz
          · rintro ⟨hq, hs⟩
            have hl' := hlen g hq hs
            congr 1
            apply Found.ext' hs.symm hl'.symm
            obtain ⟨_, _, _, _, hk⟩ := hq
            rw [hs, hl', hse] at hk
            rcases hk with ⟨_, _, hh, _⟩ | ⟨_, hne, _⟩ | ⟨he, _⟩
            · exact hh.symm
            · exact absurd hz hne
            · omega
        · rw [if_neg hmin]
          constructor
          · intro h; cases h
          · rintro ⟨hq, hs⟩
            have hl' := hlen g hq hs
            obtain ⟨_, _, _, _, hk⟩ := hq
            rw [hs, hl', hse] at hk
            rcases hk with ⟨_, _, _, hh⟩ | ⟨_, hne, _⟩ | ⟨he, _⟩
            · exact absurd hh hmin
            · exact absurd hz hne
            · omega
      · rw [if_neg hz]
        by_cases hmin : (!cfg.strictNul) = true ∧ cfg.minLen ≤ e - s
        · rw [if_pos hmin]
          have hst : cfg.strictNul = false := by simpa using hmin.1
          constructor
          · intro h
            cases h
            refine ⟨⟨by simp only; omega, by simp only; omega, ?_, hc.2,
              .inr (.inl ⟨?_, ?_, ?_, rfl, hst, hmin.2⟩)⟩, rfl⟩
            · intro j h1 h2; exact e3 j h1 (by simp only at h2; omega)
            · simp only; omega
            · simp only; rw [hse]; exact hz
            · simp only; rw [hse]; exact hnp
          · rintro ⟨hq, hs⟩
            have hl' := hlen g hq hs
            congr 1
            apply Found.ext' hs.symm hl'.symm
            obtain ⟨_, _, _, _, hk⟩ := hq
            rw [hs, hl', hse] at hk
            rcases hk with ⟨_, hz', _⟩ | ⟨_, _, _, hh, _⟩ | ⟨he, _⟩
            · exact absurd hz' hz
            · exact hh.symm
            · omega
        · rw [if_neg hmin]
          constructor
          · intro h; cases h
          · rintro ⟨hq, hs⟩
            have hl' := hlen g hq hs
            obtain ⟨_, _, _, _, hk⟩ := hq
            rw [hs, hl', hse] at hk
            rcases hk with ⟨_, hz', _⟩ | ⟨_, _, _, _, hst, hml⟩ | ⟨he, _⟩
            · exact absurd hz' hz
            · exact absurd ⟨by simpa using hst, hml⟩ hmin
            · omega
    · rw [if_neg hlt]
      have hee : e = bytes.size := by omega
      by_cases hmin : (!cfg.strictNul) = true ∧ cfg.minLen ≤ e - s
      · rw [if_pos hmin]
        have hst : cfg.strictNul = false := by simpa using hmin.1
        constructor
        · intro h
          cases h
          refine ⟨⟨by simp only; omega, by simp only; omega, ?_, hc.2,
            .inr (.inr ⟨by simp only; omega, rfl, hst, hmin.2⟩)⟩, rfl⟩
          intro j h1 h2; exact e3 j h1 (by simp only at h2; omega)
        · rintro ⟨hq, hs⟩
          have hl' := hlen g hq hs
          congr 1
          apply Found.ext' hs.symm hl'.symm
          obtain ⟨_, _, _, _, hk⟩ := hq
          rw [hs, hl', hse] at hk
          rcases hk with ⟨hlt', _⟩ | ⟨hlt', _⟩ | ⟨_, hh, _⟩
          · omega
          · omega
          · exact hh.symm
      · rw [if_neg hmin]
        constructor
        · intro h; cases h
        · rintro ⟨hq, hs⟩
          have hl' := hlen g hq hs
          obtain ⟨_, _, _, _, hk⟩ := hq
          rw [hs, hl', hse] at hk
          rcases hk with ⟨hlt', _⟩ | ⟨hlt', _⟩ | ⟨_, _, hst, hml⟩
          · omega
          · omega
          · exact absurd ⟨by simpa using hst, hml⟩ hmin
  · rw [if_neg hc]
    constructor
    · intro h; cases h
    · rintro ⟨hq, hs⟩
      exfalso
      apply hc
      obtain ⟨h1, h2, _, hb, _⟩ := hq
      rw [hs] at h2 hb
      exact ⟨by omega, hb⟩

theorem mem_specAll (bytes : Bytes) (cfg : Config) (g : Found) :
    g ∈ specAll bytes cfg ↔ Qualifies bytes cfg g := by
  unfold specAll
  rw [List.mem_filterMap]
  constructor
  · rintro ⟨s, _, hs⟩
    exact ((specRunAt_eq_some_iff bytes cfg s g).1 hs).1
  · intro hq
    refine ⟨g.start, List.mem_range.2 ?_, (specRunAt_eq_some_iff bytes cfg g.start g).2 ⟨hq, rfl⟩⟩
    have := hq.1; have := hq.2.1; omega

/-- the reference lists the runs in ascending order of their start -/
theorem specAll_sorted (bytes : Bytes) (cfg : Config) :
    (specAll bytes cfg).Pairwise (fun a b => a.start < b.start) := by
  unfold specAll
  refine List.Pairwise.filterMap _ ?_ List.pairwise_lt_range
  intro s s' hlt g hg g' hg'
  rw [((specRunAt_eq_some_iff bytes cfg s g).1 hg).2, ((specRunAt_eq_some_iff bytes cfg s' g').1 hg').2]
  exact hlt

/-- two lists that are strictly ascending under a key and have the same members are equal -/
theorem sorted_ext {α : Type} (k : α → Nat) : ∀ (l1 l2 : List α),
    l1.Pairwise (fun a b => k a < k b) → l2.Pairwise (fun a b => k a < k b) →
    (∀ g, g ∈ l1 ↔ g ∈ l2) → l1 = l2 := by
  intro l1
  induction l1 with
  | nil =>
    intro l2 _ _ hm
    cases l2 with
    | nil => rfl
    | cons b u => exact absurd ((hm b).2 List.mem_cons_self) (by simp)
  | cons a t ih =>
    intro l2 h1 h2 hm
    cases l2 with
    | nil => exact absurd ((hm a).1 List.mem_cons_self) (by simp)
    | cons b u =>
      obtain ⟨ha, ht⟩ := List.pairwise_cons.1 h1
      obtain ⟨hb, hu⟩ := List.pairwise_cons.1 h2
      have hab : a = b := by
        rcases List.mem_cons.1 ((hm a).1 List.mem_cons_self) with h | h
        · exact h
        · rcases List.mem_cons.1 ((hm b).2 List.mem_cons_self) with h' | h'
          · exact h'.symm
          · have := ha b h'; have := hb a h; omega
      subst hab
      congr 1
      apply ih u ht hu
      intro g
      constructor
      · intro hg
        rcases List.mem_cons.1 ((hm g).1 (List.mem_cons_of_mem _ hg)) with h | h
        · subst h; have := ha g hg; omega
        · exact h
      · intro hg
        rcases List.mem_cons.1 ((hm g).2 (List.mem_cons_of_mem _ hg)) with h | h
        · subst h; have := hb g hg; omega
        · exact h

end Pelite.Strings

/-! ### the `u32` offset field: the transition with the casts against the one without -/
namespace Pelite.Strings
open Pelite.Seq

/-- wherever `next` answers `Some`, the new offset is inside the buffer -/
theorem next_off_le {bytes : Bytes} {cfg : Config} {off : Nat} {f : Found} {off' : Nat}
    (h : next bytes cfg off = some (f, off')) : off' ≤ bytes.size := by
  by_cases hoff : bytes.size ≤ off
  · rw [next_beyond hoff] at h; cases h
  · exact (next_progress (by omega) h).2

/-- below 4 GiB the casts `as u32` on `self.offset` change nothing -/
theorem nextT_eq_next (bytes : Bytes) (cfg : Config) (h : bytes.size < 4294967296) :
    nextT bytes cfg = next bytes cfg := by
  funext off
  unfold nextT
  cases hn : next bytes cfg off with
  | none => rfl
  | some p =>
    obtain ⟨f, off'⟩ := p
    have := next_off_le hn
    simp only [trunc32]
    rw [Nat.mod_eq_of_lt (by omega)]

theorem addressT_eq (base : Nat) (f : Found) : addressT base f = address base f := by
  unfold addressT address trunc32 wadd32
  omega

theorem enumAll_eq_itemsW (bytes : Bytes) (cfg : Config) : ∀ (fuel off : Nat),
    enumAll bytes cfg fuel off = itemsW (next bytes cfg) fuel off := by
  intro fuel
  induction fuel with
  | zero => intro off; rfl
  | succ fuel ih =>
    intro off
    unfold enumAll itemsW
    cases next bytes cfg off with
    | none => rfl
    | some p => obtain ⟨f, off'⟩ := p; simp only [ih]

theorem stepW_next (bytes : Bytes) (cfg : Config) (off : Nat) : stepW (next bytes cfg) off = step bytes cfg off := by
  unfold stepW step
  cases next bytes cfg off with
  | none => rfl
  | some p => rfl

theorem nthW_next (bytes : Bytes) (cfg : Config) : ∀ (k off : Nat),
    nthW (next bytes cfg) off k = nthFound bytes cfg off k := by
  intro k
  induction k with
  | zero => intro off; unfold nthW nthFound; exact stepW_next bytes cfg off
  | succ k ih =>
    intro off
    unfold nthW nthFound
    cases next bytes cfg off with
    | none => rfl
    | some p => obtain ⟨f, off'⟩ := p; exact ih off'

theorem itemsW_next (bytes : Bytes) (cfg : Config) (fuel off : Nat) (hoff : off ≤ bytes.size)
    (hfuel : bytes.size + 2 ≤ fuel + off) : itemsW (next bytes cfg) fuel off = .ok (itemsFrom bytes cfg off) := by
  rw [← enumAll_eq_itemsW]
  exact enumAll_eq_itemsFrom bytes cfg fuel off hoff hfuel

theorem countW_next (bytes : Bytes) (cfg : Config) : ∀ (fuel off n : Nat), off ≤ bytes.size →
    bytes.size + 2 ≤ fuel + off → countW (next bytes cfg) fuel off n = .ok (countFound bytes cfg off n) := by
  intro fuel
  induction fuel with
  | zero => intro off n h1 h2; omega
  | succ fuel ih =>
    intro off n hoff hfuel
    unfold countW
    cases h : next bytes cfg off with
    | none => simp only [countFound_eq, itemsFrom_of_none h, List.length_nil, Nat.add_zero]
    | some p =>
      obtain ⟨f, off'⟩ := p
      obtain ⟨h1, h2⟩ := next_progress hoff h
      simp only
      rw [ih off' (n + 1) h2 (by omega), countFound_eq, countFound_eq, itemsFrom_of_some h, List.length_cons]
      congr 1
      omega

theorem step_off_le {bytes : Bytes} {cfg : Config} {off : Nat} (hoff : off ≤ bytes.size) :
    (step bytes cfg off).2 ≤ bytes.size := by
  unfold step
  cases h : next bytes cfg off with
  | none => exact hoff
  | some p => obtain ⟨f, off'⟩ := p; exact next_off_le h

theorem nthFound_off_le {bytes : Bytes} {cfg : Config} : ∀ (k off : Nat), off ≤ bytes.size →
    (nthFound bytes cfg off k).2 ≤ bytes.size := by
  intro k
  induction k with
  | zero => intro off hoff; unfold nthFound; exact step_off_le hoff
  | succ k ih =>
    intro off hoff
    unfold nthFound
    cases h : next bytes cfg off with
    | none => exact hoff
    | some p => obtain ⟨f, off'⟩ := p; exact ih off' (next_off_le h)

theorem stepOp_off_le {bytes : Bytes} {cfg : Config} {off : Nat} (hoff : off ≤ bytes.size) (o : Op) :
    (stepOp bytes cfg off o).2 ≤ bytes.size := by
  cases o with
  | next => exact step_off_le hoff
  | nth n => exact nthFound_off_le n off hoff
  | sizeHint => exact hoff
  | count => exact hoff
  | clone => exact hoff

theorem stepOpW_next (bytes : Bytes) (cfg : Config) (fuel off : Nat) (hoff : off ≤ bytes.size)
    (hfuel : bytes.size + 2 ≤ fuel) (o : Op) :
    stepOpW (next bytes cfg) fuel off o = .ok (stepOp bytes cfg off o) := by
  cases o with
  | next => simp only [stepOpW, stepOp, stepW_next]
  | nth n => simp only [stepOpW, stepOp, nthW_next]
  | sizeHint => rfl
  | count => simp only [stepOpW, stepOp, countW_next bytes cfg fuel off 0 hoff (by omega), Out.bind_ok]
  | clone => simp only [stepOpW, stepOp, itemsW_next bytes cfg fuel off hoff (by omega), Out.bind_ok]

theorem runOpsW_next (bytes : Bytes) (cfg : Config) (fuel : Nat) (hfuel : bytes.size + 2 ≤ fuel) :
    ∀ (ops : List Op) (off : Nat), off ≤ bytes.size →
      runOpsW (next bytes cfg) fuel off ops = .ok (runOps bytes cfg off ops) := by
  intro ops
  induction ops with
  | nil => intro off _; rfl
  | cons o os ih =>
    intro off hoff
    unfold runOpsW runOps
    rw [stepOpW_next bytes cfg fuel off hoff hfuel o]
    simp only [Out.bind_ok]
    rw [ih _ (stepOp_off_le hoff o)]
    rfl

end Pelite.Strings
