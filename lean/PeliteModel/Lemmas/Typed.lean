import PeliteModel.Model.Typed
import PeliteModel.Thm.C04
import PeliteModel.Thm.C07
/-! Helper lemmas for C05 (may use the C04 / C07 theorems). -/
namespace Pelite.Pe

/-- `at` with a zero address is Null (both paths, both view kinds). -/
theorem at_zero_null (v : View) (a : Addr) (hz : a.isZero = true) (min align : Nat) :
    v.at a min align = .err .null := by
  cases a with
  | rva r =>
    simp [Addr.isZero] at hz; subst hz
    unfold View.at View.slice
    cases v.kind <;> simp [sliceFile, sliceSection]
  | va x =>
    simp [Addr.isZero] at hz; subst hz
    unfold View.at View.read
    cases v.kind <;> simp [readFile, readSection]

/-- `dervaSlice` in the shape the older lemmas unfold it to: the overflow test first, and — because `at`
answers Null for a zero address by itself — the early Null test only matters in the overflow branch. -/
theorem dervaSlice_unfold (v : View) (a : Addr) (size align len : Nat) :
    v.dervaSlice a size align len =
      if size * len ≥ 18446744073709551616 then .err (if a.isZero then .null else .overflow)
      else match v.at a (size * len) align with
        | .ok r => .ok ⟨r.off, size * len, align⟩
        | .err e => .err e | .panic s => .panic s | .ub s => .ub s | .diverge => .diverge := by
  unfold View.dervaSlice
  by_cases hz : a.isZero = true
  · rw [if_pos hz, at_zero_null v a hz, hz]
    by_cases ho : size * len ≥ 18446744073709551616
    · rw [if_pos ho]; simp
    · rw [if_neg ho]
  · rw [if_neg hz]
    have hz' : a.isZero = false := by simpa using hz
    rw [hz']
    by_cases ho : size * len ≥ 18446744073709551616
    · rw [if_pos ho, if_pos ho]; simp
    · rw [if_neg ho, if_neg ho]
      cases v.at a (size * len) align <;> rfl

/-! ### `range_file` soundness, shared by `slice_file` and `read_file` -/

theorem rangeFile_sound {size : Nat} {secs : List Sec} (hs : ∀ s ∈ secs, s.InRange) {rva min o l : Nat}
    (h : rangeFile size secs rva min = .ok (o, l)) : o + l ≤ size ∧ min ≤ l := by
  rw [rangeFile_eq] at h
  cases hf : firstV secs rva with
  | none => rw [hf] at h; cases h
  | some s =>
    rw [hf] at h
    obtain ⟨h1, h2, h3, h4, rfl, rfl⟩ := (rangeOne_ok_iff (hs s (firstV_some hf).1) ..).1 h
    omega

/-- the part of `slice_file` / `read_file` after the null / bounds / alignment preamble -/
def fileTail (img : Img) (secs : List Sec) (rva min align : Nat) : Out Ref :=
  match rangeFile img.bytes.size secs rva min with
  | .ok (o, l) => if (img.base + o) % align = 0 then .ok ⟨o, l, align⟩ else .err .misaligned
  | .err e => .err e
  | .panic s => .panic s
  | .ub s => .ub s
  | .diverge => .diverge

theorem fileTail_sound {img : Img} {secs : List Sec} (hs : ∀ s ∈ secs, s.InRange) {rva min align : Nat}
    {r : Ref} (h : fileTail img secs rva min align = .ok r) :
    RefOK img r ∧ min ≤ r.len ∧ r.align = align := by
  unfold fileTail at h
  split at h
  next o l heq =>
    obtain ⟨hb, hm⟩ := rangeFile_sound hs heq
    by_cases hal : (img.base + o) % align = 0
    · rw [if_pos hal] at h
      cases h
      exact ⟨⟨hb, hal⟩, hm, rfl⟩
    · rw [if_neg hal] at h
      cases h
  all_goals cases h

/-- exact success condition of the tail shared by `slice_file` and `read_file` -/
theorem fileTail_ok_iff (img : Img) (secs : List Sec) (hs : ∀ s ∈ secs, s.InRange) (rva min align : Nat) (r : Ref) :
    fileTail img secs rva min align = .ok r ↔
      ∃ s, firstV secs rva = some s ∧ s.prd + s.rs < 4294967296 ∧ s.prd + s.rs ≤ img.bytes.size ∧
        rva - s.va < s.rs ∧ min ≤ s.rs - (rva - s.va) ∧
        (img.base + (s.prd + (rva - s.va))) % align = 0 ∧
        r = ⟨s.prd + (rva - s.va), s.rs - (rva - s.va), align⟩ := by
  unfold fileTail
  rw [rangeFile_eq]
  cases hf : firstV secs rva with
  | none => simp
  | some s =>
    have hsr := hs s (firstV_some hf).1
    dsimp only
    constructor
    · intro h
      split at h
      next o l heq =>
        obtain ⟨h1, h2, h3, h4, rfl, rfl⟩ := (rangeOne_ok_iff hsr ..).1 heq
        by_cases hal : (img.base + (s.prd + (rva - s.va))) % align = 0
        · rw [if_pos hal] at h
          cases h
          exact ⟨s, rfl, h1, h2, h3, h4, hal, rfl⟩
        · rw [if_neg hal] at h
          cases h
      all_goals cases h
    · rintro ⟨s', hs', h1, h2, h3, h4, hal, rfl⟩
      cases hs'
      rw [(rangeOne_ok_iff hsr ..).2 ⟨h1, h2, h3, h4, rfl, rfl⟩]
      exact if_pos hal

theorem sliceFile_eq_tail (img : Img) (secs : List Sec) (rva min align : Nat) :
    sliceFile img secs rva min align =
      if rva = 0 then .err .null
      else if isPow2 align = true then
        (if (img.base + rva) % align = 0 then fileTail img secs rva min align else .err .misaligned)
      else .panic "slice_file:aligned_to" := by
  unfold sliceFile fileTail
  by_cases h0 : rva = 0
  · simp [h0]
  · simp only [h0, if_false, alignedTo_eq]
    by_cases hp : isPow2 align = true
    · simp only [hp, if_true]
      by_cases ha : (img.base + rva) % align = 0
      · simp only [ha, decide_true, if_true]
        rfl
      · simp only [ha, decide_false, if_false]
    · simp only [hp]
      rfl

theorem readFile_eq_tail (img : Img) (secs : List Sec) (imageBase soi va min align : Nat) :
    readFile img secs imageBase soi va min align =
      if va = 0 then .err .null
      else if va < imageBase ∨ va - imageBase > soi then .err .bounds
      else if isPow2 align = true then
        (if (img.base + (va - imageBase)) % align = 0 then fileTail img secs (va - imageBase) min align
         else .err .misaligned)
      else .panic "read_file:aligned_to" := by
  unfold readFile fileTail
  by_cases h0 : va = 0
  · simp [h0]
  · simp only [h0, if_false]
    by_cases hb : va < imageBase ∨ va - imageBase > soi
    · simp only [hb, if_true]
    · simp only [hb, if_false, alignedTo_eq]
      by_cases hp : isPow2 align = true
      · simp only [hp, if_true]
        by_cases ha : (img.base + (va - imageBase)) % align = 0
        · simp only [ha, decide_true, if_true]
          rfl
        · simp only [ha, decide_false, if_false]
      · simp only [hp]
        rfl

theorem sliceSection_eq (img : Img) (rva min align : Nat) :
    sliceSection img rva min align =
      if rva = 0 then .err .null
      else if isPow2 align = true then
        (if (img.base + rva) % align = 0 then
          (if rva ≤ img.bytes.size ∧ img.bytes.size - rva ≥ min then .ok ⟨rva, img.bytes.size - rva, align⟩
           else .err .bounds)
         else .err .misaligned)
      else .panic "slice_section:aligned_to" := by
  unfold sliceSection
  by_cases h0 : rva = 0
  · simp [h0]
  · simp only [h0, if_false, alignedTo_eq]
    by_cases hp : isPow2 align = true
    · simp only [hp, if_true]
      by_cases ha : (img.base + rva) % align = 0
      · simp only [ha, decide_true, if_true]
      · simp only [ha, decide_false, if_false]
    · simp only [hp]
      rfl

theorem readSection_eq (img : Img) (imageBase soi va min align : Nat) :
    readSection img imageBase soi va min align =
      if va = 0 then .err .null
      else if va < imageBase ∨ va - imageBase > soi then .err .bounds
      else if isPow2 align = true then
        (if (img.base + (va - imageBase)) % align = 0 then
          (if va - imageBase ≤ img.bytes.size ∧ img.bytes.size - (va - imageBase) ≥ min then
            .ok ⟨va - imageBase, img.bytes.size - (va - imageBase), align⟩
           else .err .bounds)
         else .err .misaligned)
      else .panic "read_section:aligned_to" := by
  unfold readSection
  by_cases h0 : va = 0
  · simp [h0]
  · simp only [h0, if_false]
    by_cases hb : va < imageBase ∨ va - imageBase > soi
    · simp only [hb, if_true]
    · simp only [hb, if_false, alignedTo_eq]
      by_cases hp : isPow2 align = true
      · simp only [hp, if_true]
        by_cases ha : (img.base + (va - imageBase)) % align = 0
        · simp only [ha, decide_true, if_true]
        · simp only [ha, decide_false, if_false]
      · simp only [hp]
        rfl

/-! ### the sentinel loop -/

theorem sliceFLoop_succ (b : Bytes) (off blen size : Nat) (stop : Nat → Bool) (fuel len : Nat) :
    sliceFLoop b off blen size stop (fuel + 1) len =
      if len * size + size > blen then .err .bounds
      else if stop (leN b (off + len * size) size) = true then .ok len
      else sliceFLoop b off blen size stop fuel (len + 1) := rfl

theorem sliceFLoop_ok {b : Bytes} {off blen size : Nat} {stop : Nat → Bool} :
    ∀ (fuel len n : Nat), sliceFLoop b off blen size stop fuel len = .ok n →
      len ≤ n ∧ (n + 1) * size ≤ blen ∧ stop (leN b (off + n * size) size) = true ∧
      ∀ j, len ≤ j → j < n → stop (leN b (off + j * size) size) = false := by
  intro fuel
  induction fuel with
  | zero => intro len n h; cases h
  | succ fuel ih =>
    intro len n h
    rw [sliceFLoop_succ] at h
    by_cases hb : len * size + size > blen
    · rw [if_pos hb] at h; cases h
    · rw [if_neg hb] at h
      by_cases hst : stop (leN b (off + len * size) size) = true
      · rw [if_pos hst] at h
        cases h
        refine ⟨Nat.le_refl _, ?_, hst, ?_⟩
        · rw [Nat.succ_mul]; omega
        · intro j h1 h2; omega
      · rw [if_neg hst] at h
        obtain ⟨h1, h2, h3, h4⟩ := ih (len + 1) n h
        refine ⟨by omega, h2, h3, ?_⟩
        intro j hj1 hj2
        by_cases hjl : j = len
        · subst hjl; simpa using hst
        · exact h4 j (by omega) hj2

theorem sliceFLoop_bounds {b : Bytes} {off blen size : Nat} {stop : Nat → Bool} (hs : 1 ≤ size) :
    ∀ (fuel len : Nat), blen + 2 ≤ fuel + len → len ≤ blen + 1 →
      (∀ j, len ≤ j → (j + 1) * size ≤ blen → stop (leN b (off + j * size) size) = false) →
      sliceFLoop b off blen size stop fuel len = .err .bounds := by
  intro fuel
  induction fuel with
  | zero => intro len h1 h2 _; omega
  | succ fuel ih =>
    intro len h1 h2 hns
    rw [sliceFLoop_succ]
    by_cases hb : len * size + size > blen
    · rw [if_pos hb]
    · rw [if_neg hb]
      have hle : (len + 1) * size ≤ blen := by rw [Nat.succ_mul]; omega
      have hle' : len + 1 ≤ (len + 1) * size := Nat.le_mul_of_pos_right _ hs
      have hst := hns len (Nat.le_refl _) hle
      rw [if_neg (by simp [hst])]
      exact ih (len + 1) (by omega) (by omega) (fun j hj => hns j (by omega))

theorem sliceFLoop_ne_diverge {b : Bytes} {off blen size : Nat} {stop : Nat → Bool} (hs : 1 ≤ size) :
    ∀ (fuel len : Nat), blen + 2 ≤ fuel + len → len ≤ blen + 1 →
      sliceFLoop b off blen size stop fuel len ≠ .diverge := by
  intro fuel
  induction fuel with
  | zero => intro len h1 h2; omega
  | succ fuel ih =>
    intro len h1 h2
    rw [sliceFLoop_succ]
    by_cases hb : len * size + size > blen
    · rw [if_pos hb]; intro h; cases h
    · rw [if_neg hb]
      have hle : (len + 1) * size ≤ blen := by rw [Nat.succ_mul]; omega
      have hle' : len + 1 ≤ (len + 1) * size := Nat.le_mul_of_pos_right _ hs
      by_cases hst : stop (leN b (off + len * size) size) = true
      · rw [if_pos hst]; intro h; cases h
      · rw [if_neg hst]
        exact ih (len + 1) (by omega) (by omega)

theorem sliceFLoop_mono {b : Bytes} {off blen blen' size : Nat} {stop : Nat → Bool} (hl : blen ≤ blen') :
    ∀ (fuel fuel' len n : Nat), fuel ≤ fuel' →
      sliceFLoop b off blen size stop fuel len = .ok n →
      sliceFLoop b off blen' size stop fuel' len = .ok n := by
  intro fuel
  induction fuel with
  | zero => intro fuel' len n _ h; cases h
  | succ fuel ih =>
    intro fuel' len n hf h
    obtain ⟨f', rfl⟩ : ∃ f', fuel' = f' + 1 := ⟨fuel' - 1, by omega⟩
    rw [sliceFLoop_succ] at h ⊢
    by_cases hb : len * size + size > blen
    · rw [if_pos hb] at h; cases h
    · rw [if_neg hb] at h
      rw [if_neg (by omega)]
      by_cases hst : stop (leN b (off + len * size) size) = true
      · rw [if_pos hst] at h ⊢; exact h
      · rw [if_neg hst] at h ⊢
        exact ih f' (len + 1) n (by omega) h

/-- completeness of the sentinel loop: the first stopping element inside the window is found -/
theorem sliceFLoop_finds {b : Bytes} {off blen size : Nat} {stop : Nat → Bool} :
    ∀ (fuel len n : Nat), len ≤ n → (n + 1) * size ≤ blen → n + 1 ≤ fuel + len →
      stop (leN b (off + n * size) size) = true →
      (∀ j, len ≤ j → j < n → stop (leN b (off + j * size) size) = false) →
      sliceFLoop b off blen size stop fuel len = .ok n := by
  intro fuel
  induction fuel with
  | zero => intro len n h1 _ h3 _ _; omega
  | succ fuel ih =>
    intro len n h1 h2 h3 hst hns
    rw [sliceFLoop_succ]
    have hle : (len + 1) * size ≤ (n + 1) * size := Nat.mul_le_mul_right _ (by omega)
    rw [Nat.succ_mul] at hle
    rw [if_neg (by omega)]
    by_cases hln : len = n
    · subst hln; rw [if_pos hst]
    · have := hns len (Nat.le_refl _) (by omega)
      rw [if_neg (by simp [this])]
      exact ih (len + 1) n (by omega) h2 (by omega) hst (fun j hj1 hj2 => hns j (by omega) hj2)

/-! ### NUL search -/

theorem findNul_some {b : Bytes} {off : Nat} :
    ∀ (n i k : Nat), findNul b off n i = some k →
      i ≤ k ∧ k < i + n ∧ byteAt b (off + k) = 0 ∧ ∀ j, i ≤ j → j < k → byteAt b (off + j) ≠ 0 := by
  intro n
  induction n with
  | zero => intro i k h; cases h
  | succ n ih =>
    intro i k h
    unfold findNul at h
    by_cases hz : byteAt b (off + i) = 0
    · rw [if_pos hz] at h
      cases h
      exact ⟨Nat.le_refl _, by omega, hz, fun j h1 h2 => by omega⟩
    · rw [if_neg hz] at h
      obtain ⟨h1, h2, h3, h4⟩ := ih (i + 1) k h
      refine ⟨by omega, by omega, h3, ?_⟩
      intro j hj1 hj2
      by_cases hji : j = i
      · subst hji; exact hz
      · exact h4 j (by omega) hj2

theorem findNul_none {b : Bytes} {off : Nat} :
    ∀ (n i : Nat), (∀ j, i ≤ j → j < i + n → byteAt b (off + j) ≠ 0) → findNul b off n i = none := by
  intro n
  induction n with
  | zero => intro i _; rfl
  | succ n ih =>
    intro i h
    unfold findNul
    rw [if_neg (h i (Nat.le_refl _) (by omega))]
    exact ih (i + 1) (fun j h1 h2 => h j (by omega) (by omega))

theorem findNul_mono {b : Bytes} {off : Nat} :
    ∀ (n n' i k : Nat), n ≤ n' → findNul b off n i = some k → findNul b off n' i = some k := by
  intro n
  induction n with
  | zero => intro n' i k _ h; cases h
  | succ n ih =>
    intro n' i k hn h
    obtain ⟨m, rfl⟩ : ∃ m, n' = m + 1 := ⟨n' - 1, by omega⟩
    unfold findNul at h ⊢
    by_cases hz : byteAt b (off + i) = 0
    · rw [if_pos hz] at h ⊢; exact h
    · rw [if_neg hz] at h ⊢
      exact ih m (i + 1) k (by omega) h

/-! ### `read` at `base + r` against `slice` at `r` -/

theorem readFile_vs_sliceFile (img : Img) (secs : List Sec) (B soi r min align : Nat)
    (h0 : 0 < r) (h1 : r ≤ soi) :
    (isPow2 align = true →
        readFile img secs B soi (B + r) min align = sliceFile img secs r min align) ∧
    (¬ isPow2 align = true →
        readFile img secs B soi (B + r) min align = .panic "read_file:aligned_to" ∧
        sliceFile img secs r min align = .panic "slice_file:aligned_to") := by
  have e : B + r - B = r := by omega
  have hz : ¬ (B + r = 0) := by omega
  have hb : ¬ (B + r < B ∨ B + r - B > soi) := by omega
  have hr : ¬ (r = 0) := by omega
  rw [readFile_eq_tail, sliceFile_eq_tail, if_neg hz, if_neg hb, if_neg hr, e]
  constructor
  · intro hp; rw [if_pos hp, if_pos hp]
  · intro hp; rw [if_neg hp, if_neg hp]; exact ⟨rfl, rfl⟩

theorem readSection_vs_sliceSection (img : Img) (B soi r min align : Nat)
    (h0 : 0 < r) (h1 : r ≤ soi) :
    (isPow2 align = true →
        readSection img B soi (B + r) min align = sliceSection img r min align) ∧
    (¬ isPow2 align = true →
        readSection img B soi (B + r) min align = .panic "read_section:aligned_to" ∧
        sliceSection img r min align = .panic "slice_section:aligned_to") := by
  have e : B + r - B = r := by omega
  have hz : ¬ (B + r = 0) := by omega
  have hb : ¬ (B + r < B ∨ B + r - B > soi) := by omega
  have hr : ¬ (r = 0) := by omega
  rw [readSection_eq, sliceSection_eq, if_neg hz, if_neg hb, if_neg hr, e]
  constructor
  · intro hp; rw [if_pos hp, if_pos hp]
  · intro hp; rw [if_neg hp, if_neg hp]; exact ⟨rfl, rfl⟩

/-! ### soundness of the four primitives -/

theorem readFile_sound {img : Img} {secs : List Sec} (hs : ∀ s ∈ secs, s.InRange)
    {B soi va min align : Nat} {r : Ref} (h : readFile img secs B soi va min align = .ok r) :
    RefOK img r ∧ min ≤ r.len ∧ r.align = align := by
  rw [readFile_eq_tail] at h
  by_cases h0 : va = 0
  · rw [if_pos h0] at h; cases h
  rw [if_neg h0] at h
  by_cases hb : va < B ∨ va - B > soi
  · rw [if_pos hb] at h; cases h
  rw [if_neg hb] at h
  by_cases hp : isPow2 align = true
  · rw [if_pos hp] at h
    by_cases ha : (img.base + (va - B)) % align = 0
    · rw [if_pos ha] at h; exact fileTail_sound hs h
    · rw [if_neg ha] at h; cases h
  · rw [if_neg hp] at h; cases h

theorem sliceFile_sound' {img : Img} {secs : List Sec} (hs : ∀ s ∈ secs, s.InRange)
    {rva min align : Nat} {r : Ref} (h : sliceFile img secs rva min align = .ok r) :
    RefOK img r ∧ min ≤ r.len ∧ r.align = align := by
  rw [sliceFile_eq_tail] at h
  by_cases h0 : rva = 0
  · rw [if_pos h0] at h; cases h
  rw [if_neg h0] at h
  by_cases hp : isPow2 align = true
  · rw [if_pos hp] at h
    by_cases ha : (img.base + rva) % align = 0
    · rw [if_pos ha] at h; exact fileTail_sound hs h
    · rw [if_neg ha] at h; cases h
  · rw [if_neg hp] at h; cases h

theorem sliceSection_sound {img : Img} {rva min align : Nat} {r : Ref}
    (h : sliceSection img rva min align = .ok r) :
    RefOK img r ∧ min ≤ r.len ∧ r.align = align := by
  rw [sliceSection_eq] at h
  by_cases h0 : rva = 0
  · rw [if_pos h0] at h; cases h
  rw [if_neg h0] at h
  by_cases hp : isPow2 align = true
  · rw [if_pos hp] at h
    by_cases ha : (img.base + rva) % align = 0
    · rw [if_pos ha] at h
      by_cases hb : rva ≤ img.bytes.size ∧ img.bytes.size - rva ≥ min
      · rw [if_pos hb] at h
        cases h
        refine ⟨⟨?_, ha⟩, hb.2, rfl⟩
        show rva + (img.bytes.size - rva) ≤ img.bytes.size
        omega
      · rw [if_neg hb] at h; cases h
    · rw [if_neg ha] at h; cases h
  · rw [if_neg hp] at h; cases h

theorem readSection_sound {img : Img} {B soi va min align : Nat} {r : Ref}
    (h : readSection img B soi va min align = .ok r) :
    RefOK img r ∧ min ≤ r.len ∧ r.align = align := by
  rw [readSection_eq] at h
  by_cases h0 : va = 0
  · rw [if_pos h0] at h; cases h
  rw [if_neg h0] at h
  by_cases hb : va < B ∨ va - B > soi
  · rw [if_pos hb] at h; cases h
  rw [if_neg hb] at h
  by_cases hp : isPow2 align = true
  · rw [if_pos hp] at h
    by_cases ha : (img.base + (va - B)) % align = 0
    · rw [if_pos ha] at h
      by_cases hc : va - B ≤ img.bytes.size ∧ img.bytes.size - (va - B) ≥ min
      · rw [if_pos hc] at h
        cases h
        refine ⟨⟨?_, ha⟩, hc.2, rfl⟩
        show va - B + (img.bytes.size - (va - B)) ≤ img.bytes.size
        omega
      · rw [if_neg hc] at h; cases h
    · rw [if_neg ha] at h; cases h
  · rw [if_neg hp] at h; cases h

/-! ### lists -/

theorem map_range_eq_iff {α : Type} (f : Nat → α) (len : Nat) (out : List α) :
    (List.range len).map f = out ↔ out.length = len ∧ ∀ i, i < len → out[i]? = some (f i) := by
  constructor
  · rintro rfl
    refine ⟨by simp, ?_⟩
    intro i hi
    simp [hi]
  · rintro ⟨h1, h2⟩
    apply List.ext_getElem?
    intro i
    by_cases hi : i < len
    · rw [h2 i hi]; simp [hi]
    · have e1 : out[i]? = none := List.getElem?_eq_none (by omega)
      rw [e1]
      simp [hi]

/-! ### the two primitives on EVERY view -/

/-- what `slice` / `read` return lies inside the buffer, is aligned as requested and holds at least
`min` bytes — for every `View` value (any format, kind, overridden base address), every address and
every argument: the section table is decoded from the buffer, so its fields are `u32` by construction -/
theorem View.at_sound (v : View) (a : Addr) (min align : Nat) (r : Ref) (h : v.at a min align = .ok r) :
    RefOK v.img r ∧ min ≤ r.len ∧ r.align = align := by
  have hs : ∀ s ∈ v.secs, s.InRange := C07_sections_in_range v.b
  cases a with
  | rva x =>
    unfold View.at View.slice at h
    cases hk : v.kind <;> rw [hk] at h
    · exact sliceFile_sound' hs h
    · exact sliceSection_sound h
  | va x =>
    unfold View.at View.read at h
    cases hk : v.kind <;> rw [hk] at h
    · exact readFile_sound hs h
    · exact readSection_sound h

/-! ### `leN` against the little-endian value -/

/-- the little-endian value of the `size` bytes at `off`, for EVERY size (specification side) -/
def leValue (b : Bytes) (off : Nat) : Nat → Nat
  | 0 => 0
  | n+1 => byteAt b off + 256 * leValue b (off + 1) n

/-- `leN` is the little-endian value exactly for the sizes of the integer types -/
theorem leN_eq_leValue (b : Bytes) (off size : Nat) (h : size = 1 ∨ size = 2 ∨ size = 4 ∨ size = 8) :
    leN b off size = leValue b off size := by
  rcases h with rfl | rfl | rfl | rfl
  · simp [leN, leValue]
  · simp [leN, leValue, le16]
  · simp only [leN, leValue, le32, Nat.add_assoc, Nat.reduceAdd]; omega
  · simp only [leN, leValue, le64, le32, Nat.add_assoc, Nat.reduceAdd]; omega

/-- … and 0 for every other size (so statements through `leN` say nothing about struct elements) -/
theorem leN_other (b : Bytes) (off size : Nat) (h : ¬ (size = 1 ∨ size = 2 ∨ size = 4 ∨ size = 8)) :
    leN b off size = 0 := by
  unfold leN
  split <;> first | rfl | (exfalso; apply h; simp)

theorem leValue_lt (b : Bytes) : ∀ (size off : Nat), leValue b off size < 256 ^ size := by
  intro size
  induction size with
  | zero => intro off; simp [leValue]
  | succ n ih =>
    intro off
    have := ih (off + 1)
    have := byteAt_lt b off
    rw [leValue, Nat.pow_succ]
    omega


/-! ### the loop of `derva_slice_f` with an index-aware (stateful) predicate -/

theorem sliceFLoopI_succ (b : Bytes) (off blen size : Nat) (stop : Nat → Nat → Bool) (fuel len : Nat) :
    sliceFLoopI b off blen size stop (fuel + 1) len =
      if len * size + size > blen then .err .bounds
      else if stop len (leN b (off + len * size) size) = true then .ok len
      else sliceFLoopI b off blen size stop fuel (len + 1) := rfl

/-- the stateless loop is the stateful one with a predicate that ignores the call number -/
theorem sliceFLoop_eq_I (b : Bytes) (off blen size : Nat) (stop : Nat → Bool) :
    ∀ (fuel len : Nat), sliceFLoop b off blen size stop fuel len =
      sliceFLoopI b off blen size (fun _ x => stop x) fuel len := by
  intro fuel
  induction fuel with
  | zero => intro len; rfl
  | succ fuel ih => intro len; rw [sliceFLoop_succ, sliceFLoopI_succ, ih]

theorem sliceFLoopI_ok {b : Bytes} {off blen size : Nat} {stop : Nat → Nat → Bool} :
    ∀ (fuel len n : Nat), sliceFLoopI b off blen size stop fuel len = .ok n →
      len ≤ n ∧ (n + 1) * size ≤ blen ∧ stop n (leN b (off + n * size) size) = true ∧
      ∀ j, len ≤ j → j < n → stop j (leN b (off + j * size) size) = false := by
  intro fuel
  induction fuel with
  | zero => intro len n h; cases h
  | succ fuel ih =>
    intro len n h
    rw [sliceFLoopI_succ] at h
    by_cases hb : len * size + size > blen
    · rw [if_pos hb] at h; cases h
    · rw [if_neg hb] at h
      by_cases hst : stop len (leN b (off + len * size) size) = true
      · rw [if_pos hst] at h
        cases h
        refine ⟨Nat.le_refl _, ?_, hst, ?_⟩
        · rw [Nat.succ_mul]; omega
        · intro j h1 h2; omega
      · rw [if_neg hst] at h
        obtain ⟨h1, h2, h3, h4⟩ := ih (len + 1) n h
        refine ⟨by omega, h2, h3, ?_⟩
        intro j hj1 hj2
        by_cases hjl : j = len
        · subst hjl; simpa using hst
        · exact h4 j (by omega) hj2

/-- the only error of the loop is `Bounds`, and it means that no call inside the window answered `true` -/
theorem sliceFLoopI_err {b : Bytes} {off blen size : Nat} {stop : Nat → Nat → Bool} :
    ∀ (fuel len : Nat) (e : Err), sliceFLoopI b off blen size stop fuel len = .err e →
      e = .bounds ∧ ∀ j, len ≤ j → (j + 1) * size ≤ blen → stop j (leN b (off + j * size) size) = false := by
  intro fuel
  induction fuel with
  | zero => intro len e h; cases h
  | succ fuel ih =>
    intro len e h
    rw [sliceFLoopI_succ] at h
    by_cases hb : len * size + size > blen
    · rw [if_pos hb] at h
      cases h
      refine ⟨rfl, ?_⟩
      intro j hj hfit
      have hm : (len + 1) * size ≤ (j + 1) * size := Nat.mul_le_mul_right _ (by omega)
      rw [Nat.succ_mul] at hm
      omega
    · rw [if_neg hb] at h
      by_cases hst : stop len (leN b (off + len * size) size) = true
      · rw [if_pos hst] at h; cases h
      · rw [if_neg hst] at h
        obtain ⟨h1, h2⟩ := ih (len + 1) e h
        refine ⟨h1, ?_⟩
        intro j hj hfit
        by_cases hjl : j = len
        · subst hjl; simpa using hst
        · exact h2 j (by omega) hfit

theorem sliceFLoopI_bounds {b : Bytes} {off blen size : Nat} {stop : Nat → Nat → Bool} (hs : 1 ≤ size) :
    ∀ (fuel len : Nat), blen + 2 ≤ fuel + len → len ≤ blen + 1 →
      (∀ j, len ≤ j → (j + 1) * size ≤ blen → stop j (leN b (off + j * size) size) = false) →
      sliceFLoopI b off blen size stop fuel len = .err .bounds := by
  intro fuel
  induction fuel with
  | zero => intro len h1 h2 _; omega
  | succ fuel ih =>
    intro len h1 h2 hns
    rw [sliceFLoopI_succ]
    by_cases hb : len * size + size > blen
    · rw [if_pos hb]
    · rw [if_neg hb]
      have hle : (len + 1) * size ≤ blen := by rw [Nat.succ_mul]; omega
      have hle' : len + 1 ≤ (len + 1) * size := Nat.le_mul_of_pos_right _ hs
      have hst := hns len (Nat.le_refl _) hle
      rw [if_neg (by simp [hst])]
      exact ih (len + 1) (by omega) (by omega) (fun j hj => hns j (by omega))

theorem sliceFLoopI_ne_diverge {b : Bytes} {off blen size : Nat} {stop : Nat → Nat → Bool} (hs : 1 ≤ size) :
    ∀ (fuel len : Nat), blen + 2 ≤ fuel + len → len ≤ blen + 1 →
      sliceFLoopI b off blen size stop fuel len ≠ .diverge := by
  intro fuel
  induction fuel with
  | zero => intro len h1 h2; omega
  | succ fuel ih =>
    intro len h1 h2
    rw [sliceFLoopI_succ]
    by_cases hb : len * size + size > blen
    · rw [if_pos hb]; intro h; cases h
    · rw [if_neg hb]
      have hle : (len + 1) * size ≤ blen := by rw [Nat.succ_mul]; omega
      have hle' : len + 1 ≤ (len + 1) * size := Nat.le_mul_of_pos_right _ hs
      by_cases hst : stop len (leN b (off + len * size) size) = true
      · rw [if_pos hst]; intro h; cases h
      · rw [if_neg hst]
        exact ih (len + 1) (by omega) (by omega)

/-- completeness: the first call that answers `true` inside the window is found -/
theorem sliceFLoopI_finds {b : Bytes} {off blen size : Nat} {stop : Nat → Nat → Bool} :
    ∀ (fuel len n : Nat), len ≤ n → (n + 1) * size ≤ blen → n + 1 ≤ fuel + len →
      stop n (leN b (off + n * size) size) = true →
      (∀ j, len ≤ j → j < n → stop j (leN b (off + j * size) size) = false) →
      sliceFLoopI b off blen size stop fuel len = .ok n := by
  intro fuel
  induction fuel with
  | zero => intro len n h1 _ h3 _ _; omega
  | succ fuel ih =>
    intro len n h1 h2 h3 hst hns
    rw [sliceFLoopI_succ]
    have hle : (len + 1) * size ≤ (n + 1) * size := Nat.mul_le_mul_right _ (by omega)
    rw [Nat.succ_mul] at hle
    rw [if_neg (by omega)]
    by_cases hln : len = n
    · subst hln; rw [if_pos hst]
    · have := hns len (Nat.le_refl _) (by omega)
      rw [if_neg (by simp [this])]
      exact ih (len + 1) n (by omega) h2 (by omega) hst (fun j hj1 hj2 => hns j (by omega) hj2)

/-- the loop of the model never answers `panic` / `ub` -/
theorem sliceFLoopI_shape {b : Bytes} {off blen size : Nat} {stop : Nat → Nat → Bool} :
    ∀ (fuel len : Nat), (∃ n, sliceFLoopI b off blen size stop fuel len = .ok n) ∨
      sliceFLoopI b off blen size stop fuel len = .err .bounds ∨
      sliceFLoopI b off blen size stop fuel len = .diverge := by
  intro fuel
  induction fuel with
  | zero => intro len; exact .inr (.inr rfl)
  | succ fuel ih =>
    intro len
    rw [sliceFLoopI_succ]
    by_cases hb : len * size + size > blen
    · rw [if_pos hb]; exact .inr (.inl rfl)
    · rw [if_neg hb]
      by_cases hst : stop len (leN b (off + len * size) size) = true
      · rw [if_pos hst]; exact .inl ⟨_, rfl⟩
      · rw [if_neg hst]; exact ih (len + 1)

/-- the stateless `dervaSliceF` is the stateful one with a predicate that ignores the call number -/
theorem View.dervaSliceF_eq_I (v : View) (a : Addr) (size align : Nat) (stop : Nat → Bool) :
    v.dervaSliceF a size align stop = v.dervaSliceFI a size align (fun _ x => stop x) := by
  unfold View.dervaSliceF View.dervaSliceFI
  cases v.at a 0 align with
  | ok r => dsimp only; rw [sliceFLoop_eq_I]
  | _ => rfl

/-! ### non-vacuity: a hand-built PE32+ FILE (256 bytes, one section), accepted by the model and by the
real `pe64::PeFile::from_bytes` / `pelite::PeFile::from_bytes` (checked with the harness) -/

/-- DOS header with `e_lfanew = 64`; PE32+ NT headers (Machine 0x8664, one section, SizeOfOptionalHeader 112,
Magic 0x20b, ImageBase 0x1_4000_0000, SizeOfImage 288, SizeOfHeaders 240, no data directories); section
`.data`: VirtualSize 24, VirtualAddress 256, SizeOfRawData 16, PointerToRawData 240; raw data at 240:
`"hi\0"`, a pad byte, the u16 table `7, 9, 0xffff` (file offset 244 = rva 260) and the length-prefixed
wide string `2, 'a', 'b'` (file offset 250 = rva 266).  RVAs 272..280 are the zero-filled tail. -/
def demo64Img : Img := ⟨#[
    -- 0: "MZ" … e_lfanew = 64
    77, 90, 0, 0, 0, 0, 0, 0, 0, 0, 0, 0, 0, 0, 0, 0, 0, 0, 0, 0, 0, 0, 0, 0, 0, 0, 0, 0, 0, 0, 0, 0, 0, 0, 0, 0, 0, 0, 0, 0, 0, 0, 0, 0, 0, 0, 0, 0, 0, 0, 0, 0, 0, 0, 0, 0, 0, 0, 0, 0, 64, 0, 0, 0,
    -- 64: "PE\0\0", file header
    80, 69, 0, 0, 100, 134, 1, 0, 0, 0, 0, 0, 0, 0, 0, 0, 0, 0, 0, 0, 112, 0, 0, 0,
    -- 88: optional header (PE32+, 112 bytes)
    11, 2, 0, 0, 0, 0, 0, 0, 0, 0, 0, 0, 0, 0, 0, 0, 0, 0, 0, 0, 0, 0, 0, 0, 0, 0, 0, 64, 1, 0, 0, 0, 0, 0, 0, 0, 0, 0, 0, 0, 0, 0, 0, 0, 0, 0, 0, 0, 0, 0, 0, 0, 0, 0, 0, 0,
    32, 1, 0, 0, 240, 0, 0, 0, 0, 0, 0, 0, 0, 0, 0, 0, 0, 0, 0, 0, 0, 0, 0, 0, 0, 0, 0, 0, 0, 0, 0, 0, 0, 0, 0, 0, 0, 0, 0, 0, 0, 0, 0, 0, 0, 0, 0, 0, 0, 0, 0, 0, 0, 0, 0, 0,
    -- 200: section header ".data"
    46, 100, 97, 116, 97, 0, 0, 0, 24, 0, 0, 0, 0, 1, 0, 0, 16, 0, 0, 0, 240, 0, 0, 0, 0, 0, 0, 0, 0, 0, 0, 0, 0, 0, 0, 0, 0, 0, 0, 0,
    -- 240: raw data
    104, 105, 0, 0, 7, 0, 9, 0, 255, 255, 2, 0, 97, 0, 98, 0], 0⟩

def demo64File : View := ⟨demo64Img, .pe64, .file, 0x140000000⟩

theorem demo64File_ok : fromBytes .pe64 .file demo64Img = .ok demo64File :=
  (fromBytes_ok_iff _ _ _ _).2 ⟨by decide +kernel,
    by rw [show imageBaseField .pe64 demo64Img.bytes = 0x140000000 by decide +kernel]; rfl⟩

end Pelite.Pe
