import PeliteModel.Lemmas.Typed
/-! Completeness of the sentinel scan of `derva_slice_f` (`sliceFLoop`): the converse of `sliceFLoop_ok`. -/
namespace Pelite.Pe

/-- If element `n` stops the scan, no element in `[len, n)` does, and element `n` is inside the window,
the loop started at `len` with enough fuel answers `n`. -/
theorem sliceFLoop_eq_ok {b : Bytes} {off blen size : Nat} {stop : Nat → Bool} :
    ∀ (fuel len n : Nat), len ≤ n → n - len < fuel → (n + 1) * size ≤ blen →
      stop (leN b (off + n * size) size) = true →
      (∀ j, len ≤ j → j < n → stop (leN b (off + j * size) size) = false) →
      sliceFLoop b off blen size stop fuel len = .ok n := by
  intro fuel
  induction fuel with
  | zero => intro len n _ h; omega
  | succ fuel ih =>
    intro len n hle hf hin hst hno
    rw [sliceFLoop_succ]
    have hmono : (len + 1) * size ≤ (n + 1) * size := Nat.mul_le_mul_right _ (by omega)
    rw [Nat.succ_mul] at hmono
    rw [if_neg (by omega)]
    by_cases hn : len = n
    · subst hn
      rw [if_pos hst]
    · rw [if_neg (by rw [hno len (Nat.le_refl _) (by omega)]; decide)]
      exact ih (len + 1) n (by omega) (by omega) hin hst (fun j h1 h2 => hno j (by omega) h2)

/-- an `at` failure is the answer of the sentinel read -/
theorem dervaSliceS_at_err (v : View) (a : Addr) (size align sentinel : Nat) (e : Err)
    (hat : v.at a 0 align = .err e) : v.dervaSliceS a size align sentinel = .err e := by
  unfold View.dervaSliceS View.dervaSliceF
  rw [hat]

end Pelite.Pe
