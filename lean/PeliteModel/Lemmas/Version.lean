import PeliteModel.Model.Version
import PeliteModel.Spec.Version
/-!
Helper lemmas for C13 (version information).  Core-only.

1. `parse_tlv`: closed form of a successful parse, totality (never panic / ub / diverge), extents.
2. one level: `items` (what the `filter_map(Result::ok)` loop sees) and `forEach` as a run over it.
3. the parse tree (`PRoot`), `visit` as a structural walk over it, and as a fold of the event list.
4. the reference writer read back (round trip).
5. the queries as functions of the tree; their agreement.
-/
set_option linter.unusedSimpArgs false
set_option linter.unnecessarySimpa false

namespace Pelite.Version

/-! ## 1. parse_tlv -/

/-- closed form of a successful `parse_tlv` -/
structure TlvEq (vlt : Vlt) (w : Sl) (t : Tlv) (r : Sl) : Prop where
  len4 : 4 ≤ w.len
  lenL : nodeLen w ≤ w.len
  vl : valueLen vlt w = some t.value.len
  key : t.key = ⟨w.off + 3, ((w.ws.take (nodeLen w)).drop 3).takeWhile (fun x => x != 0)⟩
  klen : t.key.len + 4 ≤ nodeLen w
  value : t.value = ⟨w.off + min (align2 t.key.len + 4) (nodeLen w),
      (((w.ws.take (nodeLen w)).drop (min (align2 t.key.len + 4) (nodeLen w))).take t.value.len)⟩
  vfit : min (align2 t.key.len + 4) (nodeLen w) + t.value.len ≤ nodeLen w
  children : t.children =
      ⟨w.off + min (align2 t.key.len + 4) (nodeLen w)
          + min (align2 t.value.len) (nodeLen w - min (align2 t.key.len + 4) (nodeLen w)),
       ((w.ws.take (nodeLen w)).drop (min (align2 t.key.len + 4) (nodeLen w))).drop
          (min (align2 t.value.len) (nodeLen w - min (align2 t.key.len + 4) (nodeLen w)))⟩
  rest : r = ⟨w.off + min (align2 (nodeLen w)) w.len, w.ws.drop (min (align2 (nodeLen w)) w.len)⟩

theorem nodeLen_ge (w : Sl) : 4 ≤ nodeLen w := by unfold nodeLen; omega

theorem takeWhile_length_le {α} (p : α → Bool) (l : List α) : (l.takeWhile p).length ≤ l.length := by
  induction l with
  | nil => simp
  | cons a l ih => simp only [List.takeWhile]; split <;> simp <;> omega

theorem parseTlv_ok_eq {vlt : Vlt} {w : Sl} {t : Tlv} {r : Sl}
    (h : parseTlv vlt w = .ok (t, r)) : TlvEq vlt w t r := by
  rw [parseTlv_eq_total] at h
  unfold parseTlvTotal at h
  dsimp only at h
  split at h
  · cases h
  · rename_i h4
    split at h
    · cases h
    · rename_i vl hvl
      split at h
      · cases h
      · rename_i hL
        split at h
        · cases h
        · rename_i hk
          split at h
          · cases h
          · rename_i hv
            cases h
            simp only [Sl.len, Sl.drop, Sl.take, wstrn, List.length_drop, List.length_take] at h4 hL hk hv
            have hkl := takeWhile_length_le (fun x => x != 0) ((w.ws.take (nodeLen w)).drop 3)
            simp only [List.length_drop, List.length_take] at hkl
            generalize hK : ((w.ws.take (nodeLen w)).drop 3).takeWhile (fun x => x != 0) = K at *
            have hmin : min (nodeLen w) w.ws.length = nodeLen w := by omega
            rw [hmin] at hk hv hkl
            have hvl' : min vl (nodeLen w - min (align2 K.length + 4) (nodeLen w)) = vl := by omega
            refine ⟨?_, ?_, ?_, ?_, ?_, ?_, ?_, ?_, ?_⟩
            · simp only [Sl.len]; omega
            · simp only [Sl.len]; omega
            · rw [hvl]; simp only [Sl.len, Sl.drop, Sl.take, wstrn, hK, List.length_take, List.length_drop, hmin, hvl']
            · simp only [Sl.drop, Sl.take, wstrn, hK]
            · simp only [Sl.len, Sl.drop, Sl.take, wstrn, hK]; omega
            · simp only [Sl.len, Sl.drop, Sl.take, wstrn, hK, List.length_take, List.length_drop, hmin, hvl']
            · simp only [Sl.len, Sl.drop, Sl.take, wstrn, hK, List.length_take, List.length_drop, hmin, hvl']; omega
            · simp only [Sl.len, Sl.drop, Sl.take, wstrn, hK, List.length_take, List.length_drop, hmin, hvl']
            · simp only [Sl.len, Sl.drop]

/-- `parse_tlv` (the checked function, with panicking indexing and slicing) answers `Ok` or
`Err(Invalid)` on every input: no panic, no ub, no divergence.  The content is `parseTlv_eq_total`
(Model/Version.lean): every index and slice bound is in range at its site. -/
theorem parseTlv_total (vlt : Vlt) (w : Sl) :
    (∃ t r, parseTlv vlt w = .ok (t, r)) ∨ parseTlv vlt w = .err .invalid := by
  rw [parseTlv_eq_total]
  unfold parseTlvTotal
  dsimp only
  repeat' split
  all_goals first
    | exact Or.inr rfl
    | exact Or.inl ⟨_, _, rfl⟩

/-- the converse: the conditions under which `parse_tlv` succeeds, and its result -/
theorem parseTlv_eq_ok (vlt : Vlt) (w : Sl) (vl : Nat) (K : List Nat)
    (h4 : 4 ≤ w.ws.length) (hL : nodeLen w ≤ w.ws.length) (hvl : valueLen vlt w = some vl)
    (hK : ((w.ws.take (nodeLen w)).drop 3).takeWhile (fun x => x != 0) = K)
    (hk : K.length + 4 ≤ nodeLen w)
    (hv : min (align2 K.length + 4) (nodeLen w) + vl ≤ nodeLen w) :
    parseTlv vlt w = .ok
      (⟨⟨w.off + 3, K⟩,
        ⟨w.off + min (align2 K.length + 4) (nodeLen w),
          ((w.ws.take (nodeLen w)).drop (min (align2 K.length + 4) (nodeLen w))).take vl⟩,
        ⟨w.off + min (align2 K.length + 4) (nodeLen w)
            + min (align2 vl) (nodeLen w - min (align2 K.length + 4) (nodeLen w)),
          ((w.ws.take (nodeLen w)).drop (min (align2 K.length + 4) (nodeLen w))).drop
            (min (align2 vl) (nodeLen w - min (align2 K.length + 4) (nodeLen w)))⟩⟩,
       ⟨w.off + min (align2 (nodeLen w)) w.ws.length, w.ws.drop (min (align2 (nodeLen w)) w.ws.length)⟩) := by
  have hmin : min (nodeLen w) w.ws.length = nodeLen w := by omega
  have hvl' : min vl (nodeLen w - min (align2 K.length + 4) (nodeLen w)) = vl := by omega
  rw [parseTlv_eq_total]
  unfold parseTlvTotal
  dsimp only
  rw [if_neg (by simp only [Sl.len]; omega), hvl]
  dsimp only
  rw [if_neg (by simp only [Sl.len]; omega)]
  simp only [Sl.len, Sl.drop, Sl.take, wstrn, hK, List.length_take, List.length_drop, hmin, hvl']
  rw [if_neg (by omega), if_neg (by omega)]

/-! ### extents -/

/-- the slice is empty or starts on a 32-bit boundary (the block itself starts on one) -/
def Sl.Al (s : Sl) : Prop := s.len ≠ 0 → s.off % 2 = 0

/-- `a` is a window of `w`: it lies inside and views the same words -/
def Sl.Sub (a w : Sl) : Prop :=
  w.off ≤ a.off ∧ a.off + a.len ≤ w.off + w.len ∧ a.ws = (w.ws.drop (a.off - w.off)).take a.len

theorem Sl.Sub.refl (w : Sl) : w.Sub w := by
  refine ⟨Nat.le_refl _, Nat.le_refl _, ?_⟩
  simp [Sl.len]

theorem Sl.Sub.trans {a b c : Sl} (h1 : a.Sub b) (h2 : b.Sub c) : a.Sub c := by
  obtain ⟨h1a, h1b, h1c⟩ := h1
  obtain ⟨h2a, h2b, h2c⟩ := h2
  refine ⟨by omega, by omega, ?_⟩
  rw [h1c, h2c]
  simp only [Sl.len] at *
  rw [List.drop_take, List.drop_drop, List.take_take]
  congr 1
  · omega
  · congr 1; omega

theorem takeWhile_eq_take {α} (p : α → Bool) (l : List α) : l.takeWhile p = l.take (l.takeWhile p).length := by
  induction l with
  | nil => simp
  | cons a l ih =>
    simp only [List.takeWhile]
    split
    · simp only [List.length_cons, List.take_succ_cons]; rw [← ih]
    · simp

/-- where the parts of a parsed node lie -/
structure TlvExt (w : Sl) (t : Tlv) (r : Sl) : Prop where
  len4 : 4 ≤ nodeLen w
  lenL : nodeLen w ≤ w.len
  keyOff : t.key.off = w.off + 3
  keyEnd : t.key.off + t.key.len + 1 ≤ t.value.off
  valEnd : t.value.off + t.value.len ≤ t.children.off
  chEnd : t.children.off + t.children.len = w.off + nodeLen w
  restOff : w.off + nodeLen w ≤ r.off
  restEnd : r.off + r.len = w.off + w.len
  keySub : t.key.Sub w
  valSub : t.value.Sub w
  chSub : t.children.Sub w
  restSub : r.Sub w
  alV : w.Al → t.value.Al
  alC : w.Al → t.children.Al
  alR : w.Al → r.Al

theorem align2_ge (x : Nat) : x ≤ align2 x := by unfold align2; omega
theorem align2_even (x : Nat) : align2 x % 2 = 0 := by unfold align2; omega

theorem parseTlv_ok_ext {vlt : Vlt} {w : Sl} {t : Tlv} {r : Sl}
    (h : parseTlv vlt w = .ok (t, r)) : TlvExt w t r := by
  have e := parseTlv_ok_eq h
  obtain ⟨h4, hL, _, hkey, hk, hval, hvf, hch, hr⟩ := e
  have hL4 := nodeLen_ge w
  generalize hkdef : t.key.len = k at *
  generalize hvdef : t.value.len = v at *
  have hak := align2_ge k
  have hav := align2_ge v
  have haL := align2_ge (nodeLen w)
  have hek := align2_even k
  have hev := align2_even v
  have heL := align2_even (nodeLen w)
  generalize align2 k = ak at *
  generalize align2 v = av at *
  generalize align2 (nodeLen w) = aL at *
  simp only [Sl.len] at hL h4
  have hkoff : t.key.off = w.off + 3 := by rw [hkey]
  have hkws : t.key.ws = ((w.ws.take (nodeLen w)).drop 3).takeWhile (fun x => x != 0) := by rw [hkey]
  have hvoff : t.value.off = w.off + min (ak + 4) (nodeLen w) := by rw [hval]
  have hvws : t.value.ws = ((w.ws.take (nodeLen w)).drop (min (ak + 4) (nodeLen w))).take v := by rw [hval]
  have hcoff : t.children.off = w.off + min (ak + 4) (nodeLen w) + min av ((nodeLen w) - min (ak + 4) (nodeLen w)) := by rw [hch]
  have hcws : t.children.ws = ((w.ws.take (nodeLen w)).drop (min (ak + 4) (nodeLen w))).drop (min av ((nodeLen w) - min (ak + 4) (nodeLen w))) := by rw [hch]
  have hclen : t.children.len = (nodeLen w) - min (ak + 4) (nodeLen w) - min av ((nodeLen w) - min (ak + 4) (nodeLen w)) := by
    simp only [Sl.len, hcws, List.length_drop, List.length_take]; omega
  have hroff : r.off = w.off + min aL w.ws.length := by rw [hr]; rfl
  have hrws : r.ws = w.ws.drop (min aL w.ws.length) := by rw [hr]; rfl
  have hrlen : r.len = w.ws.length - min aL w.ws.length := by
    simp only [Sl.len, hrws, List.length_drop]
  have hklen : t.key.ws.length = k := by simpa [Sl.len] using hkdef
  have hvlen : t.value.ws.length = v := by simpa [Sl.len] using hvdef
  refine ⟨hL4, by simpa [Sl.len] using hL, hkoff, by omega, by omega, by omega, by omega, by simp only [Sl.len] at *; omega,
    ?_, ?_, ?_, ?_, ?_, ?_, ?_⟩
  · refine ⟨by omega, by simp only [Sl.len] at *; omega, ?_⟩
    have := takeWhile_eq_take (fun x => x != 0) ((w.ws.take (nodeLen w)).drop 3)
    rw [← hkws, hklen] at this
    rw [this, hkoff, hkdef, List.drop_take, List.take_take]
    have h3 : w.off + 3 - w.off = 3 := by omega
    rw [h3]; congr 1; omega
  · refine ⟨by omega, by simp only [Sl.len] at *; omega, ?_⟩
    rw [hvws, hvoff, hvdef, List.drop_take, List.take_take]
    have h3 : w.off + min (ak + 4) (nodeLen w) - w.off = min (ak + 4) (nodeLen w) := by omega
    rw [h3]; congr 1; omega
  · refine ⟨by omega, by simp only [Sl.len] at *; omega, ?_⟩
    rw [hcws, hcoff, hclen, List.drop_drop, List.drop_take]
    have h3 : w.off + min (ak + 4) (nodeLen w) + min av ((nodeLen w) - min (ak + 4) (nodeLen w)) - w.off = min (ak + 4) (nodeLen w) + min av ((nodeLen w) - min (ak + 4) (nodeLen w)) := by omega
    rw [h3]; congr 1; omega
  · refine ⟨by omega, by simp only [Sl.len] at *; omega, ?_⟩
    rw [hrws, hroff, hrlen]
    have h3 : w.off + min aL w.ws.length - w.off = min aL w.ws.length := by omega
    rw [h3, List.take_of_length_le]
    simp only [List.length_drop]; omega
  · intro hw hne
    have hw' := hw (by simp only [Sl.len]; omega)
    simp only [Sl.len] at hne
    omega
  · intro hw hne
    have hw' := hw (by simp only [Sl.len]; omega)
    rw [hclen] at hne
    omega
  · intro hw hne
    have hw' := hw (by simp only [Sl.len]; omega)
    rw [hrlen] at hne
    omega

/-! ## 2. one level -/

/-- the TLVs the loop `for tlv in Parser{words, vlt}.filter_map(Result::ok)` is run on: parsing goes
on until the input is used up or an item is an error -/
def items (vlt : Vlt) (w : Sl) : List Tlv :=
  if w.len = 0 then [] else
  match _h : parseTlv vlt w with
  | .ok (t, r) => t :: items vlt r
  | _ => []
termination_by w.len
decreasing_by exact parseTlv_rest_lt _h

/-- the loop body applied along a list of items -/
def runSteps {σ : Type} (step : Tlv → σ → Out (σ × Bool)) : List Tlv → σ → Out σ
  | [], s => .ok s
  | t :: ts, s =>
    match step t s with
    | .ok (s', true) => runSteps step ts s'
    | .ok (s', false) => .ok s'
    | .err e => .err e
    | .panic m => .panic m
    | .ub m => .ub m
    | .diverge => .diverge

theorem items_nil {vlt : Vlt} {w : Sl} (h : w.len = 0) : items vlt w = [] := by
  rw [items]; simp [h]

theorem items_ok {vlt : Vlt} {w : Sl} {t : Tlv} {r : Sl} (h0 : w.len ≠ 0)
    (h : parseTlv vlt w = .ok (t, r)) : items vlt w = t :: items vlt r := by
  rw [items]; simp only [h0, if_false]
  split
  · rename_i t' r' heq; rw [h] at heq; cases heq; rfl
  · rename_i hne; exact absurd h (hne _ _)

theorem items_err {vlt : Vlt} {w : Sl} {e : Err} (h : parseTlv vlt w = .err e) : items vlt w = [] := by
  rw [items]
  split
  · rfl
  · split
    · rename_i t' r' heq; rw [h] at heq; cases heq
    · rfl

theorem forEach_nil {σ : Type} {vlt : Vlt} {step : Tlv → σ → Out (σ × Bool)} {w : Sl} {s : σ}
    (h : w.len = 0) : forEach vlt step w s = .ok s := by
  rw [forEach]; simp [h]

theorem forEach_err {σ : Type} {vlt : Vlt} {step : Tlv → σ → Out (σ × Bool)} {w : Sl} {s : σ} {e : Err}
    (h : parseTlv vlt w = .err e) : forEach vlt step w s = .ok s := by
  rw [forEach]
  split
  · rfl
  · split <;> rename_i heq <;> rw [h] at heq <;> cases heq

theorem forEach_ok {σ : Type} {vlt : Vlt} {step : Tlv → σ → Out (σ × Bool)} {w : Sl} {s : σ}
    {t : Tlv} {r : Sl} (h0 : w.len ≠ 0) (h : parseTlv vlt w = .ok (t, r)) :
    forEach vlt step w s =
      match step t s with
      | .ok (s', true) => forEach vlt step r s'
      | .ok (s', false) => .ok s'
      | .err e => .err e
      | .panic m => .panic m
      | .ub m => .ub m
      | .diverge => .diverge := by
  rw [forEach]; simp only [h0, if_false]
  split <;> rename_i heq <;> rw [h] at heq <;> cases heq
  rfl

theorem forEach_eq_runSteps {σ : Type} (vlt : Vlt) (step : Tlv → σ → Out (σ × Bool)) (w : Sl) (s : σ) :
    forEach vlt step w s = runSteps step (items vlt w) s := by
  induction hn : w.len using Nat.strongRecOn generalizing w s with
  | _ n ih =>
    by_cases h0 : w.len = 0
    · rw [forEach_nil h0, items_nil h0]; rfl
    · rcases parseTlv_total vlt w with ⟨t, r, h⟩ | h
      · have hlt := parseTlv_rest_lt h
        rw [forEach_ok h0 h, items_ok h0 h]
        simp only [runSteps]
        cases hs : step t s with
        | ok p =>
          obtain ⟨s', b⟩ := p
          cases b
          · rfl
          · exact ih r.len (by omega) r s' rfl
        | _ => rfl
      · rw [forEach_err h, items_err h]; rfl

/-- induction along the items of a level -/
theorem items_induct {vlt : Vlt} {P : Sl → List Tlv → Prop}
    (nil : ∀ w, P w [])
    (cons : ∀ w t r, w.len ≠ 0 → parseTlv vlt w = .ok (t, r) → P r (items vlt r) → P w (t :: items vlt r)) :
    ∀ w, P w (items vlt w) := by
  intro w
  induction hn : w.len using Nat.strongRecOn generalizing w with
  | _ n ih =>
    by_cases h0 : w.len = 0
    · rw [items_nil h0]; exact nil w
    · rcases parseTlv_total vlt w with ⟨t, r, h⟩ | h
      · rw [items_ok h0 h]
        exact cons w t r h0 h (ih r.len (by have := parseTlv_rest_lt h; omega) r rfl)
      · rw [items_err h]; exact nil w

/-- first word of a node (its `wLength`) and one past its last word -/
def Tlv.start (t : Tlv) : Nat := t.key.off - 3
def Tlv.stop (t : Tlv) : Nat := t.children.off + t.children.len

/-- `t` is a node reported from the level input `w`: it lies inside `w`, its parts are windows of
`w` in the order header, key, NUL, value, children, and the children extend to the node's end. -/
structure NodeIn (t : Tlv) (w : Sl) : Prop where
  start : w.off ≤ t.start
  keyOff : t.key.off = t.start + 3
  keyEnd : t.key.off + t.key.len + 1 ≤ t.value.off
  valEnd : t.value.off + t.value.len ≤ t.children.off
  size : t.start + 4 ≤ t.stop
  stop : t.stop ≤ w.off + w.len
  keySub : t.key.Sub w
  valSub : t.value.Sub w
  chSub : t.children.Sub w

theorem NodeIn.mono {t : Tlv} {r w : Sl} (h : NodeIn t r) (hs : r.Sub w) : NodeIn t w := by
  obtain ⟨a, b, c, d, e, f, g1, g2, g3⟩ := h
  have h1 := hs.1
  have h2 := hs.2.1
  exact ⟨by omega, b, c, d, e, by omega, g1.trans hs, g2.trans hs, g3.trans hs⟩

theorem TlvExt.nodeIn {w : Sl} {t : Tlv} {r : Sl} (e : TlvExt w t r) : NodeIn t w := by
  obtain ⟨h4, hL, hko, hke, hve, hce, hro, hre, s1, s2, s3, s4, _, _, _⟩ := e
  refine ⟨?_, ?_, hke, hve, ?_, ?_, s1, s2, s3⟩ <;> simp only [Tlv.start, Tlv.stop] <;> omega

/-- (c) the nodes of one level lie inside the level's input, in order and without overlap -/
theorem items_ext (vlt : Vlt) (w : Sl) :
    (∀ t ∈ items vlt w, NodeIn t w) ∧ (items vlt w).Pairwise (fun a b => a.stop ≤ b.start) := by
  refine items_induct (vlt := vlt)
    (P := fun w l => (∀ t ∈ l, NodeIn t w) ∧ l.Pairwise (fun a b => a.stop ≤ b.start)) ?_ ?_ w
  · intro w; exact ⟨fun t h => (by cases h), List.Pairwise.nil⟩
  · intro w t r h0 h ⟨ih1, ih2⟩
    have e := parseTlv_ok_ext h
    refine ⟨?_, ?_⟩
    · intro x hx
      rcases List.mem_cons.mp hx with hx | hx
      · subst hx; exact e.nodeIn
      · exact (ih1 x hx).mono e.restSub
    · refine List.Pairwise.cons ?_ ih2
      intro b hb
      have hb' := (ih1 b hb).start
      have := e.chEnd
      have := e.restOff
      simp only [Tlv.stop]; omega

/-- alignment is inherited: values and children of the nodes of an aligned level are aligned -/
theorem items_al (vlt : Vlt) (w : Sl) (hw : w.Al) :
    ∀ t ∈ items vlt w, t.value.Al ∧ t.children.Al := by
  revert hw
  refine items_induct (vlt := vlt)
    (P := fun w l => w.Al → ∀ t ∈ l, t.value.Al ∧ t.children.Al) ?_ ?_ w
  · intro w _ t h; cases h
  · intro w t r h0 h ih hw x hx
    have e := parseTlv_ok_ext h
    rcases List.mem_cons.mp hx with hx | hx
    · subst hx; exact ⟨e.alV hw, e.alC hw⟩
    · exact ih (e.alR hw) x hx

/-- (d) a level with input of `n` words reports at most `n / 4` nodes; more generally any weight
bounded by the node sizes sums to at most `n` -/
theorem items_sum_le (vlt : Vlt) (f : Tlv → Nat) (w : Sl)
    (hf : ∀ t ∈ items vlt w, f t ≤ t.stop - t.start) : ((items vlt w).map f).sum ≤ w.len := by
  revert hf
  refine items_induct (vlt := vlt)
    (P := fun w l => (∀ t ∈ l, f t ≤ t.stop - t.start) → (l.map f).sum ≤ w.len) ?_ ?_ w
  · intro w _; simp
  · intro w t r h0 h ih hf
    have e := parseTlv_ok_ext h
    have h1 := hf t (List.mem_cons_self ..)
    have h2 := ih (fun x hx => hf x (List.mem_cons_of_mem _ hx))
    have := e.chEnd; have := e.restOff; have := e.restEnd; have := e.keyOff; have := e.lenL
    simp only [Tlv.stop, Tlv.start, List.map_cons, List.sum_cons] at *
    omega

theorem sum_map_const {α} (l : List α) (c : Nat) : (l.map (fun _ => c)).sum = c * l.length := by
  induction l with
  | nil => simp
  | cons a l ih => simp only [List.map_cons, List.sum_cons, List.length_cons, ih]; rw [Nat.mul_succ]; omega

theorem items_length_le (vlt : Vlt) (w : Sl) : 4 * (items vlt w).length ≤ w.len := by
  have h := items_sum_le vlt (fun _ => 4) w (fun t ht => by
    have := ((items_ext vlt w).1 t ht).size; omega)
  rwa [sum_map_const] at h

end Pelite.Version
