import PeliteModel.Lemmas.VersionSpecQueries
/-!
C13 helper lemmas, part 9: the documented layout as a relation (`Spec.IsNode`, `Spec.IsNodes`,
`Spec.VInfo.IsBlock`) instead of the image of the reference writer.

1. one structure in any documented layout read back by `parse_tlv`.
2. one level of siblings read back by the loop.
3. the parse tree of a block against the abstract content (`RootOf`), from the layout.
4. what follows from `RootOf`: the event list and the table contents.
5. the reference writer produces a layout.
6. the decidable layout test is sound.
-/
set_option linter.unusedSimpArgs false
set_option linter.unnecessarySimpa false

namespace Pelite.Version
open Spec

/-! ### 1. one structure -/

/-- **one structure in any documented layout read back**: whatever the padding words hold, whether
Padding1 / Padding2 are kept where they may be omitted, whatever `wType` says and whatever follows
the structure, `parse_tlv` returns its key, value and children, and resumes after the padding. -/
theorem parseTlv_shape (vlt : Vlt) (key value : List Nat) (text : Bool) (wType : Nat) (p1 p2 body tl : List Nat)
    (off : Nat) (hk : keyOk key = true) (hc : Compat vlt text value)
    (h1 : p1.length = key.length % 2 ∨ (p1 = [] ∧ value = [] ∧ body = []))
    (h2 : p2.length = value.length % 2 ∨ (p2 = [] ∧ body = [])) (n : List Nat)
    (hn0 : n = [2 * (4 + key.length + p1.length + value.length + p2.length + body.length),
            (if text then value.length else 2 * value.length), wType] ++ key ++ [0] ++ p1 ++ value ++ p2 ++ body) :
    ∃ t r, parseTlv vlt ⟨off, n ++ tl⟩ = .ok (t, r) ∧
      t.key.ws = key ∧ t.value.ws = value ∧ t.children.ws = body ∧ r.ws = tl.drop (n.length % 2) := by
  have hN : n.length = 4 + key.length + p1.length + value.length + p2.length + body.length := by
    rw [hn0]; simp only [List.length_append, List.length_cons, List.length_nil]; omega
  have hp2 : p2.length = value.length % 2 ∨ (p2.length = 0 ∧ body.length = 0) := by
    rcases h2 with h | ⟨h, h'⟩
    · exact Or.inl h
    · subst h h'; exact Or.inr ⟨rfl, rfl⟩
  have hp1 : p1.length = key.length % 2 ∨ (p1.length = 0 ∧ value.length = 0 ∧ body.length = 0 ∧ p2.length = 0) := by
    rcases h1 with h | ⟨h, h', h''⟩
    · exact Or.inl h
    · subst h h' h''
      refine Or.inr ⟨rfl, rfl, rfl, ?_⟩
      rcases hp2 with h | h
      · simpa using h
      · exact h.1
  have hb : min (align2 key.length + 4) n.length = 4 + key.length + p1.length := by
    rw [hN, align2_eq]; omega
  have hcc : min (align2 value.length) (value.length + p2.length + body.length) = value.length + p2.length := by
    rw [align2_eq]; omega
  have hn : n = [2 * n.length, (if text then value.length else 2 * value.length), wType]
      ++ (key ++ (0 :: (p1 ++ (value ++ (p2 ++ body))))) := by
    rw [hN]; conv => lhs; rw [hn0]
    simp
  generalize hNdef : n.length = N at *
  have hws : (⟨off, n ++ tl⟩ : Sl).ws = n ++ tl := rfl
  have hL : nodeLen ⟨off, n ++ tl⟩ = N := by
    unfold nodeLen
    rw [hws, hn]
    simp only [List.cons_append, List.getD_cons_zero]
    omega
  have hvl : valueLen vlt ⟨off, n ++ tl⟩ = some value.length := by
    unfold valueLen
    rw [hws, hn]
    simp only [List.cons_append, List.getD_cons_succ, List.getD_cons_zero]
    cases vlt
    · have : value = [] := hc
      subst this; simp
    · rcases hc with h | h
      · subst h; simp
      · subst h; simp
    · rcases hc with h | h
      · subst h; simp
      · subst h; simp
  have htake : (n ++ tl).take N = n := take_app n tl hNdef
  have hK : (((⟨off, n ++ tl⟩ : Sl).ws.take (nodeLen ⟨off, n ++ tl⟩)).drop 3).takeWhile (fun x => x != 0) = key := by
    rw [hL, hws, htake, hn]
    simp only [List.cons_append, List.nil_append, List.drop_succ_cons, List.drop_zero]
    exact takeWhile_key key _ hk
  have h := parseTlv_eq_ok vlt ⟨off, n ++ tl⟩ value.length key
    (by rw [hws, List.length_append]; omega) (by rw [hws, hL, List.length_append]; omega) hvl hK
    (by rw [hL]; omega) (by rw [hL, hb]; omega)
  refine ⟨_, _, h, rfl, ?_, ?_, ?_⟩
  · simp only [hL, hws, htake, hb]
    rw [hn]
    have e1 : [2 * N, if text = true then value.length else 2 * value.length, wType] ++
        (key ++ 0 :: (p1 ++ (value ++ (p2 ++ body)))) =
        ([2 * N, if text = true then value.length else 2 * value.length, wType] ++
          key ++ [0] ++ p1) ++ (value ++ (p2 ++ body)) := by simp
    rw [e1, drop_app _ _ (by simp; omega), take_app _ _ rfl]
  · simp only [hL, hws, htake, hb]
    rw [hn]
    have e1 : [2 * N, if text = true then value.length else 2 * value.length, wType] ++
        (key ++ 0 :: (p1 ++ (value ++ (p2 ++ body)))) =
        ([2 * N, if text = true then value.length else 2 * value.length, wType] ++
          key ++ [0] ++ p1) ++ ((value ++ p2) ++ body) := by simp
    have e2 : N - (4 + key.length + p1.length) = value.length + p2.length + body.length := by omega
    rw [e1, drop_app _ _ (by simp; omega), e2, hcc, drop_app _ _ (by simp)]
  · simp only [hL, hws]
    have hlen : (n ++ tl).length = N + tl.length := by rw [List.length_append, hNdef]
    rw [hlen, align2_eq]
    by_cases ht : N % 2 ≤ tl.length
    · have : min (N + N % 2) (N + tl.length) = N + N % 2 := by omega
      rw [this, ← List.drop_drop, drop_app _ _ hNdef]
    · have : min (N + N % 2) (N + tl.length) = N + tl.length := by omega
      rw [this, ← List.drop_drop, drop_app _ _ hNdef]
      rw [List.drop_of_length_le (Nat.le_refl _), List.drop_of_length_le (by omega)]

/-! ### 2. one level -/

/-- two lists related element by element -/
inductive All₂ {α β : Type} (R : α → β → Prop) : List α → List β → Prop
  | nil : All₂ R [] []
  | cons {a : α} {b : β} {l₁ : List α} {l₂ : List β} : R a b → All₂ R l₁ l₂ → All₂ R (a :: l₁) (b :: l₂)

theorem All₂.map_right {α β γ : Type} {R : α → γ → Prop} {f : β → γ} {l : List α} {ds : List β}
    (h : All₂ R l (ds.map f)) : All₂ (fun a b => R a (f b)) l ds := by
  induction ds generalizing l with
  | nil => cases h; exact .nil
  | cons b ds ih => cases h with | cons h1 h2 => exact .cons h1 (ih h2)

theorem All₂.imp_mem {α β : Type} {R S : α → β → Prop} {l : List α} {ds : List β}
    (h : All₂ R l ds) (hRS : ∀ a b, b ∈ ds → R a b → S a b) : All₂ S l ds := by
  induction h with
  | nil => exact .nil
  | cons h1 _ ih =>
    exact .cons (hRS _ _ (List.mem_cons_self ..) h1) (ih (fun a b hb => hRS a b (List.mem_cons_of_mem _ hb)))

theorem All₂.flatMap_eq {α β δ : Type} {R : α → β → Prop} {l : List α} {ds : List β} (F : α → List δ) (G : β → List δ)
    (h : All₂ R l ds) (hFG : ∀ a b, b ∈ ds → R a b → F a = G b) : l.flatMap F = ds.flatMap G := by
  induction h with
  | nil => rfl
  | cons h1 _ ih =>
    simp only [List.flatMap_cons]
    rw [hFG _ _ (List.mem_cons_self ..) h1, ih (fun a b hb => hFG a b (List.mem_cons_of_mem _ hb))]

theorem All₂.map_eq {α β δ : Type} {R : α → β → Prop} {l : List α} {ds : List β} (F : α → δ) (G : β → δ)
    (h : All₂ R l ds) (hFG : ∀ a b, b ∈ ds → R a b → F a = G b) : l.map F = ds.map G := by
  induction h with
  | nil => rfl
  | cons h1 _ ih =>
    simp only [List.map_cons]
    rw [hFG _ _ (List.mem_cons_self ..) h1, ih (fun a b hb => hFG a b (List.mem_cons_of_mem _ hb))]

/-- the parsed node `t` carries the structure `n`: its key, its value, and children words that are
a layout of `n`'s children -/
def Carries (t : Tlv) : Node → Prop
  | .mk key value _ children => t.key.ws = key ∧ t.value.ws = value ∧ IsNodes children t.children.ws

/-- the structure's value-length convention is the one the parser applies at its level -/
def NodeCompat (vlt : Vlt) : Node → Prop
  | .mk _ value text _ => Compat vlt text value

theorem isNode_length_ge {n : Node} {w : List Nat} (h : IsNode n w) : 4 ≤ w.length := by
  obtain ⟨key, value, text, children⟩ := n
  rw [IsNode] at h
  obtain ⟨wType, p1, p2, body, _, _, _, _, rfl⟩ := h
  simp only [List.length_append, List.length_cons, List.length_nil]; omega

/-- **one level in any documented layout read back**: the loop over laid out siblings sees exactly
them, in order, each with its key, its value and a layout of its children -/
theorem items_layout (vlt : Vlt) (ns : List Node) (hc : ∀ n ∈ ns, NodeCompat vlt n) :
    ∀ (ws : List Nat) (off : Nat), IsNodes ns ws → All₂ Carries (items vlt ⟨off, ws⟩) ns := by
  induction ns with
  | nil =>
    intro ws off h
    rw [IsNodes] at h; subst h
    rw [items_nil (by simp [Sl.len])]
    exact .nil
  | cons n ns ih =>
    intro ws off h
    rw [IsNodes] at h
    obtain ⟨w, pad, rest, hn, hrest, hpad, rfl⟩ := h
    have hlen := isNode_length_ge hn
    have hcn := hc n (List.mem_cons_self ..)
    obtain ⟨key, value, text, children⟩ := n
    rw [IsNode] at hn
    obtain ⟨wType, p1, p2, body, hk, hbody, h1, h2, hw⟩ := hn
    obtain ⟨t, r, hp, e1, e2, e3, e4⟩ := parseTlv_shape vlt key value text wType p1 p2 body (pad ++ rest) off hk hcn h1 h2 w hw
    have h0 : (⟨off, w ++ (pad ++ rest)⟩ : Sl).len ≠ 0 := by
      simp only [Sl.len, List.length_append]; omega
    rw [List.append_assoc, items_ok h0 hp]
    refine .cons ⟨e1, e2, by rw [e3]; exact hbody⟩ ?_
    have hr : r.ws = rest := by
      rw [e4]
      rcases hpad with hpad | ⟨hpad, hns⟩
      · rw [← hpad]; simp
      · subst hpad hns
        rw [IsNodes] at hrest; subst hrest
        simp
    rw [sl_eta r rest hr]
    exact ih (fun x hx => hc x (List.mem_cons_of_mem _ hx)) rest r.off hrest

theorem All₂.map_left {α β γ : Type} {R : γ → β → Prop} {f : α → γ} {l : List α} {ds : List β}
    (h : All₂ (fun a b => R (f a) b) l ds) : All₂ R (l.map f) ds := by
  induction h with
  | nil => exact .nil
  | cons h1 _ ih => exact .cons h1 ih

/-! ### 3. the parse tree against the abstract content -/

def StrOf (x : Tlv) (s : VStr) : Prop := x.key.ws = s.key ∧ x.value.ws = s.stored
def TableOf (t : PTable) (vt : VTable) : Prop := t.node.key.ws = vt.lang ∧ All₂ StrOf t.strings vt.strings
def VarOf (x : Tlv) (vv : VVar) : Prop := x.key.ws = vv.key ∧ x.value.ws = vv.value
def InfoOf (i : PInfo) : VBlock → Prop
  | .stringInfo ts => i.node.key.ws = strStringFileInfo ∧ ∃ pts, i.kind = .tables pts ∧ All₂ TableOf pts ts
  | .varInfo vs => i.node.key.ws = strVarFileInfo ∧ ∃ pvs, i.kind = .vars pvs ∧ All₂ VarOf pvs vs

/-- the parse tree `r` is the abstract resource `v`: same keys and values, node by node, in order -/
def RootOf (r : PRoot) (v : VInfo) : Prop :=
  r.node.key.ws = v.key ∧ r.node.value.ws = v.value ∧ All₂ InfoOf r.infos v.blocks

theorem strs_layout (c : Sl) (strs : List VStr) (h : IsNodes (strs.map VStr.node) c.ws) :
    All₂ StrOf (items .words c) strs := by
  obtain ⟨off, ws⟩ := c
  have := items_layout .words (strs.map VStr.node)
    (by intro n hn; obtain ⟨s, _, rfl⟩ := List.mem_map.mp hn; exact Or.inl rfl) ws off h
  exact this.map_right.imp_mem (fun t s _ hts => ⟨hts.1, hts.2.1⟩)

theorem vars_layout (c : Sl) (vs : List VVar) (h : IsNodes (vs.map VVar.node) c.ws) :
    All₂ VarOf (items .bytes c) vs := by
  obtain ⟨off, ws⟩ := c
  have := items_layout .bytes (vs.map VVar.node)
    (by intro n hn; obtain ⟨s, _, rfl⟩ := List.mem_map.mp hn; exact Or.inl rfl) ws off h
  exact this.map_right.imp_mem (fun t s _ hts => ⟨hts.1, hts.2.1⟩)

theorem tables_layout (c : Sl) (ts : List VTable) (h : IsNodes (ts.map VTable.node) c.ws) :
    All₂ TableOf ((items .zero c).map pTable) ts := by
  obtain ⟨off, ws⟩ := c
  have := items_layout .zero (ts.map VTable.node)
    (by intro n hn; obtain ⟨s, _, rfl⟩ := List.mem_map.mp hn; exact rfl) ws off h
  apply All₂.map_left
  exact this.map_right.imp_mem (fun st t _ hst => ⟨hst.1, strs_layout st.children t.strings hst.2.2⟩)

theorem infos_layout (c : Sl) (bs : List VBlock) (h : IsNodes (bs.map VBlock.node) c.ws) :
    All₂ InfoOf ((items .zero c).map pInfo) bs := by
  obtain ⟨off, ws⟩ := c
  have := items_layout .zero (bs.map VBlock.node)
    (by intro n hn; obtain ⟨b, _, rfl⟩ := List.mem_map.mp hn; cases b <;> exact rfl) ws off h
  apply All₂.map_left
  refine this.map_right.imp_mem ?_
  intro fi b _ hfb
  cases b with
  | stringInfo ts =>
    obtain ⟨h1, _, h3⟩ := hfb
    have hk : fi.key.ws = strStringFileInfo := by rw [h1, kStringFileInfo_eq]
    exact ⟨hk, _, by simp only [pInfo, hk, if_true], tables_layout fi.children ts h3⟩
  | varInfo vs =>
    obtain ⟨h1, _, h3⟩ := hfb
    have hk : fi.key.ws = strVarFileInfo := by rw [h1, kVarFileInfo_eq]
    have hne : strVarFileInfo ≠ strStringFileInfo := by decide
    exact ⟨hk, _, by simp only [pInfo, hk, hne, if_true, if_false], vars_layout fi.children vs h3⟩

/-- **a block in any documented layout read back**: its parse tree has a first root, and that root
is the abstract resource -/
theorem root_layout (v : VInfo) (ws : List Nat) (h : v.IsBlock ws) (off : Nat) :
    ∃ r rs, pRoots ⟨off, ws⟩ = r :: rs ∧ RootOf r v := by
  obtain ⟨root, tl, hroot, rfl⟩ := h
  have hlen := isNode_length_ge hroot
  unfold VInfo.node at hroot
  rw [IsNode] at hroot
  obtain ⟨wType, p1, p2, body, hk, hbody, h1, h2, hw⟩ := hroot
  obtain ⟨t, r, hp, e1, e2, e3, _⟩ := parseTlv_shape .bytes v.key v.value false wType p1 p2 body tl off hk
    (Or.inl rfl) h1 h2 root hw
  have h0 : (⟨off, root ++ tl⟩ : Sl).len ≠ 0 := by
    simp only [Sl.len, List.length_append]; omega
  refine ⟨pRoot t, (items .bytes r).map pRoot, ?_, e1, e2, ?_⟩
  · unfold pRoots; rw [items_ok h0 hp]; rfl
  · simp only [pRoot]
    exact infos_layout t.children v.blocks (by rw [e3]; exact hbody)

/-! ### 4. what the tree relation gives: events and table contents -/

theorem flatStrings_of (strs : List Tlv) (vs : List VStr) (h : All₂ StrOf strs vs) :
    (flatStrings strs).map Event.erase = vs.map (fun s => SEvent.string s.key (stripTerminator s.stored)) := by
  unfold flatStrings
  rw [List.map_map]
  refine h.map_eq _ _ ?_
  intro x s _ hxs
  simp only [Function.comp, Event.erase, stripNul_ws, hxs.1, hxs.2]

theorem flatTable_of (t : PTable) (vt : VTable) (h : TableOf t vt) : (flatTable t).map Event.erase = vt.events := by
  simp only [flatTable, VTable.events, List.map_append, List.map_cons, List.map_nil, Event.erase, h.1,
    flatStrings_of t.strings vt.strings h.2]

theorem flatInfo_of (i : PInfo) (b : VBlock) (h : InfoOf i b) : (flatInfo i).map Event.erase = b.events := by
  cases b with
  | stringInfo ts =>
    obtain ⟨hk, pts, hkind, hts⟩ := h
    have : (pts.flatMap flatTable).map Event.erase = ts.flatMap VTable.events := by
      rw [List.map_flatMap]
      exact hts.flatMap_eq _ _ (fun t vt _ htv => flatTable_of t vt htv)
    simp only [flatInfo, hkind, flatKind, VBlock.events, List.map_append, List.map_cons, List.map_nil, Event.erase,
      hk, this, kStringFileInfo_eq]
  | varInfo vs =>
    obtain ⟨hk, pvs, hkind, hvs⟩ := h
    have : (pvs.map fun x => Event.var x.key x.value).map Event.erase = vs.map (fun x => SEvent.var x.key x.value) := by
      rw [List.map_map]
      refine hvs.map_eq _ _ ?_
      intro x vv _ hx
      simp only [Function.comp, Event.erase, hx.1, hx.2]
    simp only [flatInfo, hkind, flatKind, VBlock.events, List.map_append, List.map_cons, List.map_nil, Event.erase,
      hk, this, kVarFileInfo_eq]

/-- the flattened tree, offsets erased, is the resource's event list -/
theorem flatRoot_of (r : PRoot) (v : VInfo) (h : RootOf r v) : (flatRoot r).map Event.erase = v.events := by
  obtain ⟨h1, h2, h3⟩ := h
  have hfix : (fixedSl r.node.value).map (·.ws) = v.fixed := by
    simp only [fixedSl, VInfo.fixed, Sl.len, h2]
    split <;> simp [h2]
  have : (r.infos.flatMap flatInfo).map Event.erase = v.blocks.flatMap VBlock.events := by
    rw [List.map_flatMap]
    exact h3.flatMap_eq _ _ (fun i b _ hib => flatInfo_of i b hib)
  simp only [flatRoot, VInfo.events, List.map_append, List.map_cons, List.map_nil, Event.erase, h1, hfix, this,
    List.cons_append, List.nil_append]

theorem content_of (t : PTable) (vt : VTable) (h : TableOf t vt) : t.content = vtContent vt := by
  unfold PTable.content vtContent
  rw [h.1]
  congr 1
  refine h.2.map_eq _ _ ?_
  intro x s _ hxs
  simp only [strContent, stripNul_ws, hxs.1, hxs.2]

/-- the string tables of the tree are, contents only, the tables of the resource -/
theorem tables_of (r : PRoot) (v : VInfo) (h : RootOf r v) : r.tables.map PTable.content = v.tables.map vtContent := by
  obtain ⟨_, _, h3⟩ := h
  unfold PRoot.tables VInfo.tables
  rw [List.map_flatMap, List.map_flatMap]
  refine h3.flatMap_eq _ _ ?_
  intro i b _ hib
  cases b with
  | stringInfo ts =>
    obtain ⟨_, pts, hkind, hts⟩ := hib
    simp only [PInfo.tables, hkind, VBlock.tables]
    exact hts.map_eq _ _ (fun t vt _ htv => content_of t vt htv)
  | varInfo vs =>
    obtain ⟨_, pvs, hkind, _⟩ := hib
    simp only [PInfo.tables, hkind, VBlock.tables, List.map_nil]

/-- **round trip for any documented layout** (events) -/
theorem flat_layout (v : VInfo) (ws : List Nat) (h : v.IsBlock ws) (off : Nat) :
    (flatRoots (pRoots ⟨off, ws⟩)).map Event.erase = v.events := by
  obtain ⟨r, rs, hr, hrv⟩ := root_layout v ws h off
  rw [hr]
  exact flatRoot_of r v hrv

/-- **the tables of any documented layout read back** -/
theorem tables_block (v : VInfo) (ws : List Nat) (h : v.IsBlock ws) (off : Nat) :
    ∃ r rs, pRoots ⟨off, ws⟩ = r :: rs ∧ r.tables.map PTable.content = v.tables.map vtContent := by
  obtain ⟨r, rs, hr, hrv⟩ := root_layout v ws h off
  exact ⟨r, rs, hr, tables_of r v hrv⟩

/-! ### 5. the reference writer produces a layout -/

/-- one written structure around laid out children is a layout of the structure -/
theorem encNode_isNode (tight : Bool) (key value : List Nat) (text : Bool) (children : List Node) (body : List Nat)
    (hk : keyOk key = true) (hb : IsNodes children body) :
    IsNode (.mk key value text children) (encNode tight key value text body) := by
  obtain ⟨p1, p2, ht, h1, h2⟩ := encTail_decomp tight key value body
  rw [IsNode]
  refine ⟨(if text then 1 else 0), p1, p2, body, hk, hb, ?_, ?_, ?_⟩
  · rcases h1 with h | ⟨h, hv, hbb, _⟩
    · exact Or.inl h
    · exact Or.inr ⟨h, hv, hbb⟩
  · rcases h2 with ⟨h, _⟩ | ⟨h, hbb⟩
    · exact Or.inl h
    · exact Or.inr ⟨h, hbb⟩
  · rw [encNode_eq, ht]
    simp only [List.length_append, List.append_assoc, List.cons_append, List.nil_append, List.cons.injEq, and_true,
      true_and]
    omega

/-- written siblings are a layout of the siblings -/
theorem encodeList_isNodes (tight : Bool) (ns : List Node) (h : ∀ n ∈ ns, IsNode n (Spec.encode tight n)) :
    IsNodes ns (encodeList tight ns) := by
  induction ns with
  | nil => rw [IsNodes, encodeList]
  | cons n ns ih =>
    rw [IsNodes, encodeList]
    refine ⟨Spec.encode tight n, (if ns.isEmpty then [] else pad (Spec.encode tight n).length), encodeList tight ns,
      h n (List.mem_cons_self ..), ih (fun x hx => h x (List.mem_cons_of_mem _ hx)), ?_, ?_⟩
    · cases ns with
      | nil => exact Or.inr ⟨rfl, rfl⟩
      | cons m ms => exact Or.inl (by simp [pad_length])
    · cases ns with
      | nil => simp [encodeList]
      | cons m ms => simp

theorem encode_isNode_mk (tight : Bool) (key value : List Nat) (text : Bool) (children : List Node)
    (hk : keyOk key = true) (h : ∀ n ∈ children, IsNode n (Spec.encode tight n)) :
    IsNode (.mk key value text children) (Spec.encode tight (.mk key value text children)) := by
  rw [Spec.encode]
  exact encNode_isNode tight key value text children _ hk (encodeList_isNodes tight children h)

/-- **the reference writer, with either convention, produces a documented layout** -/
theorem encode_isBlock (tight : Bool) (v : VInfo) (hwf : v.wf = true) : v.IsBlock (v.encode tight) := by
  simp only [VInfo.wf, Bool.and_eq_true, List.all_eq_true] at hwf
  refine ⟨v.encode tight, [], ?_, by simp⟩
  unfold VInfo.encode VInfo.node
  refine encode_isNode_mk tight _ _ _ _ hwf.1 ?_
  intro n hn
  obtain ⟨b, hb, rfl⟩ := List.mem_map.mp hn
  have hbw := hwf.2 b hb
  cases b with
  | stringInfo ts =>
    simp only [VBlock.wf, List.all_eq_true] at hbw
    unfold VBlock.node
    refine encode_isNode_mk tight _ _ _ _ (by decide) ?_
    intro n hn
    obtain ⟨t, ht, rfl⟩ := List.mem_map.mp hn
    have htw := hbw t ht
    simp only [VTable.wf, Bool.and_eq_true, List.all_eq_true] at htw
    unfold VTable.node
    refine encode_isNode_mk tight _ _ _ _ htw.1 ?_
    intro n hn
    obtain ⟨s, hs, rfl⟩ := List.mem_map.mp hn
    unfold VStr.node
    exact encode_isNode_mk tight _ _ _ _ (htw.2 s hs) (fun _ h => by cases h)
  | varInfo vs =>
    simp only [VBlock.wf, List.all_eq_true] at hbw
    unfold VBlock.node
    refine encode_isNode_mk tight _ _ _ _ (by decide) ?_
    intro n hn
    obtain ⟨x, hx, rfl⟩ := List.mem_map.mp hn
    unfold VVar.node
    exact encode_isNode_mk tight _ _ _ _ (hbw x hx) (fun _ h => by cases h)

/-! ### fixed() and translation() from the event list -/

/-- `fixed()` on a block whose events are those of `v` -/
theorem fixed_of_flat (w : Sl) (hw : w.Al) (v : VInfo) (h : (flatRoots (pRoots w)).map Event.erase = v.events) :
    ∃ f, fixed w = .ok f ∧ f.map (·.ws) = v.fixed := by
  refine ⟨_, fixed_eq _ hw, ?_⟩
  cases hp : pRoots w with
  | nil => rw [hp] at h; simp [flatRoots, VInfo.events] at h
  | cons r rs =>
    rw [hp] at h
    simp only [flatRoots, flatRoot, VInfo.events, List.cons_append, List.map_cons, Event.erase, List.cons.injEq,
      SEvent.versionInfo.injEq] at h
    exact h.1.2

/-- `translation()` on a block whose events are those of `v` -/
theorem translation_of_flat (w : Sl) (hw : w.Al) (v : VInfo) (h : (flatRoots (pRoots w)).map Event.erase = v.events) :
    ∃ t, translation w = .ok t ∧
      (match t with
       | some sl => (langsOf sl.ws).map (fun l => (l.langId, l.charsetId))
       | none => []) = v.translations := by
  refine ⟨_, translation_eq _ hw, ?_⟩
  cases hp : pRoots w with
  | nil => rw [hp] at h; simp [flatRoots, VInfo.events] at h
  | cons r rs =>
    rw [hp] at h
    simp only [flatRoots] at h
    have h2 := translationValues_flatRoot r
    rw [h, translationValues_events] at h2
    simp only [VInfo.translations, h2, lastTranslation_eq, List.getLast?_map]
    cases (List.filter (fun x => decide (x.key.ws = strTranslation)) r.vars).getLast? with
    | none => rfl
    | some x => exact langsOf_pairs x.value.ws

/-! ### 6. the layout test `Spec.VInfo.isBlockB` is sound -/

theorem stripPrefix_sound {pre ws rest : List Nat} (h : stripPrefix pre ws = some rest) : ws = pre ++ rest := by
  unfold stripPrefix at h
  split at h
  · rename_i hp
    cases h
    conv => lhs; rw [← List.take_append_drop pre.length ws]
    rw [hp]
  · cases h

theorem isNode_of_parts (key value : List Nat) (text : Bool) (children : List Node) (wLength vLength wType : Nat)
    (rest p1 p2 body : List Nat)
    (hL : wLength = 2 * (wLength :: vLength :: wType :: rest).length)
    (hV : vLength = if text then value.length else 2 * value.length)
    (hk : keyOk key = true) (hbody : IsNodes children body)
    (h1 : p1.length = key.length % 2 ∨ (p1 = [] ∧ value = [] ∧ body = []))
    (h2 : p2.length = value.length % 2 ∨ (p2 = [] ∧ body = []))
    (hrest : rest = (key ++ [0]) ++ (p1 ++ (value ++ (p2 ++ body)))) :
    IsNode (.mk key value text children) (wLength :: vLength :: wType :: rest) := by
  rw [IsNode]
  refine ⟨wType, p1, p2, body, hk, hbody, h1, h2, ?_⟩
  rw [hL, hV, hrest]
  simp only [List.length_append, List.length_cons, List.length_nil, List.append_assoc, List.cons_append,
    List.nil_append, List.cons.injEq, and_true]
  omega

theorem isNodeB_sound (key value : List Nat) (text : Bool) (children : List Node) (bodyOk : List Nat → Bool)
    (hbody : ∀ b, bodyOk b = true → IsNodes children b) (ws : List Nat)
    (h : isNodeB key value text bodyOk ws = true) : IsNode (.mk key value text children) ws := by
  unfold isNodeB at h
  split at h
  · rename_i wLength vLength wType rest
    simp only [Bool.and_eq_true, beq_iff_eq] at h
    obtain ⟨⟨⟨hL, hV⟩, hk⟩, h⟩ := h
    split at h
    · cases h
    · rename_i after hafter
      have hrest := stripPrefix_sound hafter
      simp only [Bool.or_eq_true, Bool.and_eq_true, decide_eq_true_eq, List.isEmpty_iff] at h
      rcases h with ⟨⟨ha, hv⟩, hb⟩ | ⟨hp1, h⟩
      · subst ha hv
        exact isNode_of_parts key [] text children wLength vLength wType rest [] [] [] hL hV hk (hbody [] hb)
          (Or.inr ⟨rfl, rfl, rfl⟩) (Or.inl rfl) (by rw [hrest]; simp)
      · split at h
        · cases h
        · rename_i after2 hafter2
          have ha := stripPrefix_sound hafter2
          have hafter_eq : after = after.take (key.length % 2) ++ (value ++ after2) := by
            rw [← ha, List.take_append_drop]
          have hp1len : (after.take (key.length % 2)).length = key.length % 2 := by
            rw [List.length_take]; omega
          simp only [Bool.or_eq_true, Bool.and_eq_true, decide_eq_true_eq, List.isEmpty_iff] at h
          rcases h with ⟨ha2, hb⟩ | ⟨hp2, hb⟩
          · subst ha2
            exact isNode_of_parts key value text children wLength vLength wType rest (after.take (key.length % 2)) [] []
              hL hV hk (hbody [] hb) (Or.inl hp1len) (Or.inr ⟨rfl, rfl⟩)
              (by rw [hrest]; conv => lhs; rw [hafter_eq]
                  simp)
          · have hp2len : (after2.take (value.length % 2)).length = value.length % 2 := by
              rw [List.length_take]; omega
            exact isNode_of_parts key value text children wLength vLength wType rest (after.take (key.length % 2))
              (after2.take (value.length % 2)) (after2.drop (value.length % 2))
              hL hV hk (hbody _ hb) (Or.inl hp1len) (Or.inl hp2len)
              (by rw [hrest]; conv => lhs; rw [hafter_eq]
                  rw [List.take_append_drop])
  · cases h

theorem isNodesB_sound {α : Type} (node : α → Node) (chk : α → List Nat → Bool) (xs : List α)
    (hchk : ∀ x ∈ xs, ∀ w, chk x w = true → IsNode (node x) w) :
    ∀ ws, isNodesB (xs.map chk) ws = true → IsNodes (xs.map node) ws := by
  induction xs with
  | nil =>
    intro ws h
    simp only [List.map_nil, isNodesB, List.isEmpty_iff] at h
    rw [List.map_nil, IsNodes]; exact h
  | cons x xs ih =>
    intro ws h
    simp only [List.map_cons, isNodesB, Bool.and_eq_true, decide_eq_true_eq] at h
    obtain ⟨⟨hn, hc⟩, h⟩ := h
    have hw := hchk x (List.mem_cons_self ..) _ hc
    have hwl : (ws.take (ws.headD 0 / 2)).length = ws.headD 0 / 2 := by rw [List.length_take]; omega
    rw [List.map_cons, IsNodes]
    by_cases hxs : xs = []
    · subst hxs
      simp only [List.map_nil, List.isEmpty_nil, if_true, Bool.or_eq_true, List.isEmpty_iff, decide_eq_true_eq] at h
      refine ⟨_, ws.drop (ws.headD 0 / 2), [], hw, by rw [List.map_nil, IsNodes], ?_, by simp⟩
      rcases h with h | h
      · exact Or.inr ⟨h, rfl⟩
      · exact Or.inl (by rw [h, hwl])
    · have hne : (xs.map chk).isEmpty = false := by
        cases xs with
        | nil => exact absurd rfl hxs
        | cons _ _ => rfl
      simp only [hne, Bool.false_eq_true, if_false, Bool.and_eq_true, decide_eq_true_eq] at h
      refine ⟨_, (ws.drop (ws.headD 0 / 2)).take (ws.headD 0 / 2 % 2), (ws.drop (ws.headD 0 / 2)).drop (ws.headD 0 / 2 % 2),
        hw, ih (fun y hy => hchk y (List.mem_cons_of_mem _ hy)) _ h.2, Or.inl ?_, ?_⟩
      · rw [hwl, List.length_take]; omega
      · rw [List.append_assoc, List.take_append_drop, List.take_append_drop]

/-- **the layout test is sound**: a block it accepts is a documented layout of `v` -/
theorem isBlockB_sound (v : VInfo) (ws : List Nat) (h : v.isBlockB ws = true) : v.IsBlock ws := by
  simp only [VInfo.isBlockB, Bool.and_eq_true, decide_eq_true_eq] at h
  refine ⟨ws.take (ws.headD 0 / 2), ws.drop (ws.headD 0 / 2), ?_, (List.take_append_drop _ _).symm⟩
  have hnil : ∀ b, isNodesB [] b = true → IsNodes [] b := by
    intro b hb
    simpa [isNodesB, IsNodes] using hb
  have hstr : ∀ s : VStr, ∀ w, s.isB w = true → IsNode s.node w := fun s w hw =>
    isNodeB_sound s.key s.stored true [] _ hnil w hw
  have hvar : ∀ x : VVar, ∀ w, x.isB w = true → IsNode x.node w := fun x w hw =>
    isNodeB_sound x.key x.value false [] _ hnil w hw
  have htab : ∀ t : VTable, ∀ w, t.isB w = true → IsNode t.node w := fun t w hw =>
    isNodeB_sound t.lang [] true _ _ (isNodesB_sound VStr.node VStr.isB t.strings (fun s _ => hstr s)) w hw
  have hblk : ∀ b : VBlock, ∀ w, b.isB w = true → IsNode b.node w := by
    intro b w hw
    cases b with
    | stringInfo ts =>
      exact isNodeB_sound kStringFileInfo [] true _ _ (isNodesB_sound VTable.node VTable.isB ts (fun t _ => htab t)) w hw
    | varInfo vs =>
      exact isNodeB_sound kVarFileInfo [] true _ _ (isNodesB_sound VVar.node VVar.isB vs (fun x _ => hvar x)) w hw
  exact isNodeB_sound v.key v.value false _ _ (isNodesB_sound VBlock.node VBlock.isB v.blocks (fun b _ => hblk b)) _ h.2


end Pelite.Version
