import PeliteModel.Lemmas.VersionQueries
import PeliteModel.Lemmas.VersionRoundTrip
/-!
C13 helper lemmas, part 6: nesting of the reported nodes, node-count bound, `Language::parse` on hex
keys, and the spec-side reading of an event list (triples, translation).
-/
set_option linter.unusedSimpArgs false
set_option linter.unnecessarySimpa false

namespace Pelite.Version
open Spec

/-! ### nesting -/

/-- every node of the tree lies in the children extent of its parent, siblings in stored order
without overlap -/
structure PRoot.Nested (r : PRoot) (w : Sl) : Prop where
  root : NodeIn r.node w
  infos : ∀ i ∈ r.infos, NodeIn i.node r.node.children
  infosOrd : r.infos.Pairwise (fun a b => a.node.stop ≤ b.node.start)
  tables : ∀ i ∈ r.infos, ∀ t ∈ i.tables, NodeIn t.node i.node.children
  tablesOrd : ∀ i ∈ r.infos, i.tables.Pairwise (fun a b => a.node.stop ≤ b.node.start)
  strings : ∀ i ∈ r.infos, ∀ t ∈ i.tables, ∀ x ∈ t.strings, NodeIn x t.node.children
  stringsOrd : ∀ i ∈ r.infos, ∀ t ∈ i.tables, t.strings.Pairwise (fun a b => a.stop ≤ b.start)
  vars : ∀ i ∈ r.infos, ∀ x ∈ i.vars, NodeIn x i.node.children
  varsOrd : ∀ i ∈ r.infos, i.vars.Pairwise (fun a b => a.stop ≤ b.start)

theorem pairwise_map {α β} (f : α → β) (R : β → β → Prop) (l : List α)
    (h : l.Pairwise (fun a b => R (f a) (f b))) : (l.map f).Pairwise R := by
  induction h with
  | nil => exact List.Pairwise.nil
  | cons hx _ ih =>
    refine List.Pairwise.cons ?_ ih
    intro b hb
    obtain ⟨a, ha, rfl⟩ := List.mem_map.mp hb
    exact hx a ha

theorem pInfo_cases (fi : Tlv) :
    (pInfo fi).kind = .tables ((items .zero fi.children).map pTable) ∨
    (pInfo fi).kind = .vars (items .bytes fi.children) ∨ (pInfo fi).kind = .other := by
  unfold pInfo
  by_cases h1 : fi.key.ws = strStringFileInfo
  · simp [h1]
  · by_cases h2 : fi.key.ws = strVarFileInfo
    · have hne : strVarFileInfo ≠ strStringFileInfo := by decide
      simp [h2, hne]
    · simp [h1, h2]

theorem pInfo_tables (fi : Tlv) : ∀ t ∈ (pInfo fi).tables, ∃ st ∈ items .zero fi.children, t = pTable st := by
  intro t ht
  unfold PInfo.tables at ht
  rcases pInfo_cases fi with h | h | h <;> rw [h] at ht
  · simp only [List.mem_map] at ht
    obtain ⟨st, hst, rfl⟩ := ht
    exact ⟨st, hst, rfl⟩
  · simp at ht
  · simp at ht

theorem pInfo_vars (fi : Tlv) : ∀ x ∈ (pInfo fi).vars, x ∈ items .bytes fi.children := by
  intro x hx
  unfold PInfo.vars at hx
  rcases pInfo_cases fi with h | h | h <;> rw [h] at hx
  · simp at hx
  · exact hx
  · simp at hx

theorem pRoots_nested (w : Sl) : ∀ r ∈ pRoots w, r.Nested w := by
  intro r hr
  simp only [pRoots, List.mem_map] at hr
  obtain ⟨vi, hvi, rfl⟩ := hr
  have hinfo : ∀ i ∈ (pRoot vi).infos, ∃ fi ∈ items .zero vi.children, i = pInfo fi := by
    intro i hi
    simp only [pRoot, List.mem_map] at hi
    obtain ⟨fi, hfi, rfl⟩ := hi
    exact ⟨fi, hfi, rfl⟩
  refine ⟨(items_ext .bytes w).1 vi hvi, ?_, ?_, ?_, ?_, ?_, ?_, ?_, ?_⟩
  · intro i hi
    obtain ⟨fi, hfi, rfl⟩ := hinfo i hi
    exact (items_ext .zero vi.children).1 fi hfi
  · exact pairwise_map pInfo _ _ (items_ext .zero vi.children).2
  · intro i hi t ht
    obtain ⟨fi, _, rfl⟩ := hinfo i hi
    obtain ⟨st, hst, rfl⟩ := pInfo_tables fi t ht
    exact (items_ext .zero fi.children).1 st hst
  · intro i hi
    obtain ⟨fi, _, rfl⟩ := hinfo i hi
    unfold PInfo.tables
    rcases pInfo_cases fi with h | h | h <;> rw [h]
    · exact pairwise_map pTable _ _ (items_ext .zero fi.children).2
    · exact List.Pairwise.nil
    · exact List.Pairwise.nil
  · intro i hi t ht x hx
    obtain ⟨fi, _, rfl⟩ := hinfo i hi
    obtain ⟨st, _, rfl⟩ := pInfo_tables fi t ht
    exact (items_ext .words st.children).1 x hx
  · intro i hi t ht
    obtain ⟨fi, _, rfl⟩ := hinfo i hi
    obtain ⟨st, _, rfl⟩ := pInfo_tables fi t ht
    exact (items_ext .words st.children).2
  · intro i hi x hx
    obtain ⟨fi, _, rfl⟩ := hinfo i hi
    exact (items_ext .bytes fi.children).1 x (pInfo_vars fi x hx)
  · intro i hi
    obtain ⟨fi, _, rfl⟩ := hinfo i hi
    unfold PInfo.vars
    rcases pInfo_cases fi with h | h | h <;> rw [h]
    · exact List.Pairwise.nil
    · exact (items_ext .bytes fi.children).2
    · exact List.Pairwise.nil

/-! ### node count -/

def PTable.count (t : PTable) : Nat := 1 + t.strings.length

def PInfo.count (i : PInfo) : Nat :=
  1 + match i.kind with
      | .tables ts => (ts.map PTable.count).sum
      | .vars vs => vs.length
      | .other => 0

/-- number of nodes of the tree -/
def PRoot.count (r : PRoot) : Nat := 1 + (r.infos.map PInfo.count).sum

theorem NodeIn.children_le {t : Tlv} {w : Sl} (h : NodeIn t w) : t.children.len + 4 ≤ t.stop - t.start := by
  obtain ⟨_, b, c, d, _, _, _, _, _⟩ := h
  simp only [Tlv.stop] at *
  omega

theorem pTable_count (st : Tlv) : 4 * (pTable st).count ≤ 4 + st.children.len := by
  have := items_length_le .words st.children
  simp only [PTable.count, pTable]; omega

theorem pInfo_count (fi : Tlv) : 4 * (pInfo fi).count ≤ 4 + fi.children.len := by
  unfold PInfo.count
  rcases pInfo_cases fi with h | h | h <;> rw [h]
  · simp only [List.map_map]
    have := items_sum_le .zero (fun st => 4 * (pTable st).count) fi.children (by
      intro t ht
      have h1 := ((items_ext .zero fi.children).1 t ht).children_le
      have h2 := pTable_count t
      omega)
    have e : (List.map (fun st => 4 * (pTable st).count) (items .zero fi.children)).sum
        = 4 * (List.map (PTable.count ∘ pTable) (items .zero fi.children)).sum := by
      induction items .zero fi.children with
      | nil => rfl
      | cons a l ih => simp only [List.map_cons, List.sum_cons, ih, Function.comp]; omega
    omega
  · have := items_length_le .bytes fi.children
    simp only []; omega
  · simp only []; omega

theorem pRoot_count (vi : Tlv) : 4 * (pRoot vi).count ≤ 4 + vi.children.len := by
  unfold PRoot.count pRoot
  simp only [List.map_map]
  have := items_sum_le .zero (fun fi => 4 * (pInfo fi).count) vi.children (by
    intro t ht
    have h1 := ((items_ext .zero vi.children).1 t ht).children_le
    have h2 := pInfo_count t
    omega)
  have e : (List.map (fun fi => 4 * (pInfo fi).count) (items .zero vi.children)).sum
      = 4 * (List.map (PInfo.count ∘ pInfo) (items .zero vi.children)).sum := by
    induction items .zero vi.children with
    | nil => rfl
    | cons a l ih => simp only [List.map_cons, List.sum_cons, ih, Function.comp]; omega
  omega

/-- (d) a block of `n` words holds at most `n / 4` nodes -/
theorem pRoots_count (w : Sl) : ∀ r ∈ pRoots w, 4 * r.count ≤ w.len := by
  intro r hr
  simp only [pRoots, List.mem_map] at hr
  obtain ⟨vi, hvi, rfl⟩ := hr
  have h := (items_ext .bytes w).1 vi hvi
  have h1 := h.children_le
  have h2 := h.start
  have h3 := h.stop
  have := pRoot_count vi
  omega

theorem flatTable_length (t : PTable) : (flatTable t).length = 2 + t.count := by
  simp [flatTable, flatStrings, PTable.count]; omega

theorem flatInfo_length (i : PInfo) : (flatInfo i).length ≤ 3 * i.count := by
  unfold flatInfo PInfo.count
  cases i.kind with
  | tables ts =>
    simp only [flatKind, List.length_append, List.length_cons, List.length_nil]
    have : (ts.flatMap flatTable).length ≤ 3 * (ts.map PTable.count).sum := by
      induction ts with
      | nil => simp
      | cons t l ih =>
        simp only [List.flatMap_cons, List.length_append, List.map_cons, List.sum_cons, flatTable_length]
        have : 1 ≤ t.count := by simp [PTable.count]
        omega
    omega
  | vars vs => simp [flatKind]; omega
  | other => simp [flatKind]

/-- at most three callbacks per node -/
theorem flatRoot_length (r : PRoot) : (flatRoot r).length ≤ 3 * r.count := by
  unfold flatRoot PRoot.count
  simp only [List.length_append, List.length_cons, List.length_nil]
  have : (r.infos.flatMap flatInfo).length ≤ 3 * (r.infos.map PInfo.count).sum := by
    induction r.infos with
    | nil => simp
    | cons i l ih =>
      simp only [List.flatMap_cons, List.length_append, List.map_cons, List.sum_cons]
      have := flatInfo_length i
      omega
  omega

/-! ### Language::parse on hex keys -/

theorem digit_hex {c d : Nat} (h : hexDigitVal c = some d) : digit c = d ∧ d < 16 := by
  unfold hexDigitVal at h
  unfold digit
  split at h
  · cases h; rename_i hc
    simp only []
    rw [if_neg (by omega), if_neg (by omega)]
    constructor <;> omega
  · split at h
    · cases h; rename_i hc
      simp only []
      rw [if_neg (by omega), if_pos (by omega)]
      constructor <;> omega
    · split at h
      · cases h; rename_i hc
        simp only []
        rw [if_pos (by omega)]
        constructor <;> omega
      · cases h

theorem lor4 {d0 d1 d2 d3 : Nat} (h0 : d0 < 16) (h1 : d1 < 16) (h2 : d2 < 16) (h3 : d3 < 16) :
    shl16 d0 12 ||| shl16 d1 8 ||| shl16 d2 4 ||| d3 = ((d0 * 16 + d1) * 16 + d2) * 16 + d3 := by
  have e0 : shl16 d0 12 = d0 <<< 12 := by
    unfold shl16; rw [Nat.shiftLeft_eq]; simp only [Nat.reducePow]; omega
  have e1 : shl16 d1 8 = d1 * 256 := by unfold shl16; simp only [Nat.reducePow]; omega
  have e2 : shl16 d2 4 = d2 * 16 := by unfold shl16; simp only [Nat.reducePow]; omega
  rw [e0, e1, e2]
  rw [← Nat.shiftLeft_add_eq_or_of_lt (i := 12) (b := d1 * 256) (by simp only [Nat.reducePow]; omega) d0]
  have s1 : d0 <<< 12 + d1 * 256 = (d0 * 16 + d1) <<< 8 := by
    simp only [Nat.shiftLeft_eq, Nat.reducePow]; omega
  rw [s1, ← Nat.shiftLeft_add_eq_or_of_lt (i := 8) (b := d2 * 16) (by simp only [Nat.reducePow]; omega)]
  have s2 : (d0 * 16 + d1) <<< 8 + d2 * 16 = ((d0 * 16 + d1) * 16 + d2) <<< 4 := by
    simp only [Nat.shiftLeft_eq, Nat.reducePow]; omega
  rw [s2, ← Nat.shiftLeft_add_eq_or_of_lt (i := 4) (b := d3) (by simp only [Nat.reducePow]; omega)]
  simp only [Nat.shiftLeft_eq, Nat.reducePow]

theorem hexNumeral4 {a b c d n : Nat} (h : hexNumeral [a, b, c, d] = some n) :
    ∃ d0 d1 d2 d3, hexDigitVal a = some d0 ∧ hexDigitVal b = some d1 ∧ hexDigitVal c = some d2 ∧
      hexDigitVal d = some d3 ∧ n = ((d0 * 16 + d1) * 16 + d2) * 16 + d3 := by
  simp only [hexNumeral, List.foldl_cons, List.foldl_nil] at h
  cases ha : hexDigitVal a with
  | none => simp [ha] at h
  | some d0 =>
    cases hb : hexDigitVal b with
    | none => simp [ha, hb] at h
    | some d1 =>
      cases hc : hexDigitVal c with
      | none => simp [ha, hb, hc] at h
      | some d2 =>
        cases hd : hexDigitVal d with
        | none => simp [ha, hb, hc, hd] at h
        | some d3 =>
          simp only [ha, hb, hc, hd, Option.some.injEq] at h
          exact ⟨d0, d1, d2, d3, rfl, rfl, rfl, rfl, by omega⟩

/-- `Language::parse` of an 8 hex digit key is the documented (language, codepage) pair -/
theorem parse_hex_key {k : List Nat} {l c : Nat} (h : langOfKey k = some (l, c)) :
    Language.parse k = some ⟨l, c⟩ := by
  unfold langOfKey at h
  split at h
  · rename_i h8
    match k, h8 with
    | [a0, a1, a2, a3, a4, a5, a6, a7], _ =>
      simp only [List.take, List.drop] at h
      cases h1 : hexNumeral [a0, a1, a2, a3] with
      | none => simp [h1] at h
      | some n1 =>
        cases h2 : hexNumeral [a4, a5, a6, a7] with
        | none => simp [h1, h2] at h
        | some n2 =>
          simp only [h1, h2, Option.some.injEq, Prod.mk.injEq] at h
          obtain ⟨d0, d1, d2, d3, e0, e1, e2, e3, en1⟩ := hexNumeral4 h1
          obtain ⟨d4, d5, d6, d7, e4, e5, e6, e7, en2⟩ := hexNumeral4 h2
          have := digit_hex e0; have := digit_hex e1; have := digit_hex e2; have := digit_hex e3
          have := digit_hex e4; have := digit_hex e5; have := digit_hex e6; have := digit_hex e7
          simp only [Language.parse, List.length_cons, List.length_nil, ne_eq, not_true_eq_false, if_false,
            List.getD_cons_zero, List.getD_cons_succ]
          simp only [*]
          rw [lor4 (by omega) (by omega) (by omega) (by omega), lor4 (by omega) (by omega) (by omega) (by omega)]
          rw [← en1, ← en2, h.1, h.2]
  · cases h

/-! ### reading an event list (specification side) -/

theorem triples_fold_strings (l : List Nat) (acc : List (List Nat × List Nat × List Nat)) (ss : List VStr) :
    (ss.map (fun s => SEvent.string s.key (stripTerminator s.stored))).foldl triplesStep (l, acc)
      = (l, acc ++ ss.map (fun s => (l, s.key, stripTerminator s.stored))) := by
  induction ss generalizing acc with
  | nil => simp
  | cons s ss ih => simp only [List.map_cons, List.foldl_cons, triplesStep]; rw [ih]; simp

theorem triples_fold_tables (l : List Nat) (acc : List (List Nat × List Nat × List Nat)) (ts : List VTable) :
    ∃ l', (ts.flatMap VTable.events).foldl triplesStep (l, acc) = (l', acc ++ ts.flatMap VTable.triples) := by
  induction ts generalizing l acc with
  | nil => exact ⟨l, by simp⟩
  | cons t ts ih =>
    simp only [List.flatMap_cons, List.foldl_append, VTable.events, List.cons_append, List.nil_append,
      List.foldl_cons, List.foldl_nil, triplesStep, triples_fold_strings]
    obtain ⟨l', h⟩ := ih t.lang (acc ++ t.strings.map (fun s => (t.lang, s.key, stripTerminator s.stored)))
    exact ⟨l', by rw [h]; simp [VTable.triples]⟩

theorem triples_fold_vars (st : List Nat × List (List Nat × List Nat × List Nat)) (vs : List VVar) :
    (vs.map (fun x => SEvent.var x.key x.value)).foldl triplesStep st = st := by
  induction vs with
  | nil => rfl
  | cons x xs ih => simpa [List.map_cons, List.foldl_cons, triplesStep] using ih

theorem triples_fold_blocks (l : List Nat) (acc : List (List Nat × List Nat × List Nat)) (bs : List VBlock) :
    ∃ l', (bs.flatMap VBlock.events).foldl triplesStep (l, acc) = (l', acc ++ bs.flatMap VBlock.triples) := by
  induction bs generalizing l acc with
  | nil => exact ⟨l, by simp⟩
  | cons b bs ih =>
    cases b with
    | stringInfo ts =>
      simp only [List.flatMap_cons, List.foldl_append, VBlock.events, List.cons_append, List.nil_append,
        List.foldl_cons, List.foldl_nil, triplesStep]
      obtain ⟨l1, h1⟩ := triples_fold_tables l acc ts
      rw [h1]
      obtain ⟨l', h⟩ := ih l1 (acc ++ ts.flatMap VTable.triples)
      exact ⟨l', by rw [h]; simp [VBlock.triples]⟩
    | varInfo vs =>
      simp only [List.flatMap_cons, List.foldl_append, VBlock.events, List.cons_append, List.nil_append,
        List.foldl_cons, List.foldl_nil, triplesStep, triples_fold_vars]
      obtain ⟨l', h⟩ := ih l acc
      exact ⟨l', by rw [h]; simp [VBlock.triples]⟩

/-- the event list of a resource reports exactly its (language, key, value) triples, in stored order -/
theorem triples_events (v : VInfo) : triples v.events = v.strings := by
  unfold triples VInfo.events VInfo.strings
  simp only [List.cons_append, List.nil_append, List.foldl_cons, List.foldl_append, List.foldl_nil, triplesStep]
  obtain ⟨l', h⟩ := triples_fold_blocks [] [] v.blocks
  rw [h]; simp

theorem translationValues_events (v : VInfo) : translationValues v.events = v.translationVars := by
  unfold translationValues VInfo.events VInfo.translationVars
  simp only [List.cons_append, List.nil_append, List.filterMap_cons, List.filterMap_append, List.filterMap_nil,
    List.append_nil, filterMap_flatMap, translationOf]
  congr 1
  funext b
  cases b with
  | stringInfo ts =>
    simp only [VBlock.events, VBlock.translationVars, List.cons_append, List.nil_append, List.filterMap_cons,
      List.filterMap_append, List.filterMap_nil, List.append_nil, filterMap_flatMap, translationOf]
    induction ts with
    | nil => rfl
    | cons t ts ih =>
      simp only [List.flatMap_cons, ih, List.append_nil]
      simp only [VTable.events, List.cons_append, List.nil_append, List.filterMap_cons, List.filterMap_append,
        List.filterMap_nil, List.append_nil, List.filterMap_map, translationOf]
      induction t.strings with
      | nil => rfl
      | cons x l ihs => simpa [List.filterMap_cons, translationOf] using ihs
  | varInfo vs =>
    simp only [VBlock.events, VBlock.translationVars, List.cons_append, List.nil_append, List.filterMap_cons,
      List.filterMap_append, List.filterMap_nil, List.append_nil, List.filterMap_map, translationOf]
    induction vs with
    | nil => rfl
    | cons x l ih =>
      simp only [List.filterMap_cons, Function.comp, List.filter_cons, translationOf]
      by_cases hx : x.key = kTranslation
      · simp [hx, ih]
      · simp [hx, ih]

/-! ### the translation slice and the events -/

theorem lastTranslation_eq (vs : List Tlv) (s : Option Sl) :
    lastTranslation vs s = match (vs.filter fun x => x.key.ws = strTranslation).getLast? with
      | some x => some x.value
      | none => s := by
  unfold lastTranslation
  induction vs generalizing s with
  | nil => rfl
  | cons x l ih =>
    rw [List.foldl_cons, ih]
    by_cases h : x.key.ws = strTranslation
    · have : List.filter (fun x => decide (x.key.ws = strTranslation)) (x :: l)
          = x :: List.filter (fun x => decide (x.key.ws = strTranslation)) l := by simp [List.filter, h]
      rw [this]
      cases hf : List.filter (fun x => decide (x.key.ws = strTranslation)) l with
      | nil => simp [h]
      | cons y ys =>
        rw [List.getLast?_cons_cons]
        cases hg : (y :: ys).getLast? with
        | none => simp at hg
        | some z => rfl
    · have : List.filter (fun x => decide (x.key.ws = strTranslation)) (x :: l)
          = List.filter (fun x => decide (x.key.ws = strTranslation)) l := by simp [List.filter, h]
      rw [this]; simp [h]

theorem translationOf_var (x : Tlv) :
    translationOf (Event.erase (Event.var x.key x.value)) = if x.key.ws = strTranslation then some x.value.ws else none := by
  simp [translationOf, Event.erase, kTranslation_eq]

theorem translationValues_flatRoot (r : PRoot) :
    translationValues ((flatRoot r).map Event.erase)
      = (r.vars.filter fun x => x.key.ws = strTranslation).map (·.value.ws) := by
  unfold translationValues flatRoot PRoot.vars
  simp only [List.cons_append, List.nil_append, List.map_cons, List.map_append, List.map_nil, Event.erase,
    List.filterMap_cons, List.filterMap_append, List.filterMap_nil, List.append_nil, List.filterMap_map,
    filterMap_flatMap, translationOf]
  induction r.infos with
  | nil => rfl
  | cons i is ih =>
    simp only [List.flatMap_cons, List.filter_append, List.map_append, ih]
    congr 1
    unfold flatInfo PInfo.vars
    simp only [List.cons_append, List.nil_append, List.filterMap_cons, List.filterMap_append, List.filterMap_nil,
      List.append_nil, Function.comp, Event.erase, translationOf]
    cases i.kind with
    | tables ts =>
      simp only [flatKind, filterMap_flatMap, List.filter_nil, List.map_nil]
      induction ts with
      | nil => rfl
      | cons t ts iht =>
        simp only [List.flatMap_cons, iht, List.append_nil]
        simp only [flatTable, flatStrings, List.cons_append, List.nil_append, List.filterMap_cons,
          List.filterMap_append, List.filterMap_nil, List.append_nil, List.filterMap_map, Event.erase, translationOf]
        induction t.strings with
        | nil => rfl
        | cons x l ihs => simpa [List.filterMap_cons, Event.erase, translationOf] using ihs
    | vars vs =>
      simp only [flatKind, List.filterMap_map]
      induction vs with
      | nil => rfl
      | cons x l ihv =>
        simp only [List.filterMap_cons, Function.comp, List.filter_cons, translationOf_var] at ihv ⊢
        by_cases hx : x.key.ws = strTranslation
        · simp [hx, ihv]
        · simp [hx, ihv]
    | other => simp [flatKind]

theorem langsOf_pairs (ws : List Nat) : (langsOf ws).map (fun l => (l.langId, l.charsetId)) = pairs ws := by
  induction ws using langsOf.induct with
  | case1 a b rest ih => simp [langsOf, pairs, ih]
  | case2 l h =>
    match l, h with
    | [], _ => rfl
    | [_], _ => rfl
    | a :: b :: rest, h => exact absurd rfl (h a b rest)

end Pelite.Version
