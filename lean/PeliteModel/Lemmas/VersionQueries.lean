import PeliteModel.Lemmas.VersionTree
/-!
C13 helper lemmas, part 5: the queries as functions of the parse tree, and their agreement.
-/
set_option linter.unusedSimpArgs false
set_option linter.unnecessarySimpa false

namespace Pelite.Version

/-! ### association lists -/

section am
variable {κ ν : Type} [DecidableEq κ]

theorem amLookup_insert_self (k : κ) (v : ν) (m : List (κ × ν)) : amLookup k (amInsert k v m) = some v := by
  induction m with
  | nil => simp [amInsert, amLookup]
  | cons p m ih =>
    obtain ⟨k', v'⟩ := p
    simp only [amInsert]
    by_cases h : k' = k
    · simp [h, amLookup]
    · simp [h, amLookup, ih]

theorem amLookup_insert_ne {k k' : κ} (h : k' ≠ k) (v : ν) (m : List (κ × ν)) :
    amLookup k (amInsert k' v m) = amLookup k m := by
  induction m with
  | nil => simp [amInsert, amLookup, h]
  | cons p m ih =>
    obtain ⟨k'', v''⟩ := p
    simp only [amInsert]
    by_cases h2 : k'' = k'
    · subst h2; simp [amLookup, h]
    · simp only [h2, if_false, amLookup]
      by_cases h3 : k'' = k
      · simp [h3]
      · simp [h3, ih]

theorem amInsert_insert (k : κ) (v v' : ν) (m : List (κ × ν)) :
    amInsert k v' (amInsert k v m) = amInsert k v' m := by
  induction m with
  | nil => simp [amInsert]
  | cons p m ih =>
    obtain ⟨k'', v''⟩ := p
    simp only [amInsert]
    by_cases h2 : k'' = k
    · simp [h2, amInsert]
    · simp [h2, amInsert, ih]

/-- insert under an optional key -/
def amInsertOpt (k : Option κ) (v : ν) (m : List (κ × ν)) : List (κ × ν) :=
  match k with
  | some k' => amInsert k' v m
  | none => m

/-- looking a key up after a run of inserts finds the last insert under that key -/
theorem amLookup_foldl_insert {α : Type} (kf : α → Option κ) (vf : α → ν) (k : κ) (l : List α) (m0 : List (κ × ν)) :
    amLookup k (l.foldl (fun m x => amInsertOpt (kf x) (vf x) m) m0)
      = match (l.filter (fun x => kf x = some k)).getLast? with
        | some x => some (vf x)
        | none => amLookup k m0 := by
  induction l generalizing m0 with
  | nil => simp
  | cons x l ih =>
    rw [List.foldl_cons, ih]
    simp only [amInsertOpt]
    cases hk : kf x with
    | none =>
      have : (List.filter (fun x => decide (kf x = some k)) (x :: l)) = List.filter (fun x => decide (kf x = some k)) l := by
        simp [List.filter, hk]
      rw [this]
    | some k' =>
      by_cases hkk : k' = k
      · subst hkk
        have : (List.filter (fun x => decide (kf x = some k')) (x :: l)) = x :: List.filter (fun x => decide (kf x = some k')) l := by
          simp [List.filter, hk]
        rw [this]
        cases hf : List.filter (fun x => decide (kf x = some k')) l with
        | nil => simp [amLookup_insert_self]
        | cons y ys =>
          rw [List.getLast?_cons_cons]
          cases hg : (y :: ys).getLast? with
          | none => simp at hg
          | some z => rfl
      · have : (List.filter (fun x => decide (kf x = some k)) (x :: l)) = List.filter (fun x => decide (kf x = some k)) l := by
          have : ¬ (some k' = some k) := by simpa using hkk
          simp [List.filter, hk, this]
        rw [this]
        simp only [amLookup_insert_ne hkk]

end am

/-! ### UTF-16 -/

def Dec.isOk : Dec → Bool
  | .ok _ => true
  | .bad _ => false

/-- no unpaired surrogate -/
def validUtf16 (ws : List Nat) : Bool := (decode16 ws).all Dec.isOk

theorem decode_of_valid {ws : List Nat} (h : validUtf16 ws = true) : decode16 ws = (lossy ws).map Dec.ok := by
  unfold validUtf16 at h
  unfold lossy
  generalize decode16 ws = l at *
  induction l with
  | nil => rfl
  | cons d l ih =>
    simp only [List.all_cons, Bool.and_eq_true] at h
    cases d with
    | ok c => simp only [List.map_cons]; rw [← ih h.2]
    | bad u => simp [Dec.isOk] at h

/-- for stored keys without unpaired surrogates, `value`'s exact comparison and the lossy
conversion of `strings` / `file_info` select the same keys -/
theorem keyMatch_iff {ws : List Nat} (h : validUtf16 ws = true) (key : Str) :
    (key.map Dec.ok = decode16 ws) ↔ (lossy ws = key) := by
  rw [decode_of_valid h]
  constructor
  · intro h'
    exact ((List.map_inj_right (fun a b hab => by cases hab; rfl)).mp h').symm
  · intro h'; rw [h']

/-! ### the strings of the tree -/

/-- the tree is as `pInfo` builds it: tables only below StringFileInfo, vars only below VarFileInfo -/
def PInfo.Consistent (i : PInfo) : Prop :=
  match i.kind with
  | .tables _ => i.node.key.ws = strStringFileInfo
  | .vars _ => i.node.key.ws = strVarFileInfo ∧ i.node.key.ws ≠ strStringFileInfo
  | .other => i.node.key.ws ≠ strStringFileInfo ∧ i.node.key.ws ≠ strVarFileInfo

theorem pInfo_consistent (fi : Tlv) : (pInfo fi).Consistent := by
  unfold pInfo PInfo.Consistent
  by_cases h1 : fi.key.ws = strStringFileInfo
  · simp [h1]
  · by_cases h2 : fi.key.ws = strVarFileInfo
    · have hne : strVarFileInfo ≠ strStringFileInfo := by decide
      simp [h2, hne]
    · simp [h1, h2]

def PInfo.tables (i : PInfo) : List PTable := match i.kind with | .tables ts => ts | _ => []
def PInfo.vars (i : PInfo) : List Tlv := match i.kind with | .vars vs => vs | _ => []

/-- all string tables of the resource, in stored order -/
def PRoot.tables (r : PRoot) : List PTable := r.infos.flatMap PInfo.tables
/-- all vars -/
def PRoot.vars (r : PRoot) : List Tlv := r.infos.flatMap PInfo.vars

/-- (key, value) of the strings of a table, value without its terminating NUL -/
def PTable.kvs (t : PTable) : List (Sl × Sl) := t.strings.map fun x => (x.key, stripNul x.value)

/-- the language a table key names for the queries (`Language::parse`) -/
def PTable.lang (t : PTable) : Option Language := Language.parse t.node.key.ws

theorem langMatch_eq (lang : Language) (t : PTable) : langMatch lang t.node.key = decide (t.lang = some lang) := by
  unfold langMatch PTable.lang
  cases Language.parse t.node.key.ws with
  | none => simp
  | some l => simp

/-- the (key, value) slices `strings(lang)` and `value(lang, _)` look at -/
def PRoot.kvsOf (r : PRoot) (lang : Language) : List (Sl × Sl) :=
  (r.tables.filter fun t => t.lang = some lang).flatMap PTable.kvs

/-! ### strings(lang) -/

theorem foldl_const {α β} (l : List β) (s : α) : l.foldl (fun s _ => s) s = s := by
  induction l with
  | nil => rfl
  | cons _ _ ih => exact ih

theorem walkStrings_queryStrings (lang : Language) (strs : List Tlv) (s : List (Str × Str)) :
    walkStrings (queryStrings lang) strs s
      = s ++ (strs.map fun x => (x.key, stripNul x.value)).map (fun kv => (lossy kv.1.ws, lossy kv.2.ws)) := by
  unfold walkStrings
  induction strs generalizing s with
  | nil => simp
  | cons x l ih => simp only [List.foldl_cons, List.map_cons]; rw [ih]; simp [queryStrings]

theorem walkTables_queryStrings (lang : Language) (ts : List PTable) (s : List (Str × Str)) :
    ts.foldl (walkTable (queryStrings lang)) s
      = s ++ ((ts.filter fun t => t.lang = some lang).flatMap PTable.kvs).map (fun kv => (lossy kv.1.ws, lossy kv.2.ws)) := by
  induction ts generalizing s with
  | nil => simp
  | cons t l ih =>
    rw [List.foldl_cons, ih]
    by_cases h : t.lang = some lang
    · have h1 : walkTable (queryStrings lang) s t = s ++ t.kvs.map (fun kv => (lossy kv.1.ws, lossy kv.2.ws)) := by
        simp only [walkTable, queryStrings, Visitor.default, langMatch_eq, h, decide_true]
        exact walkStrings_queryStrings lang t.strings s
      simp [h1, List.filter, h]
    · have h1 : walkTable (queryStrings lang) s t = s := by
        simp only [walkTable, queryStrings, Visitor.default, langMatch_eq, h, decide_false]
      simp [h1, List.filter, h]

theorem walkInfos_queryStrings (lang : Language) (is : List PInfo) (s : List (Str × Str)) :
    is.foldl (walkInfo (queryStrings lang)) s
      = s ++ (((is.flatMap PInfo.tables).filter fun t => t.lang = some lang).flatMap PTable.kvs).map
          (fun kv => (lossy kv.1.ws, lossy kv.2.ws)) := by
  induction is generalizing s with
  | nil => simp
  | cons i l ih =>
    rw [List.foldl_cons, ih]
    have h1 : walkInfo (queryStrings lang) s i
        = s ++ ((i.tables.filter fun t => t.lang = some lang).flatMap PTable.kvs).map (fun kv => (lossy kv.1.ws, lossy kv.2.ws)) := by
      simp only [walkInfo, queryStrings, Visitor.default, walkKind, PInfo.tables]
      cases i.kind with
      | tables ts => exact walkTables_queryStrings lang ts s
      | vars vs => simp [walkVars, foldl_const]
      | other => simp
    simp [h1, List.flatMap_cons, List.filter_append, List.flatMap_append]

/-- `strings(lang)` in terms of the tree -/
theorem strings_eq (w : Sl) (hw : w.Al) (lang : Language) :
    strings w lang = .ok (match pRoots w with
      | [] => []
      | r :: _ => (r.kvsOf lang).map (fun kv => (lossy kv.1.ws, lossy kv.2.ws))) := by
  unfold strings
  rw [visit_eq_walk _ w hw]
  cases pRoots w with
  | nil => rfl
  | cons r rs =>
    simp only [walkRoots, walkRoot, queryStrings, Visitor.default]
    have := walkInfos_queryStrings lang r.infos []
    simp only [queryStrings, Visitor.default, List.nil_append] at this
    simp only [this, PRoot.kvsOf, PRoot.tables]

/-! ### value(lang, key) -/

/-- the last value stored under `key` (exact UTF-16 comparison), else `s` -/
def pick (key : Str) (s : Option Str) (kvs : List (Sl × Sl)) : Option Str :=
  kvs.foldl (fun s kv => if key.map Dec.ok = decode16 kv.1.ws then some (lossy kv.2.ws) else s) s

theorem pick_append (key : Str) (s : Option Str) (a b : List (Sl × Sl)) :
    pick key s (a ++ b) = pick key (pick key s a) b := by
  unfold pick; rw [List.foldl_append]

theorem pick_eq_last (key : Str) (s : Option Str) (kvs : List (Sl × Sl)) :
    pick key s kvs = match (kvs.filter fun kv => key.map Dec.ok = decode16 kv.1.ws).getLast? with
      | some kv => some (lossy kv.2.ws)
      | none => s := by
  unfold pick
  induction kvs generalizing s with
  | nil => rfl
  | cons kv l ih =>
    rw [List.foldl_cons, ih]
    by_cases h : key.map Dec.ok = decode16 kv.1.ws
    · have : List.filter (fun kv => decide (key.map Dec.ok = decode16 kv.1.ws)) (kv :: l)
          = kv :: List.filter (fun kv => decide (key.map Dec.ok = decode16 kv.1.ws)) l := by
        simp [List.filter, h]
      rw [this]
      cases hf : List.filter (fun kv => decide (key.map Dec.ok = decode16 kv.1.ws)) l with
      | nil => simp [h]
      | cons y ys =>
        rw [List.getLast?_cons_cons]
        cases hg : (y :: ys).getLast? with
        | none => simp at hg
        | some z => rfl
    · have : List.filter (fun kv => decide (key.map Dec.ok = decode16 kv.1.ws)) (kv :: l)
          = List.filter (fun kv => decide (key.map Dec.ok = decode16 kv.1.ws)) l := by
        simp [List.filter, h]
      rw [this]; simp [h]

theorem walkStrings_queryValue (lang : Language) (key : Str) (strs : List Tlv) (s : Option Str) :
    walkStrings (queryValue lang key) strs s = pick key s (strs.map fun x => (x.key, stripNul x.value)) := by
  unfold walkStrings pick
  rw [List.foldl_map]
  rfl

theorem walkTables_queryValue (lang : Language) (key : Str) (ts : List PTable) (s : Option Str) :
    ts.foldl (walkTable (queryValue lang key)) s
      = pick key s ((ts.filter fun t => t.lang = some lang).flatMap PTable.kvs) := by
  induction ts generalizing s with
  | nil => rfl
  | cons t l ih =>
    rw [List.foldl_cons, ih]
    by_cases h : t.lang = some lang
    · have h1 : walkTable (queryValue lang key) s t = pick key s t.kvs := by
        simp only [walkTable, queryValue, Visitor.default, langMatch_eq, h, decide_true]
        exact walkStrings_queryValue lang key t.strings s
      simp [h1, List.filter, h, pick_append]
    · have h1 : walkTable (queryValue lang key) s t = s := by
        simp only [walkTable, queryValue, Visitor.default, langMatch_eq, h, decide_false]
      simp [h1, List.filter, h]

theorem walkInfos_queryValue (lang : Language) (key : Str) (is : List PInfo) (hc : ∀ i ∈ is, i.Consistent)
    (s : Option Str) :
    is.foldl (walkInfo (queryValue lang key)) s
      = pick key s (((is.flatMap PInfo.tables).filter fun t => t.lang = some lang).flatMap PTable.kvs) := by
  induction is generalizing s with
  | nil => rfl
  | cons i l ih =>
    rw [List.foldl_cons, ih (fun x hx => hc x (List.mem_cons_of_mem _ hx))]
    have hci := hc i (List.mem_cons_self ..)
    have h1 : walkInfo (queryValue lang key) s i
        = pick key s ((i.tables.filter fun t => t.lang = some lang).flatMap PTable.kvs) := by
      simp only [walkInfo, queryValue, Visitor.default, walkKind, PInfo.tables]
      unfold PInfo.Consistent at hci
      cases hk : i.kind with
      | tables ts =>
        rw [hk] at hci
        simp only [hci, decide_true]
        exact walkTables_queryValue lang key ts s
      | vars vs =>
        rw [hk] at hci
        simp [hci.2, pick]
      | other =>
        rw [hk] at hci
        simp [hci.1, pick]
    simp [h1, List.flatMap_cons, List.filter_append, List.flatMap_append, pick_append]

theorem pRoot_consistent (vi : Tlv) : ∀ i ∈ (pRoot vi).infos, i.Consistent := by
  intro i hi
  simp only [pRoot, List.mem_map] at hi
  obtain ⟨fi, _, rfl⟩ := hi
  exact pInfo_consistent fi

theorem pRoots_consistent (w : Sl) : ∀ r ∈ pRoots w, ∀ i ∈ r.infos, i.Consistent := by
  intro r hr
  simp only [pRoots, List.mem_map] at hr
  obtain ⟨vi, _, rfl⟩ := hr
  exact pRoot_consistent vi

/-- `value(lang, key)` in terms of the tree -/
theorem value_eq (w : Sl) (hw : w.Al) (lang : Language) (key : Str) :
    value w lang key = .ok (match pRoots w with
      | [] => none
      | r :: _ => pick key none (r.kvsOf lang)) := by
  unfold value
  rw [visit_eq_walk _ w hw]
  have hcons := pRoots_consistent w
  cases hp : pRoots w with
  | nil => rfl
  | cons r rs =>
    rw [hp] at hcons
    simp only [walkRoots, walkRoot, queryValue, Visitor.default]
    have := walkInfos_queryValue lang key r.infos (hcons r (List.mem_cons_self ..)) none
    simp only [queryValue, Visitor.default] at this
    simp only [this, PRoot.kvsOf, PRoot.tables]

/-! ### file_info() -/

/-- the inner hash map of one table -/
def PTable.entries (t : PTable) : List (Str × Str) :=
  t.kvs.foldl (fun e kv => amInsert (lossy kv.1.ws) (lossy kv.2.ws) e) []

/-- the outer hash map: one entry per table whose key parses; a later table replaces an earlier
one that names the same language -/
def stringsMap (ts : List PTable) (m : List (Language × List (Str × Str))) : List (Language × List (Str × Str)) :=
  ts.foldl (fun m t => amInsertOpt t.lang t.entries m) m

theorem walkStrings_fileInfo (l : Language) (strs : List Tlv) (e : List (Str × Str)) (s : FileInfo)
    (hs : s.lang = l) (m : List (Language × List (Str × Str))) (hm : s.strings = amInsert l e m) :
    walkStrings fileInfoVisitor strs s =
      { s with strings := amInsert l ((strs.map fun x => (x.key, stripNul x.value)).foldl
          (fun e kv => amInsert (lossy kv.1.ws) (lossy kv.2.ws) e) e) m } := by
  unfold walkStrings
  induction strs generalizing s e with
  | nil => simp only [List.foldl_nil, List.map_nil]; rw [← hm]
  | cons x l' ih =>
    simp only [List.foldl_cons, List.map_cons]
    have hstep : fileInfoVisitor.string s x.key (stripNul x.value)
        = { s with strings := amInsert l (amInsert (lossy x.key.ws) (lossy (stripNul x.value).ws) e) m } := by
      simp only [fileInfoVisitor, hs, hm, amLookup_insert_self, amInsert_insert]
    rw [hstep]
    exact ih (amInsert (lossy x.key.ws) (lossy (stripNul x.value).ws) e)
      { s with strings := amInsert l (amInsert (lossy x.key.ws) (lossy (stripNul x.value).ws) e) m } hs rfl

theorem walkTables_fileInfo (ts : List PTable) (s : FileInfo) :
    ∃ lang, ts.foldl (walkTable fileInfoVisitor) s = { s with strings := stringsMap ts s.strings, lang := lang } := by
  induction ts generalizing s with
  | nil => exact ⟨s.lang, rfl⟩
  | cons t l ih =>
    rw [List.foldl_cons]
    have h1 : ∃ lang, walkTable fileInfoVisitor s t
        = { s with strings := amInsertOpt t.lang t.entries s.strings, lang := lang } := by
      simp only [walkTable, PTable.lang]
      cases hl : Language.parse t.node.key.ws with
      | none => exact ⟨s.lang, by simp [fileInfoVisitor, hl, amInsertOpt]⟩
      | some lg =>
        refine ⟨lg, ?_⟩
        simp only [fileInfoVisitor, hl, Visitor.default]
        have := walkStrings_fileInfo lg t.strings [] { s with lang := lg, strings := amInsert lg [] s.strings } rfl s.strings rfl
        simp only [fileInfoVisitor, Visitor.default] at this
        rw [this]
        rfl
    obtain ⟨lg, h1⟩ := h1
    obtain ⟨lg2, h2⟩ := ih (walkTable fileInfoVisitor s t)
    refine ⟨lg2, ?_⟩
    rw [h2, h1]
    simp only [stringsMap, List.foldl_cons]

theorem stringsMap_append (a b : List PTable) (m : List (Language × List (Str × Str))) :
    stringsMap (a ++ b) m = stringsMap b (stringsMap a m) := by
  unfold stringsMap; rw [List.foldl_append]

/-- the translation slice: the value of the last Var named "Translation" -/
def lastTranslation (vs : List Tlv) (s : Option Sl) : Option Sl :=
  vs.foldl (fun s v => if v.key.ws = strTranslation then some v.value else s) s

theorem walkInfos_fileInfo (is : List PInfo) (s : FileInfo) :
    ∃ lang, is.foldl (walkInfo fileInfoVisitor) s =
      { s with strings := stringsMap (is.flatMap PInfo.tables) s.strings,
               langs := lastTranslation (is.flatMap PInfo.vars) s.langs, lang := lang } := by
  induction is generalizing s with
  | nil => exact ⟨s.lang, rfl⟩
  | cons i l ih =>
    rw [List.foldl_cons]
    have h1 : ∃ lang, walkInfo fileInfoVisitor s i =
        { s with strings := stringsMap i.tables s.strings, langs := lastTranslation i.vars s.langs, lang := lang } := by
      simp only [walkInfo, walkKind, PInfo.tables, PInfo.vars]
      cases i.kind with
      | tables ts =>
        obtain ⟨lg, h⟩ := walkTables_fileInfo ts s
        refine ⟨lg, ?_⟩
        simp only [fileInfoVisitor, Visitor.default] at h ⊢
        rw [h]; rfl
      | vars vs =>
        refine ⟨s.lang, ?_⟩
        simp only [fileInfoVisitor, Visitor.default, walkVars, lastTranslation, stringsMap, List.foldl_nil]
        induction vs generalizing s with
        | nil => rfl
        | cons v vs ihv =>
          simp only [List.foldl_cons]
          by_cases hv : v.key.ws = strTranslation
          · simp only [hv, if_true]; rw [ihv]
          · simp only [hv, if_false]; rw [ihv]
      | other => exact ⟨s.lang, rfl⟩
    obtain ⟨lg, h1⟩ := h1
    obtain ⟨lg2, h2⟩ := ih (walkInfo fileInfoVisitor s i)
    refine ⟨lg2, ?_⟩
    rw [h2, h1]
    simp only [List.flatMap_cons, stringsMap_append, lastTranslation, List.foldl_append]

/-- `file_info()` in terms of the tree -/
theorem fileInfo_eq (w : Sl) (hw : w.Al) :
    ∃ fi, fileInfo w = .ok fi ∧
      match pRoots w with
      | [] => fi.fixed = none ∧ fi.strings = [] ∧ fi.langs = none
      | r :: _ => fi.fixed = fixedSl r.node.value ∧ fi.strings = stringsMap r.tables [] ∧
          fi.langs = lastTranslation r.vars none := by
  unfold fileInfo
  rw [visit_eq_walk _ w hw]
  refine ⟨_, rfl, ?_⟩
  cases pRoots w with
  | nil => exact ⟨rfl, rfl, rfl⟩
  | cons r rs =>
    simp only [walkRoots, walkRoot]
    obtain ⟨lg, h⟩ := walkInfos_fileInfo r.infos
      (fileInfoVisitor.enterScope (fileInfoVisitor.versionInfo {} r.node.key (fixedSl r.node.value)).1 0)
    simp only [fileInfoVisitor, Visitor.default] at h ⊢
    rw [h]
    exact ⟨rfl, rfl, rfl⟩

/-! ### fixed(), translation(), source_code() -/

theorem walkInfos_queryFixed (is : List PInfo) (s : Option Sl) : is.foldl (walkInfo queryFixed) s = s := by
  induction is generalizing s with
  | nil => rfl
  | cons i l ih => rw [List.foldl_cons]; simpa [walkInfo, queryFixed, Visitor.default] using ih s

/-- `fixed()` in terms of the tree -/
theorem fixed_eq (w : Sl) (hw : w.Al) :
    fixed w = .ok (match pRoots w with | [] => none | r :: _ => fixedSl r.node.value) := by
  unfold fixed
  rw [visit_eq_walk _ w hw]
  cases pRoots w with
  | nil => rfl
  | cons r rs =>
    simp only [walkRoots, walkRoot]
    have := walkInfos_queryFixed r.infos (fixedSl r.node.value)
    simp only [queryFixed, Visitor.default] at this ⊢
    rw [this]

theorem walkInfos_queryTranslation (is : List PInfo) (hc : ∀ i ∈ is, i.Consistent) (s : Option Sl) :
    is.foldl (walkInfo queryTranslation) s = lastTranslation (is.flatMap PInfo.vars) s := by
  induction is generalizing s with
  | nil => rfl
  | cons i l ih =>
    rw [List.foldl_cons, ih (fun x hx => hc x (List.mem_cons_of_mem _ hx))]
    have hci := hc i (List.mem_cons_self ..)
    have h1 : walkInfo queryTranslation s i = lastTranslation i.vars s := by
      simp only [walkInfo, queryTranslation, Visitor.default, walkKind, PInfo.vars]
      unfold PInfo.Consistent at hci
      cases hk : i.kind with
      | tables ts =>
        rw [hk] at hci
        have hne : strStringFileInfo ≠ strVarFileInfo := by decide
        simp [hci, hne, lastTranslation]
      | vars vs =>
        rw [hk] at hci
        simp only [hci.1, decide_true, walkVars, lastTranslation]
      | other =>
        rw [hk] at hci
        simp [hci.2, lastTranslation]
    simp only [h1, List.flatMap_cons, lastTranslation, List.foldl_append]

/-- `translation()` in terms of the tree -/
theorem translation_eq (w : Sl) (hw : w.Al) :
    translation w = .ok (match pRoots w with | [] => none | r :: _ => lastTranslation r.vars none) := by
  unfold translation
  rw [visit_eq_walk _ w hw]
  have hcons := pRoots_consistent w
  cases hp : pRoots w with
  | nil => rfl
  | cons r rs =>
    rw [hp] at hcons
    simp only [walkRoots, walkRoot]
    have := walkInfos_queryTranslation r.infos (hcons r (List.mem_cons_self ..)) none
    simp only [queryTranslation, Visitor.default] at this ⊢
    rw [this]; rfl

theorem replay_source (es : List Event) (s : Str) :
    es.foldl (replay sourceVisitor) (s, none) = (s ++ es.flatMap renderEvent, none) := by
  induction es generalizing s with
  | nil => simp
  | cons e l ih =>
    rw [List.foldl_cons]
    have : replay sourceVisitor (s, none) e = (s ++ renderEvent e, none) := by
      cases e <;> simp [replay, sourceVisitor]
    rw [this, ih]; simp

/-- `source_code()` renders the event list, callback by callback -/
theorem sourceCode_eq (w : Sl) (hw : w.Al) :
    sourceCode w = .ok ((flatRoots (pRoots w)).flatMap renderEvent) := by
  unfold sourceCode
  rw [visit_eq_walk _ w hw]
  have h := replay_roots sourceVisitor (fun _ _ _ => rfl) (pRoots w) []
  rw [replay_source] at h
  have := congrArg Prod.fst h
  simp only [List.nil_append] at this
  rw [← this]

/-! ### what the events say about the tree -/

/-- the stored keys of all strings, in order -/
def stringKeys (es : List Event) : List (List Nat) :=
  es.filterMap fun | .string k _ => some k.ws | _ => none

/-- the languages named by the string tables whose key parses, in order -/
def tableLangs (es : List Event) : List Language :=
  es.filterMap fun | .stringTable k => Language.parse k.ws | _ => none

theorem filterMap_flatMap {α β γ} (f : β → Option γ) (g : α → List β) (l : List α) :
    (l.flatMap g).filterMap f = l.flatMap (fun x => (g x).filterMap f) := by
  induction l with
  | nil => rfl
  | cons a l ih => simp [List.flatMap_cons, List.filterMap_append, ih]

theorem stringKeys_flatRoot (r : PRoot) :
    stringKeys (flatRoot r) = r.tables.flatMap (fun t => t.kvs.map (·.1.ws)) := by
  unfold stringKeys flatRoot PRoot.tables
  simp only [List.cons_append, List.nil_append, List.filterMap_cons, List.filterMap_append, List.filterMap_nil,
    List.append_nil, filterMap_flatMap]
  induction r.infos with
  | nil => rfl
  | cons i is ih =>
    simp only [List.flatMap_cons, List.flatMap_append, ih]
    congr 1
    unfold flatInfo PInfo.tables
    simp only [List.cons_append, List.nil_append, List.filterMap_cons, List.filterMap_append, List.filterMap_nil,
      List.append_nil]
    cases i.kind with
    | tables ts =>
      simp only [flatKind, filterMap_flatMap]
      induction ts with
      | nil => rfl
      | cons t ts iht =>
        simp only [List.flatMap_cons, iht]
        congr 1
        simp only [flatTable, flatStrings, PTable.kvs, List.cons_append, List.nil_append, List.filterMap_cons,
          List.filterMap_append, List.filterMap_nil, List.append_nil, List.filterMap_map, List.map_map]
        induction t.strings with
        | nil => rfl
        | cons x l ih => simp [List.filterMap_cons, ih]
    | vars vs =>
      simp only [flatKind, List.flatMap_nil, List.filterMap_map]
      induction vs with
      | nil => rfl
      | cons x l ih => simp [List.filterMap_cons, ih]
    | other => simp [flatKind]

theorem tableLangs_flatRoot (r : PRoot) : tableLangs (flatRoot r) = r.tables.filterMap PTable.lang := by
  unfold tableLangs flatRoot PRoot.tables
  simp only [List.cons_append, List.nil_append, List.filterMap_cons, List.filterMap_append, List.filterMap_nil,
    List.append_nil, filterMap_flatMap]
  induction r.infos with
  | nil => rfl
  | cons i is ih =>
    simp only [List.flatMap_cons, List.filterMap_append, ih]
    congr 1
    unfold flatInfo PInfo.tables
    simp only [List.cons_append, List.nil_append, List.filterMap_cons, List.filterMap_append, List.filterMap_nil,
      List.append_nil]
    cases i.kind with
    | tables ts =>
      simp only [flatKind, filterMap_flatMap]
      induction ts with
      | nil => rfl
      | cons t ts iht =>
        simp only [List.flatMap_cons, List.filterMap_cons, iht]
        have : (flatTable t).filterMap (fun | .stringTable k => Language.parse k.ws | _ => none)
            = (match t.lang with | some l => [l] | none => []) := by
          simp only [flatTable, flatStrings, List.cons_append, List.nil_append, List.filterMap_cons,
            List.filterMap_append, List.filterMap_nil, List.append_nil, List.filterMap_map, PTable.lang]
          have : List.filterMap ((fun x => match x with | Event.stringTable k => Language.parse k.ws | _ => none) ∘
              fun x => Event.string x.key (stripNul x.value)) t.strings = [] := by
            induction t.strings with
            | nil => rfl
            | cons x l ih => simp [List.filterMap_cons, ih]
          rw [this]
          cases Language.parse t.node.key.ws <;> simp
        rw [this]
        cases t.lang <;> simp
    | vars vs =>
      simp only [flatKind, List.filterMap_map]
      induction vs with
      | nil => rfl
      | cons x l ih => simp [List.filterMap_cons, ih]
    | other => simp [flatKind]

/-! ### agreement of the queries -/

theorem filter_le_one_of_nodup {α β} [DecidableEq β] (f : α → Option β) (b : β) (l : List α)
    (h : (l.filterMap f).Nodup) : (l.filter fun x => f x = some b) = [] ∨ ∃ x, (l.filter fun x => f x = some b) = [x] := by
  induction l with
  | nil => exact Or.inl rfl
  | cons x l ih =>
    cases hx : f x with
    | none =>
      have h' : (l.filterMap f).Nodup := by simpa [List.filterMap_cons, hx] using h
      have : (List.filter (fun x => decide (f x = some b)) (x :: l)) = List.filter (fun x => decide (f x = some b)) l := by
        simp [List.filter, hx]
      rw [this]; exact ih h'
    | some c =>
      have h' : c ∉ l.filterMap f ∧ (l.filterMap f).Nodup := by
        simpa [List.filterMap_cons, hx, List.nodup_cons] using h
      by_cases hcb : c = b
      · subst hcb
        have hnil : List.filter (fun x => decide (f x = some c)) l = [] := by
          rw [List.filter_eq_nil_iff]
          intro y hy hfy
          simp only [decide_eq_true_eq] at hfy
          exact h'.1 (List.mem_filterMap.mpr ⟨y, hy, hfy⟩)
        refine Or.inr ⟨x, ?_⟩
        simp [List.filter, hx, hnil]
      · have : (List.filter (fun x => decide (f x = some b)) (x :: l)) = List.filter (fun x => decide (f x = some b)) l := by
          have : ¬ (some c = some b) := by simpa using hcb
          simp [List.filter, hx, this]
        rw [this]; exact ih h'.2

theorem entries_lookup (t : PTable) (key : Str) :
    amLookup key t.entries = ((t.kvs.filter fun kv => lossy kv.1.ws = key).getLast?).map (fun kv => lossy kv.2.ws) := by
  have := amLookup_foldl_insert (fun kv : Sl × Sl => some (lossy kv.1.ws)) (fun kv => lossy kv.2.ws) key t.kvs []
  simp only [amLookup, amInsertOpt, Option.some.injEq] at this
  unfold PTable.entries
  rw [this]
  cases (List.filter (fun x => decide (lossy x.fst.ws = key)) t.kvs).getLast? <;> rfl

theorem pick_valid (key : Str) (kvs : List (Sl × Sl)) (hv : ∀ kv ∈ kvs, validUtf16 kv.1.ws = true) :
    pick key none kvs = ((kvs.filter fun kv => lossy kv.1.ws = key).getLast?).map (fun kv => lossy kv.2.ws) := by
  rw [pick_eq_last]
  have : (kvs.filter fun kv => key.map Dec.ok = decode16 kv.1.ws) = (kvs.filter fun kv => lossy kv.1.ws = key) := by
    apply List.filter_congr
    intro kv hkv
    have := keyMatch_iff (hv kv hkv) key
    by_cases h : lossy kv.1.ws = key
    · simp [h, this.mpr h]
    · have h' : ¬ (key.map Dec.ok = decode16 kv.1.ws) := fun h'' => h (this.mp h'')
      simp [h, h']
  rw [this]
  cases (List.filter (fun kv => decide (lossy kv.fst.ws = key)) kvs).getLast? <;> rfl

/-- `value` is the last matching entry of what `strings` enumerates (tree level) -/
theorem value_strings_agree_tree (r : PRoot) (lang : Language) (key : Str)
    (hv : ∀ kv ∈ r.kvsOf lang, validUtf16 kv.1.ws = true) :
    pick key none (r.kvsOf lang)
      = ((((r.kvsOf lang).map (fun kv => (lossy kv.1.ws, lossy kv.2.ws))).filter (fun p => p.1 = key)).getLast?).map (·.2) := by
  rw [pick_valid key _ hv, List.filter_map, List.getLast?_map, Option.map_map]
  rfl

theorem stringsMap_lookup (ts : List PTable) (lang : Language) :
    amLookup lang (stringsMap ts []) = ((ts.filter fun t => t.lang = some lang).getLast?).map PTable.entries := by
  have := amLookup_foldl_insert PTable.lang PTable.entries lang ts []
  unfold stringsMap
  simp only [amLookup] at this
  rw [this]
  cases (List.filter (fun x => decide (x.lang = some lang)) ts).getLast? <;> rfl

/-- the hash-map dump and `value` agree when no two string tables name the same language and
the stored keys are valid UTF-16 (tree level) -/
theorem fileInfo_value_agree_tree (r : PRoot) (lang : Language) (key : Str)
    (hv : ∀ kv ∈ r.kvsOf lang, validUtf16 kv.1.ws = true)
    (hn : (r.tables.filterMap PTable.lang).Nodup) :
    (amLookup lang (stringsMap r.tables [])).bind (amLookup key) = pick key none (r.kvsOf lang) := by
  rw [stringsMap_lookup]
  rw [pick_valid key _ hv]
  unfold PRoot.kvsOf at hv ⊢
  rcases filter_le_one_of_nodup PTable.lang lang r.tables hn with h | ⟨t, h⟩
  · rw [h]; rfl
  · rw [h]
    simp only [List.getLast?_singleton, Option.map_some, Option.bind_some, List.flatMap_cons, List.flatMap_nil,
      List.append_nil]
    exact entries_lookup t key

end Pelite.Version
