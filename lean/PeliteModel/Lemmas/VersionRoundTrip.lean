import PeliteModel.Lemmas.VersionTree
/-!
C13 helper lemmas, part 4: what the reference writer writes, the parser reads back.
-/
set_option linter.unusedSimpArgs false
set_option linter.unnecessarySimpa false

namespace Pelite.Version
open Spec

/-! ### list helpers -/

theorem drop_app {α} (X Y : List α) {k : Nat} (h : X.length = k) : (X ++ Y).drop k = Y := by
  subst h; simp

theorem take_app {α} (X Y : List α) {k : Nat} (h : X.length = k) : (X ++ Y).take k = X := by
  subst h; simp

theorem takeWhile_key (key rest : List Nat) (hk : keyOk key = true) :
    (key ++ 0 :: rest).takeWhile (fun x => x != 0) = key := by
  induction key with
  | nil => simp [List.takeWhile]
  | cons a l ih =>
    simp only [keyOk, List.all_cons, Bool.and_eq_true] at hk
    simp only [List.cons_append, List.takeWhile, hk.1]
    rw [ih (by simpa [keyOk] using hk.2)]

theorem align2_eq (x : Nat) : align2 x = x + x % 2 := by unfold align2; omega

theorem pad_length (n : Nat) : (pad n).length = n % 2 := by simp [pad]

/-! ### the writer -/

theorem encodeList_eq (tight : Bool) (ns : List Node) :
    encodeList tight ns = encSiblings (ns.map (Spec.encode tight)) := by
  induction ns with
  | nil => simp [encodeList, encSiblings]
  | cons n l ih => simp [encodeList, encSiblings, ih]

/-- what follows the key's terminator inside a written structure -/
def encTail (tight : Bool) (key value body : List Nat) : List Nat :=
  if value.isEmpty && body.isEmpty then (if tight then [] else pad (3 + (key ++ [0]).length))
  else pad (3 + (key ++ [0]).length) ++ value ++ (if body.isEmpty then [] else pad value.length ++ body)

theorem encNode_eq (tight : Bool) (key value : List Nat) (text : Bool) (body : List Nat) :
    encNode tight key value text body =
      [2 * (4 + key.length + (encTail tight key value body).length),
        (if text then value.length else 2 * value.length), (if text then 1 else 0)]
      ++ (key ++ (0 :: encTail tight key value body)) := by
  simp only [encNode, encTail, List.length_append, List.length_cons, List.length_nil]
  have : ∀ x : Nat, 2 * (3 + (key.length + (0 + 1)) + x) = 2 * (4 + key.length + x) := by intro x; omega
  simp [this]

theorem encTail_decomp (tight : Bool) (key value body : List Nat) :
    ∃ p1 p2 : List Nat, encTail tight key value body = p1 ++ (value ++ (p2 ++ body)) ∧
      (p1.length = key.length % 2 ∨ (p1 = [] ∧ value = [] ∧ body = [] ∧ p2 = [])) ∧
      ((p2.length = value.length % 2 ∧ body ≠ []) ∨ (p2 = [] ∧ body = [])) := by
  have hp : (pad (3 + (key ++ [0]).length)).length = key.length % 2 := by
    simp only [pad_length, List.length_append, List.length_cons, List.length_nil]; omega
  by_cases hb : body = []
  · subst hb
    by_cases hv : value = []
    · subst hv
      cases tight
      · exact ⟨pad (3 + (key ++ [0]).length), [], by simp [encTail], Or.inl hp, Or.inr ⟨rfl, rfl⟩⟩
      · exact ⟨[], [], by simp [encTail], Or.inr ⟨rfl, rfl, rfl, rfl⟩, Or.inr ⟨rfl, rfl⟩⟩
    · have : value.isEmpty = false := by simpa [List.isEmpty_iff] using hv
      exact ⟨pad (3 + (key ++ [0]).length), [], by simp [encTail, this], Or.inl hp, Or.inr ⟨rfl, rfl⟩⟩
  · have : body.isEmpty = false := by simpa [List.isEmpty_iff] using hb
    exact ⟨pad (3 + (key ++ [0]).length), pad value.length, by simp [encTail, this], Or.inl hp,
      Or.inl ⟨pad_length _, hb⟩⟩

/-- the shape of one written structure -/
theorem encNode_decomp (tight : Bool) (key value : List Nat) (text : Bool) (body : List Nat) :
    ∃ p1 p2 : List Nat,
      encNode tight key value text body =
        [2 * (encNode tight key value text body).length, (if text then value.length else 2 * value.length),
          (if text then 1 else 0)] ++ (key ++ (0 :: (p1 ++ (value ++ (p2 ++ body))))) ∧
      (encNode tight key value text body).length = 4 + key.length + p1.length + value.length + p2.length + body.length ∧
      min (align2 key.length + 4) (encNode tight key value text body).length = 4 + key.length + p1.length ∧
      min (align2 value.length) (value.length + p2.length + body.length) = value.length + p2.length := by
  obtain ⟨p1, p2, ht, h1, h2⟩ := encTail_decomp tight key value body
  have hlen : (encNode tight key value text body).length = 4 + key.length + (encTail tight key value body).length := by
    rw [encNode_eq]; simp only [List.length_append, List.length_cons, List.length_nil]; omega
  have htl : (encTail tight key value body).length = p1.length + value.length + p2.length + body.length := by
    rw [ht]; simp only [List.length_append]; omega
  refine ⟨p1, p2, ?_, by omega, ?_, ?_⟩
  · rw [hlen]; conv => lhs; rw [encNode_eq]
    rw [ht]
  · rw [hlen, htl, align2_eq]
    rcases h1 with h1 | ⟨h1, hv, hb, hp2⟩
    · omega
    · subst h1 hv hb hp2; simp only [List.length_nil]; omega
  · rw [align2_eq]
    rcases h2 with ⟨h2, hb⟩ | ⟨h2, hb⟩
    · have : body.length ≠ 0 := fun h => hb (List.length_eq_zero_iff.mp h)
      omega
    · subst h2 hb; simp only [List.length_nil]; omega

/-- the value-length convention of a written structure matches the one the parser applies at its level -/
def Compat (vlt : Vlt) (text : Bool) (value : List Nat) : Prop :=
  match vlt with
  | .zero => value = []
  | .bytes => text = false ∨ value = []
  | .words => text = true ∨ value = []

/-- **one structure read back**: `parse_tlv` on a written structure followed by nothing, or by the
padding and further words, returns its key, value and children body, and resumes after the padding -/
theorem parseTlv_encNode (vlt : Vlt) (tight : Bool) (key value : List Nat) (text : Bool) (body tl more : List Nat)
    (off : Nat) (hk : keyOk key = true) (hc : Compat vlt text value)
    (htl : (tl = [] ∧ more = []) ∨ tl = pad (encNode tight key value text body).length ++ more) :
    ∃ t r, parseTlv vlt ⟨off, encNode tight key value text body ++ tl⟩ = .ok (t, r) ∧
      t.key.ws = key ∧ t.value.ws = value ∧ t.children.ws = body ∧ r.ws = more := by
  obtain ⟨p1, p2, hn, hN, hb, hcc⟩ := encNode_decomp tight key value text body
  generalize hndef : encNode tight key value text body = n at *
  generalize hNdef : n.length = N at *
  have hws : (⟨off, n ++ tl⟩ : Sl).ws = n ++ tl := rfl
  have hL : nodeLen ⟨off, n ++ tl⟩ = N := by
    unfold nodeLen
    rw [hws, hn]
    simp only [List.cons_append, List.getD_cons_zero]
    omega
  have hvl : valueLen vlt ⟨off, n ++ tl⟩ = some value.length := by
    unfold valueLen
    rw [hws, hn]
    simp only [List.cons_append, List.getD_cons_succ, List.getD_cons_zero]
    cases vlt
    · have : value = [] := hc
      subst this; simp
    · rcases hc with h | h
      · subst h; simp
      · subst h; simp
    · rcases hc with h | h
      · subst h; simp
      · subst h; simp
  have htake : (n ++ tl).take N = n := take_app n tl hNdef
  have hK : (((⟨off, n ++ tl⟩ : Sl).ws.take (nodeLen ⟨off, n ++ tl⟩)).drop 3).takeWhile (fun x => x != 0) = key := by
    rw [hL, hws, htake, hn]
    simp only [List.cons_append, List.nil_append, List.drop_succ_cons, List.drop_zero]
    exact takeWhile_key key _ hk
  have h := parseTlv_eq_ok vlt ⟨off, n ++ tl⟩ value.length key
    (by rw [hws, List.length_append]; omega) (by rw [hws, hL, List.length_append]; omega) hvl hK
    (by rw [hL]; omega) (by rw [hL, hb]; omega)
  refine ⟨_, _, h, rfl, ?_, ?_, ?_⟩
  · simp only [hL, hws, htake, hb]
    rw [hn]
    have e1 : [2 * N, if text = true then value.length else 2 * value.length, if text = true then 1 else 0] ++
        (key ++ 0 :: (p1 ++ (value ++ (p2 ++ body)))) =
        ([2 * N, if text = true then value.length else 2 * value.length, if text = true then 1 else 0] ++
          key ++ [0] ++ p1) ++ (value ++ (p2 ++ body)) := by simp
    rw [e1, drop_app _ _ (by simp; omega), take_app _ _ rfl]
  · simp only [hL, hws, htake, hb]
    rw [hn]
    have e1 : [2 * N, if text = true then value.length else 2 * value.length, if text = true then 1 else 0] ++
        (key ++ 0 :: (p1 ++ (value ++ (p2 ++ body)))) =
        ([2 * N, if text = true then value.length else 2 * value.length, if text = true then 1 else 0] ++
          key ++ [0] ++ p1) ++ ((value ++ p2) ++ body) := by simp
    have e2 : N - (4 + key.length + p1.length) = value.length + p2.length + body.length := by omega
    rw [e1, drop_app _ _ (by simp; omega), e2, hcc, drop_app _ _ (by simp)]
  · simp only [hL, hws]
    rcases htl with ⟨h1, h2⟩ | h1
    · subst h1 h2
      simp only [List.append_nil, hNdef]
      have : min (align2 N) N = N := by have := align2_ge N; omega
      rw [this]; simp [← hNdef]
    · subst h1
      have hp : (pad N).length = N % 2 := pad_length N
      have : min (align2 N) (n ++ (pad N ++ more)).length = N + (pad N).length := by
        simp only [List.length_append, hNdef, align2_eq, hp]; omega
      rw [this]
      have e1 : n ++ (pad N ++ more) = (n ++ pad N) ++ more := by simp
      rw [e1, drop_app _ _ (by simp [hNdef])]

/-! ### one level read back -/

/-- what is written for one structure: key, value, text flag and the written children -/
structure ND where
  key : List Nat
  value : List Nat
  text : Bool
  body : List Nat

def ND.enc (tight : Bool) (d : ND) : List Nat := encNode tight d.key d.value d.text d.body

def Tlv.content (t : Tlv) : List Nat × List Nat × List Nat := (t.key.ws, t.value.ws, t.children.ws)

theorem encNode_length_ge (tight : Bool) (key value : List Nat) (text : Bool) (body : List Nat) :
    4 ≤ (encNode tight key value text body).length := by
  obtain ⟨p1, p2, _, hN, _, _⟩ := encNode_decomp tight key value text body
  omega

/-- **one level read back**: the loop over written siblings sees exactly them, in order -/
theorem items_encSiblings (vlt : Vlt) (tight : Bool) (ds : List ND)
    (h : ∀ d ∈ ds, keyOk d.key = true ∧ Compat vlt d.text d.value) (off : Nat) :
    (items vlt ⟨off, encSiblings (ds.map (ND.enc tight))⟩).map Tlv.content
      = ds.map (fun d => (d.key, d.value, d.body)) := by
  induction ds generalizing off with
  | nil => rw [items_nil (by simp [encSiblings, Sl.len])]; rfl
  | cons d ds ih =>
    have hd := h d (List.mem_cons_self ..)
    have hrest := fun x hx => h x (List.mem_cons_of_mem _ hx)
    simp only [List.map_cons, encSiblings]
    by_cases hds : ds = []
    · subst hds
      simp only [List.map_nil, List.isEmpty_nil, if_true]
      obtain ⟨t, r, hp, h1, h2, h3, h4⟩ := parseTlv_encNode vlt tight d.key d.value d.text d.body [] [] off
        hd.1 hd.2 (Or.inl ⟨rfl, rfl⟩)
      have h0 : (⟨off, ND.enc tight d ++ []⟩ : Sl).len ≠ 0 := by
        have := encNode_length_ge tight d.key d.value d.text d.body
        simp only [Sl.len, List.append_nil, ND.enc]; omega
      rw [items_ok h0 hp, items_nil (by simp [Sl.len, h4])]
      simp [Tlv.content, h1, h2, h3]
    · have hne : (ds.map (ND.enc tight)).isEmpty = false := by
        cases ds with
        | nil => exact absurd rfl hds
        | cons _ _ => rfl
      simp only [hne, Bool.false_eq_true, if_false]
      obtain ⟨t, r, hp, h1, h2, h3, h4⟩ := parseTlv_encNode vlt tight d.key d.value d.text d.body
        (pad (ND.enc tight d).length ++ encSiblings (ds.map (ND.enc tight))) (encSiblings (ds.map (ND.enc tight))) off
        hd.1 hd.2 (Or.inr rfl)
      have h0 : (⟨off, ND.enc tight d ++ (pad (ND.enc tight d).length ++ encSiblings (ds.map (ND.enc tight)))⟩ : Sl).len ≠ 0 := by
        have := encNode_length_ge tight d.key d.value d.text d.body
        simp only [Sl.len, List.length_append, ND.enc]; omega
      have hp' : parseTlv vlt ⟨off, ND.enc tight d ++ (pad (ND.enc tight d).length ++ encSiblings (ds.map (ND.enc tight)))⟩ = .ok (t, r) := hp
      rw [items_ok h0 hp']
      have hr : r = ⟨r.off, encSiblings (ds.map (ND.enc tight))⟩ := by
        cases r; simp only at h4; rw [h4]
      rw [hr, List.map_cons, ih hrest r.off]
      simp [Tlv.content, h1, h2, h3]

/-! ### the whole resource read back -/

/-- an event without the offsets: what was reported, not where it lies -/
def Event.erase : Event → SEvent
  | .versionInfo k f => .versionInfo k.ws (f.map (·.ws))
  | .fileInfo k => .fileInfo k.ws
  | .stringTable k => .stringTable k.ws
  | .string k v => .string k.ws v.ws
  | .var k v => .var k.ws v.ws
  | .enter d => .enter d
  | .exit d => .exit d

theorem stripNul_ws (v : Sl) : (stripNul v).ws = stripTerminator v.ws := by
  unfold stripNul stripTerminator
  rcases List.eq_nil_or_concat v.ws with h | ⟨init, x, h⟩
  · simp [h]
  · rw [List.concat_eq_append] at h
    have h1 : v.ws.getLast? = some x := by simp [h]
    have h2 : v.ws.reverse = x :: init.reverse := by simp [h]
    rw [h1, h2]
    by_cases hx : x = 0
    · subst hx
      simp [h, Sl.take, Sl.len]
    · have : (some x ≠ some 0) := by simpa using hx
      rw [if_pos this]
      split
      · rename_i r heq; simp only [List.cons.injEq] at heq; exact absurd heq.1 hx
      · rfl

theorem flatMap_congr_of_map_eq {α β γ δ : Type} {c : α → γ} {f : β → γ} (F : α → List δ) (G : β → List δ) :
    ∀ (l : List α) (ds : List β), l.map c = ds.map f →
      (∀ a b, b ∈ ds → c a = f b → F a = G b) → l.flatMap F = ds.flatMap G := by
  intro l
  induction l with
  | nil =>
    intro ds h _
    cases ds with
    | nil => rfl
    | cons _ _ => simp at h
  | cons a l ih =>
    intro ds h hFG
    cases ds with
    | nil => simp at h
    | cons b ds =>
      simp only [List.map_cons, List.cons.injEq] at h
      simp only [List.flatMap_cons]
      rw [hFG a b (List.mem_cons_self ..) h.1, ih ds h.2 (fun a' b' hb' => hFG a' b' (List.mem_cons_of_mem _ hb'))]

theorem encode_mk (tight : Bool) (key value : List Nat) (text : Bool) (children : List Node) :
    Spec.encode tight (.mk key value text children)
      = encNode tight key value text (encSiblings (children.map (Spec.encode tight))) := by
  rw [Spec.encode, encodeList_eq]

theorem sl_eta (c : Sl) (ws : List Nat) (h : c.ws = ws) : c = ⟨c.off, ws⟩ := by
  cases c; simp only at h; rw [h]

/-- strings of one table -/
theorem level_strings (tight : Bool) (c : Sl) (strs : List VStr)
    (hc : c.ws = encodeList tight (strs.map VStr.node)) (hwf : ∀ s ∈ strs, s.wf = true) :
    (flatStrings (items .words c)).map Event.erase
      = strs.map (fun s => SEvent.string s.key (stripTerminator s.stored)) := by
  have henc : encodeList tight (strs.map VStr.node)
      = encSiblings ((strs.map (fun s => (⟨s.key, s.stored, true, []⟩ : ND))).map (ND.enc tight)) := by
    rw [encodeList_eq, List.map_map, List.map_map]
    congr 1
  have hitems := items_encSiblings .words tight (strs.map (fun s => (⟨s.key, s.stored, true, []⟩ : ND)))
    (by
      intro d hd
      obtain ⟨s, hs, rfl⟩ := List.mem_map.mp hd
      exact ⟨hwf s hs, Or.inl rfl⟩) c.off
  rw [← henc, ← hc, ← sl_eta c c.ws rfl] at hitems
  have : (flatStrings (items .words c)).map Event.erase
      = ((items .words c).map Tlv.content).map (fun p => SEvent.string p.1 (stripTerminator p.2.1)) := by
    simp only [flatStrings, List.map_map]
    apply List.map_congr_left
    intro t _
    simp [Event.erase, Tlv.content, stripNul_ws]
  rw [this, hitems, List.map_map, List.map_map]
  rfl

/-- the string tables of a StringFileInfo block -/
theorem level_tables (tight : Bool) (c : Sl) (ts : List VTable)
    (hc : c.ws = encodeList tight (ts.map VTable.node)) (hwf : ∀ t ∈ ts, t.wf = true) :
    (((items .zero c).map pTable).flatMap flatTable).map Event.erase = ts.flatMap VTable.events := by
  have henc : encodeList tight (ts.map VTable.node)
      = encSiblings ((ts.map (fun t => (⟨t.lang, [], true, encodeList tight (t.strings.map VStr.node)⟩ : ND))).map (ND.enc tight)) := by
    rw [encodeList_eq, List.map_map, List.map_map]
    congr 1
  have hitems := items_encSiblings .zero tight
    (ts.map (fun t => (⟨t.lang, [], true, encodeList tight (t.strings.map VStr.node)⟩ : ND)))
    (by
      intro d hd
      obtain ⟨t, ht, rfl⟩ := List.mem_map.mp hd
      have := hwf t ht
      simp only [VTable.wf, Bool.and_eq_true] at this
      exact ⟨this.1, rfl⟩) c.off
  rw [← henc, ← hc, ← sl_eta c c.ws rfl, List.map_map] at hitems
  rw [List.map_flatMap, List.flatMap_map]
  refine flatMap_congr_of_map_eq _ _ _ _ hitems ?_
  intro a t ht hct
  simp only [Tlv.content, Function.comp, Prod.mk.injEq] at hct
  obtain ⟨h1, _, h3⟩ := hct
  have hw := hwf t ht
  simp only [VTable.wf, Bool.and_eq_true, List.all_eq_true] at hw
  simp only [flatTable, pTable, VTable.events, List.map_append, List.map_cons, List.map_nil, Event.erase, h1,
    level_strings tight a.children t.strings h3 hw.2]

/-- the vars of a VarFileInfo block -/
theorem level_vars (tight : Bool) (c : Sl) (vs : List VVar)
    (hc : c.ws = encodeList tight (vs.map VVar.node)) (hwf : ∀ x ∈ vs, x.wf = true) :
    ((items .bytes c).map fun x => Event.var x.key x.value).map Event.erase
      = vs.map (fun x => SEvent.var x.key x.value) := by
  have henc : encodeList tight (vs.map VVar.node)
      = encSiblings ((vs.map (fun x => (⟨x.key, x.value, false, []⟩ : ND))).map (ND.enc tight)) := by
    rw [encodeList_eq, List.map_map, List.map_map]
    congr 1
  have hitems := items_encSiblings .bytes tight (vs.map (fun x => (⟨x.key, x.value, false, []⟩ : ND)))
    (by
      intro d hd
      obtain ⟨x, hx, rfl⟩ := List.mem_map.mp hd
      exact ⟨hwf x hx, Or.inl rfl⟩) c.off
  rw [← henc, ← hc, ← sl_eta c c.ws rfl] at hitems
  have : ((items .bytes c).map fun x => Event.var x.key x.value).map Event.erase
      = ((items .bytes c).map Tlv.content).map (fun p => SEvent.var p.1 p.2.1) := by
    simp only [List.map_map]
    apply List.map_congr_left
    intro t _
    simp [Event.erase, Tlv.content]
  rw [this, hitems, List.map_map, List.map_map]
  rfl

theorem kStringFileInfo_eq : kStringFileInfo = strStringFileInfo := by decide
theorem kVarFileInfo_eq : kVarFileInfo = strVarFileInfo := by decide
theorem kTranslation_eq : kTranslation = strTranslation := by decide

/-- what is written for a block -/
def blockND (tight : Bool) : VBlock → ND
  | .stringInfo ts => ⟨kStringFileInfo, [], true, encodeList tight (ts.map VTable.node)⟩
  | .varInfo vs => ⟨kVarFileInfo, [], true, encodeList tight (vs.map VVar.node)⟩

/-- the blocks below the root -/
theorem level_infos (tight : Bool) (c : Sl) (bs : List VBlock)
    (hc : c.ws = encodeList tight (bs.map VBlock.node)) (hwf : ∀ b ∈ bs, b.wf = true) :
    (((items .zero c).map pInfo).flatMap flatInfo).map Event.erase = bs.flatMap VBlock.events := by
  have henc : encodeList tight (bs.map VBlock.node) = encSiblings ((bs.map (blockND tight)).map (ND.enc tight)) := by
    rw [encodeList_eq, List.map_map, List.map_map]
    congr 1
    apply List.map_congr_left
    intro b _
    cases b <;> simp [blockND, VBlock.node, Spec.encode, ND.enc]
  have hitems := items_encSiblings .zero tight (bs.map (blockND tight))
    (by
      intro d hd
      obtain ⟨b, _, rfl⟩ := List.mem_map.mp hd
      cases b
      · exact ⟨by simp only [blockND]; decide, rfl⟩
      · exact ⟨by simp only [blockND]; decide, rfl⟩) c.off
  rw [← henc, ← hc, ← sl_eta c c.ws rfl, List.map_map] at hitems
  rw [List.map_flatMap, List.flatMap_map]
  refine flatMap_congr_of_map_eq _ _ _ _ hitems ?_
  intro a b hb hct
  have hw := hwf b hb
  cases b with
  | stringInfo ts =>
    simp only [Tlv.content, Function.comp, Prod.mk.injEq, blockND] at hct
    obtain ⟨h1, _, h3⟩ := hct
    simp only [VBlock.wf, List.all_eq_true] at hw
    have hk : a.key.ws = strStringFileInfo := by rw [h1, kStringFileInfo_eq]
    simp only [flatInfo, pInfo, hk, if_true, flatKind, VBlock.events, List.map_append, List.map_cons, List.map_nil,
      Event.erase, level_tables tight a.children ts h3 hw, kStringFileInfo_eq]
  | varInfo vs =>
    simp only [Tlv.content, Function.comp, Prod.mk.injEq, blockND] at hct
    obtain ⟨h1, _, h3⟩ := hct
    simp only [VBlock.wf, List.all_eq_true] at hw
    have hk : a.key.ws = strVarFileInfo := by rw [h1, kVarFileInfo_eq]
    have hne : strVarFileInfo ≠ strStringFileInfo := by decide
    simp only [flatInfo, pInfo, hk, hne, if_true, if_false, flatKind, VBlock.events, List.map_append, List.map_cons,
      List.map_nil, Event.erase, level_vars tight a.children vs h3 hw, kVarFileInfo_eq]

/-- **round trip**: the flattened parse tree of a written resource, offsets erased, is the
resource's event list -/
theorem flat_encode (tight : Bool) (v : VInfo) (hwf : v.wf = true) (off : Nat) :
    (flatRoots (pRoots ⟨off, v.encode tight⟩)).map Event.erase = v.events := by
  simp only [VInfo.wf, Bool.and_eq_true, List.all_eq_true] at hwf
  have henc : v.encode tight
      = encSiblings ([(⟨v.key, v.value, false, encodeList tight (v.blocks.map VBlock.node)⟩ : ND)].map (ND.enc tight)) := by
    simp [VInfo.encode, VInfo.node, Spec.encode, encSiblings, ND.enc]
  have hitems := items_encSiblings .bytes tight
    [(⟨v.key, v.value, false, encodeList tight (v.blocks.map VBlock.node)⟩ : ND)]
    (by
      intro d hd
      simp only [List.mem_singleton] at hd
      subst hd
      exact ⟨hwf.1, Or.inl rfl⟩) off
  rw [← henc] at hitems
  unfold pRoots
  cases hl : items .bytes ⟨off, v.encode tight⟩ with
  | nil => rw [hl] at hitems; simp at hitems
  | cons vi rest =>
    rw [hl] at hitems
    simp only [List.map_cons, List.map_nil, List.cons.injEq, Tlv.content, Prod.mk.injEq] at hitems
    obtain ⟨⟨h1, h2, h3⟩, _⟩ := hitems
    have hfix : (fixedSl vi.value).map (·.ws) = v.fixed := by
      simp only [fixedSl, VInfo.fixed, Sl.len, h2]
      split <;> simp [h2]
    simp only [flatRoots, flatRoot, pRoot, VInfo.events, List.map_append, List.map_cons, List.map_nil, Event.erase,
      h1, hfix, level_infos tight vi.children v.blocks h3 hwf.2, List.cons_append, List.nil_append]

end Pelite.Version
