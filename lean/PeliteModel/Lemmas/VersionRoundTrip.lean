import PeliteModel.Lemmas.VersionTree
/-!
C13 helper lemmas, part 4: what the reference writer writes, the parser reads back.
-/
namespace Pelite.Version
open Spec

/-! ### list helpers -/

theorem drop_app {α} (X Y : List α) {k : Nat} (h : X.length = k) : (X ++ Y).drop k = Y := by
  subst h; simp

theorem take_app {α} (X Y : List α) {k : Nat} (h : X.length = k) : (X ++ Y).take k = X := by
  subst h; simp

theorem takeWhile_key (key rest : List Nat) (hk : keyOk key = true) :
    (key ++ 0 :: rest).takeWhile (fun x => x != 0) = key := by
  induction key with
  | nil => simp [List.takeWhile]
  | cons a l ih =>
    simp only [keyOk, List.all_cons, Bool.and_eq_true] at hk
    simp only [List.cons_append, List.takeWhile, hk.1]
    rw [ih (by simpa [keyOk] using hk.2)]

theorem align2_eq (x : Nat) : align2 x = x + x % 2 := by unfold align2; omega

theorem pad_length (n : Nat) : (pad n).length = n % 2 := by simp [pad]

/-! ### the writer -/

theorem encodeList_eq (tight : Bool) (ns : List Node) :
    encodeList tight ns = encSiblings (ns.map (Spec.encode tight)) := by
  induction ns with
  | nil => simp [encodeList, encSiblings]
  | cons n l ih => simp [encodeList, encSiblings, ih]

/-- the shape of one written structure -/
theorem encNode_decomp (tight : Bool) (key value : List Nat) (text : Bool) (body : List Nat) :
    ∃ p1 p2 : List Nat,
      encNode tight key value text body =
        [2 * (encNode tight key value text body).length, (if text then value.length else 2 * value.length),
          (if text then 1 else 0)] ++ (key ++ (0 :: (p1 ++ (value ++ (p2 ++ body))))) ∧
      (encNode tight key value text body).length = 4 + key.length + p1.length + value.length + p2.length + body.length ∧
      min (align2 key.length + 4) (encNode tight key value text body).length = 4 + key.length + p1.length ∧
      min (align2 value.length) (value.length + p2.length + body.length) = value.length + p2.length := by
  by_cases hleaf : (value.isEmpty && body.isEmpty) = true
  · have hv : value = [] := by
      simp only [Bool.and_eq_true, List.isEmpty_iff] at hleaf; exact hleaf.1
    have hb : body = [] := by
      simp only [Bool.and_eq_true, List.isEmpty_iff] at hleaf; exact hleaf.2
    subst hv hb
    cases tight
    · refine ⟨pad (3 + (key ++ [0]).length), [], ?_, ?_, ?_, ?_⟩
      · simp [encNode]
      · simp [encNode, pad_length]; omega
      · simp [encNode, pad_length, align2_eq]; omega
      · simp [align2]
    · refine ⟨[], [], ?_, ?_, ?_, ?_⟩
      · simp [encNode]
      · simp [encNode]; omega
      · simp [encNode, align2_eq]; omega
      · simp [align2]
  · by_cases hb : body.isEmpty = true
    · have hb' : body = [] := List.isEmpty_iff.mp hb
      subst hb'
      refine ⟨pad (3 + (key ++ [0]).length), [], ?_, ?_, ?_, ?_⟩
      · simp [encNode, hleaf]
      · simp [encNode, hleaf, pad_length]; omega
      · simp [encNode, hleaf, pad_length, align2_eq]; omega
      · simp [align2_eq]
    · refine ⟨pad (3 + (key ++ [0]).length), pad value.length, ?_, ?_, ?_, ?_⟩
      · simp [encNode, hleaf, hb]
      · simp [encNode, hleaf, hb, pad_length]; omega
      · simp [encNode, hleaf, hb, pad_length, align2_eq]; omega
      · have : body.length ≠ 0 := by
          intro h; exact hb (List.isEmpty_iff.mpr (List.length_eq_zero_iff.mp h))
        simp [pad_length, align2_eq]; omega

/-- the value-length convention of a written structure matches the one the parser applies at its level -/
def Compat (vlt : Vlt) (text : Bool) (value : List Nat) : Prop :=
  match vlt with
  | .zero => value = []
  | .bytes => text = false ∨ value = []
  | .words => text = true ∨ value = []

/-- **one structure read back**: `parse_tlv` on a written structure followed by nothing, or by the
padding and further words, returns its key, value and children body, and resumes after the padding -/
theorem parseTlv_encNode (vlt : Vlt) (tight : Bool) (key value : List Nat) (text : Bool) (body tl more : List Nat)
    (off : Nat) (hk : keyOk key = true) (hc : Compat vlt text value)
    (htl : (tl = [] ∧ more = []) ∨ tl = pad (encNode tight key value text body).length ++ more) :
    ∃ t r, parseTlv vlt ⟨off, encNode tight key value text body ++ tl⟩ = .ok (t, r) ∧
      t.key.ws = key ∧ t.value.ws = value ∧ t.children.ws = body ∧ r.ws = more := by
  obtain ⟨p1, p2, hn, hN, hb, hcc⟩ := encNode_decomp tight key value text body
  generalize hndef : encNode tight key value text body = n at *
  generalize hNdef : n.length = N at *
  have hws : (⟨off, n ++ tl⟩ : Sl).ws = n ++ tl := rfl
  have hL : nodeLen ⟨off, n ++ tl⟩ = N := by
    unfold nodeLen
    rw [hws, hn]
    simp only [List.cons_append, List.getD_cons_zero]
    omega
  have hvl : valueLen vlt ⟨off, n ++ tl⟩ = some value.length := by
    unfold valueLen
    rw [hws, hn]
    simp only [List.cons_append, List.getD_cons_succ, List.getD_cons_zero]
    cases vlt
    · have : value = [] := hc
      subst this; simp
    · rcases hc with h | h
      · subst h; simp
      · subst h; simp
    · rcases hc with h | h
      · subst h; simp
      · subst h; simp
  have htake : (n ++ tl).take N = n := take_app n tl hNdef
  have hK : (((⟨off, n ++ tl⟩ : Sl).ws.take (nodeLen ⟨off, n ++ tl⟩)).drop 3).takeWhile (fun x => x != 0) = key := by
    rw [hL, hws, htake, hn]
    simp only [List.cons_append, List.nil_append, List.drop_succ_cons, List.drop_zero]
    exact takeWhile_key key _ hk
  have h := parseTlv_eq_ok vlt ⟨off, n ++ tl⟩ value.length key
    (by rw [hws, List.length_append]; omega) (by rw [hws, hL, List.length_append]; omega) hvl hK
    (by rw [hL]; omega) (by rw [hL, hb]; omega)
  refine ⟨_, _, h, rfl, ?_, ?_, ?_⟩
  · simp only [hL, hws, htake, hb]
    rw [hn]
    have e1 : [2 * N, if text = true then value.length else 2 * value.length, if text = true then 1 else 0] ++
        (key ++ 0 :: (p1 ++ (value ++ (p2 ++ body)))) =
        ([2 * N, if text = true then value.length else 2 * value.length, if text = true then 1 else 0] ++
          key ++ [0] ++ p1) ++ (value ++ (p2 ++ body)) := by simp
    rw [e1, drop_app _ _ (by simp; omega), take_app _ _ rfl]
  · simp only [hL, hws, htake, hb]
    rw [hn]
    have e1 : [2 * N, if text = true then value.length else 2 * value.length, if text = true then 1 else 0] ++
        (key ++ 0 :: (p1 ++ (value ++ (p2 ++ body)))) =
        ([2 * N, if text = true then value.length else 2 * value.length, if text = true then 1 else 0] ++
          key ++ [0] ++ p1) ++ ((value ++ p2) ++ body) := by simp
    have e2 : N - (4 + key.length + p1.length) = value.length + p2.length + body.length := by omega
    rw [e1, drop_app _ _ (by simp; omega), e2, hcc, drop_app _ _ (by simp)]
  · simp only [hL, hws]
    rcases htl with ⟨h1, h2⟩ | h1
    · subst h1 h2
      simp only [List.append_nil, hNdef]
      have : min (align2 N) N = N := by have := align2_ge N; omega
      rw [this]; simp [← hNdef]
    · subst h1
      have hp : (pad N).length = N % 2 := pad_length N
      have : min (align2 N) (n ++ (pad N ++ more)).length = N + (pad N).length := by
        simp only [List.length_append, hNdef, align2_eq, hp]; omega
      rw [this]
      have e1 : n ++ (pad N ++ more) = (n ++ pad N) ++ more := by simp
      rw [e1, drop_app _ _ (by simp [hNdef])]

/-! ### one level read back -/

/-- what is written for one structure: key, value, text flag and the written children -/
structure ND where
  key : List Nat
  value : List Nat
  text : Bool
  body : List Nat

def ND.enc (tight : Bool) (d : ND) : List Nat := encNode tight d.key d.value d.text d.body

def Tlv.content (t : Tlv) : List Nat × List Nat × List Nat := (t.key.ws, t.value.ws, t.children.ws)

theorem encNode_length_ge (tight : Bool) (key value : List Nat) (text : Bool) (body : List Nat) :
    4 ≤ (encNode tight key value text body).length := by
  obtain ⟨p1, p2, _, hN, _, _⟩ := encNode_decomp tight key value text body
  omega

/-- **one level read back**: the loop over written siblings sees exactly them, in order -/
theorem items_encSiblings (vlt : Vlt) (tight : Bool) (ds : List ND)
    (h : ∀ d ∈ ds, keyOk d.key = true ∧ Compat vlt d.text d.value) (off : Nat) :
    (items vlt ⟨off, encSiblings (ds.map (ND.enc tight))⟩).map Tlv.content
      = ds.map (fun d => (d.key, d.value, d.body)) := by
  induction ds generalizing off with
  | nil => rw [items_nil (by simp [encSiblings, Sl.len])]; rfl
  | cons d ds ih =>
    have hd := h d (List.mem_cons_self ..)
    have hrest := fun x hx => h x (List.mem_cons_of_mem _ hx)
    simp only [List.map_cons, encSiblings]
    by_cases hds : ds = []
    · subst hds
      simp only [List.map_nil, List.isEmpty_nil, if_true]
      obtain ⟨t, r, hp, h1, h2, h3, h4⟩ := parseTlv_encNode vlt tight d.key d.value d.text d.body [] [] off
        hd.1 hd.2 (Or.inl ⟨rfl, rfl⟩)
      have h0 : (⟨off, ND.enc tight d ++ []⟩ : Sl).len ≠ 0 := by
        have := encNode_length_ge tight d.key d.value d.text d.body
        simp only [Sl.len, List.append_nil, ND.enc]; omega
      rw [items_ok h0 hp, items_nil (by simp [Sl.len, h4])]
      simp [Tlv.content, h1, h2, h3]
    · have hne : (ds.map (ND.enc tight)).isEmpty = false := by
        cases ds with
        | nil => exact absurd rfl hds
        | cons _ _ => rfl
      simp only [hne]
      obtain ⟨t, r, hp, h1, h2, h3, h4⟩ := parseTlv_encNode vlt tight d.key d.value d.text d.body
        (pad (ND.enc tight d).length ++ encSiblings (ds.map (ND.enc tight))) (encSiblings (ds.map (ND.enc tight))) off
        hd.1 hd.2 (Or.inr rfl)
      have h0 : (⟨off, ND.enc tight d ++ (pad (ND.enc tight d).length ++ encSiblings (ds.map (ND.enc tight)))⟩ : Sl).len ≠ 0 := by
        have := encNode_length_ge tight d.key d.value d.text d.body
        simp only [Sl.len, List.length_append, ND.enc]; omega
      have hp' : parseTlv vlt ⟨off, ND.enc tight d ++ (if false = true then [] else pad (ND.enc tight d).length ++ encSiblings (ds.map (ND.enc tight)))⟩ = .ok (t, r) := by
        simpa using hp
      simp only [Bool.false_eq_true, if_false] at hp' ⊢
      rw [items_ok h0 hp']
      have hr : r = ⟨r.off, encSiblings (ds.map (ND.enc tight))⟩ := by
        cases r; simp only at h4; rw [h4]
      rw [hr, List.map_cons, ih hrest r.off]
      simp [Tlv.content, h1, h2, h3]

end Pelite.Version
