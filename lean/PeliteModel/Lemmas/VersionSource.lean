import PeliteModel.Lemmas.VersionLayout
/-!
C13 helper lemmas, part 10: the source-code rendering of the model (`sourceCode`, the `String`
visitor of version_info.rs) against the specification's `Spec.sourceOf`.

1. numerals: `{}` / `{:#x}` / `{:04x}` of the model (`Nat.toDigits`) against `Spec.decimal` / `hexLower` / `hex4`.
2. wide string literals: `FmtUtf16`'s `Debug` (`fmtDebug`) against `Spec.quoted`.
3. one callback, then the whole event list of an abstract resource.
4. a `String` structure that stores its value length in bytes: `parse_tlv` with `ValueLengthType::Words` fails.
-/
set_option linter.unusedSimpArgs false
set_option linter.unnecessarySimpa false

namespace Pelite.Version
open Spec

/-! ### 1. numerals -/

theorem str_eq_ofString (s : String) : str s = ofString s := rfl

theorem digitChar_dec {d : Nat} (h : d < 10) : (Nat.digitChar d).toNat = 48 + d := by
  have : d = 0 ∨ d = 1 ∨ d = 2 ∨ d = 3 ∨ d = 4 ∨ d = 5 ∨ d = 6 ∨ d = 7 ∨ d = 8 ∨ d = 9 := by omega
  rcases this with h | h | h | h | h | h | h | h | h | h <;> subst h <;> rfl

theorem digitChar_hex {d : Nat} (h : d < 16) : (Nat.digitChar d).toNat = hexDigitLower d := by
  have : d = 0 ∨ d = 1 ∨ d = 2 ∨ d = 3 ∨ d = 4 ∨ d = 5 ∨ d = 6 ∨ d = 7 ∨ d = 8 ∨ d = 9 ∨
      d = 10 ∨ d = 11 ∨ d = 12 ∨ d = 13 ∨ d = 14 ∨ d = 15 := by omega
  rcases this with h | h | h | h | h | h | h | h | h | h | h | h | h | h | h | h <;> subst h <;> rfl

/-- `Nat.toDigits 10` is the decimal numeral -/
theorem toDigits10_eq (n : Nat) : (Nat.toDigits 10 n).map Char.toNat = decimal n := by
  induction n using Nat.strongRecOn with
  | _ n ih =>
    rw [Nat.toDigits_eq_if (by decide), decimal]
    by_cases h : n < 10
    · simp only [h, if_true, List.map_cons, List.map_nil, digitChar_dec h]
    · simp only [h, if_false, List.map_append, List.map_cons, List.map_nil, ih (n / 10) (by omega),
        digitChar_dec (Nat.mod_lt n (by decide : 0 < 10))]

/-- `Nat.toDigits 16` is the lower-case hexadecimal numeral -/
theorem toDigits16_eq (n : Nat) : (Nat.toDigits 16 n).map Char.toNat = hexLower n := by
  induction n using Nat.strongRecOn with
  | _ n ih =>
    rw [Nat.toDigits_eq_if (by decide), hexLower]
    by_cases h : n < 16
    · simp only [h, if_true, List.map_cons, List.map_nil, digitChar_hex h]
    · simp only [h, if_false, List.map_append, List.map_cons, List.map_nil, ih (n / 16) (by omega),
        digitChar_hex (Nat.mod_lt n (by decide : 0 < 16))]

/-- `{}` of an unsigned integer -/
theorem dec_eq (n : Nat) : dec n = decimal n := by
  unfold dec str
  rw [Nat.toString_eq_ofList_toDigits, String.toList_ofList]
  exact toDigits10_eq n

/-- `{:#x}` -/
theorem hexx_eq (n : Nat) : hexx n = ofString "0x" ++ hexLower n := by
  unfold hexx
  rw [toDigits16_eq, str_eq_ofString]

/-- a four digit hexadecimal numeral -/
theorem hexLower_four {u : Nat} (h1 : 4096 ≤ u) (h2 : u < 65536) : hexLower u = hex4 u := by
  have e1 : u / 16 / 16 = u / 256 := by omega
  have e2 : u / 256 / 16 = u / 4096 % 16 := by omega
  rw [hexLower, if_neg (by omega), hexLower, if_neg (by omega), hexLower, if_neg (by omega), hexLower, if_pos (by omega)]
  simp only [hex4, e1, e2, List.append_assoc, List.cons_append, List.nil_append]

/-- `{:04x}` of an unpaired surrogate -/
theorem hex04_surrogate {u : Nat} (h : isSurrogate u = true) : hex04 u = hex4 u := by
  simp only [isSurrogate, Bool.and_eq_true, decide_eq_true_eq] at h
  have hl := hexLower_four (u := u) (by omega) (by omega)
  unfold hex04
  simp only [toDigits16_eq, hl]
  rfl

/-! ### 2. wide string literals -/

/-- the `match chr` of `impl Debug for FmtUtf16` -/
def escDec : Dec → Str
  | .ok 0 => str "\\0"
  | .ok 10 => str "\\n"
  | .ok 13 => str "\\r"
  | .ok 9 => str "\\t"
  | .ok 34 => str "\\\""
  | .ok 92 => str "\\\\"
  | .ok c => [c]
  | .bad u => str "\\u" ++ hex04 u

theorem fmtDebug_escDec (ws : List Nat) : fmtDebug ws = str "L\"" ++ (decode16 ws).flatMap escDec ++ str "\"" := by
  unfold fmtDebug
  congr 2

theorem escDec_ok (c : Nat) : escDec (.ok c) = escapeUnit (.scalar c) := by
  unfold escapeUnit
  by_cases h0 : c = 0
  · subst h0; rfl
  by_cases h1 : c = 10
  · subst h1; rfl
  by_cases h2 : c = 13
  · subst h2; rfl
  by_cases h3 : c = 9
  · subst h3; rfl
  by_cases h4 : c = 34
  · subst h4; rfl
  by_cases h5 : c = 92
  · subst h5; rfl
  simp only [h0, h1, h2, h3, h4, h5, if_false]
  unfold escDec
  split <;> first | contradiction | rfl | simp_all

theorem escDec_bad {u : Nat} (h : isSurrogate u = true) : escDec (.bad u) = escapeUnit (.unpaired u) := by
  show str "\\u" ++ hex04 u = ofString "\\u" ++ hex4 u
  rw [hex04_surrogate h]; rfl

/-- `char::decode_utf16` + the escapes of `FmtUtf16`'s `Debug` = the specification's reading + escapes -/
theorem decode_escape (ws : List Nat) : (decode16 ws).flatMap escDec = (read16 ws).flatMap escapeUnit := by
  fun_induction decode16 ws with
  | case1 => rfl
  | case2 u h =>
    have : (isHigh u || isLow u) = false := by rw [← isSurrogate_eq]; simpa using h
    simp [read16, this, escDec_ok]
  | case3 u h =>
    have hs : isSurrogate u = true := by simpa using h
    have : (isHigh u || isLow u) = true := by rw [← isSurrogate_eq]; exact hs
    simp [read16, this, escDec_bad hs]
  | case4 u u2 rest h ih =>
    have hs : (isHigh u || isLow u) = false := by rw [← isSurrogate_eq]; simpa using h
    have hh : isHigh u = false := by
      cases hx : isHigh u
      · rfl
      · rw [hx] at hs; simp at hs
    have hl : isLow u = false := by rw [hh] at hs; simpa using hs
    simp only [List.flatMap_cons, ih, read16, hh, hl, Bool.false_and, Bool.or_self, Bool.false_eq_true, if_false,
      escDec_ok]
  | case5 u u2 rest h h2 ih =>
    have hsur : isSurrogate u = true := by simpa using h
    have hs : (isHigh u || isLow u) = true := by rw [← isSurrogate_eq]; exact hsur
    have hh : isHigh u = false := by
      simp only [isSurrogate, Bool.not_eq_true', Bool.not_eq_false, Bool.and_eq_true, decide_eq_true_eq] at h
      simp only [isHigh, Bool.and_eq_false_iff, decide_eq_false_iff_not]
      omega
    have hl : isLow u = true := by rw [hh] at hs; simpa using hs
    simp only [List.flatMap_cons, ih, read16, hh, hl, Bool.false_and, Bool.false_or, Bool.false_eq_true, if_false, if_true,
      escDec_bad hsur]
  | case6 u u2 rest h h2 h3 ih =>
    have hsur : isSurrogate u = true := by simpa using h
    have hs : (isHigh u || isLow u) = true := by rw [← isSurrogate_eq]; exact hsur
    have hl : isLow u2 = false := by
      simp only [Bool.or_eq_true, decide_eq_true_eq] at h3
      simp only [isLow, Bool.and_eq_false_iff, decide_eq_false_iff_not]
      omega
    simp only [List.flatMap_cons, ih, read16, hl, hs, Bool.and_false, Bool.false_eq_true, if_false, if_true,
      escDec_bad hsur]
  | case7 u u2 rest h h2 h3 ih =>
    simp only [isSurrogate, Bool.not_eq_true', Bool.not_eq_false, Bool.and_eq_true, decide_eq_true_eq] at h
    simp only [Bool.or_eq_true, decide_eq_true_eq, not_or, Nat.not_lt, Nat.not_le] at h3
    have hh : isHigh u = true := by
      simp only [isHigh, Bool.and_eq_true, decide_eq_true_eq]; omega
    have hl : isLow u2 = true := by
      simp only [isLow, Bool.and_eq_true, decide_eq_true_eq]; omega
    have e : u % 1024 * 1024 + u2 % 1024 + 65536 = 0x10000 + (u - 0xD800) * 0x400 + (u2 - 0xDC00) := by omega
    simp only [List.flatMap_cons, ih, read16, hh, hl, Bool.and_self, if_true, escDec_ok, e]

/-- `{:?}` of `FmtUtf16` is the wide string literal -/
theorem fmtDebug_eq (ws : List Nat) : fmtDebug ws = quoted ws := by
  rw [fmtDebug_escDec, decode_escape]
  rfl

/-- the specification's two readings of UTF-16 agree: `text` is `read16` with the ill-formed units replaced -/
theorem text_eq_read16 (ws : List Nat) :
    text ws = (read16 ws).map (fun | .scalar c => c | .unpaired _ => 0xFFFD) := by
  fun_induction read16 ws with
  | case1 => rfl
  | case2 u => simp only [text, List.map_cons, List.map_nil]; split <;> rfl
  | case3 u u2 rest h ih => simp only [text, h, if_true, List.map_cons, ih]
  | case4 u u2 rest h ih =>
    simp only [text, h, if_false, List.map_cons, ih, Bool.false_eq_true]
    split <;> rfl

/-! ### 3. callbacks and the event list -/

/-- what one reported callback contributes to the source text, in the specification's terms -/
def renderS : SEvent → List Nat
  | .versionInfo _ (some f) => fixedSource f
  | .versionInfo _ none => []
  | .fileInfo k => line 1 (ofString "BLOCK " ++ quoted k)
  | .stringTable l => line 2 (ofString "BLOCK " ++ quoted l)
  | .string k v => line 3 (ofString "VALUE " ++ quoted k ++ ofString ", " ++ quoted v)
  | .var k v =>
    if k = kTranslation then
      line 2 (ofString "VALUE " ++ quoted k ++
        (pairs v).flatMap (fun p => ofString ", " ++ decimal p.1 ++ ofString ", " ++ decimal p.2))
    else []
  | .enter d => line d (ofString "{")
  | .exit d => line d (ofString "}")

theorem renderFixed_eq (f : List Nat) : renderFixed f = fixedSource f := by
  unfold renderFixed fixedSource versionQuad commaSep line
  simp only [dec_eq, hexx_eq, dwordAt, wordAt, hiword, loword, ffiFileVersionMS, ffiFileVersionLS,
    ffiProductVersionMS, ffiProductVersionLS, ffiFileFlagsMask, ffiFileFlags, ffiFileOS, ffiFileType, ffiFileSubtype]
  simp [str, ofString]

theorem langs_flatMap (ws : List Nat) :
    (langsOf ws).flatMap (fun l => str ", " ++ dec l.langId ++ str ", " ++ dec l.charsetId) =
    (pairs ws).flatMap (fun p => ofString ", " ++ decimal p.1 ++ ofString ", " ++ decimal p.2) := by
  rw [← langsOf_pairs, List.flatMap_map]
  simp only [dec_eq, str_eq_ofString]

theorem indent_line (d : Nat) (t : List Nat) : indent d ++ t ++ [10] = line d t := by
  simp only [indent, line, Nat.mul_comm]

/-- **one callback**: what the `String` visitor appends for a callback is determined by what was
reported (not where it lies), and is the specification's text for it -/
theorem renderEvent_eq (e : Event) : renderEvent e = renderS e.erase := by
  cases e with
  | versionInfo k f => cases f <;> simp [renderEvent, renderS, Event.erase, renderFixed_eq]
  | fileInfo k => simp [renderEvent, renderS, Event.erase, fmtDebug_eq, str, ofString, line]
  | stringTable k => simp [renderEvent, renderS, Event.erase, fmtDebug_eq, str, ofString, line]
  | string k v => simp [renderEvent, renderS, Event.erase, fmtDebug_eq, str, ofString, line]
  | var k v =>
    simp only [renderEvent, renderS, Event.erase, kTranslation_eq]
    by_cases h : k.ws = strTranslation
    · simp only [h, ne_eq, not_true_eq_false, if_false, if_true, langs_flatMap, fmtDebug_eq]
      simp [str, ofString, line]
    · simp [h]
  | enter d => simp [renderEvent, renderS, Event.erase, str, ofString, line, indent, Nat.mul_comm]
  | exit d => simp [renderEvent, renderS, Event.erase, str, ofString, line, indent, Nat.mul_comm]

theorem flatMap_renderEvent (es : List Event) : es.flatMap renderEvent = (es.map Event.erase).flatMap renderS := by
  induction es with
  | nil => rfl
  | cons e l ih => simp only [List.flatMap_cons, List.map_cons, ih, renderEvent_eq]

theorem render_strings (l : List VStr) :
    (l.map fun s => SEvent.string s.key (stripTerminator s.stored)).flatMap renderS = l.flatMap VStr.source := by
  rw [List.flatMap_map]; rfl

theorem render_table (t : VTable) : t.events.flatMap renderS = t.source := by
  simp only [VTable.events, VTable.source, List.flatMap_append, List.flatMap_cons, List.flatMap_nil, List.append_nil,
    render_strings, renderS, List.append_assoc]

theorem render_tables (ts : List VTable) : (ts.flatMap VTable.events).flatMap renderS = ts.flatMap VTable.source := by
  rw [List.flatMap_assoc]
  simp only [render_table]

theorem render_vars (vs : List VVar) :
    (vs.map fun x => SEvent.var x.key x.value).flatMap renderS = vs.flatMap VVar.source := by
  rw [List.flatMap_map]; rfl

theorem render_block (b : VBlock) : b.events.flatMap renderS = b.source := by
  cases b with
  | stringInfo ts =>
    simp only [VBlock.events, VBlock.source, List.flatMap_append, List.flatMap_cons, List.flatMap_nil, List.append_nil,
      render_tables, renderS, List.append_assoc]
  | varInfo vs =>
    simp only [VBlock.events, VBlock.source, List.flatMap_append, List.flatMap_cons, List.flatMap_nil, List.append_nil,
      render_vars, renderS, List.append_assoc]

/-- **the event list of an abstract resource, rendered callback by callback, is its source text** -/
theorem render_events (v : VInfo) : v.events.flatMap renderS = sourceOf v := by
  have hb : (v.blocks.flatMap VBlock.events).flatMap renderS = v.blocks.flatMap VBlock.source := by
    rw [List.flatMap_assoc]
    simp only [render_block]
  simp only [VInfo.events, sourceOf, List.flatMap_append, List.flatMap_cons, List.flatMap_nil, List.append_nil, hb,
    List.append_assoc]
  cases v.fixed <;> simp [renderS]

/-- `source_code()` of a block whose events are those of the abstract resource `v` -/
theorem source_of_flat (w : Sl) (hw : w.Al) (v : VInfo) (h : (flatRoots (pRoots w)).map Event.erase = v.events) :
    sourceCode w = .ok (sourceOf v) := by
  rw [sourceCode_eq w hw, ← render_events, ← h, flatMap_renderEvent]

/-! ### 4. a `String` whose value length is stored in bytes -/

/-- **`parse_tlv` with `ValueLengthType::Words` rejects a structure whose `wValueLength` counts
bytes**: for every key that can be written and every non-empty value, the structure the reference
writer produces with the binary convention (`text := false`: `wValueLength = 2 * value.length`) and
no children, followed by anything, is `Err(Invalid)` — twice the value's words do not fit into the
words that remain after the key. -/
theorem parseTlv_words_byteCounted (tight : Bool) (key value tl : List Nat) (off : Nat)
    (hk : keyOk key = true) (hv : value ≠ []) :
    parseTlv .words ⟨off, Spec.encode tight (.mk key value false []) ++ tl⟩ = .err .invalid := by
  rw [encode_mk]
  simp only [List.map_nil, encSiblings]
  have hve : value.isEmpty = false := by simpa [List.isEmpty_iff] using hv
  have hvl : 0 < value.length := List.length_pos_iff.mpr hv
  have htail : encTail tight key value [] = pad (3 + (key ++ [0]).length) ++ value := by
    simp [encTail, hve]
  have hp : (pad (3 + (key ++ [0]).length)).length = key.length % 2 := by
    simp only [pad_length, List.length_append, List.length_cons, List.length_nil]; omega
  generalize hpd : pad (3 + (key ++ [0]).length) = p1 at htail hp
  have hn : encNode tight key value false [] =
      [2 * (4 + key.length + p1.length + value.length), 2 * value.length, 0] ++ (key ++ (0 :: (p1 ++ value))) := by
    rw [encNode_eq, htail]
    simp only [List.length_append, Bool.false_eq_true, if_false]
    rw [Nat.add_assoc (4 + key.length)]
  generalize encNode tight key value false [] = n at hn
  have hN : n.length = 4 + key.length + p1.length + value.length := by
    rw [hn]; simp only [List.length_append, List.length_cons, List.length_nil]; omega
  generalize hNdef : n.length = N at *
  have hws : (⟨off, n ++ tl⟩ : Sl).ws = n ++ tl := rfl
  have hlen : (⟨off, n ++ tl⟩ : Sl).len = N + tl.length := by simp only [Sl.len, List.length_append, hNdef]
  have hL : nodeLen ⟨off, n ++ tl⟩ = N := by
    unfold nodeLen
    rw [hws, hn]
    simp only [List.cons_append, List.getD_cons_zero]
    omega
  have hvlen : valueLen .words ⟨off, n ++ tl⟩ = some (2 * value.length) := by
    unfold valueLen
    rw [hws, hn]
    simp only [List.cons_append, List.getD_cons_succ, List.getD_cons_zero]
  have htake : (n ++ tl).take N = n := take_app n tl hNdef
  have hK : ((n.drop 3).takeWhile (fun x => x != 0)) = key := by
    rw [hn]
    simp only [List.cons_append, List.nil_append, List.drop_succ_cons, List.drop_zero]
    exact takeWhile_key key _ hk
  rw [parseTlv_eq_total]
  unfold parseTlvTotal
  dsimp only
  rw [if_neg (by rw [hlen]; omega), hvlen]
  dsimp only
  rw [if_neg (by rw [hL, hlen]; omega)]
  simp only [Sl.len, Sl.drop, Sl.take, wstrn, hL, hws, htake, hK, List.length_drop, hNdef]
  rw [if_neg (by omega)]
  have hb : min (align2 key.length + 4) N = 4 + key.length + p1.length := by rw [align2_eq]; omega
  rw [hb, if_pos (by omega)]

end Pelite.Version
